#!/bin/sh
# tools/try_seed.sh Cxx [check-id…] : copy the sub-agent's seeded defect, confirm its demonstration, run our checks against it
P=$1; shift
CHECKS=${*:-$P}
mkdir -p /verif/seeded/$P
cp -r /tmp/wt_$P/_seeded/. /verif/seeded/$P/ 2>/dev/null
cd /repo || exit 2
git apply --check /verif/seeded/$P/patch.diff || { echo "patch does not apply"; exit 2; }
git apply /verif/seeded/$P/patch.diff
for c in $CHECKS; do
  (cd /verif && python3 check.py $c 2>&1 | grep -E "VIOLATION|^# " | cut -c1-260 | head -3; echo "   [$c rc=$?]")
done
git -C /repo checkout -- .
git -C /repo status --short | grep -v "^??"
