/-
  Stream layer, part 4: `muxNext` over sources that refine lists is the list-level step `lstep`
  on those lists (simulation, for every state satisfying the representation invariant `MuxInv`),
  and the properties of the merge transported to `muxNext`.
-/
import Echse.Lemmas.Stream3
namespace Echse.Stream

section
variable {σ : Type} (ops : Ops σ) (abs : σ → List Event) (I : σ → Prop)

/-- a source with its cached event -/
def mk (s : σ) : σ × Event := (s, hd (abs s))

/-- pop-and-refill of one source, as at the end of `muxNext` -/
def refill (s : σ) : σ := (ops.peek (ops.pop s).2).2

variable {ops abs I}

theorem refill_abs (R : Refines ops abs I) {s : σ} (hs : I s) : abs (refill ops s) = (abs s).tail := by
  unfold refill
  rw [R.peek_abs _ (R.pop_inv s hs), R.pop_abs s hs]

theorem refill_inv (R : Refines ops abs I) {s : σ} (hs : I s) : I (refill ops s) :=
  R.peek_inv _ (R.pop_inv s hs)

theorem refill_val (R : Refines ops abs I) {s : σ} (hs : I s) :
    (ops.peek (ops.pop s).2).1 = hd (abs (refill ops s)) := by
  rw [R.peek_val _ (R.pop_inv s hs), refill_abs R hs, R.pop_abs s hs]; rfl

theorem scan_sim (R : Refines ops abs I) (hnn : ∀ s, I s → NonNul (abs s)) :
    ∀ (ss : List σ) (i : Nat) (best : Event) (bi : Nat), (∀ s ∈ ss, I s) →
      ∃ ss' : List σ, (∀ s ∈ ss', I s) ∧ ss'.map abs = (lscan (ss.map abs) i best bi).1 ∧
        scan ops (ss.map (mk abs)) i best bi =
          (ss'.map (mk abs), (lscan (ss.map abs) i best bi).2.1, (lscan (ss.map abs) i best bi).2.2) := by
  intro ss
  induction ss with
  | nil => intro i best bi _; exact ⟨[], fun s hs => (by cases hs), rfl, rfl⟩
  | cons s ss ih =>
    intro i best bi hI
    have hs : I s := hI s List.mem_cons_self
    have hI' : ∀ s ∈ ss, I s := fun s h => hI s (List.mem_cons_of_mem _ h)
    cases habs : abs s with
    | nil =>
      obtain ⟨ss', h1, h2, h3⟩ := ih (i+1) best bi hI'
      refine ⟨s :: ss', ?_, ?_, ?_⟩
      · intro x hx
        rcases List.mem_cons.mp hx with rfl | hx
        · exact hs
        · exact h1 x hx
      · simp only [List.map_cons, habs, lscan, h2]
      · simp only [List.map_cons, mk, habs, hd_nil, scan, lscan, h3]
        simp [Event.isNul, Event.nul]
    | cons h t =>
      have hnul : h.isNul = false := hnn s hs h (by rw [habs]; exact List.mem_cons_self)
      simp only [List.map_cons, mk, habs, hd_cons, scan, lscan, hnul, Bool.false_eq_true, if_false]
      have keep : ∀ (b : Event) (k : Nat), ∃ ss' : List σ, (∀ s ∈ ss', I s) ∧
          List.map abs ss' = (h :: t) :: (lscan (List.map abs ss) (i + 1) b k).1 ∧
          ((s, h) :: (scan ops (List.map (mk abs) ss) (i + 1) b k).1,
            (scan ops (List.map (mk abs) ss) (i + 1) b k).2.1, (scan ops (List.map (mk abs) ss) (i + 1) b k).2.2) =
          (List.map (mk abs) ss', (lscan (List.map abs ss) (i + 1) b k).2.1,
            (lscan (List.map abs ss) (i + 1) b k).2.2) := by
        intro b k
        obtain ⟨ss', h1, h2, h3⟩ := ih (i+1) b k hI'
        refine ⟨s :: ss', ?_, ?_, ?_⟩
        · intro x hx
          rcases List.mem_cons.mp hx with rfl | hx
          · exact hs
          · exact h1 x hx
        · simp only [List.map_cons, habs, h2]
        · simp only [h3, List.map_cons, mk, habs, hd_cons]
      by_cases hlt : evLt h best = true
      · simp only [hlt, if_true]
        exact keep h i
      · by_cases heq : evEq h best = true
        · simp only [hlt, heq, if_true, if_false, Bool.false_eq_true]
          obtain ⟨ss', h1, h2, h3⟩ := ih (i+1) best bi hI'
          refine ⟨refill ops s :: ss', ?_, ?_, ?_⟩
          · intro x hx
            rcases List.mem_cons.mp hx with rfl | hx
            · exact refill_inv R hs
            · exact h1 x hx
          · simp only [List.map_cons, refill_abs R hs, habs, h2, List.tail_cons]
          · simp only [h3, List.map_cons, mk, ← refill_val R hs]
            rfl
        · simp only [hlt, heq, if_false, Bool.false_eq_true]
          exact keep best bi

theorem primeAll_eq (ops : Ops σ) : ∀ ss : List σ,
    primeAll ops ss = (ss.map (fun s => (ops.peek s).1), ss.map (fun s => (ops.peek s).2)) := by
  intro ss
  induction ss with
  | nil => rfl
  | cons s ss ih => simp only [primeAll, ih, List.map_cons]

theorem zip_map_mk (abs : σ → List Event) : ∀ ss : List σ,
    ss.zip (ss.map (fun s => hd (abs s))) = ss.map (mk abs) := by
  intro ss
  induction ss with
  | nil => rfl
  | cons s ss ih => simp only [List.map_cons, List.zip_cons_cons, ih, mk]

theorem firstLive_sim : ∀ (ss : List σ) (i : Nat), (∀ s ∈ ss, NonNul (abs s)) →
    firstLive (ss.map (fun s => hd (abs s))) i = lfirst (ss.map abs) i := by
  intro ss
  induction ss with
  | nil => intro i _; rfl
  | cons s ss ih =>
    intro i h
    have hs := h s List.mem_cons_self
    have := ih (i+1) (fun s hs => h s (List.mem_cons_of_mem _ hs))
    simp only [List.map_cons, firstLive, lfirst, this]
    by_cases he : abs s = []
    · simp [he, Event.isNul, Event.nul]
    · have h1 : (hd (abs s)).isNul = false := by
        cases hq : (hd (abs s)).isNul
        · rfl
        · exact absurd ((hd_isNul_iff hs).mp hq) he
      have h2 : (abs s).isEmpty = false := by simpa using he
      simp [h1, h2]

theorem getD_sim (abs : σ → List Event) : ∀ (ss : List σ) (i : Nat),
    (ss.map (fun s => hd (abs s))).getD i Event.nul = hd ((ss.map abs).getD i []) := by
  intro ss
  induction ss with
  | nil => intro i; rfl
  | cons s ss ih =>
    intro i
    cases i with
    | zero => rfl
    | succ i => simp only [List.map_cons, List.getD_cons_succ, ih]

/-- pop-and-refill of the source with index `n`, indices counted from `k` -/
def popSub (ops : Ops σ) : Nat → Nat → List σ → List σ
  | _, _, [] => []
  | k, n, s :: ss => (if k = n then refill ops s else s) :: popSub ops (k+1) n ss

theorem popSub_gt (ops : Ops σ) : ∀ (ss : List σ) (k n : Nat), n < k → popSub ops k n ss = ss := by
  intro ss
  induction ss with
  | nil => intro k n _; rfl
  | cons s ss ih =>
    intro k n h
    simp only [popSub, ih (k+1) n (by omega), show ¬ k = n by omega, if_false]

theorem popSub_abs (R : Refines ops abs I) : ∀ (ss : List σ) (k n : Nat), k ≤ n → (∀ s ∈ ss, I s) →
    (popSub ops k n ss).map abs = popAt (n - k) (ss.map abs) := by
  intro ss
  induction ss with
  | nil => intro k n _ _; cases h : n - k <;> rfl
  | cons s ss ih =>
    intro k n h hI
    have hs := hI s List.mem_cons_self
    have hI' : ∀ s ∈ ss, I s := fun s hs => hI s (List.mem_cons_of_mem _ hs)
    by_cases hk : k = n
    · subst hk
      simp only [popSub, if_true, List.map_cons, Nat.sub_self, popAt, refill_abs R hs,
        popSub_gt ops ss (k+1) k (by omega)]
    · have : n - k = (n - (k+1)) + 1 := by omega
      simp only [popSub, hk, if_false, List.map_cons, this, popAt, ih (k+1) n (by omega) hI']

theorem popSub_inv (R : Refines ops abs I) : ∀ (ss : List σ) (k n : Nat), (∀ s ∈ ss, I s) →
    ∀ s ∈ popSub ops k n ss, I s := by
  intro ss
  induction ss with
  | nil => intro k n _ s hs; cases hs
  | cons s ss ih =>
    intro k n hI x hx
    have hs := hI s List.mem_cons_self
    have hI' : ∀ s ∈ ss, I s := fun s hs => hI s (List.mem_cons_of_mem _ hs)
    simp only [popSub] at hx
    rcases List.mem_cons.mp hx with rfl | hx
    · split
      · exact refill_inv R hs
      · exact hs
    · exact ih _ _ hI' x hx

theorem zipIdx_sim (R : Refines ops abs I) (n : Nat) : ∀ (ss : List σ) (k : Nat), (∀ s ∈ ss, I s) →
    ((ss.map (mk abs)).zipIdx k).map (fun (x : (σ × Event) × Nat) =>
        match x with
        | ((s, e), j) =>
          if j = n then
            let (_, s1) := ops.pop s
            let (e2, s2) := ops.peek s1
            (s2, e2)
          else (s, e))
      = (popSub ops k n ss).map (mk abs) := by
  intro ss
  induction ss with
  | nil => intro k _; rfl
  | cons s ss ih =>
    intro k hI
    have hs := hI s List.mem_cons_self
    have hI' : ∀ s ∈ ss, I s := fun s hs => hI s (List.mem_cons_of_mem _ hs)
    simp only [List.map_cons, List.zipIdx_cons, popSub, ih (k+1) hI']
    congr 1
    by_cases hk : k = n
    · simp only [mk, hk, if_true, ← refill_val R hs]; rfl
    · simp only [mk, hk, if_false]

/-- the body of `muxNext` behind priming -/
def core (ops : Ops σ) (cache : List Event) (subs : List σ) (popp : Bool) : Event × Mux σ :=
  match firstLive cache 0 with
  | none => (Event.nul, { subs := [], cache := cache, primed := true, dead := true })
  | some i0 =>
    let pairs := subs.zip cache
    let best := cache.getD i0 Event.nul
    let (tl, best, besti) := scan ops (pairs.drop (i0 + 1)) (i0 + 1) best i0
    let pairs := pairs.take (i0 + 1) ++ tl
    let pairs :=
      if popp then
        pairs.zipIdx.map fun ((s, e), k) =>
          if k = besti then
            let (_, s1) := ops.pop s
            let (e2, s2) := ops.peek s1
            (s2, e2)
          else (s, e)
      else pairs
    (best, { subs := pairs.map (·.1), cache := pairs.map (·.2), primed := true, dead := false })

theorem muxNext_eq (ops : Ops σ) (m : Mux σ) (popp : Bool) :
    muxNext ops m popp = if m.dead then (Event.nul, m) else
      core ops (if m.primed then (m.cache, m.subs) else primeAll ops m.subs).1
        (if m.primed then (m.cache, m.subs) else primeAll ops m.subs).2 popp := rfl

/-- the lists the sources of a mux stand for -/
def rem (abs : σ → List Event) (m : Mux σ) : List (List Event) := if m.dead then [] else m.subs.map abs

/-- representation invariant of `struct evmux_s`: the sources satisfy theirs, and once primed
the cache holds the head of every source -/
structure MuxInv (abs : σ → List Event) (I : σ → Prop) (m : Mux σ) : Prop where
  subs : ∀ s ∈ m.subs, I s
  cache : m.dead = false → m.primed = true → m.cache = m.subs.map (fun s => hd (abs s))

theorem map_fst_mk (abs : σ → List Event) (ss : List σ) : (ss.map (mk abs)).map (·.1) = ss := by
  induction ss with
  | nil => rfl
  | cons s ss ih => simp only [List.map_cons, ih, mk]

theorem map_snd_mk (abs : σ → List Event) (ss : List σ) :
    (ss.map (mk abs)).map (·.2) = ss.map (fun s => hd (abs s)) := by
  induction ss with
  | nil => rfl
  | cons s ss ih => simp only [List.map_cons, ih, mk]

theorem core_sim (R : Refines ops abs I) (hnn : ∀ s, I s → NonNul (abs s)) (subs : List σ)
    (hI : ∀ s ∈ subs, I s) (popp : Bool) :
    (core ops (subs.map (fun s => hd (abs s))) subs popp).1 = (lstep (subs.map abs) popp).1 ∧
    MuxInv abs I (core ops (subs.map (fun s => hd (abs s))) subs popp).2 ∧
    rem abs (core ops (subs.map (fun s => hd (abs s))) subs popp).2 = (lstep (subs.map abs) popp).2 := by
  have hfl := firstLive_sim subs 0 (fun s hs => hnn s (hI s hs))
  cases hl : lfirst (subs.map abs) 0 with
  | none =>
    rw [hl] at hfl
    simp only [core, hfl, lstep, hl]
    exact ⟨trivial, ⟨fun s hs => (by cases hs), fun h => (by cases h)⟩, rfl⟩
  | some i0 =>
    rw [hl] at hfl
    have hI' : ∀ s ∈ subs.drop (i0+1), I s := fun s hs => hI s (List.mem_of_mem_drop hs)
    obtain ⟨ss', h1, h2, h3⟩ := scan_sim R hnn (subs.drop (i0+1)) (i0+1)
      (hd ((subs.map abs).getD i0 [])) i0 hI'
    rw [List.map_drop, List.map_drop] at h3
    rw [List.map_drop] at h2
    have hI2 : ∀ s ∈ subs.take (i0+1) ++ ss', I s := by
      intro s hs
      rcases List.mem_append.mp hs with hs | hs
      · exact hI s (List.mem_of_mem_take hs)
      · exact h1 s hs
    simp only [core, hfl, lstep, hl, zip_map_mk, getD_sim, h3, ← List.map_take, ← List.map_append,
      zipIdx_sim R _ _ 0 hI2]
    refine ⟨trivial, ?_, ?_⟩
    · cases popp
      · simp only [Bool.false_eq_true, if_false, map_fst_mk, map_snd_mk]
        exact ⟨hI2, fun _ _ => rfl⟩
      · simp only [if_true, map_fst_mk, map_snd_mk]
        exact ⟨popSub_inv R _ _ _ hI2, fun _ _ => rfl⟩
    · cases popp
      · simp only [Bool.false_eq_true, if_false, map_fst_mk, rem, List.map_append, h2]
      · simp only [if_true, map_fst_mk, rem, Bool.false_eq_true, if_false]
        rw [popSub_abs R _ 0 _ (Nat.zero_le _) hI2, List.map_append, h2]
        rfl

theorem MuxInv.make {subs : List σ} (h : ∀ s ∈ subs, I s) : MuxInv abs I (Mux.make subs) :=
  ⟨h, fun _ hp => by cases hp⟩

theorem rem_make (abs : σ → List Event) (subs : List σ) : rem abs (Mux.make subs) = subs.map abs := rfl

/-- one call of `muxNext` is one step on the lists of its sources -/
theorem mux_sim (R : Refines ops abs I) (hnn : ∀ s, I s → NonNul (abs s)) (m : Mux σ)
    (hm : MuxInv abs I m) (popp : Bool) :
    (muxNext ops m popp).1 = (lstep (rem abs m) popp).1 ∧ MuxInv abs I (muxNext ops m popp).2 ∧
    rem abs (muxNext ops m popp).2 = (lstep (rem abs m) popp).2 := by
  rw [muxNext_eq]
  cases hdead : m.dead with
  | true =>
    simp only [if_true, rem, hdead, lstep_empty (ls := []) (fun l hl => by cases hl)]
    exact ⟨trivial, hm, trivial⟩
  | false =>
    simp only [Bool.false_eq_true, if_false, rem, hdead]
    cases hp : m.primed with
    | true =>
      simp only [if_true]
      rw [hm.cache hdead hp]
      exact core_sim R hnn m.subs hm.subs popp
    | false =>
      simp only [Bool.false_eq_true, if_false, primeAll_eq]
      have e1 : m.subs.map (fun s => (ops.peek s).1)
          = (m.subs.map (fun s => (ops.peek s).2)).map (fun s => hd (abs s)) := by
        rw [List.map_map]
        apply List.map_congr_left
        intro s hs
        simp only [Function.comp]
        rw [R.peek_abs s (hm.subs s hs)]
        exact R.peek_val s (hm.subs s hs)
      have e2 : m.subs.map abs = (m.subs.map (fun s => (ops.peek s).2)).map abs := by
        rw [List.map_map]
        apply List.map_congr_left
        intro s hs
        simp only [Function.comp]
        rw [R.peek_abs s (hm.subs s hs)]
      have hI : ∀ s ∈ m.subs.map (fun s => (ops.peek s).2), I s := by
        intro s hs
        obtain ⟨s0, hs0, rfl⟩ := List.mem_map.mp hs
        exact R.peek_inv s0 (hm.subs s0 hs0)
      rw [e1, e2]
      exact core_sim R hnn _ hI popp

@[simp] theorem call_muxOps (m : Mux σ) (b : Bool) : call (muxOps ops) m b = muxNext ops m b := by
  cases b <;> rfl

/-- scripts: the mux answers what the list-level merge answers -/
theorem mux_script (R : Refines ops abs I) (hnn : ∀ s, I s → NonNul (abs s)) :
    ∀ (sc : List Bool) (m : Mux σ), MuxInv abs I m →
      answers (muxOps ops) m sc = answers lOps (rem abs m) sc ∧
      popped (muxOps ops) m sc = popped lOps (rem abs m) sc ∧
      MuxInv abs I (after (muxOps ops) m sc) ∧
      rem abs (after (muxOps ops) m sc) = after lOps (rem abs m) sc := by
  intro sc
  induction sc with
  | nil => intro m hm; exact ⟨rfl, rfl, hm, rfl⟩
  | cons b sc ih =>
    intro m hm
    obtain ⟨h1, h2, h3⟩ := mux_sim R hnn m hm b
    obtain ⟨i1, i2, i3, i4⟩ := ih _ h2
    simp only [answers, popped, after, call_muxOps, call_lOps]
    rw [h1, i1, i2, i4, h3]
    exact ⟨rfl, rfl, i3, rfl⟩

/-- the events a mux has still to deliver -/
def muxAbs (abs : σ → List Event) (m : Mux σ) : List Event := mergeRef (rem abs m)

theorem rem_valid (hsrc : ∀ s, I s → NonNul (abs s) ∧ Sorted (abs s)) {m : Mux σ} (hm : MuxInv abs I m) :
    Valid (rem abs m) := by
  intro l hl
  unfold rem at hl
  split at hl
  · cases hl
  · obtain ⟨s, hs, rfl⟩ := List.mem_map.mp hl
    exact hsrc s (hm.subs s hs)

/-- the mux refines the reference merge of its sources' lists, for every condition `P` on
these lists that survives popping and keeps each source free of twins -/
theorem mux_refines_of (R : Refines ops abs I) (hsrc : ∀ s, I s → NonNul (abs s) ∧ Sorted (abs s))
    (P : List (List Event) → Prop) (hP1 : ∀ ls, P ls → ∀ l ∈ ls, NoTwin l)
    (hP2 : ∀ ls ls', LSuf ls' ls → P ls → P ls') :
    Refines (muxOps ops) (muxAbs abs) (fun m => MuxInv abs I m ∧ P (rem abs m)) := by
  have hnn : ∀ s, I s → NonNul (abs s) := fun s hs => (hsrc s hs).1
  have inv : ∀ (m : Mux σ) (b : Bool), MuxInv abs I m ∧ P (rem abs m) →
      MuxInv abs I (muxNext ops m b).2 ∧ P (rem abs (muxNext ops m b).2) := by
    intro m b ⟨hm, hp⟩
    obtain ⟨_, h2, h3⟩ := mux_sim R hnn m hm b
    exact ⟨h2, by rw [h3]; exact hP2 _ _ (lstep_suf _ b) hp⟩
  have srcinv : ∀ m : Mux σ, MuxInv abs I m ∧ P (rem abs m) → SrcInv (rem abs m) :=
    fun m h => ⟨rem_valid hsrc h.1, hP1 _ h.2⟩
  constructor
  · intro m h
    show (muxNext ops m false).1 = _
    rw [(mux_sim R hnn m h.1 false).1]
    exact lOps_refines.peek_val _ (srcinv m h)
  · intro m h
    show mergeRef (rem abs (muxNext ops m false).2) = _
    rw [(mux_sim R hnn m h.1 false).2.2]
    exact lOps_refines.peek_abs _ (srcinv m h)
  · exact fun m h => inv m false h
  · intro m h
    show (muxNext ops m true).1 = _
    rw [(mux_sim R hnn m h.1 true).1]
    exact lOps_refines.pop_val _ (srcinv m h)
  · intro m h
    show mergeRef (rem abs (muxNext ops m true).2) = _
    rw [(mux_sim R hnn m h.1 true).2.2]
    exact lOps_refines.pop_abs _ (srcinv m h)
  · exact fun m h => inv m true h

end
end Echse.Stream
