/-
  Lemmas for C07, part 4: `zif_utc_time` after its rewrite (the stretch of the first guess and its two
  neighbours are tried; a local time the zone has twice is its first occurrence, a skipped one is read with
  the offset from before the gap).  The cache invariant `CacheRng`, the value `utcVal` the function computes,
  stretches and `ZRng.holds`.
-/
import Echse.Lemmas.Tz2
namespace Echse.Tz

/-! ### the cache holds a range a look-up reported -/

/-- the cache is fresh or holds a range `__find_zrng` reported (the only thing `__offs` ever stores) -/
def CacheRng (z : Zone) (c : ZRng) : Prop := c = ZRng.fresh ∨ ∃ t, I32 t ∧ c = rngAt z (trIdx z t)

theorem cacheOK_of_rng (z : Zone) (wf : WF z) (c : ZRng) (h : CacheRng z c) : CacheOK z c := by
  rcases h with rfl | ⟨t, _, rfl⟩
  · exact Or.inl rfl
  · exact cacheOK_rngAt z wf t

theorem cacheRng_rngAt (z : Zone) (t : Int) (ht : I32 t) : CacheRng z (rngAt z (trIdx z t)) :=
  Or.inr ⟨t, ht, rfl⟩

/-- through such a cache a look-up returns the offset in force and leaves the range of `t` in the cache,
whatever the cache held before -/
theorem offsC_rng (z : Zone) (wf : WF z) (c : ZRng) (hc : CacheRng z c) (t : Int) (ht : I32 t) :
    offsC z c t = some (off z t, rngAt z (trIdx z t)) := by
  unfold offsC
  simp only []
  rw [clamp32_of_I32 t ht, wf.2.2.2.2.2.2]
  simp only [Bool.false_eq_true, if_false]
  by_cases hit : t ≥ c.prev ∧ t < c.next
  · rw [if_pos hit]
    rcases hc with rfl | ⟨t0, h0, rfl⟩
    · exfalso; unfold ZRng.fresh at hit; simp at hit; omega
    · have e := findZrng_homog z wf t0 t hit.1 hit.2
      rw [← e, rngAt_offs]; rfl
  · rw [if_neg hit, findZrng_eq z wf t ht]
    simp only []
    rw [rngAt_offs]; rfl

/-! ### stretches -/

theorem offAt_bound (z : Zone) (wf : WF z) (k : Int) : -86400 ≤ offAt z k ∧ offAt z k ≤ 86400 := by
  have hb := wf.2.2.2.2.2.1
  have key : ∀ i, -86400 ≤ z.offs.getD i 0 ∧ z.offs.getD i 0 ≤ 86400 := by
    intro i
    by_cases hi : i < z.offs.length
    · rw [getD_of_lt _ _ _ hi]; exact hb _ (List.getElem_mem hi)
    · rw [List.getD_eq_getElem?_getD, List.getElem?_eq_none (by omega)]; simp
  unfold offAt; split <;> exact key _

theorem rngAt_I32 (z : Zone) (wf : WF z) (j : Int) (hj' : j < z.ntr) :
    intMin ≤ (rngAt z j).prev ∧ (rngAt z j).next ≤ intMax := by
  by_cases hj : j < 0
  · rw [rngAt_neg z j hj]
    by_cases hz : z.ntr = 0
    · simp [hz, intMin, intMax]
    · have := (I32_iff _).1 (tr_I32 z wf 0 (by omega))
      simp only [ne_eq, hz, not_false_eq_true, if_true, intMin, intMax]; omega
  · rw [rngAt_nonneg z j (by omega)]
    have p := (I32_iff _).1 (tr_I32 z wf j.toNat (by omega))
    by_cases hk : j + 1 < z.ntr
    · have q := (I32_iff _).1 (tr_I32 z wf (j + 1).toNat (by omega))
      simp only [hk, if_true, intMin, intMax]; omega
    · simp only [hk, if_false, intMin, intMax]; omega

/-- a time is in stretch `j` exactly when `j` is its index -/
theorem trIdx_eq_iff (z : Zone) (wf : WF z) (u j : Int) (h1 : intMin ≤ u) (h2 : u < intMax)
    (hj : -1 ≤ j) (hj' : j < z.ntr) :
    trIdx z u = j ↔ ((rngAt z j).prev ≤ u ∧ u < (rngAt z j).next) := by
  constructor
  · intro e
    have hu : I32 u := ⟨h1, by omega⟩
    obtain ⟨a, b, _, _⟩ := rngAt_bounds z wf u hu
    rw [e] at a b
    exact ⟨a, by omega⟩
  · intro ⟨a, b⟩
    apply isIdx_unique z wf
    by_cases hn : j < 0
    · have : j = -1 := by omega
      subst this
      rw [rngAt_neg z (-1) (by omega)] at b
      refine Or.inl ⟨rfl, ?_⟩
      by_cases hz : z.ntr = 0
      · exact Or.inl hz
      · simp only [ne_eq, hz, not_false_eq_true, if_true] at b; exact Or.inr b
    · rw [rngAt_nonneg z j (by omega)] at a b
      refine Or.inr ⟨by omega, hj', a, ?_⟩
      intro hk
      simp only [hk, if_true] at b
      exact b

theorem holds_iff (r : ZRng) (u : Int) (h1 : intMin ≤ u) (h2 : u < intMax) :
    r.holds u = true ↔ (r.prev ≤ u ∧ u < r.next) := by
  unfold ZRng.holds
  simp only [Bool.and_eq_true, Bool.or_eq_true, beq_iff_eq, decide_eq_true_eq]
  omega

/-- `holds` on the stretch `j`, for a time with room at both ends of int32: `j` is its index -/
theorem holds_rngAt_iff (z : Zone) (wf : WF z) (u j : Int) (h1 : intMin ≤ u) (h2 : u < intMax)
    (hj : -1 ≤ j) (hj' : j < z.ntr) :
    (rngAt z j).holds u = true ↔ trIdx z u = j := by
  rw [holds_iff _ u h1 h2, trIdx_eq_iff z wf u j h1 h2 hj hj']

/-- the neighbour below: the look-up just before the start of stretch `k` reports stretch `k − 1` -/
theorem trIdx_pred (z : Zone) (wf : WF z) (k : Int) (h0 : 0 ≤ k) (h1 : k < z.ntr) :
    trIdx z (tr z k.toNat - 1) = k - 1 := by
  apply isIdx_unique z wf
  by_cases hk : k = 0
  · subst hk
    exact Or.inl ⟨rfl, Or.inr (by simp; omega)⟩
  · refine Or.inr ⟨by omega, by omega, ?_, ?_⟩
    · have := tr_mono z wf (k - 1).toNat k.toNat (by omega) (by omega)
      omega
    · intro _
      have : (k - 1 + 1).toNat = k.toNat := by congr 1; omega
      rw [this]; omega

/-- the neighbour above: the look-up at the end of stretch `k` reports stretch `k + 1` -/
theorem trIdx_succ (z : Zone) (wf : WF z) (k : Int) (h0 : -1 ≤ k) (h1 : k + 1 < z.ntr) :
    trIdx z (tr z (k + 1).toNat) = k + 1 := by
  apply isIdx_unique z wf
  refine Or.inr ⟨by omega, h1, Int.le_refl _, ?_⟩
  intro h2
  exact tr_mono z wf _ _ (by omega) (by omega)

end Echse.Tz
