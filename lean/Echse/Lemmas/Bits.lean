/-
  Generic lemmas about the lowest-set-bit loop `ctz` and about iterating over the
  set bits of a natural number.  Core Lean only.
-/
import Echse.Model.Bitint
namespace Echse.Bitint

theorem ctz_spec : ∀ (fuel b : Nat), b ≠ 0 → b < 2^fuel →
    b.testBit (ctz fuel b) = true ∧ ∀ j, j < ctz fuel b → b.testBit j = false := by
  intro fuel
  induction fuel with
  | zero => intro b h0 h; simp at h; omega
  | succ f ih =>
    intro b h0 h
    unfold ctz
    by_cases hb : b % 2 = 1
    · simp [hb]
    · simp [hb]
      have h2 : b / 2 ≠ 0 := by omega
      have h3 : b / 2 < 2^f := by rw [Nat.pow_succ] at h; omega
      obtain ⟨a1, a2⟩ := ih (b/2) h2 h3
      constructor
      · rw [Nat.testBit_succ]; exact a1
      · intro j hj
        cases j with
        | zero => simp [Nat.testBit, Nat.one_and_eq_mod_two]; omega
        | succ j => rw [Nat.testBit_succ]; exact a2 j (by omega)

/-- `B >>> lo = 0` iff no bit at or above `lo`. -/
theorem shr_eq_zero_iff (B lo : Nat) : B >>> lo = 0 ↔ ∀ j, lo ≤ j → B.testBit j = false := by
  constructor
  · intro h j hj
    have : (B >>> lo).testBit (j - lo) = false := by rw [h]; simp
    rw [Nat.testBit_shiftRight] at this
    rwa [show lo + (j - lo) = j by omega] at this
  · intro h
    apply Nat.eq_of_testBit_eq
    intro i
    rw [Nat.testBit_shiftRight]; simp [h (lo + i) (by omega)]

/-- next set bit at or above `lo` -/
theorem nsb_spec (fuel B lo : Nat) (hB : B < 2^fuel) (h : B >>> lo ≠ 0) :
    let r := lo + ctz fuel (B >>> lo)
    B.testBit r = true ∧ lo ≤ r ∧ r < fuel ∧ ∀ j, lo ≤ j → j < r → B.testBit j = false := by
  intro r
  have hlt : B >>> lo < 2^fuel := by
    rw [Nat.shiftRight_eq_div_pow]
    exact Nat.lt_of_le_of_lt (Nat.div_le_self _ _) hB
  obtain ⟨a1, a2⟩ := ctz_spec fuel (B >>> lo) h hlt
  rw [Nat.testBit_shiftRight] at a1
  refine ⟨a1, by omega, ?_, ?_⟩
  · rcases Nat.lt_or_ge r fuel with hc | hc
    · exact hc
    · have : B.testBit r = false :=
        Nat.testBit_lt_two_pow (Nat.lt_of_lt_of_le hB (Nat.pow_le_pow_right (by omega) hc))
      rw [this] at a1; exact absurd a1 (by simp)
  · intro j h1 h2
    have := a2 (j - lo) (by omega)
    rw [Nat.testBit_shiftRight] at this
    rwa [show lo + (j - lo) = j by omega] at this

/-- the set bits of `B` in `[lo, hi)`, ascending -/
def setBits (B lo hi : Nat) : List Nat := (List.range' lo (hi - lo)).filter (fun j => B.testBit j)

theorem setBits_nil_of_ge (B lo hi : Nat) (h : hi ≤ lo) : setBits B lo hi = [] := by
  unfold setBits; rw [show hi - lo = 0 by omega]; rfl

theorem setBits_none (B lo hi : Nat) (h : ∀ j, lo ≤ j → B.testBit j = false) : setBits B lo hi = [] := by
  unfold setBits
  rw [List.filter_eq_nil_iff]
  intro a ha
  rw [List.mem_range'_1] at ha
  simp [h a ha.1]

theorem setBits_step (B lo hi : Nat) (h : lo < hi) :
    setBits B lo hi = if B.testBit lo then lo :: setBits B (lo+1) hi else setBits B (lo+1) hi := by
  unfold setBits
  rw [show hi - lo = (hi - (lo+1)) + 1 by omega, List.range'_succ, List.filter_cons]

theorem setBits_skip (B lo r hi : Nat) (hlr : lo ≤ r) (hr : r ≤ hi)
    (h : ∀ j, lo ≤ j → j < r → B.testBit j = false) : setBits B lo hi = setBits B r hi := by
  induction hd : r - lo generalizing lo with
  | zero => rw [show lo = r by omega]
  | succ d ih =>
    rw [setBits_step B lo hi (by omega), h lo (Nat.le_refl _) (by omega)]
    simp only [Bool.false_eq_true, if_false]
    exact ih (lo+1) (by omega) (fun j h1 h2 => h j (by omega) h2) (by omega)

theorem setBits_next (B lo r hi : Nat) (hlr : lo ≤ r) (hr : r < hi) (hb : B.testBit r = true)
    (h : ∀ j, lo ≤ j → j < r → B.testBit j = false) : setBits B lo hi = r :: setBits B (r+1) hi := by
  rw [setBits_skip B lo r hi hlr (by omega) h, setBits_step B r hi hr, hb]; simp


theorem or_even (a b : Nat) (ha : a % 2 = 0) (hb : b % 2 = 0) : (a ||| b) % 2 = 0 := by
  have := Nat.or_mod_two_pow (a := a) (b := b) (n := 1)
  rw [Nat.pow_one, ha, hb] at this
  simpa using this
theorem shl1_or1 (x : Nat) : (x <<< 1 ||| 1) = 2 * x + 1 := by
  rw [← Nat.shiftLeft_add_eq_or_of_lt (by decide : 1 < 2^1), Nat.shiftLeft_eq]; omega

theorem two_pow_lt (a w : Nat) (h : a < w) : 2^a < 2^w := Nat.pow_lt_pow_right (by omega) h


end Echse.Bitint
