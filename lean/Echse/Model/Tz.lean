/-
  Model of src/tzraw.c (`zif_trans`, `zif_type`, `__find_trno`, `__find_zrng`, `__offs` with its
  one-entry range cache, `zif_utc_time`, `zif_local_time`) and src/tzob.c
  (`echs_instant_utc`, `echs_instant_loc`, `echs_tzob_offs`).

  A zone is what `__conv_zif` extracts from the v1 block of a TZif file: transition times
  (int32), the type index per transition, the UTC offset per type.  Reading the file is not
  modelled: the correspondence check parses the file independently and hands the three
  vectors to the model, the C code reads the file itself.
  Hand transcription tied to the C code by vlib/p_C07.py.
-/
import Echse.Model.Instant
namespace Echse.Tz
open Echse.Instant

def intMin : Int := -2147483648
def intMax : Int := 2147483647
/-- conversion of a value to `int32_t` (the offset `x` in `zif_utc_time`) -/
def wrap32 (t : Int) : Int := (t + 2147483648) % 4294967296 - 2147483648
/-- `__clamp(t)`: a `time_t` handed to the 32-bit table; behind the table's ends things stay what they were -/
def clamp32 (t : Int) : Int := if t > intMax then intMax else if t < intMin then intMin else t

structure Zone where
  trs : List Int       -- transition times
  tys : List Nat       -- type index of each transition
  offs : List Int      -- UTC offset of each type
  utc : Bool := false  -- `cz == TZCZ_UTC`
deriving Repr

def Zone.ntr (z : Zone) : Nat := z.trs.length

/-- `zif_trans(z, n)` -/
def zifTrans (z : Zone) (n : Int) : Int :=
  if z.ntr = 0 ∨ n < 0 then intMin
  else if n ≥ z.ntr then z.trs.getD (z.ntr - 1) 0
  else z.trs.getD n.toNat 0

/-- `zif_type(z, n)` -/
def zifType (z : Zone) (n : Int) : Nat :=
  if z.ntr = 0 ∨ n < 0 then 0
  else if n ≥ z.ntr then z.tys.getD (z.ntr - 1) 0
  else z.tys.getD n.toNat 0

def zifTroffs (z : Zone) (n : Int) : Int := z.offs.getD (zifType z n) 0

/-- the bisection of `__find_trno`, `fuel` bounds the `do … while (true)` -/
def bisect (z : Zone) (t : Int) : Nat → Int → Int → Option Int
  | 0, _, _ => none
  | fuel+1, min, max =>
    let this := (min + max) / 2
    let tl := zifTrans z this
    let tu := zifTrans z (this + 1)
    if t ≥ tl ∧ t < tu then some this
    else if t ≥ tu then bisect z t fuel this max
    else bisect z t fuel min this

/-- `__find_trno(z, t, min, max)`; `none` = the loop did not end within the fuel -/
def findTrno (z : Zone) (t : Int) (min max : Int) : Option Int :=
  if max = 0 then some (-1)
  else if t < zifTrans z min then some (-1)
  else if t ≥ zifTrans z max then some (max - 1)
  else bisect z t 64 min max

structure ZRng where
  prev : Int
  next : Int
  offs : Int
  trno : Nat
deriving Repr, DecidableEq

/-- `__find_zrng(z, t, 0, ntrans)` -/
def findZrng (z : Zone) (t : Int) : Option ZRng :=
  match findTrno z t 0 z.ntr with
  | none => none
  | some trno =>
    let prev := zifTrans z trno
    if trno ≤ 0 ∧ t < prev then
      some { trno := 0, prev := intMin, next := intMin, offs := zifTroffs z 0 }
    else if trno < 0 then
      some { trno := 0, prev := intMin, next := if z.ntr ≠ 0 then zifTrans z 0 else intMax,
             offs := if z.offs.length ≠ 0 then z.offs.getD 0 0 else 0 }
    else
      let tr8 := trno.toNat % 256
      some { trno := tr8, prev := prev,
             next := if trno + 1 < z.ntr then zifTrans z (trno + 1) else intMax,
             offs := zifTroffs z tr8 }

/-- `__offs(z, t)`; the cache of a fresh object is all zero -/
def ZRng.fresh : ZRng := { prev := 0, next := 0, offs := 0, trno := 0 }

def offsC (z : Zone) (c : ZRng) (t0 : Int) : Option (Int × ZRng) :=
  let t := clamp32 t0
  if z.utc then some (0, c)
  else if t ≥ c.prev ∧ t < c.next then some (c.offs, c)
  else match findZrng z t with
    | none => none
    | some r => some (r.offs, r)

/-- is `u` inside the stretch `r` between two transitions (`INT_MIN` / `INT_MAX` stand for the open ends) -/
def ZRng.holds (r : ZRng) (u : Int) : Bool :=
  (r.prev == intMin || decide (u ≥ r.prev)) && (r.next == intMax || decide (u < r.next))

/-- `zif_utc_time(z, t)`: local -> UTC.  A first guess `o(t - o(t))` lands in the right stretch or next to it; of that
stretch and its two neighbours the first one that `t` less its offset falls into is taken (a local time the zone has
twice means its first occurrence); if there is none (a local time the clocks skipped) the offset from before the gap
(RFC 5545 3.3.5).  The cache is left on the stretch of the guess. -/
def utcTime (z : Zone) (c : ZRng) (t : Int) : Option (Int × ZRng) :=
  if z.utc then some (t, c) else
  match offsC z c t with
  | none => none
  | some (x1, c1) =>
    match offsC z c1 (t - wrap32 x1) with
    | none => none
    | some (_, r) =>
      let pv : Option (Option ZRng) := if r.prev > intMin then (findZrng z (clamp32 (r.prev - 1))).map some else some none
      let nx : Option (Option ZRng) := if r.next < intMax then (findZrng z (clamp32 r.next)).map some else some none
      match pv, nx with
      | some pv, some nx =>
        let cand : List ZRng := pv.toList ++ [r] ++ nx.toList
        let valid := (cand.filter fun q => q.holds (t - q.offs)).map fun q => t - q.offs
        match valid with
        | u :: us => some (us.foldl min u, r)
        | [] =>
          match (cand.zip cand.tail).find? fun ab => decide (t - ab.1.offs ≥ ab.1.next) && decide (t - ab.2.offs < ab.2.prev) with
          | some ab => some (t - ab.1.offs, r)
          | none => some (t - r.offs, r)
      | _, _ => none

/-- `zif_local_time(z, t)` -/
def localTime (z : Zone) (c : ZRng) (t : Int) : Option (Int × ZRng) :=
  match offsC z c t with
  | none => none
  | some (x, c1) => some (t + x, c1)

/-- `echs_instant_utc(i, zob)` on a detached instant -/
def instantUtc (z : Zone) (c : ZRng) (i : Inst) : Option (Inst × ZRng) :=
  if i.isAllDay then some (i, c) else
  let loc : Int := instToEpoch i
  match utcTime z c loc with
  | none => none
  | some (nix, c') => some (add i (1000 * (nix - loc)), c')

/-- `echs_instant_loc(i, zob)` -/
def instantLoc (z : Zone) (c : ZRng) (i : Inst) : Option (Inst × ZRng) :=
  if i.isAllDay then some (i, c) else
  let nix : Int := instToEpoch i
  match localTime z c nix with
  | none => none
  | some (loc, c') => some (add i (1000 * (loc - nix)), c')

/-- `echs_tzob_offs(z, i, 0)`: uses `zif_find_zrng`, not the cache -/
def tzobOffs (z : Zone) (i : Inst) : Option Int :=
  if i.isAllDay then some 0 else
  (findZrng z (clamp32 (instToEpoch i))).map (·.offs)

end Echse.Tz
