/-
  Properties C16 / C09 at the level of one call of the weekly filler `rrul_fill_wly` (model `fillWly`).

  The statements asked for were

    theorem fillWly_ok (r p n l) (hr : WfRule r) (hp : WfInst p) (hn : n ≤ 64) (h : fillWly r p n = some l) : FillOk r p n l
    theorem fillWly_total (r p n) (hr : WfRule r) (hp : WfInst p) (hn : n ≤ 64) : (fillWly r p n).isSome

  `fillWly_ok` is FALSE as it stands, for two independent reasons (counterexamples evaluated on the model):

  1. the loop increment `d += rr->inter * 7U` is `unsigned int` arithmetic.  For INTERVAL ≥ 613566753 (still an `int`,
     so `WfRule` holds) `d + inter * 7` can wrap and the candidate date moves BACKWARDS, e.g.
       r = { freq := 3, inter := 613566756, dow := [1,2,3,4,5,6,7] }   (inter * 7 = 2^32 - 4),
       p = 2020-01-15T10:00:00:  fillWly r p 12 = 15th 16th 17th 18th 19th, 15th (again) …: not ascending;
     likewise inter := 1227133513 (inter * 7 = 2^33 - 1, the step is -1 day).
     Extra hypothesis: `r.inter * 7 + 31 < 4294967296` (`d ≤ 31` at the loop head, so the sum cannot wrap; note that
     `r.inter * 7 < 4294967296` alone is not enough, see the first example).
  2. an all-day seed (H = ALL_DAY) with BYMINUTE or BYSECOND but no BYHOUR gets instants with H = ALL_DAY and a
     non-zero minute / second, which are not `WfInst`, e.g.
       r = { freq := 3, M := [30] }, p = 2020-01-01 (all day):  fillWly r p 3 = 2020-01-01 H=255 M=30, …
     Extra hypothesis: `TimeOk r p` (an all-day seed without BYHOUR has neither BYMINUTE nor BYSECOND).

  `fillWly_total` is proved under the first extra hypothesis only (the wrapping case is left open: there the day
  number shrinks for up to 31 rounds, then the carry runs far beyond 2099; the fuel should suffice but the date
  invariant of this proof does not hold on that path).  `hn : n ≤ 64` is not needed.
-/
import Echse.Lemmas.RrWlyLoop
namespace Echse.Lemmas.RrWlyOk
open Echse.Rrule Echse.Instant Echse.Spec.RrOk
open Echse.Lemmas.RrOkBase

theorem fillWly_total_partial (r : Rule) (p : Inst) (n : Nat) (hr : WfRule r) (hp : WfInst p)
    (hk : r.inter * 7 + 31 < 4294967296) : (fillWly r p n).isSome := by
  obtain ⟨l, hl, -⟩ := fillWly_spec r p n hr hp hk
  rw [hl]; rfl

theorem fillWly_ok_partial (r : Rule) (p : Inst) (n : Nat) (l : List Inst) (hr : WfRule r) (hp : WfInst p)
    (hk : r.inter * 7 + 31 < 4294967296) (ht : TimeOk r p) (h : fillWly r p n = some l) : FillOk r p n l := by
  obtain ⟨l', hl, hok⟩ := fillWly_spec r p n hr hp hk
  rw [hl] at h
  cases h
  exact hok ht

end Echse.Lemmas.RrWlyOk
