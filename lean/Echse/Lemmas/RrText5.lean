/-
  C05, rule text round trip — part 5: the signed lists, INTERVAL, COUNT, FREQ and SCALE.
-/
import Echse.Lemmas.RrText4
namespace Echse.RrText
open Echse.Rrule Echse.Strpf

/-! ### the signed lists -/

theorem part_week (r : Rule) (l : List Int) (t : List Char) (ht : Term t) (hl : ∀ y ∈ l, y ≠ 0 ∧ -53 ≤ y ∧ y ≤ 53) :
    parseFrom r (sendPart "BYWEEKNO".toList fmtD l ++ t) = parseFrom { r with wk := l.foldl assI r.wk } t := by
  cases l with
  | nil => rfl
  | cons x xs =>
    rw [sendPart_cons, part_kv r _ _ t (by decide) (by decide) (by decide) (avoid_ivalue x xs) ht, value_moreVals]
    have hk : keyOf "BYWEEKNO".toList = .week := by decide
    rw [hk]
    simp only [keyStep]
    rw [ilist_value _ _ xs x t r.wk (by decide) (fun y hy => by have := hl y hy; simp; omega) ht]
    rfl

theorem part_yday (r : Rule) (l : List Int) (t : List Char) (ht : Term t)
    (hl : ∀ y ∈ l, y ≠ 0 ∧ -366 ≤ y ∧ y ≤ 366) :
    parseFrom r (sendPart "BYYEARDAY".toList fmtD l ++ t) = parseFrom { r with doy := l.foldl assI r.doy } t := by
  cases l with
  | nil => rfl
  | cons x xs =>
    rw [sendPart_cons, part_kv r _ _ t (by decide) (by decide) (by decide) (avoid_ivalue x xs) ht, value_moreVals]
    have hk : keyOf "BYYEARDAY".toList = .yday := by decide
    rw [hk]
    simp only [keyStep]
    rw [ilist_value _ _ xs x t r.doy (by decide) (fun y hy => by have := hl y hy; simp; omega) ht]
    rfl

theorem part_mday (r : Rule) (l : List Int) (t : List Char) (ht : Term t) (hl : ∀ y ∈ l, y ≠ 0 ∧ -31 ≤ y ∧ y ≤ 31) :
    parseFrom r (sendPart "BYMONTHDAY".toList fmtD l ++ t) = parseFrom { r with dom := l.foldl assI r.dom } t := by
  cases l with
  | nil => rfl
  | cons x xs =>
    rw [sendPart_cons, part_kv r _ _ t (by decide) (by decide) (by decide) (avoid_ivalue x xs) ht, value_moreVals]
    have hk : keyOf "BYMONTHDAY".toList = .mday := by decide
    rw [hk]
    simp only [keyStep]
    rw [ilist_value _ _ xs x t r.dom (by decide) (fun y hy => by have := hl y hy; simp; omega) ht]
    rfl

theorem part_easter (r : Rule) (l : List Int) (t : List Char) (ht : Term t) (hl : ∀ y ∈ l, -366 ≤ y ∧ y ≤ 366) :
    parseFrom r (sendPart "BYEASTER".toList fmtD l ++ t) = parseFrom { r with easter := l.foldl assI r.easter } t := by
  cases l with
  | nil => rfl
  | cons x xs =>
    rw [sendPart_cons, part_kv r _ _ t (by decide) (by decide) (by decide) (avoid_ivalue x xs) ht, value_moreVals]
    have hk : keyOf "BYEASTER".toList = .easter := by decide
    rw [hk]
    simp only [keyStep]
    rw [ilist_value _ _ xs x t r.easter (by decide) (fun y hy => by have := hl y hy; simp; omega) ht]
    rfl

/-- the serialiser writes `BYPOS=`, which the parser's table has next to `BYSETPOS` -/
theorem part_pos (r : Rule) (l : List Int) (t : List Char) (ht : Term t) (hl : ∀ y ∈ l, y ≠ 0 ∧ -366 ≤ y ∧ y ≤ 366) :
    parseFrom r (sendPart "BYPOS".toList fmtD l ++ t) = parseFrom { r with pos := l.foldl assI r.pos } t := by
  cases l with
  | nil => rfl
  | cons x xs =>
    rw [sendPart_cons, part_kv r _ _ t (by decide) (by decide) (by decide) (avoid_ivalue x xs) ht, value_moreVals]
    have hk : keyOf "BYPOS".toList = .pos := by decide
    rw [hk]
    simp only [keyStep]
    rw [ilist_value _ _ xs x t r.pos (by decide) (fun y hy => by have := hl y hy; simp; omega) ht]
    rfl

/-! ### INTERVAL and COUNT -/

theorem part_inter (r : Rule) (n : Nat) (t : List Char) (ht : Term t) (hn : 1 ≤ n ∧ n < 2^31) :
    parseFrom r (";INTERVAL=".toList ++ fmtU n ++ t) = parseFrom { r with inter := n } t := by
  have e : ";INTERVAL=".toList ++ fmtU n ++ t = ';' :: "INTERVAL".toList ++ '=' :: fmtU n ++ t := by
    simp
  rw [e, part_kv r _ _ t (by decide) (by decide) (by decide) (avoid_fmtU (by decide) n) ht]
  have hk : keyOf "INTERVAL".toList = .inter := by decide
  rw [hk]
  simp only [keyStep]
  unfold fmtU
  rw [strtolC_u n t ht.noDig (by omega)]
  have h1 : ¬ ((n : Int) ≤ 0 ∨ (n : Int) > 2147483647) := by omega
  simp only [h1, if_false, Int.toNat_natCast]
  rfl

theorem part_count (r : Rule) (n : Nat) (t : List Char) (ht : Term t) (hn : 1 ≤ n ∧ n < 2^31) :
    parseFrom r (";COUNT=".toList ++ fmtU n ++ t) = parseFrom { r with count := (n : Int) } t := by
  have e : ";COUNT=".toList ++ fmtU n ++ t = ';' :: "COUNT".toList ++ '=' :: fmtU n ++ t := by
    simp
  rw [e, part_kv r _ _ t (by decide) (by decide) (by decide) (avoid_fmtU (by decide) n) ht]
  have hk : keyOf "COUNT".toList = .count := by decide
  rw [hk]
  simp only [keyStep]
  unfold fmtU
  rw [strtolC_u n t ht.noDig (by omega)]
  have h1 : ¬ ((n : Int) ≤ 0 ∨ (n : Int) > 2147483647) := by omega
  simp only [h1, if_false]
  rfl

/-! ### FREQ: the first field -/

theorem snarfFreq_name (f : Nat) (t : List Char) (hf : 1 ≤ f ∧ f ≤ 7) : snarfFreq (freqName f ++ t) = f := by
  have : f = 1 ∨ f = 2 ∨ f = 3 ∨ f = 4 ∨ f = 5 ∨ f = 6 ∨ f = 7 := by omega
  rcases this with h | h | h | h | h | h | h <;> subst h <;>
    simp [snarfFreq, freqName, chr, List.isPrefixOf]

theorem avoid_freqName (c : Char) (hc : c.isAlpha = false) (f : Nat) : Avoid c (freqName f) := by
  have hall : ∀ g, g < 8 → ∀ x ∈ freqName g, x.isAlpha = true := by decide
  intro x hx hxc
  by_cases hf : f < 8
  · have := hall f hf x hx
    rw [hxc, hc] at this
    exact absurd this (by decide)
  · have : freqName f = [] := by
      unfold freqName
      rw [List.getD_eq_getElem?_getD, List.getElem?_eq_none (by simp; omega)]
      rfl
    rw [this] at hx
    exact absurd hx (by simp)

theorem head_freq (f : Nat) (t : List Char) (ht : Term t) (hf : 1 ≤ f ∧ f ≤ 7) :
    fieldStep {} ("FREQ=".toList ++ freqName f ++ t) = some { freq := f } := by
  have e : "FREQ=".toList ++ freqName f ++ t = "FREQ".toList ++ '=' :: (freqName f ++ t) := by simp
  rw [e, fieldStep_kv {} _ _ t (by decide) (by decide) (avoid_freqName ';' (by decide) f) ht]
  have hk : keyOf "FREQ".toList = .freq := by decide
  rw [hk]
  simp only [keyStep, snarfFreq_name f t hf]

/-! ### SCALE: the names the parser reads back whatever follows -/

theorem snarfScale_name (sca : Nat) (t : List Char) (ht : Term t) (hs : 1 ≤ sca ∧ sca ≤ 10) :
    snarfScale ("HIJRI.".toList ++ scaleName sca ++ t) = sca := by
  have : sca = 1 ∨ sca = 2 ∨ sca = 3 ∨ sca = 4 ∨ sca = 5 ∨ sca = 6 ∨ sca = 7 ∨ sca = 8 ∨ sca = 9 ∨ sca = 10 := by omega
  rcases ht with ht | ⟨q, ht⟩ <;> subst ht <;>
  rcases this with h | h | h | h | h | h | h | h | h | h <;> subst h <;>
    simp [snarfScale, scaleName, chr]

theorem part_scale (r : Rule) (sca : Nat) (t : List Char) (ht : Term t) (hs : sca = 0 ∨ (1 ≤ sca ∧ sca ≤ 10)) :
    parseFrom r (sendScale sca ++ t) = parseFrom { r with scale := if sca = 0 then r.scale else sca } t := by
  rcases hs with hs | hs
  · subst hs; rfl
  · have h1 : 1 ≤ sca ∧ sca ≤ 10 := by omega
    have h0 : sca ≠ 0 := by omega
    have hall : ∀ g, g < 11 → Avoid ';' (scaleName g) := by decide
    unfold sendScale
    simp only [h1, and_self, if_true, h0, if_false]
    have e : ";SCALE=HIJRI.".toList ++ scaleName sca ++ t
        = ';' :: "SCALE".toList ++ '=' :: ("HIJRI.".toList ++ scaleName sca) ++ t := by simp
    rw [e, part_kv r _ _ t (by decide) (by decide) (by decide)
      (avoid_append (by decide) (hall sca (by omega))) ht]
    have hk : keyOf "SCALE".toList = .scale := by decide
    rw [hk]
    simp only [keyStep]
    rw [snarfScale_name sca t ht hs]
    rfl

end Echse.RrText
