import Echse.Lemmas.Instant4
/-
  Epoch conversions, part 1: tzob.c `__inst_to_epoch` (signed, March-based years counted from 1948) and the
  year/month steps of `__epoch_to_inst` (day numbers counted from 1900-03-01).  Everything here holds for the
  whole stretch on which the every-4th-year rule is the Gregorian one: 1900-03-01 … 2100-02-28.
-/
namespace Echse.Instant
open Echse.Gen Echse.Spec.Cal

theorem epochDays_eq : epochDays = 719468 := by decide

/-- the March-based year of a date -/
def myear (y m : Nat) : Int := (y : Int) - (if m < 3 then 1 else 0)

/-- tzob.c's March-based day count against the spec's `days` -/
theorem tz_days (y m d : Nat) (h1 : 1 ≤ m) (h2 : m ≤ 12)
    (hy1 : 1900 ≤ myear y m) (hy2 : myear y m ≤ 2099) :
    (myear y m - 1948) * 365 + (myear y m - 1948) / 4 + ((tzobMonYday.getD m 0 + d : Nat) : Int) + 711491
      = days y m d := by
  unfold myear at *
  rcases month_cases m h1 h2 with h|h|h|h|h|h|h|h|h|h|h|h <;> subst h
  all_goals simp [days, tzobMonYday] at *
  all_goals omega

/-- `__inst_to_epoch` with only the month a month: day, minute and second are counted on linearly, the hour is
clamped to 24 (so an all-day instant, `H = 255`, stands for the END of its day) -/
theorem instToEpoch_eq (i : Inst) (h1 : 1 ≤ i.m) (h2 : i.m ≤ 12)
    (hy1 : 1900 ≤ myear i.y i.m) (hy2 : myear i.y i.m ≤ 2099) :
    instToEpoch i =
      (days i.y i.m i.d - epochDays) * 86400 +
        ((((if i.H ≤ 24 then i.H else 24 : Nat) : Int) * 60 + i.M) * 60 + i.S) := by
  have k := tz_days i.y i.m i.d h1 h2 hy1 hy2
  rw [epochDays_eq, ← k]
  unfold instToEpoch myear
  simp only [daisyBaseYear, daisyUnixBase, h2, if_true]
  split <;> split <;> omega
/-- the year step of `__epoch_to_inst`: (years since 1900-03, day number of its 1 March − 1) -/
def yearStep (d : Nat) : Nat × Nat :=
  let w : Nat := 2^32
  let u32 (z : Int) : Nat := (z % (w : Int)).toNat
  let by0 := d / 365
  let f0 := (by0 * 365 + by0 / 4) % w
  if f0 ≥ d then
    let b := u32 ((by0 : Int) - 1)
    (b, (b * 365 + b / 4) % w)
  else (by0, f0)

/-- the month/day-of-month step of `__epoch_to_inst`, as a function of the March-based day of year -/
def monStep (doy : Nat) : Nat × Nat :=
  let w : Nat := 2^32
  let u32 (z : Int) : Nat := (z % (w : Int)).toNat
  let mon : Nat := ((doy + 19) % w) / 32
  let dom : Nat := ((doy + 19) % w) % 32
  let beef : Int := tzobRem.getD mon 0
  let cake : Int := tzobRem.getD (mon + 1) 0
  if (dom : Int) ≤ cake then (mon, u32 ((doy : Int) - (((mon : Int) - 1) * 32 - 19 + beef)))
  else (mon + 1, u32 ((doy : Int) - ((mon : Int) * 32 - 19 + cake)))

theorem epochToInstI_eq (t : Int) :
    epochToInstI t =
      (let w : Nat := 2^32
       let d : Nat := ((t / 86400 + (daisyUnixBase : Nat) + 17532) % (w : Int)).toNat
       let s : Nat := (t - t / 86400 * 86400).toNat
       let p := yearStep d
       let q := monStep (((d : Int) - p.2) % (w : Int)).toNat
       { y := (p.1 + daisyBaseYear - 48 + (if q.1 > 10 then 1 else 0)) % 65536, m := tzobRm.getD q.1 0, d := q.2 % 256,
         S := s % 60, M := s / 60 % 60, H := (s / 3600) % 256, ms := allSec }) := by
  unfold epochToInstI yearStep monStep
  with_reducible rfl

set_option maxRecDepth 4000 in
theorem yearStep_spec (d : Nat) (h1 : 1 ≤ d) (h2 : d < 73050) :
    ∃ b : Nat, yearStep d = (b, b * 365 + b / 4) ∧ b ≤ 199 ∧ b * 365 + b / 4 < d ∧
      d ≤ b * 365 + b / 4 + 365 + (if b % 4 = 3 then 1 else 0) := by
  unfold yearStep
  simp only []
  have s1 : (d / 365 * 365 + d / 365 / 4) % 2 ^ 32 = d / 365 * 365 + d / 365 / 4 := by omega
  rw [s1]
  by_cases c : d / 365 * 365 + d / 365 / 4 ≥ d
  · rw [if_pos c]
    have hw : ((2 ^ 32 : Nat) : Int) = 4294967296 := by decide
    rw [hw]
    clear hw
    have s2 : (((d / 365 : Nat) : Int) - 1) % 4294967296 = ((d / 365 - 1 : Nat) : Int) := by omega
    rw [s2, Int.toNat_natCast]
    refine ⟨d / 365 - 1, ?_, by omega, by omega, ?_⟩
    · rw [Nat.mod_eq_of_lt (by omega)]
    · clear s1 s2
      by_cases c4 : (d / 365 - 1) % 4 = 3
      · rw [if_pos c4]; omega
      · rw [if_neg c4]; omega
  · rw [if_neg c]
    refine ⟨d / 365, rfl, by omega, by omega, ?_⟩
    by_cases c4 : (d / 365) % 4 = 3
    · rw [if_pos c4]; omega
    · rw [if_neg c4]; omega
/-- month lengths of a common year -/
def mlen (m : Nat) : Nat := instMdays.getD m 0

theorem monStep_spec : ∀ doy, doy < 367 → 1 ≤ doy →
    let q := monStep doy
    let m := tzobRm.getD q.1 0
    1 ≤ m ∧ m ≤ 12 ∧ 1 ≤ q.2 ∧ (q.2 ≤ mlen m ∨ (doy = 366 ∧ m = 2 ∧ q.2 = 29)) ∧
    tzobMonYday.getD m 0 + q.2 = doy ∧ (q.1 > 10 ↔ m < 3) := by
  decide +kernel

theorem mlen_le (y m : Nat) (h1 : 1 ≤ m) (h2 : m ≤ 12) : mlen m ≤ monthLen y m := by
  rcases month_cases m h1 h2 with h|h|h|h|h|h|h|h|h|h|h|h <;> subst h
  all_goals simp [mlen, instMdays, monthLen]
  split <;> omega

theorem mlen_le31 (m : Nat) (h1 : 1 ≤ m) (h2 : m ≤ 12) : mlen m ≤ 31 := by
  rcases month_cases m h1 h2 with h|h|h|h|h|h|h|h|h|h|h|h <;> subst h <;> decide

theorem tzyday_janfeb (m : Nat) (h1 : 1 ≤ m) (h2 : m < 3) : 306 ≤ tzobMonYday.getD m 0 := by
  have : m = 1 ∨ m = 2 := by omega
  rcases this with h | h <;> subst h <;> decide

theorem tzyday_other (m : Nat) (h1 : 3 ≤ m) (h2 : m ≤ 12) : tzobMonYday.getD m 0 + mlen m ≤ 306 := by
  rcases month_cases m (by omega) h2 with h|h|h|h|h|h|h|h|h|h|h|h <;> subst h <;> first | omega | decide

theorem feb29 (y : Nat) (h1 : 1901 ≤ y) (h2 : y ≤ 2099) (h4 : y % 4 = 0) : monthLen y 2 = 29 := by
  have : isLeap y = true := by simp [isLeap]; omega
  simp [monthLen, this]

set_option maxRecDepth 4000 in
/-- the date computed by `__epoch_to_inst` for day number `d` (1 = 1900-03-01 … 73049 = 2100-02-28) -/
theorem epochDate (d : Nat) (h1 : 1 ≤ d) (h2 : d < 73050) :
    ∃ b q1 q2 : Nat, yearStep d = (b, b * 365 + b / 4) ∧
      monStep (d - (b * 365 + b / 4)) = (q1, q2) ∧ b * 365 + b / 4 < d ∧
      (let m := tzobRm.getD q1 0
       let y := b + 1948 - 48 + (if q1 > 10 then 1 else 0)
       1 ≤ m ∧ m ≤ 12 ∧ 1 ≤ q2 ∧ q2 ≤ monthLen y m ∧ 1900 ≤ myear y m ∧ myear y m ≤ 2099 ∧
       days y m q2 = 693959 + d) := by
  obtain ⟨b, hb, b2, b3, b4⟩ := yearStep_spec d h1 h2
  have ms := monStep_spec (d - (b * 365 + b / 4)) (by split at b4 <;> omega) (by omega)
  refine ⟨b, (monStep (d - (b * 365 + b / 4))).1, (monStep (d - (b * 365 + b / 4))).2, hb, rfl, b3, ?_⟩
  generalize monStep (d - (b * 365 + b / 4)) = q at *
  simp only [] at ms ⊢
  obtain ⟨m1, m2, m3, m4, m5, m6⟩ := ms
  generalize hm : tzobRm.getD q.1 0 = m at *
  have hjf := tzyday_janfeb m m1
  have hc : (if q.1 > 10 then 1 else 0) = (if m < 3 then 1 else 0) := by
    by_cases c : q.1 > 10
    · rw [if_pos c, if_pos (m6.1 c)]
    · rw [if_neg c, if_neg (fun h => c (m6.2 h))]
  rw [hc]
  have hmy : myear (b + 1948 - 48 + (if m < 3 then 1 else 0)) m = (b : Int) + 1900 := by
    unfold myear; split <;> omega
  have hd := tz_days (b + 1948 - 48 + (if m < 3 then 1 else 0)) m q.2 m1 m2 (by omega) (by omega)
  rw [hmy] at hd ⊢
  refine ⟨m1, m2, m3, ?_, by omega, by omega, by omega⟩
  rcases m4 with h | ⟨h1, h2, h3⟩
  · exact Nat.le_trans h (mlen_le _ m m1 m2)
  · subst h2
    have hb4 : b % 4 = 3 := by
      by_cases c : b % 4 = 3
      · exact c
      · rw [if_neg c] at b4; omega
    rw [h3, show (if 2 < 3 then 1 else 0) = 1 from rfl, feb29 _ (by omega) (by omega) (by omega)]
    exact Nat.le_refl _
end Echse.Instant
