/-
  Property C05, rule text layer: a recurrence rule survives serialisation.  `send_rrul` writes the rule,
  `snarf_rrule` reads the line back: the same rule comes out, COUNT enlarged by the occurrences the stream has
  already handed out (`ccnt`), as the serialiser intends.

  Model: Echse.Model.RrText (`sendRrul`, `snarfRrule`, `ruleBody`), tied to src/evical.c by the ops `r.parse` /
  `r.print` of the correspondence check.  Statements only; the proofs are in Echse/Lemmas/RrText1 … RrText12.

  (Finding D123, repaired in the C code: `snarf_scale` looked at bytes behind the scale name, so HIJRI.IA/IC/IIA/IIC
  were read back wrongly depending on what followed; see `scale_names_roundtrip`.)
-/
import Echse.Lemmas.RrText12
import Echse.Spec.RrOk
import Echse.Props.C17
namespace C05
open Echse.Rrule Echse.Instant Echse.RrText Echse.Spec.Cal

/-- strictly ascending: the order in which an unsigned bitint part is iterated -/
def AscU (l : List Nat) : Prop := l.Pairwise (· < ·)
/-- the order in which a signed bitint part is iterated: 0, 1, 2, … then -1, -2, … -/
def AscI (l : List Int) : Prop := l.Pairwise iterLt

instance (l : List Nat) : Decidable (AscU l) := by unfold AscU; infer_instance
instance (l : List Int) : Decidable (AscI l) := by unfold AscI; infer_instance

/-- The rules the parser can hand out and the serialiser can write so that they come back.
Every list part is the list its bitint iterator yields, so it is in iterator order and free of duplicates. -/
structure PrintableRule (r : Rule) : Prop where
  /-- FREQ is one of YEARLY … SECONDLY (a rule without FREQ is written `FREQ=NONE`, which does not parse) -/
  freq : 1 ≤ r.freq ∧ r.freq ≤ 7
  /-- SCALE: Gregorian, or one of HIJRI.IIIA, IIIC, IVA, IVC, UMMULQURA, DIYANET (see the finding above) -/
  scale : r.scale = 0 ∨ (1 ≤ r.scale ∧ r.scale ≤ 10)
  /-- INTERVAL: 1 (not written) or what `snarf_rrule` admits, 1 … INT_MAX -/
  inter : 1 ≤ r.inter ∧ r.inter < 2^31
  /-- COUNT: none (-1) or 1 … INT_MAX (`COUNT=0` is rejected by the parser) -/
  count : r.count = -1 ∨ (1 ≤ r.count ∧ r.count < 2^31)
  /-- UNTIL: none (the all-ones instant), a normal date-time with second resolution, or a normal date -/
  untl : r.untl = Inst.unpack (2^64 - 1) ∨ UntilOk r.untl
  /-- SHIFT: day count and business-day count within the ±366 `snarf_shift` admits, zero business days only as
  `+0B` / `-0B` (`shift_is_mkShift`, `shift_is_days` below: every value `C17.mkShift` builds qualifies) -/
  shift : ShiftOk r.shift
  /-- BYMONTH 1 … 12 -/
  mon : AscU r.mon ∧ ∀ m ∈ r.mon, 1 ≤ m ∧ m ≤ 12
  /-- BYWEEKNO ±1 … ±53 -/
  wk : AscI r.wk ∧ ∀ w ∈ r.wk, w ≠ 0 ∧ -53 ≤ w ∧ w ≤ 53
  /-- BYYEARDAY ±1 … ±366 -/
  doy : AscI r.doy ∧ ∀ d ∈ r.doy, d ≠ 0 ∧ -366 ≤ d ∧ d ≤ 366
  /-- BYMONTHDAY ±1 … ±31 -/
  dom : AscI r.dom ∧ ∀ d ∈ r.dom, d ≠ 0 ∧ -31 ≤ d ∧ d ≤ 31
  /-- BYEASTER -366 … 366, zero included -/
  easter : AscI r.easter ∧ ∀ e ∈ r.easter, -366 ≤ e ∧ e ≤ 366
  /-- BYDAY: `pack_cd` of an ordinal -53 … 53 and a weekday 1 … 7, i.e. `8 * ordinal + weekday` -/
  dow : AscI r.dow ∧ ∀ v ∈ r.dow, CdOk v
  /-- BYHOUR 0 … 23 -/
  hours : AscU r.H ∧ ∀ h ∈ r.H, h < 24
  /-- BYMINUTE 0 … 59 -/
  mins : AscU r.M ∧ ∀ m ∈ r.M, m < 60
  /-- BYSECOND 0 … 59 -/
  secs : AscU r.S ∧ ∀ s ∈ r.S, s < 60
  /-- BYSETPOS ±1 … ±366 -/
  pos : AscI r.pos ∧ ∀ p ∈ r.pos, p ≠ 0 ∧ -366 ≤ p ∧ p ≤ 366

/-- the conjuncts are all decidable -/
def printableRuleB (r : Rule) : Bool :=
  decide (1 ≤ r.freq ∧ r.freq ≤ 7) && decide (r.scale = 0 ∨ (1 ≤ r.scale ∧ r.scale ≤ 10)) &&
  decide (1 ≤ r.inter ∧ r.inter < 2^31) && decide (r.count = -1 ∨ (1 ≤ r.count ∧ r.count < 2^31)) &&
  decide (r.untl = Inst.unpack (2^64 - 1) ∨ UntilOk r.untl) && decide (ShiftOk r.shift) &&
  decide (AscU r.mon ∧ ∀ m ∈ r.mon, 1 ≤ m ∧ m ≤ 12) && decide (AscI r.wk ∧ ∀ w ∈ r.wk, w ≠ 0 ∧ -53 ≤ w ∧ w ≤ 53) &&
  decide (AscI r.doy ∧ ∀ d ∈ r.doy, d ≠ 0 ∧ -366 ≤ d ∧ d ≤ 366) &&
  decide (AscI r.dom ∧ ∀ d ∈ r.dom, d ≠ 0 ∧ -31 ≤ d ∧ d ≤ 31) &&
  decide (AscI r.easter ∧ ∀ e ∈ r.easter, -366 ≤ e ∧ e ≤ 366) && decide (AscI r.dow ∧ ∀ v ∈ r.dow, CdOk v) &&
  decide (AscU r.H ∧ ∀ h ∈ r.H, h < 24) && decide (AscU r.M ∧ ∀ m ∈ r.M, m < 60) &&
  decide (AscU r.S ∧ ∀ s ∈ r.S, s < 60) && decide (AscI r.pos ∧ ∀ p ∈ r.pos, p ≠ 0 ∧ -366 ≤ p ∧ p ≤ 366)

theorem printable_of_check (r : Rule) (h : printableRuleB r = true) : PrintableRule r := by
  simp only [printableRuleB, Bool.and_eq_true, decide_eq_true_eq] at h
  obtain ⟨⟨⟨⟨⟨⟨⟨⟨⟨⟨⟨⟨⟨⟨⟨h1, h2⟩, h3⟩, h4⟩, h5⟩, h6⟩, h7⟩, h8⟩, h9⟩, h10⟩, h11⟩, h12⟩, h13⟩, h14⟩, h15⟩, h16⟩ := h
  exact ⟨h1, h2, h3, h4, h5, h6, h7, h8, h9, h10, h11, h12, h13, h14, h15, h16⟩

/-! ### the round trip -/

/-- Writing a rule and reading it back yields the same rule, with the occurrences already handed out added to
COUNT.  `ruleBody` is the written line without `RRULE:` and the newline, which is what the iCalendar reader hands
to `snarf_rrule`. -/
theorem rule_text_roundtrip (r : Rule) (ccnt : Nat) (h : PrintableRule r) (hc : 0 ≤ r.count → r.count + ccnt < 2^31) :
    snarfRrule (ruleBody (sendRrul r ccnt false)) =
      { r with count := if r.count ≥ 0 then r.count + ccnt else r.count } := by
  have hb : ruleBody (sendRrul r ccnt false) = String.ofList (body r ccnt) := by
    unfold ruleBody sendRrul
    rw [String.toList_ofList, sendRrulL_eq]
    have e : (if false = true then "EXRULE:".toList else "RRULE:".toList) ++ (body r ccnt ++ ['\n'])
        = "RRULE".toList ++ ':' :: (body r ccnt ++ ['\n']) := by simp
    rw [e, dropWhile_avoid ':' _ _ (by decide), List.drop_one, List.tail_cons, List.dropLast_concat]
  unfold snarfRrule
  rw [hb, String.toList_ofList]
  have hcount : r.count = -1 ∨ (1 ≤ r.count ∧ r.count + ccnt < 2^31) := by
    rcases h.count with h1 | h1
    · exact Or.inl h1
    · exact Or.inr ⟨h1.1, hc (by omega)⟩
  exact body_roundtrip r ccnt h.freq h.scale h.inter hcount h.untl h.shift h.mon h.wk h.doy h.dom h.easter h.dow
    h.hours h.mins h.secs h.pos

/-- the same for exception rules: `EXRULE:` instead of `RRULE:` -/
theorem exrule_text_roundtrip (r : Rule) (ccnt : Nat) (h : PrintableRule r)
    (hc : 0 ≤ r.count → r.count + ccnt < 2^31) :
    snarfRrule (ruleBody (sendRrul r ccnt true)) =
      { r with count := if r.count ≥ 0 then r.count + ccnt else r.count } := by
  have hb : ruleBody (sendRrul r ccnt true) = ruleBody (sendRrul r ccnt false) := by
    unfold ruleBody sendRrul
    rw [String.toList_ofList, String.toList_ofList, sendRrulL_eq, sendRrulL_eq]
    have e1 : (if true = true then "EXRULE:".toList else "RRULE:".toList) ++ (body r ccnt ++ ['\n'])
        = "EXRULE".toList ++ ':' :: (body r ccnt ++ ['\n']) := by simp
    have e2 : (if false = true then "EXRULE:".toList else "RRULE:".toList) ++ (body r ccnt ++ ['\n'])
        = "RRULE".toList ++ ':' :: (body r ccnt ++ ['\n']) := by simp
    rw [e1, e2, dropWhile_avoid ':' _ _ (by decide), dropWhile_avoid ':' _ _ (by decide)]
  rw [hb]
  exact rule_text_roundtrip r ccnt h hc

/-- the two lines differ in the first word only -/
theorem exrule_line (r : Rule) (ccnt : Nat) :
    (sendRrul r ccnt true).toList = "EXRULE:".toList ++ ((sendRrul r ccnt false).toList.drop 6) := by
  unfold sendRrul
  rw [String.toList_ofList, String.toList_ofList, sendRrulL_eq, sendRrulL_eq]
  simp

/-! ### what `PrintableRule` covers -/

deriving instance DecidableEq for Echse.Rrule.Rule

/-- every value `C17.mkShift` builds (day count, business-day count, direction, keep form) is a printable SHIFT -/
theorem shift_is_mkShift (d : Int) (count : Nat) (back keep : Bool) (hd : -366 ≤ d ∧ d ≤ 366)
    (hc : count ≤ 366) : ShiftOk (C17.mkShift d count back keep) := by
  unfold ShiftOk C17.mkShift shDvalue shAbsval shLow
  cases back <;> cases keep <;> by_cases h0 : count = 0 <;> simp [h0] <;> omega

/-- and so is every plain day shift -/
theorem shift_is_days (n : Int) (hn : -366 ≤ n ∧ n ≤ 366) : ShiftOk (n * 65536) := by
  unfold ShiftOk shDvalue shAbsval shLow; omega

/-- a printable Gregorian rule is a well-formed rule in the sense of the filler properties (C09, C16) -/
theorem printable_wf (r : Rule) (h : PrintableRule r) (hs : r.scale = 0) : Echse.Spec.RrOk.WfRule r where
  scale := hs
  inter := by have := h.inter; omega
  count := by have := h.count; omega
  hours := h.hours
  mins := h.mins
  secs := h.secs
  mon := h.mon
  dom := h.dom.2
  doy := h.doy.2
  wk := h.wk.2
  dow := fun t ht => by have := h.dow.2 t ht; unfold CdOk at this; omega
  pos := h.pos.2
  easter := h.easter.2
  shift := by have := h.shift; unfold ShiftOk shDvalue shAbsval shLow at this; omega

/-! ### the premises are satisfiable -/

/-- a rule with every part: several BY lists with negative values, BYDAY with ordinals, SHIFT, COUNT, UNTIL -/
def richRule : Rule :=
  { freq := 1, inter := 2, count := 10, untl := ⟨2030, 12, 31, 23, 59, 59, allSec⟩,
    shift := C17.mkShift (-2) 3 true true,
    dom := [1, 15, -1], doy := [100, -1], dow := [1, 18, -2, -7], mon := [3, 11], wk := [20, -1],
    H := [9, 17], M := [0, 30], S := [0], pos := [1, -1], easter := [0, 49, -2] }

example : PrintableRule richRule := printable_of_check _ (by decide)
#eval sendRrul richRule 3 false
#eval decide (snarfRrule (ruleBody (sendRrul richRule 3 false)) = { richRule with count := 13 })
example : snarfRruleL (body richRule 3) = { richRule with count := 13 } := by decide
example : snarfRrule (ruleBody (sendRrul richRule 3 false)) = { richRule with count := 13 } := by decide +kernel
/-- a small exception rule, through the `String` functions -/
example : sendRrul { freq := 3, count := 2, dow := [1, -2], shift := 2 } 7 true
      = "EXRULE:FREQ=WEEKLY;BYDAY=MO,-1SA;SHIFT=+0B;COUNT=9\n" ∧
    snarfRrule (ruleBody (sendRrul { freq := 3, count := 2, dow := [1, -2], shift := 2 } 7 true))
      = { freq := 3, count := 9, dow := [1, -2], shift := 2 } := by decide

/-! ### findings: where the round trip fails -/

/-- (finding D123, repaired: `snarf_scale` used to look at bytes behind the scale name) every scale name is read back
as itself, whatever follows it -/
theorem scale_names_roundtrip : ∀ sca ∈ List.range 11,
    snarfRrule (ruleBody (sendRrul { freq := 4, scale := sca, count := 5 } 0 false)) = { freq := 4, scale := sca, count := 5 } ∧
    snarfRrule (ruleBody (sendRrul { freq := 4, scale := sca } 0 false)) = { freq := 4, scale := sca } := by decide
/-- a used-up COUNT (0, no cached occurrences) is written as `COUNT=0`, which the parser rejects -/
theorem count_zero_counterexample :
    sendRrul { freq := 4, count := 0 } 0 false = "RRULE:FREQ=DAILY;COUNT=0\n" ∧
    snarfRrule "FREQ=DAILY;COUNT=0" = bogusRule := by decide

end C05
