/-
  C07 — time-zone table look-ups (`tzraw.c`, `tzob.c`), for EVERY well-formed zone table.

  Vocabulary (Echse/Lemmas/Tz.lean):
    `I32 t`        `t` fits the `int32_t` parameter;
    `WF z`         transition times strictly increasing and within int32, one type index per
                   transition, every index below the number of types, fewer than 256
                   transitions, every offset within ±86400 s, not the UTC zone;
    `tr z i`       the `i`-th transition time;
    `trIdx z t`    (number of transitions `≤ t`) − 1: the last transition at or before `t`,
                   `-1` when there is none;
    `off z t`      the UTC offset in force at `t`: the offset of the type of transition
                   `trIdx z t`, of type 0 before the first transition — the uncached spec;
    `CacheOK z c`  the cache is fresh or holds a range on which `off z` is constant;
    `CacheRng z c` the cache is fresh or holds a range a look-up reported (what the C code stores; implies
                   `CacheOK`) — `zif_utc_time` looks at the neighbours of the cached range and needs this one;
    `NoTrBetween`, `Far`, `OffsLe`   windows free of transitions (item 4);
    `Room w`       `w` is at least a day (the largest offset) away from both ends of int32;
    `utcVal z w`   what `zif_utc_time` answers for the local time `w` (Echse/Lemmas/Tz5.lean);
    `guessIdx z w` the stretch of the first guess `w − off (w − off w)`; `Near z w u`: `u` lies in that stretch
                   or in one next to it (the three stretches `zif_utc_time` tries);
    `Spaced z`     consecutive transitions are farther apart than any two offsets differ (decidable).

  1 search, 2 range, 3 cache, 4 local ↔ UTC, 4b repeated and skipped local times, 5 instants.
  Statements only; helper lemmas live in Echse/Lemmas/Tz*.lean.
-/
import Echse.Lemmas.Tz
import Echse.Lemmas.Tz2
import Echse.Lemmas.Tz3
import Echse.Lemmas.Tz6
import Echse.Lemmas.Tz8
namespace C07
open Echse.Tz Echse.Instant Echse.Spec.Cal

/-! ### 1. the search -/

/-- The bisection loop ends when entered with an interval of width at most `2^k` and `k + 1`
rounds of fuel: every round returns or at least halves (rounding up) `max − min`, and an
interval of width 1 returns at once. -/
theorem bisect_terminates (z : Zone) (wf : WF z) (t : Int) (fuel k : Nat) (min max : Int)
    (h0 : 0 ≤ min) (hlt : min < max) (hmax : max ≤ z.ntr) (hw : max - min ≤ (2 ^ k : Nat)) (hk : k < fuel)
    (hlo : zifTrans z min ≤ t) (hhi : t < zifTrans z max) :
    ∃ r, bisect z t fuel min max = some r ∧ min ≤ r ∧ r < max ∧
      zifTrans z r ≤ t ∧ t < zifTrans z (r + 1) :=
  bisect_spec z wf t fuel k min max h0 hlt hmax hw hk hlo hhi

/-- `__find_trno(z, t, 0, ntrans)` terminates within the fuel (9 rounds suffice for fewer
than 256 transitions, the model allows 64) and returns the last transition at or before
`t`: `-1` iff there is none, otherwise the `k` with `trs[k] ≤ t < trs[k+1]` (no upper
bound for the last one).  `t` need not even fit int32. -/
theorem search (z : Zone) (wf : WF z) (t : Int) :
    ∃ k, findTrno z t 0 z.ntr = some k ∧ k = trIdx z t ∧
      (k = -1 ↔ (z.ntr = 0 ∨ t < tr z 0)) ∧
      (k ≠ -1 → 0 ≤ k ∧ k < z.ntr ∧ tr z k.toNat ≤ t ∧ (k + 1 < z.ntr → t < tr z (k + 1).toNat)) := by
  have hI := isIdx_trIdx z wf t
  refine ⟨_, findTrno_eq z wf t, rfl, ?_, ?_⟩
  · rcases hI with ⟨e, h⟩ | ⟨a, b, c, d⟩
    · exact ⟨fun _ => h, fun _ => e⟩
    · constructor
      · intro e; omega
      · intro h; exfalso
        have := tr_mono_le z wf 0 (trIdx z t).toNat (by omega) (by omega)
        omega
  · intro hne
    rcases hI with ⟨e, _⟩ | h
    · exact absurd e hne
    · exact h

/-- the characterisation determines `k` -/
theorem search_unique (z : Zone) (wf : WF z) (t k : Int)
    (h : (k = -1 ∧ (z.ntr = 0 ∨ t < tr z 0)) ∨
      (0 ≤ k ∧ k < z.ntr ∧ tr z k.toNat ≤ t ∧ (k + 1 < z.ntr → t < tr z (k + 1).toNat))) :
    findTrno z t 0 z.ntr = some k := by
  rw [findTrno_eq z wf t, isIdx_unique z wf t k h]

/-- at or after the last recorded transition — in particular AT it — the search returns the
last index (this case used to loop forever). -/
theorem search_last (z : Zone) (wf : WF z) (hn : z.ntr ≠ 0) (t : Int) (ht : tr z (z.ntr - 1) ≤ t) :
    findTrno z t 0 z.ntr = some ((z.ntr : Int) - 1) := by
  apply search_unique z wf
  refine Or.inr ⟨by omega, by omega, ?_, by omega⟩
  have : ((z.ntr : Int) - 1).toNat = z.ntr - 1 := by omega
  rw [this]; exact ht

theorem search_last_eq (z : Zone) (wf : WF z) (hn : z.ntr ≠ 0) :
    findTrno z (tr z (z.ntr - 1)) 0 z.ntr = some ((z.ntr : Int) - 1) :=
  search_last z wf hn _ (Int.le_refl _)

/-! ### 2. the enclosing range -/

/-- `__find_zrng` for an int32 `t`: the range `[prev, next)` contains `t` — except that
`t = intMax` is reported with `next = intMax` (`intMax` stands for +∞ in the last range; the
cache test `t < next` therefore never hits for `t = intMax`, which is recomputed each time);
its offset is the offset in force at `t`; and the range is homogeneous: every `t'` in it
yields the very same range, hence the same offset. -/
theorem range (z : Zone) (wf : WF z) (t : Int) (ht : I32 t) :
    ∃ r, findZrng z t = some r ∧
      r.prev ≤ t ∧ (t < r.next ∨ (t = intMax ∧ r.next = intMax)) ∧
      intMin ≤ r.prev ∧ r.next ≤ intMax ∧
      r.offs = off z t ∧ (r.trno : Int) = max (trIdx z t) 0 ∧
      (∀ t', r.prev ≤ t' → t' < r.next → findZrng z t' = some r ∧ off z t' = r.offs) := by
  obtain ⟨b1, b2, b3, b4⟩ := rngAt_bounds z wf t ht
  refine ⟨_, findZrng_eq z wf t ht, b1, b2, b3, b4, rngAt_offs z _, ?_, ?_⟩
  · by_cases hk : trIdx z t < 0
    · rw [rngAt_neg z _ hk]; simp only []; omega
    · rw [rngAt_nonneg z _ (by omega)]; simp only []; omega
  · intro t' h1 h2
    have e := findZrng_homog z wf t t' h1 h2
    have ht' : I32 t' := by
      rw [I32_iff] at *; simp only [intMin, intMax] at b3 b4; omega
    refine ⟨by rw [findZrng_eq z wf t' ht', e], ?_⟩
    unfold off; rw [e, rngAt_offs]

/-- the offset of the range spelled out: the type of transition `k`, type 0 for `k = -1` -/
theorem off_eq (z : Zone) (t : Int) :
    off z t = if trIdx z t < 0 then z.offs.getD 0 0
              else z.offs.getD (z.tys.getD (trIdx z t).toNat 0) 0 := rfl

/-- … and `k` is the index the search returns -/
theorem range_offs (z : Zone) (wf : WF z) (t : Int) (ht : I32 t) :
    ∃ k r, findTrno z t 0 z.ntr = some k ∧ findZrng z t = some r ∧
      r.offs = (if k = -1 then z.offs.getD 0 0 else zifTroffs z k) := by
  refine ⟨_, _, findTrno_eq z wf t, findZrng_eq z wf t ht, ?_⟩
  rw [rngAt_offs]
  obtain ⟨l, u⟩ := trIdx_range z t
  unfold offAt
  by_cases hk : trIdx z t = -1
  · rw [if_pos hk, if_pos (by omega)]
  · rw [if_neg hk, if_neg (by omega)]
    unfold zifTroffs
    rw [zifType_lt z _ (by omega) u]

/-- at `t = intMax` the reported range always ends at `intMax` -/
theorem range_intMax (z : Zone) (wf : WF z) :
    ∃ r, findZrng z intMax = some r ∧ r.next = intMax ∧ r.offs = off z intMax := by
  obtain ⟨r, e, _, h, _, _, o, _⟩ := range z wf intMax (by decide)
  refine ⟨r, e, ?_, o⟩
  rcases h with h | h
  · omega
  · exact h.2

/-! ### 3. the cache is transparent -/

theorem cacheOK_fresh (z : Zone) : CacheOK z ZRng.fresh := Or.inl rfl

/-- a look-up through any admissible cache returns the uncached offset and leaves an
admissible cache -/
theorem cache_transparent (z : Zone) (wf : WF z) (c : ZRng) (hc : CacheOK z c) (t : Int) (ht : I32 t) :
    ∃ c', offsC z c t = some (off z t, c') ∧ CacheOK z c' :=
  offsC_spec z wf c hc t ht

/-- `time_t` arguments outside int32 are clamped first (`__clamp`), they do not wrap -/
theorem cache_transparent_clamp (z : Zone) (wf : WF z) (c : ZRng) (hc : CacheOK z c) (t : Int) :
    ∃ c', offsC z c t = some (off z (clamp32 t), c') ∧ CacheOK z c' := by
  have hw : I32 (clamp32 t) := clamp32_I32 t
  obtain ⟨c', e, h⟩ := offsC_spec z wf c hc (clamp32 t) hw
  refine ⟨c', ?_, h⟩
  unfold offsC at e ⊢
  rw [clamp32_idem] at e
  exact e

/-- any sequence of look-ups (`offsSeq` threads the cache through) returns the uncached offsets -/
theorem cache_sequence (z : Zone) (wf : WF z) (c : ZRng) (hc : CacheOK z c) (ts : List Int)
    (h : ∀ t ∈ ts, I32 t) :
    ∃ c', offsSeq z c ts = some (ts.map (off z), c') ∧ CacheOK z c' :=
  offsSeq_spec z wf ts c hc h

/-- the stronger invariant the real cache satisfies: fresh, or a range `__find_zrng` reported (nothing else is
ever stored).  `zif_utc_time` looks at the neighbours of the cached range, so it needs this one. -/
theorem cacheRng_fresh (z : Zone) : CacheRng z ZRng.fresh := Or.inl rfl

theorem cacheOK_of_cacheRng (z : Zone) (wf : WF z) (c : ZRng) (h : CacheRng z c) : CacheOK z c :=
  cacheOK_of_rng z wf c h

/-- through such a cache the look-up leaves exactly the range of `t`, whatever was cached before -/
theorem cache_transparent_rng (z : Zone) (wf : WF z) (c : ZRng) (hc : CacheRng z c) (t : Int) (ht : I32 t) :
    offsC z c t = some (off z t, rngAt z (trIdx z t)) ∧ CacheRng z (rngAt z (trIdx z t)) :=
  ⟨offsC_rng z wf c hc t ht, cacheRng_rngAt z t ht⟩

/-- the look-up only ever sees the clamped instant -/
theorem offsC_clamp (z : Zone) (c : ZRng) (t : Int) : offsC z c t = offsC z c (clamp32 t) := by
  unfold offsC; rw [clamp32_idem]

/-- behind the end of the table the offset stays what it was: every instant at or beyond `intMax` gets the
offset (and leaves the range) of `intMax`, i.e. of the last stretch; nothing wraps into the past -/
theorem offs_beyond_table (z : Zone) (wf : WF z) (c : ZRng) (hc : CacheRng z c) (t : Int) (ht : t ≥ intMax) :
    offsC z c t = some (off z intMax, rngAt z (trIdx z intMax)) := by
  have e : clamp32 t = intMax := by
    unfold clamp32
    by_cases h : t > intMax
    · rw [if_pos h]
    · have : t = intMax := by omega
      subst this; decide
  rw [offsC_clamp, e]
  exact offsC_rng z wf c hc intMax (by decide)

/-- likewise before its beginning -/
theorem offs_before_table (z : Zone) (wf : WF z) (c : ZRng) (hc : CacheRng z c) (t : Int) (ht : t ≤ intMin) :
    offsC z c t = some (off z intMin, rngAt z (trIdx z intMin)) := by
  have e : clamp32 t = intMin := by
    unfold clamp32
    by_cases h : t < intMin
    · rw [if_neg (by unfold intMax; unfold intMin at h; omega), if_pos h]
    · have : t = intMin := by omega
      subst this; decide
  rw [offsC_clamp, e]
  exact offsC_rng z wf c hc intMin (by decide)

/-! ### 4. local ↔ UTC -/

/-- `zif_local_time` adds the offset in force -/
theorem local_time (z : Zone) (wf : WF z) (c : ZRng) (hc : CacheOK z c) (u : Int) (hu : I32 u) :
    ∃ c', localTime z c u = some (u + off z u, c') ∧ CacheOK z c' :=
  localTime_spec z wf c hc u hu

theorem local_time_rng (z : Zone) (wf : WF z) (c : ZRng) (hc : CacheRng z c) (u : Int) (hu : I32 u) :
    ∃ c', localTime z c u = some (u + off z u, c') ∧ CacheRng z c' :=
  ⟨_, localTime_rng z wf c hc u hu, cacheRng_rngAt z u hu⟩

/-- what `zif_utc_time` computes for a wall-clock value `w`: `utcVal z w` — the first guess `w − off (w − off w)`
selects a stretch (`guessIdx z w`); of it and its two neighbours (`candsAt`) the smallest valid answer is
taken, else the offset from before the gap (`pick`).  The cache is left on the stretch of the guess. -/
theorem utc_time_value (z : Zone) (wf : WF z) (c : ZRng) (hc : CacheRng z c) (w : Int) (hw : I32 w)
    (hw' : I32 (w - off z w)) :
    utcTime z c w = some (utcVal z w, rngAt z (guessIdx z w)) ∧ CacheRng z (rngAt z (guessIdx z w)) :=
  ⟨utcTime_eq' z wf c hc w hw hw', cacheRng_rngAt z _ hw'⟩

/-- neither the answer nor the cache left behind depends on the cache handed in -/
theorem utc_cache_independent (z : Zone) (wf : WF z) (c c' : ZRng) (hc : CacheRng z c) (hc' : CacheRng z c')
    (w : Int) (hw : I32 w) (hw' : I32 (w - off z w)) : utcTime z c w = utcTime z c' w := by
  rw [utcTime_eq' z wf c hc w hw hw', utcTime_eq' z wf c' hc' w hw hw']

/-- the answer is `w` less the offset of some stretch: within a day of `w` -/
theorem utc_time_bound (z : Zone) (wf : WF z) (w : Int) : w - 86400 ≤ utcVal z w ∧ utcVal z w ≤ w + 86400 :=
  utcVal_bound z wf w

/-- For the wall clock `w = u + off u` of a UTC time `u` in the stretch of the guess or next to it (`Near`) the
result is `u` EXACTLY WHEN `u` is the first of the UTC times there that show `w`.  `Room`: one day to spare at
both ends of int32. -/
theorem utc_of_local_iff (z : Zone) (wf : WF z) (c : ZRng) (hc : CacheRng z c) (u : Int)
    (hr : Room (u + off z u)) (hn : Near z (u + off z u) u) :
    ∃ r c', utcTime z c (u + off z u) = some (r, c') ∧ CacheRng z c' ∧
      (r = u ↔ ∀ u', u' + off z u' = u + off z u → Near z (u + off z u) u' → u ≤ u') := by
  obtain ⟨h1, h2⟩ := room_I32 z wf _ hr
  exact ⟨_, _, utcTime_eq' z wf c hc _ h1 h2, cacheRng_rngAt z _ h2, utcVal_eq_iff z wf u hr hn⟩

theorem utc_of_local (z : Zone) (wf : WF z) (c : ZRng) (hc : CacheRng z c) (u : Int)
    (hr : Room (u + off z u)) (hn : Near z (u + off z u) u)
    (hfst : ∀ u', u' + off z u' = u + off z u → Near z (u + off z u) u' → u ≤ u') :
    ∃ c', utcTime z c (u + off z u) = some (u, c') ∧ CacheRng z c' := by
  obtain ⟨h1, h2⟩ := room_I32 z wf _ hr
  refine ⟨_, ?_, cacheRng_rngAt z _ h2⟩
  rw [utcTime_eq' z wf c hc _ h1 h2, (utcVal_eq_iff z wf u hr hn).2 hfst]

/-- an unambiguous wall clock (`u` its only preimage) is converted back to `u` -/
theorem utc_of_local_unambiguous (z : Zone) (wf : WF z) (c : ZRng) (hc : CacheRng z c) (u : Int)
    (hr : Room (u + off z u)) (hn : Near z (u + off z u) u)
    (huniq : ∀ u', u' + off z u' = u + off z u → u' = u) :
    ∃ c', utcTime z c (u + off z u) = some (u, c') ∧ CacheRng z c' :=
  utc_of_local z wf c hc u hr hn (fun u' h _ => by rw [huniq u' h]; exact Int.le_refl _)

/-- the old first-guess condition … -/
theorem firstGuess_of_window (z : Zone) (u : Int)
    (h : NoTrBetween z (u + off z u - off z (u + off z u)) u) :
    off z (u + off z u - off z (u + off z u)) = off z u :=
  off_eq_of_noTr z _ _ h

/-- … and `Near` hold when no transition lies between the guess and `u` … -/
theorem near_of_window (z : Zone) (u : Int)
    (h : NoTrBetween z (u + off z u - off z (u + off z u)) u) : Near z (u + off z u) u :=
  near_of_noTr z u h

/-- … in particular when `u` is at least `2·M` away from every transition, `M` bounding the
magnitude of the offsets (`M = 86400` always does for a `WF` table); the wall clock is then
unambiguous as well. -/
theorem firstGuess_of_far (z : Zone) (M u : Int) (hM : OffsLe z M) (hf : Far z M u) :
    off z (u + off z u - off z (u + off z u)) = off z u ∧ Near z (u + off z u) u ∧
    (∀ u', u' + off z u' = u + off z u → u' = u) :=
  ⟨far_firstGuess z M u hM hf, near_of_far z M u hM hf, far_unambiguous z M u hM hf⟩

theorem offsLe_wf (z : Zone) (wf : WF z) : OffsLe z 86400 := offsLe_of_wf z wf

/-- far from every transition the wall clock is converted back -/
theorem utc_of_local_far (z : Zone) (wf : WF z) (c : ZRng) (hc : CacheRng z c) (u : Int)
    (hr : Room (u + off z u)) (hf : Far z 86400 u) :
    ∃ c', utcTime z c (u + off z u) = some (u, c') ∧ CacheRng z c' :=
  utc_of_local_unambiguous z wf c hc u hr (near_of_far z _ u (offsLe_of_wf z wf) hf)
    (far_unambiguous z _ u (offsLe_of_wf z wf) hf)

/-- round trip `utcTime (localTime u) = u` when `u` is the first UTC time (next to the guess) showing its
wall clock, the cache threaded through -/
theorem utc_local_roundtrip (z : Zone) (wf : WF z) (c : ZRng) (hc : CacheRng z c) (u : Int) (hu : I32 u)
    (hr : Room (u + off z u)) (hn : Near z (u + off z u) u)
    (hfst : ∀ u', u' + off z u' = u + off z u → Near z (u + off z u) u' → u ≤ u') :
    ∃ w c1 c2, localTime z c u = some (w, c1) ∧ utcTime z c1 w = some (u, c2) ∧ CacheRng z c2 := by
  obtain ⟨c1, e1, h1⟩ := local_time_rng z wf c hc u hu
  obtain ⟨c2, e2, h2⟩ := utc_of_local z wf c1 h1 u hr hn hfst
  exact ⟨_, c1, c2, e1, e2, h2⟩

/-! ### 4b. local times the zone has twice, local times the clocks skipped

`Near z w u`: `u` lies in the stretch the first guess selects (`guessIdx z w`) or in one next to it — the three
stretches `zif_utc_time` looks at.  `Spaced z` (decidable for a concrete table): consecutive transitions are
farther apart than any two offsets of the table differ; then every preimage is `Near` and a local time in a
gap has a guess at that gap. -/

/-- (a) a local time `w` with at least one preimage `u` (a UTC time showing `w`) next to the guess: the answer is
the SMALLEST such preimage — the first occurrence of a repeated local time -/
theorem utc_of_local_first (z : Zone) (wf : WF z) (c : ZRng) (hc : CacheRng z c) (w : Int) (hr : Room w)
    (u : Int) (hu : u + off z u = w) (hn : Near z w u) :
    ∃ m c', utcTime z c w = some (m, c') ∧ CacheRng z c' ∧ m + off z m = w ∧ Near z w m ∧ m ≤ u ∧
      ∀ u', u' + off z u' = w → Near z w u' → m ≤ u' := by
  obtain ⟨h1, h2⟩ := room_I32 z wf w hr
  obtain ⟨a, b, m⟩ := utcVal_first z wf w hr u hu hn
  exact ⟨_, _, utcTime_eq' z wf c hc w h1 h2, cacheRng_rngAt z _ h2, a, b, m u hu hn, m⟩

/-- … in a `Spaced` zone: the smallest of ALL preimages -/
theorem utc_of_local_first_spaced (z : Zone) (wf : WF z) (sp : Spaced z) (c : ZRng) (hc : CacheRng z c)
    (w : Int) (hr : Room w) (u : Int) (hu : u + off z u = w) :
    ∃ m c', utcTime z c w = some (m, c') ∧ CacheRng z c' ∧ m + off z m = w ∧
      ∀ u', u' + off z u' = w → m ≤ u' := by
  obtain ⟨m, c', e, h, a, _, _, mn⟩ := utc_of_local_first z wf c hc w hr u hu (spaced_near z wf sp w u hu)
  exact ⟨m, c', e, h, a, fun u' hu' => mn u' hu' (spaced_near z wf sp w u' hu')⟩

/-- (b) a local time `w` in the gap of transition `k` (`trs[k] + offset before ≤ w < trs[k] + offset after`)
without a preimage next to the guess, the guess in one of the two stretches at that transition: the answer is
`w` less the offset from BEFORE the gap -/
theorem utc_of_local_gap_near (z : Zone) (wf : WF z) (c : ZRng) (hc : CacheRng z c) (w : Int) (hr : Room w)
    (k : Nat) (hk : k < z.ntr)
    (hlo : tr z k + off z (tr z k - 1) ≤ w) (hhi : w < tr z k + off z (tr z k))
    (hadj : guessIdx z w = (k : Int) - 1 ∨ guessIdx z w = k)
    (hno : ∀ u, u + off z u = w → ¬ Near z w u) :
    ∃ c', utcTime z c w = some (w - off z (tr z k - 1), c') ∧ CacheRng z c' := by
  obtain ⟨h1, h2⟩ := room_I32 z wf w hr
  rw [off_before z wf k hk] at hlo ⊢
  rw [off_at_tr z wf k hk] at hhi
  have e := utcVal_gap z wf w hr k (by omega) (by omega) (by rw [Int.toNat_natCast]; exact hlo)
    (by rw [Int.toNat_natCast]; exact hhi) hadj hno
  exact ⟨_, by rw [utcTime_eq' z wf c hc w h1 h2, e], cacheRng_rngAt z _ h2⟩

/-- … in a `Spaced` zone a local time in the gap of transition `k` has no preimage at all, and the answer is
`w` less the offset from before the gap (RFC 5545 3.3.5) -/
theorem utc_of_local_gap (z : Zone) (wf : WF z) (sp : Spaced z) (c : ZRng) (hc : CacheRng z c)
    (w : Int) (hr : Room w) (k : Nat) (hk : k < z.ntr)
    (hlo : tr z k + off z (tr z k - 1) ≤ w) (hhi : w < tr z k + off z (tr z k)) :
    (∀ u, u + off z u ≠ w) ∧
    ∃ c', utcTime z c w = some (w - off z (tr z k - 1), c') ∧ CacheRng z c' := by
  have hlo' := hlo
  have hhi' := hhi
  rw [off_before z wf k hk] at hlo'
  rw [off_at_tr z wf k hk] at hhi'
  obtain ⟨adj, no⟩ := spaced_gap z wf sp w k (by omega) (by omega) (by rw [Int.toNat_natCast]; exact hlo')
    (by rw [Int.toNat_natCast]; exact hhi')
  exact ⟨fun u hu => no u hu,
    utc_of_local_gap_near z wf c hc w hr k hk hlo hhi adj (fun u hu _ => no u hu)⟩

/-- a repeated local time: preimages `u1 < u2`; the answer is not `u2` -/
theorem utc_of_local_not_second (z : Zone) (wf : WF z) (c : ZRng) (hc : CacheRng z c) (u1 u2 : Int)
    (hr : Room (u2 + off z u2)) (h : u1 + off z u1 = u2 + off z u2) (hlt : u1 < u2)
    (hn : Near z (u2 + off z u2) u1) :
    ∃ m c', utcTime z c (u2 + off z u2) = some (m, c') ∧ m ≤ u1 ∧ m ≠ u2 := by
  obtain ⟨m, c', e, _, _, _, le, _⟩ := utc_of_local_first z wf c hc _ hr u1 h hn
  exact ⟨m, c', e, le, by omega⟩

/-! ### 5. instants -/

/-- all-day instants pass unchanged -/
theorem instant_allDay (z : Zone) (c : ZRng) (i : Inst) (h : i.isAllDay = true) :
    instantLoc z c i = some (i, c) ∧ instantUtc z c i = some (i, c) ∧ tzobOffs z i = some 0 := by
  unfold instantLoc instantUtc tzobOffs; simp [h]

/-- `echs_instant_loc`: the instant `off z (epoch i)` seconds later; the epoch time `ep i` of the instant is
signed (negative before 1970, `C08.toEpoch_spec`), so the statement holds for every year whose epoch times fit
`int32_t`, the type of the transition table: 1902..2037 -/
theorem instant_loc (z : Zone) (wf : WF z) (c : ZRng) (hc : CacheOK z c) (i : Inst)
    (h : NormalSec i) (hy1 : 1902 ≤ i.y) (hy2 : i.y ≤ 2037) :
    ∃ j c', instantLoc z c i = some (j, c') ∧ CacheOK z c' ∧ NormalSec j ∧ InRange j ∧
      absSec j = absSec i + off z (ep i) := by
  obtain ⟨e, l, u⟩ := ep_spec i h hy1 hy2
  have b := off_bound z wf (ep i)
  have hd := days_1901
  have hd' := days_2100
  have he := epochDays_eq
  exact instantLoc_gen z wf c hc i h ⟨by omega, by omega⟩ (by rw [I32_iff]; omega)
    (by omega) (by omega)

theorem instant_loc_rng (z : Zone) (wf : WF z) (c : ZRng) (hc : CacheRng z c) (i : Inst)
    (h : NormalSec i) (hy1 : 1902 ≤ i.y) (hy2 : i.y ≤ 2037) :
    ∃ j c', instantLoc z c i = some (j, c') ∧ CacheRng z c' ∧ NormalSec j ∧ InRange j ∧
      absSec j = absSec i + off z (ep i) := by
  obtain ⟨e, l, u⟩ := ep_spec i h hy1 hy2
  have b := off_bound z wf (ep i)
  have hd := days_1901
  have hd' := days_2100
  have he := epochDays_eq
  exact instantLoc_rng z wf c hc i h ⟨by omega, by omega⟩ (by rw [I32_iff]; omega)
    (by omega) (by omega)

/-- `echs_instant_utc`: the instant `w − utcVal z w` seconds earlier, `w = epoch i` (`utcVal`: see
`utc_time_value`, `utc_of_local_first`, `utc_of_local_gap`) -/
theorem instant_utc (z : Zone) (wf : WF z) (c : ZRng) (hc : CacheRng z c) (i : Inst)
    (h : NormalSec i) (hy1 : 1902 ≤ i.y) (hy2 : i.y ≤ 2037) :
    ∃ j c', instantUtc z c i = some (j, c') ∧ CacheRng z c' ∧ NormalSec j ∧ InRange j ∧
      absSec j = absSec i - (ep i - utcVal z (ep i)) := by
  obtain ⟨e, l, u⟩ := ep_spec i h hy1 hy2
  have b := off_bound z wf (ep i)
  have b' := utcVal_bound z wf (ep i)
  have hd := days_1901
  have hd' := days_2100
  have he := epochDays_eq
  exact instantUtc_gen z wf c hc i h ⟨by omega, by omega⟩ (by rw [I32_iff]; omega)
    (by rw [I32_iff]; omega) (by omega) (by omega)

/-- the years 1902..2037 leave room at both ends of int32 -/
theorem room_ep (i : Inst) (h : NormalSec i) (hy1 : 1902 ≤ i.y) (hy2 : i.y ≤ 2037) : Room (ep i) := by
  obtain ⟨_, l, u⟩ := ep_spec i h hy1 hy2
  unfold Room intMin intMax; omega

/-- if `i` shows the wall clock of the UTC time `u`, and `u` is the first such time in the stretch of the guess
or next to it, `echs_instant_utc` returns the instant of `u` (whether `u` is before 1970 or not) -/
theorem instant_utc_of_local (z : Zone) (wf : WF z) (c : ZRng) (hc : CacheRng z c) (i : Inst)
    (h : NormalSec i) (hy1 : 1902 ≤ i.y) (hy2 : i.y ≤ 2037) (u : Int) (hu : ep i = u + off z u)
    (hn : Near z (u + off z u) u)
    (hfst : ∀ u', u' + off z u' = u + off z u → Near z (u + off z u) u' → u ≤ u') :
    ∃ j c', instantUtc z c i = some (j, c') ∧ CacheRng z c' ∧ NormalSec j ∧ InRange j ∧
      absSec j = absSec i - off z u ∧ ep j = u := by
  obtain ⟨j, c', e, hc', n, r, a⟩ := instant_utc z wf c hc i h hy1 hy2
  obtain ⟨e1, l, up⟩ := ep_spec i h hy1 hy2
  have hr := room_ep i h hy1 hy2
  rw [hu] at hr
  rw [hu, (utcVal_eq_iff z wf u hr hn).2 hfst] at a
  have b := off_bound z wf u
  refine ⟨j, c', e, hc', n, r, by omega, ?_⟩
  exact ep_of_absSec j n u (by omega) (by omega) (by omega)

/-- round trip on instants: `echs_instant_utc (echs_instant_loc i) = i` when `u = epoch i` is the first UTC time
(next to the guess) that shows its wall clock (the local time may lie before 1970) -/
theorem instant_roundtrip (z : Zone) (wf : WF z) (c : ZRng) (hc : CacheRng z c) (i : Inst)
    (h : NormalSec i) (hy1 : 1902 ≤ i.y) (hy2 : i.y ≤ 2037)
    (hn : Near z (ep i + off z (ep i)) (ep i))
    (hfst : ∀ u', u' + off z u' = ep i + off z (ep i) → Near z (ep i + off z (ep i)) u' → ep i ≤ u') :
    ∃ j c1 c2, instantLoc z c i = some (j, c1) ∧ instantUtc z c1 j = some (i, c2) ∧ CacheRng z c2 := by
  obtain ⟨e, l, u⟩ := ep_spec i h hy1 hy2
  obtain ⟨j, c1, e1, h1, n, r, a⟩ := instant_loc_rng z wf c hc i h hy1 hy2
  have b := off_bound z wf (ep i)
  have hj : ep j = ep i + off z (ep i) := ep_of_absSec j n _ (by omega) (by omega) (by omega)
  have hr : Room (ep i + off z (ep i)) := by unfold Room intMin intMax; omega
  have hv : utcVal z (ep j) = ep i := by rw [hj]; exact (utcVal_eq_iff z wf _ hr hn).2 hfst
  have b' := off_bound z wf (ep j)
  have hd := days_1901
  have hd' := days_2100
  have he := epochDays_eq
  obtain ⟨j', c2, e2, h2, n', r', a'⟩ := instantUtc_gen z wf c1 h1 j n r (by rw [I32_iff]; omega)
    (by rw [I32_iff]; omega) (by omega) (by omega)
  have : j' = i := by
    apply absSec_inj _ _ n' h
    rw [a']; omega
  rw [this] at e2
  exact ⟨j, c1, c2, e1, e2, h2⟩

/-- `echs_tzob_offs` (uncached) reports the offset in force -/
theorem instant_offs (z : Zone) (wf : WF z) (i : Inst)
    (h : NormalSec i) (hy1 : 1902 ≤ i.y) (hy2 : i.y ≤ 2037) :
    tzobOffs z i = some (off z (ep i)) := by
  obtain ⟨e, l, u⟩ := ep_spec i h hy1 hy2
  exact tzobOffs_gen z wf i h.2.1 (by rw [I32_iff]; omega)

/-! ### examples on a small table: a gap (1000: 0 → +1h), a fold (20000: +1h → 0), and two
transitions closer together than the offsets (40000: 0 → +1h, 40500: +1h → +2h) -/

def zEx : Zone := { trs := [1000, 20000, 40000, 40500], tys := [1, 0, 1, 2], offs := [0, 3600, 7200] }

example : WF zEx := by decide
example : findTrno zEx 40500 0 4 = some 3 := by decide           -- the last transition itself
example : findTrno zEx 999 0 4 = some (-1) := by decide
example : findTrno zEx 1000 0 4 = some 0 := by decide
example : findTrno zEx 39999 0 4 = some 1 := by decide
example : findZrng zEx 30000 = some { prev := 20000, next := 40000, offs := 0, trno := 1 } := by decide
example : findZrng zEx intMax = some { prev := 40500, next := intMax, offs := 7200, trno := 3 } := by decide
example : findZrng zEx intMin = some { prev := intMin, next := 1000, offs := 0, trno := 0 } := by decide
example : (List.map (off zEx) [999, 1000, 19999, 20000, 40400, 40500]) = [0, 3600, 3600, 0, 3600, 7200] := by decide
example : (offsSeq zEx ZRng.fresh [999, 1000, 5, 19999, 20000, 1500]).map (·.1) = some [0, 3600, 0, 3600, 0, 3600] := by decide
-- ordinary instants: the round trip works
example : localTime zEx ZRng.fresh 10000 = some (13600, { prev := 1000, next := 20000, offs := 3600, trno := 0 }) := by decide
example : (utcTime zEx ZRng.fresh 13600).map (·.1) = some 10000 := by decide
-- fold: UTC 19000 and UTC 22600 both show wall clock 22600; the first one is returned (the first guess alone
-- would say 22600: its offset is not the one in force at 19000)
example : (localTime zEx ZRng.fresh 19000).map (·.1) = some 22600 := by decide
example : (localTime zEx ZRng.fresh 22600).map (·.1) = some 22600 := by decide
example : (utcTime zEx ZRng.fresh 22600).map (·.1) = some 19000 := by decide
example : off zEx (22600 - off zEx 22600) ≠ off zEx 19000 := by decide
-- gap: wall clock 2000 does not exist (1000 jumps to 4600); it is read with the offset before the gap
example : (utcTime zEx ZRng.fresh 2000).map (·.1) = some 2000 := by decide
-- an unambiguous wall clock for which the first guess is not enough: UTC 40400 shows 44000, the first guess
-- (offset at 44000 = +2h) lands before the 40000 transition; the neighbouring stretch gives the answer
example : (localTime zEx ZRng.fresh 40400).map (·.1) = some 44000 := by decide
example : (utcTime zEx ZRng.fresh 44000).map (·.1) = some 40400 := by decide
example : off zEx (44000 - off zEx 44000) ≠ off zEx 40400 := by decide
example : Near zEx 44000 40400 := by decide
/-- 40400 is the only UTC time showing 44000 -/
theorem example_unambiguous : ∀ u', u' + off zEx u' = 44000 → u' = 40400 := by
  intro u' h
  simp only [off, offAt, trIdx, zEx, List.countP_cons, List.countP_nil] at h
  simp only [decide_eq_true_eq] at h
  split at h <;> (try split at h) <;> (try split at h) <;> (try split at h) <;> (try split at h) <;>
    simp at h <;> omega

-- instants: Europe/Berlin 2020 (CET +1h, CEST +2h from 2020-03-29T01:00Z to 2020-10-25T01:00Z)
def zBer : Zone := { trs := [1585443600, 1603587600], tys := [1, 0], offs := [3600, 7200] }
example : WF zBer := by decide
example : (instantLoc zBer ZRng.fresh ⟨2020,7,1,12,0,0,1023⟩).map (·.1) = some ⟨2020,7,1,14,0,0,1023⟩ := by decide
example : (instantUtc zBer ZRng.fresh ⟨2020,7,1,14,0,0,1023⟩).map (·.1) = some ⟨2020,7,1,12,0,0,1023⟩ := by decide
example : (instantLoc zBer ZRng.fresh ⟨2020,12,31,23,30,0,1023⟩).map (·.1) = some ⟨2021,1,1,0,30,0,1023⟩ := by decide
example : (instantLoc zBer ZRng.fresh ⟨2020,7,1,255,0,0,0⟩).map (·.1) = some ⟨2020,7,1,255,0,0,0⟩ := by decide
example : tzobOffs zBer ⟨2020,3,29,1,0,0,1023⟩ = some 7200 := by decide
example : tzobOffs zBer ⟨2020,3,29,0,59,59,1023⟩ = some 3600 := by decide
-- the year 2080 is behind the table: the offset of its last stretch, not that of 1944 (−811031956, where the wrap led)
example : (offsC zBer ZRng.fresh 3483935340).map (·.1) = some 3600 := by decide
example : offsC zBer ZRng.fresh 3483935340 = offsC zBer ZRng.fresh 2147483647 := by decide
example : wrap32 3483935340 = -811031956 := by decide

/-! ### witnesses: skipped and repeated local times east and west of Greenwich -/

example : Spaced zBer := by decide
example : ¬ Spaced zEx := by decide
-- Berlin 2020-03-29: the local times 02:00..03:00 (1585447200..1585450800) were skipped; 02:30 is read with the
-- offset from before the gap (+1h): 01:30Z
example : utcVal zBer 1585449000 = 1585449000 - 3600 := by decide
example : (utcTime zBer ZRng.fresh 1585449000).map (·.1) = some (1585449000 - 3600) := by decide
-- Berlin 2020-10-25: the local times 02:00..03:00 (1603591200..1603594800) occurred twice; 02:30 is its first
-- occurrence, 00:30Z (summer time, +2h), not 01:30Z
example : utcVal zBer 1603593000 = 1603593000 - 7200 := by decide
example : (localTime zBer ZRng.fresh 1603585800).map (·.1) = some 1603593000 := by decide
example : (localTime zBer ZRng.fresh 1603589400).map (·.1) = some 1603593000 := by decide
example : (utcTime zBer ZRng.fresh 1603593000).map (·.1) = some 1603585800 := by decide
/-- … whatever the cache holds: for every admissible cache -/
theorem berlin_gap (c : ZRng) (hc : CacheRng zBer c) :
    (utcTime zBer c 1585449000).map (·.1) = some 1585445400 := by
  rw [(utc_time_value zBer (by decide) c hc _ (by decide) (by decide)).1]; decide
theorem berlin_overlap (c : ZRng) (hc : CacheRng zBer c) :
    (utcTime zBer c 1603593000).map (·.1) = some 1603585800 := by
  rw [(utc_time_value zBer (by decide) c hc _ (by decide) (by decide)).1]; decide
-- … and concretely with the cache on the winter, the summer and the next winter stretch
example : (utcTime zBer (rngAt zBer (-1)) 1603593000).map (·.1) = some 1603585800 := by decide
example : (utcTime zBer (rngAt zBer 0) 1603593000).map (·.1) = some 1603585800 := by decide
example : (utcTime zBer (rngAt zBer 1) 1603593000).map (·.1) = some 1603585800 := by decide
example : (utcTime zBer (rngAt zBer (-1)) 1585449000).map (·.1) = some 1585445400 := by decide
example : (utcTime zBer (rngAt zBer 0) 1585449000).map (·.1) = some 1585445400 := by decide
example : (utcTime zBer (rngAt zBer 1) 1585449000).map (·.1) = some 1585445400 := by decide

-- America/New_York 2020 (EST −5h, EDT −4h from 2020-03-08T07:00Z to 2020-11-01T06:00Z)
def zNY : Zone := { trs := [1583650800, 1604210400], tys := [1, 0], offs := [-18000, -14400] }
example : WF zNY := by decide
example : Spaced zNY := by decide
-- 2020-03-08 02:30 local (1583634600) was skipped: the offset from before the gap (−5h): 07:30Z
example : (utcTime zNY ZRng.fresh 1583634600).map (·.1) = some (1583634600 + 18000) := by decide
-- 2020-11-01 01:30 local (1604194200) occurred twice: the first occurrence, 05:30Z (EDT, −4h), not 06:30Z
example : (localTime zNY ZRng.fresh 1604208600).map (·.1) = some 1604194200 := by decide
example : (localTime zNY ZRng.fresh 1604212200).map (·.1) = some 1604194200 := by decide
example : (utcTime zNY ZRng.fresh 1604194200).map (·.1) = some (1604194200 + 14400) := by decide
theorem newYork_gap (c : ZRng) (hc : CacheRng zNY c) :
    (utcTime zNY c 1583634600).map (·.1) = some 1583652600 := by
  rw [(utc_time_value zNY (by decide) c hc _ (by decide) (by decide)).1]; decide
theorem newYork_overlap (c : ZRng) (hc : CacheRng zNY c) :
    (utcTime zNY c 1604194200).map (·.1) = some 1604208600 := by
  rw [(utc_time_value zNY (by decide) c hc _ (by decide) (by decide)).1]; decide
-- the general theorems apply: the gap of transition 0, the first of two preimages
example : ∀ u, u + off zNY u ≠ 1583634600 :=
  (utc_of_local_gap zNY (by decide) (by decide) ZRng.fresh (cacheRng_fresh _) 1583634600 (by decide) 0
    (by decide) (by decide) (by decide)).1


-- instants before 1970 (negative epoch times): one transition at -1000000000 = 1938-04-24T22:13:20Z, 0 → +1h
def zOld : Zone := { trs := [-1000000000], tys := [1], offs := [0, 3600] }
example : WF zOld := by decide
example : ep ⟨1938,4,24,22,13,20,1023⟩ = -1000000000 := by decide
example : tzobOffs zOld ⟨1938,4,24,22,13,19,1023⟩ = some 0 := by decide
example : tzobOffs zOld ⟨1938,4,24,22,13,20,1023⟩ = some 3600 := by decide
example : (instantLoc zOld ZRng.fresh ⟨1969,12,31,23,30,0,1023⟩).map (·.1) = some ⟨1970,1,1,0,30,0,1023⟩ := by decide
example : (instantUtc zOld ZRng.fresh ⟨1970,1,1,0,30,0,1023⟩).map (·.1) = some ⟨1969,12,31,23,30,0,1023⟩ := by decide
example : (instantLoc zOld ZRng.fresh ⟨1902,1,1,0,0,0,1023⟩).map (·.1) = some ⟨1902,1,1,0,0,0,1023⟩ := by decide

end C07
