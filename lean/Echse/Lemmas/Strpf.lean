/-
  Helper lemmas for C18 (dt-strpf.c), part 1: character facts, the millisecond loop,
  explicit forms of the printed instants and the parse of each spelling, stated on the
  components `y m d H M S ms` of an instant.
-/
import Echse.Model.Strpf
import Echse.Spec.Cal
namespace Echse.Strpf
open Echse.Instant Echse.Spec.Cal

theorem chr_nil (n : Nat) : chr [] n = '\x00' := rfl
theorem chr_cons_zero (a : Char) (s : List Char) : chr (a :: s) 0 = a := rfl
theorem chr_cons_succ (a : Char) (s : List Char) (n : Nat) : chr (a :: s) (n+1) = chr s n := rfl

theorem x0_dc_aux : ∀ k, k < 10 → x0 (Char.ofNat (48 + k)) = k := by decide
theorem x0_digitChar (d : Nat) : x0 (digitChar d) = d % 10 :=
  x0_dc_aux _ (Nat.mod_lt _ (by omega))

theorem dc_ne_aux : ∀ k, k < 10 → ∀ c ∈ ['-', ':', 'T', ' ', '.', 'Z', '\x00'], Char.ofNat (48 + k) ≠ c := by decide
theorem digitChar_ne (d : Nat) (c : Char) (h : c ∈ ['-', ':', 'T', ' ', '.', 'Z', '\x00']) : digitChar d ≠ c :=
  dc_ne_aux _ (Nat.mod_lt _ (by omega)) c h
theorem dc_eq_aux : ∀ k, k < 10 → ∀ j, j < 10 → (Char.ofNat (48 + k) = Char.ofNat (48 + j) ↔ k = j) := by decide
theorem digitChar_eq_iff (d j : Nat) (hj : j < 10) : digitChar d = Char.ofNat (48 + j) ↔ d % 10 = j :=
  dc_eq_aux _ (Nat.mod_lt _ (by omega)) j hj

@[simp] theorem dc_minus (d) : (digitChar d = '-') = False := eq_false (digitChar_ne d _ (by decide))
@[simp] theorem dc_colon (d) : (digitChar d = ':') = False := eq_false (digitChar_ne d _ (by decide))
@[simp] theorem dc_T (d) : (digitChar d = 'T') = False := eq_false (digitChar_ne d _ (by decide))
@[simp] theorem dc_sp (d) : (digitChar d = ' ') = False := eq_false (digitChar_ne d _ (by decide))
@[simp] theorem dc_dot (d) : (digitChar d = '.') = False := eq_false (digitChar_ne d _ (by decide))
@[simp] theorem dc_Z (d) : (digitChar d = 'Z') = False := eq_false (digitChar_ne d _ (by decide))
@[simp] theorem dc_0 (d) : (digitChar d = '0') = (d % 10 = 0) := propext (digitChar_eq_iff d 0 (by omega))
@[simp] theorem dc_1 (d) : (digitChar d = '1') = (d % 10 = 1) := propext (digitChar_eq_iff d 1 (by omega))
@[simp] theorem dc_2 (d) : (digitChar d = '2') = (d % 10 = 2) := propext (digitChar_eq_iff d 2 (by omega))
@[simp] theorem dc_3 (d) : (digitChar d = '3') = (d % 10 = 3) := propext (digitChar_eq_iff d 3 (by omega))
@[simp] theorem dc_6 (d) : (digitChar d = '6') = (d % 10 = 6) := propext (digitChar_eq_iff d 6 (by omega))
@[simp] theorem x0_nul : x0 '\x00' = 48 := by decide
@[simp] theorem x0_Z : x0 'Z' = 106 := by decide

theorem mod10_lt (d : Nat) : (d % 10 < 10) = True := eq_true (Nat.mod_lt _ (by omega))
theorem msLoop_succ (s : List Char) (f sp tmp : Nat) :
    msLoop s (f+1) sp tmp =
      if x0 (chr s (sp+1)) < 10 ∧ tmp < 100000 then msLoop s f (sp+1) (tmp*10 + x0 (chr s (sp+1)))
      else (sp+1, tmp) := rfl

theorem msLoop3' (s : List Char) (f sp : Nat) :
    msLoop s (f+4) sp 100 =
      if x0 (chr s (sp+1)) < 10 then
        if x0 (chr s (sp+2)) < 10 then
          if x0 (chr s (sp+3)) < 10 then
            (sp + 4, 100000 + x0 (chr s (sp+1)) * 100 + x0 (chr s (sp+2)) * 10 + x0 (chr s (sp+3)))
          else (sp + 3, 10000 + x0 (chr s (sp+1)) * 10 + x0 (chr s (sp+2)))
        else (sp + 2, 1000 + x0 (chr s (sp+1)))
      else (sp + 1, 100) := by
  rw [msLoop_succ, msLoop_succ, msLoop_succ, msLoop_succ]
  simp only [Nat.add_assoc, Nat.reduceAdd]
  generalize x0 (chr s (sp+1)) = a
  generalize x0 (chr s (sp+2)) = b
  generalize x0 (chr s (sp+3)) = c
  by_cases h1 : a < 10 <;> by_cases h2 : b < 10 <;> by_cases h3 : c < 10 <;>
    simp (disch := omega) only [if_pos, if_neg, h1, h2, h3, true_and, false_and, if_true, if_false,
      show (100:Nat) < 100000 from by omega] <;>
    (congr 1; omega)
theorem msLoop3 (s : List Char) (sp : Nat) :
    msLoop s 8 sp 100 =
      if x0 (chr s (sp+1)) < 10 then
        if x0 (chr s (sp+2)) < 10 then
          if x0 (chr s (sp+3)) < 10 then
            (sp + 4, 100000 + x0 (chr s (sp+1)) * 100 + x0 (chr s (sp+2)) * 10 + x0 (chr s (sp+3)))
          else (sp + 3, 10000 + x0 (chr s (sp+1)) * 10 + x0 (chr s (sp+2)))
        else (sp + 2, 1000 + x0 (chr s (sp+1)))
      else (sp + 1, 100) := msLoop3' s 4 sp

theorem tpstr2 (v : Nat) : tpstr v 2 = [digitChar (v/10), digitChar v] := rfl
theorem tpstr3 (v : Nat) : tpstr v 3 = [digitChar (v/10/10), digitChar (v/10), digitChar v] := rfl
theorem tpstr4 (v : Nat) : tpstr v 4 = [digitChar (v/10/10/10), digitChar (v/10/10), digitChar (v/10), digitChar v] := rfl


theorem monthLen_le (y m : Nat) : monthLen y m ≤ 31 := by
  unfold monthLen; split <;> (try split) <;> omega

/-! ### spellings -/

/-- the date `YYYY-MM-DD` (`dsep`) or `YYYYMMDD` -/
def dayStr (dsep : Bool) (i : Inst) : List Char :=
  tpstr i.y 4 ++ (if dsep then ['-'] else []) ++ tpstr i.m 2 ++ (if dsep then ['-'] else []) ++ tpstr i.d 2

/-- second-resolution spellings: `YYYY-MM-DD` or `YYYYMMDD`, separator `sep`, `HH:MM:SS` or `HHMMSS`,
optional final `Z` -/
def spell (dsep tsep : Bool) (sep : Char) (z : Bool) (i : Inst) : List Char :=
  dayStr dsep i ++ [sep] ++ tpstr i.H 2 ++ (if tsep then [':'] else []) ++ tpstr i.M 2 ++
  (if tsep then [':'] else []) ++ tpstr i.S 2 ++ (if z then ['Z'] else [])

theorem spell_length (dsep tsep : Bool) (sep : Char) (z : Bool) (i : Inst) :
    (spell dsep tsep sep z i).length =
      15 + (if dsep then 2 else 0) + (if tsep then 2 else 0) + (if z then 1 else 0) := by
  cases dsep <;> cases tsep <;> cases z <;> simp [spell, dayStr, tpstr2, tpstr4]

theorem dtStrf_ms (i : Inst) (h1 : i.H ≠ allDay) (h2 : i.ms ≠ allSec) :
    dtStrf i = spell true true 'T' false i ++ '.' :: tpstr i.ms 3 := by
  simp [dtStrf, spell, dayStr, Inst.isAllDay, Inst.isAllSec, h1, h2]

theorem dtStrf_sec (i : Inst) (h1 : i.H ≠ allDay) (h2 : i.ms = allSec) :
    dtStrf i = spell true true 'T' false i := by
  simp [dtStrf, spell, dayStr, Inst.isAllDay, Inst.isAllSec, h1, h2]

theorem dtStrf_day (i : Inst) (h1 : i.H = allDay) : dtStrf i = dayStr true i := by
  simp [dtStrf, dayStr, Inst.isAllDay, h1]

theorem dtStrfIcal_sec (i : Inst) (h1 : i.H ≠ allDay) : dtStrfIcal i = spell false false 'T' true i := by
  simp [dtStrfIcal, spell, dayStr, Inst.isAllDay, h1]

theorem dtStrfIcal_day (i : Inst) (h1 : i.H = allDay) : dtStrfIcal i = dayStr false i := by
  simp [dtStrfIcal, dayStr, Inst.isAllDay, h1]

/-! ### parsing, on the components -/

/-- ISO form with milliseconds; `len = 0` and `len = 23` alike (`ep = 23`) -/
theorem iso_ms_parse (len : Nat) (hlen : len = 0 ∨ len = 23) (y m d H M S ms : Nat) (hy : y ≤ 9999)
    (hn : Normal ⟨y,m,d,H,M,S,ms⟩) :
    dtStrp (spell true true 'T' false ⟨y,m,d,H,M,S,ms⟩ ++ '.' :: tpstr ms 3) len
      = some (⟨y,m,d,H,M,S,ms⟩, 23) := by
  obtain ⟨⟨hm1, hm2, hd1, hd2⟩, hH, hM, hS, hms⟩ := hn
  simp only at hm1 hm2 hd1 hd2 hH hM hS hms
  have hd3 : d ≤ 31 := by have := monthLen_le y m; omega
  have hS6 : S / 10 < 6 := by omega
  have hS6' : ¬ S / 10 = 6 := by omega
  have hM6 : M / 10 < 6 := by omega
  have eS : S / 10 % 10 = S / 10 := by omega
  have eM : M / 10 % 10 = M / 10 := by omega
  have ed : d / 10 % 10 = d / 10 := by omega
  have ey : y / 10 / 10 / 10 % 10 = y / 10 / 10 / 10 := by omega
  have ems : ms / 10 / 10 % 10 = ms / 10 / 10 := by omega
  have hy10 : y / 10 / 10 / 10 < 10 := by omega
  have hms10 : ms / 10 / 10 < 10 := by omega
  have hH4 : H / 10 = 2 → H % 10 < 4 := by omega
  have hm' : m / 10 = 0 ∨ m / 10 = 1 := by omega
  have hH' : H / 10 = 0 ∨ H / 10 = 1 ∨ H / 10 = 2 := by omega
  rcases hlen with rfl | rfl <;>
  rcases hm' with hm' | hm' <;> rcases hH' with hH' | hH' | hH' <;>
  · simp [spell, dayStr, tpstr2, tpstr3, tpstr4, dtStrp, dtStrpTime, msLoop3, fin, chr_cons_zero, chr_cons_succ,
      chr_nil, x0_digitChar, hm', hH', mod10_lt, hS6, hS6', hM6, eS, eM, ed, ey, ems, hy10, hms10, hH4]
    and_intros <;> omega

/-- all-day forms -/
theorem day_parse (dsep : Bool) (len : Nat) (hlen : len = 0 ∨ len = if dsep then 10 else 8)
    (y m d : Nat) (hy : y ≤ 9999) (hn : ValidDate ⟨y,m,d,allDay,0,0,0⟩) :
    dtStrp (dayStr dsep ⟨y,m,d,allDay,0,0,0⟩) len
      = some (⟨y,m,d,allDay,0,0,0⟩, if dsep then 10 else 8) := by
  obtain ⟨hm1, hm2, hd1, hd2⟩ := hn
  simp only at hm1 hm2 hd1 hd2
  have hd3 : d ≤ 31 := by have := monthLen_le y m; omega
  have ed : d / 10 % 10 = d / 10 := by omega
  have ey : y / 10 / 10 / 10 % 10 = y / 10 / 10 / 10 := by omega
  have hy10 : y / 10 / 10 / 10 < 10 := by omega
  have hm' : m / 10 = 0 ∨ m / 10 = 1 := by omega
  cases dsep <;> rcases hlen with rfl | rfl <;> rcases hm' with hm' | hm' <;>
  · simp [dayStr, tpstr2, tpstr4, dtStrp, fin, chr_cons_zero, chr_cons_succ,
      chr_nil, x0_digitChar, hm', mod10_lt, ed, ey, hy10]
    and_intros <;> omega

end Echse.Strpf
