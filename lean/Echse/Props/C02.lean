/-
  C02 — the exception filter (`next_evfilt`, `make_evfilt`) removes exactly the occurrences
  whose start equals the start of an exception; durations are never looked at.

  Setting as in C03: the event source `eops` refines lists `eabs s`, the exception source `xops`
  lists `xabs s` (`Refines`), both of non-nul events in non-decreasing start order whose starts
  are 64-bit words (`SrcOK`).  `filtOps eops xops fuel` is the filter as a stream, `fuel` bounds
  the `check:` loop; the loop's measure `mu` counts the events and exceptions still to fetch,
  every iteration pops one of them, so any `fuel ≥ #events + #exceptions + 1` is enough
  (`FiltI`).  Statements only; the proofs are in Echse/Lemmas/Stream*.lean.
-/
import Echse.Lemmas.Stream6
import Echse.Lemmas.Evrdat
namespace C02
open Echse.Stream

section
variable {σ τ : Type} {eops : Ops σ} {xops : Ops τ} {eabs : σ → List Event} {xabs : τ → List Event}
  {EI : σ → Prop} {XI : τ → Prop}

/-! ### 1. filter_spec -/

/-- the filter refines the list of the remaining events that start at no start of a remaining
exception (`filtAbs`), for every state satisfying the invariant `FiltI` and for all durations -/
theorem filter_spec (RE : Refines eops eabs EI) (RX : Refines xops xabs XI)
    (hE : ∀ s, EI s → SrcOK (eabs s)) (hX : ∀ s, XI s → SrcOK (xabs s)) (fuel : Nat) :
    Refines (filtOps eops xops fuel) (filtAbs eabs xabs) (FiltI eabs xabs EI XI fuel) :=
  filt_refines RE RX hE hX fuel

/-- `make_evfilt e x` satisfies the invariant if the fuel is at least
`#events + #exceptions + 1`, and stands for `es.filter (fun e => !(xs.any (·.from_ == e.from_)))` -/
theorem filter_make (RX : Refines xops xabs XI) (hX : ∀ s, XI s → SrcOK (xabs s))
    {e : σ} {x : τ} (he : EI e) (hx : XI x) {fuel : Nat}
    (hfuel : (eabs e).length + (xabs x).length + 1 ≤ fuel) :
    FiltI eabs xabs EI XI fuel (Filt.make xops e x) ∧
    filtAbs eabs xabs (Filt.make xops e x)
      = (eabs e).filter (fun ev => !((xabs x).any (fun ex => ex.from_ == ev.from_))) :=
  filt_make RX hX he hx hfuel

/-- the loop's measure: the state invariant bounds it by the fuel, and the loop lemma
`filtLoop_spec` (each iteration pops an event or an exception) runs under `mu ≤ fuel` -/
theorem measure_le_fuel {fuel : Nat} {f : Filt σ τ} (h : FiltI eabs xabs EI XI fuel f) :
    mu eabs xabs f ≤ fuel := Nat.le_trans (mu_le f) h.2

/-- hence: the pops of any script deliver that filtered list in order, then nul -/
theorem delivered (RE : Refines eops eabs EI) (RX : Refines xops xabs XI)
    (hE : ∀ s, EI s → SrcOK (eabs s)) (hX : ∀ s, XI s → SrcOK (xabs s))
    {e : σ} {x : τ} (he : EI e) (hx : XI x) {fuel : Nat}
    (hfuel : (eabs e).length + (xabs x).length + 1 ≤ fuel) (sc : List Bool) :
    popped (filtOps eops xops fuel) (Filt.make xops e x) sc =
      deliver ((eabs e).filter (fun ev => !((xabs x).any (fun ex => ex.from_ == ev.from_)))) (pops sc) := by
  obtain ⟨hI, habs⟩ := filter_make (eabs := eabs) (EI := EI) RX hX he hx hfuel
  rw [(filter_spec RE RX hE hX fuel).popped_eq sc _ hI, habs]

/-! ### 2. the property in words -/

/-- an event whose start equals an exception start is never returned, by no call of any script -/
theorem excluded_never_delivered (RE : Refines eops eabs EI) (RX : Refines xops xabs XI)
    (hE : ∀ s, EI s → SrcOK (eabs s)) (hX : ∀ s, XI s → SrcOK (xabs s))
    {e : σ} {x : τ} (he : EI e) (hx : XI x) {fuel : Nat}
    (hfuel : (eabs e).length + (xabs x).length + 1 ≤ fuel) (sc : List Bool) :
    ∀ ev ∈ answers (filtOps eops xops fuel) (Filt.make xops e x) sc, ev.isNul = false →
      ev ∈ eabs e ∧ ∀ ex ∈ xabs x, ex.from_ ≠ ev.from_ := by
  intro ev hev hn
  obtain ⟨hI, habs⟩ := filter_make (eabs := eabs) (EI := EI) RX hX he hx hfuel
  have := (filter_spec RE RX hE hX fuel).answers_mem sc _ hI ev hev hn
  rw [habs, List.mem_filter] at this
  refine ⟨this.1, ?_⟩
  have hp := this.2
  simp only [Bool.not_eq_true', List.any_eq_false, beq_iff_eq] at hp
  exact hp

/-- an event whose start equals no exception start is returned by every script with enough pops -/
theorem unnamed_never_dropped (RE : Refines eops eabs EI) (RX : Refines xops xabs XI)
    (hE : ∀ s, EI s → SrcOK (eabs s)) (hX : ∀ s, XI s → SrcOK (xabs s))
    {e : σ} {x : τ} (he : EI e) (hx : XI x) {fuel : Nat}
    (hfuel : (eabs e).length + (xabs x).length + 1 ≤ fuel) (sc : List Bool)
    (hsc : (eabs e).length ≤ pops sc) :
    ∀ ev ∈ eabs e, (∀ ex ∈ xabs x, ex.from_ ≠ ev.from_) →
      ev ∈ popped (filtOps eops xops fuel) (Filt.make xops e x) sc := by
  intro ev hev hnot
  rw [delivered RE RX hE hX he hx hfuel]
  apply mem_deliver_of_le
  · have := List.length_filter_le (fun ev => !((xabs x).any (fun ex => ex.from_ == ev.from_))) (eabs e)
    omega
  · rw [List.mem_filter]
    refine ⟨hev, ?_⟩
    simp only [Bool.not_eq_true', List.any_eq_false, beq_iff_eq]
    exact hnot

/-- the algebra with C03: a filter whose events are a mux of sources `es` (rule-like,
rdate-like, …) and whose exceptions are a mux of sources `xs` (exrule-like, exdate-like, …)
delivers exactly `(⋃ es) \ {e | e.from_ ∈ starts (⋃ xs)}`, identical occurrences collapsed:
what is popped lies in that set, and every event of that set — or one identical to it — is
popped by a script with enough pops.  (Sources free of twins; no further guard.) -/
theorem mux_filter_algebra (RE : Refines eops eabs EI) (RX : Refines xops xabs XI)
    (hE : ∀ s, EI s → SrcOK (eabs s) ∧ NoTwin (eabs s)) (hX : ∀ s, XI s → SrcOK (xabs s) ∧ NoTwin (xabs s))
    (es : List σ) (xs : List τ) (hes : ∀ s ∈ es, EI s) (hxs : ∀ s ∈ xs, XI s)
    (fuel : Nat) (hfuel : total (es.map eabs) + total (xs.map xabs) + 1 ≤ fuel) (sc : List Bool) :
    (∀ ev ∈ popped (filtOps (muxOps eops) (muxOps xops) fuel)
          (Filt.make (muxOps xops) (Mux.make es) (Mux.make xs)) sc, ev.isNul = false →
        (∃ s ∈ es, ev ∈ eabs s) ∧ ∀ t ∈ xs, ∀ ex ∈ xabs t, ex.from_ ≠ ev.from_) ∧
    (total (es.map eabs) ≤ pops sc → ∀ s ∈ es, ∀ ev ∈ eabs s,
        (∀ t ∈ xs, ∀ ex ∈ xabs t, ex.from_ ≠ ev.from_) →
        ∃ ev' ∈ popped (filtOps (muxOps eops) (muxOps xops) fuel)
          (Filt.make (muxOps xops) (Mux.make es) (Mux.make xs)) sc, evEq ev' ev = true) :=
  filt_mux_algebra RE RX hE hX es xs hes hxs fuel hfuel sc

end

/-- the array stream over nul-free sorted lists of 64-bit starts is a source for the filter -/
theorem lists_are_sources : Refines listOps id SrcOK ∧ ∀ l, SrcOK l → SrcOK (id l) :=
  ⟨listOps_refines _ (fun _ h => h.tail), fun _ h => h⟩

/-! ### 3. examples -/

/-- packed 2020-01-01T09:00:00.000, 09:30, and the next two days 09:00 -/
def t0 : Nat := 0x07e4010109000000
def t0h : Nat := 0x07e40101091e0000
def t1 : Nat := 0x07e4010209000000
def t2 : Nat := 0x07e4010309000000

/-- a zero-duration occurrence named by an exception is removed: nothing is delivered
(finding D12 before the repair of `next_evfilt`: it was delivered) -/
theorem zero_duration :
    popped (filtOps listOps listOps 3) (Filt.make listOps [⟨t0, 0, 1⟩] [⟨t0, 0, 1⟩]) [true, true]
      = [Event.nul, Event.nul] := by decide

/-- the witness script of D12: three daily zero-duration occurrences, the second one excepted -/
theorem zero_duration_excluded :
    answers (filtOps listOps listOps 5)
        (Filt.make listOps [⟨t0, 0, 1⟩, ⟨t1, 0, 1⟩, ⟨t2, 0, 1⟩] [⟨t1, 0, 1⟩]) [true, true, true, true]
      = [⟨t0, 0, 1⟩, ⟨t2, 0, 1⟩, Event.nul, Event.nul] := by decide

/-- an exception start strictly inside an occurrence's duration (09:30 within 09:00 + 1h) does
not remove the occurrence (the other half of D12: it was removed) -/
theorem inside_duration_delivered :
    popped (filtOps listOps listOps 3) (Filt.make listOps [⟨t0, 3600000, 1⟩] [⟨t0h, 0, 1⟩]) [true, true]
      = [⟨t0, 3600000, 1⟩, Event.nul] := by decide

-- the hypotheses of the general theorems hold for these lists
example : SrcOK [⟨t0, 0, 1⟩, ⟨t1, 0, 1⟩, ⟨t2, 0, 1⟩] ∧ SrcOK [⟨t1, 0, 1⟩] := by
  unfold SrcOK NonNul Sorted Words; decide

/-! ### the RDATE / EXDATE lists as one stream (__make_evrdat) -/

section evrdat
open Echse.Instant Echse.Evrdat

/-- `instant_soup`: a DATE keeps its day and takes the time of day of DTSTART … -/
theorem soup_date (b w : Inst) (h : w.H = allDay) :
    (soup b w).y = w.y ∧ (soup b w).m = w.m ∧ (soup b w).d = w.d ∧
    (soup b w).H = b.H ∧ (soup b w).M = b.M ∧ (soup b w).S = b.S ∧ (soup b w).ms = b.ms :=
  Echse.Evrdat.soup_date b w h

/-- … a DATE-TIME is left as it is -/
theorem soup_timed (b w : Inst) (h : w.H ≠ allDay) : soup b w = w := Echse.Evrdat.soup_timed b w h

/-- nothing is lost, nothing invented: the stream holds exactly the (souped) instants listed -/
theorem rdate_members (dtstart : Inst) (ds : List Inst) (h : ds.length < 1024) :
    ∀ x, x ∈ makeEvrdat dtstart ds ↔ x ∈ ds.map (soup dtstart) :=
  makeEvrdat_mem dtstart ds h

/-- strictly increasing — sorted, and an instant listed several times occurs once — exactly when
the compared word `pk x = (bump x).pack` tells the listed instants apart (`KeyInj`) -/
theorem rdate_ascending_iff (dtstart : Inst) (ds : List Inst) (h : ds.length < 1024) :
    (makeEvrdat dtstart ds).Pairwise (fun a b => ltP a b = true) ↔
      ∀ x ∈ ds.map (soup dtstart), ∀ y ∈ ds.map (soup dtstart), (bump x).pack = (bump y).pack → x = y :=
  ⟨keyInj_of_ascending dtstart ds h, makeEvrdat_ascending dtstart ds h⟩

/-- which is so when every field fits its bit-field (`C08.Fits`; e.g. `C08.fits_of_normal*`) -/
theorem rdate_ascending (dtstart : Inst) (ds : List Inst) (h : ds.length < 1024)
    (hf : ∀ x ∈ ds.map (soup dtstart), C08.Fits x) :
    (makeEvrdat dtstart ds).Pairwise (fun a b => ltP a b = true) :=
  makeEvrdat_ascending dtstart ds h (keyInj_of_fits _ hf)

theorem rdate_nodup (dtstart : Inst) (ds : List Inst) (h : ds.length < 1024)
    (hf : ∀ x ∈ ds.map (soup dtstart), C08.Fits x) : (makeEvrdat dtstart ds).Nodup :=
  nodup_of_ascending _ (rdate_ascending dtstart ds h hf)

-- DTSTART 2020-01-01T09:00:00.000; RDATE 2020-03-01 (a DATE), 2020-01-05T10:00:00, 2020-03-01T09:00:00:
-- the DATE becomes 09:00 and falls on the third; two instants come out, in order
example : makeEvrdat ⟨2020, 1, 1, 9, 0, 0, 0⟩
    [⟨2020, 3, 1, allDay, 0, 0, 0⟩, ⟨2020, 1, 5, 10, 0, 0, 0⟩, ⟨2020, 3, 1, 9, 0, 0, 0⟩]
  = [⟨2020, 1, 5, 10, 0, 0, 0⟩, ⟨2020, 3, 1, 9, 0, 0, 0⟩] := by decide

end evrdat

end C02
