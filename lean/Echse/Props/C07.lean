/-
  C07 — time-zone table look-ups (`tzraw.c`, `tzob.c`), for EVERY well-formed zone table.

  Vocabulary (Echse/Lemmas/Tz.lean):
    `I32 t`        `t` fits the `int32_t` parameter;
    `WF z`         transition times strictly increasing and within int32, one type index per
                   transition, every index below the number of types, fewer than 256
                   transitions, every offset within ±86400 s, not the UTC zone;
    `tr z i`       the `i`-th transition time;
    `trIdx z t`    (number of transitions `≤ t`) − 1: the last transition at or before `t`,
                   `-1` when there is none;
    `off z t`      the UTC offset in force at `t`: the offset of the type of transition
                   `trIdx z t`, of type 0 before the first transition — the uncached spec;
    `CacheOK z c`  the cache is fresh or holds a range on which `off z` is constant;
    `NoTrBetween`, `Far`, `OffsLe`   windows free of transitions (item 4).

  1 search, 2 range, 3 cache, 4 local ↔ UTC, 5 instants.
  Statements only; helper lemmas live in Echse/Lemmas/Tz*.lean.
-/
import Echse.Lemmas.Tz
import Echse.Lemmas.Tz2
import Echse.Lemmas.Tz3
namespace C07
open Echse.Tz Echse.Instant Echse.Spec.Cal

/-! ### 1. the search -/

/-- The bisection loop ends when entered with an interval of width at most `2^k` and `k + 1`
rounds of fuel: every round returns or at least halves (rounding up) `max − min`, and an
interval of width 1 returns at once. -/
theorem bisect_terminates (z : Zone) (wf : WF z) (t : Int) (fuel k : Nat) (min max : Int)
    (h0 : 0 ≤ min) (hlt : min < max) (hmax : max ≤ z.ntr) (hw : max - min ≤ (2 ^ k : Nat)) (hk : k < fuel)
    (hlo : zifTrans z min ≤ t) (hhi : t < zifTrans z max) :
    ∃ r, bisect z t fuel min max = some r ∧ min ≤ r ∧ r < max ∧
      zifTrans z r ≤ t ∧ t < zifTrans z (r + 1) :=
  bisect_spec z wf t fuel k min max h0 hlt hmax hw hk hlo hhi

/-- `__find_trno(z, t, 0, ntrans)` terminates within the fuel (9 rounds suffice for fewer
than 256 transitions, the model allows 64) and returns the last transition at or before
`t`: `-1` iff there is none, otherwise the `k` with `trs[k] ≤ t < trs[k+1]` (no upper
bound for the last one).  `t` need not even fit int32. -/
theorem search (z : Zone) (wf : WF z) (t : Int) :
    ∃ k, findTrno z t 0 z.ntr = some k ∧ k = trIdx z t ∧
      (k = -1 ↔ (z.ntr = 0 ∨ t < tr z 0)) ∧
      (k ≠ -1 → 0 ≤ k ∧ k < z.ntr ∧ tr z k.toNat ≤ t ∧ (k + 1 < z.ntr → t < tr z (k + 1).toNat)) := by
  have hI := isIdx_trIdx z wf t
  refine ⟨_, findTrno_eq z wf t, rfl, ?_, ?_⟩
  · rcases hI with ⟨e, h⟩ | ⟨a, b, c, d⟩
    · exact ⟨fun _ => h, fun _ => e⟩
    · constructor
      · intro e; omega
      · intro h; exfalso
        have := tr_mono_le z wf 0 (trIdx z t).toNat (by omega) (by omega)
        omega
  · intro hne
    rcases hI with ⟨e, _⟩ | h
    · exact absurd e hne
    · exact h

/-- the characterisation determines `k` -/
theorem search_unique (z : Zone) (wf : WF z) (t k : Int)
    (h : (k = -1 ∧ (z.ntr = 0 ∨ t < tr z 0)) ∨
      (0 ≤ k ∧ k < z.ntr ∧ tr z k.toNat ≤ t ∧ (k + 1 < z.ntr → t < tr z (k + 1).toNat))) :
    findTrno z t 0 z.ntr = some k := by
  rw [findTrno_eq z wf t, isIdx_unique z wf t k h]

/-- at or after the last recorded transition — in particular AT it — the search returns the
last index (this case used to loop forever). -/
theorem search_last (z : Zone) (wf : WF z) (hn : z.ntr ≠ 0) (t : Int) (ht : tr z (z.ntr - 1) ≤ t) :
    findTrno z t 0 z.ntr = some ((z.ntr : Int) - 1) := by
  apply search_unique z wf
  refine Or.inr ⟨by omega, by omega, ?_, by omega⟩
  have : ((z.ntr : Int) - 1).toNat = z.ntr - 1 := by omega
  rw [this]; exact ht

theorem search_last_eq (z : Zone) (wf : WF z) (hn : z.ntr ≠ 0) :
    findTrno z (tr z (z.ntr - 1)) 0 z.ntr = some ((z.ntr : Int) - 1) :=
  search_last z wf hn _ (Int.le_refl _)

/-! ### 2. the enclosing range -/

/-- `__find_zrng` for an int32 `t`: the range `[prev, next)` contains `t` — except that
`t = intMax` is reported with `next = intMax` (`intMax` stands for +∞ in the last range; the
cache test `t < next` therefore never hits for `t = intMax`, which is recomputed each time);
its offset is the offset in force at `t`; and the range is homogeneous: every `t'` in it
yields the very same range, hence the same offset. -/
theorem range (z : Zone) (wf : WF z) (t : Int) (ht : I32 t) :
    ∃ r, findZrng z t = some r ∧
      r.prev ≤ t ∧ (t < r.next ∨ (t = intMax ∧ r.next = intMax)) ∧
      intMin ≤ r.prev ∧ r.next ≤ intMax ∧
      r.offs = off z t ∧ (r.trno : Int) = max (trIdx z t) 0 ∧
      (∀ t', r.prev ≤ t' → t' < r.next → findZrng z t' = some r ∧ off z t' = r.offs) := by
  obtain ⟨b1, b2, b3, b4⟩ := rngAt_bounds z wf t ht
  refine ⟨_, findZrng_eq z wf t ht, b1, b2, b3, b4, rngAt_offs z _, ?_, ?_⟩
  · by_cases hk : trIdx z t < 0
    · rw [rngAt_neg z _ hk]; simp only []; omega
    · rw [rngAt_nonneg z _ (by omega)]; simp only []; omega
  · intro t' h1 h2
    have e := findZrng_homog z wf t t' h1 h2
    have ht' : I32 t' := by
      rw [I32_iff] at *; simp only [intMin, intMax] at b3 b4; omega
    refine ⟨by rw [findZrng_eq z wf t' ht', e], ?_⟩
    unfold off; rw [e, rngAt_offs]

/-- the offset of the range spelled out: the type of transition `k`, type 0 for `k = -1` -/
theorem off_eq (z : Zone) (t : Int) :
    off z t = if trIdx z t < 0 then z.offs.getD 0 0
              else z.offs.getD (z.tys.getD (trIdx z t).toNat 0) 0 := rfl

/-- … and `k` is the index the search returns -/
theorem range_offs (z : Zone) (wf : WF z) (t : Int) (ht : I32 t) :
    ∃ k r, findTrno z t 0 z.ntr = some k ∧ findZrng z t = some r ∧
      r.offs = (if k = -1 then z.offs.getD 0 0 else zifTroffs z k) := by
  refine ⟨_, _, findTrno_eq z wf t, findZrng_eq z wf t ht, ?_⟩
  rw [rngAt_offs]
  obtain ⟨l, u⟩ := trIdx_range z t
  unfold offAt
  by_cases hk : trIdx z t = -1
  · rw [if_pos hk, if_pos (by omega)]
  · rw [if_neg hk, if_neg (by omega)]
    unfold zifTroffs
    rw [zifType_lt z _ (by omega) u]

/-- at `t = intMax` the reported range always ends at `intMax` -/
theorem range_intMax (z : Zone) (wf : WF z) :
    ∃ r, findZrng z intMax = some r ∧ r.next = intMax ∧ r.offs = off z intMax := by
  obtain ⟨r, e, _, h, _, _, o, _⟩ := range z wf intMax (by decide)
  refine ⟨r, e, ?_, o⟩
  rcases h with h | h
  · omega
  · exact h.2

/-! ### 3. the cache is transparent -/

theorem cacheOK_fresh (z : Zone) : CacheOK z ZRng.fresh := Or.inl rfl

/-- a look-up through any admissible cache returns the uncached offset and leaves an
admissible cache -/
theorem cache_transparent (z : Zone) (wf : WF z) (c : ZRng) (hc : CacheOK z c) (t : Int) (ht : I32 t) :
    ∃ c', offsC z c t = some (off z t, c') ∧ CacheOK z c' :=
  offsC_spec z wf c hc t ht

/-- `time_t` arguments outside int32 are truncated first -/
theorem cache_transparent_wrap (z : Zone) (wf : WF z) (c : ZRng) (hc : CacheOK z c) (t : Int) :
    ∃ c', offsC z c t = some (off z (wrap32 t), c') ∧ CacheOK z c' := by
  have hw : I32 (wrap32 t) := by rw [I32_iff]; unfold wrap32; omega
  obtain ⟨c', e, h⟩ := offsC_spec z wf c hc (wrap32 t) hw
  refine ⟨c', ?_, h⟩
  unfold offsC at e ⊢
  rw [wrap32_of_I32 _ hw] at e
  exact e

/-- any sequence of look-ups (`offsSeq` threads the cache through) returns the uncached offsets -/
theorem cache_sequence (z : Zone) (wf : WF z) (c : ZRng) (hc : CacheOK z c) (ts : List Int)
    (h : ∀ t ∈ ts, I32 t) :
    ∃ c', offsSeq z c ts = some (ts.map (off z), c') ∧ CacheOK z c' :=
  offsSeq_spec z wf ts c hc h

/-! ### 4. local ↔ UTC -/

/-- `zif_local_time` adds the offset in force -/
theorem local_time (z : Zone) (wf : WF z) (c : ZRng) (hc : CacheOK z c) (u : Int) (hu : I32 u) :
    ∃ c', localTime z c u = some (u + off z u, c') ∧ CacheOK z c' :=
  localTime_spec z wf c hc u hu

/-- what the two-step fixed point `zif_utc_time` computes for a wall-clock value `w`:
`x1 := off w` (the wall clock read as UTC), `x2 := off (w − x1)`, result `w − x2`
(the shortcut for `x1 = 0` gives the same value). -/
theorem utc_time_value (z : Zone) (wf : WF z) (c : ZRng) (hc : CacheOK z c) (w : Int) (hw : I32 w)
    (hw' : I32 (w - off z w)) :
    ∃ c', utcTime z c w = some (w - off z (w - off z w), c') ∧ CacheOK z c' :=
  utcTime_eq z wf c hc w hw hw'

/-- For the wall clock `w = u + off u` of a UTC time `u` the result is `u` EXACTLY WHEN the
second look-up finds the offset in force at `u` (the first-guess condition). -/
theorem utc_of_local_iff (z : Zone) (wf : WF z) (c : ZRng) (hc : CacheOK z c) (u : Int)
    (hw : I32 (u + off z u)) (hw' : I32 (u + off z u - off z (u + off z u))) :
    ∃ r c', utcTime z c (u + off z u) = some (r, c') ∧ CacheOK z c' ∧
      (r = u ↔ off z (u + off z u - off z (u + off z u)) = off z u) := by
  obtain ⟨c', e, h⟩ := utcTime_eq z wf c hc (u + off z u) hw hw'
  exact ⟨_, c', e, h, utcTime_hit_iff z u⟩

theorem utc_of_local (z : Zone) (wf : WF z) (c : ZRng) (hc : CacheOK z c) (u : Int)
    (hw : I32 (u + off z u)) (hw' : I32 (u + off z u - off z (u + off z u)))
    (hfg : off z (u + off z u - off z (u + off z u)) = off z u) :
    ∃ c', utcTime z c (u + off z u) = some (u, c') ∧ CacheOK z c' := by
  obtain ⟨c', e, h⟩ := utcTime_eq z wf c hc (u + off z u) hw hw'
  refine ⟨c', ?_, h⟩
  rw [e, (utcTime_hit_iff z u).2 hfg]

/-- the first-guess condition holds when no transition lies between `w − x1` and `u` … -/
theorem firstGuess_of_window (z : Zone) (u : Int)
    (h : NoTrBetween z (u + off z u - off z (u + off z u)) u) :
    off z (u + off z u - off z (u + off z u)) = off z u :=
  off_eq_of_noTr z _ _ h

/-- … in particular when `u` is at least `2·M` away from every transition, `M` bounding the
magnitude of the offsets (`M = 86400` always does for a `WF` table); the wall clock is then
unambiguous as well. -/
theorem firstGuess_of_far (z : Zone) (M u : Int) (hM : OffsLe z M) (hf : Far z M u) :
    off z (u + off z u - off z (u + off z u)) = off z u ∧
    (∀ u', u' + off z u' = u + off z u → u' = u) :=
  ⟨far_firstGuess z M u hM hf, far_unambiguous z M u hM hf⟩

theorem offsLe_wf (z : Zone) (wf : WF z) : OffsLe z 86400 := offsLe_of_wf z wf

/-- round trip `utcTime (localTime u) = u` under the first-guess condition, the cache
threaded through -/
theorem utc_local_roundtrip (z : Zone) (wf : WF z) (c : ZRng) (hc : CacheOK z c) (u : Int) (hu : I32 u)
    (hw : I32 (u + off z u)) (hw' : I32 (u + off z u - off z (u + off z u)))
    (hfg : off z (u + off z u - off z (u + off z u)) = off z u) :
    ∃ w c1 c2, localTime z c u = some (w, c1) ∧ utcTime z c1 w = some (u, c2) ∧ CacheOK z c2 := by
  obtain ⟨c1, e1, h1⟩ := localTime_spec z wf c hc u hu
  obtain ⟨c2, e2, h2⟩ := utc_of_local z wf c1 h1 u hw hw' hfg
  exact ⟨_, c1, c2, e1, e2, h2⟩

/-! ### 5. instants -/

/-- all-day instants pass unchanged -/
theorem instant_allDay (z : Zone) (c : ZRng) (i : Inst) (h : i.isAllDay = true) :
    instantLoc z c i = some (i, c) ∧ instantUtc z c i = some (i, c) ∧ tzobOffs z i = some 0 := by
  unfold instantLoc instantUtc tzobOffs; simp [h]

/-- `echs_instant_loc`: the instant `off z (epoch i)` seconds later; the epoch time `ep i` of the instant is
signed (negative before 1970, `C08.toEpoch_spec`), so the statement holds for every year whose epoch times fit
`int32_t`, the type of the transition table: 1902..2037 -/
theorem instant_loc (z : Zone) (wf : WF z) (c : ZRng) (hc : CacheOK z c) (i : Inst)
    (h : NormalSec i) (hy1 : 1902 ≤ i.y) (hy2 : i.y ≤ 2037) :
    ∃ j c', instantLoc z c i = some (j, c') ∧ CacheOK z c' ∧ NormalSec j ∧ InRange j ∧
      absSec j = absSec i + off z (ep i) := by
  obtain ⟨e, l, u⟩ := ep_spec i h hy1 hy2
  have b := off_bound z wf (ep i)
  have hd := days_1901
  have hd' := days_2100
  have he := epochDays_eq
  exact instantLoc_gen z wf c hc i h ⟨by omega, by omega⟩ (by rw [I32_iff]; omega)
    (by omega) (by omega)

/-- `echs_instant_utc`: the instant `off z (w − off z w)` seconds earlier, `w = epoch i` -/
theorem instant_utc (z : Zone) (wf : WF z) (c : ZRng) (hc : CacheOK z c) (i : Inst)
    (h : NormalSec i) (hy1 : 1902 ≤ i.y) (hy2 : i.y ≤ 2037) :
    ∃ j c', instantUtc z c i = some (j, c') ∧ CacheOK z c' ∧ NormalSec j ∧ InRange j ∧
      absSec j = absSec i - off z (ep i - off z (ep i)) := by
  obtain ⟨e, l, u⟩ := ep_spec i h hy1 hy2
  have b := off_bound z wf (ep i)
  have b' := off_bound z wf (ep i - off z (ep i))
  have hd := days_1901
  have hd' := days_2100
  have he := epochDays_eq
  exact instantUtc_gen z wf c hc i h ⟨by omega, by omega⟩ (by rw [I32_iff]; omega)
    (by rw [I32_iff]; omega) (by omega) (by omega)

/-- if `i` shows the wall clock of the UTC time `u` and the first-guess condition of item 4
holds, `echs_instant_utc` returns the instant of `u` (whether `u` is before 1970 or not) -/
theorem instant_utc_of_local (z : Zone) (wf : WF z) (c : ZRng) (hc : CacheOK z c) (i : Inst)
    (h : NormalSec i) (hy1 : 1902 ≤ i.y) (hy2 : i.y ≤ 2037) (u : Int) (hu : ep i = u + off z u)
    (hfg : off z (u + off z u - off z (u + off z u)) = off z u) :
    ∃ j c', instantUtc z c i = some (j, c') ∧ CacheOK z c' ∧ NormalSec j ∧ InRange j ∧
      absSec j = absSec i - off z u ∧ ep j = u := by
  obtain ⟨j, c', e, hc', n, r, a⟩ := instant_utc z wf c hc i h hy1 hy2
  rw [hu, hfg] at a
  refine ⟨j, c', e, hc', n, r, a, ?_⟩
  obtain ⟨e1, l, up⟩ := ep_spec i h hy1 hy2
  have b := off_bound z wf u
  exact ep_of_absSec j n u (by omega) (by omega) (by omega)

/-- round trip on instants: `echs_instant_utc (echs_instant_loc i) = i` under the first-guess
condition at `u = epoch i` (the local time may lie before 1970) -/
theorem instant_roundtrip (z : Zone) (wf : WF z) (c : ZRng) (hc : CacheOK z c) (i : Inst)
    (h : NormalSec i) (hy1 : 1902 ≤ i.y) (hy2 : i.y ≤ 2037)
    (hfg : off z (ep i + off z (ep i) - off z (ep i + off z (ep i))) = off z (ep i)) :
    ∃ j c1 c2, instantLoc z c i = some (j, c1) ∧ instantUtc z c1 j = some (i, c2) ∧ CacheOK z c2 := by
  obtain ⟨e, l, u⟩ := ep_spec i h hy1 hy2
  obtain ⟨j, c1, e1, h1, n, r, a⟩ := instant_loc z wf c hc i h hy1 hy2
  have b := off_bound z wf (ep i)
  have hj : ep j = ep i + off z (ep i) := ep_of_absSec j n _ (by omega) (by omega) (by omega)
  have b' := off_bound z wf (ep j)
  have b'' := off_bound z wf (ep j - off z (ep j))
  have hd := days_1901
  have hd' := days_2100
  have he := epochDays_eq
  obtain ⟨j', c2, e2, h2, n', r', a'⟩ := instantUtc_gen z wf c1 h1 j n r (by rw [I32_iff]; omega)
    (by rw [I32_iff]; omega) (by omega) (by omega)
  have : j' = i := by
    apply absSec_inj _ _ n' h
    rw [a', hj, hfg]; omega
  rw [this] at e2
  exact ⟨j, c1, c2, e1, e2, h2⟩

/-- `echs_tzob_offs` (uncached) reports the offset in force -/
theorem instant_offs (z : Zone) (wf : WF z) (i : Inst)
    (h : NormalSec i) (hy1 : 1902 ≤ i.y) (hy2 : i.y ≤ 2037) :
    tzobOffs z i = some (off z (ep i)) := by
  obtain ⟨e, l, u⟩ := ep_spec i h hy1 hy2
  exact tzobOffs_gen z wf i h.2.1 (by rw [I32_iff]; omega)

/-! ### examples on a small table: a gap (1000: 0 → +1h), a fold (20000: +1h → 0), and two
transitions closer together than the offsets (40000: 0 → +1h, 40500: +1h → +2h) -/

def zEx : Zone := { trs := [1000, 20000, 40000, 40500], tys := [1, 0, 1, 2], offs := [0, 3600, 7200] }

example : WF zEx := by decide
example : findTrno zEx 40500 0 4 = some 3 := by decide           -- the last transition itself
example : findTrno zEx 999 0 4 = some (-1) := by decide
example : findTrno zEx 1000 0 4 = some 0 := by decide
example : findTrno zEx 39999 0 4 = some 1 := by decide
example : findZrng zEx 30000 = some { prev := 20000, next := 40000, offs := 0, trno := 1 } := by decide
example : findZrng zEx intMax = some { prev := 40500, next := intMax, offs := 7200, trno := 3 } := by decide
example : findZrng zEx intMin = some { prev := intMin, next := 1000, offs := 0, trno := 0 } := by decide
example : (List.map (off zEx) [999, 1000, 19999, 20000, 40400, 40500]) = [0, 3600, 3600, 0, 3600, 7200] := by decide
example : (offsSeq zEx ZRng.fresh [999, 1000, 5, 19999, 20000, 1500]).map (·.1) = some [0, 3600, 0, 3600, 0, 3600] := by decide
-- ordinary instants: the round trip works
example : localTime zEx ZRng.fresh 10000 = some (13600, { prev := 1000, next := 20000, offs := 3600, trno := 0 }) := by decide
example : (utcTime zEx ZRng.fresh 13600).map (·.1) = some 10000 := by decide
-- fold: UTC 19000 and UTC 22600 both show wall clock 22600; the later one is returned
example : (localTime zEx ZRng.fresh 19000).map (·.1) = some 22600 := by decide
example : (utcTime zEx ZRng.fresh 22600).map (·.1) = some 22600 := by decide
example : off zEx (22600 - off zEx 22600) ≠ off zEx 19000 := by decide     -- the condition fails at u = 19000
-- gap: wall clock 2000 does not exist (1000 jumps to 4600); it is read with the offset before the gap
example : (utcTime zEx ZRng.fresh 2000).map (·.1) = some 2000 := by decide
-- an unambiguous wall clock for which two steps are not enough: UTC 40400 shows 44000,
-- the first guess (offset at 44000 = +2h) lands before the 40000 transition
example : (localTime zEx ZRng.fresh 40400).map (·.1) = some 44000 := by decide
example : (utcTime zEx ZRng.fresh 44000).map (·.1) = some 44000 := by decide
example : off zEx (44000 - off zEx 44000) ≠ off zEx 40400 := by decide
/-- … although 40400 is the only UTC time showing 44000: unambiguity alone does not suffice -/
theorem example_unambiguous : ∀ u', u' + off zEx u' = 44000 → u' = 40400 := by
  intro u' h
  simp only [off, offAt, trIdx, zEx, List.countP_cons, List.countP_nil] at h
  simp only [decide_eq_true_eq] at h
  split at h <;> (try split at h) <;> (try split at h) <;> (try split at h) <;> (try split at h) <;>
    simp at h <;> omega

-- instants: Europe/Berlin 2020 (CET +1h, CEST +2h from 2020-03-29T01:00Z to 2020-10-25T01:00Z)
def zBer : Zone := { trs := [1585443600, 1603587600], tys := [1, 0], offs := [3600, 7200] }
example : WF zBer := by decide
example : (instantLoc zBer ZRng.fresh ⟨2020,7,1,12,0,0,1023⟩).map (·.1) = some ⟨2020,7,1,14,0,0,1023⟩ := by decide
example : (instantUtc zBer ZRng.fresh ⟨2020,7,1,14,0,0,1023⟩).map (·.1) = some ⟨2020,7,1,12,0,0,1023⟩ := by decide
example : (instantLoc zBer ZRng.fresh ⟨2020,12,31,23,30,0,1023⟩).map (·.1) = some ⟨2021,1,1,0,30,0,1023⟩ := by decide
example : (instantLoc zBer ZRng.fresh ⟨2020,7,1,255,0,0,0⟩).map (·.1) = some ⟨2020,7,1,255,0,0,0⟩ := by decide
example : tzobOffs zBer ⟨2020,3,29,1,0,0,1023⟩ = some 7200 := by decide
example : tzobOffs zBer ⟨2020,3,29,0,59,59,1023⟩ = some 3600 := by decide

-- instants before 1970 (negative epoch times): one transition at -1000000000 = 1938-04-24T22:13:20Z, 0 → +1h
def zOld : Zone := { trs := [-1000000000], tys := [1], offs := [0, 3600] }
example : WF zOld := by decide
example : ep ⟨1938,4,24,22,13,20,1023⟩ = -1000000000 := by decide
example : tzobOffs zOld ⟨1938,4,24,22,13,19,1023⟩ = some 0 := by decide
example : tzobOffs zOld ⟨1938,4,24,22,13,20,1023⟩ = some 3600 := by decide
example : (instantLoc zOld ZRng.fresh ⟨1969,12,31,23,30,0,1023⟩).map (·.1) = some ⟨1970,1,1,0,30,0,1023⟩ := by decide
example : (instantUtc zOld ZRng.fresh ⟨1970,1,1,0,30,0,1023⟩).map (·.1) = some ⟨1969,12,31,23,30,0,1023⟩ := by decide
example : (instantLoc zOld ZRng.fresh ⟨1902,1,1,0,0,0,1023⟩).map (·.1) = some ⟨1902,1,1,0,0,0,1023⟩ := by decide

end C07
