/-
  Property C10: parsing by the iCalendar push parser (src/evical.c, model `Echse.Model.Ical`) does not depend
  on how the bytes arrive.  Statements and short proofs; the work is in `Echse/Lemmas/Ical1 .. Ical20` and
  `IcalFlat`: `feed` over ANY chunking computes a byte-at-a-time automaton (`runA`, Ical8) over the
  concatenation, followed by `finish` (Ical17) for the last pull, or by `finishEof` (Ical20) for a trailing
  empty push and the last pull.

  Since the repair of the newline mark (a flag `eolp` of the parser instead of a `\001` byte behind a
  NON-EMPTY stash) an empty line whose newline ends a buffer can be continued by a fold in the next buffer
  just as within one buffer.  The former condition `NoFoldOnEmpty` (no fold right after an empty line) is
  gone from `Tidy`, and its witness `empty_fold_matters` has become `empty_fold_independent`.

  Since the stash branch of `_ical_pull` sets `BI = p->bsz` (the buffer is used up) the pre-examination of a
  marked stash by the LAST pull no longer looks at a stale byte of the old buffer: it reads 0 behind the
  buffer, so a complete last line is always acted upon.  The former condition `LastLinePlain` is gone from
  `Tidy` as well, and its witnesses `last_line_matters`, `leading_space_matters` have become
  `last_line_independent`, `leading_space_independent`.  What is left in `Tidy` - no backslash, logical lines
  that fit the stash - still has a witness each, below.

  Since the last pull of the model hands back a cancel or reply as well (verbs `LU`, `LR` next to `L`, as
  `echs_evical_last_pull` does), a trailing empty push differs from the plain protocol in nothing but the mark
  `L` on the verb of the last instruction (`chunk_independent_eof_modL`).  The former witness
  `eof_cancel_matters` (a cancellation completed by the last line: an instruction after an empty push, none
  without) has become `eof_cancel_marked`.
-/
import Echse.Lemmas.Ical20
namespace C10
open Echse.Ical

/-! ### the inputs the equality is claimed for

The conditions are phrased over the skeleton `Sc` of the reference automaton (Ical8), which reads the input
byte by byte and keeps, for the logical (unfolded) line being read: `raw` = number of raw bytes of it so far
(CRs, fold NL+whitespace and its final NL included), `empty` = no content byte yet (only CRs and folds),
`pend` = its NL has been read (the line is complete unless SP/TAB follows), `sp` = it contains SP or TAB as a
content byte (fold whitespace not counted).  `allSc φ {} bs` says `φ state rest` at every position. -/

/-- every logical line takes fewer than 1000 RAW bytes (folds, CRs and NL counted).  Implies that every
NL-free run and every unfolded line is shorter than 1000.  The raw count is what matters: a line that is only
partly in the buffer is dropped when `bytes left in the buffer ≥ 1024 - stash fill`, whatever it would
unfold to (finding D18d; witness below: `raw_matters`). -/
def LinesShort (bs : List Byte) : Prop := allSc (fun s _ => decide (s.raw < 1000)) {} bs = true

/-- FORMER conjunct of `Tidy`, no longer needed: if the input ends in a complete non-empty line, that last
logical line has no SP/TAB content byte.  The last pull used to decide whether the marked stash is a complete
line by looking at `*BP` of the OLD buffer (the first unconsumed byte of the last chunk); with `BI = p->bsz`
in the stash branch it looks behind the buffer.  Kept to state that the former witnesses violate it
(`last_line_independent`, `leading_space_independent`). -/
def LastLinePlain (bs : List Byte) : Prop :=
  ((runSc {} bs).pend && !(runSc {} bs).empty && (runSc {} bs).sp) = false

def Tidy (bs : List Byte) : Prop :=
  (∀ b ∈ bs, b ≠ 92) ∧        -- no backslash (finding D17)
  (∀ b ∈ bs, b ≠ 0) ∧         -- no NUL (as asked for; the proof does not use it)
  LinesShort bs

instance (bs : List Byte) : Decidable (LastLinePlain bs) := by
  unfold LastLinePlain; infer_instance

instance (bs : List Byte) : Decidable (Tidy bs) := by
  unfold Tidy LinesShort; infer_instance

theorem allSc_and (φ ψ : Sc → List Byte → Bool) : ∀ (l : List Byte) (s : Sc),
    allSc (fun s r => φ s r && ψ s r) s l = (allSc φ s l && allSc ψ s l)
  | [], s => by simp [allSc]
  | c :: r, s => by
    rw [allSc, allSc, allSc, allSc_and φ ψ r]
    cases φ s (c :: r) <;> cases ψ s (c :: r) <;> simp

theorem tidy_good (bs : List Byte) (h : Tidy bs) : Good {} bs := h.2.2

/-- what `feed` computes on a tidy input, however it is cut -/
theorem feed_tidy (chunks : List (List Byte)) (hne : ∀ c ∈ chunks, c ≠ []) (hbs : chunks.flatten ≠ [])
    (ht : Tidy chunks.flatten) :
    feed chunks = finish (runA {} chunks.flatten) (runA {} chunks.flatten).ins :=
  feed_spec chunks hne hbs (tidy_good _ ht) ht.1

/-- C10: the instructions produced and the lines acted upon do not depend on the chunking -/
theorem chunk_independent (bs : List Byte) (chunks : List (List Byte)) (hc : chunks.flatten = bs)
    (hne : ∀ c ∈ chunks, c ≠ []) (ht : Tidy bs) : feed chunks = feed [bs] := by
  cases hb : bs with
  | nil =>
    cases chunks with
    | nil => rfl
    | cons c r =>
      have : c = [] := by
        rw [hb] at hc; simp at hc; exact hc.1
      exact absurd this (hne c (by simp))
  | cons b0 r0 =>
    rw [← hb]
    have h1 : [bs].flatten = bs := by simp
    have hbs : bs ≠ [] := by rw [hb]; simp
    rw [feed_tidy chunks hne (by rw [hc]; exact hbs) (by rw [hc]; exact ht)]
    rw [feed_tidy [bs] (by intro c hc'; simp at hc'; rw [hc']; exact hbs) (by rw [h1]; exact hbs)
      (by rw [h1]; exact ht)]
    rw [hc, h1]

/-! ### a trailing empty push (end of the connection)

The daemon pushes an EMPTY buffer when recv() returns 0, drains, and then does the last pull.  An empty push
that is not the first one is acted upon (`feed` skips empty chunks only as long as no parser exists): the
pre-examination of a marked stash reads 0 in the empty buffer, so a pending last line is processed by the
ORDINARY drain loop and the last pull finds nothing to do.  The lines acted upon are the same as without the
empty push, and so are the instructions - unless that last line completes an event (`EndsInEvent`): the
drain loop hands it out with the verb of its METHOD (`S`, `U`, `R`), the last pull with that verb marked (`L`,
`LU`, `LR`; witnesses below: `eof_verb_matters`, `eof_cancel_marked`).  That mark is the only difference
(`chunk_independent_eof_modL`).  An empty push in the MIDDLE, between a line end and a fold blank, ends the
line early (`empty_push_in_the_middle_matters`). -/

/-- leading empty pushes are refused by `_ical_init_push` -/
theorem feed_leading_empty (chunks : List (List Byte)) : feed ([] :: chunks) = feed chunks := rfl

/-- the input ends in a complete line that completes an event: `END:VEVENT` / `END:VTODO` with its newline,
in a calendar whose `END:VCALENDAR` has not come -/
def EndsInEvent (bs : List Byte) : Prop :=
  (runA {} bs).sc.pend = true ∧ (runA {} bs).cur ≠ [] ∧
    (procLine (runA {} bs).comp (runA {} bs).cur).2 = .ve

instance (bs : List Byte) : Decidable (EndsInEvent bs) := by
  unfold EndsInEvent; infer_instance

/-- what `feed` computes on a tidy input followed by an empty push, however the input is cut -/
theorem feed_tidy_eof (chunks : List (List Byte)) (hne : ∀ c ∈ chunks, c ≠ []) (hbs : chunks.flatten ≠ [])
    (ht : Tidy chunks.flatten) :
    feed (chunks ++ [[]]) = finishEof (runA {} chunks.flatten) (runA {} chunks.flatten).ins :=
  feed_spec_eof chunks hne hbs (tidy_good _ ht) ht.1

theorem feed_one (bs : List Byte) (hbs : bs ≠ []) (ht : Tidy bs) :
    feed [bs] = finish (runA {} bs) (runA {} bs).ins ∧
    feed [bs, []] = finishEof (runA {} bs) (runA {} bs).ins := by
  have h1 : [bs].flatten = bs := by simp
  have hne : ∀ c ∈ [bs], c ≠ [] := by intro c hc'; simp at hc'; rw [hc']; exact hbs
  have a := feed_tidy [bs] hne (by rw [h1]; exact hbs) (by rw [h1]; exact ht)
  have b := feed_tidy_eof [bs] hne (by rw [h1]; exact hbs) (by rw [h1]; exact ht)
  rw [h1] at a b
  exact ⟨a, b⟩

theorem chunks_nil_of_flatten (chunks : List (List Byte)) (hc : chunks.flatten = [])
    (hne : ∀ c ∈ chunks, c ≠ []) : chunks = [] := by
  cases chunks with
  | nil => rfl
  | cons c r =>
    have : c = [] := by simp at hc; exact hc.1
    exact absurd this (hne c (by simp))

/-- C10 for the daemon's protocol (a final empty push, then the last pull): the instructions produced and the
lines acted upon do not depend on the chunking -/
theorem chunk_independent_eof (bs : List Byte) (chunks : List (List Byte)) (hc : chunks.flatten = bs)
    (hne : ∀ c ∈ chunks, c ≠ []) (ht : Tidy bs) : feed (chunks ++ [[]]) = feed [bs, []] := by
  by_cases hbs : bs = []
  · rw [hbs] at hc
    rw [chunks_nil_of_flatten chunks hc hne, hbs]; rfl
  · rw [feed_tidy_eof chunks hne (by rw [hc]; exact hbs) (by rw [hc]; exact ht), (feed_one bs hbs ht).2, hc]

/-- the trailing empty push changes nothing in the lines acted upon -/
theorem eof_lines (bs : List Byte) (chunks : List (List Byte)) (hc : chunks.flatten = bs)
    (hne : ∀ c ∈ chunks, c ≠ []) (ht : Tidy bs) : (feed (chunks ++ [[]])).2 = (feed [bs]).2 := by
  by_cases hbs : bs = []
  · rw [hbs] at hc
    rw [chunks_nil_of_flatten chunks hc hne, hbs]; rfl
  · rw [feed_tidy_eof chunks hne (by rw [hc]; exact hbs) (by rw [hc]; exact ht), (feed_one bs hbs ht).1, hc,
      finishEof_log]

/-- and nothing at all unless the input ends in a line that completes an event -/
theorem chunk_independent_eof_plain (bs : List Byte) (chunks : List (List Byte)) (hc : chunks.flatten = bs)
    (hne : ∀ c ∈ chunks, c ≠ []) (ht : Tidy bs) (hev : ¬ EndsInEvent bs) :
    feed (chunks ++ [[]]) = feed [bs] := by
  by_cases hbs : bs = []
  · rw [hbs] at hc
    rw [chunks_nil_of_flatten chunks hc hne, hbs]; rfl
  · rw [feed_tidy_eof chunks hne (by rw [hc]; exact hbs) (by rw [hc]; exact ht), (feed_one bs hbs ht).1, hc]
    exact finishEof_eq _ _ hev

/-- with or without the trailing empty push, however the input is cut: the same lines acted upon and the same
instructions up to the mark of the last pull on the verb (`stripL`, Ical20: `L`, `LU`, `LR` read as `S`, `U`,
`R`); no hypothesis on how the input ends -/
theorem chunk_independent_eof_modL (bs : List Byte) (chunks : List (List Byte)) (hc : chunks.flatten = bs)
    (hne : ∀ c ∈ chunks, c ≠ []) (ht : Tidy bs) :
    ((feed (chunks ++ [[]])).1.map stripL, (feed (chunks ++ [[]])).2) =
      ((feed [bs]).1.map stripL, (feed [bs]).2) := by
  by_cases hbs : bs = []
  · rw [hbs] at hc
    rw [chunks_nil_of_flatten chunks hc hne, hbs]; rfl
  · rw [feed_tidy_eof chunks hne (by rw [hc]; exact hbs) (by rw [hc]; exact ht), (feed_one bs hbs ht).1, hc]
    exact finishEof_modL _ _

/-- the marks that `stripL` takes off are those of the last pull: a plain verb stays -/
theorem stripL_plain : (stripL { verb := "S", lines := [] }).verb = "S" ∧
    (stripL { verb := "U", lines := [] }).verb = "U" ∧ (stripL { verb := "R", lines := [] }).verb = "R" ∧
    (stripL { verb := "L", lines := [] }).verb = "S" ∧ (stripL { verb := "LU", lines := [] }).verb = "U" ∧
    (stripL { verb := "LR", lines := [] }).verb = "R" := by
  decide

/-- leading empty pushes and one trailing empty push around a chunking without empty chunks -/
theorem chunk_independent_eof_lead (bs : List Byte) (chunks : List (List Byte)) (n : Nat)
    (hc : chunks.flatten = bs) (hne : ∀ c ∈ chunks, c ≠ []) (ht : Tidy bs) :
    feed (List.replicate n [] ++ chunks) = feed [bs] ∧
    feed (List.replicate n [] ++ (chunks ++ [[]])) = feed [bs, []] := by
  induction n with
  | zero => exact ⟨chunk_independent bs chunks hc hne ht, chunk_independent_eof bs chunks hc hne ht⟩
  | succ n ih =>
    rw [List.replicate_succ, List.cons_append, List.cons_append, feed_leading_empty, feed_leading_empty]
    exact ih

/-! ### the stash is never overrun (no hypothesis on the input) -/

/-- `_ical_pull`, `echs_evical_pull` and the callers' loop keep the stash fill below the size of the stash
(the terminator byte at `stash[six]` is inside the buffer as well) -/
theorem stash_bounded :
    (∀ fuel p, p.stash.length < stashSize → (pull fuel p).1.stash.length < stashSize) ∧
    (∀ fuel p, p.stash.length < stashSize → (pullIns fuel p).1.stash.length < stashSize) ∧
    (∀ fuel p, p.stash.length < stashSize → (pullEv fuel p).1.stash.length < stashSize) ∧
    (∀ fuel p acc, p.stash.length < stashSize → (drain fuel p acc).1.stash.length < stashSize) :=
  ⟨loop_stash_lt pull_isLoop round_good, loop_stash_lt pullIns_isLoop insStep_good,
   loop_stash_lt pullEv_isLoop evStep_good, drain_stash_lt⟩

theorem feedStep_bounded (s : Option Parser × List Instr) (ch : List Byte)
    (hs : ∀ q, s.1 = some q → q.stash.length < stashSize) :
    ∀ q, (feedStep s ch).1 = some q → q.stash.length < stashSize := by
  intro q hq
  unfold feedStep at hq
  split at hq
  · exact hs q hq
  · dsimp only at hq
    cases hq
    apply drain_stash_lt
    cases h1 : s.1 with
    | none => simp [stashSize]
    | some q1 => exact hs q1 h1

/-- every parser state between the pushes of `feed`, on any input whatsoever -/
theorem stash_bounded_feed : ∀ (chunks : List (List Byte)) (s : Option Parser × List Instr),
    (∀ q, s.1 = some q → q.stash.length < stashSize) →
    ∀ q, (chunks.foldl feedStep s).1 = some q → q.stash.length < stashSize
  | [], _, hs => hs
  | ch :: r, s, hs => by
    rw [List.foldl_cons]
    exact stash_bounded_feed r _ (feedStep_bounded s ch hs)

/-! ### the loops of the model end by their own exit conditions -/

/-- more fuel than `feed` hands to the loops changes nothing (every round of `_ical_pull` that does not
return consumes a byte of the buffer or the mark on the stash: measure `mu`, Ical4) -/
theorem fuel_suffices (k : Nat) (p : Parser) (acc : List Instr) :
    pull (p.buf.length - p.bix + 2 + k) p = pull (p.buf.length - p.bix + 2) p ∧
    pull (p.buf.length + 2 + k) p = pull (p.buf.length + 2) p ∧
    pullIns (p.buf.length + 2 + k) p = pullIns (p.buf.length + 2) p ∧
    pullEv (p.buf.length + 2 + k) p = pullEv (p.buf.length + 2) p ∧
    drain (p.buf.length + 2 + k) p acc = drain (p.buf.length + 2) p acc := by
  have h1 : mu p < p.buf.length - p.bix + 2 := by have := mu_le p; omega
  have h2 := mu_lt_fuel p
  exact ⟨loop_fuel pull_isLoop round_good _ k p h1, loop_fuel pull_isLoop round_good _ k p h2,
    loop_fuel pullIns_isLoop insStep_good _ k p h2, loop_fuel pullEv_isLoop evStep_good _ k p h2,
    drain_fuel _ k p acc h2⟩

/-! ### non-vacuity -/

/-- a calendar with CRLF line ends, a METHOD, a VEVENT, and two folded lines (SP and TAB folds) -/
def cal : List Byte :=
  [66, 69, 71, 73, 78, 58, 86, 67, 65, 76, 69, 78, 68, 65, 82, 13, 10,                       -- BEGIN:VCALENDAR
   77, 69, 84, 72, 79, 68, 58, 80, 85, 66, 76, 73, 83, 72, 13, 10,                           -- METHOD:PUBLISH
   66, 69, 71, 73, 78, 58, 86, 69, 86, 69, 78, 84, 13, 10,                                   -- BEGIN:VEVENT
   85, 73, 68, 58, 97, 49, 13, 10,                                                           -- UID:a1
   83, 85, 77, 77, 65, 82, 89, 58, 101, 99, 104, 111, 32, 104, 101, 108, 108, 111, 13, 10,   -- SUMMARY:echo hello
   32, 32, 119, 111, 114, 108, 100, 13, 10,                                                  --  ( world)
   68, 84, 83, 84, 65, 82, 84, 58, 50, 48, 51, 48, 48, 49, 48, 49, 84, 48, 48, 48, 48, 49, 48, 90, 13, 10,
   82, 82, 85, 76, 69, 58, 70, 82, 69, 81, 61, 68, 65, 73, 76, 89, 59, 13, 10,               -- RRULE:FREQ=DAILY;
   9, 67, 79, 85, 78, 84, 61, 51, 13, 10,                                                    -- \tCOUNT=3
   69, 78, 68, 58, 86, 69, 86, 69, 78, 84, 13, 10,                                           -- END:VEVENT
   69, 78, 68, 58, 86, 67, 65, 76, 69, 78, 68, 65, 82, 13, 10]                               -- END:VCALENDAR

set_option maxRecDepth 20000 in
example : Tidy cal := by decide

/-- instructions (verb, lines) and log, comparable by `decide` -/
def view (x : List Instr × List (List Byte)) : List (String × List (List Byte)) × List (List Byte) :=
  (x.1.map fun i => (i.verb, i.lines), x.2)

/-- an instance of `chunk_independent` computed directly: the cut falls between the LF and the TAB of the
folded RRULE line (finding D18a, repaired); one instruction comes out -/
example : (cal.take 129).getLast? = some 10 ∧ (cal.drop 129).head? = some 9 := by decide

set_option maxRecDepth 100000 in
example : view (feed [cal.take 129, cal.drop 129]) = view (feed [cal]) ∧ (feed [cal]).1.length = 1 := by
  decide

/-- the earlier smoke check: a fold split between the newline and the space -/
theorem fold_split_between_lf_and_sp :
    (feed [[65, 58, 49, 10], [32, 50, 10, 66, 58, 10]]).2 = (feed [[65, 58, 49, 10, 32, 50, 10, 66, 58, 10]]).2 := by
  decide

/-! ### a fold behind an EMPTY line: no longer a condition

`LF | SP B LF C LF` was the witness `empty_fold_matters` for the former conjunct `NoFoldOnEmpty` of `Tidy`: cut
behind the LF the parser acted upon ` B` and `C`, in one buffer upon `B` and `C`. -/

/-- the two chunkings of the old witness now give the same lines -/
theorem empty_fold_independent :
    (feed [[10], [32, 66, 10, 67, 10]]).2 = [[66], [67]] ∧ (feed [[10, 32, 66, 10, 67, 10]]).2 = [[66], [67]] := by
  decide

/-- and so does every other chunking of it: the input is `Tidy` now -/
theorem empty_fold_any_chunking (chunks : List (List Byte)) (hc : chunks.flatten = [10, 32, 66, 10, 67, 10])
    (hne : ∀ c ∈ chunks, c ≠ []) : feed chunks = feed [[10, 32, 66, 10, 67, 10]] :=
  chunk_independent _ chunks hc hne (by decide)

/-- `BEGIN:VCALENDAR`, `BEGIN:VEVENT`, an empty line (CR LF), ` SUMMARY:x`, `END:VEVENT`: the cut behind the
LF of the empty line, directly computed; the folded `SUMMARY:x` is a property line of the one instruction -/
def calEmptyFold : List Byte :=
  [66, 69, 71, 73, 78, 58, 86, 67, 65, 76, 69, 78, 68, 65, 82, 10,
   66, 69, 71, 73, 78, 58, 86, 69, 86, 69, 78, 84, 10,
   13, 10,
   32, 83, 85, 77, 77, 65, 82, 89, 58, 120, 10,
   69, 78, 68, 58, 86, 69, 86, 69, 78, 84, 10]

set_option maxRecDepth 100000 in
example : Tidy calEmptyFold ∧ (calEmptyFold.take 31).getLast? = some 10 ∧ (calEmptyFold.drop 31).head? = some 32 ∧
    view (feed [calEmptyFold.take 31, calEmptyFold.drop 31]) = view (feed [calEmptyFold]) ∧
    (feed [calEmptyFold]).1.map (·.lines) = [[[83, 85, 77, 77, 65, 82, 89, 58, 120]]] := by
  decide

/-! ### a last line with a blank, or cut in front of a blank: no longer a condition

`A:1 | SP 2 LF` and `SP | B LF` were the witnesses `last_line_matters`, `leading_space_matters` for the former
conjunct `LastLinePlain` of `Tidy`: the last pull looked at the first byte of the last chunk (a blank) and took
the complete last line for one that goes on. -/

/-- `A:1 | SP 2 LF`: the last line is acted upon however it is cut; the input is `Tidy`, not `LastLinePlain` -/
theorem last_line_independent :
    (feed [[65, 58, 49], [32, 50, 10]]).2 = [[65, 58, 49, 32, 50]] ∧
    (feed [[65, 58, 49, 32, 50, 10]]).2 = [[65, 58, 49, 32, 50]] ∧
    Tidy [65, 58, 49, 32, 50, 10] ∧ ¬ LastLinePlain [65, 58, 49, 32, 50, 10] := by
  decide

/-- at the very start: `SP | B LF` and `SP B LF` -/
theorem leading_space_independent :
    (feed [[32], [66, 10]]).2 = [[32, 66]] ∧ (feed [[32, 66, 10]]).2 = [[32, 66]] ∧
    Tidy [32, 66, 10] ∧ ¬ LastLinePlain [32, 66, 10] := by
  decide

/-! ### the trailing empty push: where it does matter -/

/-- `BEGIN:VCALENDAR`, `BEGIN:VEVENT`, `UID:a`, `END:VEVENT` (each with LF), no `END:VCALENDAR` -/
def calOpen : List Byte :=
  [66, 69, 71, 73, 78, 58, 86, 67, 65, 76, 69, 78, 68, 65, 82, 10,
   66, 69, 71, 73, 78, 58, 86, 69, 86, 69, 78, 84, 10,
   85, 73, 68, 58, 97, 10,
   69, 78, 68, 58, 86, 69, 86, 69, 78, 84, 10]

set_option maxRecDepth 100000 in
/-- why `chunk_independent_eof` has `feed [bs, []]` on the right and `chunk_independent_eof_plain` its last
hypothesis: the event completed by the last line comes out as `S` after an empty push, as `L` without -/
theorem eof_verb_matters :
    Tidy calOpen ∧ EndsInEvent calOpen ∧
    view (feed [calOpen, []]) = ([("S", [[85, 73, 68, 58, 97]])], (feed [calOpen]).2) ∧
    view (feed [calOpen]) = ([("L", [[85, 73, 68, 58, 97]])], (feed [calOpen]).2) := by
  decide

/-- the same with `METHOD:CANCEL` behind the first line -/
def calOpenCancel : List Byte :=
  calOpen.take 16 ++ [77, 69, 84, 72, 79, 68, 58, 67, 65, 78, 67, 69, 76, 10] ++ calOpen.drop 16

set_option maxRecDepth 100000 in
/-- a cancellation completed by the last line is an instruction either way (formerly `eof_cancel_matters`:
none without the empty push): `U` after an empty push, `LU` from the last pull -/
theorem eof_cancel_marked :
    Tidy calOpenCancel ∧ EndsInEvent calOpenCancel ∧
    view (feed [calOpenCancel, []]) = ([("U", [[85, 73, 68, 58, 97]])], (feed [calOpenCancel]).2) ∧
    view (feed [calOpenCancel]) = ([("LU", [[85, 73, 68, 58, 97]])], (feed [calOpenCancel]).2) := by
  decide

/-- an empty push in the middle, between a line end and the fold blank, ends the line early: the hypothesis
`∀ c ∈ chunks, c ≠ []` cannot be dropped for inner chunks -/
theorem empty_push_in_the_middle_matters :
    (feed [[65, 58, 49, 10], [], [32, 50, 10]]).2 = [[65, 58, 49], [32, 50]] ∧
    (feed [[65, 58, 49, 10], [32, 50, 10]]).2 = [[65, 58, 49, 50]] := by
  decide

/-! ### why `Tidy` has its conjuncts: inputs on which the parse DOES depend on the chunking -/

/-- without `no backslash` (finding D17): `A:\ | n LF` - the byte behind a backslash is skipped only when it is
in the same buffer -/
theorem backslash_matters :
    (feed [[65, 58, 92], [110, 10]]).2 = [[65, 58, 92, 110]] ∧ (feed [[65, 58, 92, 110, 10]]).2 = [[65, 58, 92]] := by
  decide

/-- a logical line of 1204 raw bytes that unfolds to 2 (`A:`, 600 CRs, a fold, 600 CRs): every NL-free run
and every unfolded line is far below 1000, yet the line is dropped when the cut falls in front of its LF -/
def longLine : List Byte := [65, 58] ++ List.replicate 600 13 ++ [10, 32] ++ List.replicate 600 13

set_option maxRecDepth 1000000 in
/-- without the RAW bound of `LinesShort` (bounds on NL-free runs and unfolded lines do not suffice) -/
theorem raw_matters :
    (feed [longLine ++ [10, 66, 58, 49, 10]]).2 = [[65, 58], [66, 58, 49]] ∧
    (feed [longLine, [10, 66, 58, 49, 10]]).2 = [[66, 58, 49]] := by
  decide

end C10
