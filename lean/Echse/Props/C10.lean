import Echse.Model.Ical
namespace C10
open Echse.Ical

/-- smoke (general statements replace this): a fold split between the newline and the space (finding D18a, repaired) -/
theorem fold_split_between_lf_and_sp :
    (feed [[65, 58, 49, 10], [32, 50, 10, 66, 58, 10]]).2 = (feed [[65, 58, 49, 10, 32, 50, 10, 66, 58, 10]]).2 := by decide

end C10
