/-
  C01, `fillHly` (FREQ=HOURLY) against RFC 5545 (`Echse.Spec.Rfc.HourlyInst`), part 1: one round of the loop.
  The body enumerates the minutes and seconds of an hour iff the hour passes the limits; what it steps over holds no
  instance; the increment expression moves the candidate on by exactly the chosen number of hours and keeps the
  weekday, the day of the year and the year's length in step.
-/
import Echse.Lemmas.RrSubRfc6
import Echse.Lemmas.RrHlyOk
namespace Echse.Lemmas.RrHlyRfc
open Echse.Rrule Echse.Instant Echse.Spec.RrOk Echse.Lemmas.RrSubOk Echse.Spec.Rfc Echse.Spec.Cal Echse.Spec.RuleExt
open Echse.Lemmas.RrHlyOk Echse.Lemmas.RrSubRfc

/-- the limits an HOURLY instance passes -/
def HlyLim (r : Rule) (x : Inst) : Prop := DateOk r x ∧ ydayOk r x ∧ hourLim r x

/-- hours since day 0 -/
def habsOf (x : Inst) : Int := dayOf x * 24 + x.H

theorem same_parts_h (x X : Inst) (hx : VT x) (hX : VT X) (D : Nat) (h : habsOf x = habsOf X + D)
    (h1 : D < 24 - X.H) : (x.y = X.y ∧ x.m = X.m ∧ x.d = X.d) ∧ (D = 0 → x.H = X.H) := by
  obtain ⟨a1, a2, a3, a4, aH, aM, aS, _⟩ := hX
  obtain ⟨b1, b2, b3, b4, bH, bM, bS, _⟩ := hx
  simp only [habsOf, dayOf] at h
  have he : days x.y x.m x.d = days X.y X.m X.d := by omega
  refine ⟨days_inj _ _ _ _ _ _ b1 b2 b3 b4 a1 a2 a3 a4 he, ?_⟩
  rw [he] at h
  intro h3
  omega

section body
variable (r : Rule) (p : Inst) (k : Nat) (hr : WfRule r) (X : Inst) (hX : VT X) (hy1 : 1901 ≤ X.y) (hy2 : X.y ≤ 2099)
  (w : Nat) (hw : w = wdayOf (dayOf X))
include hr hX hy1 hy2 hw

/-- the body: the hour passes the limits and its minutes and seconds are enumerated, or it is stepped over together
with whatever else the failed test rules out -/
theorem hlyBody_sem (times : List (Nat × Nat × Nat × Nat)) (cnt : Nat) (acc : List Inst) :
    (HlyLim r X ∧ hlyBody (mkSubCtx r p k) times X.y X.m X.d X.H w (ymdGetYd X.y X.m X.d) (getNdom X.y X.m)
        (maxyOf X.y) cnt acc =
      ((hlyEnum (mkSubCtx r p k) X.y X.m X.d X.H times cnt acc).1,
       (hlyEnum (mkSubCtx r p k) X.y X.m X.d X.H times cnt acc).2.1,
       (hlyEnum (mkSubCtx r p k) X.y X.m X.d X.H times cnt acc).2.2, (mkSubCtx r p k).inter)) ∨
    (∃ inc, hlyBody (mkSubCtx r p k) times X.y X.m X.d X.H w (ymdGetYd X.y X.m X.d) (getNdom X.y X.m)
        (maxyOf X.y) cnt acc = (cnt, acc, false, inc) ∧
      1 ≤ inc ∧ inc < 2147483648 + 86400 ∧ (∃ j, inc = j * (mkSubCtx r p k).inter) ∧
      ∀ (x : Inst) (t : Nat), VT x → HlyLim r x →
        habsOf x = habsOf X + ((t * (mkSubCtx r p k).inter : Nat) : Int) →
        ∃ t', t * (mkSubCtx r p k).inter = inc + t' * (mkSubCtx r p k).inter) := by
  obtain ⟨hi1, hi2⟩ := mkSubCtx_inter r p k hr
  have hX' := hX
  obtain ⟨_, _, _, _, aH, aM, aS, _⟩ := hX'
  have T1 := t_day r p k hr X hX hy1 hy2 w hw
  have T2 := t_hour r p k hr X hX
  have T5 := t_doy r p k hr X hX hy1 hy2
  have eD : (24 + u32 - X.H) % u32 = 24 - X.H := by simp only [u32]; omega
  -- a filtered day
  have hday : (¬ DateOk r X ∨ ¬ ydayOk r X) → ∀ (x : Inst) (t : Nat), VT x → HlyLim r x →
      habsOf x = habsOf X + ((t * (mkSubCtx r p k).inter : Nat) : Int) →
      ∃ t', t * (mkSubCtx r p k).inter =
        interPast (24 - X.H) (mkSubCtx r p k).inter + t' * (mkSubCtx r p k).inter := by
    intro hn x t hx ⟨l1, l2, _⟩ ht
    refine (skip_ex _ _ t hi1 hi2 (by omega) (by omega) ?_).2
    by_cases c : 24 - X.H ≤ t * (mkSubCtx r p k).inter
    · exact c
    · obtain ⟨⟨e1, e2, e3⟩, _⟩ := same_parts_h x X hx hX _ ht (by omega)
      obtain ⟨g1, g2⟩ := date_congr r x X e1 e2 e3
      rcases hn with hn | hn
      · exact absurd (g1.mp l1) hn
      · exact absurd (g2.mp l2) hn
  have bD := interPast_bounds (24 - X.H) (mkSubCtx r p k).inter hi1 hi2 (by omega) (by omega)
  have mD := interPast_mul (24 - X.H) (mkSubCtx r p k).inter hi1 hi2 (by omega) (by omega)
  unfold hlyBody
  simp only [eD]
  by_cases c1 : (mkSubCtx r p k).dayOut w X.m X.d (getNdom X.y X.m) = true
  · rw [if_pos c1]
    exact Or.inr ⟨_, rfl, by omega, by omega, mD, hday (Or.inl (by rw [← T1]; simp [c1]))⟩
  rw [if_neg c1]
  have d1 : DateOk r X := T1.mp (by simpa using c1)
  by_cases c2 : ((mkSubCtx r p k).HMask &&& shl1 X.H) = 0
  · rw [if_pos c2]
    refine Or.inr ⟨_, rfl, hi1, by omega, ⟨1, by rw [Nat.one_mul]⟩, ?_⟩
    intro x t hx ⟨_, _, l3⟩ ht
    have h0 : t ≠ 0 := by
      intro h0
      rw [h0, Nat.zero_mul] at ht
      obtain ⟨_, h2⟩ := same_parts_h x X hx hX 0 ht (by omega)
      exact absurd ((hour_congr r x X (h2 rfl)).mp l3) (T2.mp c2)
    refine ⟨t - 1, ?_⟩
    have : t = (t - 1) + 1 := by omega
    rw [this, Nat.add_mul, Nat.one_mul, Nat.add_comm]
    simp
  rw [if_neg c2]
  have d2 : hourLim r X := Classical.not_not.mp (fun h => c2 (T2.mpr h))
  by_cases c5 : (!(mkSubCtx r p k).r.doy.isEmpty &&
      !doyHit (mkSubCtx r p k).r.doy (ymdGetYd X.y X.m X.d) (maxyOf X.y)) = true
  · rw [if_pos c5]
    exact Or.inr ⟨_, rfl, by omega, by omega, mD, hday (Or.inr (by rw [← T5]; simp only [c5]; simp))⟩
  · rw [if_neg c5]
    have d5 : ydayOk r X := T5.mp (by simpa using c5)
    exact Or.inl ⟨⟨d1, d5, d2⟩, rfl⟩

end body

/-- hours since day 0 of the candidate `y-m-d H` -/
def hcabs (y m d H : Nat) : Int := days y m d * 24 + (H : Int)

theorem year_len (y : Nat) (hy1 : 1901 ≤ y) (hy2 : y ≤ 2099) : days (y + 1) 1 1 - days y 1 1 = maxyOf y := by
  have c1 := cent y (by omega) (by omega)
  have c2 := cent ((y : Int) - 1) (by omega) (by omega)
  by_cases h : y % 4 = 0
  · have e : maxyOf y = 366 := by simp [maxyOf, h]
    rw [e]; simp [days]; omega
  · have e : maxyOf y = 365 := by simp [maxyOf, h]
    rw [e]; simp [days]; omega

/-- the hourly carry keeps the day of the year (and the year's length) in step with the date -/
theorem carry_days_h : ∀ (fuel y m d yd : Nat), 1901 ≤ y → y ≤ 2099 → 1 ≤ m → m ≤ 12 → 1 ≤ d → d < fuel →
    days y m 1 + d - 1 < days 2100 1 1 → (yd : Int) = days y m 1 + d - days y 1 1 → yd < 4294967296 →
    ∃ y' m' d' yd', hlyCarry fuel y m d (getNdom y m) yd (maxyOf y) =
        some (y', m', d', getNdom y' m', yd', maxyOf y') ∧
      y ≤ y' ∧ y' ≤ 2099 ∧ 1 ≤ m' ∧ m' ≤ 12 ∧ 1 ≤ d' ∧ d' ≤ getNdom y' m' ∧
      days y' m' d' = days y m 1 + d - 1 ∧ (yd' : Int) = days y' m' d' - days y' 1 1 + 1 := by
  intro fuel
  induction fuel with
  | zero => intro y m d yd _ _ _ _ _ h; omega
  | succ f ih =>
    intro y m d yd hy1 hy2 hm1 hm2 hd hf hlt hyd hydb
    have hb := getNdom_bounds y m hm1 hm2
    have hnd := ndom_eq y m hy1 hy2 hm1 hm2
    unfold hlyCarry
    by_cases hgt : d > getNdom y m
    · simp only [hgt, if_true]
      by_cases hm : m + 1 > 12
      · have hm12 : m = 12 := by omega
        subst hm12
        have hy1' : (y + 1) % u32 = y + 1 := by simp only [u32]; omega
        simp only [hm, if_true, hy1']
        have hn : getNdom y 12 = 31 := by simp [getNdom, mdays]
        have hny := days_next_year y
        have hyl := year_len y hy1 hy2
        have hmono := days_year_mono 2100 (y + 1)
        have hmx : 365 ≤ maxyOf y ∧ maxyOf y ≤ 366 := by unfold maxyOf; split <;> omega
        have e : (yd + u32 - maxyOf y) % u32 = yd - maxyOf y := by simp only [u32]; omega
        rw [e]
        obtain ⟨y', m', d', yd', he, h0, h1, h2, h3, h4, h5, h6, h7⟩ :=
          ih (y + 1) 1 (d - getNdom y 12) (yd - maxyOf y) (by omega) (by omega) (by omega) (by omega) (by omega)
            (by omega) (by omega) (by omega) (by omega)
        exact ⟨y', m', d', yd', he, by omega, h1, h2, h3, h4, h5, by omega, h7⟩
      · simp only [hm, if_false]
        have hnm := days_next_month y m hm1 (by omega)
        obtain ⟨y', m', d', yd', he, h0, h1, h2, h3, h4, h5, h6, h7⟩ :=
          ih y (m + 1) (d - getNdom y m) yd hy1 hy2 (by omega) (by omega) (by omega) (by omega) (by omega)
            (by omega) hydb
        exact ⟨y', m', d', yd', he, h0, h1, h2, h3, h4, h5, by omega, h7⟩
    · simp only [hgt, if_false]
      have hdd := days_d y m d
      exact ⟨y, m, d, yd, rfl, Nat.le_refl _, hy2, hm1, hm2, hd, by omega, by omega, by omega⟩

/-- the increment expression moves the candidate on by exactly `inc` hours (or out of the years the loop visits) -/
theorem hlyStep_adv (c : SubCtx) (times : List (Nat × Nat × Nat × Nat)) (f y m d H w cnt : Nat) (acc : List Inst)
    (inc : Nat) (hy1 : 1901 ≤ y) (hy2 : y ≤ 2099) (hm1 : 1 ≤ m) (hm2 : m ≤ 12) (hd1 : 1 ≤ d) (hd2 : d ≤ getNdom y m)
    (hH : H < 24) (hi1 : 1 ≤ inc) (hi2 : inc < 2147483648 + 86400) (hw : w = wdayOf (days y m d)) :
    ∃ y' m' d' H' w' yd' maxy', hlyStep c times f y m d ((H + inc) % u32) w (ymdGetYd y m d) (getNdom y m)
          (maxyOf y) cnt acc = hlyLoop c times f y' m' d' H' w' yd' (getNdom y' m') maxy' cnt acc ∧
      1901 ≤ y' ∧ 1 ≤ m' ∧ m' ≤ 12 ∧ 1 ≤ d' ∧ d' ≤ getNdom y' m' ∧ H' < 24 ∧
      (hcabs y m d H + inc < days 2100 1 1 * 24 →
        y' ≤ 2099 ∧ hcabs y' m' d' H' = hcabs y m d H + inc ∧ w' = wdayOf (days y' m' d') ∧
        yd' = ymdGetYd y' m' d' ∧ maxy' = maxyOf y') ∧
      (days 2100 1 1 * 24 ≤ hcabs y m d H + inc → 2100 ≤ y') := by
  have hnb := getNdom_bounds y m hm1 hm2
  have hlt := days_lt_2100 y m d hy2 hm1 hm2 (by rw [← ndom_eq y m hy1 hy2 hm1 hm2]; exact hd2)
  have e : (H + inc) % u32 = H + inc := by simp only [u32]; omega
  rw [e]
  clear e
  simp only [hlyStep]
  by_cases hC : H + inc ≥ 24
  · rw [if_pos hC]
    have hwa := wday_adv (days y m d) w ((H + inc) / 24) hw (by omega)
    have hyd := yd_eq y m d hy1 hy2 hm1 hm2 (by omega)
    have hdd := days_d y m d
    have hydb : ymdGetYd y m d ≤ 366 := by
      have := days_year_mono y y (Nat.le_refl _)
      have h1 := days_lt_2100 y m d hy2 hm1 hm2 (by rw [← ndom_eq y m hy1 hy2 hm1 hm2]; exact hd2)
      have h2 := year_len y hy1 hy2
      have h3 : maxyOf y ≤ 366 := by unfold maxyOf; split <;> omega
      have h4 := days_lt_of_lex y m d (y + 1) 1 1 hm1 hm2
        (by rw [← ndom_eq y m hy1 hy2 hm1 hm2]; exact hd2) (by omega) (by omega) (by omega) (Or.inl (by omega))
      omega
    have e1 : (d + (H + inc) / 24) % u32 = d + (H + inc) / 24 := by simp only [u32]; omega
    have e2 : (ymdGetYd y m d + (H + inc) / 24) % u32 = ymdGetYd y m d + (H + inc) / 24 := by
      simp only [u32]; omega
    rw [e1, e2]
    by_cases hq : days y m d + ((H + inc) / 24 : Nat) < days 2100 1 1
    · obtain ⟨y', m', d', yd', he, h0, h1, h2, h3, h4, h5, h6, h7⟩ :=
        carry_days_h (d + (H + inc) / 24 + 1) y m (d + (H + inc) / 24) (ymdGetYd y m d + (H + inc) / 24)
          hy1 hy2 hm1 hm2 (by omega) (by omega) (by omega) (by omega) (by omega)
      simp only [he]
      have hb' := getNdom_bounds y' m' h2 h3
      have hyd' := yd_eq y' m' d' (by omega) h1 h2 h3 (by omega)
      refine ⟨y', m', d', _, _, yd', _, rfl, by omega, h2, h3, h4, h5, by omega, ?_, ?_⟩
      · intro _
        unfold hcabs
        refine ⟨h1, by omega, ?_, by omega, rfl⟩
        rw [hwa]; congr 1; omega
      · intro hge; simp only [hcabs] at hge; omega
    · obtain ⟨y', m', d', he, h0, h1, h2, h3, h4⟩ :=
        carry_over (d + (H + inc) / 24 + 1) y m (d + (H + inc) / 24) hy1 hm1 hm2 (by omega) (by omega) (by omega)
          (Or.inr (by omega))
      obtain ⟨yd', maxy', he'⟩ := hlyCarry_of_sub _ _ _ _ _ (ymdGetYd y m d + (H + inc) / 24) (maxyOf y) _ _ _ _ he
      simp only [he']
      refine ⟨y', m', d', _, _, yd', maxy', rfl, by omega, h1, h2, h3, h4, by omega, ?_, ?_⟩
      · intro hl; simp only [hcabs] at hl; omega
      · intro _; exact h0
  · rw [if_neg hC]
    refine ⟨y, m, d, _, w, _, _, rfl, hy1, hm1, hm2, hd1, hd2, by omega, ?_, ?_⟩
    · intro _; unfold hcabs; exact ⟨hy2, by omega, hw, rfl, rfl⟩
    · intro hge; simp only [hcabs] at hge; omega

theorem hlyEnum_eq (c : SubCtx) (y m d H : Nat) : ∀ (ts : List (Nat × Nat × Nat × Nat)) (cnt : Nat) (acc : List Inst),
    hlyEnum c y m d H ts cnt acc =
      gEnum c.nti c.proto c.r.untl (fun t => mkInst y m d H t.2.2.1 t.2.2.2 c.proto.ms)
        (fun t => posPickP c.r.pos (t.1 * c.e.S.length + t.2.1) (c.e.M.length * c.e.S.length)) ts cnt acc := by
  intro ts
  induction ts with
  | nil => intro cnt acc; rfl
  | cons t rest ih =>
    intro cnt acc
    obtain ⟨iM, iS, mi, s⟩ := t
    simp only [hlyEnum, gEnum, ih]

/-- results are only ever added -/
theorem hlyLoop_mono (c : SubCtx) (times : List (Nat × Nat × Nat × Nat)) : ∀ (fuel y m d H w yd maxd maxy cnt : Nat)
    (acc acc' : List Inst), hlyLoop c times fuel y m d H w yd maxd maxy cnt acc = some acc' →
    ∀ z ∈ acc, z ∈ acc' := by
  intro fuel
  induction fuel with
  | zero => intro y m d H w yd maxd maxy cnt acc acc' h; simp [hlyLoop] at h
  | succ f ih =>
    intro y m d H w yd maxd maxy cnt acc acc' h z hz
    rw [hlyLoop_succ] at h
    split at h
    · cases h; exact hz
    split at h
    · cases h; exact hz
    split at h
    · cases h; exact hz
    have hz1 : z ∈ (hlyBody c times y m d H w yd maxd maxy cnt acc).2.1 := by
      unfold hlyBody
      simp only []
      split
      · exact hz
      split
      · exact hz
      split
      · exact hz
      · rw [hlyEnum_eq]; exact gEnum_mono _ _ _ _ _ _ _ _ z hz
    generalize hlyBody c times y m d H w yd maxd maxy cnt acc = bd at h hz1
    obtain ⟨cnt1, acc1, fin, inc⟩ := bd
    simp only at h hz1
    split at h
    · cases h; exact hz1
    unfold hlyStep at h
    simp only at h
    split at h
    · split at h
      · cases h
      · exact ih _ _ _ _ _ _ _ _ _ _ _ h z hz1
    · exact ih _ _ _ _ _ _ _ _ _ _ _ h z hz1

/-- a full list ends the loop -/
theorem hlyLoop_full (c : SubCtx) (times : List (Nat × Nat × Nat × Nat)) (fuel y m d H w yd maxd maxy cnt : Nat)
    (acc acc' : List Inst) (hc : ¬ cnt < c.nti)
    (h : hlyLoop c times fuel y m d H w yd maxd maxy cnt acc = some acc') : acc' = acc := by
  cases fuel with
  | zero => simp [hlyLoop] at h
  | succ f =>
    rw [hlyLoop_succ, if_pos hc] at h
    cases h; rfl

/-- the entries of `timesMS`: a minute and a second with their positions -/
theorem mem_timesMS (e : Enum) (t : Nat × Nat × Nat × Nat) :
    t ∈ e.timesMS ↔ (t.2.2.1, t.1) ∈ e.M.zipIdx ∧ (t.2.2.2, t.2.1) ∈ e.S.zipIdx := by
  obtain ⟨iM, iS, mi, s⟩ := t
  unfold Enum.timesMS
  simp only [List.mem_flatMap, List.mem_map, Prod.mk.injEq, Prod.exists]
  constructor
  · rintro ⟨a, b, hab, c, d, hcd, rfl, rfl, rfl, rfl⟩
    exact ⟨hab, hcd⟩
  · rintro ⟨h1, h2⟩
    exact ⟨mi, iM, h1, s, iS, h2, rfl, rfl, rfl, rfl⟩

end Echse.Lemmas.RrHlyRfc
