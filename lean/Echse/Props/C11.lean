/-
  C11 — the per-user task map of the daemon model: `absMap s uid` is the owner of the task the table holds
  for `uid`.  Requests (`inject` / `eject` / `cmd_ical`) change the map only at the key they name, only for
  the owner they may act for, and say so in their replies; loop iterations, child exits and checkpoints only
  retire entries.

  `Inv` is the invariant of reachable states (`reachable_inv`).  `Known s p`: `compl_uid` accepts `p`.
  `effOwner s owner peer` is the owner `_inject_task1` settles on for a peer and an optional `OWNER` field
  (`none`: refused); `effOwner_root` / `effOwner_user` spell it out.
  `Fresh s` (section 5): the queue file of a user who is not marked dirty agrees with the table.
  Helper lemmas: Echse/Lemmas/Daemon*.lean, DaemonQueue*.lean.
-/
import Echse.Lemmas.DaemonQueue3
import Echse.Lemmas.Conn
namespace C11
open Echse.Daemon

/-- reachable states are well-formed -/
theorem reachable_inv (m : Nat) (ops : List Op) (hm : Mono 0 ops) : Inv (run { me := m } ops).1 :=
  Inv_run ops { me := m } (Inv_init m) hm

/-- … and so is the state a new daemon rebuilds from its queue files (`reload`: every task is injected with
the unknown peer and its recorded owner), given ascending streams -/
theorem reload_inv (files : List (Nat × List DTask)) (me now : Nat)
    (hs : ∀ f ∈ files, ∀ t ∈ f.2, t.occ.Pairwise (· ≤ ·)) : Inv (reload files me now) :=
  Inv_reload files me now hs

/-! ### 1. the map is well-formed -/

/-- `map_wellformed`: at most one in-table task per uid, in every reachable state -/
theorem map_wellformed (m : Nat) (ops : List Op) (hm : Mono 0 ops) :
    ∀ a ∈ (run { me := m } ops).1.tasks, ∀ b ∈ (run { me := m } ops).1.tasks,
      a.inTable = true → b.inTable = true → a.uid = b.uid → a = b :=
  (reachable_inv m ops hm).uidU

/-- the map is exactly the set of (uid, owner) pairs of the in-table tasks -/
theorem absMap_spec {s : St} (h : Inv s) (k : String) (o : Nat) :
    absMap s k = some o ↔ ∃ t ∈ s.tasks, t.inTable = true ∧ t.uid = k ∧ t.owner = o :=
  absMap_eq_some_iff h

/-- owners in the map are known users -/
theorem owners_known {s : St} (h : Inv s) {k : String} {o : Nat} (hm : absMap s k = some o) : Known s o := by
  obtain ⟨t, ht, _, _, ho⟩ := (absMap_eq_some_iff h).mp hm
  rw [← ho]; exact (h.tinv' ht).owner_ok

/-! ### 2. effect of requests, replies -/

/-- who `_inject_task1` acts for in the root daemon: a known peer acts for itself (an `OWNER` field must be
absent, unknown or name the peer); a peer that is given but unknown acts for nobody (`complUid s peer = e` with
`e ≠ notAUid` makes the peer known); only "no peer" (`notAUid`: the reload of the queue files) acts for the
known owner the `OWNER` field names -/
theorem effOwner_root {s : St} (hme : s.me = 0) (owner : Option Nat) (peer e : Nat) :
    effOwner s owner peer = some e ↔
      e ≠ notAUid ∧ ((complUid s peer = e ∧ (ownerC s owner = notAUid ∨ ownerC s owner = e)) ∨
        (peer = notAUid ∧ ownerC s owner = e)) :=
  effOwner_root' hme owner peer e

/-- … and in a user daemon (`me ≠ 0`): peer and `OWNER` field known and equal; or the peer known and equal to
`me`, the field unknown or absent; or no peer at all (reload) and the field names `me` -/
theorem effOwner_user {s : St} (hme : s.me ≠ 0) (owner : Option Nat) (peer e : Nat) :
    effOwner s owner peer = some e ↔
      e ≠ notAUid ∧ ((complUid s peer = e ∧ ownerC s owner = e) ∨
        (complUid s peer = e ∧ ownerC s owner = notAUid ∧ e = s.me) ∨
        (peer = notAUid ∧ ownerC s owner = e ∧ e = s.me)) :=
  effOwner_user' hme owner peer e

/-- the owner acted for is a known user -/
theorem effOwner_is_known {s : St} {owner : Option Nat} {peer e : Nat} (h : effOwner s owner peer = some e) :
    Known s e := effOwner_known h

/-- success of `inject`: it is a task with a usable UID, the request may act for some owner `e`, and the uid is
free or already `e`'s -/
theorem inject_success_iff (s : St) (uid : String) (owner : Option Nat) (ms dur : Nat) (occ : List Nat)
    (isTask : Bool) (peer : Nat) :
    (inject s uid owner ms dur occ isTask peer).2 = true ↔
      isTask = true ∧ uid ≠ "" ∧
        ∃ e, effOwner s owner peer = some e ∧ (absMap s uid = none ∨ absMap s uid = some e) :=
  inject_ok_iff uid owner ms dur occ isTask peer

/-- `empty_uid_refused`: a task without a usable UID (`!t->oid`) is turned down, whoever sends it and whatever
else it says; the state is left as it was (before the repair it was filed under the empty key) -/
theorem empty_uid_refused (s : St) (owner : Option Nat) (ms dur : Nat) (occ : List Nat) (isTask : Bool)
    (peer : Nat) : inject s "" owner ms dur occ isTask peer = (s, false) :=
  inject_empty s owner ms dur occ isTask peer

/-- … so no reachable state holds a record without a usable UID (in or out of the table) -/
theorem reachable_uid_ne (m : Nat) (ops : List Op) (hm : Mono 0 ops) :
    ∀ t ∈ (run { me := m } ops).1.tasks, t.uid ≠ "" :=
  (reachable_inv m ops hm).uidNe

/-- … nor is the empty key ever in the map -/
theorem reachable_no_empty_key (m : Nat) (ops : List Op) (hm : Mono 0 ops) :
    absMap (run { me := m } ops).1 "" = none := by
  cases hf : absMap (run { me := m } ops).1 "" with
  | none => rfl
  | some o =>
    obtain ⟨t, ht, _, hu, _⟩ := (absMap_eq_some_iff (reachable_inv m ops hm)).mp hf
    exact absurd hu (reachable_uid_ne m ops hm t ht)

/-- … nor does a new daemon take one over from its queue files -/
theorem reload_uid_ne (files : List (Nat × List DTask)) (me now : Nat)
    (hs : ∀ f ∈ files, ∀ t ∈ f.2, t.occ.Pairwise (· ≤ ·)) :
    ∀ t ∈ (reload files me now).tasks, t.uid ≠ "" :=
  (reload_inv files me now hs).uidNe

/-- `add_new`: exactly the key `uid` is added, owned by `e` (`hu`: the UID is a usable one — see
`empty_uid_refused`) -/
theorem add_new {s : St} (h : Inv s) (uid : String) (owner : Option Nat) (ms dur : Nat) (occ : List Nat)
    (peer e : Nat) (hs : occ.Pairwise (· ≤ ·)) (he : effOwner s owner peer = some e)
    (hnew : absMap s uid = none) (hu : uid ≠ "") :
    (inject s uid owner ms dur occ true peer).2 = true ∧
    ∀ k, absMap (inject s uid owner ms dur occ true peer).1 k = if k = uid then some e else absMap s k :=
  inject_add_new h uid owner ms dur occ peer e hs he hnew hu

/-- `replace_own`: the map is confirmed, the entry carries the new limit and stream -/
theorem replace_own {s : St} (h : Inv s) (uid : String) (owner : Option Nat) (ms dur : Nat)
    (occ : List Nat) (peer e : Nat) (hs : occ.Pairwise (· ≤ ·)) (he : effOwner s owner peer = some e)
    (hown : absMap s uid = some e) :
    (inject s uid owner ms dur occ true peer).2 = true ∧
    (∀ k, absMap (inject s uid owner ms dur occ true peer).1 k = absMap s k) ∧
    ∃ t', (inject s uid owner ms dur occ true peer).1.find uid = some t' ∧ t'.maxSimul = ms ∧
      t'.occ = occ.dropWhile (· < s.now) :=
  inject_replace_own h uid owner ms dur occ peer e hs he hown

/-- a refused `inject` changes nothing at all -/
theorem inject_refused (s : St) (uid : String) (owner : Option Nat) (ms dur : Nat) (occ : List Nat)
    (isTask : Bool) (peer : Nat) (hf : (inject s uid owner ms dur occ isTask peer).2 = false) :
    (inject s uid owner ms dur occ isTask peer).1 = s :=
  inject_fail uid owner ms dur occ isTask peer hf

/-- success of `eject`: the uid is in the map and the peer's -/
theorem eject_success_iff (s : St) (uid : String) (peer : Nat) :
    (eject s uid peer).2 = true ↔ absMap s uid = some peer := eject_ok_iff uid peer

/-- `cancel_own`: exactly the key `uid` is removed -/
theorem cancel_own {s : St} (h : Inv s) (uid : String) (peer : Nat) (hown : absMap s uid = some peer) :
    (eject s uid peer).2 = true ∧
    ∀ k, absMap (eject s uid peer).1 k = if k = uid then none else absMap s k :=
  eject_cancel_own h uid peer hown

/-- a refused `eject` changes nothing at all -/
theorem eject_refused (s : St) (uid : String) (peer : Nat) (hf : (eject s uid peer).2 = false) :
    (eject s uid peer).1 = s := eject_fail uid peer hf

/-- `reply_iff`, shape: `cmd_ical` returns one reply per instruction, in order, each naming its uid -/
theorem replies_shape (s : St) (peer : Nat) (ins : List Instr) :
    (cmdIcal s peer ins).2.length = ins.length ∧
    ∀ n (hn : n < ins.length), (cmdIcal s peer ins).2[n]? =
      some (instrUid ins[n], (applyInstr (applyAll s peer (ins.take n)).1 peer ins[n]).2) := by
  rw [cmdIcal_replies]
  exact ⟨applyAll_length peer ins s, fun n hn => applyAll_nth peer ins s n hn⟩

/-- `reply_iff`, content: the reply to an instruction (applied to the state `s'` its predecessors left) is
`true` iff the `inject` / `eject` it stands for succeeds there; otherwise the state is untouched -/
theorem reply_iff (s' : St) (peer : Nat) (i : Instr) :
    ((applyInstr s' peer i).2 = true ↔
      match i with
      | .sched uid owner _ _ _ isTask =>
        isTask = true ∧ uid ≠ "" ∧
          ∃ e, effOwner s' owner peer = some e ∧ (absMap s' uid = none ∨ absMap s' uid = some e)
      | .cancel uid => absMap s' uid = some peer) ∧
    ((applyInstr s' peer i).2 = false → (applyInstr s' peer i).1 = s') :=
  ⟨applyInstr_ok_iff s' peer i, applyInstr_fail s' peer i⟩

/-! ### 3. isolation -/

/-- a known peer acts for nobody but itself, whatever `OWNER` field an instruction carries (instructions
naming another user fail) -/
theorem known_peer_acts_for_itself {s : St} {p : Nat} (hk : Known s p) (owner : Option Nat) {e : Nat}
    (he : effOwner s owner p = some e) : e = p := effOwner_known_peer hk he

/-- a socket peer, known or not, acts for nobody but itself -/
theorem peer_acts_for_itself {s : St} {p : Nat} (hp : p ≠ notAUid) (owner : Option Nat) {e : Nat}
    (he : effOwner s owner p = some e) : e = p := effOwner_peer hp he

/-- a peer that is given but not in the password database can schedule nothing, whatever `OWNER` field the
instruction carries: the request is refused and the state untouched -/
theorem unknown_peer_cannot_inject {s : St} {p : Nat} (hp : p ≠ notAUid) (hk : ¬ Known s p) (uid : String)
    (owner : Option Nat) (ms dur : Nat) (occ : List Nat) (isTask : Bool) :
    inject s uid owner ms dur occ isTask p = (s, false) :=
  inject_unknown_peer hp hk uid owner ms dur occ isTask

/-- `isolation`, records: a request from any socket peer `p`, known or not, neither adds, removes nor changes
(`occ`, `maxSimul`, …) any record owned by somebody else -/
theorem isolation_records {s : St} (h : Inv s) {p : Nat} (hp : p ≠ notAUid) (ins : List Instr)
    (hs : ∀ i ∈ ins, instrSorted i) (t : DTask) (hne : t.owner ≠ p) :
    t ∈ (cmdIcal s p ins).1.tasks ↔ t ∈ s.tasks := cmdIcal_others h hp ins hs t hne

/-- `isolation`, map: … nor the map at any key owned by somebody else, nor does it create such a key -/
theorem isolation {s : St} (h : Inv s) {p : Nat} (hp : p ≠ notAUid) (ins : List Instr)
    (hs : ∀ i ∈ ins, instrSorted i) (k : String) (o : Nat) (hne : o ≠ p) :
    absMap (cmdIcal s p ins).1 k = some o ↔ absMap s k = some o :=
  cmdIcal_absMap_others h hp ins hs k o hne

/-- `isolation`, any peer (also "no peer": the root daemon reloading its queue): one instruction touches only
records of the owner it acts for — the effective owner of a `sched`, the peer itself for a `cancel` -/
theorem isolation_instr {s : St} (h : Inv s) (peer : Nat) (i : Instr) (t : DTask)
    (hne : ∀ e, actOwner s peer i = some e → t.owner ≠ e) :
    t ∈ (applyInstr s peer i).1.tasks ↔ t ∈ s.tasks := applyInstr_others h peer i hne

/-- an unknown peer cannot cancel anything -/
theorem unknown_peer_cannot_cancel {s : St} (h : Inv s) {p : Nat} (hk : ¬ Known s p) (uid : String) :
    (eject s uid p).2 = false := eject_unknown_fails h hk uid

/-- `isolation`, running: every spawn runs as the owner the map records for its uid -/
theorem spawn_runs_as_owner {s : St} {now : Nat} {ko : Option Nat} (h : Inv s) {sp : Spawn}
    (hsp : sp ∈ (iter s now ko).2) : absMap s sp.uid = some sp.asUid := spawn_asUid h hsp

/-- the HTTP listing: a known peer other than root is refused (403) or shown its own tasks only, whatever
uid the URL names -/
theorem http_isolation {s : St} (h : Inv s) {p : Nat} (hk : Known s p) (hp : p ≠ 0) (urlUid : Option Nat)
    (tuids : List String) :
    httpSched s p urlUid tuids = (403, []) ∨
    ((httpSched s p urlUid tuids).1 = 200 ∧ ∀ uid ∈ (httpSched s p urlUid tuids).2, absMap s uid = some p) := by
  rcases httpSched_own hk hp urlUid tuids with h1 | ⟨h1, h2⟩
  · exact Or.inl h1
  · refine Or.inr ⟨h1, fun uid hu => ?_⟩
    obtain ⟨t, ht, hi, ho, hu'⟩ := h2 uid hu
    exact (absMap_eq_some_iff h).mpr ⟨t, ht, hi, hu', ho⟩

/-- … and is shown all of them when it passes the gate without `tuid=` parameters -/
theorem http_complete {s : St} (h : Inv s) {p : Nat} (hk : Known s p) (hp : p ≠ 0) {urlUid : Option Nat}
    (hg : p &&& urlUid.getD notAUid = p) (uid : String) :
    uid ∈ (httpSched s p urlUid []).2 ↔ absMap s uid = some p := by
  rw [httpSched_passed hk hp hg]
  show uid ∈ schedView s p [] ↔ _
  exact ⟨mem_schedView h, schedView_all h⟩

/-- `root_listing`, `GET [/u/<v>]/sched`: root (peer 0, known to the daemon) is never refused; it is shown the
tasks of `rootView urlUid`: the user the URL names, and its own when the URL names none (before the repair:
nobody's) -/
theorem http_root {s : St} (hk : Known s 0) (urlUid : Option Nat) (tuids : List String) :
    httpSched s 0 urlUid tuids = (200, schedView s (rootView urlUid) tuids) := httpSched_root hk urlUid tuids

/-- `GET /sched` from root: exactly root's own tasks -/
theorem http_root_own {s : St} (h : Inv s) (hk : Known s 0) (uid : String) :
    uid ∈ (httpSched s 0 none []).2 ↔ absMap s uid = some 0 := by
  rw [httpSched_root hk, rootView_none]
  show uid ∈ schedView s 0 [] ↔ _
  exact ⟨mem_schedView h, schedView_all h⟩

/-- `GET /u/<v>/sched` from root: exactly `v`'s tasks — root may look at everybody's -/
theorem http_root_url {s : St} (h : Inv s) (hk : Known s 0) {v : Nat} (hv : v ≠ notAUid) (uid : String) :
    uid ∈ (httpSched s 0 (some v) []).2 ↔ absMap s uid = some v := by
  rw [httpSched_root hk, rootView_some hv]
  show uid ∈ schedView s v [] ↔ _
  exact ⟨mem_schedView h, schedView_all h⟩

/-! ### 4. iterations, exits and checkpoints preserve ownership -/

/-- `ticks_preserve_ownership`: an operation that is not a request never changes the owner of an entry and
never adds one — it only retires entries -/
theorem ticks_preserve_ownership {s : St} (h : Inv s) (op : Op) (hop : OpOk s op) (hnr : op.isReq = false)
    {k : String} {o : Nat} (hm : absMap (step s op).1 k = some o) : absMap s k = some o :=
  absMap_step_nonreq h op hop hnr hm

/-! ### 5. the queue view -/

/-- `GET /queue` changes the state at most by running a checkpoint: the states reachable with such requests are
states reachable with `Op.chk` -/
theorem queue_state (s : St) (p : Nat) (urlUid : Option Nat) :
    (httpQueue s p urlUid).1 = s ∨ (httpQueue s p urlUid).1 = chkpnt s := httpQueue_state s p urlUid

/-- `Fresh` (one queue file per user; unless marks were dropped, the file of a user who is not marked lists only
tasks the table holds for that user, and every task of that user still to run) holds in every state reached by
a history whose requests come from socket peers (`SockPeers`: no request carries `notAUid`, the daemon's value
for "no peer"; see the example below for why this is needed): a request marks its peer and — `isolation_records`
— changes only that peer's tasks; a retirement marks the owner; `chkpnt` rewrites the marked users' files, and
after an overflow all owners' files, removing the others -/
theorem reachable_fresh (m : Nat) (ops : List Op) (hm : Mono 0 ops) (hsp : SockPeers ops) :
    Fresh (run { me := m } ops).1 :=
  Fresh_run ops { me := m } (Inv_init m) (Fresh_init m) hm hsp

/-- … preserved by every single operation -/
theorem fresh_step {s : St} (h : Inv s) (hf : Fresh s) (op : Op) (hop : OpOk s op)
    (hp : ∀ p ins, op = .req p ins → p ≠ notAUid) : Fresh (step s op).1 := Fresh_step h op hop hp hf

/-- `queue_isolation`: a known peer other than root is refused (403), or answered 200 / 404 with a body that
lists tasks of its own only, whatever uid the URL names -/
theorem queue_isolation {s : St} (h : Inv s) (hf : Fresh s) {p : Nat} (hk : Known s p) (hp : p ≠ 0)
    (urlUid : Option Nat) :
    (httpQueue s p urlUid).2 = (403, []) ∨
    (((httpQueue s p urlUid).2.1 = 200 ∨ (httpQueue s p urlUid).2.1 = 404) ∧
      ∀ uid ∈ (httpQueue s p urlUid).2.2, absMap s uid = some p) := httpQueue_own h hf hk hp urlUid

/-- `queue_complete`, `GET /queue`: every task of the peer that is still to run is listed, and the answer is 200
when there is one.  (`p < 2 ^ 32`: the gate is the bit test `p &&& 0xFFFFFFFF = p`; `uid_t` has 32 bits.) -/
theorem queue_complete {s : St} (hf : Fresh s) {p : Nat} (hk : Known s p) (hp : p ≠ 0) (h32 : p < 2 ^ 32) :
    (∀ t ∈ tasksOf s p, t.uid ∈ (httpQueue s p none).2.2) ∧
    (tasksOf s p ≠ [] → (httpQueue s p none).2.1 = 200) := httpQueue_all hf hk hp (gate_none h32)

/-- `queue_complete`, `GET /u/<p>/queue` -/
theorem queue_complete_url {s : St} (hf : Fresh s) {p : Nat} (hk : Known s p) (hp : p ≠ 0) :
    (∀ t ∈ tasksOf s p, t.uid ∈ (httpQueue s p (some p)).2.2) ∧
    (tasksOf s p ≠ [] → (httpQueue s p (some p)).2.1 = 200) := httpQueue_all hf hk hp (gate_self p)

/-- `root_listing`, `GET /queue` from root (peer 0, known to the daemon): never refused; after the conditional
checkpoint for user 0, the queue file of user 0 — root's own (before the repair: that of `notAUid`, i.e. 404) -/
theorem queue_root {s : St} (hk : Known s 0) :
    httpQueue s 0 none = match (queueSt s 0).files.find? (·.1 == 0) with
      | some f => (queueSt s 0, 200, f.2.map (·.uid))
      | none => (queueSt s 0, 404, []) := by
  rw [httpQueue_root hk, rootView_none]; rfl

/-- `GET /u/<v>/queue` from root: the queue file of `v` after the conditional checkpoint for `v` — root may look at
everybody's -/
theorem queue_root_url {s : St} (hk : Known s 0) {v : Nat} (hv : v ≠ notAUid) :
    httpQueue s 0 (some v) = match (queueSt s v).files.find? (·.1 == v) with
      | some f => (queueSt s v, 200, f.2.map (·.uid))
      | none => (queueSt s v, 404, []) := by
  rw [httpQueue_root hk, rootView_some hv]; rfl

/-- … in one: root is shown the queue of `rootView urlUid` (`/u/4294967295/` counts as no uid) -/
theorem queue_root_view {s : St} (hk : Known s 0) (urlUid : Option Nat) :
    httpQueue s 0 urlUid = queueView s (rootView urlUid) := httpQueue_root hk urlUid

/-- what root is shown of user `u = rootView urlUid` is `u`'s and nobody else's: 200 / 404, every uid listed is in
the map as `u`'s, every task of `u` still to run is listed, and the answer is 200 when there is one -/
theorem queue_root_exact {s : St} (h : Inv s) (hf : Fresh s) (hk : Known s 0) (urlUid : Option Nat) :
    ((httpQueue s 0 urlUid).2.1 = 200 ∨ (httpQueue s 0 urlUid).2.1 = 404) ∧
    (∀ uid ∈ (httpQueue s 0 urlUid).2.2, absMap s uid = some (rootView urlUid)) ∧
    (∀ t ∈ tasksOf s (rootView urlUid), t.uid ∈ (httpQueue s 0 urlUid).2.2) ∧
    (tasksOf s (rootView urlUid) ≠ [] → (httpQueue s 0 urlUid).2.1 = 200) := by
  rw [httpQueue_root hk]
  exact ⟨(queueView_own h hf _).1, (queueView_own h hf _).2, (queueView_all hf _).1, (queueView_all hf _).2⟩

/-! ### concrete histories -/

/-- root is known to the daemon of the next example (the hypothesis of the root theorems) -/
example : Known (run { me := 0 } [.req 0 [.sched "r" none 63 0 [10] true],
    .req 1001 [.sched "a" none 63 0 [20] true, .sched "" none 63 0 [20] true]]).1 0 := ⟨by decide, by decide⟩

/-- root and user 1001 each schedule a task: `GET /queue` and `GET /sched` from root show root's own,
`/u/1001/…` those of 1001, `/u/1002/queue` (no file) 404; an instruction without a usable UID is answered
`false` and leaves nothing behind -/
example :
    (run { me := 0 } [.req 0 [.sched "r" none 63 0 [10] true],
                      .req 1001 [.sched "a" none 63 0 [20] true, .sched "" none 63 0 [20] true]]).2.2
      = [("r", true), ("a", true), ("", false)] ∧
    (httpQueue (run { me := 0 } [.req 0 [.sched "r" none 63 0 [10] true],
                                 .req 1001 [.sched "a" none 63 0 [20] true, .sched "" none 63 0 [20] true]]).1
      0 none).2 = (200, ["r"]) ∧
    (httpQueue (run { me := 0 } [.req 0 [.sched "r" none 63 0 [10] true],
                                 .req 1001 [.sched "a" none 63 0 [20] true, .sched "" none 63 0 [20] true]]).1
      0 (some 1001)).2 = (200, ["a"]) ∧
    (httpQueue (run { me := 0 } [.req 0 [.sched "r" none 63 0 [10] true],
                                 .req 1001 [.sched "a" none 63 0 [20] true, .sched "" none 63 0 [20] true]]).1
      0 (some 1002)).2 = (404, []) ∧
    httpSched (run { me := 0 } [.req 0 [.sched "r" none 63 0 [10] true],
                                .req 1001 [.sched "a" none 63 0 [20] true, .sched "" none 63 0 [20] true]]).1
      0 none [] = (200, ["r"]) ∧
    httpSched (run { me := 0 } [.req 0 [.sched "r" none 63 0 [10] true],
                                .req 1001 [.sched "a" none 63 0 [20] true, .sched "" none 63 0 [20] true]]).1
      0 (some 1001) [] = (200, ["a"]) := by decide

/-- `add_new` and `http_complete` have instances: user 1001 adds "a" to the empty map; 1001 passes the gate
without a uid in the URL -/
example : effOwner ({ me := 0 } : St) none 1001 = some 1001 ∧ absMap ({ me := 0 } : St) "a" = none ∧ "a" ≠ "" ∧
    Known ({ me := 0 } : St) 1001 ∧ 1001 &&& (none : Option Nat).getD notAUid = 1001 :=
  ⟨by decide, by decide, by decide, ⟨by decide, by decide⟩, by decide⟩

/-- a foreign cancel: reply `false`, map unchanged; the owner's cancel succeeds -/
example :
    (step (run { me := 0 } [.req 1001 [.sched "j" none 63 0 [10] true]]).1 (.req 1002 [.cancel "j"])).2.2
      = [("j", false)] ∧
    absMap (step (run { me := 0 } [.req 1001 [.sched "j" none 63 0 [10] true]]).1 (.req 1002 [.cancel "j"])).1 "j"
      = some 1001 ∧
    (step (run { me := 0 } [.req 1001 [.sched "j" none 63 0 [10] true]]).1 (.req 1001 [.cancel "j"])).2.2
      = [("j", true)] ∧
    absMap (step (run { me := 0 } [.req 1001 [.sched "j" none 63 0 [10] true]]).1 (.req 1001 [.cancel "j"])).1 "j"
      = none := by decide

/-- an `OWNER` field naming another user, a foreign replacement, an unknown peer: all refused -/
example :
    (run { me := 0 } [.req 1001 [.sched "j" none 63 0 [10] true],
                      .req 1002 [.sched "k" (some 1001) 63 0 [10] true, .sched "j" none 1 0 [20] true],
                      .req 4711 [.sched "l" none 63 0 [10] true, .cancel "j"]]).2.2
      = [("j", true), ("k", false), ("j", false), ("l", false), ("j", false)] := by decide

/-- a peer the password database does not know, naming root in the `OWNER` field: refused, nothing scheduled
(before the repair of `_inject_task1` this task was accepted and would have run as root) -/
example :
    (run { me := 0 } [.req 1009 [.sched "evil" (some 0) 63 0 [10] true]]).2.2 = [("evil", false)] ∧
    (run { me := 0 } [.req 1009 [.sched "evil" (some 0) 63 0 [10] true]]).1.tasks = [] := by decide

/-- a user daemon (`me = 1001`) accepts a task of another known user when the `OWNER` field names that
user (`effOwner_user`, first alternative), and would run it as that user; without the field it refuses -/
example :
    (run { me := 1001 } [.req 1002 [.sched "j" (some 1002) 63 0 [10] true, .sched "k" none 63 0 [10] true],
                         .tick 15]).2.2 = [("j", true), ("k", false)] ∧
    ((run { me := 1001 } [.req 1002 [.sched "j" (some 1002) 63 0 [10] true], .tick 15]).2.1.map
      fun p => (p.2.uid, p.2.asUid)) = [("j", 1002)] := by decide

/-- the HTTP gate is a bit test: user 1001 asking for `/u/1003/sched` (1001 &&& 1003 = 1001) is not refused,
but is shown its own tasks only -/
example :
    httpSched (run { me := 0 } [.req 1001 [.sched "a" none 63 0 [10] true],
                                .req 1003 [.sched "b" none 63 0 [10] true]]).1 1001 (some 1003) []
      = (200, ["a"]) := by decide

/-- the queue view: two users, a checkpoint, a further request of 1001 (marked again): `GET /queue` runs the
checkpoint first and lists the new task; 1002 sees its own file; `/u/1001/queue` is refused to 1002 -/
example :
    (httpQueue (run { me := 0 } [.req 1001 [.sched "a" none 63 0 [10] true],
                                 .req 1002 [.sched "b" none 63 0 [20] true], .chk,
                                 .req 1001 [.sched "c" none 63 0 [30] true]]).1 1001 none).2 = (200, ["a", "c"]) ∧
    (httpQueue (run { me := 0 } [.req 1001 [.sched "a" none 63 0 [10] true],
                                 .req 1002 [.sched "b" none 63 0 [20] true], .chk,
                                 .req 1001 [.sched "c" none 63 0 [30] true]]).1 1002 none).2 = (200, ["b"]) ∧
    (httpQueue (run { me := 0 } [.req 1001 [.sched "a" none 63 0 [10] true],
                                 .req 1002 [.sched "b" none 63 0 [20] true], .chk,
                                 .req 1001 [.sched "c" none 63 0 [30] true]]).1 1002 (some 1001)).2 = (403, []) := by
  decide

/-- why `reachable_fresh` asks for socket peers: a "request" carrying `notAUid` acts for the owner its `OWNER`
field names (that is what `reload` does) but marks `notAUid`, not that owner; user 1001 then has a task and
no file, and is not marked: `GET /queue` answers 404 -/
example :
    (httpQueue (run { me := 0 } [.req notAUid [.sched "x" (some 1001) 63 0 [10] true]]).1 1001 none).2 = (404, []) ∧
    ((tasksOf (run { me := 0 } [.req notAUid [.sched "x" (some 1001) 63 0 [10] true]]).1 1001).map (·.uid)) = ["x"] ∧
    (run { me := 0 } [.req notAUid [.sched "x" (some 1001) 63 0 [10] true]]).1.dirty = [notAUid] := by decide

example : ¬ Fresh (run { me := 0 } [.req notAUid [.sched "x" (some 1001) 63 0 [10] true]]).1 := by
  intro hf
  have hB := (hf.2 (by decide) 1001 (by decide)).2
  have hne : (tasksOf (run { me := 0 } [.req notAUid [.sched "x" (some 1001) 63 0 [10] true]]).1 1001).isEmpty
      = false := by decide
  have hfe : (run { me := 0 } [.req notAUid [.sched "x" (some 1001) 63 0 [10] true]]).1.files.isEmpty = true := by
    decide
  rw [List.isEmpty_iff] at hfe
  cases hl : tasksOf (run { me := 0 } [.req notAUid [.sched "x" (some 1001) 63 0 [10] true]]).1 1001 with
  | nil => rw [hl] at hne; cases hne
  | cons t r =>
    obtain ⟨f, hfm, _⟩ := hB t (by rw [hl]; exact List.mem_cons_self)
    rw [hfe] at hfm
    cases hfm

/-! ### 6. connection slots (make_conn / free_conn) -/

section ConnSlots
open Echse.Conn

/-- the slot `make_conn` hands out was free, is the lowest free one, is marked in use, and nothing else changes -/
theorem conn_slot_spec (free i free' : Nat) (h : makeConn free = (some i, free')) :
    i < 64 ∧ free.testBit i = true ∧ (∀ j, j < i → free.testBit j = false) ∧ free'.testBit i = false ∧
    ∀ j, j ≠ i → free'.testBit j = free.testBit j :=
  makeConn_some free i free' h

/-- a client is turned away only when all 64 slots are in use -/
theorem conn_none_iff (free : Nat) : (makeConn free).1 = none ↔ ∀ j, j < 64 → free.testBit j = false :=
  makeConn_none_iff free

/-- … and then the map is left as it was -/
theorem conn_none_map (free : Nat) (h : (makeConn free).1 = none) : (makeConn free).2 = free :=
  makeConn_none_snd free h

/-- `free_conn` toggles the bit of the slot and nothing else -/
theorem free_conn_spec (free i j : Nat) (hi : i < 64) :
    (freeConn free i).testBit j = if j = i then !free.testBit i else free.testBit j :=
  freeConn_testBit free i j hi

/-- … and refuses slots out of range -/
theorem free_conn_out_of_range (free i : Nat) (hi : i ≥ 64) : freeConn free i = free :=
  freeConn_out_of_range free i hi

/-- over any history of connects and hang-ups (`crun`, Echse/Lemmas/Conn.lean): no two live connections ever share
a slot, the slots are in range, and the map is exactly the complement of the live set -/
theorem slots_distinct (evs : List CEv) :
    (crun evs).live.Nodup ∧ (∀ i ∈ (crun evs).live, i < 64) ∧
    (∀ j, j < 64 → ((crun evs).free.testBit j = true ↔ j ∉ (crun evs).live)) :=
  CInv_crun evs

/-- a client is turned away exactly when 64 connections are alive -/
theorem turned_away_only_when_full (evs : List CEv) :
    (makeConn (crun evs).free).1 = none ↔ (crun evs).live.length = 64 :=
  CInv_full_iff (crun evs) (CInv_crun evs)

/-- the first client gets slot 0 -/
example : (makeConn allFree).1 = some 0 := by decide

/-- with the 32 lower slots taken the next slot is 32 (the C code used to hand out slot 0 again), and then 33 -/
example : (makeConn (2^64 - 2^32)).1 = some 32 ∧ (makeConn (2^64 - 2^32)).2 = 2^64 - 2^33 ∧
    (makeConn (2^64 - 2^33)).1 = some 33 := by decide

/-- 32 connects in a row take slots 0 … 31, the 33rd takes 32 -/
example : (crun (List.replicate 33 .connect)).live.head? = some 32 ∧
    (crun (List.replicate 33 .connect)).live.length = 33 := by decide +kernel

/-- with all 64 taken the 65th client is turned away; after slot 40 hangs up it is handed out again -/
example : (crun (List.replicate 65 .connect)).live.length = 64 ∧
    (crun (List.replicate 65 .connect ++ [.hangup 40, .connect])).live.head? = some 40 := by decide +kernel

end ConnSlots

end C11
