/-
  C10 lemmas, part 18: `feed` as a fold; the accumulator of `drain`; prefixes of good runs.
-/
import Echse.Lemmas.Ical17
namespace Echse.Ical

def feedStep (acc : Option Parser × List Instr) (ch : List Byte) : Option Parser × List Instr :=
  if ch.isEmpty ∧ acc.1.isNone then acc else
  let p0 : Parser := match acc.1 with
    | some q => { q with buf := ch, bix := 0 }
    | none => { buf := ch }
  (some (drain (ch.length + 2) p0 []).1, acc.2 ++ (drain (ch.length + 2) p0 []).2)

def feedEnd (s : Option Parser × List Instr) : List Instr × List (List Byte) :=
  match s.1 with
  | none => (s.2, [])
  | some q => lastRes (pullEv (q.buf.length + 2) q) s.2

theorem feed_eq (chunks : List (List Byte)) : feed chunks = feedEnd (chunks.foldl feedStep (none, [])) := by
  rfl

/-- `drain` only appends to its accumulator -/
theorem drain_acc : ∀ (f : Nat) (p : Parser) (a b : List Instr),
    drain f p (a ++ b) = ((drain f p b).1, a ++ (drain f p b).2)
  | 0, p, a, b => by rw [drain_zero, drain_zero]
  | f+1, p, a, b => by
    rw [drain_succ, drain_succ]
    cases hx : (pullEv (p.buf.length + 2) p).2 with
    | need => rfl
    | eop => rfl
    | ve ls =>
      dsimp only
      rw [List.append_assoc]
      exact drain_acc f _ a _

theorem drain_nil_acc (f : Nat) (p : Parser) (a : List Instr) :
    (drain f p a).1 = (drain f p []).1 ∧ (drain f p a).2 = a ++ (drain f p []).2 := by
  have := drain_acc f p a []
  rw [List.append_nil] at this
  rw [this]; exact ⟨rfl, rfl⟩

theorem isFold_zero : isFold 0 = false := by decide

theorem good_prefix (s : Sc) (x y : List Byte) (h : Good s (x ++ y)) : Good s x := by
  induction x generalizing s with
  | nil =>
    rw [good_nil]
    exact good_head s ([] ++ y) h
  | cons c x ih =>
    rw [List.cons_append, good_cons] at h
    rw [good_cons]
    exact ⟨h.1, ih _ h.2⟩

end Echse.Ical
