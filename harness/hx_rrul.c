/* line-protocol harness for the inner functions of src/evrrul.c (C17, C01, C09, C16):
 * evrrul.c is #included unmodified so that its static helpers can be called one by one.
 * Linked against the library objects of the scratch copy (without evrrul.o).
 *
 *   y.easter Y                 -> easter_get_yday(Y)
 *   y.wday Y M D               -> ymd_get_wday
 *   y.ndom Y M                 -> __get_ndom
 *   y.ydmd Y DOY               -> yd_to_md: "m d"
 *   y.mcnt Y M W / y.ymcw Y M C W / y.ycw Y C W / y.ywd Y W D / y.isowk Y
 *   y.shift Y SH c,c,…         -> shift(): the three candidate sets "same|previous|next"
 *   y.eastr Y offs | mon | dom | WDMASK -> fill_yly_eastr(): candidate set
 *   y.clrposs cands | poss     -> clr_poss()
 *   y.cand FN Y … (see below)  -> one of the candidate builders
 */
#include <stdio.h>
#include <stdlib.h>
#include <string.h>
#include <stdint.h>
#include "evrrul.c"

static void p383(const bitint383_t *b)
{
	int v, first = 1;
	for (bitint_iter_t i = 0; (v = bi383_next(&i, b), i);) { printf("%s%d", first ? "" : ",", v); first = 0; }
	if (first) putchar('-');
}

static void r383(bitint383_t *b, char *s)
{
	if (!s || *s == '-' && !s[1]) return;
	for (char *p = strtok(s, ","); p; p = strtok(NULL, ",")) ass_bi383(b, atoi(p));
}

static void r447(bitint447_t *b, char *s)
{
	if (!s || *s == '-' && !s[1]) return;
	for (char *p = strtok(s, ","); p; p = strtok(NULL, ",")) ass_bi447(b, atoi(p));
}

/* split "a | b | c" into fields (trimmed) */
static int fields(char *s, char **f, int max)
{
	int n = 0;
	while (n < max) {
		while (*s == ' ') s++;
		f[n++] = s;
		char *bar = strchr(s, '|');
		if (!bar) break;
		*bar = 0;
		s = bar + 1;
	}
	for (int i = 0; i < n; i++) {
		char *e = f[i] + strlen(f[i]);
		while (e > f[i] && e[-1] == ' ') *--e = 0;
	}
	return n;
}

int main(void)
{
	static char line[1 << 16];
	setvbuf(stdout, NULL, _IOLBF, 0);
	while (fgets(line, sizeof(line), stdin)) {
		line[strcspn(line, "\r\n")] = 0;
		char *sp = strchr(line, ' ');
		char *arg = sp ? sp + 1 : line + strlen(line);
		if (sp) *sp = 0;
		unsigned a = 0, b = 0, c = 0;
		int i = 0, j = 0;
		if (!strcmp(line, "y.easter") && sscanf(arg, "%u", &a) == 1) {
			printf("%u\n", easter_get_yday(a));
		} else if (!strcmp(line, "y.wday") && sscanf(arg, "%u %u %u", &a, &b, &c) == 3) {
			printf("%u\n", (unsigned)ymd_get_wday(a, b, c));
		} else if (!strcmp(line, "y.ndom") && sscanf(arg, "%u %u", &a, &b) == 2) {
			printf("%u\n", __get_ndom(a, b));
		} else if (!strcmp(line, "y.ydmd") && sscanf(arg, "%u %d", &a, &i) == 2) {
			struct md_s md = yd_to_md(a, i);
			printf("%u %u\n", md.m, md.d);
		} else if (!strcmp(line, "y.mcnt") && sscanf(arg, "%u %u %u", &a, &b, &c) == 3) {
			printf("%d\n", __get_mcnt(a, b, (echs_wday_t)c));
		} else if (!strcmp(line, "y.ymcw") && sscanf(arg, "%u %u %d %u", &a, &b, &i, &c) == 4) {
			printf("%u\n", ymcw_get_dom(a, b, i, (echs_wday_t)c));
		} else if (!strcmp(line, "y.ycw") && sscanf(arg, "%u %d %u", &a, &i, &c) == 3) {
			printf("%u\n", ycw_get_yday(a, i, (echs_wday_t)c));
		} else if (!strcmp(line, "y.ywd") && sscanf(arg, "%u %d %d", &a, &i, &j) == 3) {
			printf("%u\n", ywd_get_yday(a, i, j));
		} else if (!strcmp(line, "y.isowk") && sscanf(arg, "%u", &a) == 1) {
			printf("%u\n", get_isowk(a));
		} else if (!strcmp(line, "y.shift")) {
			int sh; char cs[4096] = "";
			if (sscanf(arg, "%u %d %4095s", &a, &sh, cs) < 2) { puts("bad-op"); continue; }
			bitint383_t cand[3U];
			memset(cand, 0, sizeof(cand));
			r383(cand, cs);
			shift(cand, SCALE_GREGORIAN, a, (echs_shift_t)sh);
			p383(&cand[0]); putchar('|'); p383(&cand[1]); putchar('|'); p383(&cand[2]); putchar('\n');
		} else if (!strcmp(line, "y.eastr")) {
			char *f[5]; char *ys = arg; char *rest = strchr(arg, ' ');
			if (!rest) { puts("bad-op"); continue; }
			*rest++ = 0; a = strtoul(ys, NULL, 10);
			int nf = fields(rest, f, 4);
			if (nf < 4) { puts("bad-op"); continue; }
			bitint383_t cand, offs; bituint31_t mon = 0; bitint31_t dom = {0};
			memset(&cand, 0, sizeof(cand)); memset(&offs, 0, sizeof(offs));
			r383(&offs, f[0]);
			if (strcmp(f[1], "-")) for (char *p = strtok(f[1], ","); p; p = strtok(NULL, ",")) mon = ass_bui31(mon, atoi(p));
			if (strcmp(f[2], "-")) for (char *p = strtok(f[2], ","); p; p = strtok(NULL, ",")) dom = ass_bi31(dom, atoi(p));
			fill_yly_eastr(&cand, a, &offs, mon, dom, (uint8_t)atoi(f[3]));
			p383(&cand); putchar('\n');
		} else if (!strcmp(line, "y.clrposs")) {
			char *f[3];
			if (fields(arg, f, 2) < 2) { puts("bad-op"); continue; }
			bitint383_t cand, poss;
			memset(&cand, 0, sizeof(cand)); memset(&poss, 0, sizeof(poss));
			r383(&cand, f[0]); r383(&poss, f[1]);
			clr_poss(&cand, &poss);
			p383(&cand); putchar('\n');
		} else if (!strcmp(line, "y.cand")) {
			/* y.cand ywd Y wk | dow ;  ymcw Y dow | months ;  mdall Y months | WDMASK ;  ycw Y dow ;  ydall Y WDMASK ;
			 * yd Y doy | dow | WDMASK | MP ;  ymdallm Y doms | dow | WDMASK ;  ymdalld Y months | WDMASK ;
			 * ymd Y months | doms | dow | WDMASK ;  lim Y cands | months | doms | wk | doy | pdow */
			char fn[32]; int off = 0;
			if (sscanf(arg, "%31s %u %n", fn, &a, &off) < 2) { puts("bad-op"); continue; }
			char *f[8]; int nf = fields(arg + off, f, 6);
			bitint383_t cand; memset(&cand, 0, sizeof(cand));
			unsigned m[12]; size_t nm = 0; int d[62]; size_t nd = 0;
			if (!strcmp(fn, "ywd") && nf >= 2) {
				bitint63_t wk = {0}; bitint447_t dow; memset(&dow, 0, sizeof(dow));
				if (strcmp(f[0], "-")) for (char *p = strtok(f[0], ","); p; p = strtok(NULL, ",")) wk = ass_bi63(wk, atoi(p));
				r447(&dow, f[1]);
				fill_yly_ywd(&cand, a, wk, &dow);
			} else if (!strcmp(fn, "ymcw") && nf >= 2) {
				bitint447_t dow; memset(&dow, 0, sizeof(dow)); r447(&dow, f[0]);
				for (char *p = strtok(f[1], ","); p && nm < 12; p = strtok(NULL, ",")) m[nm++] = atoi(p);
				fill_yly_ymcw(&cand, a, &dow, m, nm);
			} else if (!strcmp(fn, "mdall") && nf >= 2) {
				for (char *p = strtok(f[0], ","); p && nm < 12; p = strtok(NULL, ",")) m[nm++] = atoi(p);
				fill_yly_md_all(&cand, SCALE_GREGORIAN, a, m, nm, (uint8_t)atoi(f[1]));
			} else if (!strcmp(fn, "ycw") && nf >= 1) {
				bitint447_t dow; memset(&dow, 0, sizeof(dow)); r447(&dow, f[0]);
				fill_yly_ycw(&cand, a, &dow);
			} else if (!strcmp(fn, "ydall") && nf >= 1) {
				fill_yly_yd_all(&cand, a, (uint8_t)atoi(f[0]));
			} else if (!strcmp(fn, "yd") && nf >= 4) {
				bitint383_t doy; memset(&doy, 0, sizeof(doy)); r383(&doy, f[0]);
				bitint447_t dow; memset(&dow, 0, sizeof(dow)); r447(&dow, f[1]);
				fill_yly_yd(&cand, a, &doy, &dow, (uint8_t)atoi(f[2]), atoi(f[3]) != 0);
			} else if (!strcmp(fn, "ymdallm") && nf >= 3) {
				bitint447_t dow; memset(&dow, 0, sizeof(dow)); r447(&dow, f[1]);
				if (strcmp(f[0], "-")) for (char *p = strtok(f[0], ","); p && nd < 62; p = strtok(NULL, ",")) d[nd++] = atoi(p);
				fill_yly_ymd_all_m(&cand, SCALE_GREGORIAN, a, d, nd, &dow, (uint8_t)atoi(f[2]));
			} else if (!strcmp(fn, "lim") && nf >= 6) {
				bituint31_t mon = {0}; bitint31_t dom = {0}; bitint63_t wk = {0};
				bitint383_t doy; memset(&doy, 0, sizeof(doy)); r383(&doy, f[4]);
				bitint447_t pdow; memset(&pdow, 0, sizeof(pdow)); r447(&pdow, f[5]);
				if (strcmp(f[0], "-")) for (char *p = strtok(f[0], ","); p; p = strtok(NULL, ",")) ass_bi383(&cand, atoi(p));
				if (strcmp(f[1], "-")) for (char *p = strtok(f[1], ","); p; p = strtok(NULL, ",")) mon = ass_bui31(mon, atoi(p));
				if (strcmp(f[2], "-")) for (char *p = strtok(f[2], ","); p; p = strtok(NULL, ",")) dom = ass_bi31(dom, atoi(p));
				if (strcmp(f[3], "-")) for (char *p = strtok(f[3], ","); p; p = strtok(NULL, ",")) wk = ass_bi63(wk, atoi(p));
				lim_cand(&cand, a, mon, dom, wk, &doy, &pdow);
			} else if (!strcmp(fn, "ymdalld") && nf >= 2) {
				for (char *p = strtok(f[0], ","); p && nm < 12; p = strtok(NULL, ",")) m[nm++] = atoi(p);
				fill_yly_ymd_all_d(&cand, SCALE_GREGORIAN, a, m, nm, (uint8_t)atoi(f[1]));
			} else if (!strcmp(fn, "ymd") && nf >= 4) {
				bitint447_t dow; memset(&dow, 0, sizeof(dow)); r447(&dow, f[2]);
				for (char *p = strtok(f[0], ","); p && nm < 12; p = strtok(NULL, ",")) m[nm++] = atoi(p);
				for (char *p = strtok(f[1], ","); p && nd < 62; p = strtok(NULL, ",")) d[nd++] = atoi(p);
				fill_yly_ymd(&cand, SCALE_GREGORIAN, a, m, nm, d, nd, &dow, (uint8_t)atoi(f[3]));
			} else { puts("bad-op"); continue; }
			p383(&cand); putchar('\n');
		} else {
			puts("bad-op");
		}
	}
	return 0;
}
