"""C15 — Hijri <-> Gregorian scale conversion is a consistent bijection.

Implementation observed through the public API (echs_instant_rescale, echs_scale_ndim,
echs_scale_wday) in harness hx_cal; two passes (convert, then convert back / month length / weekday).
Oracle: the bijection statements themselves evaluated on the implementation's answers, Python
datetime for the Gregorian side, the data tables' first/last entry for coverage.
Correspondence: Echse.Model.Scale on the same op lines.
"""
import datetime
import os

from . import common
from . import p_C08
from tools import gen as gen_mod

MJD0 = datetime.date(1858, 11, 16).toordinal()   # the code counts JDN - 2400000
SCALES = list(range(1, 11))
LO = datetime.date(1901, 1, 1).toordinal()
HI = datetime.date(2099, 12, 31).toordinal()


def build(ctx):
    return p_C08.build(ctx)


def coverage(ctx):
    cov = {}
    for s, (cname, fn) in {9: ("dat_ummulqura", "dat_ummulqura.c"), 10: ("dat_diyanet", "dat_diyanet.c")}.items():
        vals = [gen_mod.c_int(x) for x in gen_mod.c_array(gen_mod.read(ctx.src, fn), cname)]
        cov[s] = (vals[2] + MJD0, vals[-1] + MJD0, vals[0], len(vals) - 2)     # ordinals [first, last), SM, number of entries
    return cov


def run(ctx):
    exe = build(ctx)
    rng = ctx.rng
    thorough = ctx.tier == "thorough"
    cov = coverage(ctx)
    # ---- days: thorough = every day of 1901-2099; quick = windows of consecutive days + table edges
    if thorough:
        days = list(range(LO, HI + 1))
    else:
        ds = set()
        for _ in range(260):
            a = rng.randint(LO, HI - 70)
            ds.update(range(a, a + 70))
        for s in (9, 10):
            for edge in cov[s][:2]:
                ds.update(range(max(LO, edge - 40), min(HI, edge + 40)))
        ds.update(range(LO, LO + 40)); ds.update(range(HI - 40, HI + 1))
        days = sorted(ds)
    ops1 = []
    for o in days:
        dt = datetime.date.fromordinal(o)
        for s in SCALES:
            ops1.append("c.conv 0 %d %d %d %d" % (dt.year, dt.month, dt.day, s))
    out1, st1, err1 = ctx.impl(exe, ops1)
    # ---- pass 2
    ops2, ref2 = [], []
    H = {}
    k = 0
    for o in days:
        for s in SCALES:
            a = out1[k] if k < len(out1) else "?"
            k += 1
            if a == "nul" or a == "?":
                H[(o, s)] = None
                continue
            w = a.split()
            try:
                h = (int(w[0]), int(w[1]), int(w[2]))
            except Exception:
                H[(o, s)] = ("garbled", a)
                continue
            H[(o, s)] = h
            ops2.append("c.conv %d %d %d %d 0" % (s, h[0], h[1], h[2])); ref2.append(("back", o, s))
            ops2.append("c.ndim %d %d %d" % (s, h[0], h[1])); ref2.append(("ndim", o, s))
            ops2.append("c.wday %d %d %d %d" % (s, h[0], h[1], h[2])); ref2.append(("wday", o, s))
    for o in days[:: 7 if not thorough else 1]:
        dt = datetime.date.fromordinal(o)
        ops2.append("c.wday 0 %d %d %d" % (dt.year, dt.month, dt.day)); ref2.append(("gwday", o, 0))
        ops2.append("c.ndim 0 %d %d" % (dt.year, dt.month)); ref2.append(("gndim", o, 0))
    # table dates outside coverage, Hijri -> Gregorian
    for s in (9, 10):
        sm = cov[s][2]
        y0 = sm // 12 + 1
        # ... among them the month the table's last entry stands for: that entry is where the table ends
        mend = sm + cov[s][3] - 1
        ye, me = mend // 12 + 1, mend % 12 + 1
        for (y, m, d) in [(y0 - 1, 12, 1), (y0 - 1, 12, 29), (y0 - 60, 1, 1), (1, 1, 1), (y0 + 400, 1, 1), (4000, 6, 6), (ye, me, 1), (ye, me, 15), (ye, me, 31)]:
            ops2.append("c.conv %d %d %d %d 0" % (s, y, m, d)); ref2.append(("outside", (y, m, d), s))
            ops2.append("c.ndim %d %d %d" % (s, y, m)); ref2.append(("outside_ndim", (y, m, d), s))
            ops2.append("c.wday %d %d %d %d" % (s, y, m, d)); ref2.append(("outside_wday", (y, m, d), s))
    for l in common.load_corpus("C15"):
        ops2.append(l); ref2.append(None)
    out2, st2, err2 = ctx.impl(exe, ops2)
    # ---- oracle
    fails = []

    def fail(op, why):
        fails.append((op, why))
    ndim = {}
    for i, r in enumerate(ref2):
        if r is None:
            continue
        a = out2[i] if i < len(out2) else "<no answer: %s>" % st2
        kind, o, s = r
        if kind == "back":
            dt = datetime.date.fromordinal(o)
            if a.split()[:3] != [str(dt.year), str(dt.month), str(dt.day)]:
                fail(ops2[i], "scale %d: %s -> %s -> %s does not return to the original date" % (s, dt, H[(o, s)], a))
        elif kind == "ndim":
            try:
                ndim[(o, s)] = int(a)
            except ValueError:
                fail(ops2[i], "month length is %r" % a)
        elif kind == "wday":
            want = datetime.date.fromordinal(o).isoweekday()
            if a != str(want):
                fail(ops2[i], "scale %d: weekday of %s is reported as %s, its Gregorian image %s is weekday %d"
                     % (s, H[(o, s)], a, datetime.date.fromordinal(o), want))
        elif kind == "gwday":
            if a != str(datetime.date.fromordinal(o).isoweekday()):
                fail(ops2[i], "Gregorian weekday of %s reported as %s" % (datetime.date.fromordinal(o), a))
        elif kind == "gndim":
            dt = datetime.date.fromordinal(o)
            if a != str(p_C08.mdays(dt.year, dt.month)):
                fail(ops2[i], "Gregorian month length of %s reported as %s" % (dt, a))
        elif kind == "outside":
            if a != "nul":
                fail(ops2[i], "scale %d date %s lies outside the table but converts to %s" % (s, o, a))
        elif kind == "outside_wday":
            if a != "0":
                fail(ops2[i], "scale %d date %s lies outside the table but has the weekday %s" % (s, o, a))
        elif kind == "outside_ndim":
            if a != "0":
                fail(ops2[i], "scale %d month %s lies outside the table but has length %s" % (s, o, a))
    dayset = set(days)
    k = 0
    for o in days:
        dt = datetime.date.fromordinal(o)
        for s in SCALES:
            op = ops1[k]; k += 1
            h = H[(o, s)]
            if s >= 9:
                inside = cov[s][0] <= o < cov[s][1]
                if inside and h is None:
                    fail(op, "scale %d: %s is inside the table's coverage but is rejected" % (s, dt))
                if not inside and h is not None:
                    fail(op, "scale %d: %s is outside the table's coverage but maps to %s" % (s, dt, h))
                if not inside:
                    continue
            if h is None or h[0] == "garbled":
                if s < 9:
                    fail(op, "scale %d: %s is not converted (%s)" % (s, dt, h))
                continue
            # consecutive days -> consecutive dates, month length = distance of first days
            nxt = H.get((o + 1, s)) if (o + 1) in dayset else None
            if nxt is not None and nxt[0] != "garbled" and (o, s) in ndim:
                y, m, d = h
                if d < ndim[(o, s)]:
                    want = (y, m, d + 1)
                elif m < 12:
                    want = (y, m + 1, 1)
                else:
                    want = (y + 1, 1, 1)
                if nxt != want:
                    fail(op, "scale %d: %s -> %s but the next day -> %s (month length reported: %d)"
                         % (s, dt, h, nxt, ndim[(o, s)]))
    ops = ops1 + ops2
    impl = out1 + out2
    model = ctx.model(ops)
    corr = common.diff_lines(ops, impl, model)
    nconv = sum(1 for v in H.values() if v is not None)
    ctx.cov.update({
        "evaluations": len(ops),
        "distinct_nontrivial": nconv,
        "traces_validated_against_impl": len(ops) - len(corr),
        "rule": ("every day of 1901-2099" if thorough else
                 "260 seeded windows of 70 consecutive days, +-40 days around both ends of both tables and of the range")
                + " x 10 Hijri scales: convert, convert back, month length, weekday; consecutive-day successor test "
                  "wherever the next day is also in the set; table dates outside coverage in both directions. "
                  "non-trivial = (day, scale) pairs that converted to a date; each is distinct",
        "samples": [ops2[i] + "  =>  " + (out2[i] if i < len(out2) else "?") for i in
                    sorted(rng.sample(range(len(ops2)), min(8, len(ops2))))],
        "days": len(days), "scales": len(SCALES),
        "harness_status": [st1, st2],
        "impl_vs_spec_failures": len(fails),
        "impl_vs_model_differences": len(corr),
        "exhaustive": bool(thorough),
    })
    ctx.assumptions += ["coverage of a table scale = [first entry, last entry) of its data table",
                        "Gregorian side judged by Python datetime"]
    if (st1 != "ok" or st2 != "ok") and not fails and not corr:
        ctx.violation("correspondence", "harness ended with %s/%s: %s" % (st1, st2, (err1 + err2)[-600:]),
                      {"stderr": err1 + err2}, found_input=False)
    if fails:
        op, why = fails[0]
        o1, _, _ = ctx.impl(exe, [op])
        ctx.violation("property", why, {"op": op, "impl": o1[0] if o1 else None, "model": ctx.model([op])[0],
                                        "failures_total": len(fails), "more": [w for _, w in fails[1:6]]})
    elif corr:
        i, op, a, b = corr[0]
        ctx.violation("correspondence",
                      "implementation and model differ on %d ops, the bijection statements hold; first: %s impl=%s model=%s"
                      % (len(corr), op, a, b),
                      {"correspondence": "Echse.Model.Scale vs scale.c", "op": op, "impl": a, "model": b,
                       "n": len(corr)}, found_input=False)


def replay(ctx, rep):
    exe = build(ctx)
    op = rep["data"].get("op")
    if not op:
        print("replay names no input: %s" % rep.get("what"))
        return 1
    out, st, _ = ctx.impl(exe, [op])
    print("op: %s\nimpl: %s\nmodel: %s\nwas: %s" % (op, out[0] if out else st, ctx.model([op])[0], rep.get("what")))
    return 1 if (out and out[0] == rep["data"].get("impl")) else 0
