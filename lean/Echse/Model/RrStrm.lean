/-
  Model of the rule stream of src/evical.c: `struct evrrul_s`, `refill()` and `next_evrrul()` (pop), for events
  without zone and scale (SCALE=GREGORIAN, UTC or floating DTSTART): the 64-entry cache, the occurrence held back
  as the seed of the next refill, the COUNT bookkeeping, the sort after each refill.
-/
import Echse.Model.RrFill
import Echse.Model.Sort
namespace Echse.Rrule
open Echse.Instant

def GRP_CCH_OFF : Nat := 64

structure Strm where
  rule : Rule
  from_ : Option Inst          -- `e.from`; `none` = the nul instant: end of stream noted
  cch : List Inst := []        -- cch[0 .. ncch)
  rdi : Nat := 0
deriving Repr

/-- `echs_instant_sort` on up to 64 instants: C20 shows the WikiSort instance is the stable sort by `ltP` -/
def sortInst (l : List Inst) : List Inst := Echse.Sort.stableSort ltP l

/-- `refill(strm)`: the new stream state; `none` where the filler is not modelled -/
def refill (s : Strm) : Option Strm :=
  match s.from_ with
  | none => some { s with cch := [], rdi := 0 }
  | some proto =>
    if s.rule.count = 0 then some { s with cch := [], rdi := 0 } else
    match fill s.rule proto GRP_CCH_OFF with
    | none => none
    | some l =>
      -- keep one for the next refill
      let (cch, from') := if l.length ≥ GRP_CCH_OFF then (l.take (l.length - 1), l.getLast?) else (l, none)
      let n : Int := cch.length
      let count' := if s.rule.count > 0 then (if n < s.rule.count then s.rule.count - n else 0) else s.rule.count
      some { rule := { s.rule with count := count' }, from_ := from', cch := sortInst cch, rdi := 0 }

/-- `next_evrrul(s, popp = true)`: the next occurrence and the new state; `(none, _)` = end of stream -/
def pop (s : Strm) : Option (Option Inst × Strm) :=
  if s.rdi ≥ s.cch.length then
    match refill s with
    | none => none
    | some s' =>
      match s'.cch with
      | [] => some (none, s')
      | x :: _ => some (some x, { s' with rdi := 1 })
  else some (s.cch[s.rdi]?, { s with rdi := s.rdi + 1 })

/-- the first `n` occurrences of the stream and whether it ended -/
def pops : Nat → Strm → Option (List Inst × Bool)
  | 0, _ => some ([], false)
  | n+1, s =>
    match pop s with
    | none => none
    | some (none, _) => some ([], true)
    | some (some x, s') => (pops n s').map fun (l, e) => (x :: l, e)

/-- `fix_rrul_dflts` (in `__make_evrrul`): under a SHIFT the parts a YEARLY / MONTHLY rule leaves to DTSTART are made
explicit when the stream is set up, because later refills are seeded with shifted dates -/
def fixDflts (r : Rule) (p : Inst) : Rule :=
  -- a single rule without exceptions: `multi` is false, only a SHIFT makes the defaults explicit
  if r.shift = 0 then r
  else if p.m = 0 ∨ p.m > 12 ∨ p.d = 0 ∨ p.d > 31 then r
  else if r.freq = 1 ∧ !r.wk.isEmpty ∧ r.dow.isEmpty ∧ r.doy.isEmpty ∧ r.dom.isEmpty ∧ r.scale = 0 then
    -- BYWEEKNO on its own, or limited to months, goes with DTSTART's weekday
    { r with dow := [(ymdGetWday p.y p.m p.d : Int)] }
  else if !r.dow.isEmpty ∨ !r.doy.isEmpty ∨ !r.easter.isEmpty ∨ !r.dom.isEmpty ∨ !r.wk.isEmpty then r
  else
    match r.freq with
    | 1 => { (if r.mon.isEmpty then { r with mon := [p.m] } else r) with dom := [(p.d : Int)] }
    | 2 => { r with dom := [(p.d : Int)] }
    | _ => r

def mkStrm (r : Rule) (dtstart : Inst) : Strm := { rule := fixDflts r dtstart, from_ := some dtstart }

end Echse.Rrule
