/-
  C01 for the monthly filler, part 5: the instants wanted (`mTarget`) fit the abstract loop (`mly_targetHyp`): the loop
  skips none of their months, their month's period offers them, and — the calendar repeating after 28 years = 336
  months — they recur within `MLY_TRIES` periods (`mly_shadow`, `mly_periodic`; the latter under `MlyFirst`).
-/
import Echse.Lemmas.RrMlyRfc4
namespace Echse.Lemmas.RrMlyRfc
open Echse.Rrule Echse.Instant Echse.Spec.RrOk Echse.Lemmas.RrCandOk Echse.Spec.Rfc Echse.Lemmas.RrRfc
open Echse.Lemmas.RrCandRfc Echse.Lemmas.RrMlyOk Echse.Spec.Cal Echse.Spec.RuleExt Echse.Lemmas.RrOkBase

/-- the instants wanted: instances of the rule from the seed on, up to UNTIL, up to 2099 -/
def mTarget (r : Rule) (p x : Inst) : Prop := MonthlyInst r p x ∧ ltP x p = false ∧ ltP r.untl x = false ∧ x.y ≤ 2099

theorem mlyInst_iff (r : Rule) (p x : Inst) : MonthlyInst r p x ↔
    SameKind p x ∧ (∃ k : Nat, pIdx x = pIdx p + k * r.inter) ∧ monthOk r x ∧ MlyDate r p x ∧ TimeExp r p x := by
  unfold MonthlyInst MlyDate pIdx
  apply and_congr Iff.rfl
  apply and_congr ?_ Iff.rfl
  apply exists_congr; intro k
  have : ((k * r.inter : Nat) : Int) = (k : Int) * r.inter := by simp
  constructor <;> intro h <;> omega

theorem mlyDate_sh28 (r : Rule) (p x : Inst) (n : Nat) (h1 : 1901 ≤ x.y) (h2 : x.y + 28 * n ≤ 2099) :
    MlyDate r p (sh28 x n) ↔ MlyDate r p x := by
  unfold MlyDate
  by_cases c1 : r.dom ≠ []
  · rw [if_pos c1, if_pos c1, mdayOk_sh28 r x n h1 h2, bydayInMonth_sh28 r x n h1 h2]
  · rw [if_neg c1, if_neg c1]
    by_cases c2 : r.dow ≠ []
    · rw [if_pos c2, if_pos c2, bydayInMonth_sh28 r x n h1 h2]
    · rw [if_neg c2, if_neg c2]; exact Iff.rfl

theorem ltP_asymm {a b : Inst} (h : ltP a b = true) : ltP b a = false := by
  unfold ltP at *
  simp only [decide_eq_true_eq, decide_eq_false_iff_not] at *
  omega

theorem sh28_back (x : Inst) (n : Nat) (h : 28 * n ≤ x.y) : sh28 { x with y := x.y - 28 * n } n = x := by
  unfold sh28
  cases x
  simp only [Inst.mk.injEq, and_self, and_true]
  simp only at h
  omega

/-- the same date `28 q INTERVAL` years earlier, `336 q` periods back, is an instance as well -/
theorem mly_shadow (r : Rule) (p x : Inst) (hp : WfInst p) (hy : 1901 ≤ p.y) (hx : MonthlyInst r p x) (hx2 : x.y ≤ 2099)
    (k s q : Nat) (hk : pIdx x = pIdx p + k * r.inter) (hq : k = s + 336 * q) :
    ∃ x' : Inst, MonthlyInst r p x' ∧ pIdx x' = pIdx p + s * r.inter ∧ x'.y + 28 * (q * r.inter) = x.y ∧
      p.y ≤ x'.y ∧ x'.m = x.m := by
  obtain ⟨a1, _, a3, a4, a5⟩ := (mlyInst_iff r p x).1 hx
  have hxm : 1 ≤ x.m ∧ x.m ≤ 12 := ⟨a1.1, a1.2.1⟩
  have hpm := hp.month
  have e1 : k * r.inter = s * r.inter + 336 * (q * r.inter) := by
    rw [hq, Nat.add_mul, Nat.mul_assoc]
  generalize q * r.inter = N at *
  generalize hS : s * r.inter = S at *
  have hN : 28 * N ≤ x.y := by unfold pIdx at hk; omega
  have hback := sh28_back x N hN
  generalize hx' : ({ x with y := x.y - 28 * N } : Inst) = x' at hback
  have fy : x'.y = x.y - 28 * N := by rw [← hx']
  have fm : x'.m = x.m := by rw [← hx']
  have hidx : pIdx x' = pIdx p + S := by unfold pIdx at hk ⊢; rw [fy, fm]; omega
  have hpy : p.y ≤ x'.y := by unfold pIdx at hidx; omega
  have h1 : 1901 ≤ x'.y := by omega
  have h2 : x'.y + 28 * N ≤ 2099 := by omega
  refine ⟨x', (mlyInst_iff r p x').2 ⟨?_, ⟨s, by rw [hS]; exact hidx⟩, ?_, ?_, ?_⟩, by omega, by omega, hpy, fm⟩
  · rw [← hback] at a1; exact (sameKind_sh28 p x' N h1 h2).1 a1
  · unfold monthOk at a3 ⊢; rw [fm]; exact a3
  · rw [← hback] at a4; exact (mlyDate_sh28 r p x' N h1 h2).1 a4
  · rw [← hback] at a5; exact a5

theorem mTarget_facts (r : Rule) (p x : Inst) (hi : 0 < r.inter) (hx : mTarget r p x) :
    ∃ k : Nat, pIdx x = pIdx p + k * r.inter ∧ mGi r p x = k ∧ 1 ≤ x.m ∧ x.m ≤ 12 ∧ (r.mon = [] ∨ x.m ∈ r.mon) := by
  obtain ⟨a1, ⟨k, hk⟩, a3, _, _⟩ := (mlyInst_iff r p x).1 hx.1
  exact ⟨k, hk, mGi_of r p x k hi hk, a1.1, a1.2.1, a3⟩

/-- the rule has an occurrence (from the seed on, up to UNTIL) in one of the first 336 periods -/
def MlyFirst (r : Rule) (p : Inst) : Prop :=
  ∃ z, MonthlyInst r p z ∧ ltP z p = false ∧ ltP r.untl z = false ∧ pIdx z < pIdx p + 336 * r.inter

theorem mly_periodic (r : Rule) (p : Inst) (hr : WfRule r) (hp : WfInst p) (hy : 1901 ≤ p.y) (hf : MlyFirst r p)
    (x : Inst) (j : Nat) (hx : mTarget r p x) (hj : mlyTries - 1 ≤ j) (hjx : j ≤ mGi r p x) :
    ∃ x', mTarget r p x' ∧ mGi r p x' < j ∧ j ≤ mGi r p x' + (mlyTries - 1) := by
  have hi := hr.inter
  have hT : mlyTries - 1 = 336 := rfl
  rw [hT] at hj ⊢
  obtain ⟨k, hk, hgk, hm1, hm2, _⟩ := mTarget_facts r p x (by omega) hx
  rw [hgk] at hjx
  -- the shadow of x in the window [j - 336, j - 1]
  obtain ⟨x', s1, s2, s3, s4, s5⟩ := mly_shadow r p x hp hy hx.1 hx.2.2.2 k (k - 336 * ((k - j) / 336 + 1))
    ((k - j) / 336 + 1) hk (by omega)
  generalize hs : k - 336 * ((k - j) / 336 + 1) = s at *
  have hgs : mGi r p x' = s := mGi_of r p x' s (by omega) s2
  have hpm := hp.month
  by_cases c : s = 0
  · -- the shadow falls into the seed's month: take the early occurrence instead
    obtain ⟨z, z1, z2, z3, z4⟩ := hf
    obtain ⟨za, ⟨kz, hkz⟩, _, _, _⟩ := (mlyInst_iff r p z).1 z1
    have hkz336 : kz < 336 := by
      rw [hkz] at z4
      exact (grid_lt (pIdx p) kz 336 r.inter (by omega)).1 (by omega)
    have hkk : kz < k := by omega
    have hlt := (grid_lt (pIdx p) kz k r.inter (by omega)).2 hkk
    rw [← hkz, ← hk] at hlt
    have hzy : z.y ≤ 2099 := by
      have := hx.2.2.2; have := za.1; have := za.2.1
      unfold pIdx at hlt; omega
    exact ⟨z, ⟨z1, z2, z3, hzy⟩, by rw [mGi_of r p z kz (by omega) hkz]; omega,
      by rw [mGi_of r p z kz (by omega) hkz]; omega⟩
  · refine ⟨x', ⟨s1, ?_, ?_, by have := hx.2.2.2; omega⟩, by rw [hgs]; omega, by rw [hgs]; omega⟩
    · -- later than the seed's month
      have hpos : 0 < s * r.inter := Nat.mul_pos (by omega) (by omega)
      obtain ⟨b1, _⟩ := (mlyInst_iff r p x').1 s1
      exact ltP_asymm (ltP_of_idx p x' ⟨hpm.1, hpm.2, by have := hx.2.2.2; omega⟩
        ⟨b1.1, b1.2.1, by have := hx.2.2.2; omega⟩ (by omega))
    · -- earlier than x
      have hN : 0 < ((k - j) / 336 + 1) * r.inter := Nat.mul_pos (by omega) (by omega)
      have hlt : ltP x' x = true := ltP_of_year_lt x' x (by have := hx.2.2.2; omega)
      cases hu : ltP r.untl x' with
      | false => rfl
      | true => have := ltP_trans hu hlt; rw [hx.2.2.1] at this; cases this

theorem kindOk_of_same {p x : Inst} (h : SameKind p x) : KindOk p x := h.2.2.2.2.2

theorem mly_targetHyp (r : Rule) (p : Inst) (nti : Nat) (hr : WfRule r) (hp : WfInst p)
    (hsup : MlySup r) (hy : 1901 ≤ p.y) (hf : MlyFirst r p) :
    TargetHyp (mkFillCtx r p nti) mlyTries (fun q : Nat × Int => q.1) (mE r p nti)
      (fun q => mlyNext r.mon r.inter 12 q.1 q.2) (mReach r p) (mG r p) (mTarget r p) (mGi r p) := by
  have hi := hr.inter
  have hpm := hp.month
  refine ⟨?_, ?_, ?_, ?_, ?_⟩
  · -- skip
    intro x q hx hq hlt
    obtain ⟨k, hk, hgk, hm1, hm2, hmon⟩ := mTarget_facts r p x (by omega) hx
    obtain ⟨h1, h2, h3, ⟨j0, h4⟩, h5⟩ := hq
    rw [mG_of r p q j0 (by omega) h4, hgk] at hlt
    have hidx := (grid_lt (pIdx p) j0 k r.inter (by omega)).2 hlt
    rw [← h4, ← hk] at hidx
    have hq2 : q.1 ≤ 2099 := by have := hx.2.2.2; unfold qIdx pIdx at hidx; omega
    refine ⟨hq2, ?_⟩
    obtain ⟨j, a1, a2, a3, a4, a5, a6, a7⟩ := mNext_facts r hr q ⟨h1, h2⟩ hq2
    show mG r p (mlyNext r.mon r.inter 12 q.1 q.2) ≤ mGi r p x
    generalize mlyNext r.mon r.inter 12 q.1 q.2 = q' at *
    have hg : qIdx q' = pIdx p + (j0 + j) * r.inter := by rw [a5, h4, Nat.add_mul]; omega
    rw [mG_of r p q' (j0 + j) (by omega) hg, hgk]
    by_cases c : j0 + j ≤ k
    · exact c
    · exfalso
      obtain ⟨hne, hnot⟩ := a6 (k - j0) (by omega) (by omega)
      have e : qIdx q + (k - j0) * r.inter = pIdx x := by
        rw [hk, h4, Nat.add_assoc, ← Nat.add_mul]
        congr 2; omega
      rw [e] at hnot
      have e2 : moy ((pIdx x : Nat) : Int) = x.m := by unfold moy pIdx; omega
      rw [e2] at hnot
      rcases hmon with h | h
      · exact hne h
      · exact hnot h
  · -- here
    intro x q hx hq heq
    obtain ⟨k, hk, hgk, hm1, hm2, hmon⟩ := mTarget_facts r p x (by omega) hx
    obtain ⟨h1, h2, h3, ⟨j0, h4⟩, h5⟩ := hq
    rw [mG_of r p q j0 (by omega) h4, hgk] at heq
    have hidx : qIdx q = pIdx x := by rw [h4, hk, heq]
    have e1 : x.y = q.1 := by unfold qIdx pIdx at hidx; omega
    have e2 : x.m = q.2.toNat := by unfold qIdx pIdx at hidx; omega
    have hq2 : q.1 ≤ 2099 := by have := hx.2.2.2; omega
    refine ⟨hq2, ?_⟩
    obtain ⟨b1, _, _, b4, b5⟩ := (mlyInst_iff r p x).1 hx.1
    obtain ⟨t1, t2, t3⟩ := enum_of_exp hp (kindOk_of_same b1) b5
    exact (mem_mE_iff r p nti hr hp hsup q.1 q.2 ⟨by omega, hq2⟩ ⟨h1, h2⟩ x).2
      ⟨e1, e2, b1.2.2.1, b1.2.2.2.1, b4, b1.2.2.2.2.1, t1, t2, t3⟩
  · -- tests
    intro x hx
    exact ⟨hx.2.2.1, hx.2.1⟩
  · -- later
    intro x q hx hq hq2 hlt a ha
    have hq2 : q.1 ≤ 2099 := hq2
    obtain ⟨k, hk, hgk, hm1, hm2, hmon⟩ := mTarget_facts r p x (by omega) hx
    obtain ⟨fa1, fa2⟩ := mE_fields r p nti hr hp hsup hy q hq hq2 a ha
    obtain ⟨h1, h2, h3, ⟨j0, h4⟩, h5⟩ := hq
    rw [mG_of r p q j0 (by omega) h4, hgk] at hlt
    have hidx := (grid_lt (pIdx p) j0 k r.inter (by omega)).2 hlt
    rw [← h4, ← hk] at hidx
    apply ltP_of_idx a x (by omega) ⟨hm1, hm2, hx.2.2.2⟩
    unfold pIdx at hidx ⊢; unfold qIdx at hidx; rw [fa1, fa2]; exact hidx
  · -- periodic
    intro x j hx hj hjx
    exact mly_periodic r p hr hp hy hf x j hx hj hjx

end Echse.Lemmas.RrMlyRfc
