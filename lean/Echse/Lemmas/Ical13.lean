/-
  C10 lemmas, part 13: `chop_more` when the rest of the buffer is a piece of one logical line (it goes to
  the stash), in terms of the automaton.
-/
import Echse.Lemmas.Ical12
namespace Echse.Ical

theorem rel_unmarked (p : Parser) (A : Abs) (h : Rel p A) (hp : A.sc.pend = false) : p.eolp = false := by
  cases hx : p.eolp with
  | false => rfl
  | true => have := h.mark.1 hx; rw [hp] at this; cases this

/-- the rest of the buffer copied: the stash follows the unfolded line, `skip` stays off -/
theorem copyRest_spec (p : Parser) (A : Abs) (h : Rel p A) :
    (copyRest p).skip = false ∧ (copyRest p).stash = A.cur ++ unesc (rest p) := by
  unfold copyRest
  rw [if_neg (by rw [h.skip]; simp), esccpy_fits', h.stash]
  exact ⟨h.skip, rfl⟩

/-- a complete line copied: the stash follows the unfolded line (it is cleared at `proc:`) -/
theorem takeLine_spec (p : Parser) (A : Abs) (h : Rel p A) (e : Nat) :
    (takeLine p e).skip = false ∧ (takeLine p e).stash = A.cur ++ unesc ((rest p).take e) := by
  unfold takeLine
  rw [if_neg (by rw [h.skip]; simp), esccpy_fits', h.stash]
  exact ⟨h.skip, rfl⟩

/-- what is known of a parser that reported `need more data`, and of its automaton state: the buffer is used
up (`BI = p->bsz` in the stash branch), so the pre-examination of a marked stash reads 0 behind it -/
structure Post (p : Parser) (A : Abs) : Prop where
  rel : Rel p A
  done : rest p = []
  inv : Inv A

/-- the rest of the buffer is a piece of one line: it is stashed -/
theorem stash_spec (p : Parser) (A : Abs) (h : Pre p A) (hp : A.sc.pend = false) (b : Bool)
    (hl : lineEnd (rest p) = some b) :
    Post (stashRest p b).1 (runA A (rest p)) ∧ (runA A (rest p)).ins = A.ins := by
  have hrun := seg_runA _ (rest p) A b (Nat.le_refl _) hl h.nobsl hp
  have hsc := seg_runSc _ (rest p) A.sc b (Nat.le_refl _) hl hp
  have hcp := copyRest_spec p A h.rel
  have hinv := runA_inv A (rest p) h.inv
  rw [hrun] at hinv ⊢
  refine ⟨⟨⟨hcp.1, hcp.2, ?_, ?_, ?_⟩, ?_, hinv⟩, rfl⟩
  · show (copyRest p).comp = A.comp
    rw [copyRest_comp]; exact h.rel.comp
  · show (copyRest p).log = A.log
    rw [copyRest_log]; exact h.rel.log
  · show ((copyRest p).eolp || b) = true ↔ (runSc A.sc (rest p)).pend = true
    rw [hsc.1, copyRest_eolp, rel_unmarked p A h.rel hp]; simp
  · show List.drop (copyRest p).buf.length (copyRest p).buf = []
    exact List.drop_length

end Echse.Ical
