/-
  `fillHly` (FREQ=HOURLY): the fuel never runs out and the results are what `FillOk` asks for.
-/
import Echse.Lemmas.RrSubOk
namespace Echse.Lemmas.RrHlyOk
open Echse.Rrule Echse.Instant Echse.Spec.RrOk Echse.Lemmas.RrSubOk

/-! ### the reach loop -/

theorem hlyReach_some (c : SubCtx) : ∀ (fuel k tmp : Nat), 24 ≤ fuel + k → k < 24 →
    (hlyReach c fuel k tmp).isSome := by
  intro fuel
  induction fuel with
  | zero => intro k tmp h1 h2; omega
  | succ f ih =>
    intro k tmp h1 h2
    unfold hlyReach
    by_cases hA : (c.HMask &&& shl1 tmp) ≠ 0
    · rw [if_pos hA]; rfl
    · rw [if_neg hA]
      by_cases hB : k + 1 ≥ 24
      · rw [if_pos hB]; rfl
      · rw [if_neg hB]
        exact ih _ _ (by omega) (by omega)

/-! ### the ENUM loop of one hour -/

theorem hlyEnum_spec (c : SubCtx) (y m d H : Nat) (hy1 : 1601 ≤ y) (hy2 : y ≤ 2100) (hm1 : 1 ≤ m) (hm2 : m ≤ 12)
    (hd1 : 1 ≤ d) (hd2 : d ≤ getNdom y m) (hH : H < 24) (hms : c.proto.ms < 1024) :
    ∀ (ts : List (Nat × Nat × Nat × Nat)) (cnt : Nat) (acc : List Inst) (k0 : Nat),
      ts.Pairwise (fun a b => tk a < tk b) → (∀ t ∈ ts, k0 ≤ tk t ∧ t.2.2.1 < 60 ∧ t.2.2.2 < 60) → k0 ≤ 4096 →
      AccOk c.r c.proto c.nti cnt acc (ck y m d H 0 0 + 1024 * k0) →
      AccOk c.r c.proto c.nti (hlyEnum c y m d H ts cnt acc).1 (hlyEnum c y m d H ts cnt acc).2.1
        (ck y m d (H + 1) 0 0) := by
  have hb := getNdom_bounds y m hm1 hm2
  intro ts
  induction ts with
  | nil =>
    intro cnt acc k0 _ _ hk h
    simp only [hlyEnum]
    refine h.mono ?_
    simp only [ck]; omega
  | cons t rest ih =>
    intro cnt acc k0 hp hr hk h
    obtain ⟨iM, iS, mi, s⟩ := t
    have hfin : ck y m d H 0 0 + 1024 * k0 ≤ ck y m d (H + 1) 0 0 := by simp only [ck]; omega
    have ht := hr (iM, iS, mi, s) (by simp)
    simp only [tk] at ht
    obtain ⟨ht0, hmi, hs⟩ := ht
    have hp' := List.pairwise_cons.mp hp
    have hrest : ∀ t ∈ rest, 64 * mi + s + 1 ≤ tk t ∧ t.2.2.1 < 60 ∧ t.2.2.2 < 60 := by
      intro t' ht'
      have h1 := hp'.1 t' ht'
      have h2 := hr t' (by simp [ht'])
      simp only [tk] at h1 ⊢
      omega
    have hskip : AccOk c.r c.proto c.nti cnt acc (ck y m d H 0 0 + 1024 * (64 * mi + s + 1)) := by
      refine h.mono ?_; omega
    simp only [hlyEnum]
    by_cases h1 : ¬ cnt < c.nti
    · simp only [h1]; exact h.mono hfin
    · simp only [h1, if_false]
      by_cases h2 : ltP (mkInst y m d H mi s c.proto.ms) c.proto = true
      · simp only [h2, if_true]
        exact ih cnt acc _ hp'.2 hrest (by omega) hskip
      · simp only [h2]
        by_cases h3 : ltP c.r.untl (mkInst y m d H mi s c.proto.ms) = true
        · simp only [h3, if_true]; exact h.mono hfin
        · simp only [h3]
          by_cases h4 : (!posPickP c.r.pos (iM * c.e.S.length + iS) (c.e.M.length * c.e.S.length)) = true
          · simp only [h4, if_true]
            exact ih cnt acc _ hp'.2 hrest (by omega) hskip
          · simp only [h4]
            refine ih (cnt + 1) _ _ hp'.2 hrest (by omega) ?_
            have hk := bk_mkInst y m d H mi s c.proto.ms (by omega) hm2 (by omega) hH hmi hs
            have hml := msk_lt c.proto.ms
            refine h.push (by omega) (wf_mkInst y m d H mi s _ hy1 hy2 hm1 hm2 hd1 hd2 hH hmi hs hms)
              (by simpa using h2) (by simpa using h3) ?_ ?_
            · rw [hk]; simp only [ck]; omega
            · rw [hk]; simp only [ck]; omega

/-! ### one round of the outer loop, cut into body and increment -/

/-- 2049-2104: the body proper, `(cnt, acc, fin, inc)` -/
def hlyBody (c : SubCtx) (times : List (Nat × Nat × Nat × Nat)) (y m d H w yd maxd maxy cnt : Nat)
    (acc : List Inst) : Nat × List Inst × Bool × Nat :=
  let past := interPast ((24 + u32 - H) % u32) c.inter
  if c.dayOut w m d maxd then (cnt, acc, false, past)
  else if (c.HMask &&& shl1 H) = 0 then (cnt, acc, false, c.inter)
  else if !c.r.doy.isEmpty && !doyHit c.r.doy yd maxy then (cnt, acc, false, past)
  else
    let (cnt, acc, fin) := hlyEnum c y m d H times cnt acc
    (cnt, acc, fin, c.inter)

/-- 2009-2028: the loop's increment expression, entered with `H + inc` -/
def hlyStep (c : SubCtx) (times : List (Nat × Nat × Nat × Nat)) (fuel y m d H w yd maxd maxy cnt : Nat)
    (acc : List Inst) : Option (List Inst) :=
  if H ≥ 24 then
    let q := H / 24
    let w := wrapWd ((w + q) % u32)
    match hlyCarry ((d + q) % u32 + 1) y m ((d + q) % u32) maxd ((yd + q) % u32) maxy with
    | none => none
    | some (y, m, d, maxd, yd, maxy) => hlyLoop c times fuel y m d (H % 24) w yd maxd maxy cnt acc
  else hlyLoop c times fuel y m d H w yd maxd maxy cnt acc

theorem hlyLoop_succ (c : SubCtx) (times : List (Nat × Nat × Nat × Nat)) (fuel y m d H w yd maxd maxy cnt : Nat)
    (acc : List Inst) :
    hlyLoop c times (fuel + 1) y m d H w yd maxd maxy cnt acc =
      if ¬ cnt < c.nti then some acc else
      if y > subMaxYear then some acc
      else if ltP c.r.untl (mkInst y m d H 0 0 c.proto.ms) then some acc
      else
        match hlyBody c times y m d H w yd maxd maxy cnt acc with
        | (cnt, acc, fin, inc) =>
          if fin then some acc else hlyStep c times fuel y m d ((H + inc) % u32) w yd maxd maxy cnt acc := by
  rfl

theorem hlyBody_spec (c : SubCtx) (times : List (Nat × Nat × Nat × Nat))
    (hts : times.Pairwise (fun a b => tk a < tk b) ∧ ∀ t ∈ times, t.2.2.1 < 60 ∧ t.2.2.2 < 60)
    (hi1 : 1 ≤ c.inter) (hi2 : c.inter < 2147483648) (hms : c.proto.ms < 1024)
    (y m d H w yd maxd maxy cnt : Nat) (acc : List Inst)
    (hy1 : 1601 ≤ y) (hy2 : y ≤ 2100) (hm1 : 1 ≤ m) (hm2 : m ≤ 12)
    (hd1 : 1 ≤ d) (hd2 : d ≤ getNdom y m) (hH : H < 24)
    (h : AccOk c.r c.proto c.nti cnt acc (ck y m d H 0 0)) :
    AccOk c.r c.proto c.nti (hlyBody c times y m d H w yd maxd maxy cnt acc).1
        (hlyBody c times y m d H w yd maxd maxy cnt acc).2.1 (ck y m d (H + 1) 0 0) ∧
      1 ≤ (hlyBody c times y m d H w yd maxd maxy cnt acc).2.2.2 ∧
      (hlyBody c times y m d H w yd maxd maxy cnt acc).2.2.2 < 2147483648 + 86400 := by
  have hpast : 1 ≤ interPast ((24 + u32 - H) % u32) c.inter ∧
      interPast ((24 + u32 - H) % u32) c.inter < 2147483648 + 86400 := by
    have e : (24 + u32 - H) % u32 = 24 - H := by simp only [u32]; omega
    rw [e]
    have := interPast_bounds (24 - H) c.inter hi1 hi2 (by omega) (by omega)
    omega
  have hmono : AccOk c.r c.proto c.nti cnt acc (ck y m d (H + 1) 0 0) := by
    refine h.mono ?_; simp only [ck]; omega
  simp only [hlyBody]
  by_cases h1 : c.dayOut w m d maxd = true
  · rw [if_pos h1]; exact ⟨hmono, hpast⟩
  · rw [if_neg h1]
    by_cases h2 : (c.HMask &&& shl1 H) = 0
    · rw [if_pos h2]; exact ⟨hmono, hi1, (by omega : c.inter < 2147483648 + 86400)⟩
    · rw [if_neg h2]
      by_cases h3 : (!c.r.doy.isEmpty && !doyHit c.r.doy yd maxy) = true
      · rw [if_pos h3]; exact ⟨hmono, hpast⟩
      · rw [if_neg h3]
        have hE := hlyEnum_spec c y m d H hy1 hy2 hm1 hm2 hd1 hd2 hH hms times cnt acc 0 hts.1
          (fun t ht => ⟨Nat.zero_le _, hts.2 t ht⟩) (by omega) (by simpa using h)
        generalize hlyEnum c y m d H times cnt acc = e at hE ⊢
        obtain ⟨a, b, f⟩ := e
        exact ⟨hE, hi1, (by omega : c.inter < 2147483648 + 86400)⟩

/-! ### the outer loop -/

theorem hlyLoop_spec (c : SubCtx) (times : List (Nat × Nat × Nat × Nat))
    (hts : times.Pairwise (fun a b => tk a < tk b) ∧ ∀ t ∈ times, t.2.2.1 < 60 ∧ t.2.2.2 < 60)
    (hi1 : 1 ≤ c.inter) (hi2 : c.inter < 2147483648) (hms : c.proto.ms < 1024) :
    ∀ (fuel y m d H w yd maxy cnt : Nat) (acc : List Inst), 1601 ≤ y → 1 ≤ m → m ≤ 12 → 1 ≤ d →
      d ≤ getNdom y m → H < 24 → AccOk c.r c.proto c.nti cnt acc (ck y m d H 0 0) →
      1 ≤ fuel → 18446425 ≤ fuel + 24 * dn y m d + H →
      ∃ acc' cnt' b, hlyLoop c times fuel y m d H w yd (getNdom y m) maxy cnt acc = some acc' ∧
        AccOk c.r c.proto c.nti cnt' acc' b := by
  intro fuel
  induction fuel with
  | zero => intros; omega
  | succ f ih =>
    intro y m d H w yd maxy cnt acc hy1 hm1 hm2 hd1 hd2 hH h _ hfu
    have hnb := getNdom_bounds y m hm1 hm2
    rw [hlyLoop_succ]
    by_cases hA : ¬ cnt < c.nti
    · rw [if_pos hA]; exact ⟨acc, cnt, _, rfl, h⟩
    rw [if_neg hA]
    by_cases hY : y > subMaxYear
    · rw [if_pos hY]; exact ⟨acc, cnt, _, rfl, h⟩
    rw [if_neg hY]
    by_cases hU : ltP c.r.untl (mkInst y m d H 0 0 c.proto.ms) = true
    · rw [if_pos hU]; exact ⟨acc, cnt, _, rfl, h⟩
    rw [if_neg hU]
    have hy2 : y ≤ 2099 := by simp only [subMaxYear] at hY; omega
    have hB := hlyBody_spec c times hts hi1 hi2 hms y m d H w yd (getNdom y m) maxy cnt acc hy1 (by omega)
      hm1 hm2 hd1 hd2 hH h
    generalize hlyBody c times y m d H w yd (getNdom y m) maxy cnt acc = bd at hB ⊢
    obtain ⟨cnt1, acc1, fin, inc⟩ := bd
    obtain ⟨hB1, hB2, hB3⟩ := hB
    simp only at hB1 hB2 hB3 ⊢
    by_cases hF : fin = true
    · rw [if_pos hF]; exact ⟨acc1, cnt1, _, rfl, hB1⟩
    rw [if_neg hF]
    have e : (H + inc) % u32 = H + inc := by simp only [u32]; omega
    rw [e]
    clear e
    have hP : 24 * dn y m d + H ≤ 18446423 := by
      have hcum := cum_le y m hm2
      unfold dn; omega
    unfold hlyStep
    by_cases hC : H + inc ≥ 24
    · rw [if_pos hC]
      obtain ⟨y', m', d', he, h1, h2, h3, h4, h5, h6, h7⟩ :=
        dayAdv y m d ((H + inc) / 24) hy2 hm1 hm2 hd1 hd2 (by omega)
      obtain ⟨yd', maxy', he'⟩ := hlyCarry_of_sub _ _ _ _ _ ((yd + (H + inc) / 24) % u32) maxy _ _ _ _ he
      simp only [he']
      have hnb' := getNdom_bounds y' m' h1 h2
      refine ih y' m' d' ((H + inc) % 24) _ yd' maxy' cnt1 acc1 (by omega) h1 h2 h3 h4 (by omega) ?_ (by omega)
        (by omega)
      refine hB1.mono ?_
      simp only [ck]
      omega
    · rw [if_neg hC]
      refine ih y m d (H + inc) w yd maxy cnt1 acc1 hy1 hm1 hm2 hd1 hd2 (by omega) ?_ (by omega) (by omega)
      refine hB1.mono ?_
      simp only [ck]
      omega

/-! ### the filler -/

theorem fillHly_spec (r : Rule) (p : Inst) (n : Nat) (hr : WfRule r) (hp : WfInst p) (hn : n ≤ 64) :
    ∃ l, fillHly r p n = some l ∧ FillOk r p n l := by
  have hnil : ∃ l, some ([] : List Inst) = some l ∧ FillOk r p n l := ⟨[], rfl, fillOk_nil r p n⟩
  obtain ⟨hy1, hy2⟩ := hp.year
  obtain ⟨hm1, hm2⟩ := hp.month
  obtain ⟨hd1, hd2⟩ := hp.day
  have hnb := getNdom_bounds p.y p.m hm1 hm2
  unfold fillHly
  cases hcap : capNti r n with
  | none => exact hnil
  | some k =>
    obtain ⟨hk1, hk2⟩ := capNti_le r n k hr.count hn hcap
    simp only []
    rw [if_neg (by simp [hr.scale])]
    rw [if_neg (by omega)]
    have hi := mkSubCtx_inter r p k hr
    have e2 : r.inter % u32 = r.inter := by
      have := hr.inter
      simp only [u32]; omega
    rw [if_neg (by rw [e2]; have := hr.inter; omega)]
    split
    · exact hnil
    · generalize hH0 : (if p.H = allDay then 0 else p.H) = H0
      have hH : H0 < 24 := by
        rw [← hH0]
        rcases hp.time with ⟨h, _, _⟩ | ⟨h, _, _⟩
        · rw [if_pos h]; omega
        · have : ¬ p.H = allDay := by simp only [allDay]; omega
          rw [if_neg this]; exact h
      have hsome := hlyReach_some (mkSubCtx r p k) 24 0 H0 (by omega) (by omega)
      cases hre : hlyReach (mkSubCtx r p k) 24 0 H0 with
      | none => rw [hre] at hsome; simp at hsome
      | some b =>
        cases b with
        | false => exact hnil
        | true =>
          simp only []
          have hts := timesMS_sorted (mkSubCtx r p k).e (subEnum_M r p hr hp) (subEnum_S r p hr hp)
          obtain ⟨acc', cnt', b, he, hacc⟩ := hlyLoop_spec (mkSubCtx r p k) (mkSubCtx r p k).e.timesMS hts hi.1 hi.2
            hp.ms (hlyFuel p.y) p.y p.m p.d H0 (ymdGetWday p.y p.m p.d) (ymdGetYd p.y p.m p.d) (maxyOf p.y) 0 []
            hy1 hm1 hm2 hd1 hd2 hH (AccOk.nil _ _ _ _) (by unfold hlyFuel; omega)
            (by unfold hlyFuel dn; omega)
          rw [he]
          exact ⟨acc'.reverse, rfl, hacc.fill hk1 hk2⟩

theorem fillHly_total (r : Rule) (p : Inst) (n : Nat) (hr : WfRule r) (hp : WfInst p) (hn : n ≤ 64) :
    (fillHly r p n).isSome := by
  obtain ⟨l, h, _⟩ := fillHly_spec r p n hr hp hn
  rw [h]; rfl

theorem fillHly_ok (r : Rule) (p : Inst) (n : Nat) (l : List Inst) (hr : WfRule r) (hp : WfInst p) (hn : n ≤ 64)
    (h : fillHly r p n = some l) : FillOk r p n l := by
  obtain ⟨l', h', hok⟩ := fillHly_spec r p n hr hp hn
  rw [h] at h'
  cases h'
  exact hok

/-! ### the pieces of `FillOk`, one by one -/

section pieces
variable (r : Rule) (p : Inst) (n : Nat) (l : List Inst) (hr : WfRule r) (hp : WfInst p) (hn : n ≤ 64)
  (h : fillHly r p n = some l)
include hr hp hn h

theorem fillHly_len_nti : l.length ≤ n := (fillHly_ok r p n l hr hp hn h).len_nti
theorem fillHly_len_count : 0 ≤ r.count → (l.length : Int) ≤ r.count := (fillHly_ok r p n l hr hp hn h).len_count
theorem fillHly_le_until : ∀ x ∈ l, ltP r.untl x = false := (fillHly_ok r p n l hr hp hn h).le_until
theorem fillHly_ge_proto : ∀ x ∈ l, ltP x p = false := (fillHly_ok r p n l hr hp hn h).ge_proto
theorem fillHly_wf : ∀ x ∈ l, WfInst x := (fillHly_ok r p n l hr hp hn h).wf
theorem fillHly_ascending : l.Pairwise (fun a b => ltP a b = true) := (fillHly_ok r p n l hr hp hn h).ascending

end pieces

end Echse.Lemmas.RrHlyOk
