/* line-protocol harness: instants (C08), text forms (C18), scales (C15), zones (C07).
 * linked against the library objects compiled from the scratch copy of /repo/src. */
#include <stdio.h>
#include <stdlib.h>
#include <string.h>
#include <stdint.h>
#include <inttypes.h>
#include <time.h>
#include "instant.h"
#include "dt-strpf.h"
#include "scale.h"
#include "tzob.h"
#include "event.h"

typedef double ev_tstamp;
#define UNLIKELY(x) __builtin_expect(!!(x), 0)
#define LIKELY(x) __builtin_expect(!!(x), 1)
/* echsd.c's static instant_to_tstamp, cut out of the working tree's echsd.c by the check */
#include "x_instant_to_tstamp.c"

static size_t unhex(const char *h, char *out, size_t max)
{
	size_t n = 0;
	for (; h[0] && h[1] && n + 1 < max; h += 2) {
		unsigned v;
		sscanf(h, "%2x", &v);
		out[n++] = (char)v;
	}
	out[n] = 0;
	return n;
}

static void puthex(const char *s, size_t n)
{
	for (size_t i = 0; i < n; i++) printf("%02x", (unsigned char)s[i]);
}

static echs_instant_t rdi(const char *s)
{
	echs_instant_t i;
	i.u = strtoull(s, NULL, 16);
	return i;
}

int main(void)
{
	static char line[1 << 20];
	setvbuf(stdout, NULL, _IOLBF, 0);
	while (fgets(line, sizeof(line), stdin)) {
		char *a[16];
		int n = 0;
		line[strcspn(line, "\r\n")] = 0;
		if (!strncmp(line, "z.seq ", 6)) {
			/* z.seq ZONE <table for the model> # u:HEX l:HEX o:HEX …  : fresh zone object, then a sequence of
			 * local->UTC (u), UTC->local (l) conversions and offset look-ups (o) */
			char *zone = line + 6;
			char *sp = strchr(zone, ' ');
			char *hash = strchr(zone, '#');
			if (!sp || !hash) { puts("bad-op"); continue; }
			*sp = 0;
			/* the zone is interned on first use (at most 63 distinct zones per process, tzob.c's
			 * limit); its range cache persists for the rest of the process */
			echs_tzob_t z = echs_tzob(zone, strlen(zone));
			int first = 1;
			for (char *p = strtok(hash + 1, " "); p; p = strtok(NULL, " ")) {
				echs_instant_t i = rdi(p + 2);
				if (*p == 'u') printf("%s%016" PRIx64, first ? "" : " ", echs_instant_utc(i, z).u);
				else if (*p == 'l') printf("%s%016" PRIx64, first ? "" : " ", echs_instant_loc(i, z).u);
				else printf("%s%d", first ? "" : " ", echs_tzob_offs(z, i, 0));
				first = 0;
			}
			putchar('\n');
			continue;
		}
		if (!strncmp(line, "q.isort", 7) || !strncmp(line, "q.esort", 7)) {
			/* q.isort H…  /  q.esort H… : sort instants / events tagged with their input index */
			int ev = line[2] == 'e';
			size_t cnt = 0, cap = 16;
			echs_instant_t *in = malloc(cap * sizeof(*in));
			for (char *p = strtok(line + 7, " "); p; p = strtok(NULL, " ")) {
				if (cnt == cap) in = realloc(in, (cap *= 2) * sizeof(*in));
				in[cnt++].u = strtoull(p, NULL, 16);
			}
			if (!ev) {
				echs_instant_sort(in, cnt);
				for (size_t i = 0; i < cnt; i++) printf("%s%016" PRIx64, i ? " " : "", in[i].u);
			} else {
				echs_event_t *e = calloc(cnt + 1, sizeof(*e));
				for (size_t i = 0; i < cnt; i++) e[i].from = in[i], e[i].oid = (echs_oid_t)i;
				echs_event_sort(e, cnt);
				for (size_t i = 0; i < cnt; i++) printf("%s%016" PRIx64 ":%zu", i ? " " : "", e[i].from.u, (size_t)e[i].oid);
				free(e);
			}
			putchar('\n');
			free(in);
			continue;
		}
		if (!strncmp(line, "q.gsort ", 8)) {
			/* q.gsort N SEED K MODE : event sort of a generated array (too long for a line): element i has key index
			 * ki(i) in [0,K) from a 64-bit LCG (MODE 0), ascending (1), descending (2) or a sawtooth (3) and is the
			 * all-day instant 2000-01-01 + ki in a 360-day calendar; answer: the input indices in sorted order */
			unsigned long long N = 0, seed = 0, K = 1; int mode = 0;
			sscanf(line + 8, "%llu %llu %llu %d", &N, &seed, &K, &mode);
			if (K == 0) K = 1;
			echs_event_t *e = calloc(N + 1, sizeof(*e));
			unsigned long long s = seed;
			for (size_t i = 0; i < N; i++) {
				unsigned long long ki;
				s = s * 6364136223846793005ULL + 1442695040888963407ULL;
				switch (mode) {
				default: ki = (s >> 33) % K; break;
				case 1: ki = (unsigned long long)i * K / N; break;
				case 2: ki = K - 1 - (unsigned long long)i * K / N; break;
				case 3: ki = (i % 1000) * K / 1000; break;
				}
				e[i].from = (echs_instant_t){.y = 2000 + ki / 360, .m = 1 + (ki / 30) % 12, .d = 1 + ki % 30, .H = ECHS_ALL_DAY};
				e[i].oid = (echs_oid_t)i;
			}
			echs_event_sort(e, N);
			for (size_t i = 0; i < N; i++) printf("%s%zu", i ? " " : "", (size_t)e[i].oid);
			putchar('\n');
			free(e);
			continue;
		}
		/* split on single spaces, at most 16 fields; the last one takes the rest */
		for (char *p = line; n < 16;) {
			a[n++] = p;
			if (n == 16) break;
			char *q = strchr(p, ' ');
			if (!q) break;
			*q = 0; p = q + 1;
		}
		const char *op = a[0];
		if (!strcmp(op, "i.fixup") && n == 2) {
			printf("%016" PRIx64 "\n", echs_instant_fixup(rdi(a[1])).u);
		} else if (!strcmp(op, "i.diff") && n == 3) {
			printf("%" PRId64 "\n", echs_instant_diff(rdi(a[1]), rdi(a[2])).d);
		} else if (!strcmp(op, "i.add") && n == 3) {
			echs_idiff_t d = {strtoll(a[2], NULL, 10)};
			printf("%016" PRIx64 "\n", echs_instant_add(rdi(a[1]), d).u);
		} else if (!strcmp(op, "i.lt") && n == 3) {
			printf("%d\n", (int)echs_instant_lt_p(rdi(a[1]), rdi(a[2])));
		} else if (!strcmp(op, "i.le") && n == 3) {
			printf("%d\n", (int)echs_instant_le_p(rdi(a[1]), rdi(a[2])));
		} else if (!strcmp(op, "i.toepoch") && n == 2) {
			printf("%lld\n", (long long)echs_instant_to_epoch(rdi(a[1])));
		} else if (!strcmp(op, "i.frepoch") && n == 2) {
			printf("%016" PRIx64 "\n", epoch_to_echs_instant((time_t)strtoll(a[1], NULL, 10)).u);
		} else if (!strcmp(op, "i.tstamp") && n == 2) {
			printf("%lld\n", (long long)instant_to_tstamp(rdi(a[1])));
		} else if (!strcmp(op, "s.dtstrp") && (n == 3 || n == 2)) {
			static char str[8192];
			char *on = NULL;
			size_t len;
			memset(str, 0, 64);
			len = n == 3 ? unhex(a[1], str, sizeof(str)) : (str[0] = 0, 0);
			(void)len;
			echs_instant_t r = dt_strp(str, &on, strtoul(a[n - 1], NULL, 10));
			if (echs_nul_instant_p(r)) puts("nul");
			else printf("%016" PRIx64 " %ld\n", r.u, on ? (long)(on - str) : -1L);
		} else if (!strcmp(op, "s.dtstrf") && n == 2) {
			char buf[256];
			size_t z = dt_strf(buf, sizeof(buf), rdi(a[1]));
			puthex(buf, z); putchar('\n');
		} else if (!strcmp(op, "s.dtstrfical") && n == 2) {
			char buf[256];
			size_t z = dt_strf_ical(buf, sizeof(buf), rdi(a[1]));
			puthex(buf, z); putchar('\n');
		} else if (!strcmp(op, "s.idiffstrp") && (n == 2 || n == 1)) {
			static char str[8192];
			char *on = NULL;
			size_t len = n == 2 ? unhex(a[1], str, sizeof(str)) : (str[0] = 0, 0);
			echs_idiff_t d = idiff_strp(str, &on, len);
			printf("%" PRId64 " %ld\n", d.d, on ? (long)(on - str) : -1L);
		} else if (!strcmp(op, "s.idiffstrf") && n == 2) {
			char buf[256];
			echs_idiff_t d = {strtoll(a[1], NULL, 10)};
			size_t z = idiff_strf(buf, sizeof(buf), d);
			puthex(buf, z); putchar('\n');
		} else if (!strcmp(op, "c.conv") && n == 6) {
			/* c.conv SRC Y M D TGT : all-day date in scale SRC rescaled to TGT */
			echs_instant_t i = {.u = 0};
			i.y = atoi(a[2]); i.m = atoi(a[3]); i.d = atoi(a[4]); i.H = ECHS_ALL_DAY;
			i = echs_instant_attach_scale(i, (echs_scale_t)atoi(a[1]));
			echs_instant_t r = echs_instant_rescale(i, (echs_scale_t)atoi(a[5]));
			if (echs_nul_instant_p(r)) puts("nul");
			else {
				echs_instant_t q = echs_instant_detach_scale(r);
				printf("%u %u %u s%u\n", q.y, q.m, q.d, (unsigned)echs_instant_scale(r));
			}
		} else if (!strcmp(op, "c.ndim") && n == 4) {
			printf("%u\n", echs_scale_ndim((echs_scale_t)atoi(a[1]), atoi(a[2]), atoi(a[3])));
		} else if (!strcmp(op, "c.wday") && n == 5) {
			printf("%u\n", (unsigned)echs_scale_wday((echs_scale_t)atoi(a[1]), atoi(a[2]), atoi(a[3]), atoi(a[4])));
		} else if (!strcmp(op, "z.glibc") && n >= 3) {
			/* oracle: the system's zone database through glibc.
			 * z.glibc ZONE u:Y-M-D-h-m-s (mktime, both isdst guesses) / l:EPOCH (localtime) */
			setenv("TZ", a[1], 1);
			tzset();
			int first = 1;
			for (int k = 2; k < n; k++) {
				for (char *p = strtok(a[k], " "); p; p = strtok(NULL, " ")) {
					if (*p == 'l') {
						time_t t = strtoll(p + 2, NULL, 10);
						struct tm tm;
						localtime_r(&t, &tm);
						printf("%s%d-%d-%d-%d-%d-%d/%ld", first ? "" : " ", tm.tm_year + 1900, tm.tm_mon + 1, tm.tm_mday,
						       tm.tm_hour, tm.tm_min, tm.tm_sec, tm.tm_gmtoff);
					} else {
						struct tm tm = {0};
						int Y, M, D, h, m, sec;
						sscanf(p + 2, "%d-%d-%d-%d-%d-%d", &Y, &M, &D, &h, &m, &sec);
						long r[2];
						for (int dst = 0; dst < 2; dst++) {
							memset(&tm, 0, sizeof(tm));
							tm.tm_year = Y - 1900; tm.tm_mon = M - 1; tm.tm_mday = D;
							tm.tm_hour = h; tm.tm_min = m; tm.tm_sec = sec; tm.tm_isdst = dst;
							r[dst] = (long)mktime(&tm);
						}
						printf("%s%ld/%ld", first ? "" : " ", r[0], r[1]);
					}
					first = 0;
				}
			}
			putchar('\n');
		} else {
			puts("bad-op");
		}
	}
	return 0;
}
