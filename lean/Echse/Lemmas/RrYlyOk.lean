/-
  FREQ=YEARLY filler model (Echse.Model.RrYly): properties C09 / C16 of one call `fillYly r proto nti`.
-/
import Echse.Lemmas.RrCandOk5
namespace Echse.Lemmas.RrYlyOk
open Echse.Rrule Echse.Instant Echse.Spec.RrOk
open Echse.Lemmas.RrCandOk

/-- the set-up of `rrul_fill_yly` -/
def ylyCtxOf (r : Rule) (proto : Inst) (nti : Nat) : YlyCtx :=
    let ymdp := r.wk.isEmpty ∧ r.dow.isEmpty ∧ r.doy.isEmpty ∧ r.easter.isEmpty ∧ r.dom.isEmpty
    let k := mkFillCtx r proto nti
    let ms := r.mon.take 12
    let ms := if ms.isEmpty ∧ ymdp ∧ proto.m ≠ 0 then [proto.m] else ms
    let ds := r.dom.take 62
    let ds := if ds.isEmpty ∧ ymdp ∧ proto.d ≠ 0 then [(proto.d : Int)] else ds
    let wdMask := wdMaskOf r.dow
    let pdow : List Int :=
      if wdMask = 0 ∧ !r.wk.isEmpty ∧ ds.isEmpty ∧ r.doy.isEmpty ∧ proto.m ≠ 0 ∧ proto.m ≤ 12 then
        [(ymdGetWday proto.y proto.m proto.d : Int)]
      else []
    { k := k, r := r, ms := ms, ds := ds, wdMask := wdMask, pdow := pdow }

/-- the year the loop starts with -/
def ylyStart (r : Rule) (proto : Inst) : Nat :=
    let y := proto.y
    if (shDvalue r.shift > 0 ∨ (shBdayP r.shift ∧ !shNegP r.shift)) ∧ r.inter ≤ y then y - r.inter else y

theorem fillYly_eq (r : Rule) (proto : Inst) (n : Nat) : fillYly r proto n =
    if r.scale ≠ 0 ∨ proto.y ≥ 4096 then none else
    match capNti r n with
    | none => some []
    | some nti =>
      if proto.m > 12 ∨ proto.d > 31 then some [] else
      some (ylyLoop (ylyCtxOf r proto nti) (64 * (nti + 1) + 2101) (ylyStart r proto) 64 {}).out.reverse := rfl

/-- induction over the year loop: an invariant kept by every period holds at the end -/
theorem ylyLoop_ind (c : YlyCtx) (J : Nat → FillSt → Prop)
    (hstep : ∀ y st, y ≤ maxYear → J y st → J ((y + c.r.inter) % u32) (finishPeriod c.k y (ylyCand c y) st)) :
    ∀ fuel y tries st, J y st → ∃ y', J y' (ylyLoop c fuel y tries st) := by
  intro fuel
  induction fuel with
  | zero => intro y _ st h; exact ⟨y, h⟩
  | succ fuel ih =>
    intro y tries st h
    unfold ylyLoop
    split
    · exact ⟨y, h⟩
    simp only []
    split
    · exact ⟨y, h⟩
    split
    · exact ⟨y, h⟩
    rename_i hy
    have h' := hstep y st (by omega) h
    split
    · exact ⟨_, h'⟩
    · exact ih _ _ _ h'

theorem ylyCtxOf_k (r : Rule) (p : Inst) (nti : Nat) : (ylyCtxOf r p nti).k = mkFillCtx r p nti := rfl
theorem ylyCtxOf_r (r : Rule) (p : Inst) (nti : Nat) : (ylyCtxOf r p nti).r = r := rfl

/-- the loop keeps `res` = number written ≤ `nti`, and everything written passed the UNTIL and the seed test -/
theorem ylyLoop_base (c : YlyCtx) (fuel y tries : Nat) (st : FillSt) (hb : Base c.k st)
    (hg : ∀ x ∈ st.out, ltP c.k.untl x = false ∧ ltP x c.k.proto = false) :
    Base c.k (ylyLoop c fuel y tries st) ∧
      ∀ x ∈ (ylyLoop c fuel y tries st).out, ltP c.k.untl x = false ∧ ltP x c.k.proto = false := by
  obtain ⟨_, h⟩ := ylyLoop_ind c
    (fun _ st => Base c.k st ∧ ∀ x ∈ st.out, ltP c.k.untl x = false ∧ ltP x c.k.proto = false)
    (fun y st _ h => by
      have he := finishPeriod_emits c.k y (ylyCand c y) st
      exact ⟨he.base h.1, he.inv (fun x _ h1 h2 => ⟨h1, h2⟩) h.2⟩)
    fuel y tries st ⟨hb, hg⟩
  exact h

/-- what `fillYly` returns: nothing, or the cache of the year loop -/
theorem fillYly_some (r : Rule) (p : Inst) (n : Nat) (l : List Inst) (h : fillYly r p n = some l) :
    l = [] ∨ ∃ nti, capNti r n = some nti ∧
      l = (ylyLoop (ylyCtxOf r p nti) (64 * (nti + 1) + 2101) (ylyStart r p) 64 {}).out.reverse := by
  rw [fillYly_eq] at h
  split at h
  · cases h
  split at h
  · injection h with h; exact Or.inl h.symm
  · rename_i nti hc
    split at h
    · injection h with h; exact Or.inl h.symm
    · injection h with h
      exact Or.inr ⟨nti, hc, h.symm⟩

/-- C09 / C16: at most `nti` and at most COUNT instants are written -/
theorem fillYly_len (r : Rule) (p : Inst) (n : Nat) (l : List Inst) (hr : WfRule r) (h : fillYly r p n = some l) :
    l.length ≤ n ∧ (0 ≤ r.count → (l.length : Int) ≤ r.count) := by
  rcases fillYly_some r p n l h with rfl | ⟨nti, hc, rfl⟩
  · exact ⟨Nat.zero_le _, fun h => h⟩
  · have hb := (ylyLoop_base (ylyCtxOf r p nti) (64 * (nti + 1) + 2101) (ylyStart r p) 64 {} (Base.init _)
      (fun x hx => by cases hx)).1
    have hcap := capNti_le r n nti hr hc
    have hl : (ylyLoop (ylyCtxOf r p nti) (64 * (nti + 1) + 2101) (ylyStart r p) 64 {}).out.length ≤ nti := by
      have := hb.le; rw [hb.len] at this; exact this
    rw [List.length_reverse]
    refine ⟨by omega, fun h0 => ?_⟩
    have := hcap.2 h0
    omega

/-- C16: nothing before the seed, nothing after UNTIL -/
theorem fillYly_bounds (r : Rule) (p : Inst) (n : Nat) (l : List Inst) (h : fillYly r p n = some l) :
    (∀ x ∈ l, ltP x p = false) ∧ (∀ x ∈ l, ltP r.untl x = false) := by
  rcases fillYly_some r p n l h with rfl | ⟨nti, hc, rfl⟩
  · exact ⟨fun x hx => (nomatch hx), fun x hx => (nomatch hx)⟩
  · have hb := (ylyLoop_base (ylyCtxOf r p nti) (64 * (nti + 1) + 2101) (ylyStart r p) 64 {} (Base.init _)
      (fun x hx => by cases hx)).2
    exact ⟨fun x hx => (hb x (List.mem_reverse.mp hx)).2, fun x hx => (hb x (List.mem_reverse.mp hx)).1⟩
/-- beyond the supported range the loop does nothing -/
theorem ylyLoop_beyond (c : YlyCtx) (f y tries : Nat) (st : FillSt) (hy : maxYear < y) : ylyLoop c f y tries st = st := by
  cases f with
  | zero => rfl
  | succ f =>
    unfold ylyLoop
    split
    · rfl
    simp only []
    split
    · rfl
    first
      | rfl
      | (split
         · rfl
         · omega)

/-- C09: the fuel never runs out — the year grows by `inter ≥ 1` every round and the loop ends beyond 2099, so
any two amounts of fuel that reach beyond 2100 give the same run -/
theorem ylyLoop_fuel (c : YlyCtx) (hi : 1 ≤ c.r.inter ∧ c.r.inter < 2147483648) :
    ∀ f f' y tries st, 2100 < y + f → 2100 < y + f' → ylyLoop c f y tries st = ylyLoop c f' y tries st := by
  intro f
  induction f with
  | zero =>
    intro f' y tries st h _
    rw [ylyLoop_beyond c 0 y tries st (by unfold maxYear; omega), ylyLoop_beyond c f' y tries st (by unfold maxYear; omega)]
  | succ f ih =>
    intro f' y tries st h h'
    cases f' with
    | zero => rw [ylyLoop_beyond c _ y tries st (by unfold maxYear; omega), ylyLoop_beyond c 0 y tries st (by unfold maxYear; omega)]
    | succ f' =>
      unfold ylyLoop
      split
      · rfl
      simp only []
      split
      · rfl
      split
      · rfl
      rename_i hy
      split
      · rfl
      · have hu : u32 = 4294967296 := rfl
        unfold maxYear at hy
        apply ih <;> (rw [hu]; omega)

theorem fillYly_total (r : Rule) (p : Inst) (n : Nat) (hr : WfRule r) (hp : WfInst p) (_hn : n ≤ 64) :
    (fillYly r p n).isSome := by
  rw [fillYly_eq]
  have h1 := hr.scale
  have h2 := hp.year
  rw [if_neg (by omega)]
  split
  · rfl
  · split <;> rfl

/-- `fillYly_total` says little, as the model returns the cache also when its fuel is used up; this is the content:
the fuel `fillYly` gives the loop is enough — any larger amount leads to the same run -/
theorem fillYly_fuel_enough (r : Rule) (p : Inst) (nti F : Nat) (hr : WfRule r)
    (hF : 64 * (nti + 1) + 2101 ≤ F) :
    ylyLoop (ylyCtxOf r p nti) F (ylyStart r p) 64 {} =
      ylyLoop (ylyCtxOf r p nti) (64 * (nti + 1) + 2101) (ylyStart r p) 64 {} :=
  ylyLoop_fuel _ hr.inter _ _ _ _ _ (by omega) (by omega)

/-- the first part of `ylyCand`: note 2 on page 44, RFC 5545 -/
def ylyCand0 (c : YlyCtx) (y : Nat) : List Nat :=
  let r := c.r
  let nm := c.ms.length
  let nd := c.ds.length
  let cand : List Nat := []
    if c.wdMask ≠ 0 ∧ (nd ≠ 0 ∨ !r.doy.isEmpty) then cand
    else if c.wdMask ≠ 0 ∧ !r.wk.isEmpty then fillYlyYwd cand y r.wk r.dow
    else if !c.pdow.isEmpty then fillYlyYwd cand y r.wk c.pdow
    else if c.wdMask ≠ 0 ∧ nm ≠ 0 then
      let cand := if c.wdMask % 2 = 1 then fillYlyYmcw cand y r.dow c.ms else cand
      fillYlyMdAll cand y c.ms c.wdMask
    else if c.wdMask ≠ 0 then
      let cand := if c.wdMask % 2 = 1 then fillYlyYcw cand y r.dow else cand
      fillYlyYdAll cand y c.wdMask
    else cand

/-- the candidates before `lim_cand`: the parts expanded on their own account -/
def ylyCand1 (c : YlyCtx) (y : Nat) : List Nat :=
    (let cand := fillYlyYd (ylyCand0 c y) y c.r.doy c.r.dow c.wdMask (c.ms.length > 0)
     if !c.r.easter.isEmpty then fillYlyEastr cand y c.r.easter c.r.mon c.r.dom c.wdMask
     else if c.ms.length = 0 ∧ c.ds.length = 0 then cand
     else if c.ms.length = 0 then fillYlyYmdAllM cand y c.ds c.r.dow c.wdMask
     else if c.ds.length = 0 then fillYlyYmdAllD cand y c.ms c.wdMask
     else fillYlyYmd cand y c.ms c.ds c.r.dow c.wdMask)

theorem ylyCand_eq (c : YlyCtx) (y : Nat) : ylyCand c y =
    (if c.r.easter.isEmpty ∧ (!c.r.wk.isEmpty ∨ !c.r.doy.isEmpty) then
       limCand (ylyCand1 c y) y c.r.mon c.r.dom c.r.wk c.r.doy c.pdow
     else ylyCand1 c y) := rfl

theorem AllVC.filter {y : Nat} {l : List Nat} (p : Nat → Bool) (h : AllVC y l) : AllVC y (l.filter p) :=
  ⟨fun c hc => h.1 c (List.mem_filter.mp hc).1, List.Pairwise.sublist List.filter_sublist h.2⟩

theorem ylyCand0_ok (c : YlyCtx) (y : Nat) (hms : ∀ m ∈ c.ms, 1 ≤ m ∧ m ≤ 12)
    (hdow : ∀ t ∈ c.r.dow, -431 ≤ t ∧ t ≤ 431 ∧ t % 8 ≠ 0) : AllVC y (ylyCand0 c y) := by
  unfold ylyCand0
  dsimp only
  split
  · exact AllVC.nil y
  split
  · exact fillYlyYwd_ok _ _ _ _ (AllVC.nil y)
  split
  · exact fillYlyYwd_ok _ _ _ _ (AllVC.nil y)
  split
  · refine fillYlyMdAll_ok _ _ _ _ ?_ hms
    split
    · exact fillYlyYmcw_ok _ _ _ _ (AllVC.nil y) hms hdow
    · exact AllVC.nil y
  split
  · refine fillYlyYdAll_ok _ _ _ ?_
    split
    · exact fillYlyYcw_ok _ _ _ (AllVC.nil y) hdow
    · exact AllVC.nil y
  · exact AllVC.nil y

/-- every candidate of a year is a real date of that year -/
theorem ylyCand1_ok (c : YlyCtx) (y : Nat) (hms : ∀ m ∈ c.ms, 1 ≤ m ∧ m ≤ 12) (hds : ∀ d ∈ c.ds, -31 ≤ d ∧ d ≤ 31)
    (hdow : ∀ t ∈ c.r.dow, -431 ≤ t ∧ t ≤ 431 ∧ t % 8 ≠ 0) (hdoy : ∀ d ∈ c.r.doy, -366 ≤ d) :
    AllVC y (ylyCand1 c y) := by
  unfold ylyCand1
  have h1 := fillYlyYd_ok _ y c.r.doy c.r.dow c.wdMask (c.ms.length > 0) (ylyCand0_ok c y hms hdow) hdoy
  dsimp only
  split
  · exact fillYlyEastr_ok _ _ _ _ _ _ h1
  split
  · exact h1
  split
  · exact fillYlyYmdAllM_ok _ _ _ _ _ h1 hds
  split
  · exact fillYlyYmdAllD_ok _ _ _ _ h1 hms
  · exact fillYlyYmd_ok _ _ _ _ _ _ h1 hms hds

theorem ylyCand_ok (c : YlyCtx) (y : Nat) (hms : ∀ m ∈ c.ms, 1 ≤ m ∧ m ≤ 12) (hds : ∀ d ∈ c.ds, -31 ≤ d ∧ d ≤ 31)
    (hdow : ∀ t ∈ c.r.dow, -431 ≤ t ∧ t ≤ 431 ∧ t % 8 ≠ 0) (hdoy : ∀ d ∈ c.r.doy, -366 ≤ d) :
    AllVC y (ylyCand c y) := by
  rw [ylyCand_eq]
  have h1 := ylyCand1_ok c y hms hds hdow hdoy
  split
  · exact AllVC.filter _ h1
  · exact h1

theorem mem_take {α : Type} (l : List α) (n : Nat) (x : α) (h : x ∈ l.take n) : x ∈ l :=
  (List.take_sublist n l).subset h

theorem ylyCtxOf_ms (r : Rule) (p : Inst) (nti : Nat) (hr : WfRule r) (hp : WfInst p) :
    ∀ m ∈ (ylyCtxOf r p nti).ms, 1 ≤ m ∧ m ≤ 12 := by
  intro m hm
  unfold ylyCtxOf at hm
  dsimp only at hm
  split at hm
  · simp only [List.mem_singleton] at hm; rw [hm]; exact hp.month
  · exact hr.mon.2 m (mem_take _ _ _ hm)

theorem ylyCtxOf_ds (r : Rule) (p : Inst) (nti : Nat) (hr : WfRule r) (hp : WfInst p) :
    ∀ d ∈ (ylyCtxOf r p nti).ds, -31 ≤ d ∧ d ≤ 31 := by
  intro d hd
  unfold ylyCtxOf at hd
  dsimp only at hd
  split at hd
  · simp only [List.mem_singleton] at hd
    have := hp.day; have := getNdom_le p.y p.m
    omega
  · have := hr.dom d (mem_take _ _ _ hd); omega
/-- C16 (sane instants), as far as it holds: every instant written is a real date between 1601 and 2100 with a
proper time of day — provided `shift()` keeps dates real for this rule's SHIFT (`ShiftKeepsDates`, which holds
without a SHIFT).  (Next to an all-day seed `make_enum` ignores BYHOUR / BYMINUTE / BYSECOND, so no proviso on the
kind of the seed is needed.) -/
theorem fillYly_wf (r : Rule) (p : Inst) (n : Nat) (l : List Inst) (hr : WfRule r) (hp : WfInst p)
    (hs : ShiftKeepsDates r.shift) (h : fillYly r p n = some l) : ∀ x ∈ l, WfInst x := by
  rcases fillYly_some r p n l h with rfl | ⟨nti, _, rfl⟩
  · exact fun x hx => (nomatch hx)
  · have hc : ∀ y, AllVC y (ylyCand (ylyCtxOf r p nti) y) := fun y =>
      ylyCand_ok _ y (ylyCtxOf_ms r p nti hr hp) (ylyCtxOf_ds r p nti hr hp)
        (fun t ht => by have := hr.dow t ht; exact ⟨this.2.1, this.2.2.1, this.2.2.2⟩)
        (fun d hd => (hr.doy d hd).2.1)
    obtain ⟨_, hJ⟩ := ylyLoop_ind (ylyCtxOf r p nti) (fun _ st => ∀ x ∈ st.out, WfInst x)
      (fun y st hy hJ => by
        have he := finishPeriod_emits (ylyCtxOf r p nti).k y (ylyCand (ylyCtxOf r p nti) y) st
        refine he.inv (fun x hx _ h2 => ?_) hJ
        exact finE_wf _ y _ hy (hc y) hs (times_ok r p hr hp) hp.year x hx h2)
      (64 * (nti + 1) + 2101) (ylyStart r p) 64 {} (fun x hx => nomatch hx)
    exact fun x hx => hJ x (List.mem_reverse.mp hx)

/-- C16 (ordered): what is written is strictly ascending.  Under a SHIFT because the emission skips whatever is not
later than the last instant written; without one because candidate days, times of day and years all ascend. -/
theorem fillYly_asc (r : Rule) (p : Inst) (n : Nat) (l : List Inst) (hr : WfRule r) (hp : WfInst p)
    (h : fillYly r p n = some l) : l.Pairwise (fun a b => ltP a b = true) := by
  rcases fillYly_some r p n l h with rfl | ⟨nti, _, rfl⟩
  · exact List.Pairwise.nil
  refine List.pairwise_reverse.mpr ?_
  change Desc _
  by_cases hs : r.shift = 0
  · -- no SHIFT
    have hc : ∀ y, AllVC y (ylyCand (ylyCtxOf r p nti) y) := fun y =>
      ylyCand_ok _ y (ylyCtxOf_ms r p nti hr hp) (ylyCtxOf_ds r p nti hr hp)
        (fun t ht => by have := hr.dow t ht; exact ⟨this.2.1, this.2.2.1, this.2.2.2⟩)
        (fun d hd => (hr.doy d hd).2.1)
    obtain ⟨_, hJ⟩ := ylyLoop_ind (ylyCtxOf r p nti)
      (fun y st => Desc st.out ∧ ∀ a ∈ st.out, a.y % 65536 < y)
      (fun y st hy hJ => by
        unfold maxYear at hy
        have hu : u32 = 4294967296 := rfl
        have hi := hr.inter
        have hy' : (y + (ylyCtxOf r p nti).r.inter) % u32 = y + r.inter := by
          rw [ylyCtxOf_r, hu]; omega
        rw [hy']
        have he := finishPeriod_emits (ylyCtxOf r p nti).k y (ylyCand (ylyCtxOf r p nti) y) st
        have hE : ∀ x ∈ finE (ylyCtxOf r p nti).k y (ylyCand (ylyCtxOf r p nti) y), x.y % 65536 = y := by
          intro x hx
          rw [finE_noshift _ _ _ hs] at hx
          obtain ⟨yd, _, t, _, rfl⟩ := mem_setE _ _ _ x hx
          show y % 65536 % 65536 = y
          omega
        refine ⟨he.desc_of_sorted (finE_sorted r p nti y _ hr hp hs (by omega) (hc y)) ?_ hJ.1, ?_⟩
        · intro a ha x hx
          exact ltP_of_year_lt a x (by rw [hE x hx]; exact hJ.2 a ha)
        · refine he.inv (fun x hx _ _ => ?_) (fun a ha => ?_)
          · rw [hE x hx]; omega
          · have := hJ.2 a ha; omega)
      (64 * (nti + 1) + 2101) (ylyStart r p) 64 {} ⟨List.Pairwise.nil, fun a ha => nomatch ha⟩
    exact hJ.1
  · -- SHIFT: ordered by construction
    obtain ⟨_, hJ⟩ := ylyLoop_ind (ylyCtxOf r p nti) (fun _ st => Base (ylyCtxOf r p nti).k st ∧ Desc st.out)
      (fun y st _ hJ => by
        have he := finishPeriod_emits (ylyCtxOf r p nti).k y (ylyCand (ylyCtxOf r p nti) y) st
        exact ⟨he.base hJ.1, he.desc hs hJ.1 hJ.2⟩)
      (64 * (nti + 1) + 2101) (ylyStart r p) 64 {} ⟨Base.init _, List.Pairwise.nil⟩
    exact hJ.2
/-- C16 / C09 for one call of the yearly filler, under the proviso of `fillYly_wf`:
* `hs : ShiftKeepsDates r.shift` — `shift()` maps real dates of a year ≤ 2099 to real dates of the year their set is
  emitted under (true for SHIFT absent, `shiftKeepsDates_zero`; false for large shifts, e.g. SHIFT=-672).
It is needed for `wf` only; see `fillYly_ok_counterexample`. -/
theorem fillYly_ok_partial (r : Rule) (p : Inst) (n : Nat) (l : List Inst) (hr : WfRule r) (hp : WfInst p) (_hn : n ≤ 64)
    (hs : ShiftKeepsDates r.shift) (h : fillYly r p n = some l) : FillOk r p n l :=
  { len_nti := (fillYly_len r p n l hr h).1
    len_count := (fillYly_len r p n l hr h).2
    wf := fillYly_wf r p n l hr hp hs h
    ge_proto := (fillYly_bounds r p n l h).1
    le_until := (fillYly_bounds r p n l h).2
    ascending := fillYly_asc r p n l hr hp h }

/-- the full statement for rules without SHIFT -/
theorem fillYly_ok_noshift (r : Rule) (p : Inst) (n : Nat) (l : List Inst) (hr : WfRule r) (hp : WfInst p) (hn : n ≤ 64)
    (hs : r.shift = 0) (h : fillYly r p n = some l) : FillOk r p n l :=
  fillYly_ok_partial r p n l hr hp hn (hs ▸ shiftKeepsDates_zero) h

/-- FREQ=YEARLY;BYMINUTE=30 on an all-day seed: BYMINUTE is ignored next to a DATE value (RFC 5545, 3.3.10), the
filler writes the plain all-day instant (before the repair of `make_enum`: hour 255 with minute 30) -/
theorem fillYly_allDay_byminute :
    fillYly { freq := 1, M := [30] } { y := 2000, m := 1, d := 1, H := 255, M := 0, S := 0, ms := 0 } 1 =
    some [{ y := 2000, m := 1, d := 1, H := 255, M := 0, S := 0, ms := 0 }] := by decide +kernel

/-- `ShiftKeepsDates` does fail for shifts that reach beyond the neighbouring year: SHIFT=-672 takes 2022-01-01 to
2020-02-29, which is filed under "previous year" and so stands for 2021-02-29 -/
theorem shiftKeepsDates_fails : ¬ ShiftKeepsDates (-672 * 65536) := by
  intro h
  have h1 : AllVC 2022 [1] := ⟨by unfold VC; decide, List.pairwise_singleton _ _⟩
  have h2 := (h 2022 [1] (by decide) h1).2.1 61 (by decide +kernel)
  revert h2
  unfold VC
  decide

/-- … and the fillers then write that date: FREQ=YEARLY;BYMONTH=1;BYMONTHDAY=1;SHIFT=-672 from 2021-01-01 -/
theorem fillYly_shift_counterexample :
    fillYly { freq := 1, shift := -672 * 65536, mon := [1], dom := [1] }
      { y := 2021, m := 1, d := 1, H := 255, M := 0, S := 0, ms := 0 } 1 =
    some [{ y := 2021, m := 2, d := 29, H := 255, M := 0, S := 0, ms := 0 }] := by decide +kernel

/-- `fillYly_ok` as first stated (without the proviso) is false: that call writes 2021-02-29 -/
theorem fillYly_ok_counterexample :
    ¬ ∀ (r : Rule) (p : Inst) (n : Nat) (l : List Inst), WfRule r → WfInst p → n ≤ 64 → fillYly r p n = some l →
      FillOk r p n l := by
  intro hall
  have hr : WfRule { freq := 1, shift := -672 * 65536, mon := [1], dom := [1] } := by
    constructor <;> simp [Asc]
  have hp : WfInst { y := 2021, m := 1, d := 1, H := 255, M := 0, S := 0, ms := 0 } :=
    { year := by decide, month := by decide, day := by decide, time := by decide, ms := by decide }
  have h := hall _ _ 1 _ hr hp (by decide) fillYly_shift_counterexample
  have := (h.wf _ List.mem_cons_self).day
  revert this
  decide

/-- … or a year out of range: INTERVAL=1601 with a forward day part makes the loop start in year 0, a backward
business-day part then reaches "the year before" -/
theorem fillYly_shift_counterexample2 :
    fillYly { freq := 1, inter := 1601, shift := 65557, mon := [1], dom := [1] }
      { y := 1601, m := 1, d := 1, H := 255, M := 0, S := 0, ms := 0 } 1 =
    some [{ y := 65535, m := 12, d := 26, H := 255, M := 0, S := 0, ms := 0 }] := by decide +kernel

end Echse.Lemmas.RrYlyOk
