/- stub: transcription of rrul_fill_Mnly pending -/
import Echse.Model.RrBase
namespace Echse.Rrule
open Echse.Instant

/-- `none` = not modelled yet -/
def fillMnly (_r : Rule) (_proto : Inst) (_nti : Nat) : Option (List Inst) := none

end Echse.Rrule
