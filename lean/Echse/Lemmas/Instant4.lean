import Echse.Lemmas.Instant3
/-
  `echs_instant_fixup`: the year/month/day loop and the H:M:S carries.
-/
namespace Echse.Instant
open Echse.Gen Echse.Spec.Cal

/-- day number of the first of month `m` of year `y`, where `m` may have overflowed past 12 -/
def mfirst (y m : Nat) : Int := days (y + (m - 1) / 12) ((m - 1) % 12 + 1) 1

theorem mfirst_norm (y m : Nat) (h1 : 1 ≤ m) (h2 : m ≤ 12) : mfirst y m = days y m 1 := by
  unfold mfirst
  rw [show (m - 1) / 12 = 0 by omega, show (m - 1) % 12 + 1 = m by omega]; rfl

theorem mfirst_succ (y m : Nat) (h1 : 1 ≤ m) (h2 : m ≤ 12) : mfirst y (m + 1) = days y m 1 + monthLen y m := by
  by_cases h : m = 12
  · subst h
    show days (y + 1) 1 1 = _
    rw [days_next_year]; rfl
  · rw [mfirst_norm y (m+1) (by omega) (by omega), days_next_month y m h1 (by omega)]

theorem fixupYmd_spec : ∀ (fuel : Nat) (e : Inst), 1 ≤ e.m → 1901 ≤ e.y → 1 ≤ e.d → e.d ≤ 28 * fuel →
    mfirst e.y e.m + e.d - 1 < days 2100 1 1 →
    ValidDate (fixupYmd fuel e) ∧ InRange (fixupYmd fuel e) ∧
    days (fixupYmd fuel e).y (fixupYmd fuel e).m (fixupYmd fuel e).d = mfirst e.y e.m + e.d - 1 ∧
    (fixupYmd fuel e).H = e.H ∧ (fixupYmd fuel e).M = e.M ∧ (fixupYmd fuel e).S = e.S ∧
    (fixupYmd fuel e).ms = e.ms := by
  intro fuel
  induction fuel with
  | zero => intro e _ _ h1 h2; omega
  | succ f ih =>
    intro e hm hy hd hf hT
    have hy2 : e.y + (e.m - 1) / 12 ≤ 2099 :=
      year_le_of_days _ ((e.m - 1) % 12 + 1) 1 (by omega) (by omega) (by omega) (by unfold mfirst at hT; omega)
    have he1 : (if e.m > 12 then { e with m := (e.m - 1) % 12 + 1, y := (e.y + (e.m - 1) / 12) % 65536 } else e)
        = { e with m := (e.m - 1) % 12 + 1, y := e.y + (e.m - 1) / 12 } := by
      split
      · rw [Nat.mod_eq_of_lt (by omega)]
      · exact inst_ext _ _ (by show e.y = e.y + (e.m - 1) / 12; omega) (by show e.m = (e.m - 1) % 12 + 1; omega) rfl rfl rfl rfl rfl
    unfold fixupYmd
    simp only [he1]
    generalize hy1 : e.y + (e.m - 1) / 12 = y1 at *
    generalize hm1 : (e.m - 1) % 12 + 1 = m1 at *
    have hm1a : 1 ≤ m1 := by omega
    have hm1b : m1 ≤ 12 := by omega
    have hT' : mfirst e.y e.m = days y1 m1 1 := by unfold mfirst; rw [hy1, hm1]
    rw [getMdays_eq y1 m1 (by omega) hy2 hm1a hm1b]
    have ml := monthLen_pos y1 m1 hm1a hm1b
    by_cases hgt : e.d > monthLen y1 m1
    · rw [if_pos hgt]
      have hs := mfirst_succ y1 m1 hm1a hm1b
      have := ih { e with m := (m1 + 1) % 256, y := y1, d := e.d - monthLen y1 m1 }
        (by show 1 ≤ (m1 + 1) % 256; omega) (by show 1901 ≤ y1; omega) (by show 1 ≤ e.d - _; omega)
        (by show e.d - _ ≤ _; omega)
        (by show mfirst y1 ((m1 + 1) % 256) + ((e.d - monthLen y1 m1 : Nat) : Int) - 1 < _
            rw [Nat.mod_eq_of_lt (by omega)]; omega)
      refine ⟨this.1, this.2.1, ?_, this.2.2.2⟩
      rw [this.2.2.1]
      show mfirst y1 ((m1 + 1) % 256) + ((e.d - monthLen y1 m1 : Nat) : Int) - 1 = _
      rw [Nat.mod_eq_of_lt (by omega)]; omega
    · rw [if_neg hgt]
      refine ⟨⟨hm1a, hm1b, hd, by show e.d ≤ monthLen y1 m1; omega⟩, ⟨by show 1901 ≤ y1; omega, hy2⟩, ?_, rfl, rfl, rfl, rfl⟩
      show days y1 m1 e.d = _
      rw [days_d]; omega
theorem fixupHMS_eq (e : Inst) (h1 : e.M + e.S / 60 < 256) (h2 : e.H + (e.M + e.S / 60) / 60 < 256)
    (h3 : e.d + (e.H + (e.M + e.S / 60) / 60) / 24 < 256) :
    fixupHMS e = { e with S := e.S % 60, M := (e.M + e.S / 60) % 60, H := (e.H + (e.M + e.S / 60) / 60) % 24,
                          d := e.d + (e.H + (e.M + e.S / 60) / 60) / 24 } := by
  have a1 : (if e.S ≥ 60 then { e with S := e.S % 60, M := (e.M + e.S / 60) % 256 } else e)
      = { e with S := e.S % 60, M := e.M + e.S / 60 } := by
    split
    · rw [Nat.mod_eq_of_lt h1]
    · exact inst_ext _ _ rfl rfl rfl rfl (by show e.M = e.M + e.S / 60; omega) (by show e.S = e.S % 60; omega) rfl
  unfold fixupHMS
  simp only [a1]
  generalize e.M + e.S / 60 = M1 at *
  have a2 : (if M1 ≥ 60 then ({ e with S := e.S % 60, M := M1 % 60, H := (e.H + M1 / 60) % 256 } : Inst)
        else { e with S := e.S % 60, M := M1 })
      = { e with S := e.S % 60, M := M1 % 60, H := e.H + M1 / 60 } := by
    split
    · rw [Nat.mod_eq_of_lt h2]
    · exact inst_ext _ _ rfl rfl rfl (by show e.H = e.H + M1 / 60; omega) (by show M1 = M1 % 60; omega) rfl rfl
  simp only [a2]
  generalize e.H + M1 / 60 = H1 at *
  split
  · rw [Nat.mod_eq_of_lt h3]
  · exact inst_ext _ _ rfl rfl (by show e.d = e.d + H1 / 24; omega) (by show H1 = H1 % 24; omega) rfl rfl rfl

/-- `fixup` on a timed instant whose carries fit their bit-fields -/
theorem fixup_timed_eq (e : Inst) (hH : e.H ≠ allDay) (hms : e.ms ≠ allSec)
    (h0 : e.S + e.ms / 1000 < 64)
    (h1 : e.M + (e.S + e.ms / 1000) / 60 < 256)
    (h2 : e.H + (e.M + (e.S + e.ms / 1000) / 60) / 60 < 256)
    (h3 : e.d + (e.H + (e.M + (e.S + e.ms / 1000) / 60) / 60) / 24 < 256) :
    fixup e = fixupYmd 300
      { e with ms := e.ms % 1000, S := (e.S + e.ms / 1000) % 60,
               M := (e.M + (e.S + e.ms / 1000) / 60) % 60,
               H := (e.H + (e.M + (e.S + e.ms / 1000) / 60) / 60) % 24,
               d := e.d + (e.H + (e.M + (e.S + e.ms / 1000) / 60) / 60) / 24 } := by
  have c1 : e.isAllDay = false := by simp [Inst.isAllDay, hH]
  have c2 : e.isAllSec = false := by simp [Inst.isAllSec, hms]
  have a0 : (if e.ms ≥ 1000 then { e with ms := e.ms % 1000, S := (e.S + e.ms / 1000) % 64 } else e)
      = { e with ms := e.ms % 1000, S := e.S + e.ms / 1000 } := by
    split
    · rw [Nat.mod_eq_of_lt h0]
    · exact inst_ext _ _ rfl rfl rfl rfl rfl (by show e.S = e.S + e.ms / 1000; omega) (by show e.ms = e.ms % 1000; omega)
  unfold fixup
  simp only [c1, c2, a0, Bool.false_eq_true, if_false]
  rw [fixupHMS_eq _ h1 h2 h3]

theorem fixup_general (e : Inst) (hH : e.H ≠ allDay) (hms : e.ms ≠ allSec)
    (hm : 1 ≤ e.m) (hy : 1901 ≤ e.y) (hd : 1 ≤ e.d)
    (h0 : e.S + e.ms / 1000 < 64)
    (h1 : e.M + (e.S + e.ms / 1000) / 60 < 256)
    (h2 : e.H + (e.M + (e.S + e.ms / 1000) / 60) / 60 < 256)
    (h3 : e.d + (e.H + (e.M + (e.S + e.ms / 1000) / 60) / 60) / 24 < 256)
    (hT : mfirst e.y e.m + (e.d + (e.H + (e.M + (e.S + e.ms / 1000) / 60) / 60) / 24 : Nat) - 1 < days 2100 1 1) :
    Normal (fixup e) ∧ InRange (fixup e) ∧
    absMs (fixup e) = mfirst e.y e.m * 86400000 + ((e.d : Int) - 1) * 86400000 +
      (((e.H : Int) * 60 + e.M) * 60 + e.S) * 1000 + e.ms := by
  rw [fixup_timed_eq e hH hms h0 h1 h2 h3]
  obtain ⟨v, r, ed, eH, eM, eS, ems⟩ := fixupYmd_spec 300
      { e with ms := e.ms % 1000, S := (e.S + e.ms / 1000) % 60,
               M := (e.M + (e.S + e.ms / 1000) / 60) % 60,
               H := (e.H + (e.M + (e.S + e.ms / 1000) / 60) / 60) % 24,
               d := e.d + (e.H + (e.M + (e.S + e.ms / 1000) / 60) / 60) / 24 } (by exact hm) (by exact hy)
    (by show 1 ≤ e.d + _; omega) (by show e.d + _ ≤ _; omega) (by exact hT)
  refine ⟨⟨v, ?_, ?_, ?_, ?_⟩, r, ?_⟩
  · rw [eH]; show _ % 24 < 24; omega
  · rw [eM]; show _ % 60 < 60; omega
  · rw [eS]; show _ % 60 < 60; omega
  · rw [ems]; show _ % 1000 < 1000; omega
  · simp only [absMs, msPerDay]
    rw [ed, eH, eM, eS, ems]
    show (mfirst e.y e.m + ((e.d + (e.H + (e.M + (e.S + e.ms / 1000) / 60) / 60) / 24 : Nat) : Int) - 1) * 86400000 +
      (((((e.H + (e.M + (e.S + e.ms / 1000) / 60) / 60) % 24 : Nat) : Int) * 60 + ((e.M + (e.S + e.ms / 1000) / 60) % 60 : Nat)) * 60
        + ((e.S + e.ms / 1000) % 60 : Nat)) * 1000 + (e.ms % 1000 : Nat) = _
    omega

theorem fixupYmd_idem (fuel : Nat) (e : Inst) (hv : ValidDate e) : fixupYmd (fuel + 1) e = e := by
  obtain ⟨h1, h2, h3, h4⟩ := hv
  have := monthLen_le_getMdays e.y e.m h1 h2
  unfold fixupYmd
  have c : ¬ e.m > 12 := by omega
  simp only [c, if_false]
  rw [if_neg (by omega)]

theorem fixupHMS_idem (e : Inst) (h1 : e.H < 24) (h2 : e.M < 60) (h3 : e.S < 60) : fixupHMS e = e := by
  unfold fixupHMS
  have c1 : ¬ e.S ≥ 60 := by omega
  have c2 : ¬ e.M ≥ 60 := by omega
  have c3 : ¬ e.H ≥ 24 := by omega
  simp only [c1, c2, c3, if_false]

theorem fixup_idem (e : Inst) (h : Normal e) : fixup e = e := by
  obtain ⟨hv, h1, h2, h3, h4⟩ := h
  have c1 : e.isAllDay = false := by simp [Inst.isAllDay, allDay]; omega
  have c2 : e.isAllSec = false := by simp [Inst.isAllSec, allSec]; omega
  have c3 : ¬ e.ms ≥ 1000 := by omega
  unfold fixup
  simp only [c1, c2, c3, Bool.false_eq_true, if_false]
  rw [fixupHMS_idem e h1 h2 h3, fixupYmd_idem 299 e hv]

theorem fixup_idem_sec (e : Inst) (h : NormalSec e) : fixup e = e := by
  obtain ⟨hv, h1, h2, h3, h4⟩ := h
  have c1 : e.isAllDay = false := by simp [Inst.isAllDay, allDay]; omega
  have c2 : e.isAllSec = true := by simp [Inst.isAllSec, h4]
  unfold fixup
  simp only [c1, c2, Bool.false_eq_true, if_false, if_true]
  rw [fixupHMS_idem e h1 h2 h3, fixupYmd_idem 299 e hv]

theorem fixup_idem_day (e : Inst) (h : NormalDay e) : fixup e = e := by
  obtain ⟨hv, h1⟩ := h
  have c1 : e.isAllDay = true := by simp [Inst.isAllDay, h1]
  unfold fixup
  simp only [c1, if_true]
  exact fixupYmd_idem 299 e hv
theorem mfirst_lt (y m : Nat) (k : Int) (hy : y + (m - 1) / 12 ≤ 2097) (hk : k ≤ 255) :
    mfirst y m + k - 1 < days 2100 1 1 := by
  unfold mfirst
  generalize y + (m - 1) / 12 = y1 at *
  have a := days_month_mono y1 ((m - 1) % 12 + 1) 12 (by omega) (by omega) (by omega)
  have b := days_next_year y1
  have c := days_year_mono (y1 + 1) 2098 (by omega)
  have d : days 2098 1 1 + 730 = days 2100 1 1 := by decide
  omega
end Echse.Instant
