/-
  C01, `fillMnly` (FREQ=MINUTELY) against RFC 5545, part 2: the loop.  Soundness: whatever is written lies in a minute
  of the grid `seed + j * INTERVAL` that passes the limits, at an enumerated second.  Completeness: an instance not yet
  passed is written, unless the list fills up before it.
-/
import Echse.Lemmas.RrMnlyRfc
namespace Echse.Lemmas.RrMnlyRfc
open Echse.Rrule Echse.Instant Echse.Spec.RrOk Echse.Lemmas.RrSubOk Echse.Spec.Rfc Echse.Spec.Cal Echse.Spec.RuleExt
open Echse.Lemmas.RrMnlyOk Echse.Lemmas.RrSubRfc

theorem cand_m (p : Inst) (y m d H M s : Nat) (hy1 : 1901 ≤ y) (hy2 : y ≤ 2099) (hm1 : 1 ≤ m) (hm2 : m ≤ 12)
    (hd1 : 1 ≤ d) (hd2 : d ≤ getNdom y m) (hH : H < 24) (hM : M < 60) (hs : s < 60) (hms : p.ms < 1024) :
    VT (cand p y m d H M s) ∧ mabsOf (cand p y m d H M s) = mcabs y m d H M ∧
    absOf (cand p y m d H M s) = mcabs y m d H M * 60 + s ∧
    mkInst y m d H M s p.ms = cand p y m d H M s := by
  obtain ⟨hv, ha⟩ := cand_vt p y m d H M s hy1 hy2 hm1 hm2 hd1 hd2 hH hM hs
  have hb := getNdom_bounds y m hm1 hm2
  refine ⟨hv, rfl, ?_, mkInst_id y m d H M s p.ms (by omega) hm2 (by omega) hH hM hs hms⟩
  rw [ha]; simp only [cabs, mcabs]; omega

theorem lim_cand (r : Rule) (p : Inst) (y m d H M s s' : Nat) :
    MnlyLim r (cand p y m d H M s) ↔ MnlyLim r (cand p y m d H M s') := Iff.rfl

/-- what the loop has written: an instant whose minute lies on the grid `A0 + j * inter` and passes the limits, whose
second is one of the enumerated ones, not before the seed -/
def MnlyGood (r : Rule) (p : Inst) (A0 : Int) (z : Inst) : Prop :=
  VT z ∧ z.ms = p.ms ∧ MnlyLim r z ∧ (∃ j : Nat, mabsOf z = A0 + ((j * r.inter : Nat) : Int)) ∧
  (∃ i, (z.S, i) ∈ (subEnum p r).S.zipIdx ∧ posPickP r.pos i (subEnum p r).S.length = true) ∧ ltP z p = false

theorem mnlyLoop_sound (r : Rule) (p : Inst) (k : Nat) (hr : WfRule r) (hp : WfInst p) (A0 : Int) :
    ∀ (fuel y m d H M w cnt : Nat) (acc acc' : List Inst), 1901 ≤ y → 1 ≤ m → m ≤ 12 → 1 ≤ d →
      d ≤ getNdom y m → H < 24 → M < 60 →
      (y ≤ 2099 → w = wdayOf (days y m d) ∧ ∃ j : Nat, mcabs y m d H M = A0 + ((j * r.inter : Nat) : Int)) →
      mnlyLoop (mkSubCtx r p k) (subEnum p r).S.zipIdx fuel y m d H M w (getNdom y m) cnt acc = some acc' →
      ∀ z ∈ acc', z ∈ acc ∨ MnlyGood r p A0 z := by
  have hS := (subEnum_S r p hr hp).2
  have hms := hp.ms
  intro fuel
  induction fuel with
  | zero => intro y m d H M w cnt acc acc' _ _ _ _ _ _ _ _ h; simp [mnlyLoop] at h
  | succ f ih =>
    intro y m d H M w cnt acc acc' hy1 hm1 hm2 hd1 hd2 hH hM hinv h z hz
    rw [mnlyLoop_succ] at h
    split at h
    · cases h; exact Or.inl hz
    split at h
    · cases h; exact Or.inl hz
    split at h
    · cases h; exact Or.inl hz
    rename_i _ hY _
    have hy2 : y ≤ 2099 := by simp only [subMaxYear] at hY; omega
    obtain ⟨hw, j, hj⟩ := hinv hy2
    obtain ⟨hi1, hi2⟩ := mkSubCtx_inter r p k hr
    have hci := ctx_inter r p k hr
    obtain ⟨hX, hXm, _, _⟩ := cand_m p y m d H M 0 hy1 hy2 hm1 hm2 hd1 hd2 hH hM (by omega) hms
    have hsem := mnlyBody_sem r p k hr (cand p y m d H M 0) hX hy1 hy2 w hw (subEnum p r).S.zipIdx cnt acc
    simp only [cand] at hsem
    -- the two shapes of the body
    have hbody : ∃ cnt1 acc1 fin inc, mnlyBody (mkSubCtx r p k) (subEnum p r).S.zipIdx y m d H M w (getNdom y m)
        cnt acc = (cnt1, acc1, fin, inc) ∧ 1 ≤ inc ∧ inc < 2147483648 + 86400 ∧
        (∃ j2, inc = j2 * (mkSubCtx r p k).inter) ∧ ∀ z ∈ acc1, z ∈ acc ∨ MnlyGood r p A0 z := by
      rcases hsem with ⟨hlim, he⟩ | ⟨inc, he, b1, b2, b3, _⟩
      · refine ⟨_, _, _, _, he, hi1, by omega, ⟨1, by rw [Nat.one_mul]⟩, ?_⟩
        intro z hz
        rw [mnlyEnum_eq] at hz
        rcases gEnum_sound _ _ _ _ _ _ _ _ z hz with h0 | ⟨t, ht, e, hge, hpk⟩
        · exact Or.inl h0
        · right
          have hs := hS t.1 (List.fst_mem_of_mem_zipIdx ht)
          obtain ⟨hv, hzm, _, hmk⟩ := cand_m p y m d H M t.1 hy1 hy2 hm1 hm2 hd1 hd2 hH hM hs hms
          have e' : z = cand p y m d H M t.1 := by rw [e]; exact hmk
          rw [e'] at hge ⊢
          exact ⟨hv, rfl, (lim_cand r p y m d H M t.1 0).mpr hlim, ⟨j, by rw [hzm, hj]⟩, ⟨t.2, ht, hpk⟩, hge⟩
      · exact ⟨_, _, _, _, he, b1, b2, b3, fun z hz => Or.inl hz⟩
    obtain ⟨cnt1, acc1, fin, inc, he, b1, b2, ⟨j2, hmul⟩, hacc1⟩ := hbody
    rw [he] at h
    simp only at h
    split at h
    · cases h; exact hacc1 z hz
    obtain ⟨y', m', d', H', M', w', hst, g1, g2, g3, g4, g5, g6, g7, g9, g10⟩ :=
      mnlyStep_adv (mkSubCtx r p k) (subEnum p r).S.zipIdx f y m d H M w cnt1 acc1 inc hy1 hy2 hm1 hm2 hd1 hd2
        hH hM b1 b2 hw
    rw [hst] at h
    have hnext : y' ≤ 2099 → w' = wdayOf (days y' m' d') ∧
        ∃ j : Nat, mcabs y' m' d' H' M' = A0 + ((j * r.inter : Nat) : Int) := by
      intro hy'
      have hlt : mcabs y m d H M + inc < days 2100 1 1 * 1440 := by
        by_cases c : mcabs y m d H M + inc < days 2100 1 1 * 1440
        · exact c
        · have := g10 (by omega); omega
      obtain ⟨_, e2, e3⟩ := g9 hlt
      refine ⟨e3, j + j2, ?_⟩
      rw [e2, hj, hmul, hci, Nat.add_mul]
      omega
    rcases ih y' m' d' H' M' w' _ _ acc' g1 g2 g3 g4 g5 g6 g7 hnext h z hz with hin | hgood
    · exact hacc1 z hin
    · exact Or.inr hgood

theorem absOf_m (x : Inst) (hx : VT x) : absOf x = mabsOf x * 60 + x.S := by
  rw [absOf_vt x hx]; simp only [mabsOf, dayOf]; omega

theorem mnlyLoop_complete (r : Rule) (p : Inst) (k : Nat) (hr : WfRule r) (hp : WfInst p)
    (x : Inst) (hx : VT x) (hxms : x.ms = p.ms) (hxl : MnlyLim r x) (hxu : ltP r.untl x = false)
    (hxp : ltP x p = false) (hxy : x.y ≤ 2099) (hxs : x.S ∈ (subEnum p r).S)
    (hpk : ∀ i, (x.S, i) ∈ (subEnum p r).S.zipIdx → posPickP r.pos i (subEnum p r).S.length = true) :
    ∀ (fuel y m d H M w cnt : Nat) (acc acc' : List Inst), 1901 ≤ y → y ≤ 2099 → 1 ≤ m → m ≤ 12 → 1 ≤ d →
      d ≤ getNdom y m → H < 24 → M < 60 → w = wdayOf (days y m d) →
      (∃ t : Nat, mabsOf x = mcabs y m d H M + ((t * r.inter : Nat) : Int)) →
      acc.length = cnt → cnt ≤ k → (∀ z ∈ acc, ltP z x = true) →
      mnlyLoop (mkSubCtx r p k) (subEnum p r).S.zipIdx fuel y m d H M w (getNdom y m) cnt acc = some acc' →
      x ∈ acc' ∨ (acc'.length = k ∧ ∀ z ∈ acc', ltP z x = true) := by
  have hS := subEnum_S r p hr hp
  have hms := hp.ms
  intro fuel
  induction fuel with
  | zero => intro y m d H M w cnt acc acc' _ _ _ _ _ _ _ _ _ _ _ _ _ h; simp [mnlyLoop] at h
  | succ f ih =>
    intro y m d H M w cnt acc acc' hy1 hy2 hm1 hm2 hd1 hd2 hH hM hw ht hlen hcnt hbef h
    obtain ⟨t, ht⟩ := ht
    obtain ⟨hX, hXm, hXa, hmk⟩ := cand_m p y m d H M 0 hy1 hy2 hm1 hm2 hd1 hd2 hH hM (by omega) hms
    have hxa := absOf_m x hx
    have hk : (mkSubCtx r p k).nti = k := rfl
    have hmk' : mkInst y m d H M 0 (mkSubCtx r p k).proto.ms = cand p y m d H M 0 := hmk
    rw [mnlyLoop_succ, hmk', hk] at h
    split at h
    · cases h; exact Or.inr ⟨by omega, hbef⟩
    rename_i hA
    split at h
    · rename_i hY; simp only [subMaxYear] at hY; omega
    split at h
    · rename_i hU
      exfalso
      have hle := abs_le_bk (cand p y m d H M 0) x hX hx hxms.symm (by rw [hXa, hxa, ht]; omega)
      have hU' : ltP r.untl (cand p y m d H M 0) = true := hU
      rw [ltP_eq] at hU' hxu
      have h1 := of_decide_eq_true hU'
      have h2 := of_decide_eq_false hxu
      omega
    obtain ⟨hi1, hi2⟩ := mkSubCtx_inter r p k hr
    have hci := ctx_inter r p k hr
    have hsem := mnlyBody_sem r p k hr (cand p y m d H M 0) hX hy1 hy2 w hw (subEnum p r).S.zipIdx cnt acc
    simp only [cand] at hsem
    have hlt := abs_lt_2100 x hx hxy
    -- moving on to the next candidate with the instant still ahead
    have hgo : ∀ (cnt1 : Nat) (acc1 : List Inst) (inc : Nat), 1 ≤ inc → inc < 2147483648 + 86400 →
        (∃ t', t * r.inter = inc + t' * r.inter) → acc1.length = cnt1 → cnt1 ≤ k →
        (∀ z ∈ acc1, ltP z x = true) →
        mnlyStep (mkSubCtx r p k) (subEnum p r).S.zipIdx f y m d H ((M + inc) % u32) w (getNdom y m) cnt1 acc1 =
          some acc' → x ∈ acc' ∨ (acc'.length = k ∧ ∀ z ∈ acc', ltP z x = true) := by
      intro cnt1 acc1 inc b1 b2 ⟨t', ht'⟩ hl1 hc1 hb1 h
      obtain ⟨y', m', d', H', M', w', hst, g1, g2, g3, g4, g5, g6, g7, g9, g10⟩ :=
        mnlyStep_adv (mkSubCtx r p k) (subEnum p r).S.zipIdx f y m d H M w cnt1 acc1 inc hy1 hy2 hm1 hm2 hd1 hd2
          hH hM b1 b2 hw
      rw [hst] at h
      have hxm : mabsOf x = mcabs y m d H M + inc + ((t' * r.inter : Nat) : Int) := by rw [ht, ht']; omega
      obtain ⟨e1, e2, e3⟩ := g9 (by omega)
      exact ih y' m' d' H' M' w' cnt1 acc1 acc' g1 e1 g2 g3 g4 g5 g6 g7 e3 ⟨t', by rw [e2]; exact hxm⟩ hl1 hc1 hb1 h
    rcases hsem with ⟨hlim, he⟩ | ⟨inc, he, b1, b2, _, hskip⟩
    · -- the minute is enumerated
      rw [he] at h
      simp only at h
      rw [mnlyEnum_eq] at h
      have hcm : ∀ u ∈ (subEnum p r).S.zipIdx, u.1 < 60 ∧ VT (cand p y m d H M u.1) ∧
          absOf (cand p y m d H M u.1) = mcabs y m d H M * 60 + (u.1 : Nat) ∧
          mkInst y m d H M u.1 (mkSubCtx r p k).proto.ms = cand p y m d H M u.1 := by
        intro u hu
        have hs := hS.2 u.1 (List.fst_mem_of_mem_zipIdx hu)
        obtain ⟨a1, _, a3, a4⟩ := cand_m p y m d H M u.1 hy1 hy2 hm1 hm2 hd1 hd2 hH hM hs hms
        exact ⟨hs, a1, a3, a4⟩
      -- the key of the instant looked for: its second if it lies in this minute, else beyond the minute
      have hkey : ∃ sx : Nat, (t = 0 → sx = x.S) ∧ (t ≠ 0 → sx = 60) := by
        by_cases h0 : t = 0
        · exact ⟨x.S, fun _ => rfl, fun h => absurd h0 h⟩
        · exact ⟨60, fun h => absurd h h0, fun _ => rfl⟩
      obtain ⟨sx, hsx0, hsx1⟩ := hkey
      have htpos : t ≠ 0 → 1 ≤ t * r.inter := by
        intro h0
        have := Nat.mul_le_mul (Nat.one_le_iff_ne_zero.mpr h0) hr.inter.1
        omega
      have hcomp := gEnum_complete (mkSubCtx r p k).nti (mkSubCtx r p k).proto (mkSubCtx r p k).r.untl
        (fun u => mkInst y m d H M u.1 (mkSubCtx r p k).proto.ms)
        (fun u => posPickP (mkSubCtx r p k).r.pos u.2 (mkSubCtx r p k).e.S.length) (fun u => u.1) 60 sx x hxu hxp
        (subEnum p r).S.zipIdx cnt acc (zipIdx_asc _ hS.1) (fun u hu => (hcm u hu).1) ?_ ?_ ?_ hlen hcnt hbef
      · generalize gEnum (mkSubCtx r p k).nti (mkSubCtx r p k).proto (mkSubCtx r p k).r.untl
          (fun u => mkInst y m d H M u.1 (mkSubCtx r p k).proto.ms)
          (fun u => posPickP (mkSubCtx r p k).r.pos u.2 (mkSubCtx r p k).e.S.length)
          (subEnum p r).S.zipIdx cnt acc = g at h hcomp
        obtain ⟨cnt1, acc1, fin⟩ := g
        simp only at h hcomp
        rcases hcomp with hin | ⟨hfin, hl1, hc1, hb1, hor⟩
        · left
          split at h
          · cases h; exact hin
          · obtain ⟨y', m', d', H', M', w', hst, _⟩ :=
              mnlyStep_adv (mkSubCtx r p k) (subEnum p r).S.zipIdx f y m d H M w cnt1 acc1 (mkSubCtx r p k).inter
                hy1 hy2 hm1 hm2 hd1 hd2 hH hM hi1 (by omega) hw
            rw [hst] at h
            exact mnlyLoop_mono _ _ _ _ _ _ _ _ _ _ _ _ _ h x hin
        · rw [hfin] at h
          simp only [Bool.false_eq_true, if_false] at h
          rcases hor with hfull | hbeyond
          · obtain ⟨y', m', d', H', M', w', hst, _⟩ :=
              mnlyStep_adv (mkSubCtx r p k) (subEnum p r).S.zipIdx f y m d H M w cnt1 acc1 (mkSubCtx r p k).inter
                hy1 hy2 hm1 hm2 hd1 hd2 hH hM hi1 (by omega) hw
            rw [hst] at h
            have := mnlyLoop_full _ _ _ _ _ _ _ _ _ _ _ _ _ (by rw [hk]; omega) h
            rw [this]
            exact Or.inr ⟨by omega, hb1⟩
          · have h0 : t ≠ 0 := by
              intro h0
              have := hsx0 h0
              have := hS.2 x.S hxs
              omega
            rw [hci] at h
            refine hgo cnt1 acc1 r.inter hr.inter.1 (by have := hr.inter.2; omega) ⟨t - 1, ?_⟩ hl1 hc1 hb1 h
            have : t = (t - 1) + 1 := by omega
            rw [this, Nat.add_mul, Nat.one_mul, Nat.add_comm]
            simp
      · -- entries before the instant
        intro u hu hlt'
        obtain ⟨c1, c2, c3, c4⟩ := hcm u hu
        show bk (mkInst y m d H M u.1 (mkSubCtx r p k).proto.ms) < bk x
        rw [c4]
        apply abs_lt_bk _ x c2 hx hxms.symm
        rw [c3, hxa, ht]
        by_cases h0 : t = 0
        · have := hsx0 h0; rw [h0]; simp only [Nat.zero_mul]; omega
        · have := htpos h0; omega
      · -- the entry of the instant
        intro u hu he
        obtain ⟨c1, c2, c3, c4⟩ := hcm u hu
        have h0 : t = 0 := by
          by_cases h0 : t = 0
          · exact h0
          · have := hsx1 h0; omega
        have hsx := hsx0 h0
        refine ⟨?_, hpk u.2 (by rw [← hsx, ← he]; exact hu)⟩
        show mkInst y m d H M u.1 (mkSubCtx r p k).proto.ms = x
        rw [c4]
        apply abs_inj _ x c2 hx hxms.symm
        rw [c3, hxa, ht, h0]; simp only [Nat.zero_mul]; omega
      · by_cases h0 : t = 0
        · right
          obtain ⟨i, hi⟩ := List.mem_iff_getElem?.mp hxs
          exact ⟨(x.S, i), List.mem_zipIdx_iff_getElem?.mpr hi, (hsx0 h0).symm⟩
        · left; have := hsx1 h0; omega
    · rw [he] at h
      simp only [Bool.false_eq_true, if_false] at h
      obtain ⟨t', ht'⟩ := hskip x t hx hxl (by show mabsOf x = mabsOf (cand p y m d H M 0) + _; rw [hXm, hci, ht])
      rw [hci] at ht'
      exact hgo cnt acc inc b1 b2 ⟨t', ht'⟩ hlen hcnt hbef h

end Echse.Lemmas.RrMnlyRfc
