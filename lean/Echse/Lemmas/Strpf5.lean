/-
  Helper lemmas for C18, part 5: the duration parser `idiffStrp` on every spelling
  `[+-]P[nW][nD][T[nH][nM][n[.f]S]]`: the time section, the date section, the whole text.
-/
import Echse.Lemmas.Strpf4
namespace Echse.Strpf
open Echse.Instant Echse.Spec.Cal

/-- a number with a fraction, then `S` -/
theorem idiffTime_frac (s pre ds fs rest : List Char) (hs : s = pre ++ ds ++ '.' :: (fs ++ 'S' :: rest))
    (f step : Nat) (msd : Int)
    (hd : ∀ x ∈ ds, isDig x) (hv : digitsVal ds < 2^32) (hfd : ∀ x ∈ fs, isDig x)
    (hstep : 'S'.toNat ||| step = 83) :
    idiffTime s s.length (f+1) pre.length step msd =
      idiffTime s s.length f (pre.length + ds.length + 1 + fs.length + 1) (step ||| 0x21)
        (msd + (fracVal fs : Int) + (digitsVal ds : Int) * 1000) := by
  obtain ⟨h1, h2⟩ := tok_facts s pre ds '.' _ hs hd hv (by decide)
  have hs2 : s = (pre ++ ds ++ ['.']) ++ fs ++ 'S' :: rest := by rw [hs]; simp
  have hl : (pre ++ ds ++ ['.']).length = pre.length + ds.length + 1 := by simp [Nat.add_assoc]
  have hlen : pre.length + ds.length + 1 + fs.length < s.length := by rw [hs]; simp; omega
  have q := fracLoop_digits fs (pre ++ ds ++ ['.']) ('S' :: rest) 100 0 (s.length + 1) s.length hfd
    (by omega) (by rw [hl]; omega) (Or.inr (by rw [chr_cons_zero]; decide))
  rw [← hs2, hl, Nat.zero_add] at q
  have hS : chr s (pre.length + ds.length + 1 + fs.length) = 'S' := by
    have : pre.length + ds.length + 1 + fs.length = (pre ++ ds ++ ['.'] ++ fs).length := by simp; omega
    rw [this, hs2, chr_append_right0]; rfl
  rw [idiffTime_succ, h1]
  simp only [h2, q, hS, fracVal]
  rw [if_pos ⟨by omega, trivial⟩, if_neg (by simp; omega)]
  have h128 : 'S'.toNat < 128 := by decide
  simp only [timeSw, hS, hstep, h128, if_true]
  rw [if_neg (by decide), if_neg (by decide)]

/-- an optional part: digits and the designator -/
def part (o : Option (List Char)) (c : Char) : List Char :=
  match o with | none => [] | some ds => ds ++ [c]
def pval (o : Option (List Char)) : Int :=
  match o with | none => 0 | some ds => (digitsVal ds : Int)
/-- the digits of a part are ASCII digits denoting a value below 2^32 -/
def POk (o : Option (List Char)) : Prop := ∀ ds, o = some ds → (∀ c ∈ ds, isDig c) ∧ digitsVal ds < 2^32

/-- the seconds part: digits, an optional fraction `.fs`, `S` -/
def spart (os fr : Option (List Char)) : List Char :=
  match os, fr with
  | none, _ => []
  | some ds, none => ds ++ ['S']
  | some ds, some fs => ds ++ '.' :: fs ++ ['S']
/-- the milliseconds of the fraction (there is none without seconds) -/
def fval (os fr : Option (List Char)) : Int :=
  match os, fr with
  | some _, some fs => (fracVal fs : Int)
  | _, _ => 0
/-- the digits of a fraction are ASCII digits, any number of them -/
def FOk (fr : Option (List Char)) : Prop := ∀ fs, fr = some fs → ∀ c ∈ fs, isDig c

theorem spart_none (os : Option (List Char)) : spart os none = part os 'S' := by cases os <;> rfl
theorem fval_none (os : Option (List Char)) : fval os none = 0 := by cases os <;> rfl
theorem FOk_none : FOk none := by intro fs h; cases h

theorem timeS (s pre : List Char) (os fr : Option (List Char)) (hs : s = pre ++ spart os fr)
    (i : Nat) (hi : i = pre.length) (hok : POk os) (hfr : FOk fr) (f step : Nat) (msd : Int)
    (hstep : step = 0 ∨ step = 1 ∨ step = 0x11) :
    (idiffTime s s.length (f+2) i step msd).2 = msd + pval os * 1000 + fval os fr := by
  subst hi
  have hend : step ||| 0x21 ≠ 72 ∧ step ||| 0x21 ≠ 77 ∧ step ||| 0x21 ≠ 83 := by
    rcases hstep with rfl | rfl | rfl <;> decide
  have e : 'S'.toNat ||| step = 83 := by rcases hstep with rfl | rfl | rfl <;> decide
  cases os with
  | none =>
    have : s = pre := by simpa [spart] using hs
    subst this
    rw [idiffTime_end _ _ rfl _ _ _ (by rcases hstep with rfl | rfl | rfl <;> decide)]
    simp [pval, fval]
  | some ds =>
    obtain ⟨hd, hv⟩ := hok ds rfl
    cases fr with
    | none =>
      have hs' : s = pre ++ ds ++ 'S' :: [] := by simpa [spart] using hs
      rw [idiffTime_step s pre ds 'S' [] hs' (f+1) step msd hd hv (by decide) (by decide) (by decide)]
      rw [e, if_neg (by decide), if_neg (by decide), if_pos rfl]
      rw [idiffTime_end s _ (by rw [hs']; simp [Nat.add_assoc]) f _ _ hend]
      simp [pval, fval]
    | some fs =>
      have hs' : s = pre ++ ds ++ '.' :: (fs ++ 'S' :: []) := by simpa [spart] using hs
      rw [idiffTime_frac s pre ds fs [] hs' (f+1) step msd hd hv (hfr fs rfl) e]
      rw [idiffTime_end s _ (by rw [hs']; simp; omega) f _ _ hend]
      simp [pval, fval]
      omega

theorem timeMS (s pre : List Char) (om os fr : Option (List Char)) (hs : s = pre ++ part om 'M' ++ spart os fr)
    (i : Nat) (hi : i = pre.length) (hokm : POk om) (hoks : POk os) (hfr : FOk fr) (f step : Nat) (msd : Int)
    (hstep : step = 0 ∨ step = 1) :
    (idiffTime s s.length (f+3) i step msd).2 = msd + pval om * 60000 + pval os * 1000 + fval os fr := by
  subst hi
  cases om with
  | none =>
    rw [timeS s pre os fr (by simpa [part] using hs) _ rfl hoks hfr (f+1) step msd (by omega)]
    simp [pval]
  | some ds =>
    obtain ⟨hd, hv⟩ := hokm ds rfl
    have hs' : s = pre ++ ds ++ 'M' :: spart os fr := by simpa [part] using hs
    rw [idiffTime_step s pre ds 'M' _ hs' (f+2) step msd hd hv (by decide) (by decide) (by decide)]
    have e : 'M'.toNat ||| step = 77 := by rcases hstep with rfl | rfl <;> decide
    rw [e, if_neg (by decide), if_pos rfl]
    rw [timeS s (pre ++ ds ++ ['M']) os fr (by rw [hs']; simp) _ (by simp [Nat.add_assoc]) hoks hfr f _ _
      (by rcases hstep with rfl | rfl <;> decide)]
    simp [pval]

theorem timeHMS (s pre : List Char) (oh om os fr : Option (List Char))
    (hs : s = pre ++ part oh 'H' ++ part om 'M' ++ spart os fr)
    (i : Nat) (hi : i = pre.length) (hokh : POk oh) (hokm : POk om) (hoks : POk os) (hfr : FOk fr)
    (f : Nat) (msd : Int) :
    (idiffTime s s.length (f+4) i 0 msd).2 =
      msd + pval oh * 3600000 + pval om * 60000 + pval os * 1000 + fval os fr := by
  subst hi
  cases oh with
  | none =>
    rw [timeMS s pre om os fr (by simpa [part] using hs) _ rfl hokm hoks hfr (f+1) 0 msd (by omega)]
    simp [pval]
  | some ds =>
    obtain ⟨hd, hv⟩ := hokh ds rfl
    have hs' : s = pre ++ ds ++ 'H' :: (part om 'M' ++ spart os fr) := by simpa [part] using hs
    rw [idiffTime_step s pre ds 'H' _ hs' (f+3) 0 msd hd hv (by decide) (by decide) (by decide)]
    rw [if_pos (by decide)]
    rw [timeMS s (pre ++ ds ++ ['H']) om os fr (by rw [hs']; simp) _ (by simp [Nat.add_assoc]) hokm hoks hfr
      f _ _ (by decide)]
    simp [pval]

/-- the time section: present iff one of its parts is -/
def tpart (oh om os : Option (List Char)) : List Char :=
  if oh.isSome ∨ om.isSome ∨ os.isSome then 'T' :: (part oh 'H' ++ part om 'M' ++ part os 'S') else []
/-- the same with a fraction behind the seconds -/
def tpartF (oh om os fr : Option (List Char)) : List Char :=
  if oh.isSome ∨ om.isSome ∨ os.isSome then 'T' :: (part oh 'H' ++ part om 'M' ++ spart os fr) else []

def msdVal (oh om os fr : Option (List Char)) : Int :=
  pval oh * 3600000 + pval om * 60000 + pval os * 1000 + fval os fr

theorem tpartF_none (oh om os : Option (List Char)) : tpartF oh om os none = tpart oh om os := by
  unfold tpartF tpart; rw [spart_none]

theorem dateT (s pre : List Char) (oh om os fr : Option (List Char)) (hs : s = pre ++ tpartF oh om os fr)
    (i : Nat) (hi : i = pre.length) (hokh : POk oh) (hokm : POk om) (hoks : POk os) (hfr : FOk fr)
    (f : Nat) (sw sd : Bool) (dd : Int) :
    (idiffDate s s.length (f+1) i sw sd dd).2 = (dd, msdVal oh om os fr) := by
  subst hi
  by_cases hany : oh.isSome ∨ om.isSome ∨ os.isSome
  · have hs' : s = pre ++ [] ++ 'T' :: (part oh 'H' ++ part om 'M' ++ spart os fr) := by
      simpa [tpartF, hany] using hs
    rw [idiffDate_step s pre [] 'T' _ hs' f sw sd dd (by simp) (by decide) (by decide)]
    rw [if_pos rfl]
    simp only [List.length_nil, Nat.add_zero]
    rw [timeHMS s (pre ++ ['T']) oh om os fr (by rw [hs']; simp) _ (by simp) hokh hokm hoks hfr 1 0]
    simp [msdVal]
  · have hs' : s = pre := by simpa [tpartF, hany] using hs
    subst hs'
    rw [idiffDate_end _ _ rfl]
    have : oh = none ∧ om = none ∧ os = none := by
      cases oh <;> cases om <;> cases os <;> simp at hany ⊢
    obtain ⟨rfl, rfl, rfl⟩ := this
    simp [msdVal, pval, fval]

theorem dateD (s pre : List Char) (od oh om os fr : Option (List Char))
    (hs : s = pre ++ part od 'D' ++ tpartF oh om os fr)
    (i : Nat) (hi : i = pre.length) (hokd : POk od) (hokh : POk oh) (hokm : POk om) (hoks : POk os)
    (hfr : FOk fr) (f : Nat) (sw : Bool) (dd : Int) :
    (idiffDate s s.length (f+2) i sw false dd).2 = (dd + pval od, msdVal oh om os fr) := by
  subst hi
  cases od with
  | none =>
    rw [dateT s pre oh om os fr (by simpa [part] using hs) _ rfl hokh hokm hoks hfr (f+1)]
    simp [pval]
  | some ds =>
    obtain ⟨hd, hv⟩ := hokd ds rfl
    have hs' : s = pre ++ ds ++ 'D' :: tpartF oh om os fr := by simpa [part] using hs
    rw [idiffDate_step s pre ds 'D' _ hs' (f+1) sw false dd hd hv (by decide)]
    rw [if_neg (by decide), if_neg (by decide), if_pos rfl]
    simp only [Bool.false_eq_true, if_false]
    rw [dateT s (pre ++ ds ++ ['D']) oh om os fr (by rw [hs']; simp) _ (by simp [Nat.add_assoc]) hokh hokm hoks
      hfr f]
    simp [pval]

theorem dateWD (s pre : List Char) (ow od oh om os fr : Option (List Char))
    (hs : s = pre ++ part ow 'W' ++ part od 'D' ++ tpartF oh om os fr)
    (i : Nat) (hi : i = pre.length) (hokw : POk ow) (hokd : POk od) (hokh : POk oh) (hokm : POk om)
    (hoks : POk os) (hfr : FOk fr) (f : Nat) (dd : Int) :
    (idiffDate s s.length (f+3) i false false dd).2 = (dd + pval ow * 7 + pval od, msdVal oh om os fr) := by
  subst hi
  cases ow with
  | none =>
    rw [dateD s pre od oh om os fr (by simpa [part] using hs) _ rfl hokd hokh hokm hoks hfr (f+1)]
    simp [pval]
  | some ds =>
    obtain ⟨hd, hv⟩ := hokw ds rfl
    have hs' : s = pre ++ ds ++ 'W' :: (part od 'D' ++ tpartF oh om os fr) := by simpa [part] using hs
    rw [idiffDate_step s pre ds 'W' _ hs' (f+2) false false dd hd hv (by decide)]
    rw [if_neg (by decide), if_pos rfl]
    simp only [Bool.false_eq_true, if_false]
    rw [dateD s (pre ++ ds ++ ['W']) od oh om os fr (by rw [hs']; simp) _ (by simp [Nat.add_assoc]) hokd hokh hokm
      hoks hfr f]
    simp [pval]


/-! ### the whole duration text -/

def durBody (ow od oh om os : Option (List Char)) : List Char :=
  part ow 'W' ++ part od 'D' ++ tpart oh om os
def durBodyF (ow od oh om os fr : Option (List Char)) : List Char :=
  part ow 'W' ++ part od 'D' ++ tpartF oh om os fr

def durVal (ow od oh om os : Option (List Char)) : Int :=
  (pval ow * 7 + pval od) * 86400000 + pval oh * 3600000 + pval om * 60000 + pval os * 1000
def durValF (ow od oh om os fr : Option (List Char)) : Int :=
  (pval ow * 7 + pval od) * 86400000 + pval oh * 3600000 + pval om * 60000 + pval os * 1000 + fval os fr

theorem durBodyF_none (ow od oh om os : Option (List Char)) :
    durBodyF ow od oh om os none = durBody ow od oh om os := by
  unfold durBodyF durBody; rw [tpartF_none]
theorem durValF_none (ow od oh om os : Option (List Char)) :
    durValF ow od oh om os none = durVal ow od oh om os := by
  unfold durValF durVal; rw [fval_none]; omega

theorem idiffStrp_P (t : List Char) (len : Nat) (h : 3 ≤ len) :
    idiffStrp ('P' :: t) len =
      (let r := idiffDate ('P' :: t) len 4 1 false false 0; (r.2.1 * 86400000 + r.2.2, r.1)) := by
  unfold idiffStrp
  rw [if_neg (by omega)]
  simp [chr_cons_zero]

theorem idiffStrp_plusP (t : List Char) (len : Nat) (h : 3 ≤ len) :
    idiffStrp ('+' :: 'P' :: t) len =
      (let r := idiffDate ('+' :: 'P' :: t) len 4 2 false false 0; (r.2.1 * 86400000 + r.2.2, r.1)) := by
  unfold idiffStrp
  rw [if_neg (by omega)]
  simp [chr_cons_zero, chr_cons_succ]

theorem idiffStrp_minusP (t : List Char) (len : Nat) (h : 3 ≤ len) :
    idiffStrp ('-' :: 'P' :: t) len =
      (let r := idiffDate ('-' :: 'P' :: t) len 4 2 false false 0; (-(r.2.1 * 86400000 + r.2.2), r.1)) := by
  unfold idiffStrp
  rw [if_neg (by omega)]
  simp [chr_cons_zero, chr_cons_succ]

theorem idiffStrp_durF (sign : List Char) (ow od oh om os fr : Option (List Char))
    (hw : POk ow) (hd : POk od) (hh : POk oh) (hm : POk om) (hs : POk os) (hfr : FOk fr)
    (hsign : sign = [] ∨ sign = ['+'] ∨ sign = ['-'])
    (hlen : 3 ≤ (sign ++ 'P' :: durBodyF ow od oh om os fr).length) :
    (idiffStrp (sign ++ 'P' :: durBodyF ow od oh om os fr) (sign ++ 'P' :: durBodyF ow od oh om os fr).length).1 =
      if sign = ['-'] then - durValF ow od oh om os fr else durValF ow od oh om os fr := by
  have key := fun pre i hi hs' => dateWD (sign ++ 'P' :: durBodyF ow od oh om os fr) pre ow od oh om os fr hs' i hi
      hw hd hh hm hs hfr 1 0
  rcases hsign with rfl | rfl | rfl
  · have := key ['P'] 1 rfl (by simp [durBodyF])
    simp only [List.nil_append] at this hlen ⊢
    rw [idiffStrp_P _ _ hlen]
    simp only [this, msdVal, durValF]
    simp
    omega
  · have := key ['+', 'P'] 2 rfl (by simp [durBodyF])
    simp only [List.cons_append, List.nil_append] at this hlen ⊢
    rw [idiffStrp_plusP _ _ hlen]
    simp only [this, msdVal, durValF]
    simp
    omega
  · have := key ['-', 'P'] 2 rfl (by simp [durBodyF])
    simp only [List.cons_append, List.nil_append] at this hlen ⊢
    rw [idiffStrp_minusP _ _ hlen]
    simp only [this, msdVal, durValF]
    simp
    omega

theorem idiffStrp_dur (sign : List Char) (ow od oh om os : Option (List Char))
    (hw : POk ow) (hd : POk od) (hh : POk oh) (hm : POk om) (hs : POk os)
    (hsign : sign = [] ∨ sign = ['+'] ∨ sign = ['-'])
    (hlen : 3 ≤ (sign ++ 'P' :: durBody ow od oh om os).length) :
    (idiffStrp (sign ++ 'P' :: durBody ow od oh om os) (sign ++ 'P' :: durBody ow od oh om os).length).1 =
      if sign = ['-'] then - durVal ow od oh om os else durVal ow od oh om os := by
  have := idiffStrp_durF sign ow od oh om os none hw hd hh hm hs FOk_none hsign
    (by rw [durBodyF_none]; exact hlen)
  rwa [durBodyF_none, durValF_none] at this

end Echse.Strpf
