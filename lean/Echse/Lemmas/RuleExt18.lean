/-
  C17 lemmas, part 18: `yd_to_md` (day of the year to month and day), years 1901..2099.
-/
import Echse.Lemmas.RuleExt1
import Echse.Lemmas.RuleExt8
import Echse.Lemmas.RuleExt15
namespace Echse.RuleExt
open Echse.Rrule Echse.Spec.Cal Echse.Spec.RuleExt Echse.Instant Echse.Gen

theorem ydToMd_leap (y : Nat) (doy : Int) (h : y % 4 = 0) : ydToMd y doy = ydToMd 2004 doy := by
  have h' : 2004 % 4 = 0 := by decide
  unfold ydToMd
  simp only [h, h']

theorem ydToMd_common (y : Nat) (doy : Int) (h : ¬ y % 4 = 0) : ydToMd y doy = ydToMd 2001 doy := by
  have h' : ¬ 2001 % 4 = 0 := by decide
  unfold ydToMd
  simp only [h, h']

/-- `yd_to_md` inverts the day-of-year table -/
def ydChk (Y doy : Nat) : Bool :=
  let md := ydToMd Y doy
  decide (1 ≤ md.m ∧ md.m ≤ 12 ∧ 1 ≤ md.d ∧ md.d ≤ getNdom Y md.m ∧
    instDoy.getD md.m 0 + md.d + (if Y % 4 = 0 ∧ md.m ≥ 3 then 1 else 0) = doy)

theorem ydChk_2001 : (List.range 365).all (fun i => ydChk 2001 (i + 1)) = true := by decide +kernel
theorem ydChk_2004 : (List.range 366).all (fun i => ydChk 2004 (i + 1)) = true := by decide +kernel

theorem ydChk_of (Y : Nat) (doy : Nat) (md : Md) (hmd : ydToMd Y doy = md) (h : ydChk Y doy = true) :
    1 ≤ md.m ∧ md.m ≤ 12 ∧ 1 ≤ md.d ∧ md.d ≤ getNdom Y md.m ∧
    instDoy.getD md.m 0 + md.d + (if Y % 4 = 0 ∧ md.m ≥ 3 then 1 else 0) = doy := by
  unfold ydChk at h
  rw [hmd] at h
  exact of_decide_eq_true h

theorem getNdom_congr (y Y m : Nat) (h : (y % 4 = 0) ↔ (Y % 4 = 0)) : getNdom y m = getNdom Y m := by
  unfold getNdom
  by_cases hy : y % 4 = 0
  · have := h.mp hy; simp [hy, this]
  · have : ¬ Y % 4 = 0 := fun c => hy (h.mpr c); simp [hy, this]

theorem ydToMd_spec (y doy : Nat) (hy1 : 1901 ≤ y) (hy2 : y ≤ 2099) (h1 : 1 ≤ doy)
    (h2 : doy ≤ 365 + (if y % 4 = 0 then 1 else 0)) :
    1 ≤ (ydToMd y doy).m ∧ (ydToMd y doy).m ≤ 12 ∧ 1 ≤ (ydToMd y doy).d ∧
    (ydToMd y doy).d ≤ monthLen y (ydToMd y doy).m ∧
    days y (ydToMd y doy).m (ydToMd y doy).d = days y 1 1 + doy - 1 := by
  have key : ∃ Y, ((y % 4 = 0) ↔ (Y % 4 = 0)) ∧ ydToMd y doy = ydToMd Y doy ∧ ydChk Y doy = true := by
    by_cases hl : y % 4 = 0
    · refine ⟨2004, by simp [hl], ydToMd_leap y doy hl, ?_⟩
      rw [if_pos hl] at h2
      have := List.all_eq_true.mp ydChk_2004 (doy - 1) (by simp; omega)
      have e : doy - 1 + 1 = doy := by omega
      simpa [e] using this
    · refine ⟨2001, by simp [hl], ydToMd_common y doy hl, ?_⟩
      rw [if_neg hl] at h2
      have := List.all_eq_true.mp ydChk_2001 (doy - 1) (by simp; omega)
      have e : doy - 1 + 1 = doy := by omega
      simpa [e] using this
  obtain ⟨Y, hl, e, hchk⟩ := key
  rw [e]
  generalize hmd : ydToMd Y doy = md
  obtain ⟨c1, c2, c3, c4, c5⟩ := ydChk_of Y doy md hmd hchk
  rw [← getNdom_congr y Y md.m hl, getNdom_eq y md.m (by unfold OkYM; omega) (by omega)] at c4
  have j1 := jan00_doy y md.m md.d hy1 hy2 c1 c2
  have j2 := jan00_doy y 1 1 hy1 hy2 (by omega) (by omega)
  have adj : (if y % 4 = 0 ∧ md.m ≥ 3 then 1 else 0) = (if Y % 4 = 0 ∧ md.m ≥ 3 then 1 else 0) := by
    by_cases hy : y % 4 = 0
    · have := hl.mp hy; simp [hy, this]
    · have : ¬ Y % 4 = 0 := fun c => hy (hl.mpr c); simp [hy, this]
  rw [adj] at j1
  have i1 : instDoy.getD 1 0 = 0 := by decide
  have i2 : (if y % 4 = 0 ∧ 1 ≥ 3 then 1 else 0) = 0 := by simp
  rw [i1, i2] at j2
  refine ⟨c1, c2, c3, c4, ?_⟩
  rw [c5] at j1
  omega
end Echse.RuleExt
