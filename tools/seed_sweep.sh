#!/bin/bash
# tools/seed_sweep.sh [seed…] : run every property's check against its seeded defect (seeded/<id>/patch.diff applied to a
# scratch copy of /repo's working tree) at the given VERIF_SEED values; prints one line per run.  Nothing in /repo or in
# /verif/evidence is touched; scratch copies live under $TMPDIR and are removed.
SEEDS=${*:-1}
T=${TMPDIR:-/tmp}/seed_sweep.$$
mkdir -p $T
one() {
  P=$1; S=$2; D=$T/$P
  if [ ! -d $D ]; then
    mkdir -p $D/build-aux
    cp -r /repo/src $D/src
    cp /repo/build-aux/yuck* $D/build-aux/ 2>/dev/null
    (cd $D && patch -s -p1 < /verif/seeded/$P/patch.diff) || { echo "$P seed=$S patch does not apply"; return; }
  fi
  O=$T/out_${P}_$S; mkdir -p $O
  (cd /verif && ECHSE_REPO=$D VERIF_OUT=$O VERIF_SEED=$S python3 check.py $P > $O/log 2>&1); rc=$?
  echo "$P seed=$S rc=$rc $(grep -m1 VIOLATION $O/log | cut -c1-200)"
}
for P in $(ls /verif/seeded); do
  for S in $SEEDS; do one $P $S; done &
  # four properties at a time
  while [ $(jobs -r | wc -l) -ge 4 ]; do sleep 2; done
done
wait
rm -rf $T
