"""C02 — EXDATE/EXRULE remove, RDATE adds: recurrence-set algebra.

Stream level: filt(mux(rule-like, rdate-like), mux(exrule-like, exdate-like)) built from real stream objects in
harness hx_strm and drained by peek/pop scripts.  Oracle: the set expression (starts equal to an exception start
are removed, nothing else is) on the implementation's answers.  Correspondence: Echse.Model.Stream.filtNext/muxNext.
"""
import collections
import datetime
import re

from . import common
from .common import hex16
from . import p_C08
from . import p_strm

MSD = 86400000


def gen_case(rng):
    kind = rng.choice(["ms", "sec", "day"])
    start = p_C08.rand_inst(rng, kind, 2019, 2021)
    gap_days = rng.choice([1, 1, 2, 7, 30])
    n = rng.choice([1, 2, 3, 5, 8, 12, 20])
    a0 = p_C08.absms(start)
    occ = [p_C08.from_abs(a0 + i * gap_days * MSD, kind) for i in range(n)]
    gap = gap_days * MSD
    dur = rng.choice([0, 0, 0, 1000, 3600000, gap // 2, gap - 1000])
    if kind == "day":
        dur = rng.choice([0, 0, MSD]) if gap_days > 1 else 0
    # RDATE-like additions: some between occurrences, some equal to occurrences (collapse), some after
    extra = []
    for _ in range(rng.choice([0, 0, 1, 2, 4])):
        r = rng.random()
        if r < 0.3:
            extra.append(rng.choice(occ))
        else:
            extra.append(p_C08.from_abs(a0 + rng.randint(0, n * gap_days + 3) * MSD + (0 if kind == "day" else rng.choice([0, 3600000, 7200000])), kind))
    extra = sorted(set(extra), key=p_C08.okey)
    allocc = sorted(set(occ) | set(extra), key=p_C08.okey)
    # exceptions: hits, runs of consecutive hits, misses (inside a duration, between, before, after), other kind
    xs = []
    for _ in range(rng.choice([0, 1, 1, 2, 3, 6])):
        r = rng.random()
        if r < 0.45:
            xs.append(rng.choice(allocc))
        elif r < 0.6:
            i = rng.randrange(len(allocc))
            xs += allocc[i:i + rng.randint(2, 4)]
        elif r < 0.75 and kind != "day":
            t = rng.choice(allocc)
            xs.append(p_C08.from_abs(p_C08.absms(t) + rng.choice([1000, max(1000, dur // 2), -1000, 60000]), kind))   # near miss
        elif r < 0.85:
            xs.append(p_C08.from_abs(a0 - rng.randint(1, 5) * MSD, kind))
        elif r < 0.95:
            xs.append(p_C08.from_abs(a0 + (n * gap_days + rng.randint(5, 9)) * MSD, kind))
        else:
            t = rng.choice(allocc)
            xs.append(t[:3] + ((255, 0, 0, 0) if kind != "day" else (0, 0, 0, 1023)))     # same day, other value type
    xs = sorted(set(xs), key=p_C08.okey)
    x1 = [x for i, x in enumerate(xs) if i % 2 == 0]
    x2 = [x for i, x in enumerate(xs) if i % 2 == 1]
    if rng.random() < 0.3:
        x2 = sorted(set(x2) | set(x1[:1]), key=p_C08.okey)        # EXRULE and EXDATE naming the same instant
    ev = lambda t: (hex16(*t), 1, dur)
    e_tree = ("M", [("L", [ev(t) for t in occ]), ("L", [ev(t) for t in extra])])
    x_tree = ("M", [("L", [ev(t) for t in x1]), ("L", [ev(t) for t in x2])])
    tree = ("F", e_tree, x_tree)
    tags = ["dur=%s" % ("0" if dur == 0 else "pos"), kind]
    return tree, allocc, xs, tags


def check(allocc, xs, script, answer):
    if answer.startswith("<"):
        return "the stream functions: %s" % answer[:200]
    got = answer.split()
    if len(got) != len(script):
        return "answered %d of %d calls" % (len(got), len(script))
    xset = {hex16(*x) for x in xs}
    want = [hex16(*t) for t in allocc if hex16(*t) not in xset]
    popped, last_peek, ended = [], None, False
    for c, g in zip(script, got):
        if last_peek is not None and g != last_peek:
            return "peek returned %s but the following call returned %s" % (last_peek, g)
        if g == "-":
            ended = True
            last_peek = "-"
            continue
        if ended:
            return "an occurrence is delivered after end-of-stream"
        h = g.split(":")[0]
        if h in xset:
            return "occurrence %s is delivered although an exception names its start" % (common.unhex16(h),)
        if c == "p":
            popped.append(h); last_peek = None
        else:
            last_peek = g
    if popped != want[:len(popped)]:
        k = next(i for i in range(len(popped)) if i >= len(want) or popped[i] != want[i])
        return ("delivery %d is %s, the recurrence set (rule + rdate) minus the exceptions has %s there"
                % (k, common.unhex16(popped[k]), common.unhex16(want[k]) if k < len(want) else "nothing"))
    if ended and len(popped) < len(want):
        return "stream ended, occurrence %s that no exception names was never delivered" % (common.unhex16(want[len(popped)]),)
    return None


def run(ctx):
    exe = p_strm.build(ctx)
    rng = ctx.rng
    n = 30000 if ctx.tier == "thorough" else 3000
    cases = []
    hist = collections.Counter()
    for _ in range(n):
        tree, allocc, xs, tags = gen_case(rng)
        script = "".join(rng.choice("pppn") for _ in range(len(allocc) + rng.randint(1, 4)))
        cases.append((tree, allocc, xs, script))
        hist[" ".join(tags)] += 1
    # one script in four goes on as a clone of the filter at some point (`c', no call of its own): the same stream
    def with_clone(s):
        if rng.random() < 0.25:
            k = rng.randint(0, len(s))
            return s[:k] + "c" + s[k:]
        return s
    ops = ["m.run %s # %s" % (p_strm.render(t), with_clone(s)) for t, _, _, s in cases]
    extra_ops = common.load_corpus("C02")
    # the RDATE / EXDATE lists as one stream (__make_evrdat: DATEs take DTSTART's time, sorted, repeats dropped)
    for _ in range(3000 if ctx.tier == "thorough" else 400):
        kind = rng.choice(["sec", "day", "ms"])
        ds = p_C08.rand_inst(rng, kind, 2019, 2021)
        k = rng.choice([0, 1, 2, 3, 5, 8, 20, 70])
        pool = [p_C08.rand_inst(rng, rng.choice([kind, kind, "day"]), 2019, 2021) for _ in range(max(1, k // 2))]
        extra_ops.append(("e.rdat %s %s" % (hex16(*ds), " ".join(hex16(*rng.choice(pool)) for _ in range(k)))).strip())
    impl, st, err = ctx.impl(exe, ops + extra_ops)
    model = ctx.model(ops + extra_ops)
    fails = []
    for i, (tree, allocc, xs, script) in enumerate(cases):
        why = check(allocc, xs, script, impl[i] if i < len(impl) else "")
        if why:
            fails.append((i, why))
    corr = common.diff_lines(ops + extra_ops, impl, model)
    # the same algebra through the whole parser: calendars with several RRULE / RDATE / EXRULE / EXDATE lines against the set
    # expression over the reference expansions of the single rules
    from . import p_algebra
    an, afails, ahist, aocc, ast = p_algebra.run(ctx, exe, rng, 2500 if ctx.tier == "thorough" else 350, True)
    # dates (VALUE=DATE) as exceptions and additions of an event that is timed in a zone: the day is a day of that zone;
    # and lists in two calendar scales
    import datetime as _dt, zoneinfo as _zi
    zops, zwant = [], []
    for k in range(40 if ctx.tier == "thorough" else 12):
        zone = rng.choice(["Europe/Berlin", "America/New_York", "Asia/Kolkata", "Pacific/Auckland", "America/Los_Angeles"])
        d0 = _dt.date(rng.randint(2005, 2030), rng.choice([1, 7]), rng.randint(2, 10))       # (away from the changes of the clocks)
        hh, mm = rng.choice([0, 1, 20, 23]), rng.choice([0, 30])
        z = _zi.ZoneInfo(zone)
        loc = lambda d: _dt.datetime(d.year, d.month, d.day, hh, mm, tzinfo=z).astimezone(_dt.timezone.utc)
        days = [d0 + _dt.timedelta(days=i) for i in range(6)]
        xd, rd = days[rng.randint(1, 4)], d0 + _dt.timedelta(days=rng.randint(8, 12))
        want = sorted(loc(d) for d in days + [rd] if d != xd)
        cal = "\n".join(["BEGIN:VCALENDAR", "BEGIN:VEVENT", "UID:zd%d" % k, "SUMMARY:x", "DTSTART;TZID=%s:%04d%02d%02dT%02d%02d00" % (zone, d0.year, d0.month, d0.day, hh, mm),
                         "RRULE:FREQ=DAILY;COUNT=6", "EXDATE;VALUE=DATE:%04d%02d%02d" % (xd.year, xd.month, xd.day),
                         "RDATE;VALUE=DATE:%04d%02d%02d" % (rd.year, rd.month, rd.day), "END:VEVENT", "END:VCALENDAR", ""])
        zops.append("p.occ %s 10" % cal.encode().hex())
        zwant.append(([common.hex16(u.year, u.month, u.day, u.hour, u.minute, u.second, 1023) for u in want], zone, cal))
    # a monthly Hijri rule with exceptions given in both scales (the second Gregorian one and the Hijri one name occurrences)
    cal = "\n".join(["BEGIN:VCALENDAR", "BEGIN:VEVENT", "UID:two-scales", "SUMMARY:x", "DTSTART;VALUE=DATE:20200101", "RRULE:FREQ=MONTHLY;SCALE=HIJRI;BYMONTHDAY=1;COUNT=5",
                     "EXDATE:20200127,20200424", "EXDATE;SCALE=HIJRI:14410701", "END:VEVENT", "END:VCALENDAR", ""])
    zops.append("p.occ %s 10" % cal.encode().hex())
    zwant.append(([common.hex16(2020, 1, 26, 255, 0, 0, 0), common.hex16(2020, 3, 25, 255, 0, 0, 0), common.hex16(2020, 5, 24, 255, 0, 0, 0)], "HIJRI", cal))
    zout, zst, _ = ctx.impl(exe, zops)
    for k, (want, zone, cal) in enumerate(zwant):
        g = zout[k] if k < len(zout) else "<no answer>"
        m_ = re.search(r"occ=([^}]*)\}", g)
        got = [o.split("+")[0] for o in m_.group(1).split(",") if len(o.split("+")[0]) == 16] if m_ else None
        if got != want:
            afails.append((zops[k], "%s : DATE-valued EXDATE/RDATE (or lists in two scales) next to a start in %s: occurrences %s, the dates named are days of the event's calendar and zone: %s"
                           % (" / ".join(l for l in cal.split("\n") if l[:5] in ("DTSTA", "RRULE", "RDATE", "EXDAT")), zone,
                              [common.unhex16(x)[:5] for x in got] if got is not None else g[:80], [common.unhex16(x)[:5] for x in want])))
    ctx.cov["date_valued_exceptions_in_zones"] = len(zops)
    # a list of exceptions longer than the parser's line (recorded limit, class line-limit): 60 date-times on one folded line
    d0 = _dt.date(2020, 1, 1)
    xs = ",".join("%04d%02d%02dT090000Z" % ((d0 + _dt.timedelta(days=i)).timetuple()[:3]) for i in range(60))
    line = "EXDATE:" + xs
    folded = "\n ".join(line[i:i + 70] for i in range(0, len(line), 70))
    cal = "\n".join(["BEGIN:VCALENDAR", "BEGIN:VEVENT", "UID:long", "SUMMARY:x", "DTSTART:20200101T090000Z", "RRULE:FREQ=DAILY;COUNT=63", folded, "END:VEVENT", "END:VCALENDAR", ""])
    lout, _, _ = ctx.impl(exe, ["p.occ %s 5" % cal.encode().hex()])
    m_ = re.search(r"occ=([0-9a-f]{16})", lout[0] if lout else "")
    first = common.unhex16(m_.group(1))[:3] if m_ else None
    if first != (2020, 3, 1):
        kn = [k for k in common.load_known("C02") if k.get("status") == "known" and k.get("class") == "line-limit"]
        ctx.cov["long_exception_line"] = "%d octets: first occurrence %s" % (len(line), first)
        if kn:
            ctx.known(kn[0]["what"])
        else:
            afails.append(("p.occ", "an EXDATE line of %d octets (60 date-times, folded): the first occurrence is %s, every day of January and February is excepted" % (len(line), first)))
    alg = {}
    for op, why in afails:
        alg[len(alg)] = op
        fails.append((-len(alg), why))
    ctx.cov.update({
        "calendars_through_whole_parser": an, "occurrences_compared_with_set_expression": aocc, "calendar_shapes": ahist,
        "evaluations": len(ops) + len(extra_ops),
        "distinct_nontrivial": len({o for o, c in zip(ops, cases) if c[2]}),
        "traces_validated_against_impl": len(ops) + len(extra_ops) - len(corr),
        "rule": "(a) calendars with 0-3 RRULEs, RDATE lists (repeats, several lines), 0-2 EXRULEs and EXDATE lists through the whole parser, "
                "the first 60 occurrences against the set expression over the RFC reference expansions of the single rules; (b) stream "
                "objects: events with 1..20 regularly spaced occurrences (gap 1..30 days; ms / second / all-day values; duration 0, "
                "1 s, 1 h, half the gap, gap - 1 s) plus 0..4 RDATE-like additions (some equal to occurrences), filtered by "
                "0..6 exceptions split over two exception sources: hits, runs of consecutive hits, near misses inside a "
                "duration, before the first / after the last occurrence, same day with the other value type; peek/pop "
                "scripts. non-trivial = at least one exception; distinct = distinct op lines",
        "samples": [ops[i][:170] + "  =>  " + (impl[i][:90] if i < len(impl) else "?") for i in
                    sorted(rng.sample(range(len(ops)), min(5, len(ops))))],
        "histogram": dict(hist),
        "harness_status": st,
        "impl_vs_spec_failures": len(fails),
        "impl_vs_model_differences": len(corr),
        "exhaustive": False,
    })
    ctx.assumptions += ["occurrence sources are sorted (C16); the single rules' instances are those of vlib/rfc5545.py (C01)"]
    if st != "ok" and not fails and not corr:
        ctx.violation("correspondence", "harness ended with %s: %s" % (st, err[-600:]), {"stderr": err}, found_input=False)
    if fails:
        i, why = fails[0]
        if i < 0:
            aop = alg[-i - 1]
            aout, _, _ = ctx.impl(exe, [aop])
            ctx.violation("property", why, {"op": aop, "impl": aout[0] if aout else None, "failures_total": len(fails)})
        else:
            ctx.violation("property", why, {"op": ops[i], "impl": impl[i] if i < len(impl) else None, "model": model[i],
                                            "failures_total": len(fails)})
    elif corr:
        i, op, a, b = corr[0]
        ctx.violation("correspondence", "implementation and model differ on %d scripts, the set algebra holds; first: %s"
                      % (len(corr), op[:200]), {"correspondence": "Echse.Model.Stream.filtNext vs evfilt.c", "op": op,
                                                 "impl": a, "model": b}, found_input=False)


def replay(ctx, rep):
    exe = p_strm.build(ctx)
    op = rep["data"].get("op")
    if not op:
        print("replay names no input: %s" % rep.get("what"))
        return 1
    out, st, _ = ctx.impl(exe, [op])
    print("op: %s\nimpl: %s\nmodel: %s\nwas: %s" % (op[:300], out[0] if out else st, "-" if op.startswith("p.occ") else ctx.model([op])[0], rep.get("what")))
    return 1 if (out and out[0] == rep["data"].get("impl")) else 0
