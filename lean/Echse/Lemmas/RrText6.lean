/-
  C05, rule text round trip — part 6: UNTIL (through property C18) and the packed SHIFT value.
-/
import Echse.Lemmas.RrText5
import Echse.Props.C18
import Echse.Lemmas.RuleExt4
namespace Echse.RrText
open Echse.Rrule Echse.Strpf Echse.Instant Echse.Spec.Cal Echse.RuleExt

/-! ### UNTIL -/

theorem digitChar_avoid (c : Char) (hc : c.isDigit = false) (d : Nat) : digitChar d ≠ c := by
  have aux : ∀ k, k < 10 → (Char.ofNat (48 + k)).isDigit = true := by decide
  intro h
  have := aux (d % 10) (Nat.mod_lt _ (by omega))
  unfold digitChar at h
  rw [h, hc] at this
  exact absurd this (by decide)

theorem avoid_tpstr (c : Char) (hc : c.isDigit = false) (v n : Nat) : Avoid c (tpstr v n) := by
  induction n generalizing v with
  | zero => exact avoid_nil c
  | succ n ih =>
    rw [tpstr]
    exact avoid_append (ih _) (avoid_cons (digitChar_avoid c hc v) (avoid_nil c))

theorem avoid_ical (c : Char) (hc : c.isDigit = false) (hT : 'T' ≠ c) (hZ : 'Z' ≠ c) (i : Inst) :
    Avoid c (dtStrfIcal i) := by
  unfold dtStrfIcal
  refine avoid_append (avoid_append (avoid_append (avoid_tpstr c hc _ _) (avoid_tpstr c hc _ _))
    (avoid_tpstr c hc _ _)) ?_
  split
  · exact avoid_nil c
  · exact avoid_append (avoid_append (avoid_append (avoid_append (avoid_cons hT (avoid_nil c))
      (avoid_tpstr c hc _ _)) (avoid_tpstr c hc _ _)) (avoid_tpstr c hc _ _)) (avoid_cons hZ (avoid_nil c))

/-- the instants UNTIL can carry: a normal date-time with second resolution, or a normal date -/
def UntilOk (i : Inst) : Prop :=
  i.y ≤ 9999 ∧ (NormalSec i ∨ (NormalDay i ∧ i.M = 0 ∧ i.S = 0 ∧ i.ms = 0))

instance (i : Inst) : Decidable (UntilOk i) := by unfold UntilOk; infer_instance

theorem part_until (r : Rule) (i : Inst) (h : UntilOk i) :
    parseFrom r (";UNTIL=".toList ++ dtStrfIcal i) = some { r with untl := i } := by
  have e : ";UNTIL=".toList ++ dtStrfIcal i = ';' :: "UNTIL".toList ++ '=' :: dtStrfIcal i ++ [] := by simp
  rw [e, part_kv r _ _ [] (by decide) (by decide) (by decide)
    (avoid_ical ';' (by decide) (by decide) (by decide) i) term_nil]
  have hk : keyOf "UNTIL".toList = .untl := by decide
  rw [hk]
  simp only [keyStep, List.append_nil]
  have hp : dtStrp (dtStrfIcal i) 0 = some (i, (dtStrfIcal i).length) := by
    rcases h.2 with hs | ⟨hd, hM, hS, hms⟩
    · exact (C18.ical_roundtrip_sec i h.1 hs).1
    · exact (C18.ical_roundtrip_day i h.1 hd hM hS hms).1
  rw [hp]
  rfl

/-! ### SHIFT: the packed value -/

theorem wrapInt_id (z : Int) (h : -2147483648 ≤ z ∧ z < 2147483648) : wrapInt z = z := by
  unfold wrapInt toS32 toU32 u32
  split <;> omega

/-- the packed value: the three fields do not overlap, so the xors are sums -/
theorem xor_pack16 (d b : Int) (sem : Nat) (hd : -32768 ≤ d ∧ d ≤ 32767) (hb : 0 ≤ b ∧ b ≤ 16383) (hs : sem < 4) :
    xor32 (xor32 (d * 65536) (b * 4)) sem = d * 65536 + b * 4 + sem := by
  have e1 : toU32 (d * 65536) = 2 ^ 16 * ((d + 65536).toNat % 65536) := by unfold toU32 u32; omega
  have e2 : toU32 (b * 4) = b.toNat * 4 := by unfold toU32 u32; omega
  have x1 : toU32 (d * 65536) ^^^ toU32 (b * 4) = 2 ^ 16 * ((d + 65536).toNat % 65536) + b.toNat * 4 := by
    rw [e1, e2]; exact xor_low 16 _ _ (by omega)
  have s1 : xor32 (d * 65536) (b * 4) = d * 65536 + b * 4 := by
    unfold xor32; rw [x1]; unfold toS32 u32; split <;> omega
  rw [s1]
  have e3 : toU32 (d * 65536 + b * 4) = 2 ^ 2 * ((d * 16384 + b + 1073741824).toNat % 1073741824) := by
    unfold toU32 u32; omega
  have e4 : toU32 (sem : Int) = sem := by unfold toU32 u32; omega
  unfold xor32
  rw [e3, e4, xor_low 2 _ _ (by omega)]
  unfold toS32 u32; split <;> omega

/-- the sign character the serialiser writes -/
def signCh (neg : Bool) : Char := if neg then '-' else '+'

theorem strtolC_sign (neg : Bool) (a : Nat) (t : List Char) (ht : NoDig t) (ha : a < 16384) :
    strtolC (signCh neg :: Nat.toDigits 10 a ++ t) = ((if neg then -(a : Int) else a), t) := by
  unfold strtolC signCh
  cases neg with
  | true =>
    simp only [if_true]
    rw [strtol_neg_u a t ht]
    simp only
    congr 1
    split
    · omega
    · split <;> omega
  | false =>
    simp only [Bool.false_eq_true, if_false]
    rw [strtol_plus_u a t ht]
    simp only
    congr 1
    split
    · omega
    · split <;> omega

end Echse.RrText
