/-
  Specification of echse's own rule extensions BYEASTER and SHIFT, as the README and property C17 word them.
  Meant to be read; mentions nothing of the C code.  Dates are proleptic Gregorian day numbers (`Spec.Cal.days`).
-/
import Echse.Spec.Cal
namespace Echse.Spec.RuleExt
open Echse.Spec.Cal

/-- Easter Sunday by the anonymous Gregorian computus (Meeus / Jones / Butcher): (month, day) -/
def computus (y : Nat) : Nat × Nat :=
  let a := y % 19
  let b := y / 100
  let c := y % 100
  let d := b / 4
  let e := b % 4
  let f := (b + 8) / 25
  let g := (b - f + 1) / 3
  let h := (19 * a + b - d - g + 15) % 30
  let i := c / 4
  let k := c % 4
  let l := (32 + 2 * e + 2 * i - h - k) % 7
  let m := (a + 11 * h + 22 * l) / 451
  ((h + l - 7 * m + 114) / 31, (h + l - 7 * m + 114) % 31 + 1)

/-- day number of Easter Sunday of year y -/
def easterDay (y : Nat) : Int := days y (computus y).1 (computus y).2

/-- weekday of a day number, Monday = 1 … Sunday = 7 (day 0 = 0000-03-01, a Wednesday) -/
def wdayOf (n : Int) : Nat := ((n + 2) % 7).toNat + 1

def isBday (n : Int) : Bool := wdayOf n ≤ 5

/-- the business day after / before a day -/
def nextB (n : Int) : Int := if wdayOf n = 5 then n + 3 else if wdayOf n = 6 then n + 2 else n + 1
def prevB (n : Int) : Int := if wdayOf n = 1 then n - 3 else if wdayOf n = 7 then n - 2 else n - 1

def iter (f : Int → Int) : Nat → Int → Int
  | 0, n => n
  | k+1, n => iter f k (f n)

/-- SHIFT=NB.  `count` = |N|, `back` = the direction is backwards (N < 0, or -0B / 0B-),
`keep` = the B+ / B- form (or N = 0): stepping off a weekend does not use up one of the N business days.
A business day moves `count` business days in the direction.  A weekend day first moves to the adjacent business
day in the direction of the shift; in the plain form that step is the first of the N, in the B+/B- form it is extra. -/
def shiftB (n : Int) (count : Nat) (back keep : Bool) : Int :=
  let stepB := if back then prevB else nextB
  if isBday n then iter stepB count n
  else iter stepB (if keep ∨ count = 0 then count else count - 1) (stepB n)

end Echse.Spec.RuleExt
