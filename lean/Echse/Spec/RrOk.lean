/-
  What properties C16 and C09 ask of one filler call and of the rule stream, stated over the models
  (Echse.Model.Rr*).  Meant to be read.
-/
import Echse.Model.RrStrm
namespace Echse.Spec.RrOk
open Echse.Rrule Echse.Instant

/-- strictly ascending lists -/
def Asc (l : List Nat) : Prop := l.Pairwise (· < ·)

/-- A rule as the parser (snarf_rrule, src/evical.c) can hand it out: SCALE=GREGORIAN, INTERVAL and COUNT within
`int` range, every BYxxx value within the range the parser admits, lists in iterator order. -/
structure WfRule (r : Rule) : Prop where
  scale : r.scale = 0
  inter : 1 ≤ r.inter ∧ r.inter < 2147483648
  count : r.count = -1 ∨ (0 ≤ r.count ∧ r.count < 2147483648)
  hours : Asc r.H ∧ ∀ h ∈ r.H, h < 24
  mins : Asc r.M ∧ ∀ m ∈ r.M, m < 60
  secs : Asc r.S ∧ ∀ s ∈ r.S, s < 60
  mon : Asc r.mon ∧ ∀ m ∈ r.mon, 1 ≤ m ∧ m ≤ 12
  dom : ∀ d ∈ r.dom, d ≠ 0 ∧ -31 ≤ d ∧ d ≤ 31
  doy : ∀ d ∈ r.doy, d ≠ 0 ∧ -366 ≤ d ∧ d ≤ 366
  wk : ∀ w ∈ r.wk, w ≠ 0 ∧ -53 ≤ w ∧ w ≤ 53
  dow : ∀ t ∈ r.dow, t ≠ 0 ∧ -431 ≤ t ∧ t ≤ 431 ∧ (t % 8 ≠ 0)      -- pack_cd: (count << 3) | weekday, weekday 1..7
  pos : ∀ p ∈ r.pos, p ≠ 0 ∧ -366 ≤ p ∧ p ≤ 366
  easter : ∀ e ∈ r.easter, -366 ≤ e ∧ e ≤ 366
  shift : -2147483648 ≤ r.shift ∧ r.shift < 2147483648

/-- An instant a stream may be seeded with: a real date between 1601 and 2100 with a time of day or all-day. -/
structure WfInst (p : Inst) : Prop where
  year : 1601 ≤ p.y ∧ p.y ≤ 2100
  month : 1 ≤ p.m ∧ p.m ≤ 12
  day : 1 ≤ p.d ∧ p.d ≤ getNdom p.y p.m
  time : (p.H = allDay ∧ p.M = 0 ∧ p.S = 0) ∨ (p.H < 24 ∧ p.M < 60 ∧ p.S < 60)
  ms : p.ms < 1024

/-- What one call `rrul_fill_X(tgt, nti, rr)` on a cache pre-filled with `proto` must deliver: at most `nti` and at most
COUNT instants (so nothing is written beyond `tgt[nti)`), each a sane instant, none before the seed, none after UNTIL,
in strictly ascending order. -/
structure FillOk (r : Rule) (proto : Inst) (nti : Nat) (l : List Inst) : Prop where
  len_nti : l.length ≤ nti
  len_count : 0 ≤ r.count → (l.length : Int) ≤ r.count
  wf : ∀ x ∈ l, WfInst x
  ge_proto : ∀ x ∈ l, ltP x proto = false
  le_until : ∀ x ∈ l, ltP r.untl x = false
  ascending : l.Pairwise (fun a b => ltP a b = true)

/-- What C16 asks of the first `n` occurrences `l` of the stream of rule `r` started at `ds`. -/
structure StreamOk (r : Rule) (ds : Inst) (l : List Inst) : Prop where
  ascending : l.Pairwise (fun a b => ltP a b = true)
  ge_start : ∀ x ∈ l, ltP x ds = false
  le_until : ∀ x ∈ l, ltP r.untl x = false
  len_count : 0 ≤ r.count → (l.length : Int) ≤ r.count

end Echse.Spec.RrOk
