/-
  C17 lemmas, part 8: `fill_yly_eastr` without BYDAY/BYMONTH/BYMONTHDAY, offset by offset (`byeaster_many`).
-/
import Echse.Lemmas.RuleExt6
namespace Echse.RuleExt
open Echse.Rrule

/-- the day of the year BYEASTER offset `o` names, as `fill_yly_eastr` computes it (yd0: Easter's) -/
def eastrYd (yd0 : Nat) (o : Int) : Nat :=
  if (yd0 : Int) + o < 0 then (((yd0 : Int) + o) % (u32 : Int)).toNat else ((yd0 : Int) + o).toNat % u32

/-- the offset yields a candidate -/
def eastrOk (y yd0 : Nat) (o : Int) : Prop :=
  ¬ yd0 = 0 ∧ ¬ (eastrYd yd0 o = 0 ∨ eastrYd yd0 o > 365 + (if y % 4 = 0 then 1 else 0)) ∧
    ¬ (ydToMd y (eastrYd yd0 o)).m = 0
instance (y yd0 : Nat) (o : Int) : Decidable (eastrOk y yd0 o) := by unfold eastrOk; infer_instance

def eastrVal (y yd0 : Nat) (o : Int) : Nat :=
  packCand (ydToMd y (eastrYd yd0 o)).m (ydToMd y (eastrYd yd0 o)).d

def eastrStep (y yd0 : Nat) (cand : List Nat) (o : Int) : List Nat :=
  if eastrOk y yd0 o then assC cand (eastrVal y yd0 o) else cand

theorem fill_eq (cand : List Nat) (y : Nat) (offs : List Int) :
    fillYlyEastr cand y offs [] [] 0 = offs.foldl (eastrStep y (easterGetYday y)) cand := by
  unfold fillYlyEastr
  generalize easterGetYday y = yd0
  congr 1
  funext cand o
  have hw : ¬ ((0:Nat) >>> 1 ≠ 0) := by decide
  have hm : ∀ md, mdMatchP md [] [] = true := fun md => rfl
  dsimp only
  rw [if_neg hw]
  simp only [hm, Bool.not_true, Bool.false_eq_true, if_false]
  unfold eastrStep eastrOk eastrVal
  simp only [← eastrYd.eq_1]
  by_cases h1 : yd0 = 0
  · simp only [h1, if_true, not_true, false_and, if_false]
  · simp only [h1, if_false, not_false_eq_true, true_and]
    by_cases h2 : (eastrYd yd0 o = 0 ∨ eastrYd yd0 o > 365 + (if y % 4 = 0 then 1 else 0))
    · simp only [h2, if_true, not_true, false_and, if_false]
    · simp only [h2, if_false, not_false_eq_true, true_and]
      by_cases h3 : (ydToMd y (eastrYd yd0 o)).m = 0
      · simp only [h3, if_true, not_true, if_false]
      · simp only [h3, if_false, not_false_eq_true, if_true]

theorem foldl_step_mem (y yd0 : Nat) (offs : List Int) (cand : List Nat) (c : Nat) :
    c ∈ offs.foldl (eastrStep y yd0) cand ↔ c ∈ cand ∨ ∃ o ∈ offs, eastrOk y yd0 o ∧ c = eastrVal y yd0 o := by
  induction offs generalizing cand with
  | nil => simp
  | cons a l ih =>
    rw [List.foldl_cons, ih]
    unfold eastrStep
    by_cases h : eastrOk y yd0 a
    · simp only [if_pos h, assC_mem, List.mem_cons]
      constructor
      · intro h'
        rcases h' with (h'|h')|⟨o, ho, h'⟩
        · exact Or.inl h'
        · exact Or.inr ⟨a, Or.inl rfl, h, h'⟩
        · exact Or.inr ⟨o, Or.inr ho, h'⟩
      · intro h'
        rcases h' with h'|⟨o, ho|ho, h'⟩
        · exact Or.inl (Or.inl h')
        · subst ho; exact Or.inl (Or.inr h'.2)
        · exact Or.inr ⟨o, ho, h'⟩
    · simp only [if_neg h, List.mem_cons]
      constructor
      · intro h'
        rcases h' with h'|⟨o, ho, h'⟩
        · exact Or.inl h'
        · exact Or.inr ⟨o, Or.inr ho, h'⟩
      · intro h'
        rcases h' with h'|⟨o, ho|ho, h'⟩
        · exact Or.inl h'
        · subst ho; exact absurd h'.1 h
        · exact Or.inr ⟨o, ho, h'⟩

theorem step_single (y yd0 : Nat) (o : Int) :
    [o].foldl (eastrStep y yd0) [] = if eastrOk y yd0 o then [eastrVal y yd0 o] else [] := by
  simp only [List.foldl_cons, List.foldl_nil, eastrStep]
  by_cases h : eastrOk y yd0 o
  · rw [if_pos h, if_pos h]; rfl
  · rw [if_neg h, if_neg h]

theorem many_gen (y yd0 : Nat) (offs : List Int) (c : Nat) :
    c ∈ offs.foldl (eastrStep y yd0) [] ↔ ∃ o ∈ offs, [o].foldl (eastrStep y yd0) [] = [c] := by
  rw [foldl_step_mem]
  simp only [step_single, List.not_mem_nil, false_or]
  constructor
  · intro ⟨o, ho, h1, h2⟩
    exact ⟨o, ho, by rw [if_pos h1, h2]⟩
  · intro ⟨o, ho, h⟩
    refine ⟨o, ho, ?_⟩
    by_cases h1 : eastrOk y yd0 o
    · rw [if_pos h1] at h
      exact ⟨h1, (List.cons.inj h).1.symm⟩
    · rw [if_neg h1] at h
      exact absurd h (by simp)

theorem fill_single (y : Nat) (o : Int) :
    fillYlyEastr [] y [o] [] [] 0 =
      if eastrOk y (easterGetYday y) o then [eastrVal y (easterGetYday y) o] else [] := by
  rw [fill_eq]; exact step_single y _ o

theorem byeaster_many (y : Nat) (offs : List Int) (c : Nat) :
    c ∈ fillYlyEastr [] y offs [] [] 0 ↔ ∃ o ∈ offs, fillYlyEastr [] y [o] [] [] 0 = [c] := by
  simp only [fill_eq]; exact many_gen y _ offs c
end Echse.RuleExt
