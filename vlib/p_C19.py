"""C19 — small-integer set containers behave as sets.

Correspondence: harness/hx_bitint.c (compiled from the working tree's bitint.h/.c) vs the
Lean model (Echse.Model.Bitint via the driver) on the same insertion sequences.
Oracle: Python set semantics applied to the implementation's answers directly.
"""
import itertools
import os

from . import common

KINDS = {
    "bui31": (0, 30), "bui63": (0, 62), "bi31": (-31, 31), "bi63": (-63, 63),
    "bi383": (-383, 383), "bi447": (-447, 447),
}


def spec_ok(kind, xs, answer):
    """does the implementation's answer satisfy the property for insertion sequence xs?"""
    lo, hi = KINDS[kind]
    parts = dict(p.split("=", 1) for p in answer.split(" ") if "=" in p)
    if "it" not in parts:
        return False, "no iteration reported (crash or bad-op)"
    it = parts["it"]
    if it.endswith("!"):
        return False, "iteration does not terminate"
    got = [int(x) for x in it.split(",") if x != ""]
    want = sorted(set(xs))
    if sorted(got) != want:
        return False, "iteration yields %s, inserted set is %s" % (got, want)
    if "has" in parts:
        has = parts["has"]
        exp = "".join("1" if v in set(xs) else "0" for v in range(lo, hi + 1))
        if has != exp:
            return False, "membership differs from the inserted set"
    return True, ""


def gen_ops(ctx):
    rng = ctx.rng
    ops = []
    thorough = ctx.tier == "thorough"
    for kind, (lo, hi) in KINDS.items():
        vals = list(range(lo, hi + 1))
        n = len(vals)
        ops.append((kind, []))
        ex = 3 if (thorough and n <= 63) or n <= 31 else 2
        if n > 200:
            ex = 1
        for k in range(1, ex + 1):
            for seq in itertools.product(vals, repeat=k):
                ops.append((kind, list(seq)))
        # sampled: triples, boundary-heavy, long
        edge = sorted(set([lo, lo + 1, -1, 0, 1, 2, hi - 1, hi, 31, 32, 33, -31, -32, -33, 63, 64, -63, -64,
                           95, 96, -96, 383, -383, 382, 447, -447, 352, -352, 416, -416]) & set(vals))
        m = (60000 if thorough else 3000)
        for _ in range(m):
            r = rng.random()
            if r < 0.35:
                k = 3
            elif r < 0.6:
                k = rng.randint(4, 11)
            elif r < 0.85:
                k = rng.randint(11, 16)      # native -> bitset switch of the 383/447 flavours
            else:
                k = rng.randint(17, 80)
            pool = edge if rng.random() < 0.4 else vals
            seq = [rng.choice(pool) if rng.random() < 0.8 else rng.choice(vals) for _ in range(k)]
            if rng.random() < 0.15:
                seq = [x for x in seq if x <= 0] or [lo]      # negative-only / zero-only
            ops.append((kind, seq))
    return ops


def line(kind, xs):
    return (kind + " " + " ".join(str(x) for x in xs)).strip()


def nontrivial(kind, xs):
    s = set(xs)
    return len(s) >= 2 or (len(s) == 1 and (0 in s or min(s) < 0 or max(s) == KINDS[kind][1]))


def shrink(ctx, exe, kind, xs):
    """greedy removal of elements while the implementation still violates the spec."""
    cur = list(xs)
    changed = True
    while changed and len(cur) > 1:
        changed = False
        for i in range(len(cur)):
            cand = cur[:i] + cur[i + 1:]
            out, st, _ = ctx.impl(exe, [line(kind, cand)])
            ans = out[0] if out else "<no answer>"
            if not spec_ok(kind, cand, ans)[0]:
                cur = cand
                changed = True
                break
    return cur


def build(ctx):
    exe, log = ctx.cc("hx_bitint", [os.path.join(common.HARNESS, "hx_bitint.c")])
    if exe is None:
        raise common.Broken("harness hx_bitint does not compile against the working tree:\n" + log[-1500:])
    return exe


def run(ctx):
    exe = build(ctx)
    ops = [tuple(l.split(" ", 1)) for l in common.load_corpus("C19")]
    ops = [(k, [int(x) for x in (r[0].split() if r else [])]) for k, *r in ops]
    ops += gen_ops(ctx)
    lines = [line(k, xs) for k, xs in ops]
    impl, status, err = ctx.impl(exe, lines)
    model = ctx.model(lines)
    spec_fail = []
    for i, (k, xs) in enumerate(ops):
        ans = impl[i] if i < len(impl) else "<no answer: harness %s>" % status
        ok, why = spec_ok(k, xs, ans)
        if not ok:
            spec_fail.append((i, why))
    corr = common.diff_lines(lines, impl, model)
    distinct = {l for l, (k, xs) in zip(lines, ops) if nontrivial(k, xs)}
    per_kind = {}
    for k, xs in ops:
        per_kind[k] = per_kind.get(k, 0) + 1
    ctx.cov.update({
        "evaluations": len(lines),
        "distinct_nontrivial": len(distinct),
        "traces_validated_against_impl": len(lines) - len(corr),
        "rule": "insertion sequences per container: all sequences up to length 3 (31-value containers; "
                "63-value ones in thorough), up to 2 otherwise, singletons for 383/447, plus seeded random "
                "sequences (triples, 4-11, 11-16 around the native->bitset switch, 17-80; 40% drawn from "
                "boundary values; 15% negative/zero-only); non-trivial = >= 2 distinct values, or a single "
                "value that is 0, negative or the top of the range; distinct = distinct op lines",
        "samples": [lines[i] + "  =>  " + impl[i] for i in
                    sorted(ctx.rng.sample(range(len(impl)), min(6, len(impl))))],
        "ops_per_container": per_kind,
        "harness_status": status,
        "impl_vs_spec_failures": len(spec_fail),
        "impl_vs_model_differences": len(corr),
        "exhaustive": False,
    })
    ctx.assumptions += [
        "value ranges as documented: unsigned 0..30 / 0..62, signed +-31 / +-63 / +-383 / +-447",
        "membership of the 63-bit flavours is observed through iteration (bitint.h has no has_bit for them)",
    ]
    if status != "ok" and not spec_fail and not corr:
        ctx.violation("correspondence", "harness ended with %s: %s" % (status, err[-400:]),
                      {"status": status, "stderr": err}, found_input=False)
    if spec_fail:
        i, why = spec_fail[0]
        k, xs = ops[i]
        xs2 = shrink(ctx, exe, k, xs)
        out, _, _ = ctx.impl(exe, [line(k, xs2)])
        ctx.violation("property", "%s: %s" % (line(k, xs2), spec_ok(k, xs2, out[0] if out else "")[1]),
                      {"op": line(k, xs2), "impl": out[0] if out else None, "original_op": lines[i],
                       "model": ctx.model([line(k, xs2)])[0], "failures_total": len(spec_fail)})
    elif corr:
        i, op, a, b = corr[0]
        ctx.violation("correspondence",
                      "implementation and model differ on %d ops, none violates the set semantics; first: %s impl=%s model=%s"
                      % (len(corr), op, a, b),
                      {"correspondence": "Echse.Model.Bitint vs src/bitint.h,bitint.c", "op": op, "impl": a,
                       "model": b, "n": len(corr)}, found_input=False)


def replay(ctx, rep):
    exe = build(ctx)
    op = rep["data"].get("op")
    if not op:
        print("replay names no input: %s" % rep.get("what"))
        return 1
    out, st, _ = ctx.impl(exe, [op])
    k, *r = op.split(" ")
    ok, why = spec_ok(k, [int(x) for x in r], out[0] if out else "")
    print("op: %s\nimpl: %s\nmodel: %s\nverdict: %s %s" % (op, out[0] if out else st, ctx.model([op])[0],
                                                        "holds" if ok else "FAILS", why))
    return 0 if ok else 1
