import Echse.Model.Stream
import Driver.Util
open Echse.Stream
namespace Driver

/-- stream trees as built by the harness:  L n ev…  |  M k tree…  |  F tree tree -/
inductive St where
  | leaf (l : List Event)
  | mux (m : Mux St)
  | filt (f : Filt St St)

partial def stNext (s : St) (popp : Bool) : Event × St :=
  let ops : Ops St := { peek := fun t => stNext t false, pop := fun t => stNext t true }
  match s with
  | .leaf l => let (e, l') := (if popp then listOps.pop l else listOps.peek l); (e, .leaf l')
  | .mux m => let (e, m') := muxNext ops m popp; (e, .mux m')
  | .filt f => let (e, f') := filtNext ops ops 1000000 f popp; (e, .filt f')

def stOps : Ops St := { peek := fun t => stNext t false, pop := fun t => stNext t true }

def parseEvent? (tok : String) : Option Event :=
  match tok.splitOn ":" with
  | [h, o, d] => do
    let f ← parseHex? h
    let oid ← o.toNat?
    let dur ← d.toInt?
    pure ⟨f, dur, oid⟩
  | _ => none

/-- `evstrm_vmux` conventions: a NULL (empty `L 0`) sub-stream is skipped, a single one is returned as is -/
partial def parseTree : List String → Option (Option St × List String)
  | "L" :: n :: rest => do
    let n ← n.toNat?
    let evs ← (rest.take n).mapM parseEvent?
    if (rest.take n).length ≠ n then none else
    pure (if n = 0 then none else some (.leaf evs), rest.drop n)
  | "M" :: k :: rest => do
    let k ← k.toNat?
    let rec go (k : Nat) (ts : List String) (acc : List St) : Option (List St × List String) :=
      if k = 0 then some (acc.reverse, ts) else
      match parseTree ts with
      | some (some t, ts') => go (k - 1) ts' (t :: acc)
      | some (none, ts') => go (k - 1) ts' acc
      | none => none
    let (subs, rest') ← go k rest []
    pure (match subs with
      | [] => none
      | [t] => some t
      | _ => some (.mux (Mux.make subs)), rest')
  | "C" :: rest => parseTree rest          -- a clone is the same stream
  | "MX" :: rest => parseTree ("M" :: rest)   -- the other constructors of a merged stream build the same stream
  | "MC" :: rest => parseTree ("M" :: rest)
  | "VC" :: rest => parseTree ("M" :: rest)
  | "F" :: rest => do
    let (e, r1) ← parseTree rest
    let (x, r2) ← parseTree r1
    pure (match e, x with
      | none, _ => none
      | some e, none => some e
      | some e, some x => some (.filt (Filt.make stOps e x)), r2)
  | _ => none

def showEv (e : Event) : String := if e.isNul then "-" else s!"{toHex16 e.from_}:{e.oid}"

/-- `m.run <tree tokens> # <script of n/p>` -/
def runStream (args : List String) : String :=
  let (treeToks, script) := (args.takeWhile (· ≠ "#"), (args.dropWhile (· ≠ "#")).drop 1)
  match parseTree treeToks with
  | some (st, []) =>
    let script := (String.join script).toList.filter (· != 'c')     -- `c`: go on with a clone, the same stream
    match st with
    | none => joinWith " " (script.map fun _ => "-")    -- NULL stream: the harness answers nul
    | some st =>
      let (outs, _) := script.foldl (fun (acc : List String × St) c =>
        let (e, s') := stNext acc.2 (c == 'p')
        (showEv e :: acc.1, s')) ([], st)
      joinWith " " outs.reverse
  | _ => "bad-op"

end Driver
