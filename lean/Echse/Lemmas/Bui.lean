/-
  Unsigned containers `bituint31_t` / `bituint63_t`: representation invariant `BuiR`,
  its preservation by `assBui`, and what iteration / membership yield under it.
-/
import Echse.Lemmas.Bits
namespace Echse.Bitint

/-- iteration over the unsigned container in bitset mode -/
theorem buiIterate_bits (w bi : Nat) (hev : bi % 2 = 0) (hlt : bi < 2^w) :
    ∀ fuel iter, (w - 1 - iter) + 1 ≤ fuel →
      buiIterate w bi fuel iter = some (setBits (bi >>> 1) iter (w - 1)) := by
  have hB : bi >>> 1 < 2^w := by
    rw [Nat.shiftRight_eq_div_pow]; exact Nat.lt_of_le_of_lt (Nat.div_le_self _ _) hlt
  have hB' : ∀ j, w - 1 ≤ j → (bi >>> 1).testBit j = false := by
    intro j hj
    rw [Nat.testBit_shiftRight]
    exact Nat.testBit_lt_two_pow (Nat.lt_of_lt_of_le hlt (Nat.pow_le_pow_right (by omega) (by omega)))
  intro fuel
  induction fuel with
  | zero => intro iter h; omega
  | succ f ih =>
    intro iter h
    unfold buiIterate buiNext
    have hne : ¬ (bi % 2 = 1) := by omega
    simp only [hne, if_false]
    by_cases hz : (bi >>> 1) >>> iter = 0
    · simp only [hz, ne_eq, not_true_eq_false, if_false, if_true]
      rw [setBits_none]
      exact (shr_eq_zero_iff _ _).mp hz
    · simp only [ne_eq, hz, not_false_eq_true, if_true]
      obtain ⟨a1, a2, a3, a4⟩ := nsb_spec w (bi >>> 1) iter hB hz
      have hr : iter + ctz w ((bi >>> 1) >>> iter) < w - 1 := by
        rcases Nat.lt_or_ge (iter + ctz w ((bi >>> 1) >>> iter)) (w - 1) with hc | hc
        · exact hc
        · rw [hB' _ hc] at a1; exact absurd a1 (by simp)
      simp only [Nat.add_one_ne_zero, if_false]
      rw [ih _ (by omega), setBits_next _ iter _ _ a2 hr a1 a4]
      rfl

/-- what iteration must yield: the inserted values, ascending, once each -/
def canonU (w : Nat) (xs : List Nat) : List Nat := (List.range (w - 1)).filter (fun j => decide (j ∈ xs))

theorem setBits_eq_canonU (w B : Nat) (xs : List Nat)
    (h : ∀ j, j < w - 1 → B.testBit j = decide (j ∈ xs)) : setBits B 0 (w - 1) = canonU w xs := by
  unfold setBits canonU
  rw [List.range_eq_range', Nat.sub_zero]
  apply List.filter_congr
  intro j hj
  rw [List.mem_range'_1] at hj
  exact h j (by omega)

def BuiR (w : Nat) (xs : List Nat) (bi : Nat) : Prop :=
  (xs = [] ∧ bi = 0) ∨ (∃ v, xs = [v] ∧ bi = 2 * v + 1) ∨
  (2 ≤ xs.length ∧ bi % 2 = 0 ∧ bi < 2^w ∧ ∀ j, bi.testBit (j + 1) = decide (j ∈ xs))

theorem BuiR_step (w : Nat) (hw : 2 ≤ w ∧ w ≤ 64) (xs : List Nat) (bi x : Nat)
    (hx : x < w - 1) (hxs : ∀ v ∈ xs, v < w - 1) (h : BuiR w xs bi) :
    BuiR w (xs ++ [x]) (assBui w bi x) := by
  have hpx : 2^(x+1) < 2^w := two_pow_lt _ _ (by omega)
  have hev : ∀ k, 2^(k+1) % 2 = 0 := by intro k; rw [Nat.pow_succ]; omega
  rcases h with ⟨h1, h2⟩ | ⟨v, h1, h2⟩ | ⟨h1, h2, h3, h4⟩
  · subst h1 h2
    right; left
    refine ⟨x, rfl, ?_⟩
    unfold assBui
    simp only [if_true]
    rw [shl1_or1]
    apply Nat.mod_eq_of_lt
    have : x < 63 := by omega
    omega
  · subst h1 h2
    have hv : v < w - 1 := hxs v (by simp)
    have hpv : 2^(v+1) < 2^w := two_pow_lt _ _ (by omega)
    right; right
    unfold assBui
    have hne : 2 * v + 1 ≠ 0 := by omega
    have hodd : (2 * v + 1) % 2 = 1 := by omega
    have hsh : (2 * v + 1) >>> 1 = v := by rw [Nat.shiftRight_eq_div_pow]; omega
    simp only [hne, if_false, hodd, if_true, hsh, Nat.one_shiftLeft]
    rw [Nat.mod_eq_of_lt hpv, Nat.mod_eq_of_lt (Nat.or_lt_two_pow hpv hpx)]
    refine ⟨by simp, ?_, Nat.or_lt_two_pow hpv hpx, ?_⟩
    · exact or_even _ _ (hev v) (hev x)
    · intro j
      simp only [Nat.testBit_or, Nat.testBit_two_pow, List.cons_append, List.nil_append, List.mem_cons,
        List.not_mem_nil, or_false]
      by_cases a : v = j <;> by_cases b : x = j <;> simp [a, b] <;> omega
  · right; right
    have hne : bi ≠ 0 := by
      intro hz
      obtain ⟨v, hv⟩ : ∃ v, v ∈ xs := by
        cases xs with
        | nil => simp at h1
        | cons a _ => exact ⟨a, by simp⟩
      have := h4 v
      rw [hz] at this; simp [hv] at this
    have hodd : ¬ (bi % 2 = 1) := by omega
    unfold assBui
    simp only [hne, if_false, hodd, Nat.one_shiftLeft]
    rw [Nat.mod_eq_of_lt (Nat.or_lt_two_pow h3 hpx)]
    refine ⟨by simp; omega, ?_, Nat.or_lt_two_pow h3 hpx, ?_⟩
    · exact or_even _ _ h2 (hev x)
    · intro j
      simp only [Nat.testBit_or, Nat.testBit_two_pow, h4 j, List.mem_append, List.mem_cons, List.not_mem_nil, or_false]
      by_cases a : j ∈ xs <;> by_cases b : x = j <;> simp [a, b] <;> omega

theorem BuiR_foldl (w : Nat) (hw : 2 ≤ w ∧ w ≤ 64) :
    ∀ (ys xs : List Nat) (bi : Nat), (∀ v ∈ xs, v < w - 1) → (∀ v ∈ ys, v < w - 1) → BuiR w xs bi →
      BuiR w (xs ++ ys) (ys.foldl (assBui w) bi) := by
  intro ys
  induction ys with
  | nil => intro xs bi _ _ h; simpa using h
  | cons y ys ih =>
    intro xs bi hxs hys h
    have := ih (xs ++ [y]) (assBui w bi y)
      (by intro v hv; rcases List.mem_append.mp hv with a | a
          · exact hxs v a
          · simp at a; subst a; exact hys _ (by simp))
      (fun v hv => hys v (by simp [hv]))
      (BuiR_step w hw xs bi y (hys y (by simp)) hxs h)
    simpa using this

theorem BuiR_insertAll (w : Nat) (hw : 2 ≤ w ∧ w ≤ 64) (xs : List Nat) (hxs : ∀ v ∈ xs, v < w - 1) :
    BuiR w xs (xs.foldl (assBui w) 0) := by
  have := BuiR_foldl w hw xs [] 0 (by simp) hxs (Or.inl ⟨rfl, rfl⟩)
  simpa using this

theorem setBits_two_pow (v hi : Nat) (h : v < hi) : setBits (2^v) 0 hi = [v] := by
  rw [setBits_next (2^v) 0 v hi (by omega) h (by simp [Nat.testBit_two_pow])
        (by intro j _ h2; simp [Nat.testBit_two_pow]; omega)]
  rw [setBits_none]
  intro j hj; simp [Nat.testBit_two_pow]; omega

theorem buiIterate_of_R (w : Nat) (hw : 2 ≤ w ∧ w ≤ 64) (xs : List Nat) (bi : Nat)
    (hxs : ∀ v ∈ xs, v < w - 1) (h : BuiR w xs bi) :
    buiIterate w bi (w + 1) 0 = some (canonU w xs) := by
  rcases h with ⟨h1, h2⟩ | ⟨v, h1, h2⟩ | ⟨h1, h2, h3, h4⟩
  · subst h1 h2
    rw [buiIterate_bits w 0 (by simp) (Nat.two_pow_pos w) (w+1) 0 (by omega)]
    rw [setBits_none _ _ _ (by simp)]
    simp [canonU]
  · subst h1 h2
    have hv : v < w - 1 := hxs v (by simp)
    have hsh : (2 * v + 1) >>> 1 = v := by rw [Nat.shiftRight_eq_div_pow]; omega
    have hodd : (2 * v + 1) % 2 = 1 := by omega
    rw [← setBits_eq_canonU w (2^v) [v] (by intro j _; simp [Nat.testBit_two_pow]; constructor <;> (intro; omega))]
    rw [setBits_two_pow v (w-1) hv]
    rw [show w + 1 = (w - 1) + 1 + 1 by omega]
    simp [buiIterate, buiNext, hodd, hsh]
  · rw [buiIterate_bits w bi h2 h3 (w+1) 0 (by omega)]
    congr 1
    apply setBits_eq_canonU
    intro j _
    rw [Nat.testBit_shiftRight, Nat.add_comm]; exact h4 j

theorem buiHasBit_of_R (w : Nat) (xs : List Nat) (bi x : Nat) (h : BuiR w xs bi) :
    buiHasBit bi x = decide (x ∈ xs) := by
  rcases h with ⟨h1, h2⟩ | ⟨v, h1, h2⟩ | ⟨h1, h2, h3, h4⟩
  · subst h1 h2; simp [buiHasBit]
  · subst h1 h2
    have hsh : (2 * v + 1) >>> 1 = v := by rw [Nat.shiftRight_eq_div_pow]; omega
    have hodd : (2 * v + 1) % 2 = 1 := by omega
    simp only [buiHasBit, hodd, hsh, if_true, List.mem_singleton]
    by_cases e : v = x
    · subst e; simp
    · have e' : ¬ x = v := fun h => e h.symm
      simp [e, e']
  · have hodd : ¬ (bi % 2 = 1) := by omega
    have := h4 x
    unfold buiHasBit
    simp only [hodd, if_false]
    rw [← this, Nat.testBit, Nat.one_and_eq_mod_two]
    simp

end Echse.Bitint
