/-
  Property C01: RRULE expansion equals the RFC 5545 recurrence set.

  Specification: Echse/Spec/Rfc5545.lean (instances per frequency from the RFC's expand/limit table, BYSETPOS,
  DTSTART, UNTIL), written independently of the code.  Models: Echse/Model/Rr*.lean, the transcribed fillers
  `rrul_fill_*` (tied to src/evrrul.c by the call-level correspondence run of the checks).

  Per filler call `fillX r p n = some l` (seed `p` = DTSTART or the occurrence held back before a refill):
    * none extra   : every `x ∈ l` is an instance of the rule anchored at the seed and passes BYSETPOS;
    * none missing : every instance `x` (passing BYSETPOS, not before the seed, not after UNTIL, not after 2099) is in `l`,
                     or `l` is full (`cap` = what `nti` and COUNT allow) and `x` comes after all of `l`.
  Together with C16 (`FillOk`: ascending, bounded) `l` is exactly the first `cap` members of the recurrence set from
  the seed on; C16's stream theorem carries this across refills (the seed of a refill is an occurrence).

  Status: SECONDLY, MINUTELY, HOURLY, DAILY, WEEKLY — proved in full, BYSETPOS included.
          MONTHLY, YEARLY — proved, BYSETPOS and the refill included, for the RFC rule language minus two classes in which the
          code is wrong (recorded findings D125, D129; `MlySup`, `YlySup` spell the classes out): the theorems carry
          `_partial` in their names for that reason.  SHIFT and BYEASTER are echse's own extensions and are C17's matter
          (`r.shift = 0`, `r.easter = []` here).
  The proofs are in Echse/Lemmas/RrSubRfc*, RrSlyRfc*, RrMnlyRfc*, RrHlyRfc*, RrRfcBase*, RrRfcPos*, RrDlyRfc*, RrDlyPos*,
  RrWlyRfc*, RrWlyPos*, RrCandRfc*, RrCandPos*, RrMlyRfc*, RrMlyPos*, RrMlyReseed, RrYlyRfc*, RrYlyPos*, RrYlyReseed.
-/
import Echse.Lemmas.RrSlyRfc3
import Echse.Lemmas.RrMnlyRfc4
import Echse.Lemmas.RrHlyRfc4
import Echse.Lemmas.RrDlyRfc
import Echse.Lemmas.RrWlyRfc
import Echse.Lemmas.RrMlyReseed
import Echse.Lemmas.RrYlyReseed
namespace C01
open Echse.Rrule Echse.Instant Echse.Spec.RrOk Echse.Spec.Rfc
open Echse.Lemmas.RrSubRfc Echse.Lemmas.RrRfc Echse.Lemmas.RrMlyRfc Echse.Lemmas.RrYlyRfc

/-- hypotheses shared by all statements: a parser-producible Gregorian rule, a sane seed in the years in which echse's
leap rule is the Gregorian one, and no BYHOUR/BYMINUTE/BYSECOND on a DATE-valued seed (RFC 5545 forbids them there;
the code does not ignore them: `Echse.Lemmas.RrDlyRfc` records the counterexample) -/
structure Pre (r : Rule) (p : Inst) : Prop where
  rule : WfRule r
  seed : WfInst p
  year : 1901 ≤ p.y
  kind : SeedOk r p

/-! ### FREQ=DAILY -/

theorem daily_none_extra (r : Rule) (p : Inst) (n : Nat) (l : List Inst) (h0 : Pre r p) (hn : n ≤ 64)
    (hf : r.pos ≠ [] → r.freq = 4) (h : fillDly r p n = some l) : ∀ x ∈ l, DailyInst r p x ∧ SetposOk r p x :=
  Echse.Lemmas.RrDlyRfc.fillDly_sound r p n l h0.rule h0.seed h0.kind hn h0.year hf h

theorem daily_none_missing (r : Rule) (p : Inst) (n : Nat) (l : List Inst) (h0 : Pre r p) (hn : n ≤ 64)
    (hf : r.pos ≠ [] → r.freq = 4) (h : fillDly r p n = some l)
    (x : Inst) (hx : DailyInst r p x) (hsp : SetposOk r p x) (hge : absOf p ≤ absOf x)
    (hle : ltP r.untl x = false) (hxy : x.y ≤ 2099) :
    x ∈ l ∨ (l.length = capOf r n ∧ ∀ z ∈ l, ltP z x = true) :=
  Echse.Lemmas.RrDlyRfc.fillDly_complete r p n l h0.rule h0.seed h0.kind hn h0.year hf h x hx hsp hge hle hxy

/-! ### FREQ=WEEKLY (weeks start on Monday) -/

theorem weekly_none_extra (r : Rule) (p : Inst) (n : Nat) (l : List Inst) (h0 : Pre r p) (hn : n ≤ 64)
    (hf : r.pos ≠ [] → r.freq = 3) (h : fillWly r p n = some l) : ∀ x ∈ l, WeeklyInst r p x ∧ SetposOk r p x :=
  Echse.Lemmas.RrWlyRfc.fillWly_sound r p n l h0.rule h0.seed h0.kind hn h0.year hf h

theorem weekly_none_missing (r : Rule) (p : Inst) (n : Nat) (l : List Inst) (h0 : Pre r p) (hn : n ≤ 64)
    (hf : r.pos ≠ [] → r.freq = 3) (h : fillWly r p n = some l)
    (x : Inst) (hx : WeeklyInst r p x) (hsp : SetposOk r p x) (hge : absOf p ≤ absOf x)
    (hle : ltP r.untl x = false) (hxy : x.y ≤ 2099) :
    x ∈ l ∨ (l.length = capOf r n ∧ ∀ z ∈ l, ltP z x = true) :=
  Echse.Lemmas.RrWlyRfc.fillWly_complete r p n l h0.rule h0.seed h0.kind hn h0.year hf h x hx hsp hge hle hxy

/-! ### FREQ=HOURLY / MINUTELY / SECONDLY
  `seedT p` is the seed as these fillers read it (a DATE-valued seed — outside RFC 5545 for these frequencies — counts
  as 00:00:00 of its day; for a date-time seed `seedT p = p`). -/

theorem hourly_none_extra (r : Rule) (p : Inst) (n : Nat) (l : List Inst) (hr : WfRule r) (hp : WfInst p) (hy : 1901 ≤ p.y)
    (hf : r.freq = 5) (h : fillHly r p n = some l) : ∀ x ∈ l, HourlyInst r (seedT p) x ∧ SetposOk r (seedT p) x :=
  fun x hx => ⟨Echse.Lemmas.RrHlyRfc.fillHly_sound_gen r p n l hr hp hy h x hx,
               Echse.Lemmas.RrHlyRfc.fillHly_setpos_gen r p n l hr hp hy hf h x hx⟩

theorem hourly_none_missing (r : Rule) (p : Inst) (n cap : Nat) (l : List Inst) (hr : WfRule r) (hp : WfInst p)
    (hy : 1901 ≤ p.y) (hf : r.freq = 5) (hcap : capNti r n = some cap) (h : fillHly r p n = some l)
    (x : Inst) (hx : HourlyInst r (seedT p) x) (hsp : SetposOk r (seedT p) x) (hge : absOf (seedT p) ≤ absOf x)
    (hu : ltP r.untl x = false) (hxy : x.y ≤ 2099) :
    x ∈ l ∨ (l.length = cap ∧ ∀ z ∈ l, ltP z x = true) :=
  Echse.Lemmas.RrHlyRfc.fillHly_complete_pos_gen r p n cap l hr hp hy hf hcap h x hx hsp hge hu hxy

theorem minutely_none_extra (r : Rule) (p : Inst) (n : Nat) (l : List Inst) (hr : WfRule r) (hp : WfInst p) (hy : 1901 ≤ p.y)
    (hf : r.freq = 6) (h : fillMnly r p n = some l) : ∀ x ∈ l, MinutelyInst r (seedT p) x ∧ SetposOk r (seedT p) x :=
  fun x hx => ⟨Echse.Lemmas.RrMnlyRfc.fillMnly_sound_gen r p n l hr hp hy h x hx,
               Echse.Lemmas.RrMnlyRfc.fillMnly_setpos_gen r p n l hr hp hy hf h x hx⟩

theorem minutely_none_missing (r : Rule) (p : Inst) (n cap : Nat) (l : List Inst) (hr : WfRule r) (hp : WfInst p)
    (hy : 1901 ≤ p.y) (hf : r.freq = 6) (hcap : capNti r n = some cap) (h : fillMnly r p n = some l)
    (x : Inst) (hx : MinutelyInst r (seedT p) x) (hsp : SetposOk r (seedT p) x) (hge : absOf (seedT p) ≤ absOf x)
    (hu : ltP r.untl x = false) (hxy : x.y ≤ 2099) :
    x ∈ l ∨ (l.length = cap ∧ ∀ z ∈ l, ltP z x = true) :=
  Echse.Lemmas.RrMnlyRfc.fillMnly_complete_pos_gen r p n cap l hr hp hy hf hcap h x hx hsp hge hu hxy

theorem secondly_none_extra (r : Rule) (p : Inst) (n : Nat) (l : List Inst) (hr : WfRule r) (hp : WfInst p) (hy : 1901 ≤ p.y)
    (hf : r.freq = 7) (h : fillSly r p n = some l) : ∀ x ∈ l, SecondlyInst r (seedT p) x ∧ SetposOk r (seedT p) x :=
  fun x hx => ⟨Echse.Lemmas.RrSlyRfc.fillSly_sound_gen r p n l hr hp hy h x hx,
               Echse.Lemmas.RrSlyRfc.fillSly_setpos_gen r p n l hr hp hf h x hx⟩

theorem secondly_none_missing (r : Rule) (p : Inst) (n cap : Nat) (l : List Inst) (hr : WfRule r) (hp : WfInst p)
    (hy : 1901 ≤ p.y) (hf : r.freq = 7) (hcap : capNti r n = some cap) (h : fillSly r p n = some l)
    (x : Inst) (hx : SecondlyInst r (seedT p) x) (hsp : SetposOk r (seedT p) x)
    (hu : ltP r.untl x = false) (hxy : x.y ≤ 2099) :
    x ∈ l ∨ (l.length = cap ∧ ∀ z ∈ l, ltP z x = true) :=
  Echse.Lemmas.RrSlyRfc.fillSly_complete_pos_gen r p n cap l hr hp hy hf hcap h x hx hsp hu hxy

/-- for a date-time seed the sub-daily statements are about the seed itself -/
theorem seedT_of_timed (p : Inst) (h : p.H ≠ allDay) : seedT p = p := by unfold seedT; rw [if_neg h]

/-! ### the daily filler's hand-over to the weekly one is sound -/
theorem weekly_of_daily {r : Rule} {p x : Inst} (h1 : plainDays r ≠ []) (h2 : r.inter = 1) (hx : DailyInst r p x) :
    WeeklyInst r p x := Echse.Lemmas.RrDlyRfc.weekly_of_daily h1 h2 hx

/-! ### FREQ=MONTHLY
  `MlySup r`: at most 62 BYMONTHDAY values (what the parser's set holds) and no numbered BYDAY entry (1MO, -1FR) next to
  BYMONTHDAY — there the code ignores the numbers (finding D125).  `MlyFirstPos r p` (completeness only): the rule has an
  occurrence within its first 336 periods from the seed; the code gives up after 337 fruitless months, exactly one more than
  the 336 months after which month lengths and weekdays repeat, so there is no slack to argue with — the hypothesis is
  discharged when the seed is itself an occurrence (`monthly_none_missing_sync_partial`), which is the case at every refill. -/

theorem monthly_none_extra_partial (r : Rule) (p : Inst) (n : Nat) (l : List Inst) (h0 : Pre r p) (hn : n ≤ 64)
    (hsup : MlySup r) (hsh : r.shift = 0) (hf : r.pos ≠ [] → r.freq = 2) (h : fillMly r p n = some l) :
    ∀ x ∈ l, MonthlyInst r p x ∧ SetposOk r p x :=
  fillMly_sound_all r p n l h0.rule h0.seed h0.kind hn h0.year hsup hsh hf h

theorem monthly_none_missing_partial (r : Rule) (p : Inst) (n : Nat) (l : List Inst) (h0 : Pre r p) (hn : n ≤ 64)
    (hsup : MlySup r) (hsh : r.shift = 0) (hf : r.pos ≠ [] → r.freq = 2) (hfp : MlyFirstPos r p)
    (h : fillMly r p n = some l)
    (x : Inst) (hx : MonthlyInst r p x) (hsp : SetposOk r p x) (hge : absOf p ≤ absOf x)
    (hle : ltP r.untl x = false) (hxy : x.y ≤ 2099) :
    x ∈ l ∨ (l.length = capOf r n ∧ ∀ z ∈ l, ltP z x = true) :=
  fillMly_complete_all r p n l h0.rule h0.seed h0.kind hn h0.year hsup hsh hf hfp h x hx hsp hge hle hxy

/-- without BYSETPOS a seed that is an occurrence needs no `MlyFirstPos` -/
theorem monthly_none_missing_sync_partial (r : Rule) (p : Inst) (n : Nat) (l : List Inst) (h0 : Pre r p) (hn : n ≤ 64)
    (hsup : MlySup r) (hsh : r.shift = 0) (hpos : r.pos = []) (hsync : MonthlyInst r p p) (h : fillMly r p n = some l)
    (x : Inst) (hx : MonthlyInst r p x) (hge : absOf p ≤ absOf x) (hle : ltP r.untl x = false) (hxy : x.y ≤ 2099) :
    x ∈ l ∨ (l.length = capOf r n ∧ ∀ z ∈ l, ltP z x = true) :=
  fillMly_complete_sync r p n l h0.rule h0.seed h0.kind hn h0.year hsup hsh hpos hsync h x hx hge hle hxy

/-- across a refill: the seed `p` is an occurrence of (`ds`, rule); what the call writes are occurrences of (`ds`, rule) … -/
theorem monthly_refill_none_extra_partial (r : Rule) (ds p : Inst) (n : Nat) (l : List Inst) (h0 : Pre r p) (hn : n ≤ 64)
    (hsup : MlySup r) (hsh : r.shift = 0) (hf : r.pos ≠ [] → r.freq = 2) (hseed : MonthlyInst r ds p)
    (h : fillMly r p n = some l) : ∀ x ∈ l, MonthlyInst r ds x ∧ SetposOk r ds x :=
  fillMly_sound_reseed r ds p n l h0.rule h0.seed h0.kind hn h0.year hsup hsh hf hseed h

/-- … and none from the seed on is left out -/
theorem monthly_refill_none_missing_partial (r : Rule) (ds p : Inst) (n : Nat) (l : List Inst) (h0 : Pre r p) (hn : n ≤ 64)
    (hsup : MlySup r) (hsh : r.shift = 0) (hf : r.pos ≠ [] → r.freq = 2) (hseed : MonthlyInst r ds p)
    (hfp : MlyFirstPos r p) (h : fillMly r p n = some l)
    (x : Inst) (hx : MonthlyInst r ds x) (hsp : SetposOk r ds x) (hge : absOf p ≤ absOf x)
    (hle : ltP r.untl x = false) (hxy : x.y ≤ 2099) :
    x ∈ l ∨ (l.length = capOf r n ∧ ∀ z ∈ l, ltP z x = true) :=
  fillMly_complete_reseed r ds p n l h0.rule h0.seed h0.kind hn h0.year hsup hsh hf hseed hfp h x hx hsp hge hle hxy

/-! ### FREQ=YEARLY
  `YlySup r`: no BYEASTER, at most 62 BYMONTHDAY and 12 BYMONTH values, BYDAY ordinals not below -53, and one of the
  combinations of parts the code expands the way RFC 5545 says (`YlyCombo`): none or BYMONTH alone; BYMONTHDAY (with or
  without BYMONTH, plain BYDAY as a limit); BYYEARDAY (plain BYDAY as a limit); BYDAY (with or without BYMONTH, numbered
  entries allowed); BYWEEKNO (with or without plain BYDAY).  Left out: BYWEEKNO or BYYEARDAY next to BYMONTH / BYMONTHDAY /
  each other, where the code yields a union (finding D129), and numbered BYDAY as a limit (D125).  No "first occurrence"
  hypothesis is needed: the calendar repeats after 28 years and the code tries 63 of them. -/

theorem yearly_none_extra_partial (r : Rule) (p : Inst) (n : Nat) (l : List Inst) (h0 : Pre r p) (hn : n ≤ 64)
    (hsup : YlySup r) (hsh : r.shift = 0) (hf : r.pos ≠ [] → r.freq = 1) (h : fillYly r p n = some l) :
    ∀ x ∈ l, YearlyInst r p x ∧ SetposOk r p x :=
  fillYly_sound_all r p n l h0.rule h0.seed h0.kind hn h0.year hsup hsh hf h

theorem yearly_none_missing_partial (r : Rule) (p : Inst) (n : Nat) (l : List Inst) (h0 : Pre r p) (hn : n ≤ 64)
    (hsup : YlySup r) (hsh : r.shift = 0) (hf : r.pos ≠ [] → r.freq = 1) (h : fillYly r p n = some l)
    (x : Inst) (hx : YearlyInst r p x) (hsp : SetposOk r p x) (hge : absOf p ≤ absOf x)
    (hle : ltP r.untl x = false) (hxy : x.y ≤ 2099) :
    x ∈ l ∨ (l.length = capOf r n ∧ ∀ z ∈ l, ltP z x = true) :=
  fillYly_complete_all r p n l h0.rule h0.seed h0.kind hn h0.year hsup hsh hf h x hx hsp hge hle hxy

theorem yearly_refill_none_extra_partial (r : Rule) (ds p : Inst) (n : Nat) (l : List Inst) (h0 : Pre r p) (hn : n ≤ 64)
    (hsup : YlySup r) (hsh : r.shift = 0) (hf : r.pos ≠ [] → r.freq = 1) (hseed : YearlyInst r ds p)
    (h : fillYly r p n = some l) : ∀ x ∈ l, YearlyInst r ds x ∧ SetposOk r ds x :=
  fillYly_sound_reseed r ds p n l h0.rule h0.seed h0.kind hn h0.year hsup hsh hf hseed h

theorem yearly_refill_none_missing_partial (r : Rule) (ds p : Inst) (n : Nat) (l : List Inst) (h0 : Pre r p) (hn : n ≤ 64)
    (hsup : YlySup r) (hsh : r.shift = 0) (hf : r.pos ≠ [] → r.freq = 1) (hseed : YearlyInst r ds p)
    (h : fillYly r p n = some l)
    (x : Inst) (hx : YearlyInst r ds x) (hsp : SetposOk r ds x) (hge : absOf p ≤ absOf x)
    (hle : ltP r.untl x = false) (hxy : x.y ≤ 2099) :
    x ∈ l ∨ (l.length = capOf r n ∧ ∀ z ∈ l, ltP z x = true) :=
  fillYly_complete_reseed r ds p n l h0.rule h0.seed h0.kind hn h0.year hsup hsh hf hseed h x hx hsp hge hle hxy

/-! the hypotheses are satisfiable: an ordinary rule of each kind -/
example : MlySup { freq := 2, dom := [15, -1], dow := [] } := ⟨by decide, by intro _ t ht; cases ht⟩
example : YlySup { freq := 1, mon := [3, 10], dow := [-1 * 8 + 7] } :=
  ⟨rfl, by decide, by decide, by decide, Or.inr (Or.inr (Or.inr (Or.inl ⟨rfl, rfl, rfl, by decide⟩)))⟩

end C01
