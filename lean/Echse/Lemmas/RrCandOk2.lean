/-
  Candidate builders of the YEARLY / MONTHLY filler models put only real dates of the period's year into the set:
  basics (`VC`, `assC`, `yd_to_md`, BYMONTHDAY selection) and the builders that rest on them.
-/
import Echse.Lemmas.RrCandOk
namespace Echse.Lemmas.RrCandOk
open Echse.Rrule Echse.Instant Echse.Spec.RrOk

/-- a packed candidate that is a real date of year `y` -/
def VC (y c : Nat) : Prop := c / 32 < 12 ∧ 1 ≤ c % 32 ∧ c % 32 ≤ getNdom y (c / 32 + 1)
/-- a candidate set as the builders keep it: real dates of year `y`, strictly ascending -/
def AllVC (y : Nat) (l : List Nat) : Prop := (∀ c ∈ l, VC y c) ∧ Asc l

theorem mdays_le (m : Nat) : mdays m ≤ 31 := by
  by_cases h : m < 13
  · revert m; decide
  · unfold mdays
    simp [List.getD_eq_getElem?_getD, List.getElem?_eq_none (show [0, 31, 28, 31, 30, 31, 30, 31, 31, 30, 31, 30, 31].length ≤ m by simp; omega)]

theorem getNdom_le (y m : Nat) : getNdom y m ≤ 31 := by
  have := mdays_le m
  unfold getNdom
  split
  · rename_i h; rw [h.2]; decide
  · omega

theorem VC_pack (y m d : Nat) (hm : 1 ≤ m ∧ m ≤ 12) (hd : 1 ≤ d ∧ d ≤ getNdom y m) : VC y (packCand m d) := by
  have hu : u32 = 4294967296 := rfl
  have hl := getNdom_le y m
  have h : packCand m d = (m - 1) * 32 + d := by unfold packCand; rw [hu]; omega
  have h1 : ((m - 1) * 32 + d) / 32 = m - 1 := by omega
  have h2 : ((m - 1) * 32 + d) % 32 = d := by omega
  have h3 : m - 1 + 1 = m := by omega
  unfold VC
  rw [h, h1, h2, h3]
  omega

theorem AllVC.nil (y : Nat) : AllVC y [] := ⟨fun _ h => (nomatch h), List.Pairwise.nil⟩

theorem mem_assC (l : List Nat) (v x : Nat) (h : x ∈ assC l v) : x ∈ l ∨ x = v := by
  induction l with
  | nil => simp [assC] at h; exact Or.inr h
  | cons a l ih =>
    unfold assC at h
    split at h
    · rcases List.mem_cons.mp h with h | h
      · exact Or.inr h
      · exact Or.inl h
    split at h
    · exact Or.inl h
    · rcases List.mem_cons.mp h with h | h
      · exact Or.inl (h ▸ List.mem_cons_self)
      · rcases ih h with h | h
        · exact Or.inl (List.mem_cons_of_mem _ h)
        · exact Or.inr h

/-- the ordered insert keeps a set strictly ascending -/
theorem assC_asc (l : List Nat) (v : Nat) (h : Asc l) : Asc (assC l v) := by
  unfold Asc at *
  induction l with
  | nil => simp [assC]
  | cons a l ih =>
    have ha := List.pairwise_cons.mp h
    unfold assC
    split
    · rename_i hva
      refine List.pairwise_cons.mpr ⟨?_, h⟩
      intro b hb
      rcases List.mem_cons.mp hb with rfl | hb
      · exact hva
      · exact Nat.lt_trans hva (ha.1 b hb)
    split
    · exact h
    · rename_i h1 h2
      refine List.pairwise_cons.mpr ⟨?_, ih ha.2⟩
      intro b hb
      rcases mem_assC l v b hb with hb | rfl
      · exact ha.1 b hb
      · omega

theorem AllVC.assC {y : Nat} {l : List Nat} {v : Nat} (hl : AllVC y l) (hv : VC y v) : AllVC y (assC l v) := by
  refine ⟨?_, assC_asc l v hl.2⟩
  intro c hc
  rcases mem_assC l v c hc with h | h
  · exact hl.1 c h
  · exact h ▸ hv

/-- an invariant kept by every step of a fold holds at its end -/
theorem foldl_inv {α β : Type} (P : β → Prop) (f : β → α → β) (l : List α) (b : β) (hb : P b)
    (hf : ∀ b a, a ∈ l → P b → P (f b a)) : P (l.foldl f b) := by
  induction l generalizing b with
  | nil => exact hb
  | cons a l ih =>
    exact ih (f b a) (hf b a List.mem_cons_self hb) (fun b a' ha' => hf b a' (List.mem_cons_of_mem _ ha'))
/-! ### `yd_to_md` -/

/-- month/day is no date at all (month 0: the callers drop it) or a real date of year `y` -/
def okMd (y : Nat) (md : Md) : Bool :=
  md.m == 0 || (decide (1 ≤ md.m) && decide (md.m ≤ 12) && decide (1 ≤ md.d) && decide (md.d ≤ getNdom y md.m))

theorem ydToMd_class (y : Nat) (doy : Int) : ydToMd y doy = ydToMd (if y % 4 = 0 then 0 else 1) doy := by
  unfold ydToMd
  by_cases h : y % 4 = 0 <;> simp [h]

theorem getNdom_class (y m : Nat) : getNdom y m = getNdom (if y % 4 = 0 then 0 else 1) m := by
  unfold getNdom
  by_cases h : y % 4 = 0 <;> simp [h]

theorem ydToMd_ok_leap : ∀ n : Nat, n < 733 → okMd 0 (ydToMd 0 ((n : Int) - 366)) = true := by decide +kernel
theorem ydToMd_ok_common : ∀ n : Nat, n < 732 → okMd 1 (ydToMd 1 ((n : Int) - 366)) = true := by decide +kernel

/-- `yd_to_md` yields a real date of the year (or month 0) for every day number -366 .. 365 (366 in a leap year) -/
theorem ydToMd_ok (y : Nat) (doy : Int) (h1 : -366 ≤ doy) (h2 : doy ≤ 365 + (leapN y : Int)) :
    okMd y (ydToMd y doy) = true := by
  have hk : ∀ md, okMd y md = okMd (if y % 4 = 0 then 0 else 1) md := by
    intro md; unfold okMd; rw [getNdom_class]
  rw [hk, ydToMd_class]
  unfold leapN at h2
  have hd : doy = (((doy + 366).toNat : Nat) : Int) - 366 := by omega
  by_cases h : y % 4 = 0
  · simp only [h, if_true] at h2 ⊢
    rw [hd]; exact ydToMd_ok_leap _ (by omega)
  · simp only [h, if_false] at h2 ⊢
    rw [hd]; exact ydToMd_ok_common _ (by omega)

theorem okMd_VC (y : Nat) (md : Md) (h : okMd y md = true) (hm : ¬ md.m = 0) : VC y (packCand md.m md.d) := by
  unfold okMd at h
  simp only [Bool.or_eq_true, beq_iff_eq, Bool.and_eq_true, decide_eq_true_eq] at h
  rcases h with h | h
  · exact absurd h hm
  · exact VC_pack y md.m md.d ⟨h.1.1.1, h.1.1.2⟩ ⟨h.1.2, h.2⟩

/-! ### BYMONTHDAY -/

theorem pickDom_ok (dd : Int) (ndim d : Nat) (hdd : -31 ≤ dd ∧ dd ≤ 31) (hn : ndim ≤ 31) (h : pickDom dd ndim = some d) :
    1 ≤ d ∧ d ≤ ndim := by
  unfold pickDom toU32 toS32 at h
  have hu : u32 = 4294967296 := rfl
  simp only [hu] at h
  split at h
  · injection h with h; omega
  split at h
  · injection h with h
    split at h <;> omega
  · cases h

/-! ### the builders resting on the above -/

theorem fillMlyYmd_ok (cand : List Nat) (y mo : Nat) (ds : List Int) (dow : List Int) (wdMask : Nat) (hc : AllVC y cand)
    (hm : 1 ≤ mo ∧ mo ≤ 12) (hds : ∀ d ∈ ds, -31 ≤ d ∧ d ≤ 31) : AllVC y (fillMlyYmd cand y mo ds dow wdMask) := by
  unfold fillMlyYmd
  refine foldl_inv (AllVC y) _ ds cand hc ?_
  intro b dd0 hdd hb
  try dsimp only
  split
  · exact hb
  · rename_i dd hp
    split
    · exact hb
    · exact hb.assC (VC_pack y mo dd hm (pickDom_ok dd0 _ dd (hds dd0 hdd) (getNdom_le y mo) hp))

theorem fillYlyYmd_ok (cand : List Nat) (y : Nat) (ms : List Nat) (ds : List Int) (dow : List Int) (wdMask : Nat)
    (hc : AllVC y cand) (hms : ∀ m ∈ ms, 1 ≤ m ∧ m ≤ 12) (hds : ∀ d ∈ ds, -31 ≤ d ∧ d ≤ 31) :
    AllVC y (fillYlyYmd cand y ms ds dow wdMask) := by
  unfold fillYlyYmd
  exact foldl_inv (AllVC y) _ ms cand hc (fun b m hm hb => fillMlyYmd_ok b y m ds dow wdMask hb (hms m hm) hds)

theorem fillYlyYmdAllM_ok (cand : List Nat) (y : Nat) (ds : List Int) (dow : List Int) (wdMask : Nat) (hc : AllVC y cand)
    (hds : ∀ d ∈ ds, -31 ≤ d ∧ d ≤ 31) : AllVC y (fillYlyYmdAllM cand y ds dow wdMask) := by
  unfold fillYlyYmdAllM
  refine foldl_inv (AllVC y) _ _ cand hc ?_
  intro b i hi hb
  have hi' : i < 12 := List.mem_range.mp hi
  try dsimp only
  refine foldl_inv (AllVC y) _ ds b hb ?_
  intro b dd0 hdd hb
  try dsimp only
  split
  · exact hb
  · rename_i dd hp
    split
    · exact hb
    · exact hb.assC (VC_pack y (i + 1) dd (by omega) (pickDom_ok dd0 _ dd (hds dd0 hdd) (getNdom_le y _) hp))

theorem fillMlyYmdAllD_ok (cand : List Nat) (y mo : Nat) (wdMask : Nat) (hc : AllVC y cand)
    (hm : 1 ≤ mo ∧ mo ≤ 12) : AllVC y (fillMlyYmdAllD cand y mo wdMask) := by
  unfold fillMlyYmdAllD
  try dsimp only
  refine foldl_inv (fun (st : List Nat × Nat) => AllVC y st.1) _ _ (cand, ymdGetWday y mo 1) hc ?_
  intro b i hi hb
  have hi' : i < getNdom y mo := List.mem_range.mp hi
  obtain ⟨c, w⟩ := b
  try dsimp only
  split
  · exact hb
  · exact AllVC.assC hb (VC_pack y mo (i + 1) hm (by omega))

theorem fillYlyYmdAllD_ok (cand : List Nat) (y : Nat) (ms : List Nat) (wdMask : Nat) (hc : AllVC y cand)
    (hms : ∀ m ∈ ms, 1 ≤ m ∧ m ≤ 12) : AllVC y (fillYlyYmdAllD cand y ms wdMask) := by
  unfold fillYlyYmdAllD
  exact foldl_inv (AllVC y) _ ms cand hc (fun b m hm hb => fillMlyYmdAllD_ok b y m wdMask hb (hms m hm))

theorem fillYlyMdAll_ok (cand : List Nat) (y : Nat) (ms : List Nat) (wdMask : Nat) (hc : AllVC y cand)
    (hms : ∀ m ∈ ms, 1 ≤ m ∧ m ≤ 12) : AllVC y (fillYlyMdAll cand y ms wdMask) := by
  unfold fillYlyMdAll
  split
  · exact hc
  refine foldl_inv (AllVC y) _ ms cand hc ?_
  intro b m hm hb
  try dsimp only
  refine foldl_inv (fun (st : List Nat × Nat) => AllVC y st.1) _ _ (b, ymdGetWday y m 1) hb ?_
  intro b i hi hb
  have hi' : i < getNdom y m := List.mem_range.mp hi
  obtain ⟨c, w⟩ := b
  try dsimp only
  split
  · exact AllVC.assC hb (VC_pack y m (i + 1) (hms m hm) (by omega))
  · exact hb
theorem fillYlyEastr_ok (cand : List Nat) (y : Nat) (offs : List Int) (mon : List Nat) (dom : List Int) (wdMask : Nat)
    (hc : AllVC y cand) : AllVC y (fillYlyEastr cand y offs mon dom wdMask) := by
  unfold fillYlyEastr
  refine foldl_inv (AllVC y) _ offs cand hc ?_
  intro b o _ hb
  dsimp only
  generalize (if ((easterGetYday y : Nat) : Int) + o < 0 then ((((easterGetYday y : Nat) : Int) + o) % (u32 : Int)).toNat
    else (((easterGetYday y : Nat) : Int) + o).toNat % u32) = yd
  generalize (if wdMask >>> 1 ≠ 0 then
      if o ≥ 0 then decide ((wdMask >>> (o.toNat % 7)) % 2 = 1) else decide ((wdMask >>> (7 - ((-o).toNat % 7))) % 2 = 1)
    else true) = wdOk
  have hl : (if y % 4 = 0 then 1 else 0) = leapN y := rfl
  rw [hl]
  split
  · exact hb
  split
  · exact hb
  split
  · exact hb
  rename_i hyd
  split
  · exact hb
  rename_i hm
  split
  · exact hb
  · exact hb.assC (okMd_VC y _ (ydToMd_ok y yd (by omega) (by omega)) hm)

theorem fillYlyYd_ok (cand : List Nat) (y : Nat) (doy : List Int) (dow : List Int) (wdMask : Nat) (mp : Bool)
    (hc : AllVC y cand) (hdoy : ∀ d ∈ doy, -366 ≤ d) : AllVC y (fillYlyYd cand y doy dow wdMask mp) := by
  unfold fillYlyYd
  refine foldl_inv (AllVC y) _ doy cand hc ?_
  intro b yd0 hyd0 hb
  have := hdoy yd0 hyd0
  dsimp only
  have hyd : -366 ≤ (if yd0 < 0 then yd0 + 366 + (leapN y : Int) else yd0) := by split <;> omega
  generalize (if yd0 < 0 then yd0 + 366 + (leapN y : Int) else yd0) = yd at hyd
  split
  · exact hb
  rename_i hle
  split
  · exact hb
  rename_i hm
  split
  · exact hb
  exact hb.assC (okMd_VC y _ (ydToMd_ok y _ hyd (by omega)) hm)

theorem ywdToMd_ok (y : Nat) (of : Int) (w : Int) (d : Nat) : okMd y (ywdToMd y of w d) = true := by
  unfold ywdToMd
  dsimp only
  split
  · rfl
  generalize (if of > 0 then toS32 (ywdGetYday ((y : Int) + of).toNat w d) + (365 + (leapN y : Int))
    else if of < 0 then toS32 (ywdGetYday ((y : Int) + of).toNat w d) - (365 + (leapN ((y : Int) + of).toNat : Int))
    else toS32 (ywdGetYday ((y : Int) + of).toNat w d)) = yd
  split
  · rfl
  · exact ydToMd_ok y _ (by omega) (by omega)

theorem fillYlyYwd_ok (cand : List Nat) (y : Nat) (woy dow : List Int) (hc : AllVC y cand) :
    AllVC y (fillYlyYwd cand y woy dow) := by
  unfold fillYlyYwd
  refine foldl_inv (AllVC y) _ woy cand hc ?_
  intro b wk _ hb
  refine foldl_inv (AllVC y) _ dow b hb ?_
  intro b dc _ hb
  dsimp only
  split
  · exact hb
  refine foldl_inv (AllVC y) _ _ b hb ?_
  intro b of _ hb
  split
  · exact hb
  · rename_i hm
    exact hb.assC (okMd_VC y _ (ywdToMd_ok y of wk dc.toNat) hm)

end Echse.Lemmas.RrCandOk
