/-
  C17 lemmas, part 9: month lengths (`__get_ndom`) and month steps, March 1900 .. February 2100.
-/
import Echse.Model.Rrule
import Echse.Lemmas.Instant1
namespace Echse.RuleExt
open Echse.Rrule Echse.Spec.Cal Echse.Instant

/-- months from March 1900 to February 2100 -/
def OkYM (y m : Nat) : Prop :=
  1 ≤ m ∧ m ≤ 12 ∧ (1900 < y ∨ (y = 1900 ∧ 3 ≤ m)) ∧ (y < 2100 ∨ (y = 2100 ∧ m ≤ 2))

theorem getNdom_eq (y m : Nat) (h : OkYM y m) (hn : ¬ (y = 2100 ∧ m = 2)) : getNdom y m = monthLen y m := by
  obtain ⟨h1, h2, h3, h4⟩ := h
  rcases month_cases m h1 h2 with e|e|e|e|e|e|e|e|e|e|e|e <;> subst e
  all_goals simp [getNdom, mdays, monthLen, isLeap]
  all_goals (try split) <;> (try split)
  all_goals omega

theorem getNdom_bounds (y m : Nat) (h1 : 1 ≤ m) (h2 : m ≤ 12) : 28 ≤ getNdom y m ∧ getNdom y m ≤ 31 := by
  rcases month_cases m h1 h2 with e|e|e|e|e|e|e|e|e|e|e|e <;> subst e
  all_goals simp [getNdom, mdays]
  all_goals (try split)
  all_goals omega

theorem getNdom_2100 : getNdom 2100 2 = 29 := by decide

def dLO : Int := days 1900 3 1
def dHI : Int := days 2100 2 28
theorem dLO_eq : dLO = 693960 := by decide
theorem dHI_eq : dHI = 767008 := by decide
theorem days_1900_3 : days 1900 3 1 = 693960 := by decide
theorem days_2100_2 : days 2100 2 1 = 766981 := by decide

/-- the month before (y, m) -/
def prevYM (y m : Nat) : Nat × Nat := if m = 1 then (y - 1, 12) else (y, m - 1)
def nextYM (y m : Nat) : Nat × Nat := if m = 12 then (y + 1, 1) else (y, m + 1)

theorem days_prevYM (y m : Nat) (h1 : 1 ≤ m) (h2 : m ≤ 12) (hy : 1 ≤ y) :
    days y m 1 = days (prevYM y m).1 (prevYM y m).2 1 + monthLen (prevYM y m).1 (prevYM y m).2 := by
  unfold prevYM
  split
  · next e =>
    subst e
    have := days_next_year (y - 1)
    have e : y - 1 + 1 = y := by omega
    rw [e] at this
    simp [monthLen]; omega
  · have := days_next_month y (m - 1) (by omega) (by omega)
    have e : m - 1 + 1 = m := by omega
    rw [e] at this
    simpa using this

theorem days_nextYM (y m : Nat) (h1 : 1 ≤ m) (h2 : m ≤ 12) :
    days (nextYM y m).1 (nextYM y m).2 1 = days y m 1 + monthLen y m := by
  unfold nextYM
  split
  · next e => subst e; have := days_next_year y; simp [monthLen]; omega
  · exact days_next_month y m h1 (by omega)
end Echse.RuleExt
