/-
  Property C10: parsing by the iCalendar push parser (src/evical.c, model `Echse.Model.Ical`) does not depend
  on how the bytes arrive.  Statements and short proofs; the work is in `Echse/Lemmas/Ical1 .. Ical20` and
  `IcalFlat`: `feed` over ANY chunking computes a byte-at-a-time automaton (`runA`, Ical8) over the
  concatenation, followed by `finish` (Ical17) for the last pull, or by `finishEof` (Ical20) for a trailing
  empty push and the last pull.

  Since the stash grows with the line under way (repair of D191: `stashcpy` makes room for `six + sz + 1` bytes
  before `esccpy` runs, which never appends more than it reads; `esccpy_fits`, Ical1) no line is passed over
  for its length: the equality holds for EVERY input without backslash (`Tidy'`), lines of any length
  included, and every non-empty logical line is handed to `_ical_proc` (`no_line_passed_over` below).  The
  reference automaton keeps the unfolded line in full and hands it to `procA` at its end whatever its length
  (`flushA`, Ical8; `reference_keeps_long_lines` below), and the parser has (stash, skip) = (the line, false)
  always, whatever the chunks were (`Rel`, Ical11).  The flag `skip` of the parser ("the line under way is
  passed over as a whole", cleared where the line ends) remains in code and model for allocation failure only,
  which the model does not have: it is never set.  The former condition `LinesShort` (every logical line below
  1000 RAW bytes) is gone; `Tidy` is kept as the former hypothesis set and implies `Tidy'`
  (`chunk_independent_tidy`).  The former witness `raw_matters` (a line of 1204 raw bytes unfolding to 2,
  dropped or not depending on the cut) has become `raw_independent`; a line of 1102 bytes, a SUMMARY line of
  1508 bytes inside an event and a folded line of 1052 raw / 957 unfolded bytes have positive witnesses as
  well: they are acted upon, however they are cut.

  Since the repair of the newline mark (a flag `eolp` of the parser instead of a `\001` byte behind a
  NON-EMPTY stash) an empty line whose newline ends a buffer can be continued by a fold in the next buffer
  just as within one buffer.  The former condition `NoFoldOnEmpty` (no fold right after an empty line) is
  gone, and its witness `empty_fold_matters` has become `empty_fold_independent`.

  Since the stash branch of `_ical_pull` sets `BI = p->bsz` (the buffer is used up) the pre-examination of a
  marked stash by the LAST pull no longer looks at a stale byte of the old buffer: it reads 0 behind the
  buffer, so a complete last line is always acted upon.  The former condition `LastLinePlain` is gone
  as well, and its witnesses `last_line_matters`, `leading_space_matters` have become
  `last_line_independent`, `leading_space_independent`.  What is left - no backslash - still has its witness
  below (`backslash_matters`).

  Since the last pull of the model hands back a cancel or reply as well (verbs `LU`, `LR` next to `L`, as
  `echs_evical_last_pull` does), a trailing empty push differs from the plain protocol in nothing but the mark
  `L` on the verb of the last instruction (`chunk_independent_eof_modL`).  The former witness
  `eof_cancel_matters` (a cancellation completed by the last line: an instruction after an empty push, none
  without) has become `eof_cancel_marked`.
-/
import Echse.Lemmas.Ical20
namespace C10
open Echse.Ical

/-! ### the inputs the equality is claimed for -/

/-- no backslash (finding D17: `esccpy` keeps the backslash and drops the byte behind it - if that byte is in
the same buffer).  Nothing else is asked of the input: any bytes, NUL included, lines of any length. -/
def Tidy' (bs : List Byte) : Prop := ∀ b ∈ bs, b ≠ 92

instance (bs : List Byte) : Decidable (Tidy' bs) := by
  unfold Tidy'; infer_instance

theorem tidy'_iff_all (bs : List Byte) : Tidy' bs ↔ bs.all (fun b => b != 92) = true := by
  unfold Tidy'; simp

theorem tidy'_append (x y : List Byte) (hx : Tidy' x) (hy : Tidy' y) : Tidy' (x ++ y) := by
  intro b hb
  rcases List.mem_append.1 hb with h | h
  · exact hx b h
  · exact hy b h

theorem tidy'_replicate (n : Nat) (c : Byte) (hc : c ≠ 92) : Tidy' (List.replicate n c) := by
  intro b hb
  rw [(List.mem_replicate.1 hb).2]; exact hc

/-! The FORMER conditions are phrased over the skeleton `Sc` of the reference automaton (Ical8), which reads the
input byte by byte and keeps, for the logical (unfolded) line being read: `raw` = number of raw bytes of it so
far (CRs, fold NL+whitespace and its final NL included), `empty` = no content byte yet (only CRs and folds),
`pend` = its NL has been read (the line is complete unless SP/TAB follows), `sp` = it contains SP or TAB as a
content byte (fold whitespace not counted).  `allSc φ {} bs` says `φ state rest` at every position. -/

/-- FORMER conjunct of `Tidy`, no longer needed: every logical line takes fewer than 1000 RAW bytes (folds, CRs
and NL counted).  The raw count was what mattered: a line only partly in the buffer was dropped when `bytes
left in the buffer ≥ 1024 - stash fill`, whatever it would unfold to (finding D18d).  Now the stash grows and no
line is dropped for its length, raw or unfolded (`raw_independent`, `over_long_independent`). -/
def LinesShort (bs : List Byte) : Prop := allSc (fun s _ => decide (s.raw < 1000)) {} bs = true

/-- FORMER conjunct of `Tidy`, no longer needed: if the input ends in a complete non-empty line, that last
logical line has no SP/TAB content byte.  The last pull used to decide whether the marked stash is a complete
line by looking at `*BP` of the OLD buffer (the first unconsumed byte of the last chunk); with `BI = p->bsz`
in the stash branch it looks behind the buffer.  Kept to state that the former witnesses violate it
(`last_line_independent`, `leading_space_independent`). -/
def LastLinePlain (bs : List Byte) : Prop :=
  ((runSc {} bs).pend && !(runSc {} bs).empty && (runSc {} bs).sp) = false

/-- the FORMER hypothesis set of the theorems below: no backslash, no NUL, short lines -/
def Tidy (bs : List Byte) : Prop :=
  (∀ b ∈ bs, b ≠ 92) ∧        -- no backslash (finding D17)
  (∀ b ∈ bs, b ≠ 0) ∧         -- no NUL (as asked for; the proof does not use it)
  LinesShort bs               -- no longer needed either

instance (bs : List Byte) : Decidable (LastLinePlain bs) := by
  unfold LastLinePlain; infer_instance

instance (bs : List Byte) : Decidable (LinesShort bs) := by
  unfold LinesShort; infer_instance

instance (bs : List Byte) : Decidable (Tidy bs) := by
  unfold Tidy LinesShort; infer_instance

theorem allSc_and (φ ψ : Sc → List Byte → Bool) : ∀ (l : List Byte) (s : Sc),
    allSc (fun s r => φ s r && ψ s r) s l = (allSc φ s l && allSc ψ s l)
  | [], s => by simp [allSc]
  | c :: r, s => by
    rw [allSc, allSc, allSc, allSc_and φ ψ r]
    cases φ s (c :: r) <;> cases ψ s (c :: r) <;> simp

theorem tidy_good (bs : List Byte) (h : Tidy bs) : Good {} bs := h.2.2

/-- the former hypotheses imply the present one -/
theorem tidy_tidy' (bs : List Byte) (h : Tidy bs) : Tidy' bs := h.1

/-- the reference semantics knows no over-long line: a non-empty line of ANY length, when it turns out complete,
is handed to `procA` (`_ical_proc` and the bookkeeping around it: it is logged, it moves the component state, it
may complete an instruction); only the empty line is passed over -/
theorem reference_keeps_long_lines (A : Abs) :
    (A.cur ≠ [] → flushA A = { (procA A) with sc := {} }) ∧
    (A.cur ≠ [] → (flushA A).log = A.log ++ [A.cur.takeWhile (· ≠ 0)]) ∧
    (A.cur = [] → flushA A = { A with sc := {} }) :=
  ⟨flushA_of_ne A, fun h => by rw [flushA_of_ne A h]; exact procA_log A, flushA_of_nil A⟩

/-- what `feed` computes on an input without backslash, however it is cut -/
theorem feed_tidy (chunks : List (List Byte)) (hne : ∀ c ∈ chunks, c ≠ []) (hbs : chunks.flatten ≠ [])
    (ht : Tidy' chunks.flatten) :
    feed chunks = finish (runA {} chunks.flatten) (runA {} chunks.flatten).ins :=
  feed_spec chunks hne hbs ht

/-- C10: the instructions produced and the lines acted upon do not depend on the chunking, for every input
without backslash - over-long lines included -/
theorem chunk_independent (bs : List Byte) (chunks : List (List Byte)) (hc : chunks.flatten = bs)
    (hne : ∀ c ∈ chunks, c ≠ []) (ht : Tidy' bs) : feed chunks = feed [bs] := by
  cases hb : bs with
  | nil =>
    cases chunks with
    | nil => rfl
    | cons c r =>
      have : c = [] := by
        rw [hb] at hc; simp at hc; exact hc.1
      exact absurd this (hne c (by simp))
  | cons b0 r0 =>
    rw [← hb]
    have h1 : [bs].flatten = bs := by simp
    have hbs : bs ≠ [] := by rw [hb]; simp
    rw [feed_tidy chunks hne (by rw [hc]; exact hbs) (by rw [hc]; exact ht)]
    rw [feed_tidy [bs] (by intro c hc'; simp at hc'; rw [hc']; exact hbs) (by rw [h1]; exact hbs)
      (by rw [h1]; exact ht)]
    rw [hc, h1]

/-- the invariant behind it: the parser state between two pushes depends on the bytes pushed so far, not on how
they were cut.  With `A` the reference automaton after those bytes: the mark `eolp` says that the line's NL has
been read, (`stash`, `skip`) is (the unfolded line so far, false) whatever its length; component state, lines
acted upon and instructions are those of `A`; the buffer is used up. -/
theorem state_independent (chunks : List (List Byte)) (hne : ∀ c ∈ chunks, c ≠ []) (hbs : chunks.flatten ≠ [])
    (ht : Tidy' chunks.flatten) :
    ∃ q, chunks.foldl feedStep (none, []) = (some q, (runA {} chunks.flatten).ins) ∧
      (q.eolp = true ↔ (runA {} chunks.flatten).sc.pend = true) ∧
      q.skip = false ∧ q.stash = (runA {} chunks.flatten).cur ∧
      q.comp = (runA {} chunks.flatten).comp ∧ q.log = (runA {} chunks.flatten).log ∧
      q.buf.drop q.bix = [] := by
  have hinv := feedFold_inv chunks (none, []) [] (Or.inl ⟨rfl, rfl⟩) hne ht
  rw [List.nil_append] at hinv
  cases hinv with
  | inl h => exact absurd h.1 hbs
  | inr h =>
    obtain ⟨q, hq, hpost, hins, _⟩ := h
    exact ⟨q, Prod.ext hq hins, hpost.rel.mark, hpost.rel.skip, hpost.rel.stash, hpost.rel.comp, hpost.rel.log,
      hpost.done⟩

/-- the former statement (hypotheses `Tidy`: also no NUL, every logical line below 1000 raw bytes) -/
theorem chunk_independent_tidy (bs : List Byte) (chunks : List (List Byte)) (hc : chunks.flatten = bs)
    (hne : ∀ c ∈ chunks, c ≠ []) (ht : Tidy bs) : feed chunks = feed [bs] :=
  chunk_independent bs chunks hc hne (tidy_tidy' bs ht)

/-! ### a trailing empty push (end of the connection)

The daemon pushes an EMPTY buffer when recv() returns 0, drains, and then does the last pull.  An empty push
that is not the first one is acted upon (`feed` skips empty chunks only as long as no parser exists): the
pre-examination of a marked stash reads 0 in the empty buffer, so a pending last line is processed by the
ORDINARY drain loop and the last pull finds nothing to do.  The lines acted upon are the same as without the
empty push, and so are the instructions - unless that last line completes an event (`EndsInEvent`): the
drain loop hands it out with the verb of its METHOD (`S`, `U`, `R`), the last pull with that verb marked (`L`,
`LU`, `LR`; witnesses below: `eof_verb_matters`, `eof_cancel_marked`).  That mark is the only difference
(`chunk_independent_eof_modL`).  An empty push in the MIDDLE, between a line end and a fold blank, ends the
line early (`empty_push_in_the_middle_matters`). -/

/-- leading empty pushes are refused by `_ical_init_push` -/
theorem feed_leading_empty (chunks : List (List Byte)) : feed ([] :: chunks) = feed chunks := rfl

/-- the input ends in a complete line that completes an event: `END:VEVENT` / `END:VTODO` with its newline,
in a calendar whose `END:VCALENDAR` has not come -/
def EndsInEvent (bs : List Byte) : Prop :=
  (runA {} bs).sc.pend = true ∧ (runA {} bs).cur ≠ [] ∧
    (procLine (runA {} bs).comp (runA {} bs).cur).2 = .ve

instance (bs : List Byte) : Decidable (EndsInEvent bs) := by
  unfold EndsInEvent; infer_instance

/-- what `feed` computes on an input without backslash followed by an empty push, however the input is cut -/
theorem feed_tidy_eof (chunks : List (List Byte)) (hne : ∀ c ∈ chunks, c ≠ []) (hbs : chunks.flatten ≠ [])
    (ht : Tidy' chunks.flatten) :
    feed (chunks ++ [[]]) = finishEof (runA {} chunks.flatten) (runA {} chunks.flatten).ins :=
  feed_spec_eof chunks hne hbs ht

theorem feed_one (bs : List Byte) (hbs : bs ≠ []) (ht : Tidy' bs) :
    feed [bs] = finish (runA {} bs) (runA {} bs).ins ∧
    feed [bs, []] = finishEof (runA {} bs) (runA {} bs).ins := by
  have h1 : [bs].flatten = bs := by simp
  have hne : ∀ c ∈ [bs], c ≠ [] := by intro c hc'; simp at hc'; rw [hc']; exact hbs
  have a := feed_tidy [bs] hne (by rw [h1]; exact hbs) (by rw [h1]; exact ht)
  have b := feed_tidy_eof [bs] hne (by rw [h1]; exact hbs) (by rw [h1]; exact ht)
  rw [h1] at a b
  exact ⟨a, b⟩

theorem chunks_nil_of_flatten (chunks : List (List Byte)) (hc : chunks.flatten = [])
    (hne : ∀ c ∈ chunks, c ≠ []) : chunks = [] := by
  cases chunks with
  | nil => rfl
  | cons c r =>
    have : c = [] := by simp at hc; exact hc.1
    exact absurd this (hne c (by simp))

/-- C10 for the daemon's protocol (a final empty push, then the last pull): the instructions produced and the
lines acted upon do not depend on the chunking -/
theorem chunk_independent_eof (bs : List Byte) (chunks : List (List Byte)) (hc : chunks.flatten = bs)
    (hne : ∀ c ∈ chunks, c ≠ []) (ht : Tidy' bs) : feed (chunks ++ [[]]) = feed [bs, []] := by
  by_cases hbs : bs = []
  · rw [hbs] at hc
    rw [chunks_nil_of_flatten chunks hc hne, hbs]; rfl
  · rw [feed_tidy_eof chunks hne (by rw [hc]; exact hbs) (by rw [hc]; exact ht), (feed_one bs hbs ht).2, hc]

/-- the former statement (hypotheses `Tidy`) -/
theorem chunk_independent_eof_tidy (bs : List Byte) (chunks : List (List Byte)) (hc : chunks.flatten = bs)
    (hne : ∀ c ∈ chunks, c ≠ []) (ht : Tidy bs) : feed (chunks ++ [[]]) = feed [bs, []] :=
  chunk_independent_eof bs chunks hc hne (tidy_tidy' bs ht)

/-- the trailing empty push changes nothing in the lines acted upon -/
theorem eof_lines (bs : List Byte) (chunks : List (List Byte)) (hc : chunks.flatten = bs)
    (hne : ∀ c ∈ chunks, c ≠ []) (ht : Tidy' bs) : (feed (chunks ++ [[]])).2 = (feed [bs]).2 := by
  by_cases hbs : bs = []
  · rw [hbs] at hc
    rw [chunks_nil_of_flatten chunks hc hne, hbs]; rfl
  · rw [feed_tidy_eof chunks hne (by rw [hc]; exact hbs) (by rw [hc]; exact ht), (feed_one bs hbs ht).1, hc,
      finishEof_log]

/-- and nothing at all unless the input ends in a line that completes an event -/
theorem chunk_independent_eof_plain (bs : List Byte) (chunks : List (List Byte)) (hc : chunks.flatten = bs)
    (hne : ∀ c ∈ chunks, c ≠ []) (ht : Tidy' bs) (hev : ¬ EndsInEvent bs) :
    feed (chunks ++ [[]]) = feed [bs] := by
  by_cases hbs : bs = []
  · rw [hbs] at hc
    rw [chunks_nil_of_flatten chunks hc hne, hbs]; rfl
  · rw [feed_tidy_eof chunks hne (by rw [hc]; exact hbs) (by rw [hc]; exact ht), (feed_one bs hbs ht).1, hc]
    exact finishEof_eq _ _ hev

/-- with or without the trailing empty push, however the input is cut: the same lines acted upon and the same
instructions up to the mark of the last pull on the verb (`stripL`, Ical20: `L`, `LU`, `LR` read as `S`, `U`,
`R`); no hypothesis on how the input ends -/
theorem chunk_independent_eof_modL (bs : List Byte) (chunks : List (List Byte)) (hc : chunks.flatten = bs)
    (hne : ∀ c ∈ chunks, c ≠ []) (ht : Tidy' bs) :
    ((feed (chunks ++ [[]])).1.map stripL, (feed (chunks ++ [[]])).2) =
      ((feed [bs]).1.map stripL, (feed [bs]).2) := by
  by_cases hbs : bs = []
  · rw [hbs] at hc
    rw [chunks_nil_of_flatten chunks hc hne, hbs]; rfl
  · rw [feed_tidy_eof chunks hne (by rw [hc]; exact hbs) (by rw [hc]; exact ht), (feed_one bs hbs ht).1, hc]
    exact finishEof_modL _ _

/-- the marks that `stripL` takes off are those of the last pull: a plain verb stays -/
theorem stripL_plain : (stripL { verb := "S", lines := [] }).verb = "S" ∧
    (stripL { verb := "U", lines := [] }).verb = "U" ∧ (stripL { verb := "R", lines := [] }).verb = "R" ∧
    (stripL { verb := "L", lines := [] }).verb = "S" ∧ (stripL { verb := "LU", lines := [] }).verb = "U" ∧
    (stripL { verb := "LR", lines := [] }).verb = "R" := by
  decide

/-- leading empty pushes and one trailing empty push around a chunking without empty chunks -/
theorem chunk_independent_eof_lead (bs : List Byte) (chunks : List (List Byte)) (n : Nat)
    (hc : chunks.flatten = bs) (hne : ∀ c ∈ chunks, c ≠ []) (ht : Tidy' bs) :
    feed (List.replicate n [] ++ chunks) = feed [bs] ∧
    feed (List.replicate n [] ++ (chunks ++ [[]])) = feed [bs, []] := by
  induction n with
  | zero => exact ⟨chunk_independent bs chunks hc hne ht, chunk_independent_eof bs chunks hc hne ht⟩
  | succ n ih =>
    rw [List.replicate_succ, List.cons_append, List.cons_append, feed_leading_empty, feed_leading_empty]
    exact ih

/-! ### the loops of the model end by their own exit conditions -/

/-- more fuel than `feed` hands to the loops changes nothing (every round of `_ical_pull` that does not
return consumes a byte of the buffer or the mark on the stash: measure `mu`, Ical4) -/
theorem fuel_suffices (k : Nat) (p : Parser) (acc : List Instr) :
    pull (p.buf.length - p.bix + 2 + k) p = pull (p.buf.length - p.bix + 2) p ∧
    pull (p.buf.length + 2 + k) p = pull (p.buf.length + 2) p ∧
    pullIns (p.buf.length + 2 + k) p = pullIns (p.buf.length + 2) p ∧
    pullEv (p.buf.length + 2 + k) p = pullEv (p.buf.length + 2) p ∧
    drain (p.buf.length + 2 + k) p acc = drain (p.buf.length + 2) p acc := by
  have h1 : mu p < p.buf.length - p.bix + 2 := by have := mu_le p; omega
  have h2 := mu_lt_fuel p
  exact ⟨loop_fuel pull_isLoop round_good _ k p h1, loop_fuel pull_isLoop round_good _ k p h2,
    loop_fuel pullIns_isLoop insStep_good _ k p h2, loop_fuel pullEv_isLoop evStep_good _ k p h2,
    drain_fuel _ k p acc h2⟩

/-! ### non-vacuity -/

/-- a calendar with CRLF line ends, a METHOD, a VEVENT, and two folded lines (SP and TAB folds) -/
def cal : List Byte :=
  [66, 69, 71, 73, 78, 58, 86, 67, 65, 76, 69, 78, 68, 65, 82, 13, 10,                       -- BEGIN:VCALENDAR
   77, 69, 84, 72, 79, 68, 58, 80, 85, 66, 76, 73, 83, 72, 13, 10,                           -- METHOD:PUBLISH
   66, 69, 71, 73, 78, 58, 86, 69, 86, 69, 78, 84, 13, 10,                                   -- BEGIN:VEVENT
   85, 73, 68, 58, 97, 49, 13, 10,                                                           -- UID:a1
   83, 85, 77, 77, 65, 82, 89, 58, 101, 99, 104, 111, 32, 104, 101, 108, 108, 111, 13, 10,   -- SUMMARY:echo hello
   32, 32, 119, 111, 114, 108, 100, 13, 10,                                                  --  ( world)
   68, 84, 83, 84, 65, 82, 84, 58, 50, 48, 51, 48, 48, 49, 48, 49, 84, 48, 48, 48, 48, 49, 48, 90, 13, 10,
   82, 82, 85, 76, 69, 58, 70, 82, 69, 81, 61, 68, 65, 73, 76, 89, 59, 13, 10,               -- RRULE:FREQ=DAILY;
   9, 67, 79, 85, 78, 84, 61, 51, 13, 10,                                                    -- \tCOUNT=3
   69, 78, 68, 58, 86, 69, 86, 69, 78, 84, 13, 10,                                           -- END:VEVENT
   69, 78, 68, 58, 86, 67, 65, 76, 69, 78, 68, 65, 82, 13, 10]                               -- END:VCALENDAR

set_option maxRecDepth 20000 in
example : Tidy cal := by decide

/-- instructions (verb, lines) and log, comparable by `decide` -/
def view (x : List Instr × List (List Byte)) : List (String × List (List Byte)) × List (List Byte) :=
  (x.1.map fun i => (i.verb, i.lines), x.2)

/-- an instance of `chunk_independent` computed directly: the cut falls between the LF and the TAB of the
folded RRULE line (finding D18a, repaired); one instruction comes out -/
example : (cal.take 129).getLast? = some 10 ∧ (cal.drop 129).head? = some 9 := by decide

set_option maxRecDepth 100000 in
example : view (feed [cal.take 129, cal.drop 129]) = view (feed [cal]) ∧ (feed [cal]).1.length = 1 := by
  decide

/-- the earlier smoke check: a fold split between the newline and the space -/
theorem fold_split_between_lf_and_sp :
    (feed [[65, 58, 49, 10], [32, 50, 10, 66, 58, 10]]).2 = (feed [[65, 58, 49, 10, 32, 50, 10, 66, 58, 10]]).2 := by
  decide

/-! ### a fold behind an EMPTY line: no longer a condition

`LF | SP B LF C LF` was the witness `empty_fold_matters` for the former conjunct `NoFoldOnEmpty` of `Tidy`: cut
behind the LF the parser acted upon ` B` and `C`, in one buffer upon `B` and `C`. -/

/-- the two chunkings of the old witness now give the same lines -/
theorem empty_fold_independent :
    (feed [[10], [32, 66, 10, 67, 10]]).2 = [[66], [67]] ∧ (feed [[10, 32, 66, 10, 67, 10]]).2 = [[66], [67]] := by
  decide

/-- and so does every other chunking of it: the input is `Tidy` now -/
theorem empty_fold_any_chunking (chunks : List (List Byte)) (hc : chunks.flatten = [10, 32, 66, 10, 67, 10])
    (hne : ∀ c ∈ chunks, c ≠ []) : feed chunks = feed [[10, 32, 66, 10, 67, 10]] :=
  chunk_independent _ chunks hc hne (by decide)

/-- `BEGIN:VCALENDAR`, `BEGIN:VEVENT`, an empty line (CR LF), ` SUMMARY:x`, `END:VEVENT`: the cut behind the
LF of the empty line, directly computed; the folded `SUMMARY:x` is a property line of the one instruction -/
def calEmptyFold : List Byte :=
  [66, 69, 71, 73, 78, 58, 86, 67, 65, 76, 69, 78, 68, 65, 82, 10,
   66, 69, 71, 73, 78, 58, 86, 69, 86, 69, 78, 84, 10,
   13, 10,
   32, 83, 85, 77, 77, 65, 82, 89, 58, 120, 10,
   69, 78, 68, 58, 86, 69, 86, 69, 78, 84, 10]

set_option maxRecDepth 100000 in
example : Tidy calEmptyFold ∧ (calEmptyFold.take 31).getLast? = some 10 ∧ (calEmptyFold.drop 31).head? = some 32 ∧
    view (feed [calEmptyFold.take 31, calEmptyFold.drop 31]) = view (feed [calEmptyFold]) ∧
    (feed [calEmptyFold]).1.map (·.lines) = [[[83, 85, 77, 77, 65, 82, 89, 58, 120]]] := by
  decide

/-! ### a last line with a blank, or cut in front of a blank: no longer a condition

`A:1 | SP 2 LF` and `SP | B LF` were the witnesses `last_line_matters`, `leading_space_matters` for the former
conjunct `LastLinePlain` of `Tidy`: the last pull looked at the first byte of the last chunk (a blank) and took
the complete last line for one that goes on. -/

/-- `A:1 | SP 2 LF`: the last line is acted upon however it is cut; the input is `Tidy`, not `LastLinePlain` -/
theorem last_line_independent :
    (feed [[65, 58, 49], [32, 50, 10]]).2 = [[65, 58, 49, 32, 50]] ∧
    (feed [[65, 58, 49, 32, 50, 10]]).2 = [[65, 58, 49, 32, 50]] ∧
    Tidy [65, 58, 49, 32, 50, 10] ∧ ¬ LastLinePlain [65, 58, 49, 32, 50, 10] := by
  decide

/-- at the very start: `SP | B LF` and `SP B LF` -/
theorem leading_space_independent :
    (feed [[32], [66, 10]]).2 = [[32, 66]] ∧ (feed [[32, 66, 10]]).2 = [[32, 66]] ∧
    Tidy [32, 66, 10] ∧ ¬ LastLinePlain [32, 66, 10] := by
  decide

/-! ### the trailing empty push: where it does matter -/

/-- `BEGIN:VCALENDAR`, `BEGIN:VEVENT`, `UID:a`, `END:VEVENT` (each with LF), no `END:VCALENDAR` -/
def calOpen : List Byte :=
  [66, 69, 71, 73, 78, 58, 86, 67, 65, 76, 69, 78, 68, 65, 82, 10,
   66, 69, 71, 73, 78, 58, 86, 69, 86, 69, 78, 84, 10,
   85, 73, 68, 58, 97, 10,
   69, 78, 68, 58, 86, 69, 86, 69, 78, 84, 10]

set_option maxRecDepth 100000 in
/-- why `chunk_independent_eof` has `feed [bs, []]` on the right and `chunk_independent_eof_plain` its last
hypothesis: the event completed by the last line comes out as `S` after an empty push, as `L` without -/
theorem eof_verb_matters :
    Tidy calOpen ∧ EndsInEvent calOpen ∧
    view (feed [calOpen, []]) = ([("S", [[85, 73, 68, 58, 97]])], (feed [calOpen]).2) ∧
    view (feed [calOpen]) = ([("L", [[85, 73, 68, 58, 97]])], (feed [calOpen]).2) := by
  decide

/-- the same with `METHOD:CANCEL` behind the first line -/
def calOpenCancel : List Byte :=
  calOpen.take 16 ++ [77, 69, 84, 72, 79, 68, 58, 67, 65, 78, 67, 69, 76, 10] ++ calOpen.drop 16

set_option maxRecDepth 100000 in
/-- a cancellation completed by the last line is an instruction either way (formerly `eof_cancel_matters`:
none without the empty push): `U` after an empty push, `LU` from the last pull -/
theorem eof_cancel_marked :
    Tidy calOpenCancel ∧ EndsInEvent calOpenCancel ∧
    view (feed [calOpenCancel, []]) = ([("U", [[85, 73, 68, 58, 97]])], (feed [calOpenCancel]).2) ∧
    view (feed [calOpenCancel]) = ([("LU", [[85, 73, 68, 58, 97]])], (feed [calOpenCancel]).2) := by
  decide

/-- an empty push in the middle, between a line end and the fold blank, ends the line early: the hypothesis
`∀ c ∈ chunks, c ≠ []` cannot be dropped for inner chunks -/
theorem empty_push_in_the_middle_matters :
    (feed [[65, 58, 49, 10], [], [32, 50, 10]]).2 = [[65, 58, 49], [32, 50]] ∧
    (feed [[65, 58, 49, 10], [32, 50, 10]]).2 = [[65, 58, 49, 50]] := by
  decide

/-! ### why `Tidy'` asks for what it asks: an input on which the parse DOES depend on the chunking -/

/-- without `no backslash` (finding D17): `A:\ | n LF` - the byte behind a backslash is skipped only when it is
in the same buffer -/
theorem backslash_matters :
    (feed [[65, 58, 92], [110, 10]]).2 = [[65, 58, 92, 110]] ∧ (feed [[65, 58, 92, 110, 10]]).2 = [[65, 58, 92]] := by
  decide

/-! ### long lines: no longer a condition

Three inputs that violate the former conjunct `LinesShort` (1000 raw bytes), each followed by the line `B:1`:
a line of many raw bytes that unfolds to 2 (the former witness `raw_matters`), a folded line of 1052 raw bytes
that unfolds to 957, and a line of 1102 bytes (more than the former stash of 1 KiB held); all are acted upon.
Every chunking gives what the single buffer gives (by `chunk_independent`), and for some chunkings - among
them the cuts in front of the LF and between LF and fold blank, where the former code decided differently -
the lines acted upon are computed directly. -/

/-- a logical line of 1204 raw bytes that unfolds to 2 (`A:`, 600 CRs, a fold, 600 CRs) -/
def longLine : List Byte := [65, 58] ++ List.replicate 600 13 ++ [10, 32] ++ List.replicate 600 13

/-- `B:1` with its LF -/
def lineB : List Byte := [66, 58, 49, 10]

theorem tidy'_lineB : Tidy' ([10] ++ lineB) := by decide

theorem tidy'_longLine : Tidy' (longLine ++ ([10] ++ lineB)) :=
  tidy'_append _ _ (tidy'_append _ _ (tidy'_append _ _ (tidy'_append _ _ (by decide)
    (tidy'_replicate _ _ (by decide))) (by decide)) (tidy'_replicate _ _ (by decide))) tidy'_lineB

set_option maxRecDepth 1000000 in
/-- formerly `raw_matters`: the line was dropped when the cut fell in front of its LF (1204 raw bytes left in the
buffer ≥ 1024 - stash fill); now both chunkings act upon `A:` and `B:1` -/
theorem raw_independent :
    (feed [longLine ++ ([10] ++ lineB)]).2 = [[65, 58], [66, 58, 49]] ∧
    (feed [longLine, [10] ++ lineB]).2 = [[65, 58], [66, 58, 49]] ∧
    ¬ LinesShort (longLine ++ ([10] ++ lineB)) := by
  decide

/-- and so does every other chunking -/
theorem raw_any_chunking (chunks : List (List Byte)) (hc : chunks.flatten = longLine ++ ([10] ++ lineB))
    (hne : ∀ c ∈ chunks, c ≠ []) : feed chunks = feed [longLine ++ ([10] ++ lineB)] :=
  chunk_independent _ chunks hc hne tidy'_longLine

/-- a folded line of 1052 raw bytes (its LF counted) that unfolds to 957: 47 pieces of 20 bytes, each followed
by LF SP, and a piece of 17 bytes; without its LF -/
def foldLine : List Byte :=
  (List.replicate 47 (List.replicate 20 120 ++ [10, 32])).flatten ++ List.replicate 17 120

theorem tidy'_foldLine : Tidy' (foldLine ++ ([10] ++ lineB)) := by
  refine tidy'_append _ _ (tidy'_append _ _ ?_ (tidy'_replicate _ _ (by decide))) tidy'_lineB
  intro b hb
  obtain ⟨l, hl, hbl⟩ := List.mem_flatten.1 hb
  rw [(List.mem_replicate.1 hl).2] at hbl
  exact tidy'_append _ _ (tidy'_replicate _ _ (by decide)) (by decide) b hbl

set_option maxRecDepth 1000000 in
/-- the line is acted upon, in one buffer, cut in the middle of a piece (at 600), cut between
an LF and its fold blank (at 1033: the stash holds 940 bytes, 18 raw bytes follow), cut in front of the final LF -/
theorem fold_long_independent :
    (foldLine ++ [10]).length = 1052 ∧
    (feed [foldLine ++ ([10] ++ lineB)]).2 = [List.replicate 957 120, [66, 58, 49]] ∧
    (feed [(foldLine ++ ([10] ++ lineB)).take 600, (foldLine ++ ([10] ++ lineB)).drop 600]).2 =
      [List.replicate 957 120, [66, 58, 49]] ∧
    ((foldLine.take 1033).getLast? = some 10 ∧ (foldLine.drop 1033).head? = some 32) ∧
    (feed [(foldLine ++ ([10] ++ lineB)).take 1033, (foldLine ++ ([10] ++ lineB)).drop 1033]).2 =
      [List.replicate 957 120, [66, 58, 49]] ∧
    (feed [foldLine, [10] ++ lineB]).2 = [List.replicate 957 120, [66, 58, 49]] := by
  decide

theorem fold_long_any_chunking (chunks : List (List Byte)) (hc : chunks.flatten = foldLine ++ ([10] ++ lineB))
    (hne : ∀ c ∈ chunks, c ≠ []) : feed chunks = feed [foldLine ++ ([10] ++ lineB)] :=
  chunk_independent _ chunks hc hne tidy'_foldLine

/-- a line of 1102 bytes (`A:` and 1100 times `x`), without its LF -/
def overLine : List Byte := [65, 58] ++ List.replicate 1100 120

theorem tidy'_overLine : Tidy' (lineB ++ (overLine ++ ([10] ++ lineB))) :=
  tidy'_append _ _ (by decide) (tidy'_append _ _ (tidy'_append _ _ (by decide) (tidy'_replicate _ _ (by decide)))
    tidy'_lineB)

set_option maxRecDepth 1000000 in
/-- the line would not have fitted the former stash of 1 KiB (it was passed over as a whole): now it is acted upon
like the lines around it - in one buffer, cut at 500, cut at 1027 (the first piece alone exceeds 1 KiB), byte for
byte up to 3 and then cut in front of the LF -/
theorem over_long_independent :
    (feed [lineB ++ (overLine ++ ([10] ++ lineB))]).2 = [[66, 58, 49], overLine, [66, 58, 49]] ∧
    (feed [(lineB ++ (overLine ++ ([10] ++ lineB))).take 500, (lineB ++ (overLine ++ ([10] ++ lineB))).drop 500]).2 =
      [[66, 58, 49], overLine, [66, 58, 49]] ∧
    (feed [(lineB ++ (overLine ++ ([10] ++ lineB))).take 1027, (lineB ++ (overLine ++ ([10] ++ lineB))).drop 1027]).2 =
      [[66, 58, 49], overLine, [66, 58, 49]] ∧
    (feed [lineB, [65], [58], [120], overLine.drop 3, [10] ++ lineB]).2 = [[66, 58, 49], overLine, [66, 58, 49]] := by
  decide

theorem over_long_any_chunking (chunks : List (List Byte))
    (hc : chunks.flatten = lineB ++ (overLine ++ ([10] ++ lineB))) (hne : ∀ c ∈ chunks, c ≠ []) :
    feed chunks = feed [lineB ++ (overLine ++ ([10] ++ lineB))] :=
  chunk_independent _ chunks hc hne tidy'_overLine

/-- whatever the chunks: the line of 1102 bytes is among the lines acted upon -/
theorem over_long_acted_upon (chunks : List (List Byte))
    (hc : chunks.flatten = lineB ++ (overLine ++ ([10] ++ lineB))) (hne : ∀ c ∈ chunks, c ≠ []) :
    (feed chunks).2 = [[66, 58, 49], overLine, [66, 58, 49]] := by
  rw [over_long_any_chunking chunks hc hne]; exact over_long_independent.1

/-- `SUMMARY:` and 1500 times `x`, a property line of 1508 bytes, without its LF -/
def longSummary : List Byte := [83, 85, 77, 77, 65, 82, 89, 58] ++ List.replicate 1500 120

/-- `BEGIN:VCALENDAR`, `BEGIN:VEVENT`, `UID:a`, the long SUMMARY line, `END:VEVENT`, `END:VCALENDAR` -/
def calLong : List Byte :=
  calOpen.take 35 ++ (longSummary ++ ([10] ++ (calOpen.drop 35 ++ [69, 78, 68, 58, 86, 67, 65, 76, 69, 78, 68, 65, 82, 10])))

theorem tidy'_calLong : Tidy' calLong :=
  tidy'_append _ _ (by decide) (tidy'_append _ _ (tidy'_append _ _ (by decide) (tidy'_replicate _ _ (by decide)))
    (by decide))

set_option maxRecDepth 1000000 in
/-- the SUMMARY line of 1508 bytes is a property line of the one instruction (formerly: passed over, the event
came out without it), in one buffer and cut in the middle of it -/
theorem long_summary_kept :
    (feed [calLong]).1.map (fun i => (i.verb, i.lines)) = [("S", [[85, 73, 68, 58, 97], longSummary])] ∧
    (feed [calLong.take 1200, calLong.drop 1200]).1.map (fun i => (i.verb, i.lines)) =
      [("S", [[85, 73, 68, 58, 97], longSummary])] ∧
    longSummary ∈ (feed [calLong]).2 := by
  decide

/-- whatever the chunks -/
theorem long_summary_any_chunking (chunks : List (List Byte)) (hc : chunks.flatten = calLong)
    (hne : ∀ c ∈ chunks, c ≠ []) :
    (feed chunks).1.map (fun i => (i.verb, i.lines)) = [("S", [[85, 73, 68, 58, 97], longSummary])] ∧
    longSummary ∈ (feed chunks).2 := by
  rw [chunk_independent _ chunks hc hne tidy'_calLong]
  exact ⟨long_summary_kept.1, long_summary_kept.2.2⟩

set_option maxRecDepth 1000000 in
theorem runA_overLine : (runA {} overLine).ins = [] ∧ (runA {} overLine).cur.length = 1102 := by decide

/-- the stash is no longer bounded (the former `stash_bounded`, fill below 1024, is false now): between two
pushes it holds the whole line under way -/
theorem stash_grows : ∃ q, [overLine].foldl feedStep (none, []) = (some q, []) ∧ q.stash.length = 1102 := by
  have hf : [overLine].flatten = overLine := by
    rw [List.flatten_cons, List.flatten_nil, List.append_nil]
  have h := state_independent [overLine] (fun c hc => by rw [List.mem_singleton.1 hc]; exact List.cons_ne_nil _ _)
    (by rw [hf]; exact List.cons_ne_nil _ _)
    (by rw [hf]; exact tidy'_append _ _ (by decide) (tidy'_replicate 1100 120 (by decide)))
  rw [hf] at h
  obtain ⟨q, hq, _, _, hst, _⟩ := h
  refine ⟨q, ?_, ?_⟩
  · rw [hq, runA_overLine.1]
  · rw [hst]; exact runA_overLine.2

/-! ### no line is passed over

The lines acted upon (`_ical_proc` was handed them: `p.log`, second component of `feed`) are ALL non-empty logical
lines of the input, whatever their length and however the input is cut.  `logicalLines` reads the input byte by
byte and knows nothing of buffers, stash or components. -/

/-- the non-empty logical lines of an input, read byte by byte (`cur`: the unfolded line so far, `pend`: its NL has
been read): a CR is dropped wherever it stands, NL followed by SP/TAB is a fold and is dropped, any other NL ends
the line - the last one of the input included; empty lines are no lines, and what is left at the end of the
input without its NL is not a line yet -/
def linesFrom (pend : Bool) (cur : List Byte) : List Byte → List (List Byte)
  | [] => if pend = true ∧ cur ≠ [] then [cur] else []
  | c :: r =>
    if pend = true then
      if isFold c = true then linesFrom false cur r
      else (if cur ≠ [] then [cur] else []) ++ linesFrom (c == NL) (if c = CR ∨ c = NL then [] else [c]) r
    else linesFrom (c == NL) (if c = CR ∨ c = NL then cur else cur ++ [c]) r

/-- all non-empty logical (unfolded) lines of an input, in order -/
def logicalLines (bs : List Byte) : List (List Byte) := linesFrom false [] bs

theorem plainSc_pend (s : Sc) (c : Byte) (h : s.pend = false) : (plainSc s c).pend = (c == NL) := by
  unfold plainSc
  by_cases h1 : c = CR
  · rw [if_pos h1, h1]; exact h
  · rw [if_neg h1]
    by_cases h2 : c = NL
    · rw [if_pos h2, h2]; rfl
    · rw [if_neg h2]
      show s.pend = _
      rw [h]; symm; simpa using h2

theorem flushA_log (A : Abs) :
    (flushA A).log = A.log ++ (if A.cur ≠ [] then [A.cur] else []).map (fun l => l.takeWhile (· ≠ 0)) := by
  by_cases h : A.cur = []
  · rw [flushA_of_nil A h, if_neg (by simpa using h)]; simp
  · rw [flushA_of_ne A h, if_pos h]; exact procA_log A

theorem finish_log (A : Abs) (ins : List Instr) :
    (finish A ins).2 =
      A.log ++ (if A.sc.pend = true ∧ A.cur ≠ [] then [A.cur] else []).map (fun l => l.takeWhile (· ≠ 0)) := by
  unfold finish
  split <;> simp

/-- the lines the reference automaton and the last pull act upon are the logical lines still to come -/
theorem runA_lines : ∀ (l : List Byte) (A : Abs) (ins : List Instr),
    (finish (runA A l) ins).2 =
      A.log ++ (linesFrom A.sc.pend A.cur l).map (fun l => l.takeWhile (· ≠ 0))
  | [], A, ins => by rw [runA_nil, finish_log]; rfl
  | c :: r, A, ins => by
    rw [runA_cons, runA_lines r (stepA A c) ins]
    cases hp : A.sc.pend with
    | false =>
      rw [stepA_not_pend A c hp]
      show A.log ++ _ = _
      have e : (plainA A c).sc.pend = (c == NL) := plainSc_pend A.sc c hp
      rw [e]
      rfl
    | true =>
      cases hf : isFold c with
      | true =>
        rw [stepA_pend_fold A c hp hf]
        show A.log ++ List.map _ (linesFrom (stepSc A.sc c).pend A.cur r) = _
        rw [stepSc_pend_fold _ _ hp hf]
        simp [linesFrom, hf]
      | false =>
        rw [stepA_pend_nofold A c hp hf]
        have e : (plainA (flushA A) c).sc.pend = (c == NL) :=
          plainSc_pend (flushA A).sc c (by rw [flushA_sc])
        have e2 : (plainA (flushA A) c).cur = if c = CR ∨ c = NL then [] else [c] := by
          show (if c = CR ∨ c = NL then (flushA A).cur else (flushA A).cur ++ [c]) = _
          rw [flushA_cur]; rfl
        have e3 : (plainA (flushA A) c).log = (flushA A).log := rfl
        rw [e, e2, e3, flushA_log]
        simp [linesFrom, hf, List.append_assoc]

/-- no line is passed over: for every input without backslash and every chunking of it the lines handed to
`_ical_proc` (each as the C string it is read as: up to its first NUL) are ALL non-empty logical lines of the
concatenation, in order -/
theorem no_line_passed_over (bs : List Byte) (chunks : List (List Byte)) (hc : chunks.flatten = bs)
    (hne : ∀ c ∈ chunks, c ≠ []) (ht : Tidy' bs) :
    (feed chunks).2 = (logicalLines bs).map (fun l => l.takeWhile (· ≠ 0)) := by
  by_cases hbs : bs = []
  · rw [hbs] at hc
    rw [chunks_nil_of_flatten chunks hc hne, hbs]; rfl
  · rw [feed_tidy chunks hne (by rw [hc]; exact hbs) (by rw [hc]; exact ht), hc, runA_lines]
    rfl

/-- in particular every logical line is among the lines acted upon -/
theorem every_line_acted_upon (bs : List Byte) (chunks : List (List Byte)) (hc : chunks.flatten = bs)
    (hne : ∀ c ∈ chunks, c ≠ []) (ht : Tidy' bs) (l : List Byte) (hl : l ∈ logicalLines bs) :
    l.takeWhile (· ≠ 0) ∈ (feed chunks).2 := by
  rw [no_line_passed_over bs chunks hc hne ht]
  exact List.mem_map_of_mem hl

set_option maxRecDepth 1000000 in
/-- `logicalLines` on small inputs: a fold, CRLF, an empty line, an unterminated rest; the calendar `cal` above;
the line of 1102 bytes -/
theorem logicalLines_examples :
    logicalLines [65, 58, 49, 13, 10, 32, 50, 10, 13, 10, 66, 58, 10, 67] = [[65, 58, 49, 50], [66, 58]] ∧
    (logicalLines cal).length = 9 ∧
    logicalLines (lineB ++ (overLine ++ ([10] ++ lineB))) = [[66, 58, 49], overLine, [66, 58, 49]] := by
  decide

end C10
