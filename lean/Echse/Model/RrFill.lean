/- dispatch of `refill()`'s switch over the rule frequency to the filler models -/
import Echse.Model.RrYly
import Echse.Model.RrMly
import Echse.Model.RrWly
import Echse.Model.RrDly
import Echse.Model.RrHly
import Echse.Model.RrMnly
import Echse.Model.RrSly
namespace Echse.Rrule
open Echse.Instant

/-- one call `rrul_fill_X(tgt, nti, rr)` on a cache pre-filled with `proto`: the instants written to
`tgt[0 .. res)`; `none` where a filler is not modelled -/
def fill (r : Rule) (proto : Inst) (nti : Nat) : Option (List Inst) :=
  match r.freq with
  | 1 => fillYly r proto nti
  | 2 => fillMly r proto nti
  | 3 => fillWly r proto nti
  | 4 => fillDly r proto nti
  | 5 => fillHly r proto nti
  | 6 => fillMnly r proto nti
  | 7 => fillSly r proto nti
  | _ => some []

end Echse.Rrule
