/-
  C18 — printing and parsing of instants and durations (dt-strpf.c) are inverse to each other,
  and the parser accepts every spelling the grammar describes.

  A  `dtStrp (dtStrf i)` returns `i` and consumes the whole text, for normal instants with
     millisecond resolution, second resolution and all-day instants, years up to 9999,
     with `len = 0` (NUL-terminated) and with the exact length;
  B  the same for the iCalendar form `dtStrfIcal` (a millisecond instant comes back with
     second resolution, as the form has no milliseconds);
  C  all sixteen second-resolution spellings parse to the instant;
  D  `ilog10Ceil` is the number of decimal digits on the whole `uint32_t` range, `tostr` prints
     the canonical decimal numeral;
  E  the number loop of the duration parser;
  F  `idiffStrp (idiffStrf n) = n` for every duration (any number of milliseconds; they are
     printed as a three-digit fraction of the seconds) whose day count fits 32 bits (far beyond
     2^32 ms), positive and negative;
  G  every spelling `[+-]P[nW][nD][T[nH][nM][n[.f]S]]` parses to its value; of the fraction `f`
     three digits count (milliseconds), further digits are read over.

  Statements only; helper lemmas live in Echse/Lemmas/Strpf*.lean.  The year hypothesis is
  `i.y ≤ 9999` only (the printer pads to four digits, so `1000 ≤ i.y` is not needed).
-/
import Echse.Lemmas.Strpf2
import Echse.Lemmas.Strpf6
namespace C18
open Echse.Instant Echse.Strpf Echse.Spec.Cal

/-! ### A. ISO form -/

theorem dtStrf_length_ms (i : Inst) (h : Normal i) : (dtStrf i).length = 23 := by
  obtain ⟨-, hH, -, -, hms⟩ := h
  rw [dtStrf_ms i (by simp only [allDay]; omega) (by simp only [allSec]; omega)]
  simp [spell_length, tpstr3]

/-- (a) millisecond resolution -/
theorem dt_roundtrip_ms (i : Inst) (hy : i.y ≤ 9999) (h : Normal i) :
    dtStrp (dtStrf i) 0 = some (i, (dtStrf i).length) ∧
    dtStrp (dtStrf i) (dtStrf i).length = some (i, (dtStrf i).length) := by
  rw [dtStrf_length_ms i h]
  obtain ⟨-, hH, -, -, hms⟩ := id h
  rw [dtStrf_ms i (by simp only [allDay]; omega) (by simp only [allSec]; omega)]
  obtain ⟨y, m, d, H, M, S, ms⟩ := i
  exact ⟨iso_ms_parse 0 (Or.inl rfl) y m d H M S ms hy h, iso_ms_parse 23 (Or.inr rfl) y m d H M S ms hy h⟩


theorem hne_sec {i : Inst} (h : NormalSec i) : i.H ≠ allDay := by
  have := h.2.1; simp only [allDay]; omega
theorem hne_ms {i : Inst} (h : Normal i) : i.H ≠ allDay := by
  have := h.2.1; simp only [allDay]; omega

/-- (b) second resolution -/
theorem dt_roundtrip_sec (i : Inst) (hy : i.y ≤ 9999) (h : NormalSec i) :
    dtStrp (dtStrf i) 0 = some (i, (dtStrf i).length) ∧
    dtStrp (dtStrf i) (dtStrf i).length = some (i, (dtStrf i).length) := by
  rw [dtStrf_sec i (hne_sec h) h.2.2.2.2, spell_length]
  obtain ⟨y, m, d, H, M, S, ms⟩ := i
  obtain rfl : ms = allSec := h.2.2.2.2
  exact ⟨spell_parse true true 'T' false y m d H M S 0 (Or.inl rfl) (Or.inl rfl) hy h,
         spell_parse true true 'T' false y m d H M S _ (Or.inr rfl) (Or.inl rfl) hy h⟩

/-- (c) all-day -/
theorem dt_roundtrip_day (i : Inst) (hy : i.y ≤ 9999) (h : NormalDay i)
    (hM : i.M = 0) (hS : i.S = 0) (hms : i.ms = 0) :
    dtStrp (dtStrf i) 0 = some (i, (dtStrf i).length) ∧
    dtStrp (dtStrf i) (dtStrf i).length = some (i, (dtStrf i).length) := by
  obtain ⟨y, m, d, H, M, S, ms⟩ := i
  obtain ⟨hv, rfl⟩ := h
  simp only at hM hS hms; subst hM hS hms
  rw [dtStrf_day _ rfl]
  have hl : (dayStr true ⟨y, m, d, allDay, 0, 0, 0⟩).length = 10 := by simp [dayStr, tpstr2, tpstr4]
  rw [hl]
  exact ⟨day_parse true 0 (Or.inl rfl) y m d hy hv, day_parse true 10 (Or.inr rfl) y m d hy hv⟩

/-! ### B. iCalendar form -/

/-- (b) second resolution: the trailing `Z` is consumed -/
theorem ical_roundtrip_sec (i : Inst) (hy : i.y ≤ 9999) (h : NormalSec i) :
    dtStrp (dtStrfIcal i) 0 = some (i, (dtStrfIcal i).length) ∧
    dtStrp (dtStrfIcal i) (dtStrfIcal i).length = some (i, (dtStrfIcal i).length) := by
  rw [dtStrfIcal_sec i (hne_sec h), spell_length]
  obtain ⟨y, m, d, H, M, S, ms⟩ := i
  obtain rfl : ms = allSec := h.2.2.2.2
  exact ⟨spell_parse false false 'T' true y m d H M S 0 (Or.inl rfl) (Or.inl rfl) hy h,
         spell_parse false false 'T' true y m d H M S _ (Or.inr rfl) (Or.inl rfl) hy h⟩

/-- (c) all-day -/
theorem ical_roundtrip_day (i : Inst) (hy : i.y ≤ 9999) (h : NormalDay i)
    (hM : i.M = 0) (hS : i.S = 0) (hms : i.ms = 0) :
    dtStrp (dtStrfIcal i) 0 = some (i, (dtStrfIcal i).length) ∧
    dtStrp (dtStrfIcal i) (dtStrfIcal i).length = some (i, (dtStrfIcal i).length) := by
  obtain ⟨y, m, d, H, M, S, ms⟩ := i
  obtain ⟨hv, rfl⟩ := h
  simp only at hM hS hms; subst hM hS hms
  rw [dtStrfIcal_day _ rfl]
  have hl : (dayStr false ⟨y, m, d, allDay, 0, 0, 0⟩).length = 8 := by simp [dayStr, tpstr2, tpstr4]
  rw [hl]
  exact ⟨day_parse false 0 (Or.inl rfl) y m d hy hv, day_parse false 8 (Or.inr rfl) y m d hy hv⟩

/-- (a) millisecond resolution: the iCalendar form has no milliseconds; the result has second
resolution. -/
theorem ical_roundtrip_ms (i : Inst) (hy : i.y ≤ 9999) (h : Normal i) :
    dtStrp (dtStrfIcal i) 0 = some ({ i with ms := allSec }, (dtStrfIcal i).length) ∧
    dtStrp (dtStrfIcal i) (dtStrfIcal i).length = some ({ i with ms := allSec }, (dtStrfIcal i).length) := by
  rw [dtStrfIcal_sec i (hne_ms h), spell_length]
  obtain ⟨y, m, d, H, M, S, ms⟩ := i
  have h' : NormalSec ⟨y, m, d, H, M, S, allSec⟩ := ⟨h.1, h.2.1, h.2.2.1, h.2.2.2.1, rfl⟩
  exact ⟨spell_parse false false 'T' true y m d H M S 0 (Or.inl rfl) (Or.inl rfl) hy h',
         spell_parse false false 'T' true y m d H M S _ (Or.inr rfl) (Or.inl rfl) hy h'⟩

/-! ### C. spellings -/

/-- every second-resolution spelling `YYYY-MM-DD` / `YYYYMMDD`, `T` or space, `HH:MM:SS` / `HHMMSS`,
with or without a final `Z`, parses to the instant, and the whole text is consumed. -/
theorem dt_spellings (dsep tsep : Bool) (sep : Char) (z : Bool) (i : Inst)
    (hsep : sep = 'T' ∨ sep = ' ') (hy : i.y ≤ 9999) (h : NormalSec i) :
    dtStrp (spell dsep tsep sep z i) 0 = some (i, (spell dsep tsep sep z i).length) ∧
    dtStrp (spell dsep tsep sep z i) (spell dsep tsep sep z i).length
      = some (i, (spell dsep tsep sep z i).length) := by
  rw [spell_length]
  obtain ⟨y, m, d, H, M, S, ms⟩ := i
  obtain rfl : ms = allSec := h.2.2.2.2
  exact ⟨spell_parse dsep tsep sep z y m d H M S 0 (Or.inl rfl) hsep hy h,
         spell_parse dsep tsep sep z y m d H M S _ (Or.inr rfl) hsep hy h⟩


/-- the spellings are what the name says (definition in Echse/Lemmas/Strpf.lean) -/
theorem spell_def (dsep tsep : Bool) (sep : Char) (z : Bool) (i : Inst) :
    spell dsep tsep sep z i =
      tpstr i.y 4 ++ (if dsep then ['-'] else []) ++ tpstr i.m 2 ++ (if dsep then ['-'] else []) ++ tpstr i.d 2 ++
      [sep] ++ tpstr i.H 2 ++ (if tsep then [':'] else []) ++ tpstr i.M 2 ++ (if tsep then [':'] else []) ++
      tpstr i.S 2 ++ (if z then ['Z'] else []) := rfl

-- concrete instances: a leap day with milliseconds, second resolution, all-day, other spellings
example : Normal ⟨2020, 2, 29, 10, 30, 15, 250⟩ := by decide
example : dtStrf ⟨2020, 2, 29, 10, 30, 15, 250⟩ =
    ['2','0','2','0','-','0','2','-','2','9','T','1','0',':','3','0',':','1','5','.','2','5','0'] := by decide
/-- concrete instance (name referenced by evidence/C18.json) -/
theorem dt_roundtrip_leapday :
    dtStrp (dtStrf ⟨2020, 2, 29, 10, 30, 15, 250⟩) 0 = some (⟨2020, 2, 29, 10, 30, 15, 250⟩, 23) := by decide
example : dtStrp (dtStrf ⟨2020, 2, 29, 23, 59, 59, 999⟩) 23 = some (⟨2020, 2, 29, 23, 59, 59, 999⟩, 23) := by decide
example : dtStrp (dtStrfIcal ⟨2020, 2, 29, 10, 30, 15, 250⟩) 0 = some (⟨2020, 2, 29, 10, 30, 15, allSec⟩, 16) := by
  decide
example : NormalSec ⟨1999, 12, 31, 23, 59, 59, allSec⟩ := by decide
example : dtStrp (spell false true ' ' true ⟨1999, 12, 31, 23, 59, 59, allSec⟩) 0
    = some (⟨1999, 12, 31, 23, 59, 59, allSec⟩, 18) := by decide
example : dtStrp ['1','9','9','9','1','2','3','1',' ','2','3',':','5','9',':','5','9','Z'] 18
    = some (⟨1999, 12, 31, 23, 59, 59, allSec⟩, 18) := by decide
example : dtStrp (dtStrf ⟨2024, 2, 29, allDay, 0, 0, 0⟩) 10 = some (⟨2024, 2, 29, allDay, 0, 0, 0⟩, 10) := by decide

/-! ### D. digit printing -/

/-- `ilog10_ceil(n)` is the number of decimal digits of `n` (1 for 0), for every `uint32_t` -/
theorem ilog10Ceil_digits (n : Nat) (h : n < 2^32) :
    1 ≤ ilog10Ceil n ∧ n < 10^(ilog10Ceil n) ∧ (n ≠ 0 → 10^(ilog10Ceil n - 1) ≤ n) :=
  ilog10Ceil_spec n h

theorem ilog10Ceil_eq_toDigits_length (n : Nat) (h : n < 2^32) : ilog10Ceil n = (Nat.toDigits 10 n).length :=
  ilog10Ceil_eq_length n h

/-- `ui32tostr` prints the canonical decimal numeral -/
theorem tostr_canonical (n : Nat) (h : n < 2^32) : tostr n = Nat.toDigits 10 n :=
  tostr_eq_toDigits n h

example : tostr 4294967295 = ['4','2','9','4','9','6','7','2','9','5'] := by decide
example : tostr 1000000000 = ['1','0','0','0','0','0','0','0','0','0'] := by decide
example : tostr 999999999 = ['9','9','9','9','9','9','9','9','9'] := by decide
example : tostr 0 = ['0'] := by decide

/-! ### E. the number loop -/

/-- on `pre ++ digits ++ c :: rest` with `digits` ASCII digits (leading zeros allowed) denoting a
value below 2^32 and `c` not a digit, the loop started behind `pre` stops behind the digits with their
value.  (`digitsVal ds < 2^32` is the same as "no intermediate value reaches 2^32": the
intermediate values are the values of the prefixes, which are not larger, `digitsVal_prefix_le`.) -/
theorem numLoop_spec (pre digits : List Char) (c : Char) (rest : List Char) (fuel len : Nat)
    (hd : ∀ x ∈ digits, isDig x) (hv : digitsVal digits < 2^32) (hc : ¬ isDig c)
    (hf : digits.length < fuel) (hlen : pre.length + digits.length ≤ len) :
    numLoop (pre ++ digits ++ c :: rest) len fuel pre.length 0 = (pre.length + digits.length, digitsVal digits) :=
  numLoop_token pre digits c rest fuel len hd hv hc hf hlen

theorem digitsVal_prefix_le (ds es : List Char) : digitsVal ds ≤ digitsVal (ds ++ es) := by
  unfold digitsVal; rw [List.foldl_append]; exact foldl_digStep_ge es _

/-- the value is the usual positional one, and `tostr` prints digits with that value -/
theorem digitsVal_snoc' (ds : List Char) (c : Char) :
    digitsVal (ds ++ [c]) = digitsVal ds * 10 + (c.toNat - 48) := digitsVal_snoc ds c
theorem tostr_digits (v : Nat) (h : v < 2^32) : (∀ c ∈ tostr v, isDig c) ∧ digitsVal (tostr v) = v :=
  ⟨tostr_isDig v, tostr_val v h⟩

example : numLoop ['P','0','0','4','2','D'] 6 7 1 0 = (5, 42) := by decide
example : digitsVal ['4','2','9','4','9','6','7','2','9','5'] = 4294967295 := by decide

/-! ### F. duration round trip -/

/-- durations of any length (the day count fits 32 bits, i.e. up to 2^32 · 86400000 ms) and any
number of milliseconds, positive and negative -/
theorem idiff_roundtrip_pos (n : Nat) (hd : n / 86400000 < 2^32) :
    (idiffStrp (idiffStrf (n : Int)) (idiffStrf (n : Int)).length).1 = (n : Int) :=
  (idiff_roundtrip n hd).1

theorem idiff_roundtrip_neg (n : Nat) (hd : n / 86400000 < 2^32) :
    (idiffStrp (idiffStrf (-(n : Int))) (idiffStrf (-(n : Int))).length).1 = -(n : Int) :=
  (idiff_roundtrip n hd).2

/-- both signs in one statement -/
theorem idiff_roundtrip_int (d : Int) (hd : d.natAbs / 86400000 < 2^32) :
    (idiffStrp (idiffStrf d) (idiffStrf d).length).1 = d := by
  rcases Int.natAbs_eq d with h | h
  · rw [h]; exact idiff_roundtrip_pos _ hd
  · rw [h]; exact idiff_roundtrip_neg _ hd

/-- what is printed: `P[nD][T[nH][nM][n[.fff]S]]`, a part iff it is not zero, a `0` before a lone
fraction -/
theorem idiffStrf_form (n : Nat) (hn : n ≠ 0) (hd : n / 86400000 < 2^32) :
    idiffStrf (n : Int) = 'P' :: durBodyF none (nz (n / 86400000)) (nz (n % 86400000 / 3600000))
        (nz (n % 86400000 % 3600000 / 60000))
        (secsOf (n % 86400000 % 3600000 % 60000 / 1000) (n % 86400000 % 3600000 % 60000 % 1000))
        (fracOf (n % 86400000 % 3600000 % 60000 % 1000)) :=
  (idiffStrf_body n hn hd).1

theorem printed_parts_def (v sec ms : Nat) :
    nz v = (if v ≠ 0 then some (tostr v) else none) ∧
    secsOf sec ms = (if sec ≠ 0 ∨ ms ≠ 0 then some (tostr sec) else none) ∧
    fracOf ms = (if ms ≠ 0 then some (tpstr ms 3) else none) := ⟨rfl, rfl, rfl⟩

-- 50 days are more than 2^32 ms
example : (4320000000 : Nat) > 2^32 ∧ 4320000000 / 86400000 < 2^32 := by decide
example : idiffStrf 4320000000 = ['P','5','0','D'] := by decide
example : idiffStrp (idiffStrf 4320000000) 4 = (4320000000, 5) := by decide
example : idiffStrf (-(4320000000 + 3723000)) = ['-','P','5','0','D','T','1','H','2','M','3','S'] := by decide
example : (idiffStrp (idiffStrf (-(4320000000 + 3723000))) 12).1 = -4323723000 := by decide
-- milliseconds are kept
example : idiffStrf 500 = "PT0.500S".toList := by decide
example : idiffStrp "PT0.500S".toList 8 = (500, 9) := by decide
/-- half a second survives -/
theorem idiff_roundtrip_500ms : (idiffStrp (idiffStrf 500) (idiffStrf 500).length).1 = 500 := by decide
example : idiffStrf 86400500 = "P1DT0.500S".toList := by decide
example : (idiffStrp "P1DT0.500S".toList 10).1 = 86400500 := by decide
example : idiffStrf 1007 = "PT1.007S".toList := by decide
example : (idiffStrp "PT1.007S".toList 8).1 = 1007 := by decide
example : idiffStrf 60050 = "PT1M0.050S".toList := by decide
example : (idiffStrp "PT1M0.050S".toList 10).1 = 60050 := by decide
example : idiffStrf 1500 = "PT1.500S".toList := by decide
example : (idiffStrp (idiffStrf 1500) 8).1 = 1500 := by decide
example : idiffStrf (-(4320000000 + 3723999)) = "-P50DT1H2M3.999S".toList := by decide
example : (idiffStrp "-P50DT1H2M3.999S".toList 16).1 = -4323723999 := by decide

/-! ### G. spellings of durations -/

/-- the text `[sign]P[nW][nD][T[nH][nM][nS]]` (no fraction; with one: `idiff_spellings_frac`): every part optional, the `T` present iff a time part
is, the numbers any digit strings (leading zeros allowed) with a value below 2^32 -/
theorem durBody_def (w d h mi s : Option (List Char)) :
    durBody w d h mi s = part w 'W' ++ part d 'D' ++
      (if h.isSome ∨ mi.isSome ∨ s.isSome then 'T' :: (part h 'H' ++ part mi 'M' ++ part s 'S') else []) := rfl

theorem idiff_spellings (sign : List Char) (w d h mi s : Option (List Char))
    (hw : POk w) (hd : POk d) (hh : POk h) (hm : POk mi) (hs : POk s)
    (hsign : sign = [] ∨ sign = ['+'] ∨ sign = ['-'])
    (hlen : 3 ≤ (sign ++ 'P' :: durBody w d h mi s).length) :
    (idiffStrp (sign ++ 'P' :: durBody w d h mi s) (sign ++ 'P' :: durBody w d h mi s).length).1 =
      (if sign = ['-'] then -1 else 1) *
        ((pval w * 7 + pval d) * 86400000 + pval h * 3600000 + pval mi * 60000 + pval s * 1000) := by
  rw [idiffStrp_dur sign w d h mi s hw hd hh hm hs hsign hlen]
  unfold durVal
  split <;> omega

/-- the same with the parts given as numbers below 2^32, printed canonically; no length
hypothesis is needed (a text shorter than 3 has no part and the value 0) -/
theorem idiff_spellings_nat (sign : List Char) (w d h mi s : Option Nat)
    (hw : ∀ v, w = some v → v < 2^32) (hd : ∀ v, d = some v → v < 2^32) (hh : ∀ v, h = some v → v < 2^32)
    (hm : ∀ v, mi = some v → v < 2^32) (hs : ∀ v, s = some v → v < 2^32)
    (hsign : sign = [] ∨ sign = ['+'] ∨ sign = ['-']) :
    let text := sign ++ 'P' :: durBody (w.map tostr) (d.map tostr) (h.map tostr) (mi.map tostr) (s.map tostr)
    (idiffStrp text text.length).1 =
      (if sign = ['-'] then -1 else 1) *
        (((w.getD 0 : Nat) * 7 + (d.getD 0 : Nat) : Int) * 86400000 + (h.getD 0 : Nat) * 3600000
          + (mi.getD 0 : Nat) * 60000 + (s.getD 0 : Nat) * 1000) := by
  intro text
  by_cases hall : w = none ∧ d = none ∧ h = none ∧ mi = none ∧ s = none
  · obtain ⟨rfl, rfl, rfl, rfl, rfl⟩ := hall
    rcases hsign with rfl | rfl | rfl <;> decide
  · have hlen : 3 ≤ text.length := by
      have t := tpart_length_ge (h.map tostr) (mi.map tostr) (s.map tostr)
      have l1 := part_map_length w 'W'
      have l2 := part_map_length d 'D'
      have l3 := part_map_length h 'H'
      have l4 := part_map_length mi 'M'
      have l5 := part_map_length s 'S'
      simp only [text, durBody, List.length_append, List.length_cons]
      rcases l1 with ⟨a1, b1⟩ | ⟨a1, b1⟩ <;> rcases l2 with ⟨a2, b2⟩ | ⟨a2, b2⟩ <;>
        rcases l3 with ⟨a3, b3⟩ | ⟨a3, b3⟩ <;> rcases l4 with ⟨a4, b4⟩ | ⟨a4, b4⟩ <;>
        rcases l5 with ⟨a5, b5⟩ | ⟨a5, b5⟩ <;>
        first | omega | exact absurd ⟨a1, a2, a3, a4, a5⟩ hall
    have := idiff_spellings sign _ _ _ _ _ (POk_map_tostr w hw) (POk_map_tostr d hd) (POk_map_tostr h hh)
      (POk_map_tostr mi hm) (POk_map_tostr s hs) hsign hlen
    rw [pval_map_tostr w hw, pval_map_tostr d hd, pval_map_tostr h hh, pval_map_tostr mi hm,
      pval_map_tostr s hs] at this
    exact this

/-- the seconds with a decimal fraction: `[sign]P[nW][nD]T[nH][nM]<s>.<fs>S` with `s` and `fs` any digit
strings (`s` with a value below 2^32, both may be empty) reads as the value of the parts plus
`fracVal fs` milliseconds -/
theorem idiff_spellings_frac (sign : List Char) (w d h mi : Option (List Char)) (s fs : List Char)
    (hw : POk w) (hd : POk d) (hh : POk h) (hm : POk mi)
    (hs : ∀ c ∈ s, isDig c) (hsv : digitsVal s < 2^32) (hfs : ∀ c ∈ fs, isDig c)
    (hsign : sign = [] ∨ sign = ['+'] ∨ sign = ['-']) :
    let text := sign ++ 'P' :: (part w 'W' ++ part d 'D' ++
      'T' :: (part h 'H' ++ part mi 'M' ++ (s ++ '.' :: fs ++ ['S'])))
    (idiffStrp text text.length).1 =
      (if sign = ['-'] then -1 else 1) *
        ((pval w * 7 + pval d) * 86400000 + pval h * 3600000 + pval mi * 60000 + (digitsVal s : Int) * 1000
          + (fracVal fs : Int)) := by
  intro text
  have e : text = sign ++ 'P' :: durBodyF w d h mi (some s) (some fs) := by
    simp only [text, durBodyF_frac]
  have hlen : 3 ≤ text.length := by
    simp only [text, List.length_append, List.length_cons]; omega
  rw [e] at hlen ⊢
  rw [idiffStrp_durF sign w d h mi (some s) (some fs) hw hd hh hm
    (by intro ds h; cases h; exact ⟨hs, hsv⟩) (by intro x h; cases h; exact hfs) hsign hlen]
  simp only [durValF, pval, fval]
  split <;> omega

/-- the milliseconds of a fraction: pad with zeros to three digits or cut after the third, and read
the number so written; with at most three digits that is the number scaled by 100, 10 or 1 -/
theorem fracVal_spec (fs : List Char) :
    fracVal fs = digitsVal ((fs ++ ['0', '0', '0']).take 3) ∧
    (fs.length ≤ 3 → fracVal fs = digitsVal fs * 10 ^ (3 - fs.length)) ∧
    ((∀ c ∈ fs, isDig c) → fracVal fs < 1000) :=
  ⟨fracVal_pad fs, fracVal_short fs, fracVal_lt fs⟩

/-- digits behind the third are read over -/
theorem fracVal_more (a b c : Char) (r : List Char) : fracVal (a :: b :: c :: r) = fracVal [a, b, c] :=
  fracVal_over a b c r

/-- what `idiffStrf` prints is such a spelling, and the three digits give the milliseconds back -/
theorem fracVal_printed (ms : Nat) (h : ms < 1000) : fracVal (tpstr ms 3) = ms := fracVal_tpstr3 ms h

-- fractions: one to three digits, more than three, none, no digit before the point
example : idiffStrp "PT0.5S".toList 6 = (500, 7) := by decide
example : (idiffStrp "PT0.05S".toList 7).1 = 50 := by decide
example : (idiffStrp "PT0.005S".toList 8).1 = 5 := by decide
example : (idiffStrp "PT0.0059S".toList 9).1 = 5 := by decide
example : (idiffStrp "PT1.23456789S".toList 13).1 = 1234 := by decide
example : (idiffStrp "PT1.S".toList 5).1 = 1000 := by decide
example : (idiffStrp "PT.5S".toList 5).1 = 500 := by decide
example : (idiffStrp "-P1W2DT3H4M5.25S".toList 16).1 = -788645250 := by decide
example : (idiffStrp "+PT1.5S".toList 7).1 = 1500 := by decide
example : (idiffStrp "PT1.500S".toList 8).1 = (idiffStrp "PT1.5S".toList 6).1 := by decide
example : (idiffStrp "PT90.5S".toList 7).1 = (idiffStrp "PT1M30.500S".toList 11).1 := by decide
-- a fraction belongs to the seconds: behind hours or minutes parsing stops, what was read so far stays
example : idiffStrp "PT1H2.5M".toList 8 = (3600000, 7) := by decide
example : fracVal "5".toList = 500 ∧ fracVal "05".toList = 50 ∧ fracVal "005".toList = 5 ∧
    fracVal "0059".toList = 5 ∧ fracVal [] = 0 := by decide

-- P1W2DT3H4M5S, with signs, with leading zeros, single parts
example : idiffStrp ['P','1','W','2','D','T','3','H','4','M','5','S'] 12 = (788645000, 13) := by decide
example : ((1 * 7 + 2) * 86400000 + 3 * 3600000 + 4 * 60000 + 5 * 1000 : Int) = 788645000 := by decide
example : (idiffStrp ['-','P','1','W','2','D','T','3','H','4','M','5','S'] 13).1 = -788645000 := by decide
example : (idiffStrp ['+','P','1','D'] 4).1 = 86400000 := by decide
example : (idiffStrp ['P','0','0','2','W'] 5).1 = 1209600000 := by decide
example : (idiffStrp ['P','T','9','0','M'] 5).1 = 5400000 := by decide
example : durBody (some ['1']) (some ['2']) (some ['3']) (some ['4']) (some ['5'])
    = ['1','W','2','D','T','3','H','4','M','5','S'] := by decide
example : POk (some ['0','0','2']) := by
  intro ds h; cases h; decide

end C18
