/-
  C01 for the YEARLY / MONTHLY filler models, part 4: basics for reading the candidate builders as sets —
  membership in `assC` and in folds of it, packed month/day values, the BYDAY mask, the weekday carried along a month.
-/
import Echse.Lemmas.RrCandRfc3
import Echse.Lemmas.RrRfcBase2
namespace Echse.Lemmas.RrCandRfc
open Echse.Rrule Echse.Instant Echse.Spec.RrOk Echse.Lemmas.RrCandOk Echse.Spec.Rfc Echse.Lemmas.RrRfc

theorem mem_assC_iff (l : List Nat) (v x : Nat) : x ∈ assC l v ↔ x ∈ l ∨ x = v := by
  induction l with
  | nil => unfold assC; simp
  | cons a l ih =>
    unfold assC
    by_cases c1 : v < a
    · rw [if_pos c1]; simp only [List.mem_cons]
      constructor
      · rintro (h | h | h)
        · exact Or.inr h
        · exact Or.inl (Or.inl h)
        · exact Or.inl (Or.inr h)
      · rintro ((h | h) | h)
        · exact Or.inr (Or.inl h)
        · exact Or.inr (Or.inr h)
        · exact Or.inl h
    · rw [if_neg c1]
      by_cases c2 : v = a
      · rw [if_pos c2]; simp only [List.mem_cons]
        constructor
        · intro h; exact Or.inl h
        · rintro (h | h)
          · exact h
          · exact Or.inl (h.trans c2)
      · rw [if_neg c2]; simp only [List.mem_cons, ih]
        constructor
        · rintro (h | h | h)
          · exact Or.inl (Or.inl h)
          · exact Or.inl (Or.inr h)
          · exact Or.inr h
        · rintro ((h | h) | h)
          · exact Or.inl h
          · exact Or.inr (Or.inl h)
          · exact Or.inr (Or.inr h)

/-- add a value, if there is one -/
def assO (cand : List Nat) (o : Option Nat) : List Nat :=
  match o with
  | none => cand
  | some v => assC cand v

theorem mem_assO (cand : List Nat) (o : Option Nat) (x : Nat) : x ∈ assO cand o ↔ x ∈ cand ∨ o = some x := by
  cases o with
  | none => simp [assO]
  | some v =>
    simp only [assO, mem_assC_iff, Option.some.injEq]
    constructor
    · rintro (h | h)
      · exact Or.inl h
      · exact Or.inr h.symm
    · rintro (h | h)
      · exact Or.inl h
      · exact Or.inr h.symm

/-- a builder that goes through a list and adds a value for some of its entries -/
theorem mem_foldl_assO {α : Type} (sel : α → Option Nat) (l : List α) (c : List Nat) (x : Nat) :
    x ∈ l.foldl (fun cand a => assO cand (sel a)) c ↔ x ∈ c ∨ ∃ a ∈ l, sel a = some x := by
  induction l generalizing c with
  | nil => simp
  | cons a l ih =>
    rw [List.foldl_cons, ih, mem_assO]
    constructor
    · rintro ((h | h) | ⟨b, hb, hs⟩)
      · exact Or.inl h
      · exact Or.inr ⟨a, List.mem_cons_self, h⟩
      · exact Or.inr ⟨b, List.mem_cons_of_mem _ hb, hs⟩
    · rintro (h | ⟨b, hb, hs⟩)
      · exact Or.inl (Or.inl h)
      · rcases List.mem_cons.mp hb with e | hb
        · subst e; exact Or.inl (Or.inr hs)
        · exact Or.inr ⟨b, hb, hs⟩

/-- … and one that nests such loops -/
theorem mem_foldl_nest {α : Type} (f : List Nat → α → List Nat) (S : α → Nat → Prop)
    (hf : ∀ c a x, x ∈ f c a ↔ x ∈ c ∨ S a x) (l : List α) (c : List Nat) (x : Nat) :
    x ∈ l.foldl f c ↔ x ∈ c ∨ ∃ a ∈ l, S a x := by
  induction l generalizing c with
  | nil => simp
  | cons a l ih =>
    rw [List.foldl_cons, ih, hf]
    constructor
    · rintro ((h | h) | ⟨b, hb, hs⟩)
      · exact Or.inl h
      · exact Or.inr ⟨a, List.mem_cons_self, h⟩
      · exact Or.inr ⟨b, List.mem_cons_of_mem _ hb, hs⟩
    · rintro (h | ⟨b, hb, hs⟩)
      · exact Or.inl (Or.inl h)
      · rcases List.mem_cons.mp hb with e | hb
        · subst e; exact Or.inl (Or.inr hs)
        · exact Or.inr ⟨b, hb, hs⟩

/-! ### packed month / day values -/

theorem packCand_eq (m d : Nat) (hm : 1 ≤ m ∧ m ≤ 12) (hd : d ≤ 31) : packCand m d = (m - 1) * 32 + d := by
  unfold packCand u32; omega

theorem packCand_inj {m d m' d' : Nat} (hm : 1 ≤ m ∧ m ≤ 12) (hd : d ≤ 31) (hm' : 1 ≤ m' ∧ m' ≤ 12) (hd' : d' ≤ 31)
    (h : packCand m d = packCand m' d') : m = m' ∧ d = d' := by
  rw [packCand_eq m d hm hd, packCand_eq m' d' hm' hd'] at h; omega

theorem packCand_unpack (m d : Nat) (hm : 1 ≤ m ∧ m ≤ 12) (hd : d ≤ 31) :
    packCand m d / 32 + 1 = m ∧ packCand m d % 32 = d := by
  rw [packCand_eq m d hm hd]; omega

/-- a real candidate is the packed form of its month and day -/
theorem VC_unpack (y c : Nat) (h : VC y c) : c = packCand (c / 32 + 1) (c % 32) := by
  unfold VC at h
  rw [packCand_eq _ _ (by omega) (by omega)]; omega

/-! ### the BYDAY mask -/

theorem wdFold_bit0 (l : List Int) (a : Nat) :
    bit (l.foldl (fun (m : Nat) (t : Int) => if 1 ≤ t ∧ t ≤ 7 then m ||| (1 <<< t.toNat) else m ||| 1) a) 0 =
      (bit a 0 || l.any (fun t => !decide (1 ≤ t ∧ t ≤ 7))) := by
  induction l generalizing a with
  | nil => simp
  | cons t ts ih =>
    rw [List.foldl_cons, ih, List.any_cons]
    by_cases c : 1 ≤ t ∧ t ≤ 7
    · rw [if_pos c, bit_or, bit_shl]
      have : ¬ t.toNat = 0 := by omega
      simp [this, c]
    · rw [if_neg c, bit_or]
      have : bit 1 0 = true := by decide
      simp [this, c]

/-- bit 0 of the mask: BYDAY has an entry with an ordinal -/
theorem wdMask_bit0 (dow : List Int) : wdMaskOf dow % 2 = 1 ↔ ∃ t ∈ dow, ¬ (1 ≤ t ∧ t ≤ 7) := by
  have h := wdFold_bit0 dow 0
  rw [bit_zero, Bool.false_or] at h
  have e : (wdMaskOf dow % 2 = 1) ↔ bit (wdMaskOf dow) 0 = true := by
    unfold bit; simp
  rw [e]
  unfold wdMaskOf
  rw [bit_mod256 _ 0 (by omega), h, List.any_eq_true]
  constructor
  · rintro ⟨t, ht, hc⟩
    refine ⟨t, ht, ?_⟩
    intro c; rw [decide_eq_true c] at hc; cases hc
  · rintro ⟨t, ht, hc⟩
    refine ⟨t, ht, ?_⟩
    rw [decide_eq_false hc]; rfl

theorem wdMask_lt (dow : List Int) : wdMaskOf dow < 256 := by unfold wdMaskOf; exact Nat.mod_lt _ (by omega)

/-- the mask is zero exactly when there is no BYDAY -/
theorem wdMask_ne_zero (r : Rule) : wdMaskOf r.dow ≠ 0 ↔ r.dow ≠ [] := by
  constructor
  · intro h e; apply h; rw [e]; rfl
  · intro h
    cases hd : r.dow with
    | nil => exact absurd hd h
    | cons t ts =>
      by_cases c : 1 ≤ t ∧ t ≤ 7
      · have hm : ((t.toNat : Nat) : Int) ∈ plainDays r := by
          have : ((t.toNat : Nat) : Int) = t := by omega
          rw [this, mem_plainDays, hd]; exact ⟨List.mem_cons_self, c⟩
        have := (wdMaskOf_bit r t.toNat (by omega) (by omega)).2 hm
        rw [hd] at this
        exact ne_zero_of_bit this
      · have : wdMaskOf (t :: ts) % 2 = 1 := (wdMask_bit0 (t :: ts)).2 ⟨t, List.mem_cons_self, c⟩
        omega

theorem wdMask_shr (r : Rule) : wdMaskOf r.dow >>> 1 = 0 ↔ plainDays r = [] := by
  rw [Nat.shiftRight_eq_div_pow]; exact wdMaskOf_half r

/-! ### the weekday carried along -/

theorem incWd_eq (w : Nat) (h : 1 ≤ w ∧ w ≤ 7) : incWd w = w % 7 + 1 := by
  unfold incWd; split <;> omega

/-- the weekday `i` days after a day with weekday `w` -/
def wdAdd (w i : Nat) : Nat := (w - 1 + i) % 7 + 1

theorem wdAdd_zero (w : Nat) (h : 1 ≤ w ∧ w ≤ 7) : wdAdd w 0 = w := by unfold wdAdd; omega
theorem wdAdd_succ (w i : Nat) : incWd (wdAdd w i) = wdAdd w (i + 1) := by
  rw [incWd_eq _ (by unfold wdAdd; omega)]; unfold wdAdd; omega
theorem wdAdd_range (w i : Nat) : 1 ≤ wdAdd w i ∧ wdAdd w i ≤ 7 := by unfold wdAdd; omega

theorem wdayOf_add (n : Int) (i : Nat) : Echse.Spec.RuleExt.wdayOf (n + i) = wdAdd (Echse.Spec.RuleExt.wdayOf n) i := by
  unfold Echse.Spec.RuleExt.wdayOf wdAdd; omega

end Echse.Lemmas.RrCandRfc
