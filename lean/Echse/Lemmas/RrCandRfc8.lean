/-
  C01 for the YEARLY filler model, part 8: two candidate builders of a year read as sets and against the RFC —
  the counted weekdays of a year (`ycwGetYday_spec`, `mem_fillYlyYcw`, `mem_ycw_date`) and every day of the year on
  given weekdays (`mem_fillYlyYdAll`, `mem_ydall_date`).
-/
import Echse.Lemmas.RrMlyRfc1
import Echse.Lemmas.RuleExt18
namespace Echse.Lemmas.RrCandRfc
open Echse.Rrule Echse.Instant Echse.Spec.RrOk Echse.Lemmas.RrCandOk Echse.Spec.Rfc Echse.Lemmas.RrRfc
open Echse.Spec.Cal Echse.Spec.RuleExt Echse.Lemmas.RrMlyRfc Echse.Lemmas.RrOkBase

/-- `ycw_get_yday` in plain terms: the day `yd` of the year (the 1st of January a `j01w`) that is a `w` and the `c`-th
(`c > 0`) or `|c|`-th last (`c < 0`) such day of the year.  (Ordinal -54 wraps around in the C code: left out.) -/
theorem ycwGetYday_spec (y : Nat) (c : Int) (w : Nat) (hc : -53 ≤ c ∧ c ≤ 53 ∧ c ≠ 0) (hw : 1 ≤ w ∧ w ≤ 7)
    (yd : Nat) :
    (ycwGetYday y c w = yd ∧ yd ≠ 0) ↔
      (1 ≤ yd ∧ yd ≤ 365 + leapN y ∧ wdAdd (ymdGetWday y 1 1) (yd - 1) = w ∧
        ((0 < c ∧ ((yd : Int) - 1) / 7 + 1 = c) ∨
         (c < 0 ∧ ((365 + leapN y : Nat) - (yd : Int)) / 7 + 1 = -c))) := by
  have hwd := ymdGetWday_range y 1 1
  have hu : u32 = 4294967296 := rfl
  unfold ycwGetYday wdAdd
  dsimp only
  generalize ymdGetWday y 1 1 = j at *
  have hd : (if j ≤ w then w - j else (7 + w + u32 - j) % u32) = (w + 7 - j) % 7 := by rw [hu]; split <;> omega
  rw [hd]
  generalize hdf : (w + 7 - j) % 7 = diff
  have hdiff : diff ≤ 6 ∧ (j - 1 + diff) % 7 + 1 = w := by omega
  clear hd hdf
  have hl2 : (y % 4 = 0 ∧ leapN y = 1) ∨ (¬ y % 4 = 0 ∧ leapN y = 0) := by unfold leapN; split <;> omega
  generalize leapN y = lp at *
  by_cases g1 : c > 0
  · rw [if_pos g1]
    have e1 : (toU32 (c - 1) * 7 + diff + 1) % u32 = (c - 1).toNat * 7 + diff + 1 := by
      unfold toU32; rw [hu]; omega
    rw [e1]
    generalize hk : (c - 1).toNat = k
    have hk' : c = k + 1 := by omega
    subst hk'
    split
    · constructor
      · rintro ⟨rfl, h⟩; exact absurd rfl h
      · rintro ⟨a1, a2, a3, a4 | a4⟩ <;> omega
    · constructor
      · rintro ⟨rfl, _⟩
        refine ⟨by omega, by omega, by omega, Or.inl ⟨by omega, by omega⟩⟩
      · rintro ⟨a1, a2, a3, a4 | a4⟩
        · constructor <;> omega
        · omega
  rw [if_neg g1]
  have g2 : c < 0 := by omega
  rw [if_pos g2]
  have e1 : (toU32 (53 + c) * 7 + diff + 1) % u32 = (53 + c).toNat * 7 + diff + 1 := by
    unfold toU32; rw [hu]; omega
  rw [e1]
  generalize hk : (53 + c).toNat = k
  have hk' : c = k - 53 := by omega
  subst hk'
  have hk52 : k ≤ 52 := by omega
  clear e1 hk hc g1
  split
  · constructor
    · rintro ⟨rfl, _⟩
      refine ⟨by omega, by omega, by omega, Or.inr ⟨by omega, by omega⟩⟩
    · rintro ⟨a1, a2, a3, a4 | a4⟩
      · omega
      · constructor <;> omega
  split
  · constructor
    · rintro ⟨rfl, _⟩
      refine ⟨by omega, by omega, by omega, Or.inr ⟨by omega, by omega⟩⟩
    · rintro ⟨a1, a2, a3, a4 | a4⟩
      · omega
      · constructor <;> omega
  split
  · constructor
    · rintro ⟨rfl, h⟩; exact absurd rfl h
    · rintro ⟨a1, a2, a3, a4 | a4⟩ <;> omega
  · constructor
    · rintro ⟨rfl, _⟩
      refine ⟨by omega, by omega, by omega, Or.inr ⟨by omega, by omega⟩⟩
    · rintro ⟨a1, a2, a3, a4 | a4⟩
      · omega
      · constructor <;> omega

/-- the selection `fill_yly_ycw` makes for one BYDAY entry -/
def ycwSel (y : Nat) (t : Int) : Option Nat :=
  if t / 8 = 0 then none else
  if ycwGetYday y (t / 8) (t % 8).toNat = 0 then none else
  if (ydToMd y (toS32 (ycwGetYday y (t / 8) (t % 8).toNat))).m = 0 then none else
    some (packCand (ydToMd y (toS32 (ycwGetYday y (t / 8) (t % 8).toNat))).m
      (ydToMd y (toS32 (ycwGetYday y (t / 8) (t % 8).toNat))).d)

theorem fillYlyYcw_eq (cand : List Nat) (y : Nat) (dow : List Int) :
    fillYlyYcw cand y dow = dow.foldl (fun cand a => assO cand (ycwSel y a)) cand := by
  unfold fillYlyYcw
  congr 1
  funext cand t
  unfold ycwSel unpackCd
  dsimp only
  split
  · rfl
  · split
    · rfl
    · split <;> rfl

theorem mem_fillYlyYcw (cand : List Nat) (y : Nat) (dow : List Int) (x : Nat) :
    x ∈ fillYlyYcw cand y dow ↔ x ∈ cand ∨ ∃ t ∈ dow, t / 8 ≠ 0 ∧
      ycwGetYday y (t / 8) (t % 8).toNat ≠ 0 ∧
      (ydToMd y (toS32 (ycwGetYday y (t / 8) (t % 8).toNat))).m ≠ 0 ∧
      x = packCand (ydToMd y (toS32 (ycwGetYday y (t / 8) (t % 8).toNat))).m
        (ydToMd y (toS32 (ycwGetYday y (t / 8) (t % 8).toNat))).d := by
  rw [fillYlyYcw_eq, mem_foldl_assO]
  apply or_congr Iff.rfl
  apply exists_congr; intro t
  apply and_congr Iff.rfl
  unfold ycwSel
  by_cases c1 : t / 8 = 0
  · rw [if_pos c1]; simp [c1]
  · rw [if_neg c1]
    by_cases c2 : ycwGetYday y (t / 8) (t % 8).toNat = 0
    · rw [if_pos c2]; simp [c2]
    · rw [if_neg c2]
      by_cases c3 : (ydToMd y (toS32 (ycwGetYday y (t / 8) (t % 8).toNat))).m = 0
      · rw [if_pos c3]; simp [c3]
      · rw [if_neg c3]
        simp only [Option.some.injEq]
        constructor
        · intro h; exact ⟨c1, c2, c3, h.symm⟩
        · rintro ⟨_, _, _, h⟩; exact h.symm

/-- the last day of a year, 1901..2099 -/
theorem days_dec31 (y : Nat) (hy : 1901 ≤ y ∧ y ≤ 2099) : days y 12 31 = days y 1 1 + 364 + (leapN y : Nat) := by
  unfold leapN
  simp only [days]
  by_cases hl : y % 4 = 0
  · rw [if_pos hl]; simp; omega
  · rw [if_neg hl]; simp; omega

theorem VDs_jan1 (y : Nat) : VDs y 1 1 := by unfold VDs; simp [monthLen]
theorem VDs_dec31 (y : Nat) : VDs y 12 31 := by unfold VDs; simp [monthLen]

/-- within a year a real date is determined by its day number -/
theorem days_inj_year {y m d m' d' : Nat} (h : VDs y m d) (h' : VDs y m' d') (e : days y m d = days y m' d') :
    m = m' ∧ d = d' := by
  have k1 := dkey_le_of_days h h' (by omega)
  have k2 := dkey_le_of_days h' h (by omega)
  have a := h.d31
  have b := h'.d31
  have := h.2.1; have := h'.2.1
  unfold dkey at k1 k2
  omega

/-- a date lies between the first and the last day of its year -/
theorem days_year_bounds {y m d : Nat} (h : VDs y m d) : days y 1 1 ≤ days y m d ∧ days y m d ≤ days y 12 31 := by
  have a := h.d31
  obtain ⟨h1, h2, h3, h4⟩ := h
  constructor
  · by_cases c : dkey y 1 1 < dkey y m d
    · have := days_lt_of_dkey (VDs_jan1 y) ⟨h1, h2, h3, h4⟩ c; omega
    · have e : m = 1 ∧ d = 1 := by unfold dkey at c; omega
      rw [e.1, e.2]; omega
  · by_cases c : dkey y m d < dkey y 12 31
    · have := days_lt_of_dkey ⟨h1, h2, h3, h4⟩ (VDs_dec31 y) c; omega
    · have e : m = 12 ∧ d = 31 := by unfold dkey at c; omega
      rw [e.1, e.2]; omega

/-- the weekday `i` days after January 1st -/
theorem wdAdd_jan1 (y : Nat) (hy : 1901 ≤ y ∧ y ≤ 2099) (i : Nat) :
    wdAdd (ymdGetWday y 1 1) i = wdayOf (days y 1 1 + i) := by
  rw [Echse.RuleExt.wday_eq y 1 1 (by omega) (by omega) (by omega) (by omega) (by omega), wdayOf_add]

/-- day `yd` of the year as month and day: the date with that day number -/
theorem ydToMd_date (y yd : Nat) (hy : 1901 ≤ y ∧ y ≤ 2099) (h1 : 1 ≤ yd) (h2 : yd ≤ 365 + leapN y) :
    VDs y (ydToMd y (yd : Int)).m (ydToMd y (yd : Int)).d ∧
    days y (ydToMd y (yd : Int)).m (ydToMd y (yd : Int)).d = days y 1 1 + yd - 1 := by
  obtain ⟨a1, a2, a3, a4, a5⟩ := Echse.RuleExt.ydToMd_spec y yd hy.1 hy.2 h1 (by unfold leapN at h2; exact h2)
  exact ⟨⟨a1, a2, a3, a4⟩, a5⟩

/-- the n-th weekday within its year, in terms of the day of the year -/
theorem nth_year (x : Inst) (hx : DateIn x) (n : Int) (yd : Nat) (hyd : dayOf x = days x.y 1 1 + yd - 1) :
    NthWeekday n (days x.y 1 1) (days x.y 12 31) (dayOf x) ↔
      (1 ≤ yd ∧ yd ≤ 365 + leapN x.y ∧ ((0 < n ∧ ((yd : Int) - 1) / 7 + 1 = n) ∨
        (n < 0 ∧ ((365 + leapN x.y : Nat) - (yd : Int)) / 7 + 1 = -n))) := by
  unfold NthWeekday
  rw [hyd, days_dec31 x.y ⟨hx.lo, hx.hi⟩]
  generalize days x.y 1 1 = lo
  generalize leapN x.y = lp
  constructor
  · rintro ⟨a, b, h | h⟩
    · refine ⟨by omega, by omega, Or.inl ⟨h.1, ?_⟩⟩; rw [← h.2]; congr 2; omega
    · refine ⟨by omega, by omega, Or.inr ⟨h.1, ?_⟩⟩; rw [← h.2]; congr 2; omega
  · rintro ⟨a, b, h | h⟩
    · refine ⟨by omega, by omega, Or.inl ⟨h.1, ?_⟩⟩; rw [← h.2]; congr 2; omega
    · refine ⟨by omega, by omega, Or.inr ⟨h.1, ?_⟩⟩; rw [← h.2]; congr 2; omega

/-- BYDAY with ordinals within a year: the counted weekdays -/
theorem mem_ycw_date (r : Rule) (hr : WfRule r) (hord : ∀ t ∈ r.dow, -53 ≤ t / 8) (x : Inst) (hx : DateIn x) :
    packCand x.m x.d ∈ fillYlyYcw [] x.y r.dow ↔
      ∃ t ∈ r.dow, ordOf t ≠ 0 ∧ wdOf t = wdayOf (dayOf x) ∧
        NthWeekday (ordOf t) (days x.y 1 1) (days x.y 12 31) (dayOf x) := by
  have hv := hx.v
  have h31 := hv.d31
  have hm : 1 ≤ x.m ∧ x.m ≤ 12 := ⟨hv.1, hv.2.1⟩
  have hy : 1901 ≤ x.y ∧ x.y ≤ 2099 := ⟨hx.lo, hx.hi⟩
  have hl := leapN_le x.y
  have hwdr := wdayOf_range (dayOf x)
  rw [mem_fillYlyYcw]
  unfold ordOf wdOf
  constructor
  · rintro (h | ⟨t, ht, hc, hd0, _, he⟩)
    · cases h
    · have hwt := hr.dow t ht
      have ho := hord t ht
      generalize hyd : ycwGetYday x.y (t / 8) (t % 8).toNat = yd at *
      have sp := (ycwGetYday_spec x.y (t / 8) (t % 8).toNat (by omega) (by omega) yd).1 ⟨hyd, hd0⟩
      rw [toS32_small yd (by omega)] at he
      obtain ⟨dv, de⟩ := ydToMd_date x.y yd hy sp.1 sp.2.1
      have e := packCand_inj hm h31 ⟨dv.1, dv.2.1⟩ dv.d31 he
      rw [← e.1, ← e.2] at de
      have hdx : dayOf x = days x.y 1 1 + yd - 1 := de
      refine ⟨t, ht, hc, ?_, (nth_year x hx _ yd hdx).2 ⟨sp.1, sp.2.1, sp.2.2.2⟩⟩
      have e2 : dayOf x = days x.y 1 1 + ((yd - 1 : Nat) : Int) := by omega
      rw [e2, ← wdAdd_jan1 x.y hy, sp.2.2.1]
      omega
  · rintro ⟨t, ht, hc, hwt, hn⟩
    right
    have hwf := hr.dow t ht
    have ho := hord t ht
    have hb := days_year_bounds hv
    generalize hyd : (dayOf x - days x.y 1 1 + 1).toNat = yd
    have hdx : dayOf x = days x.y 1 1 + yd - 1 := by
      have : days x.y 1 1 ≤ dayOf x := hb.1
      omega
    obtain ⟨n1, n2, n3⟩ := (nth_year x hx _ yd hdx).1 hn
    have e2 : dayOf x = days x.y 1 1 + ((yd - 1 : Nat) : Int) := by omega
    have sp := (ycwGetYday_spec x.y (t / 8) (t % 8).toNat (by omega) (by omega) yd).2
      ⟨n1, n2, by rw [wdAdd_jan1 x.y hy, ← e2]; omega, n3⟩
    obtain ⟨dv, de⟩ := ydToMd_date x.y yd hy n1 n2
    have e := days_inj_year dv hv (by rw [de]; exact hdx.symm)
    refine ⟨t, ht, hc, by rw [sp.1]; exact sp.2, ?_, ?_⟩
    · rw [sp.1, toS32_small yd (by omega), e.1]; omega
    · rw [sp.1, toS32_small yd (by omega), e.1, e.2]

/-- `inc_md` applied `i` times -/
def iterMd (y : Nat) : Nat → Md → Md
  | 0, md => md
  | i + 1, md => incMd (iterMd y i md) y

/-- the step of the year walk of `fill_yly_yd_all` -/
def ydAllStep (y wdMask : Nat) (st : List Nat × Nat × Md) : List Nat × Nat × Md :=
  ((if bit wdMask st.2.1 then assC st.1 (packCand st.2.2.m st.2.2.d) else st.1), incWd st.2.1, incMd st.2.2 y)

/-- a walk of `n` days carrying the weekday and the date along -/
theorem foldl_wd_md (y wdMask n : Nat) (c : List Nat) (w : Nat) (md : Md) (hw : 1 ≤ w ∧ w ≤ 7) :
    ((List.range n).foldl (fun st (_ : Nat) => ydAllStep y wdMask st) (c, w, md)).2.1 = wdAdd w n ∧
    ((List.range n).foldl (fun st (_ : Nat) => ydAllStep y wdMask st) (c, w, md)).2.2 = iterMd y n md ∧
    ∀ x, x ∈ ((List.range n).foldl (fun st (_ : Nat) => ydAllStep y wdMask st) (c, w, md)).1 ↔
      x ∈ c ∨ ∃ i < n, bit wdMask (wdAdd w i) = true ∧ x = packCand (iterMd y i md).m (iterMd y i md).d := by
  induction n with
  | zero =>
    refine ⟨(wdAdd_zero w hw).symm, rfl, ?_⟩
    intro x; simp
  | succ n ih =>
    rw [List.range_succ, List.foldl_append, List.foldl_cons, List.foldl_nil]
    obtain ⟨ih1, ih2, ih3⟩ := ih
    generalize (List.range n).foldl (fun st (_ : Nat) => ydAllStep y wdMask st) (c, w, md) = st at *
    refine ⟨?_, ?_, ?_⟩
    · show incWd st.2.1 = _
      rw [ih1, wdAdd_succ]
    · show incMd st.2.2 y = _
      rw [ih2]; rfl
    · intro x
      show x ∈ (if bit wdMask st.2.1 then assC st.1 (packCand st.2.2.m st.2.2.d) else st.1) ↔ _
      rw [ih1, ih2]
      constructor
      · intro h
        split at h
        · rename_i hb
          rw [mem_assC_iff, ih3] at h
          rcases h with (h | ⟨i, hi, h⟩) | h
          · exact Or.inl h
          · exact Or.inr ⟨i, by omega, h⟩
          · exact Or.inr ⟨n, by omega, hb, h⟩
        · rcases (ih3 x).1 h with h | ⟨i, hi, h⟩
          · exact Or.inl h
          · exact Or.inr ⟨i, by omega, h⟩
      · rintro (h | ⟨i, hi, hb, h⟩)
        · split
          · rw [mem_assC_iff, ih3]; exact Or.inl (Or.inl h)
          · rw [ih3]; exact Or.inl h
        · by_cases e : i = n
          · subst e
            rw [if_pos hb, mem_assC_iff]; exact Or.inr h
          · have : x ∈ st.1 := (ih3 x).2 (Or.inr ⟨i, by omega, hb, h⟩)
            split
            · rw [mem_assC_iff]; exact Or.inl this
            · exact this

theorem iterMd_IsYd (y i : Nat) (hi : i < 365 + leapN y) : IsYd y i (iterMd y i ⟨1, 1⟩) := by
  induction i with
  | zero => unfold iterMd IsYd cumD getNdom; simp [mdays]
  | succ i ih => exact incMd_step y i _ (ih (by omega)) hi

/-- day `i + 1` of the year, found by walking, is the date with that day number -/
theorem IsYd_days (y i : Nat) (md : Md) (hy : 1901 ≤ y ∧ y ≤ 2099) (h : IsYd y i md) :
    VDs y md.m md.d ∧ days y md.m md.d = days y 1 1 + i := by
  obtain ⟨c1, c2, c3, c4, c5⟩ := h
  have j1 := jan00_doy y md.m md.d hy.1 hy.2 c1 c2
  have j2 := jan00_doy y 1 1 hy.1 hy.2 (by omega) (by omega)
  have i1 : Echse.Gen.instDoy.getD 1 0 = 0 := by decide
  have i2 : (if y % 4 = 0 ∧ 1 ≥ 3 then 1 else 0) = 0 := by simp
  rw [i1, i2] at j2
  rw [ndom_eq c1 c2 (Or.inl (by omega)) hy.2] at c4
  refine ⟨⟨c1, c2, c3, c4⟩, ?_⟩
  have e : Echse.Gen.instDoy.getD md.m 0 + md.d + (if y % 4 = 0 ∧ md.m ≥ 3 then 1 else 0) = i + 1 := by
    rw [← c5]; unfold cumD
    rcases month_cases md.m c1 c2 with h|h|h|h|h|h|h|h|h|h|h|h <;> rw [h] <;> simp [Echse.Gen.instDoy] <;> omega
  rw [e] at j1
  omega

theorem iterMd_eq (y i : Nat) (hy : 1901 ≤ y ∧ y ≤ 2099) (hi : i < 365 + leapN y) :
    iterMd y i ⟨1, 1⟩ = ydToMd y ((i + 1 : Nat) : Int) := by
  obtain ⟨v1, d1⟩ := IsYd_days y i _ hy (iterMd_IsYd y i hi)
  obtain ⟨v2, d2⟩ := ydToMd_date y (i + 1) hy (by omega) (by omega)
  have e := days_inj_year v1 v2 (by rw [d1, d2]; omega)
  generalize iterMd y i ⟨1, 1⟩ = a at *
  generalize ydToMd y ((i + 1 : Nat) : Int) = b at *
  obtain ⟨am, ad⟩ := a
  obtain ⟨bm, bd⟩ := b
  dsimp only at e
  rw [e.1, e.2]

/-- `fill_yly_yd_all` as a set: what was there, and every day of the year whose weekday is in the mask -/
theorem mem_fillYlyYdAll (cand : List Nat) (y wdMask : Nat) (hy : 1901 ≤ y ∧ y ≤ 2099) (x : Nat) :
    x ∈ fillYlyYdAll cand y wdMask ↔ x ∈ cand ∨ (wdMask >>> 1 ≠ 0 ∧ ∃ i < 365 + leapN y,
      bit wdMask (wdAdd (ymdGetWday y 1 1) i) = true ∧
      x = packCand (ydToMd y ((i + 1 : Nat) : Int)).m (ydToMd y ((i + 1 : Nat) : Int)).d) := by
  unfold fillYlyYdAll
  by_cases c0 : wdMask >>> 1 = 0
  · rw [if_pos c0]
    constructor
    · intro h; exact Or.inl h
    · rintro (h | ⟨h, _⟩)
      · exact h
      · exact absurd c0 h
  rw [if_neg c0]
  dsimp only
  have hn : (if y % 4 ≠ 0 then 365 else 366) = 365 + leapN y := by unfold leapN; split <;> simp_all
  rw [hn]
  have e : (fun (st : List Nat × Nat × Md) (_ : Nat) =>
      match st with
      | (c, w, md) => ((if bit wdMask w then assC c (packCand md.m md.d) else c), incWd w, incMd md y)) =
    (fun st (_ : Nat) => ydAllStep y wdMask st) := by
    funext st i
    obtain ⟨c, w, md⟩ := st
    rfl
  rw [e]
  refine ((foldl_wd_md y wdMask (365 + leapN y) cand _ ⟨1, 1⟩ (ymdGetWday_range y 1 1)).2.2 x).trans ?_
  apply or_congr Iff.rfl
  constructor
  · rintro ⟨i, hi, hb, he⟩
    rw [iterMd_eq y i hy hi] at he
    exact ⟨c0, i, hi, hb, he⟩
  · rintro ⟨_, i, hi, hb, he⟩
    rw [← iterMd_eq y i hy hi] at he
    exact ⟨i, hi, hb, he⟩

/-- every day of the year on the weekdays of the mask, for a date `x` -/
theorem mem_ydall_date (cand : List Nat) (wdMask : Nat) (x : Inst) (hx : DateIn x) :
    packCand x.m x.d ∈ fillYlyYdAll cand x.y wdMask ↔
      packCand x.m x.d ∈ cand ∨ (wdMask >>> 1 ≠ 0 ∧ bit wdMask (wdayOf (dayOf x)) = true) := by
  have hv := hx.v
  have h31 := hv.d31
  have hm : 1 ≤ x.m ∧ x.m ≤ 12 := ⟨hv.1, hv.2.1⟩
  have hy : 1901 ≤ x.y ∧ x.y ≤ 2099 := ⟨hx.lo, hx.hi⟩
  rw [mem_fillYlyYdAll cand x.y wdMask hy]
  apply or_congr Iff.rfl
  apply and_congr Iff.rfl
  constructor
  · rintro ⟨i, hi, hb, he⟩
    obtain ⟨dv, de⟩ := ydToMd_date x.y (i + 1) hy (by omega) (by omega)
    have e := packCand_inj hm h31 ⟨dv.1, dv.2.1⟩ dv.d31 he
    rw [← e.1, ← e.2] at de
    have hdx : dayOf x = days x.y 1 1 + i := by
      have : dayOf x = days x.y 1 1 + ((i + 1 : Nat) : Int) - 1 := de
      omega
    rw [hdx, ← wdAdd_jan1 x.y hy]; exact hb
  · intro hb
    have hbd := days_year_bounds hv
    rw [days_dec31 x.y hy] at hbd
    generalize hi : (dayOf x - days x.y 1 1).toNat = i
    have hdx : dayOf x = days x.y 1 1 + i := by
      have : days x.y 1 1 ≤ dayOf x := hbd.1
      omega
    have hil : i < 365 + leapN x.y := by
      have : dayOf x ≤ days x.y 1 1 + 364 + (leapN x.y : Nat) := hbd.2
      omega
    obtain ⟨dv, de⟩ := ydToMd_date x.y (i + 1) hy (by omega) (by omega)
    have e := days_inj_year dv hv (by
      rw [de]
      have : dayOf x = days x.y x.m x.d := rfl
      omega)
    refine ⟨i, hil, ?_, by rw [e.1, e.2]⟩
    rw [wdAdd_jan1 x.y hy, ← hdx]; exact hb
end Echse.Lemmas.RrCandRfc
