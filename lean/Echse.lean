import Echse.Model.Bitint
