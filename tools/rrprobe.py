#!/usr/bin/env python3
"""tools/rrprobe.py [--freq F] [--seed N] [--cases N] [--pops N] [--rule TEXT --ds DTSTART] [--max-ex K]
Differential probe of echse's rule streams against the RFC 5545 reference expander (vlib/rfc5545.py).
The source tree is $ECHSE_REPO (default /repo).  Prints one line per failing rule shape with an example."""
import argparse
import os
import random
import sys

sys.path.insert(0, os.path.dirname(os.path.dirname(os.path.abspath(__file__))))
from vlib import common, p_strm, p_rr, rrgen, rfc5545   # noqa: E402


def parse_rule(text):
    r = rfc5545.Rule("DAILY")
    for kv in text.split(";"):
        k, _, v = kv.partition("=")
        if k == "FREQ":
            r.freq = v
        elif k == "INTERVAL":
            r.interval = int(v)
        elif k == "COUNT":
            r.count = int(v)
        elif k == "UNTIL":
            r.until = (int(v[:4]), int(v[4:6]), int(v[6:8])) + ((None, None, None) if len(v) < 15 else (int(v[9:11]), int(v[11:13]), int(v[13:15])))
        elif k == "BYDAY":
            for x in v.split(","):
                r.byday.append((int(x[:-2]) if x[:-2] else 0, rfc5545.WD.index(x[-2:])))
        else:
            attr = {"BYMONTH": "bymonth", "BYWEEKNO": "byweekno", "BYYEARDAY": "byyearday", "BYMONTHDAY": "bymonthday",
                    "BYHOUR": "byhour", "BYMINUTE": "byminute", "BYSECOND": "bysecond", "BYSETPOS": "bysetpos"}[k]
            setattr(r, attr, [int(x) for x in v.split(",")])
    return r


def parse_ds(v):
    return (int(v[:4]), int(v[4:6]), int(v[6:8])) + ((None, None, None) if len(v) < 15 else (int(v[9:11]), int(v[11:13]), int(v[13:15])))


def main():
    ap = argparse.ArgumentParser()
    ap.add_argument("--freq")
    ap.add_argument("--seed", type=int, default=1)
    ap.add_argument("--cases", type=int, default=300)
    ap.add_argument("--pops", type=int, default=150)
    ap.add_argument("--rule")
    ap.add_argument("--ds")
    ap.add_argument("--max-ex", type=int, default=1)
    ap.add_argument("--timeout", type=float, default=10)
    a = ap.parse_args()
    ctx = common.Ctx("C01", "quick", a.seed)
    ctx.prepare()
    try:
        exe = p_strm.build(ctx)
        rng = random.Random(a.seed)
        if a.rule:
            cases = [(parse_ds(a.ds or "20200101T080000"), parse_rule(a.rule))]
        else:
            cases = []
            for _ in range(a.cases):
                ds = rrgen.gen_dtstart(rng)
                cases.append((ds, rrgen.gen_rule(rng, ds, freq=a.freq)))
        res, st, err = p_rr.run_cases(ctx, exe, cases, a.pops, timeout=a.timeout)
        if a.rule:
            r = res[0]
            print("struct :", r["struct"])
            print("impl   :", r["got"][:40] if not isinstance(r["got"], str) else r["got"], "ended" if r["gend"] else "")
            print("rfc5545:", r["exp"][:40], r["why"])
            print("verdict:", r["verdict"] or "agree")
            return 1 if r["verdict"] else 0
        bad, ex = p_rr.summarize(res)
        print("%d cases, %d disagree with RFC 5545 (harness: %s)" % (len(res), sum(bad.values()), st))
        for sh, c in bad.most_common():
            for r in ex[sh][:a.max_ex]:
                print("%3d %-28s DTSTART:%s RRULE:%s :: %s" % (c, sh, rrgen.dtstart_text(r["ds"]), r["rule"].text(), r["verdict"][:230]))
        return 1 if bad else 0
    finally:
        ctx.cleanup()


if __name__ == "__main__":
    sys.exit(main())
