"""C16 — occurrence streams are ordered and bounded for every rule, extensions included.

No reference expander is needed here: the invariants are checked on the implementation's own output.
Generated events over the full accepted language (RFC parts plus SHIFT, BYEASTER, SCALE=HIJRI, TZID) are followed for
thousands of occurrences through the real parser and rule stream; every stream must be strictly increasing, never
before DTSTART, never after UNTIL, never longer than COUNT.  Streams without zone and scale also go through the Lean
stream model (Echse.Model.RrStrm: refill / pop), which is what the C16 theorems are about.
"""
import collections
import re
import datetime as dt

from . import common, p_strm, p_rr, p_rrfill, rfc5545, rrgen
from .common import hex16, unhex16
from .p_C08 import okey

ZONES = ["Europe/Berlin", "America/New_York", "Asia/Kolkata", "Australia/Sydney", "Pacific/Auckland", "America/Sao_Paulo", "UTC"]


def gen_ext(rng, r, ds):
    """extension parts for a rule (text suffix) and the classes they put the rule in"""
    parts, cls = [], set()
    z = rng.random()
    if r.freq in ("YEARLY", "MONTHLY") and z < 0.35:
        sh = rng.choice(["1", "-1", "7", "-16", "30", "70", "-200", "366", "-366", "1B", "-1B", "0B", "-0B", "1B+", "-1B-", "5B", "-4B",
                         "-16,0B", "2,1B", "%d" % rng.randint(-366, 366), "%dB" % rng.randint(-60, 60)])
        parts.append("SHIFT=" + sh)
        cls.add("shift")
    if r.freq == "YEARLY" and rng.random() < 0.15:
        parts.append("BYEASTER=" + ",".join(str(rng.choice([0, 1, -2, 39, 49, rng.randint(-120, 250)])) for _ in range(rng.randint(1, 3))))
        cls.add("easter")
    if r.freq in ("YEARLY", "MONTHLY", "WEEKLY", "DAILY") and rng.random() < 0.12 and not r.byweekno and not r.byyearday:
        parts.append("SCALE=HIJRI")
        cls.add("hijri")
    return (";" + ";".join(parts)) if parts else "", cls


def run(ctx):
    rng = ctx.rng
    thorough = ctx.tier == "thorough"
    exe = p_strm.build(ctx)
    ncases = 1500 if thorough else 300
    npop = 3000 if thorough else 1200
    cases = []
    for i in range(ncases):
        zoned = rng.random() < 0.2
        ds = rrgen.gen_dtstart(rng, allday=False if zoned else None, lo=1975 if zoned else 1902, hi=2030 if zoned else 2090)
        r = rrgen.gen_rule(rng, ds, big_times=(i % 12 == 11))
        ext, cls = gen_ext(rng, r, ds)
        if i % 9 == 4 and not zoned:
            # shifted dates of neighbouring periods that meet on one day: month ends and starts under business-day shifts
            r = rfc5545.Rule(rng.choice(["MONTHLY", "MONTHLY", "YEARLY"]))
            r.bymonthday = sorted(set(rng.sample([1, 2, 3, -1, -2, -3, 28, 29, 30, 31], rng.randint(2, 4))))
            if r.freq == "YEARLY":
                m0 = rng.randint(1, 11)
                r.bymonth = [m0, m0 + 1]
            if ds[3] is not None and rng.random() < 0.4:
                r.byhour = sorted(set(rng.sample(range(24), 2)))
            if rng.random() < 0.3:
                r.count = rng.choice([10, 100, 400])
            ext = ";SHIFT=" + rng.choice(["0B", "1B", "-0B", "-1B", "2B", "-2B", "1B+", "-1B-", "3B", "1,0B", "-1,-0B"])
            cls = {"shift", "meeting-shift"}
        if i % 11 == 7 and not zoned and r.freq in ("YEARLY", "MONTHLY") and not r.byweekno and not r.byyearday:
            # SHIFT reckoned in a Hijri scale: month lengths and weekdays are the scale's
            ext = ";SHIFT=%s;SCALE=%s" % (rng.choice(["1", "-1", "7", "-16", "30", "70", "-200", "1B", "-1B", "0B", "-0B", "1B+", "-1B-", "5B",
                                                      "-4B", "2,1B", "%d" % rng.randint(-366, 366), "%dB" % rng.randint(-60, 60)]),
                                             rng.choice(["HIJRI", "HIJRI.IA", "HIJRI.IIC", "HIJRI.DIYANET", "HIJRI.IVA"]))
            cls = {"shift", "hijri", "hijri-shift"}
        if i % 19 == 8 and not zoned:
            # weekdays of given months of a Hijri year
            r = rfc5545.Rule("YEARLY")
            r.bymonth = sorted(rng.sample(range(1, 13), rng.randint(1, 3)))
            r.byday = [(0, w) for w in sorted(rng.sample(range(7), rng.randint(1, 3)))]
            if rng.random() < 0.4:
                r.count = rng.choice([10, 70, 200])
            ext, cls = ";SCALE=%s" % rng.choice(["HIJRI", "HIJRI.IA", "HIJRI.IIA", "HIJRI.IIC", "HIJRI.IVA", "HIJRI.DIYANET"]), {"hijri", "hijri-month-weekday"}
        if i % 13 == 6 and not zoned:
            # the Hijri scales under the daily and weekly fillers, with a time-of-day expansion
            r = rrgen.gen_rule(rng, ds, freq=rng.choice(["DAILY", "WEEKLY", "DAILY"]))
            r.byyearday, r.byweekno = [], []
            if ds[3] is not None and not (r.byhour or r.byminute or r.bysecond):
                r.byhour = sorted(set(rng.sample(range(24), 2)))
            ext, cls = ";SCALE=%s" % rng.choice(["HIJRI", "HIJRI.IA", "HIJRI.IIC", "HIJRI.IVA"]), {"hijri", "hijri-daily"}
        zone = rng.choice(ZONES) if zoned else None
        if i % 7 == 3:
            # sub-hourly rules in a zone, starting a day or two before a change of the clocks: local times that do not
            # exist or exist twice, somewhere relative to the refills
            zone = rng.choice(["Europe/Berlin", "America/New_York", "Australia/Sydney", "America/Sao_Paulo"])
            tr = {"Europe/Berlin": [(2024, 3, 31), (2024, 10, 27), (2019, 3, 31)], "America/New_York": [(2024, 3, 10), (2024, 11, 3)],
                  "Australia/Sydney": [(2024, 4, 7), (2024, 10, 6)], "America/Sao_Paulo": [(2018, 11, 4), (2019, 2, 17)]}[zone]
            y_, m_, d_ = rng.choice(tr)
            back = rng.choice([0, 1, 1, 2])
            d0 = dt.date(y_, m_, d_) - dt.timedelta(days=back)
            # (back = 0: DTSTART itself in the hours of the change, on a local time that does not exist or exists twice)
            ds = (d0.year, d0.month, d0.day, rng.randint(0, 23) if back else rng.randint(0, 3), rng.choice([0, 15, 30, 45, rng.randint(0, 59)]), 0)
            if not back and rng.random() < 0.7:
                # ... on a local time that does not exist
                gy, gm, gd, gh = {"Europe/Berlin": (2024, 3, 31, 2), "America/New_York": (2024, 3, 10, 2), "Australia/Sydney": (2024, 10, 6, 2),
                                  "America/Sao_Paulo": (2018, 11, 4, 0)}[zone]
                ds = (gy, gm, gd, gh) + ds[4:]
            r = rfc5545.Rule(rng.choice(["MINUTELY", "MINUTELY", "HOURLY"]))
            r.interval = rng.choice([10, 15, 20, 30, 45]) if r.freq == "MINUTELY" else 1
            if rng.random() < 0.3:
                r.count = rng.choice([70, 130, 200])
            ext, cls = "", {"dst-subhourly"}
        if i % 17 == 5:
            # UNTIL (UTC) within the hours around a change of the clocks, the rule running in local time across it
            import zoneinfo
            zone = rng.choice(["Europe/Berlin", "America/New_York", "Australia/Sydney", "Europe/London"])
            tr = {"Europe/Berlin": [(2020, 3, 29), (2020, 10, 25), (2024, 10, 27)], "America/New_York": [(2024, 3, 10), (2024, 11, 3)],
                  "Australia/Sydney": [(2024, 4, 7), (2024, 10, 6)], "Europe/London": [(2021, 3, 28), (2021, 10, 31)]}[zone]
            y_, m_, d_ = rng.choice(tr)
            d0 = dt.date(y_, m_, d_) - dt.timedelta(days=rng.choice([1, 2, 3]))
            ds = (d0.year, d0.month, d0.day, rng.randint(0, 3), rng.choice([0, 15, 30, 45]), 0)
            r = rfc5545.Rule(rng.choice(["DAILY", "MINUTELY", "HOURLY", "DAILY"]))
            r.interval = rng.choice([15, 30]) if r.freq == "MINUTELY" else 1
            u = dt.datetime(y_, m_, d_, tzinfo=zoneinfo.ZoneInfo(zone)).astimezone(dt.timezone.utc) + dt.timedelta(minutes=rng.choice([0, 30, 50, 65, 90, 125, 150, 185, 245]))
            r.until = (u.year, u.month, u.day, u.hour, u.minute, 0)
            ext, cls = "", {"dst-until"}
        if "hijri" in cls:
            # a DTSTART the Hijri table covers, rule parts that exist on that scale
            ds = (rng.randint(1995, 2030),) + ds[1:]
            if ds[2] > 28:
                ds = ds[:2] + (28,) + ds[3:]
            r.byday = [(0, w) for _, w in r.byday]
            r.bymonthday = [d for d in r.bymonthday if abs(d) <= 29]
        cases.append((ds, r, ext, cls, zone))
    texts = [r.text() + ext for ds, r, ext, cls, zone in cases]
    structs, st, err = ctx.impl(exe, ["r.parse " + t.encode().hex() for t in texts])
    ops = []
    for i, (ds, r, ext, cls, zone) in enumerate(cases):
        ops.append("r.strm %s | from=%s%s n=%d" % (structs[i], p_rrfill.proto_hex(ds), " zone=%s" % zone if zone else "", npop))
    impl, st, err = ctx.impl(exe, ops, timeout=600)
    # DTSTART as an instant the way echse converts it (a local time that does not exist has no instant of its own in the
    # zone database; which one it is taken for is C07's business): the only occurrence of FREQ=DAILY;COUNT=1
    one, _, _ = ctx.impl(exe, ["r.parse " + "FREQ=DAILY;COUNT=1".encode().hex()])
    zidx = [i for i, c in enumerate(cases) if c[4]]
    zans, _, _ = ctx.impl(exe, ["r.strm %s | from=%s zone=%s n=1" % (one[0], p_rrfill.proto_hex(cases[i][0]), cases[i][4]) for i in zidx])
    own_start = {i: unhex16(a.split(",")[0])[:6] for i, a in zip(zidx, zans) if len(a.split(",")[0]) == 16}
    # two fixed events at the end of a Hijri table's coverage: the calendar ends the stream there, not before
    edge = [("BEGIN:VCALENDAR\nCALSCALE:HIJRI.DIYANET\nBEGIN:VEVENT\nUID:a\nSUMMARY:a\nDTSTART;VALUE=DATE:20221201\nRRULE:FREQ=DAILY;COUNT=40\nEND:VEVENT\nEND:VCALENDAR\n", 23,
             "a daily rule printed in HIJRI.DIYANET from 2022-12-01 (the table ends 2022-12-23)"),
            ("BEGIN:VCALENDAR\nBEGIN:VEVENT\nUID:b\nSUMMARY:b\nDTSTART;VALUE=DATE:20220802\nRRULE:FREQ=MONTHLY;SCALE=HIJRI.DIYANET;UNTIL=20221224\nEND:VEVENT\nEND:VCALENDAR\n", 5,
             "a monthly HIJRI.DIYANET rule whose UNTIL lies a day behind the table's end")]
    eout, _, _ = ctx.impl(exe, ["p.occ %s 60" % c.encode().hex() for c, _, _ in edge])
    edge_fails = []
    for k, (c, n_, what) in enumerate(edge):
        got = len(re.findall(r"[0-9a-f]{16}\+\d+", eout[k] if k < len(eout) else ""))
        if got != n_:
            edge_fails.append(("p.occ", "%s: %d occurrences, the table covers %d" % (what, got, n_)))
    plain = [i for i, c in enumerate(cases) if not c[4] and "hijri" not in c[3]]
    mops = [ops[i].replace("n=%d" % npop, "n=400") for i in plain]
    mimpl, st2, err2 = ctx.impl(exe, mops, timeout=600)
    model = ctx.model(mops)
    corr = [d for d in common.diff_lines(mops, mimpl, model) if d[3] != "unmodelled"]
    unmodelled = sum(1 for m in model if m == "unmodelled")
    fails = list(edge_fails)
    known = collections.Counter()
    total, longest, refills = 0, 0, 0
    clsc = collections.Counter()
    for i, (ds, r, ext, cls, zone) in enumerate(cases):
        a = impl[i] if i < len(impl) else "<no answer>"
        for c in cls or {"rfc"}:
            clsc[c] += 1
        if zone:
            clsc["zoned"] += 1
        name = "DTSTART%s:%s RRULE:%s" % (";TZID=" + zone if zone else "", rrgen.dtstart_text(ds), texts[i])
        if a.startswith("<"):
            fails.append((ops[i], "%s : %s" % (name, a[:200])))
            continue
        inst = [unhex16(x) for x in a.split(",") if len(x) == 16]
        ended = a.endswith("-")
        total += len(inst)
        longest = max(longest, len(inst))
        refills += len(inst) // 63
        keys = [okey(t) for t in inst]
        why = None
        for j in range(1, len(keys)):
            if not keys[j - 1] < keys[j]:
                why = "occurrence %d (%s) does not come after occurrence %d (%s)" % (j, inst[j][:6], j - 1, inst[j - 1][:6])
                break
        if why is None and r.count is not None and len(inst) > r.count:
            why = "%d occurrences, COUNT=%d" % (len(inst), r.count)
        if why is None and inst and not zone:
            start = okey((ds[0], ds[1], ds[2], 255, 0, 0, 0) if ds[3] is None else (ds[0], ds[1], ds[2], ds[3], ds[4], ds[5], 1023))
            if keys[0] < start:
                why = "first occurrence %s lies before DTSTART" % (inst[0][:6],)
            if why is None and r.until is not None:
                u = r.until
                uk = okey((u[0], u[1], u[2], 255, 0, 0, 0) if u[3] is None else (u[0], u[1], u[2], u[3], u[4], u[5], 1023))
                if keys[-1] > uk and not (u[3] is None and inst[-1][:3] == u[:3]):
                    why = "last occurrence %s lies after UNTIL" % (inst[-1][:6],)
        if why is None and zone and inst:
            # zoned: compare in UTC against DTSTART converted by the system's zone data
            import zoneinfo
            z = zoneinfo.ZoneInfo(zone)
            s_utc = dt.datetime(*ds[:6], tzinfo=z).astimezone(dt.timezone.utc)
            s6 = (s_utc.year, s_utc.month, s_utc.day, s_utc.hour, s_utc.minute, s_utc.second)
            exists = dt.datetime(*ds[:6], tzinfo=z).astimezone(dt.timezone.utc).astimezone(z).replace(tzinfo=None) == dt.datetime(*ds[:6])
            if not exists:
                clsc["dtstart-in-gap"] += 1
                s6 = own_start.get(i, s6)
            elif ds[0] >= 2038 and own_start.get(i, s6) != s6:
                # behind the end of the 32-bit zone table in a zone whose rules go on: which instant that is, is C07's business
                # too (recorded there as D190); the stream is judged against DTSTART as echse converts it
                clsc["dtstart-after-2037-in-zone-with-later-rules"] += 1
                s6 = own_start[i]
            if inst[0][:6] < s6:
                why = "first occurrence %s lies before DTSTART (%s UTC)" % (inst[0][:6], s_utc)
        if why is None and zone and inst and r.until is not None and r.until[3] is not None:
            # with a zone UNTIL is in UTC, as the occurrences are
            if inst[-1][:6] > r.until[:6]:
                why = "last occurrence %s UTC lies after UNTIL %s UTC" % (inst[-1][:6], r.until[:6])
        if why is None and not zone and "hijri" in cls and r.byday and not (cls & {"shift", "easter"}) and all(o == 0 for o, _ in r.byday):
            # whatever the scale of the rule, BYDAY names weekdays, and a Hijri date's weekday is that of its Gregorian image (C15)
            ok = {w for _, w in r.byday}
            for j, x in enumerate(inst):
                if dt.date(*x[:3]).weekday() not in ok:
                    why = "occurrence %d (%s, a %s) is not on one of the rule's BYDAY weekdays" % (j, x[:3], dt.date(*x[:3]).strftime("%A"))
                    break
        if why is None and r.count is not None and not ended and len(inst) == r.count and r.count < npop:
            why = "stream does not end after COUNT=%d occurrences" % r.count
        if why:
            fails.append((ops[i], "%s : %s" % (name, why)))
    kl = common.load_known("C16")
    for k in kl:
        if k.get("status") == "known" and known.get(k.get("class"), 0):
            ctx.known(k["what"])
    ctx.cov.update({
        "evaluations": len(ops) + len(mops),
        "distinct_nontrivial": len(set(ops)) + len(set(mops)),
        "traces_validated_against_impl": len(mops) - len(corr) - unmodelled,
        "rule": "generated events over the accepted language: every frequency, INTERVAL, COUNT, UNTIL, all BYxxx parts, BYSETPOS, "
                "time-of-day expansions up to 24x60x60, plus SHIFT (days, business days, both), BYEASTER lists, SCALE=HIJRI, "
                "DTSTART with TZID in seven zones; each stream followed for up to %d occurrences; checked on the implementation's "
                "output: strictly increasing, not before DTSTART, not after UNTIL, at most COUNT, ends after COUNT; streams without "
                "zone/scale also replayed in the Lean stream model; non-trivial = all" % npop,
        "samples": ["%s%s" % (rrgen.dtstart_text(c[0]), " " + texts[i]) for i, c in ((i, cases[i]) for i in sorted(rng.sample(range(len(cases)), 4)))],
        "occurrences_checked": total,
        "longest_stream": longest,
        "refills_crossed": refills,
        "rules_per_class": dict(clsc),
        "ops_not_modelled": unmodelled,
        "impl_vs_spec_failures": len(fails),
        "impl_vs_model_differences": len(corr),
        "exhaustive": False,
    })
    ctx.assumptions += ["order of instants as echs_instant_lt_p / C08 define it (all-day before timed instants of the same day)",
                        "zoned DTSTART converted with the system's zone database for the DTSTART bound"]
    if fails:
        op, why = fails[0]
        ctx.violation("property", why, {"op": op, "failures_total": len(fails), "more": [w[:300] for _, w in fails[1:6]]})
    elif corr:
        i, op, a, b = corr[0]
        ctx.violation("correspondence", "implementation and stream model differ in %d streams; first: %s -> impl %s, model %s" % (
            len(corr), op[:200], a[:160], b[:160]), {"correspondence": "Echse.Model.RrStrm vs evical.c refill/next_evrrul", "op": op,
                                                      "impl": a, "model": b}, found_input=False)


def replay(ctx, rep):
    exe = p_strm.build(ctx)
    op = rep["data"].get("op")
    out, st, _ = ctx.impl(exe, [op], timeout=600)
    a = out[0] if out else st
    inst = [unhex16(x) for x in a.split(",") if len(x) == 16]
    keys = [okey(t) for t in inst]
    bad = [j for j in range(1, len(keys)) if not keys[j - 1] < keys[j]]
    print("%d occurrences, order violations at %s; was: %s" % (len(inst), bad[:5], rep.get("what")))
    return 1 if bad or a.startswith("<") else 0
