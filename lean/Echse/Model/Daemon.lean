/-
  Model of the scheduling core of src/echsd.c: the task table as a map UID → task record,
  `_inject_task1` / `_eject_task1` (ownership rules), `cmd_ical` replies, `resched` / `unwind_till`,
  one event-loop iteration under the libev contract of DESIGN.md Appendix B, `task_cb` / `run_task`
  (supervised vs `--no-run` decision), `chld_cb`, `unsched`, the dirty-user list and `chkpnt`.

  Abstractions (recorded in DESIGN.md §4):
  * a task's recurrence stream is the list of its remaining occurrence time stamps (seconds since the
    epoch); parsing and RRULE expansion belong to C01/C05, the correspondence run hands the model the list
    the generator built the event from;
  * UIDs are strings, the 32-bit hash key and the open-addressing table are not modelled (findings D28/D29);
  * a `_task_s` is identified by a fresh number (`sid`); child watchers refer to it;
  * a queue file is the list of UIDs it holds; the byte level (serialisation, write boundaries) is C05's.
  Hand transcription tied to the C code by vlib/p_echsd.py through harness/hx_echsd.c.
-/
namespace Echse.Daemon

def notAUid : Nat := 4294967295
def unlimited : Nat := 63

structure DTask where
  sid : Nat
  uid : String
  owner : Nat
  occ : List Nat          -- remaining stream, ascending
  dur : Nat               -- duration of every occurrence, ms
  maxSimul : Nat          -- 63 = no limit
  cur : Nat := 0          -- armed occurrence (0 = nul)
  nrun : Nat := 0
  nsim : Nat := 0
  resched : Bool := true  -- w.reschedule_cb != NULL
  cbUnsched : Bool := false
  due : Option Nat := none -- `at` of the watcher; none = now + 1e30
  active : Bool := false  -- periodic watcher started
  seq : Nat := 0
  inTable : Bool := true  -- false: cancelled while children were running
deriving Repr, Inhabited

structure Child where
  sid : Nat
  live : Bool
deriving Repr

structure Spawn where
  uid : String
  nd : Bool
  durS : Nat
  asUid : Nat
deriving Repr

structure St where
  me : Nat                         -- meself.uid
  users : List Nat := [0, 1001, 1002, 1003, 1004] ++ (List.range 40).map (· + 2001)   -- the password database of the harness
  now : Nat := 0
  tasks : List DTask := []
  nextSid : Nat := 0
  perseq : Nat := 0
  children : List Child := []
  dirty : List Nat := []           -- chkpnts[0..ichkpnts)
  files : List (Nat × List DTask) := []    -- echsq_<uid>.ics ↦ snapshot of the tasks written
  spawnFail : Bool := false
deriving Repr

def St.find (s : St) (uid : String) : Option DTask := s.tasks.find? (fun t => t.inTable && t.uid == uid)
def St.upd (s : St) (t : DTask) : St := { s with tasks := s.tasks.map fun x => if x.sid == t.sid then t else x }
def St.del (s : St) (sid : Nat) : St := { s with tasks := s.tasks.filter (·.sid != sid) }

def addChkpnt (s : St) (u : Nat) : St := if s.dirty.length < 16 then { s with dirty := s.dirty ++ [u] } else s

/-- `resched(w, now)`: returns the task with its new `at` in `due` -/
def resched (t : DTask) (now : Nat) : DTask :=
  let occ := t.occ.dropWhile (· < now)          -- unwind_till
  match occ with
  | [] =>
    if t.nrun = 0 then { t with occ := [], resched := false, cbUnsched := true, cur := 0, due := some now }
    else { t with occ := [], resched := false, cur := 0, due := none }
  | e :: _ => { t with occ := occ, cur := e, nrun := t.nrun + 1, due := some e }

/-- `ev_periodic_start` -/
def startPeriodic (s : St) (t : DTask) : St × DTask :=
  let t := resched t s.now
  ({ s with perseq := s.perseq + 1 }, { t with active := true, seq := s.perseq })

/-- `unsched` -/
def unsched (s : St) (t : DTask) : St := (addChkpnt s t.owner).del t.sid

/-- the limit test shared by `task_cb` and `run_task` -/
def mayRun (t : DTask) : Bool := t.maxSimul ≥ unlimited || t.nsim < t.maxSimul

def durSecs (ms : Nat) : Nat := ms / 1000 + (if ms % 1000 ≠ 0 then 1 else 0)

/-- `task_cb`: returns the new state and the spawn it made (if the spawn succeeded) -/
def taskCb (s : St) (t : DTask) : St × List Spawn :=
  let sp : Spawn := { uid := t.uid, nd := !mayRun t, durS := durSecs t.dur, asUid := t.owner }
  let (s, t, sps) :=
    if mayRun t then
      if s.spawnFail then (s, t, [])
      else
        let t := { t with nsim := t.nsim + 1 }
        let s : St := { s with children := s.children ++ [({ sid := t.sid, live := true } : Child)] }
        (s.upd t, t, [sp])
    else (s, t, if s.spawnFail then [] else [sp])
  if !t.resched && t.nsim == 0 then (unsched s t, sps) else (s, sps)

/-- one loop iteration at time `now` (periodics_reify, then the pending callbacks in the same order) -/
def reify (now : Nat) : Nat → St → List Nat → St × List Nat
  | 0, s, pend => (s, pend)
  | fuel+1, s, pend =>
    let due := s.tasks.filter fun t => t.active && !(pend.contains t.sid) &&
      (match t.due with | some a => a < now | none => false)
    match due with
    | [] => (s, pend)
    | d :: ds =>
      let top := ds.foldl (fun (b : DTask) (t : DTask) =>
        if t.due.getD 0 < b.due.getD 0 || (t.due.getD 0 == b.due.getD 0 && t.seq < b.seq) then t else b) d
      let top' := if top.resched then resched top now else { top with active := false }
      reify now fuel (s.upd top') (pend ++ [top.sid])

/-- the pending periodic callbacks of one iteration, in order; a watcher stopped meanwhile (`active = false`
with no `cbUnsched`… i.e. no longer in the task list, or stopped by `unsched`) has its pending callback cleared -/
def runPending (s : St) (pend : List Nat) : St × List Spawn :=
  pend.foldl (fun (acc : St × List Spawn) sid =>
    let (s, sps) := acc
    match s.tasks.find? (·.sid == sid) with
    | none => (s, sps)
    | some t =>
      if !t.inTable then (s, sps)
      else if t.cbUnsched then
        -- `unsched`: with children still running only the watcher is stopped
        (if t.nsim ≠ 0 then s.upd { t with active := false } else unsched s { t with active := false }, sps)
      else
        let (s', sp) := taskCb s t
        (s', sps ++ sp)) (s, [])

def tick (s : St) (now : Nat) : St × List Spawn :=
  let s := { s with now := now }
  let (s, pend) := reify now (s.tasks.length + 1) s []
  runPending s pend

/-- libev's `periodics_reschedule()`: after a step of the wall clock (`time_update` sees real time run away from
the monotonic clock) every periodic that still has its reschedule callback is asked again, with the new time and with
no callback to follow -/
def reschedAll (s : St) (now : Nat) : St :=
  s.tasks.foldl (fun (s : St) (t : DTask) =>
    match s.tasks.find? (·.sid == t.sid) with
    | some t => if t.active && t.resched then s.upd (resched t now) else s
    | none => s) s

/-- a loop iteration that begins with a step of the wall clock to `now` -/
def jump (s : St) (now : Nat) : St × List Spawn :=
  tick (reschedAll { s with now := now } now) now

/-- `chld_cb` for the k-th child watcher ever started; `pend` = watchers whose callback is pending in this
loop iteration (`ev_is_pending`) -/
def childExitPending (s : St) (k : Nat) (pend : List Nat) : St × Bool :=
  match s.children[k]? with
  | none => (s, false)
  | some c =>
    if !c.live then (s, false) else
    let s : St := { s with children := s.children.zipIdx.map fun ((c : Child), (i : Nat)) => if i == k then ({ c with live := false } : Child) else c }
    match s.tasks.find? (·.sid == c.sid) with
    | none => (s, true)
    | some t =>
      let t := { t with nsim := t.nsim - 1 }
      if !t.inTable then (if t.nsim == 0 then s.del t.sid else s.upd t, true)
      else if !t.resched && t.nsim == 0 && !(pend.contains t.sid) then (unsched (s.upd t) t, true)
      else (s.upd t, true)

def childExit (s : St) (k : Nat) : St × Bool := childExitPending s k []

/-! ### client requests -/

inductive Instr where
  | sched (uid : String) (owner : Option Nat) (maxSimul : Nat) (dur : Nat) (occ : List Nat) (isTask : Bool)
  | cancel (uid : String)
deriving Repr

/-- `compl_uid` -/
def complUid (s : St) (u : Nat) : Nat := if u ≠ notAUid ∧ s.users.contains u then u else notAUid

/-- `_inject_task1(t, u)`; `true` = success -/
def inject (s : St) (uid : String) (owner : Option Nat) (maxSimul dur : Nat) (occ : List Nat) (isTask : Bool)
    (u : Nat) : St × Bool :=
  let oc := match owner with | some o => complUid s o | none => notAUid
  let uc := complUid s u
  -- a peer that is given but unknown to the password database is refused; `notAUid` itself means "no peer" (reload)
  if u ≠ notAUid ∧ uc = notAUid then (s, false)
  else if uc = notAUid ∧ oc = notAUid then (s, false)
  else if uc = notAUid ∧ s.me ≠ 0 ∧ oc ≠ s.me then (s, false)
  else if oc = notAUid ∧ s.me ≠ 0 ∧ uc ≠ s.me then (s, false)
  else if uc ≠ notAUid ∧ oc ≠ notAUid ∧ oc ≠ uc then (s, false)
  else
    let oc := if oc = notAUid then uc else oc
    let uc := if uc = notAUid then oc else uc
    if !isTask || uid == "" then (s, false)     -- not a task, or `!t->oid`: nothing to file it under (no usable UID)
    else
      match s.find uid with
      | some old =>
        if old.owner ≠ oc then (s, false)
        else
          -- replace: the `_task_s` is reused, `nsim` kept, `nrun` reset
          let t : DTask := { old with owner := uc, occ := occ, dur := dur, maxSimul := maxSimul, nrun := 0,
                                      resched := true, cbUnsched := false, active := false }
          let (s, t) := startPeriodic s t
          (s.upd t, true)
      | none =>
        let t : DTask := { sid := s.nextSid, uid := uid, owner := uc, occ := occ, dur := dur, maxSimul := maxSimul }
        let s := { s with nextSid := s.nextSid + 1 }
        let (s, t) := startPeriodic s t
        ({ s with tasks := s.tasks ++ [t] }, true)

/-- `_eject_task1(oid, uid)` -/
def eject (s : St) (uid : String) (u : Nat) : St × Bool :=
  match s.find uid with
  | none => (s, false)
  | some t =>
    if t.owner ≠ u then (s, false)
    else if t.nsim ≠ 0 then (s.upd { t with active := false, inTable := false, resched := false }, true)
    else (s.del t.sid, true)

/-- `cmd_ical`: one reply per instruction; the peer is marked dirty when anything succeeded -/
def cmdIcal (s : St) (peer : Nat) (ins : List Instr) : St × List (String × Bool) :=
  let (s, rps) := ins.foldl (fun (acc : St × List (String × Bool)) i =>
    let (s, rps) := acc
    match i with
    | .sched uid owner ms dur occ isTask =>
      let (s, ok) := inject s uid owner ms dur occ isTask peer
      (s, rps ++ [(uid, ok)])
    | .cancel uid =>
      let (s, ok) := eject s uid peer
      (s, rps ++ [(uid, ok)])) (s, [])
  (if rps.any (·.2) then addChkpnt s peer else s, rps)

/-! ### checkpoint, crash, reload -/

/-- what `echs_task_icalify` writes for user `u`: the tasks in the table whose stream is not exhausted -/
def tasksOf (s : St) (u : Nat) : List DTask := s.tasks.filter fun t => t.inTable && t.owner == u && !t.occ.isEmpty

def setFile (files : List (Nat × List DTask)) (u : Nat) (c : List DTask) : List (Nat × List DTask) :=
  if files.any (·.1 == u) then files.map fun f => if f.1 == u then (u, c) else f else files ++ [(u, c)]

/-- the users `chkpnt()` rewrites, in order -/
def chkpntUsers (s : St) : List Nat :=
  if s.dirty.length ≥ 16 then ((s.tasks.filter (·.inTable)).map (·.owner)).eraseDups   -- chkpnta: owners of tasks only
  else s.dirty

/-- where a checkpoint is interrupted: at user `u`, before (`false`) or after (`true`) the rename -/
structure Cut where
  u : Nat
  afterRename : Bool
deriving Repr

/-- `chkpnt()`; with `cut` the process dies there: files of earlier users are replaced, later ones untouched.
(In `chkpnta` mode all dot-files are written first and renamed afterwards; the live files behave the same.) -/
def chkpnt (s : St) (cut : Option Cut := none) : St :=
  let rec go (us : List Nat) (fs : List (Nat × List DTask)) (seen : List Nat) : List (Nat × List DTask) :=
    match us with
    | [] => fs
    | u :: rest =>
      match cut with
      | some c =>
        if c.u == u && !(seen.contains u) then (if c.afterRename then setFile fs u (tasksOf s u) else fs)
        else go rest (setFile fs u (tasksOf s u)) (u :: seen)
      | none => go rest (setFile fs u (tasksOf s u)) (u :: seen)
  let fs := go (chkpntUsers s) s.files []
  -- the complete dump finally unlinks the queue files of users it has not seen, i.e. who own no task anymore
  let fs := if s.dirty.length ≥ 16 ∧ cut.isNone then fs.filter (fun f => (chkpntUsers s).contains f.1) else fs
  { s with files := fs, dirty := [] }

/-- a single failing call while user `u`'s file is written: open / close / rename failures leave the live
file as it was (the dot-file is unlinked); the check-pointing of the other users goes on -/
def chkpntFault (s : St) (u : Nat) : St :=
  -- the fault is a single failing call: only the first time `u` comes up in the dirty list is lost
  let fs := ((chkpntUsers s).erase u).foldl (fun fs v => setFile fs v (tasksOf s v)) s.files
  -- whoever's file could not be written stays on the list (the complete dump keeps the whole list)
  let hit := (chkpntUsers s).contains u
  { s with files := fs, dirty := if !hit then [] else if s.dirty.length ≥ 16 then s.dirty else [u] }

/-- a new daemon on the spool: `echsd_inject_queues` → `_inject_task1(t, NOT_A_UID)` for every task of every file -/
def reload (files : List (Nat × List DTask)) (me now : Nat) : St :=
  let s0 : St := { me := me, now := now, files := files }
  files.foldl (fun s f =>
    f.2.foldl (fun s t => (inject s t.uid (some t.owner) t.maxSimul t.dur t.occ true notAUid).1) s) s0

end Echse.Daemon

namespace Echse.Daemon

/-- `cmd_http` for `GET [/u/<uid>]/sched[?tuid=…]`: the gate `(c.u & cmd->uid) != c.u`, then the uid whose tasks are
listed is `c.u` unless that is 0 (root), in which case it is the uid named in the URL.  Returns the HTTP status and
the UIDs listed. -/
def httpSched (s : St) (peer : Nat) (urlUid : Option Nat) (tuids : List String) : Nat × List String :=
  let cu := (complUid s peer)
  let cu := if cu = notAUid then peer else cu
  let q := urlUid.getD notAUid
  let u := cu &&& q
  if u ≠ cu then (403, [])
  else
    let u := if u ≠ 0 then u else if q = notAUid then 0 else q     -- root: everybody's, by default its own
    let mine := (s.tasks.filter fun t => t.inTable && t.owner == u).map (·.uid)
    (200, if tuids.isEmpty then mine else tuids.filter (mine.contains ·))

/-- `cmd_http` for `GET [/u/<uid>]/queue` without parameters: the same gate as for `/sched`; then, when the user has
changes the spool does not show yet (`chkpntedp(u)`: marked, or the list of marks is full and marks were dropped),
`chkpnt()` runs first; the body is the user's live queue file, 404 when there is none.  Returns the state after, the
HTTP status and the UIDs of the tasks in the body. -/
def httpQueue (s : St) (peer : Nat) (urlUid : Option Nat) : St × Nat × List String :=
  let cu := (complUid s peer)
  let cu := if cu = notAUid then peer else cu
  let q := urlUid.getD notAUid
  let u := cu &&& q
  if u ≠ cu then (s, 403, [])
  else
    let u := if u ≠ 0 then u else if q = notAUid then 0 else q     -- root: everybody's, by default its own
    let s' := if s.dirty.contains u || decide (16 ≤ s.dirty.length) then chkpnt s else s
    match s'.files.find? (·.1 == u) with
    | some f => (s', 200, f.2.map (·.uid))
    | none => (s', 404, [])

end Echse.Daemon
