/-
  C06 — checkpoint, crash and restart in the daemon model.

  `fileOf fs u` is the queue file of user `u` in the spool `fs` (`none`: no file), `tasksOf s u` what
  `chkpnt` writes for `u`, `chkpntUsers s` the users it rewrites (the dirty list; with 16 entries the list
  has overflowed and the owners of the in-table tasks are rewritten instead).  A crash inside `chkpnt`
  (`Cut`) and a failing call while one file is written (`chkpntFault`) leave every file either old or new;
  an uninterrupted complete dump also removes the files of the users who own no task any more (D24), and
  the user whose file could not be written stays on the list and is written by the next checkpoint (D120);
  `reload` (a new daemon on the spool) schedules exactly the tasks of the files, each under its owner, for a
  well-formed spool (`FilesOK`).  `snapOf t` is what a file says of a task (uid, owner, limit, duration,
  stream), `snapAt now t` the same with the occurrences earlier than `now` dropped.
  Helper lemmas: Echse/Lemmas/Chkpnt.lean, Chkpnt2.lean.
-/
import Echse.Lemmas.Chkpnt2
import Echse.Props.C11
namespace C06
open Echse.Daemon

/-! ### 1. a crash leaves every file old or new -/

/-- `chkpnt` touches the files and the dirty list only -/
theorem chkpnt_only_files (s : St) (cut : Option Cut) :
    (chkpnt s cut).tasks = s.tasks ∧ (chkpnt s cut).children = s.children ∧ (chkpnt s cut).now = s.now ∧
    (chkpnt s cut).me = s.me ∧ (chkpnt s cut).users = s.users ∧ (chkpnt s cut).dirty = [] :=
  ⟨rfl, rfl, rfl, rfl, rfl, rfl⟩

/-- `crash_old_or_new`: wherever the checkpoint is cut (or not at all), the file of every user is the old
one (possibly none), or exactly `tasksOf s u`, or — only at the end of an uninterrupted complete dump
(16 entries) and only for a user who owns no in-table task, so that the new file would be empty — removed.
A completed checkpoint gives every user of `chkpntUsers s` the new file; below 16 entries it leaves the
others alone, the complete dump removes their files -/
theorem crash_old_or_new (s : St) (u : Nat) (cut : Option Cut) :
    (fileOf (chkpnt s cut).files u = fileOf s.files u ∨
      fileOf (chkpnt s cut).files u = some (tasksOf s u) ∨
      (fileOf (chkpnt s cut).files u = none ∧ tasksOf s u = [] ∧ 16 ≤ s.dirty.length ∧ cut = none)) ∧
    (cut = none → fileOf (chkpnt s cut).files u =
      if u ∈ chkpntUsers s then some (tasksOf s u)
      else if 16 ≤ s.dirty.length then none else fileOf s.files u) := by
  cases cut with
  | none =>
    rw [fileOf_chkpnt_none]
    refine ⟨?_, fun _ => rfl⟩
    by_cases h : u ∈ chkpntUsers s
    · exact Or.inr (Or.inl (by rw [if_pos h]))
    · rw [if_neg h]
      by_cases hl : 16 ≤ s.dirty.length
      · exact Or.inr (Or.inr ⟨by rw [if_pos hl], tasksOf_nil_of_unseen hl h, hl, rfl⟩)
      · exact Or.inl (by rw [if_neg hl])
  | some c =>
    refine ⟨?_, fun h => by cases h⟩
    rw [chkpnt_files_some]
    by_cases hc : c.u ∈ chkpntUsers s
    · rw [if_pos hc]
      cases c.afterRename with
      | true =>
        simp only [if_true]
        rw [fileOf_setFile, fileOf_writeAll]
        by_cases h1 : u = c.u
        · exact Or.inr (Or.inl (by rw [if_pos h1, h1]))
        · rw [if_neg h1]
          by_cases h : u ∈ (chkpntUsers s).takeWhile (· != c.u)
          · exact Or.inr (Or.inl (by rw [if_pos h]))
          · exact Or.inl (by rw [if_neg h])
      | false =>
        simp only [Bool.false_eq_true, if_false]
        rw [fileOf_writeAll]
        by_cases h : u ∈ (chkpntUsers s).takeWhile (· != c.u)
        · exact Or.inr (Or.inl (by rw [if_pos h]))
        · exact Or.inl (by rw [if_neg h])
    · rw [if_neg hc, fileOf_writeAll]
      by_cases h : u ∈ chkpntUsers s
      · exact Or.inr (Or.inl (by rw [if_pos h]))
      · exact Or.inl (by rw [if_neg h])

/-- a crash never removes a file: a user who had a file has one (old or new) after a cut checkpoint -/
theorem crash_keeps_files (s : St) (u : Nat) (c : Cut) :
    fileOf (chkpnt s (some c)).files u = fileOf s.files u ∨
      fileOf (chkpnt s (some c)).files u = some (tasksOf s u) := by
  rcases (crash_old_or_new s u (some c)).1 with h | h | ⟨_, _, _, h⟩
  · exact Or.inl h
  · exact Or.inr h
  · cases h

/-- a completed checkpoint, file by file -/
theorem chkpnt_complete (s : St) (u : Nat) :
    fileOf (chkpnt s).files u =
      if u ∈ chkpntUsers s then some (tasksOf s u)
      else if 16 ≤ s.dirty.length then none else fileOf s.files u :=
  (crash_old_or_new s u none).2 rfl

/-- the complete dump leaves exactly the files of the owners of in-table tasks -/
theorem complete_dump_exact (s : St) (hl : 16 ≤ s.dirty.length) (u : Nat) :
    ((∃ t ∈ s.tasks, t.inTable = true ∧ t.owner = u) → fileOf (chkpnt s).files u = some (tasksOf s u)) ∧
    ((∀ t ∈ s.tasks, t.inTable = true → t.owner ≠ u) → fileOf (chkpnt s).files u = none) := by
  rw [chkpnt_complete]
  constructor
  · intro h
    rw [if_pos ((mem_chkpntUsers_overflow hl u).mpr h)]
  · intro h
    rw [if_neg (fun c => by
      obtain ⟨t, ht, hi, ho⟩ := (mem_chkpntUsers_overflow hl u).mp c
      exact h t ht hi ho), if_pos hl]

/-! ### 2. the cut is a prefix of the user list -/

/-- `cut_prefix`: the process dies while user `u` is written.  The users listed before the first occurrence
of `u` (`(chkpntUsers s).takeWhile (· != u)`, see `before_first`) have their new file, `u` has the new file
iff the rename was done, everybody else keeps the old file -/
theorem cut_prefix (s : St) (u : Nat) (after : Bool) (hu : u ∈ chkpntUsers s) (v : Nat) :
    fileOf (chkpnt s (some ⟨u, after⟩)).files v =
      if v ∈ (chkpntUsers s).takeWhile (· != u) then some (tasksOf s v)
      else if v = u ∧ after = true then some (tasksOf s u)
      else fileOf s.files v := by
  rw [chkpnt_files_some]
  simp only []
  rw [if_pos hu]
  have hnu : u ∉ (chkpntUsers s).takeWhile (· != u) := fun c => (mem_takeWhile_ne c).2 rfl
  cases after with
  | true =>
    simp only [if_true, and_true]
    rw [fileOf_setFile, fileOf_writeAll]
    by_cases h1 : v = u
    · rw [if_pos h1, h1, if_neg hnu, if_pos rfl]
    · rw [if_neg h1, if_neg h1]
  | false =>
    simp only [Bool.false_eq_true, if_false, and_false]
    rw [fileOf_writeAll]

/-- the list `l.takeWhile (· != u)` is what precedes the first occurrence of `u` in `l` -/
theorem before_first {l : List Nat} {u : Nat} (h : u ∈ l) :
    ∃ rest, l = l.takeWhile (· != u) ++ u :: rest ∧ u ∉ l.takeWhile (· != u) := split_first h

/-- a cut at a user that is not rewritten: every file of the list is written; below 16 entries that is the
completed checkpoint, in the complete dump the process dies before the files of the other users are removed
(see the example below `cancelHist`) -/
theorem cut_absent (s : St) (c : Cut) (hu : c.u ∉ chkpntUsers s) :
    (∀ v, fileOf (chkpnt s (some c)).files v =
      if v ∈ chkpntUsers s then some (tasksOf s v) else fileOf s.files v) ∧
    (s.dirty.length < 16 → (chkpnt s (some c)).files = (chkpnt s).files) := by
  rw [chkpnt_files_some, if_neg hu, chkpnt_files_none]
  refine ⟨fun v => fileOf_writeAll s v _ _, fun hl => ?_⟩
  rw [if_neg (by omega)]

/-! ### 3. a failing call is isolated -/

/-- `fault_isolated`: a failing open / close / rename while `u`'s file is written leaves that file as it
was — unless `u` is listed twice, then the second round writes it — and every other user of the list gets
the new file -/
theorem fault_isolated (s : St) (u v : Nat) :
    fileOf (chkpntFault s u).files v =
      if v = u then (if 2 ≤ (chkpntUsers s).count u then some (tasksOf s u) else fileOf s.files u)
      else if v ∈ chkpntUsers s then some (tasksOf s v) else fileOf s.files v := by
  rw [chkpntFault_files, fileOf_writeAll]
  by_cases h : v = u
  · rw [if_pos h, h]
    by_cases h2 : 2 ≤ (chkpntUsers s).count u
    · rw [if_pos (mem_erase_self_iff.mpr h2), if_pos h2]
    · rw [if_neg (fun c => h2 (mem_erase_self_iff.mp c)), if_neg h2]
  · rw [if_neg h]
    by_cases h2 : v ∈ chkpntUsers s
    · rw [if_pos ((List.mem_erase_of_ne h).mpr h2), if_pos h2]
    · rw [if_neg (fun c => h2 ((List.mem_erase_of_ne h).mp c)), if_neg h2]

/-- in particular the file of `u` is old or new, and the users of the list do not notice the fault (below 16
entries nobody does; the complete dump hit by a fault does not remove the files of the users off the list) -/
theorem fault_old_or_new (s : St) (u v : Nat) :
    (fileOf (chkpntFault s u).files v = fileOf s.files v ∨
      fileOf (chkpntFault s u).files v = some (tasksOf s v)) ∧
    (v ≠ u → v ∈ chkpntUsers s ∨ s.dirty.length < 16 →
      fileOf (chkpntFault s u).files v = fileOf (chkpnt s).files v) := by
  rw [fault_isolated, chkpnt_complete]
  refine ⟨?_, fun h h' => ?_⟩
  · by_cases h : v = u
    · rw [if_pos h, h]
      by_cases h2 : 2 ≤ (chkpntUsers s).count u
      · exact Or.inr (by rw [if_pos h2])
      · exact Or.inl (by rw [if_neg h2])
    · rw [if_neg h]
      by_cases h2 : v ∈ chkpntUsers s
      · exact Or.inr (by rw [if_pos h2])
      · exact Or.inl (by rw [if_neg h2])
  · rw [if_neg h]
    rcases h' with h' | h'
    · rw [if_pos h', if_pos h']
    · rw [if_neg (show ¬ 16 ≤ s.dirty.length by omega)]

/-- the tasks are not touched, and whoever's file could not be written stays on the dirty list (the complete
dump keeps the whole list); a fault at a user that is not rewritten never happens -/
theorem fault_keeps_dirty (s : St) (u : Nat) :
    (chkpntFault s u).tasks = s.tasks ∧ (chkpntFault s u).now = s.now ∧
    (chkpntFault s u).dirty =
      if u ∈ chkpntUsers s then (if 16 ≤ s.dirty.length then s.dirty else [u]) else [] :=
  ⟨rfl, rfl, chkpntFault_dirty s u⟩

/-- `fault_is_retried` (finding D120, repaired): after a failing call while `u`'s file is written, `u` is
still on the list, and the next completed checkpoint writes the file: it holds `u`'s tasks, the change is
not lost.  The spool is then, file by file, what the checkpoint without the fault would have left, and the
list is empty -/
theorem fault_is_retried (s : St) (u : Nat) (hu : u ∈ chkpntUsers s) :
    u ∈ chkpntUsers (chkpntFault s u) ∧
    fileOf (chkpnt (chkpntFault s u)).files u = some (tasksOf s u) ∧
    (∀ v, fileOf (chkpnt (chkpntFault s u)).files v = fileOf (chkpnt s).files v) ∧
    (chkpnt (chkpntFault s u)).dirty = [] := by
  refine ⟨?_, ?_, fun v => fault_retry hu v, rfl⟩
  · rw [chkpntUsers_chkpntFault hu]
    split
    · exact hu
    · exact List.mem_singleton.mpr rfl
  · rw [fault_retry hu u, chkpnt_complete, if_pos hu]

/-! ### 4. a new daemon restores the spool -/

/-- every task of a well-formed spool is accepted by `_inject_task1(t, NOT_A_UID)` in the root daemon: the
absent peer (`NOT_A_UID`: no socket peer) acts for the known owner the `OWNER` field names, and the uid is free
(`hu`: and a usable one; a task without is turned down, `C11.empty_uid_refused`) -/
theorem spool_inject_succeeds {s : St} (hme : s.me = 0) {o : Nat} (hk : Known s o) (uid : String)
    (ms dur : Nat) (occ : List Nat) (hfree : absMap s uid = none) (hu : uid ≠ "") :
    (inject s uid (some o) ms dur occ true notAUid).2 = true :=
  (C11.inject_success_iff s uid (some o) ms dur occ true notAUid).mpr
    ⟨rfl, hu, o, effOwner_spool hk (Or.inl hme), Or.inl hfree⟩

/-- `reload_restores`: for a well-formed spool (`FilesOK`: ascending streams, one task per uid over all
files, every task in the file of its owner, owners known, no task without a usable UID) the table of the root daemon started on it at
clock value `now` consists of in-table records only, one per task of the files and in their order, with the
uid, owner, limit and duration of the file and the stream of the file without the occurrences earlier than
`now`; the new state is well-formed -/
theorem reload_restores {files : List (Nat × List DTask)} (h : FilesOK files) (now : Nat) :
    (∀ t ∈ (reload files 0 now).tasks, t.inTable = true) ∧
    (reload files 0 now).tasks.map snapOf = (files.flatMap (·.2)).map (snapAt now) ∧
    Inv (reload files 0 now) :=
  ⟨(reload_tasks h 0 now (Or.inl rfl)).1, (reload_tasks h 0 now (Or.inl rfl)).2,
   C11.reload_inv files 0 now h.sorted⟩

/-- … user by user (one file per user): what the new daemon schedules for `u` is what `u`'s file says,
without the occurrences already past and the tasks that have none left; nothing for a user without file -/
theorem reload_restores_user {files : List (Nat × List DTask)} (h : FilesOK files)
    (hk : (keys files).Nodup) (now u : Nat) :
    (tasksOf (reload files 0 now) u).map snapOf =
      (((fileOf files u).getD []).map (snapAt now)).filter (fun sn => !sn.occ.isEmpty) :=
  reload_user h hk 0 now (Or.inl rfl) u

/-- a user daemon (`me ≠ 0`) restores a spool that holds tasks of its own user only in the same way -/
theorem reload_restores_own {files : List (Nat × List DTask)} (h : FilesOK files) (me now : Nat)
    (hown : ∀ f ∈ files, ∀ t ∈ f.2, t.owner = me) :
    (∀ t ∈ (reload files me now).tasks, t.inTable = true) ∧
    (reload files me now).tasks.map snapOf = (files.flatMap (·.2)).map (snapAt now) :=
  reload_tasks h me now (Or.inr hown)

/-! ### 5. clean shutdown -/

/-- a request marks its peer dirty iff one of its instructions succeeded (and the list is not full) -/
theorem request_marks_peer (s : St) (p : Nat) (ins : List Instr) :
    (cmdIcal s p ins).1.dirty =
      if (cmdIcal s p ins).2.any (·.2) = true ∧ s.dirty.length < 16 then s.dirty ++ [p] else s.dirty :=
  cmdIcal_dirty s p ins

/-- `unsched` (a task without occurrences left leaves the table) marks the owner -/
theorem unsched_marks_owner (s : St) (t : DTask) :
    (unsched s t).dirty = if s.dirty.length < 16 then s.dirty ++ [t.owner] else s.dirty :=
  unsched_dirty s t

/-- below 16 entries the checkpoint rewrites the dirty users; from 16 on, the owners of in-table tasks -/
theorem chkpnt_users (s : St) :
    (s.dirty.length < 16 → chkpntUsers s = s.dirty) ∧
    (16 ≤ s.dirty.length → ∀ u, u ∈ chkpntUsers s ↔ ∃ t ∈ s.tasks, t.inTable = true ∧ t.owner = u) :=
  ⟨chkpntUsers_dirty, mem_chkpntUsers_overflow⟩

/-- the spool after a completed checkpoint of a well-formed state is well-formed, if there is one file per
user and — below 16 entries; the complete dump leaves no such file — the files that are not rewritten are
`Current` (each entry names an in-table task of the file's user: e.g. the file is `tasksOf s u`, an older
snapshot of tasks still there, or empty) -/
theorem chkpnt_spool_ok {s : St} (h : Inv s) (hu : s.users = ({ me := 0 } : St).users)
    (hk : (keys s.files).Nodup)
    (hc : s.dirty.length < 16 → ∀ f ∈ s.files, f.1 ∉ chkpntUsers s → Current s f) :
    FilesOK (chkpnt s).files ∧ (keys (chkpnt s).files).Nodup := FilesOK_chkpnt h hu hk hc

/-- `clean_shutdown`: checkpoint, stop, start a root daemon on the spool at the same clock value.  If the
dirty list has not overflowed and the files of the users that are not dirty are `Current`, the new daemon
schedules for every dirty user exactly the tasks the old one had for that user (uid, owner, limit,
duration, remaining stream), for every other user what the user's file says; its state is well-formed -/
theorem clean_shutdown {s : St} (h : Inv s) (hu : s.users = ({ me := 0 } : St).users)
    (hk : (keys s.files).Nodup) (hl : s.dirty.length < 16)
    (hc : ∀ f ∈ s.files, f.1 ∉ s.dirty → Current s f) :
    Inv (reload (chkpnt s).files 0 s.now) ∧
    (∀ u ∈ s.dirty, (tasksOf (reload (chkpnt s).files 0 s.now) u).map snapOf = (tasksOf s u).map snapOf) ∧
    (∀ u, u ∉ s.dirty → (tasksOf (reload (chkpnt s).files 0 s.now) u).map snapOf =
      (((fileOf s.files u).getD []).map (snapAt s.now)).filter (fun sn => !sn.occ.isEmpty)) := by
  have hcu := chkpntUsers_dirty hl
  have hc' : s.dirty.length < 16 → ∀ f ∈ s.files, f.1 ∉ chkpntUsers s → Current s f := by
    intro _; rw [hcu]; exact hc
  refine ⟨C11.reload_inv _ 0 s.now (FilesOK_chkpnt h hu hk hc').1.sorted, ?_, ?_⟩
  · intro u hm
    exact chkpnt_reload_user h hu hk hc' (by rw [hcu]; exact hm)
  · intro u hm
    rw [chkpnt_reload_other h hu hk hc' s.now (by rw [hcu]; exact hm), if_neg (by omega)]

/-- … in either mode of `chkpnt`: if — below 16 entries — the files that are not rewritten are up to date
(`tasksOf s u`, or no file and no task), the new daemon has the table of the old one, user by user, and its
state is well-formed -/
theorem clean_shutdown_all {s : St} (h : Inv s) (hu : s.users = ({ me := 0 } : St).users)
    (hk : (keys s.files).Nodup)
    (hsync : s.dirty.length < 16 → ∀ u, u ∉ chkpntUsers s →
      fileOf s.files u = some (tasksOf s u) ∨ (fileOf s.files u = none ∧ tasksOf s u = [])) :
    Inv (reload (chkpnt s).files 0 s.now) ∧
    ∀ u, (tasksOf (reload (chkpnt s).files 0 s.now) u).map snapOf = (tasksOf s u).map snapOf := by
  refine ⟨C11.reload_inv _ 0 s.now ?_, chkpnt_reload_all h hu hk hsync⟩
  intro f hf t ht
  rcases mem_chkpnt hk hf with ⟨_, h2⟩ | ⟨hl, h1, h2⟩
  · rw [h2] at ht
    exact (h.tinv' (mem_tasksOf.mp ht).1).sorted
  · have h3 := fileOf_of_mem hk h2
    rcases hsync hl f.1 h1 with h4 | ⟨h4, _⟩
    · rw [h3] at h4
      rw [Option.some.inj h4] at ht
      exact (h.tinv' (mem_tasksOf.mp ht).1).sorted
    · rw [h3] at h4; cases h4

/-- `clean_shutdown_overflow` (finding D24, repaired): the overflowed dirty list (16 entries).  The complete
dump leaves exactly the files of the owners of in-table tasks, so whatever the spool held before (one file
per user), the new daemon has the table of the old one, user by user — in particular nothing for a user
whose last task was cancelled -/
theorem clean_shutdown_overflow {s : St} (h : Inv s) (hu : s.users = ({ me := 0 } : St).users)
    (hk : (keys s.files).Nodup) (hl : 16 ≤ s.dirty.length) :
    FilesOK (chkpnt s).files ∧ Inv (reload (chkpnt s).files 0 s.now) ∧
    ∀ u, (tasksOf (reload (chkpnt s).files 0 s.now) u).map snapOf = (tasksOf s u).map snapOf :=
  have hn : ¬ s.dirty.length < 16 := by omega
  ⟨(FilesOK_chkpnt h hu hk (fun c => absurd c hn)).1,
   clean_shutdown_all h hu hk (fun c => absurd c hn)⟩

/-- … and the same after a checkpoint hit by a failing call and the checkpoint that retries it -/
theorem clean_shutdown_retried {s : St} (h : Inv s) (hu : s.users = ({ me := 0 } : St).users)
    (hk : (keys s.files).Nodup)
    (hsync : s.dirty.length < 16 → ∀ u, u ∉ chkpntUsers s →
      fileOf s.files u = some (tasksOf s u) ∨ (fileOf s.files u = none ∧ tasksOf s u = []))
    {u : Nat} (hm : u ∈ chkpntUsers s) (v : Nat) :
    (tasksOf (reload (chkpnt (chkpntFault s u)).files 0 s.now) v).map snapOf = (tasksOf s v).map snapOf :=
  fault_retry_reload h hu hk hsync hm v

/-! ### concrete states -/

/-- a checkpoint cut before the rename leaves the live file as it was -/
theorem cut_before_rename_keeps_old :
    (chkpnt { me := 0, dirty := [1001], files := [(1001, [])],
              tasks := [{ sid := 0, uid := "j", owner := 1001, occ := [5], dur := 0, maxSimul := 63 }] }
            (some { u := 1001, afterRename := false })).files.map (fun f => (f.1, f.2.map DTask.uid)) = [(1001, [])] := by decide

/-- … cut after the rename the file is the new one; the user behind keeps the old file in both cases -/
example :
    (chkpnt { me := 0, dirty := [1001, 1002], files := [(1001, []), (1002, [])],
              tasks := [{ sid := 0, uid := "j", owner := 1001, occ := [5], dur := 0, maxSimul := 63 },
                        { sid := 1, uid := "k", owner := 1002, occ := [7], dur := 0, maxSimul := 63 }] }
            (some { u := 1001, afterRename := true })).files.map (fun f => (f.1, f.2.map DTask.uid))
      = [(1001, ["j"]), (1002, [])] := by decide

/-- a fault at 1001: 1002 is written, 1001 is not; listed twice, 1001 is written by the second round -/
example :
    (chkpntFault { me := 0, dirty := [1001, 1002], files := [(1001, [])],
                   tasks := [{ sid := 0, uid := "j", owner := 1001, occ := [5], dur := 0, maxSimul := 63 },
                             { sid := 1, uid := "k", owner := 1002, occ := [7], dur := 0, maxSimul := 63 }] }
            1001).files.map (fun f => (f.1, f.2.map DTask.uid)) = [(1001, []), (1002, ["k"])] ∧
    (chkpntFault { me := 0, dirty := [1001, 1002, 1001], files := [(1001, [])],
                   tasks := [{ sid := 0, uid := "j", owner := 1001, occ := [5], dur := 0, maxSimul := 63 },
                             { sid := 1, uid := "k", owner := 1002, occ := [7], dur := 0, maxSimul := 63 }] }
            1001).files.map (fun f => (f.1, f.2.map DTask.uid)) = [(1001, ["j"]), (1002, ["k"])] := by decide

/-- `FilesOK` is inhabited by the spool of the next example -/
example : FilesOK [(1001, [{ sid := 0, uid := "j", owner := 1001, occ := [5, 9, 12], dur := 0, maxSimul := 63 }]),
                   (1002, [{ sid := 0, uid := "k", owner := 1002, occ := [7], dur := 0, maxSimul := 2 }])] where
  sorted := by simp
  uids := by decide
  owner := by simp
  known := by simp [Known, notAUid]
  uidNe := by simp

/-- a new daemon at clock value 8: past occurrences are dropped; a task left without occurrences is loaded
(and unscheduled by the next iteration); a user daemon (`me = 1001`) refuses the tasks of other users -/
example :
    (reload [(1001, [{ sid := 0, uid := "j", owner := 1001, occ := [5, 9, 12], dur := 0, maxSimul := 63 }]),
             (1002, [{ sid := 0, uid := "k", owner := 1002, occ := [7], dur := 0, maxSimul := 2 }])] 0 8).tasks.map snapOf
      = [{ uid := "j", owner := 1001, maxSimul := 63, dur := 0, occ := [9, 12] },
         { uid := "k", owner := 1002, maxSimul := 2, dur := 0, occ := [] }] ∧
    (reload [(1001, [{ sid := 0, uid := "j", owner := 1001, occ := [5, 9, 12], dur := 0, maxSimul := 63 }]),
             (1002, [{ sid := 0, uid := "k", owner := 1002, occ := [7], dur := 0, maxSimul := 2 }])] 1001 8).tasks.map snapOf
      = [{ uid := "j", owner := 1001, maxSimul := 63, dur := 0, occ := [9, 12] }] := by decide

/-- the hypotheses of `clean_shutdown` hold in a reachable state with a file that is not rewritten: user
1001's task `j` is checkpointed, then user 1002 schedules `k` -/
example :
    let s := (run { me := 0 } [.req 1001 [.sched "j" none 63 0 [10] true], .chk,
                               .req 1002 [.sched "k" none 63 0 [20] true]]).1
    Inv s ∧ s.users = ({ me := 0 } : St).users ∧ (keys s.files).Nodup ∧ s.dirty = [1002] ∧
    (fileOf s.files 1001).map (·.map DTask.uid) = some ["j"] ∧
    ∀ f ∈ s.files, f.1 ∉ s.dirty → Current s f := by
  intro s
  refine ⟨C11.reachable_inv 0 _ (by simp [Mono, instrSorted]), by decide, by decide, by decide, by decide, ?_⟩
  unfold Current
  decide

/-- user 1001 schedules `j`, checkpoint; `n` successful requests of user 1002; user 1001 cancels `j` -/
def cancelHist (n : Nat) : List Op :=
  [.req 1001 [.sched "j" none 63 0 [10] true], .chk] ++
  List.replicate n (.req 1002 [.sched "k" none 63 0 [20] true]) ++
  [.req 1001 [.cancel "j"]]

set_option maxRecDepth 4000 in
/-- 15 dirty entries: the checkpoint empties the file of 1001, a new daemon has `k` only -/
example :
    (run { me := 0 } (cancelHist 14)).1.dirty.length = 15 ∧
    (run { me := 0 } (cancelHist 14 ++ [.chk])).1.files.map (fun f => (f.1, f.2.map snapOf))
      = [(1001, []), (1002, [{ uid := "k", owner := 1002, maxSimul := 63, dur := 0, occ := [20] }])] ∧
    (reload (run { me := 0 } (cancelHist 14 ++ [.chk])).1.files 0 0).tasks.map snapOf
      = [{ uid := "k", owner := 1002, maxSimul := 63, dur := 0, occ := [20] }] := by decide

set_option maxRecDepth 4000 in
/-- finding D24, repaired: 16 dirty entries — none lost, user 1001 is the 16th — switch `chkpnt` to "owners of
in-table tasks".  User 1001 has none left and is not rewritten, but the completed checkpoint removes the file
that still holds the cancelled `j`: the cancelled task is gone from the spool, a new daemon has `k` only -/
theorem cancelled_task_gone_after_overflow :
    (run { me := 0 } (cancelHist 15)).1.dirty = List.replicate 15 1002 ++ [1001] ∧
    absMap (run { me := 0 } (cancelHist 15)).1 "j" = none ∧
    tasksOf (run { me := 0 } (cancelHist 15)).1 1001 = [] ∧
    chkpntUsers (run { me := 0 } (cancelHist 15)).1 = [1002] ∧
    (run { me := 0 } (cancelHist 15)).1.files.map (fun f => (f.1, f.2.map snapOf))
      = [(1001, [{ uid := "j", owner := 1001, maxSimul := 63, dur := 0, occ := [10] }])] ∧
    (run { me := 0 } (cancelHist 15 ++ [.chk])).1.files.map (fun f => (f.1, f.2.map snapOf))
      = [(1002, [{ uid := "k", owner := 1002, maxSimul := 63, dur := 0, occ := [20] }])] ∧
    (reload (run { me := 0 } (cancelHist 15 ++ [.chk])).1.files 0 0).tasks.map snapOf
      = [{ uid := "k", owner := 1002, maxSimul := 63, dur := 0, occ := [20] }] := by decide

set_option maxRecDepth 4000 in
/-- finding D24, repaired: … and when user 1002 then schedules a task `j` of its own (accepted,
checkpointed), the spool holds the uid once, in the file of user 1002; the new daemon restores `j` to its
owner 1002 with the new stream -/
theorem later_task_restored_to_owner :
    (run { me := 0 } (cancelHist 15 ++ [.chk, .req 1002 [.sched "j" none 63 0 [30] true], .chk])).2.2.getLast?
      = some ("j", true) ∧
    (run { me := 0 } (cancelHist 15 ++ [.chk, .req 1002 [.sched "j" none 63 0 [30] true], .chk])).1.files.map
        (fun f => (f.1, f.2.map snapOf))
      = [(1002, [{ uid := "k", owner := 1002, maxSimul := 63, dur := 0, occ := [20] },
                 { uid := "j", owner := 1002, maxSimul := 63, dur := 0, occ := [30] }])] ∧
    (reload (run { me := 0 } (cancelHist 15 ++ [.chk, .req 1002 [.sched "j" none 63 0 [30] true], .chk])).1.files
        0 0).tasks.map snapOf
      = [{ uid := "k", owner := 1002, maxSimul := 63, dur := 0, occ := [20] },
         { uid := "j", owner := 1002, maxSimul := 63, dur := 0, occ := [30] }] := by decide

set_option maxRecDepth 4000 in
/-- the complete dump cut at a user it does not rewrite (`cut_absent`): the process dies before the removal,
the stale file of user 1001 is still there; the next completed checkpoint (the list is kept) removes it -/
example :
    (chkpnt (run { me := 0 } (cancelHist 15)).1 (some ⟨1001, true⟩)).files.map (fun f => (f.1, f.2.map DTask.uid))
      = [(1001, ["j"]), (1002, ["k"])] ∧
    (chkpnt (run { me := 0 } (cancelHist 15)).1).files.map (fun f => (f.1, f.2.map DTask.uid))
      = [(1002, ["k"])] := by decide

set_option maxRecDepth 4000 in
/-- finding D120, repaired (`fault_is_retried`): user 1001 schedules `j`, the rename of its file fails at the
checkpoint: no file, but 1001 stays on the list; after the request of user 1002 the next checkpoint writes
both files, and a new daemon has `j` and `k`.  The same with the overflowed list (the state of `cancelHist 15`,
fault at user 1002): the list is kept, the next checkpoint is again a complete dump -/
theorem failed_file_written_next_time :
    (chkpntFault (run { me := 0 } [.req 1001 [.sched "j" none 63 0 [10] true]]).1 1001).files = [] ∧
    (chkpntFault (run { me := 0 } [.req 1001 [.sched "j" none 63 0 [10] true]]).1 1001).dirty = [1001] ∧
    (run (chkpntFault (run { me := 0 } [.req 1001 [.sched "j" none 63 0 [10] true]]).1 1001)
        [.req 1002 [.sched "k" none 63 0 [20] true], .chk]).1.files.map (fun f => (f.1, f.2.map DTask.uid))
      = [(1001, ["j"]), (1002, ["k"])] ∧
    (reload (run (chkpntFault (run { me := 0 } [.req 1001 [.sched "j" none 63 0 [10] true]]).1 1001)
        [.req 1002 [.sched "k" none 63 0 [20] true], .chk]).1.files 0 0).tasks.map snapOf
      = [{ uid := "j", owner := 1001, maxSimul := 63, dur := 0, occ := [10] },
         { uid := "k", owner := 1002, maxSimul := 63, dur := 0, occ := [20] }] ∧
    (chkpntFault (run { me := 0 } (cancelHist 15)).1 1002).dirty.length = 16 ∧
    (chkpnt (chkpntFault (run { me := 0 } (cancelHist 15)).1 1002)).files.map (fun f => (f.1, f.2.map DTask.uid))
      = [(1002, ["k"])] := by decide

set_option maxRecDepth 4000 in
/-- the hypotheses of `clean_shutdown_overflow` hold in that reachable state, which has a stale file -/
example :
    let s := (run { me := 0 } (cancelHist 15)).1
    Inv s ∧ s.users = ({ me := 0 } : St).users ∧ (keys s.files).Nodup ∧ 16 ≤ s.dirty.length ∧
    (fileOf s.files 1001).map (·.map DTask.uid) = some ["j"] ∧ tasksOf s 1001 = [] := by
  intro s
  exact ⟨C11.reachable_inv 0 _ (by simp [cancelHist, List.replicate, Mono, instrSorted]),
    by decide, by decide, by decide, by decide, by decide⟩

/-- why `FilesOK` asks for usable UIDs: a task without one in a queue file is turned down by the new daemon
(`C11.empty_uid_refused`); no daemon writes such a file (`C11.reachable_uid_ne`, `chkpnt_spool_ok`) -/
example :
    (reload [(1001, [{ sid := 0, uid := "", owner := 1001, occ := [9], dur := 0, maxSimul := 63 }])] 0 8).tasks = [] := by
  decide

end C06
