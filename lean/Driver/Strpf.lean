import Echse.Model.Strpf
import Driver.Instant
open Echse.Instant Echse.Strpf
namespace Driver

/-- strings travel as hex-encoded bytes -/
def unhexStr? (h : String) : Option (List Char) :=
  let cs := h.toList
  if cs.length % 2 ≠ 0 then none else
  let rec go : List Char → Option (List Char)
    | a :: b :: rest => do
      let x ← hexDigit? a
      let y ← hexDigit? b
      let r ← go rest
      pure (Char.ofNat (x * 16 + y) :: r)
    | [] => some []
    | _ => none
  go cs

def hexStr (cs : List Char) : String :=
  String.ofList (cs.flatMap fun c => [hexChar (c.toNat / 16 % 16), hexChar (c.toNat % 16)])

def runStrpf (op : String) (args : List String) : String :=
  match op, args with
  | "s.dtstrp", [h, len] => match unhexStr? h, len.toNat? with
    | some s, some len => match dtStrp s len with
      | some (i, on) => s!"{showInst i} {on}"
      | none => "nul"
    | _, _ => "bad-op"
  | "s.dtstrp", [len] => match len.toNat? with   -- empty string
    | some len => match dtStrp [] len with
      | some (i, on) => s!"{showInst i} {on}"
      | none => "nul"
    | none => "bad-op"
  | "s.dtstrf", [a] => match inst? a with
    | some i => hexStr (dtStrf i) | none => "bad-op"
  | "s.dtstrfical", [a] => match inst? a with
    | some i => hexStr (dtStrfIcal i) | none => "bad-op"
  | "s.idiffstrp", [h] => match unhexStr? h with
    | some s => let (v, on) := idiffStrp s s.length; s!"{v} {on}"
    | none => "bad-op"
  | "s.idiffstrp", [] => let (v, on) := idiffStrp [] 0; s!"{v} {on}"
  | "s.idiffstrf", [d] => match d.toInt? with
    | some d => hexStr (idiffStrf d) | none => "bad-op"
  | _, _ => "bad-op"

end Driver
