/-
  C05, rule text round trip — part 7: the SHIFT part is read back by `snarf_shift` (`snarfShiftC`).
-/
import Echse.Lemmas.RrText6
namespace Echse.RrText
open Echse.Rrule Echse.Strpf Echse.Instant Echse.RuleExt

/-- the business-day half of the SHIFT text: sign, count, `B`, and the sign again for the "keep" form -/
def bdayText (neg inv : Bool) (a : Nat) : List Char :=
  signCh neg :: Nat.toDigits 10 a ++ 'B' :: (if inv = true ∧ a ≠ 0 then [signCh neg] else [])

theorem shiftGo_bday (fuel : Nat) (neg inv : Bool) (a : Nat) (d : Int) (t : List Char) (ht : Term t)
    (ha : a ≤ 366) (hd : -366 ≤ d ∧ d ≤ 366) (h0 : a = 0 → inv = true) :
    snarfShiftGoC (fuel+1) (bdayText neg inv a ++ t) 0 0 d
      = d * 65536 + ((a * 4 + (if inv then 2 else 0) + (if neg then 1 else 0) : Nat) : Int) := by
  have e : bdayText neg inv a ++ t
      = signCh neg :: Nat.toDigits 10 a ++ 'B' :: ((if inv = true ∧ a ≠ 0 then [signCh neg] else []) ++ t) := by
    simp [bdayText]
  have hs := strtolC_sign neg a ('B' :: ((if inv = true ∧ a ≠ 0 then [signCh neg] else []) ++ t))
    (noDig_cons _ _ (by decide)) (by omega)
  rw [e, snarfShiftGoC]
  simp only [hs]
  have hrange : ¬ ((if neg = true then -(a : Int) else a) > 366 ∨ (if neg = true then -(a : Int) else a) < -366) := by
    split <;> omega
  rw [if_neg hrange]
  have hw : wrapInt (if neg = true then -(a : Int) else a) = if neg = true then -(a : Int) else a :=
    wrapInt_id _ (by split <;> omega)
  simp only [Int.zero_add, hw]
  have hn : ¬ ((a : Int) < 0) := by omega
  have close : ∀ k : Nat, k < 4 → packShift d ((a : Int)) k = d * 65536 + ((a : Int) * 4 + k) := by
    intro k hk
    unfold packShift
    rw [if_neg (by omega), xor_pack16 d a k (by omega) ⟨by omega, by omega⟩ hk]; omega
  rcases ht with rfl | ⟨q, rfl⟩ <;> cases neg <;> cases inv <;> by_cases ha0 : a = 0 <;>
    first
    | (exfalso; exact absurd (h0 ha0) (by decide))
    | (subst ha0
       simp [snarfShiftGoC.again, signCh]
       first | exact close 0 (by decide) | exact close 1 (by decide) | exact close 2 (by decide) | exact close 3 (by decide))
    | (have hpos : 0 < a := by omega
       simp [snarfShiftGoC.again, signCh, ha0, hn, hpos]
       first | exact close 0 (by decide) | exact close 1 (by decide) | exact close 2 (by decide) | exact close 3 (by decide))

/-- the SHIFT values that come back: day count (upper half) and business-day count within the 366 `snarf_shift`
admits; zero business days only in the forms `+0B` / `-0B` the parser itself produces (low half 2 or 3, never 1) -/
def ShiftOk (sh : Int) : Prop := -366 ≤ shDvalue sh ∧ shDvalue sh ≤ 366 ∧ shAbsval sh ≤ 366 ∧ shLow sh ≠ 1

instance (sh : Int) : Decidable (ShiftOk sh) := by unfold ShiftOk; infer_instance

/-- `sendShift` in terms of `bdayText` -/
theorem sendShift_eq (sh : Int) (h : sh ≠ 0) :
    sendShift sh = ";SHIFT=".toList ++
      ((if shDvalue sh ≠ 0 then fmtD (shDvalue sh) else []) ++
       (if shBdayP sh = true then (if shDvalue sh ≠ 0 then [','] else []) ++
          bdayText (shNegP sh) (shInvP sh) (shAbsval sh) else [])) := by
  unfold sendShift bdayText signCh fmtU
  simp only [h, if_false]
  split <;> split <;> simp

theorem avoid_bdayText (c : Char) (hc : c.isDigit = false) (h1 : '-' ≠ c) (h2 : '+' ≠ c) (h3 : 'B' ≠ c)
    (neg inv : Bool) (a : Nat) : Avoid c (bdayText neg inv a) := by
  have hs : signCh neg ≠ c := by unfold signCh; split <;> assumption
  unfold bdayText
  refine avoid_append (avoid_cons hs (avoid_digits hc a)) (avoid_cons h3 ?_)
  split
  · exact avoid_cons hs (avoid_nil c)
  · exact avoid_nil c

/-- what `snarf_shift` makes of the SHIFT value text, whatever part follows -/
theorem snarfShiftC_text (sh : Int) (t : List Char) (ht : Term t) (h : ShiftOk sh) (h0 : sh ≠ 0) :
    snarfShiftC ((if shDvalue sh ≠ 0 then fmtD (shDvalue sh) else []) ++
       (if shBdayP sh = true then (if shDvalue sh ≠ 0 then [','] else []) ++
          bdayText (shNegP sh) (shInvP sh) (shAbsval sh) else []) ++ t) = sh := by
  obtain ⟨hd1, hd2, ha, h1⟩ := h
  have hd : -366 ≤ shDvalue sh ∧ shDvalue sh ≤ 366 := ⟨hd1, hd2⟩
  unfold shLow at h1
  have hinv : shBdayP sh = true → shAbsval sh = 0 → shInvP sh = true := by
    unfold shBdayP shAbsval shInvP shLow
    simp only [ne_eq, decide_not, Bool.not_eq_eq_eq_not, Bool.not_true, decide_eq_false_iff_not, decide_eq_true_eq]
    omega
  have hval : sh = shDvalue sh * 65536 + ((shAbsval sh * 4 + (if shInvP sh = true then 2 else 0)
      + (if shNegP sh = true then 1 else 0) : Nat) : Int) := by
    unfold shDvalue shAbsval shInvP shNegP shLow
    simp only [decide_eq_true_eq]
    split <;> split <;> omega
  unfold snarfShiftC
  by_cases hb : shBdayP sh = true
  · by_cases hdz : shDvalue sh = 0
    · simp only [hb, hdz, ne_eq, not_true_eq_false, if_false, if_true, List.nil_append]
      rw [shiftGo_bday _ _ _ _ 0 t ht ha (by omega) (hinv hb)]
      rw [hdz] at hval; exact hval.symm
    · simp only [hb, hdz, ne_eq, not_false_eq_true, if_true]
      have e : fmtD (shDvalue sh) ++ ([','] ++ bdayText (shNegP sh) (shInvP sh) (shAbsval sh)) ++ t
          = fmtD (shDvalue sh) ++ ',' :: (bdayText (shNegP sh) (shInvP sh) (shAbsval sh) ++ t) := by simp
      rw [e, snarfShiftGoC, strtolC_d _ _ (noDig_cons _ _ (by decide)) (by omega)]
      simp only []
      rw [if_neg (by omega)]
      have hc : ¬ (',' = 'b' ∨ ',' = 'B') := by decide
      simp only [hc, if_false, if_true, Int.zero_add]
      rw [wrapInt_id _ (by omega), shiftGo_bday _ _ _ _ _ t ht ha hd (hinv hb)]
      exact hval.symm
  · have hl : shLow sh = 0 := by
      unfold shBdayP at hb; simpa using hb
    have hdz : shDvalue sh ≠ 0 := by
      intro hz
      unfold shDvalue at hz; unfold shLow at hl
      omega
    simp only [hb, hdz, ne_eq, not_false_eq_true, if_true, Bool.false_eq_true, if_false, List.append_nil]
    have hsh : sh = shDvalue sh * 65536 := by
      unfold shDvalue; unfold shLow at hl; omega
    rw [snarfShiftGoC, strtolC_d _ t ht.noDig (by omega)]
    simp only []
    rw [if_neg (by omega)]
    have hx : packShift (wrapInt (0 + shDvalue sh)) 0 0 = sh := by
      rw [Int.zero_add, wrapInt_id _ (by omega)]
      unfold packShift
      rw [if_neg (by omega)]
      have := xor_pack16 (shDvalue sh) 0 0 (by omega) (by omega) (by decide)
      simp only [Int.zero_mul] at this ⊢
      rw [this]; omega
    rcases ht with rfl | ⟨q, rfl⟩
    · simpa using hx
    · have hc : ¬ (';' = 'b' ∨ ';' = 'B') := by decide
      have hc2 : ¬ (';' = ',') := by decide
      simp only [hc, hc2, if_false, if_true]
      exact hx

/-- the value text of the SHIFT part -/
def shiftText (sh : Int) : List Char :=
  (if shDvalue sh ≠ 0 then fmtD (shDvalue sh) else []) ++
  (if shBdayP sh = true then (if shDvalue sh ≠ 0 then [','] else []) ++
     bdayText (shNegP sh) (shInvP sh) (shAbsval sh) else [])

theorem avoid_shiftText (c : Char) (hc : c.isDigit = false) (h1 : '-' ≠ c) (h2 : '+' ≠ c) (h3 : 'B' ≠ c)
    (h4 : ',' ≠ c) (sh : Int) : Avoid c (shiftText sh) := by
  unfold shiftText
  refine avoid_append (avoid_ite (avoid_fmtD hc h1 _) (avoid_nil c)) (avoid_ite ?_ (avoid_nil c))
  exact avoid_append (avoid_ite (avoid_cons h4 (avoid_nil c)) (avoid_nil c)) (avoid_bdayText c hc h1 h2 h3 _ _ _)

theorem part_shift (r : Rule) (sh : Int) (t : List Char) (ht : Term t) (h : ShiftOk sh) :
    parseFrom r (sendShift sh ++ t) = parseFrom { r with shift := if sh = 0 then r.shift else sh } t := by
  by_cases h0 : sh = 0
  · subst h0; rfl
  · rw [sendShift_eq sh h0]
    have e : ";SHIFT=".toList ++ shiftText sh ++ t = ';' :: "SHIFT".toList ++ '=' :: shiftText sh ++ t := by simp
    show parseFrom r (";SHIFT=".toList ++ shiftText sh ++ t) = _
    rw [e, part_kv r _ _ t (by decide) (by decide) (by decide)
      (avoid_shiftText ';' (by decide) (by decide) (by decide) (by decide) (by decide) sh) ht]
    have hk : keyOf "SHIFT".toList = .shift := by decide
    rw [hk]
    simp only [keyStep]
    have := snarfShiftC_text sh t ht h h0
    unfold shiftText
    rw [this]
    simp only [h0, if_false]
    rfl

end Echse.RrText
