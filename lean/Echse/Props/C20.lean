import Echse.Model.Sort
import Echse.Model.Instant
namespace C20
open Echse.Sort

/-- smoke (general statements replace this) -/
theorem stable_small : wikiSort (fun (a b : Nat × Nat) => a.1 < b.1) [(2, 0), (1, 1), (2, 2), (1, 3)]
    = [(1, 1), (1, 3), (2, 0), (2, 2)] := by decide

end C20
