/-
  C10 lemmas, part 12: entering `chop_more` (the examination of the newline-seen mark `eolp`) in terms of the automaton.
-/
import Echse.Lemmas.Ical11
namespace Echse.Ical

/-- what is assumed of a parser state and its automaton state in front of the unread bytes -/
structure Pre (p : Parser) (A : Abs) : Prop where
  rel : Rel p A
  inv : Inv A
  nobsl : ∀ c ∈ rest p, c ≠ BSL

theorem bpOf_eq (p : Parser) : bpOf p = (rest p).headD 0 := by
  unfold bpOf rest; exact getD_eq_headD_drop _ _ _

theorem fold_iff (c : Byte) : Fold c ↔ isFold c = true := by
  unfold Fold; exact (isFold_iff c).symm

theorem rest_bix_succ (p : Parser) (c : Byte) (r : List Byte) (h : rest p = c :: r) :
    p.buf.drop (p.bix + 1) = r := by
  unfold rest at h
  have : p.buf.drop (p.bix + 1) = (p.buf.drop p.bix).drop 1 := by rw [List.drop_drop]
  rw [this, h]; rfl

theorem marked_iff (p : Parser) : Marked p ↔ p.eolp = true := Iff.rfl

/-- from the round's start to `chop_more` -/
theorem pre_chop (p : Parser) (A : Abs) (h : Pre p A) (hne : rest p ≠ [])
    (hc : ¬ (Marked p ∧ ¬ Fold (bpOf p))) :
    ∃ A1, Pre (preChop p) A1 ∧ A1.sc.pend = false ∧ A1.ins = A.ins ∧
      runA A (rest p) = runA A1 (rest (preChop p)) := by
  cases hr : rest p with
  | nil => exact absurd hr hne
  | cons c r =>
    have hbp : bpOf p = c := by rw [bpOf_eq, hr]; rfl
    by_cases hm : Marked p
    · -- the mark is there and fold whitespace follows (be the line empty so far or not)
      have hf : isFold c = true := by
        rw [← fold_iff, ← hbp]
        exact Decidable.byContradiction fun hn => hc ⟨hm, hn⟩
      have hpend : A.sc.pend = true := h.rel.mark.1 hm
      have hpre : preChop p = { p with eolp := false, bix := p.bix + 1 } := by
        unfold preChop; rw [if_pos hm]
      have hrest : rest (preChop p) = r := by
        rw [hpre]; exact rest_bix_succ p c r hr
      refine ⟨{ A with sc := stepSc A.sc c }, ⟨?_, ?_, ?_⟩, ?_, rfl, ?_⟩
      · rw [hpre]
        refine ⟨h.rel.skip, h.rel.stash, h.rel.comp, h.rel.log, ?_⟩
        show false = true ↔ (stepSc A.sc c).pend = true
        rw [stepSc_pend_fold _ _ hpend hf]
      · have := stepA_inv A c h.inv
        rw [stepA_pend_fold A c hpend hf] at this; exact this
      · rw [hrest]; intro d hd; exact h.nobsl d (by rw [hr]; simp [hd])
      · show (stepSc A.sc c).pend = false
        rw [stepSc_pend_fold _ _ hpend hf]
      · rw [hrest, runA_cons, stepA_pend_fold A c hpend hf]
    · have hpre : preChop p = p := by unfold preChop; rw [if_neg hm]
      rw [hpre, hr]
      have hpend : A.sc.pend = false := by
        cases hx : A.sc.pend with
        | false => rfl
        | true => exact absurd (h.rel.mark.2 hx) hm
      exact ⟨A, h, hpend, rfl, rfl⟩

end Echse.Ical
