/-
  C01, `fillSly` (FREQ=SECONDLY) against RFC 5545 (`Echse.Spec.Rfc.SecondlyInst`), part 1: one round of the loop.
  The body writes a candidate iff it passes the limits; what it steps over holds no instance; the increment expression
  moves the candidate on by exactly the chosen number of seconds.
-/
import Echse.Lemmas.RrSubRfc3
namespace Echse.Lemmas.RrSlyRfc
open Echse.Rrule Echse.Instant Echse.Spec.RrOk Echse.Lemmas.RrSubOk Echse.Spec.Rfc Echse.Spec.Cal Echse.Spec.RuleExt
open Echse.Lemmas.RrSlyOk Echse.Lemmas.RrSubRfc

/-- the limits a SECONDLY instance passes -/
def SlyLim (r : Rule) (x : Inst) : Prop := DateOk r x ∧ ydayOk r x ∧ hourLim r x ∧ minLim r x ∧ secLim r x

section body
variable (r : Rule) (p : Inst) (k : Nat) (hr : WfRule r) (X : Inst) (hX : VT X) (hy1 : 1901 ≤ X.y) (hy2 : X.y ≤ 2099)
  (w : Nat) (hw : w = wdayOf (dayOf X))
include hr hX hy1 hy2 hw

/-- the body writes the candidate iff it passes the limits -/
theorem slyBody_hit :
    (slyBody (mkSubCtx r p k) X.y X.m X.d X.H X.M X.S w (getNdom X.y X.m)).1 = true ↔ SlyLim r X := by
  have T1 := t_day r p k hr X hX hy1 hy2 w hw
  have T2 := t_hour r p k hr X hX
  have T3 := t_min r p k hr X hX
  have T4 := t_sec r p k hr X hX
  have T5 := t_doy r p k hr X hX hy1 hy2
  unfold slyBody SlyLim
  simp only []
  by_cases c1 : (mkSubCtx r p k).dayOut w X.m X.d (getNdom X.y X.m) = true
  · rw [if_pos c1]
    have : ¬ DateOk r X := by rw [← T1]; simp [c1]
    simp [this]
  rw [if_neg c1]
  have d1 : DateOk r X := T1.mp (by simpa using c1)
  by_cases c2 : ((mkSubCtx r p k).HMask &&& shl1 X.H) = 0
  · rw [if_pos c2]; have := T2.mp c2; simp [this]
  rw [if_neg c2]
  have d2 : hourLim r X := Classical.not_not.mp (fun h => c2 (T2.mpr h))
  by_cases c3 : ((mkSubCtx r p k).MMask &&& shl1q X.M) = 0
  · rw [if_pos c3]; have := T3.mp c3; simp [this]
  rw [if_neg c3]
  have d3 : minLim r X := Classical.not_not.mp (fun h => c3 (T3.mpr h))
  by_cases c4 : ((mkSubCtx r p k).SMask &&& shl1q X.S) = 0
  · rw [if_pos c4]; have := T4.mp c4; simp [this]
  rw [if_neg c4]
  have d4 : secLim r X := Classical.not_not.mp (fun h => c4 (T4.mpr h))
  by_cases c5 : (!(mkSubCtx r p k).r.doy.isEmpty &&
      !doyHit (mkSubCtx r p k).r.doy (ymdGetYd X.y X.m X.d) (maxyOf X.y)) = true
  · rw [if_pos c5]
    have : ¬ ydayOk r X := by rw [← T5]; simp only [c5]; simp
    simp [this]
  · rw [if_neg c5]
    have d5 : ydayOk r X := T5.mp (by simpa using c5)
    simp [d1, d2, d3, d4, d5]


/-- whatever the body steps over is no instance: an instant `t` intervals after the candidate that passes the limits is
the candidate itself and is written, or lies at or after the next candidate -/
theorem slyBody_skip (x : Inst) (t : Nat) (hx : VT x) (hl : SlyLim r x)
    (ht : absOf x = absOf X + ((t * (mkSubCtx r p k).inter : Nat) : Int)) :
    ((slyBody (mkSubCtx r p k) X.y X.m X.d X.H X.M X.S w (getNdom X.y X.m)).1 = true ∧ t = 0) ∨
    ∃ t', t * (mkSubCtx r p k).inter =
      (slyBody (mkSubCtx r p k) X.y X.m X.d X.H X.M X.S w (getNdom X.y X.m)).2 + t' * (mkSubCtx r p k).inter := by
  obtain ⟨hi1, hi2⟩ := mkSubCtx_inter r p k hr
  obtain ⟨l1, l2, l3, l4, l5⟩ := hl
  have hX' := hX
  obtain ⟨_, _, _, _, aH, aM, aS, _⟩ := hX'
  have hsp := same_parts x X hx hX (t * (mkSubCtx r p k).inter) ht
  -- the step by one interval
  have hone : t ≠ 0 → ∃ t', t * (mkSubCtx r p k).inter = (mkSubCtx r p k).inter + t' * (mkSubCtx r p k).inter := by
    intro h0
    refine ⟨t - 1, ?_⟩
    have : t = (t - 1) + 1 := by omega
    rw [this, Nat.add_mul, Nat.one_mul, Nat.add_comm]
    simp
  have eD : (86400 + u32 - ((X.H * 60 + X.M) * 60 + X.S) % u32) % u32 = 86400 - ((X.H * 60 + X.M) * 60 + X.S) := by
    simp only [u32]; omega
  have eH : (3600 + u32 - (X.M * 60 + X.S) % u32) % u32 = 3600 - (X.M * 60 + X.S) := by simp only [u32]; omega
  have eM : (60 + u32 - X.S) % u32 = 60 - X.S := by simp only [u32]; omega
  -- a filtered day
  have hday : (¬ DateOk r X ∨ ¬ ydayOk r X) → ∃ t', t * (mkSubCtx r p k).inter =
      interPast (86400 - ((X.H * 60 + X.M) * 60 + X.S)) (mkSubCtx r p k).inter + t' * (mkSubCtx r p k).inter := by
    intro hn
    refine (skip_ex _ _ t hi1 hi2 (by omega) (by omega) ?_).2
    by_cases c : 86400 - ((X.H * 60 + X.M) * 60 + X.S) ≤ t * (mkSubCtx r p k).inter
    · exact c
    · obtain ⟨⟨e1, e2, e3⟩, _⟩ := hsp (by omega)
      obtain ⟨g1, g2⟩ := date_congr r x X e1 e2 e3
      rcases hn with hn | hn
      · exact absurd (g1.mp l1) hn
      · exact absurd (g2.mp l2) hn
  have T1 := t_day r p k hr X hX hy1 hy2 w hw
  have T2 := t_hour r p k hr X hX
  have T3 := t_min r p k hr X hX
  have T4 := t_sec r p k hr X hX
  have T5 := t_doy r p k hr X hX hy1 hy2
  unfold slyBody
  simp only [eD, eH, eM]
  by_cases c1 : (mkSubCtx r p k).dayOut w X.m X.d (getNdom X.y X.m) = true
  · rw [if_pos c1]
    exact Or.inr (hday (Or.inl (by rw [← T1]; simp [c1])))
  rw [if_neg c1]
  by_cases c2 : ((mkSubCtx r p k).HMask &&& shl1 X.H) = 0
  · rw [if_pos c2]
    refine Or.inr (skip_ex _ _ t hi1 hi2 (by omega) (by omega) ?_).2
    by_cases c : 3600 - (X.M * 60 + X.S) ≤ t * (mkSubCtx r p k).inter
    · exact c
    · obtain ⟨_, h2⟩ := hsp (by omega)
      obtain ⟨e4, _⟩ := h2 (by omega)
      exact absurd ((hour_congr r x X e4).mp l3) (T2.mp c2)
  rw [if_neg c2]
  by_cases c3 : ((mkSubCtx r p k).MMask &&& shl1q X.M) = 0
  · rw [if_pos c3]
    refine Or.inr (skip_ex _ _ t hi1 hi2 (by omega) (by omega) ?_).2
    by_cases c : 60 - X.S ≤ t * (mkSubCtx r p k).inter
    · exact c
    · obtain ⟨_, h2⟩ := hsp (by omega)
      obtain ⟨_, h3⟩ := h2 (by omega)
      obtain ⟨e5, _⟩ := h3 (by omega)
      exact absurd ((min_congr r x X e5).mp l4) (T3.mp c3)
  rw [if_neg c3]
  have ht0 : t = 0 → t * (mkSubCtx r p k).inter = 0 := fun h => by rw [h, Nat.zero_mul]
  by_cases c4 : ((mkSubCtx r p k).SMask &&& shl1q X.S) = 0
  · rw [if_pos c4]
    refine Or.inr (hone ?_)
    intro h0
    have hz := ht0 h0
    obtain ⟨_, h2⟩ := hsp (by omega)
    obtain ⟨_, h3⟩ := h2 (by omega)
    obtain ⟨_, h4⟩ := h3 (by omega)
    exact absurd ((sec_congr r x X (h4 hz)).mp l5) (T4.mp c4)
  rw [if_neg c4]
  by_cases c5 : (!(mkSubCtx r p k).r.doy.isEmpty &&
      !doyHit (mkSubCtx r p k).r.doy (ymdGetYd X.y X.m X.d) (maxyOf X.y)) = true
  · rw [if_pos c5]
    exact Or.inr (hday (Or.inr (by rw [← T5]; simp only [c5]; simp)))
  · rw [if_neg c5]
    by_cases h0 : t = 0
    · exact Or.inl ⟨rfl, h0⟩
    · exact Or.inr (hone h0)

end body

/-- the increment expression moves the candidate on by exactly `inc` seconds (or out of the years the loop visits) -/
theorem slyStep_adv (c : SubCtx) (f y m d H M S w cnt : Nat) (acc : List Inst) (inc : Nat)
    (hy1 : 1901 ≤ y) (hy2 : y ≤ 2099) (hm1 : 1 ≤ m) (hm2 : m ≤ 12) (hd1 : 1 ≤ d) (hd2 : d ≤ getNdom y m)
    (hH : H < 24) (hM : M < 60) (hS : S < 60) (hi1 : 1 ≤ inc) (hi2 : inc < 2147483648 + 86400)
    (hw : w = wdayOf (days y m d)) :
    ∃ y' m' d' H' M' S' w', slyStep c f y m d H M ((S + inc) % u32) w (getNdom y m) cnt acc =
        slyLoop c f y' m' d' H' M' S' w' (getNdom y' m') cnt acc ∧
      1901 ≤ y' ∧ 1 ≤ m' ∧ m' ≤ 12 ∧ 1 ≤ d' ∧ d' ≤ getNdom y' m' ∧ H' < 24 ∧ M' < 60 ∧ S' < 60 ∧
      (cabs y m d H M S + inc < days 2100 1 1 * 86400 →
        y' ≤ 2099 ∧ cabs y' m' d' H' M' S' = cabs y m d H M S + inc ∧ w' = wdayOf (days y' m' d')) ∧
      (days 2100 1 1 * 86400 ≤ cabs y m d H M S + inc → 2100 ≤ y') := by
  have hnb := getNdom_bounds y m hm1 hm2
  have hlt := days_lt_2100 y m d hy2 hm1 hm2 (by rw [← ndom_eq y m hy1 hy2 hm1 hm2]; exact hd2)
  have e : (S + inc) % u32 = S + inc := by simp only [u32]; omega
  rw [e]
  clear e
  have eM : (M + (S + inc) / 60) % u32 = M + (S + inc) / 60 := by simp only [u32]; omega
  have eH : (H + (M + (S + inc) / 60) / 60) % u32 = H + (M + (S + inc) / 60) / 60 := by
    simp only [u32]; omega
  simp only [slyStep, eM, eH]
  clear eM eH
  by_cases hC : S + inc ≥ 60
  · rw [if_pos hC]
    by_cases hD : M + (S + inc) / 60 ≥ 60
    · rw [if_pos hD]
      by_cases hE : H + (M + (S + inc) / 60) / 60 ≥ 24
      · rw [if_pos hE]
        obtain ⟨y', m', d', he, h0, h1, h2, h3, h4, h5, h6⟩ :=
          carry_full y m d ((H + (M + (S + inc) / 60) / 60) / 24) hy1 hy2 hm1 hm2 hd1 hd2 (by omega)
        have hwa := wday_adv (days y m d) w ((H + (M + (S + inc) / 60) / 60) / 24) hw (by omega)
        simp only [he]
        refine ⟨y', m', d', _, _, _, _, rfl, h0, h1, h2, h3, h4, by omega, by omega, by omega, ?_, ?_⟩
        · intro hlt2
          simp only [cabs] at hlt2 ⊢
          obtain ⟨g1, g2⟩ := h5 (by omega)
          refine ⟨g1, by omega, ?_⟩
          rw [hwa, g2]
        · intro hge
          simp only [cabs] at hge
          exact h6 (by omega)
      · rw [if_neg hE]
        refine ⟨y, m, d, _, _, _, w, rfl, hy1, hm1, hm2, hd1, hd2, by omega, by omega, by omega, ?_, ?_⟩
        · intro _; simp only [cabs]; exact ⟨hy2, by omega, hw⟩
        · intro hge; simp only [cabs] at hge; omega
    · rw [if_neg hD]
      refine ⟨y, m, d, _, _, _, w, rfl, hy1, hm1, hm2, hd1, hd2, hH, by omega, by omega, ?_, ?_⟩
      · intro _; simp only [cabs]; exact ⟨hy2, by omega, hw⟩
      · intro hge; simp only [cabs] at hge; omega
  · rw [if_neg hC]
    refine ⟨y, m, d, _, _, _, w, rfl, hy1, hm1, hm2, hd1, hd2, hH, hM, by omega, ?_, ?_⟩
    · intro _; simp only [cabs]; exact ⟨hy2, by omega, hw⟩
    · intro hge; simp only [cabs] at hge; omega

/-- results are only ever added -/
theorem slyLoop_mono (c : SubCtx) : ∀ (fuel y m d H M S w maxd cnt : Nat) (acc acc' : List Inst),
    slyLoop c fuel y m d H M S w maxd cnt acc = some acc' → ∀ z ∈ acc, z ∈ acc' := by
  intro fuel
  induction fuel with
  | zero => intro y m d H M S w maxd cnt acc acc' h; simp [slyLoop] at h
  | succ f ih =>
    intro y m d H M S w maxd cnt acc acc' h z hz
    rw [slyLoop_succ] at h
    split at h
    · cases h; exact hz
    split at h
    · cases h; exact hz
    split at h
    · cases h; exact hz
    generalize slyBody c y m d H M S w maxd = bd at h
    obtain ⟨hit, inc⟩ := bd
    simp only at h
    have hz1 : z ∈ (if hit = true then mkInst y m d H M S c.proto.ms :: acc else acc) := by
      split
      · exact List.mem_cons_of_mem _ hz
      · exact hz
    generalize (if hit = true then mkInst y m d H M S c.proto.ms :: acc else acc) = acc1 at h hz1
    generalize (if hit = true then cnt + 1 else cnt) = cnt1 at h
    unfold slyStep at h
    simp only at h
    split at h
    · split at h
      · split at h
        · split at h
          · cases h
          · exact ih _ _ _ _ _ _ _ _ _ _ _ h z hz1
        · exact ih _ _ _ _ _ _ _ _ _ _ _ h z hz1
      · exact ih _ _ _ _ _ _ _ _ _ _ _ h z hz1
    · exact ih _ _ _ _ _ _ _ _ _ _ _ h z hz1

theorem slyBody_mul (c : SubCtx) (hi1 : 1 ≤ c.inter) (hi2 : c.inter < 2147483648)
    (y m d H M S w maxd : Nat) (hH : H < 24) (hM : M < 60) (hS : S < 60) :
    ∃ j, (slyBody c y m d H M S w maxd).2 = j * c.inter := by
  have hpastD : ∃ j, interPast ((86400 + u32 - ((H * 60 + M) * 60 + S) % u32) % u32) c.inter = j * c.inter := by
    have e : (86400 + u32 - ((H * 60 + M) * 60 + S) % u32) % u32 = 86400 - ((H * 60 + M) * 60 + S) := by
      simp only [u32]; omega
    rw [e]
    exact interPast_mul _ _ hi1 hi2 (by omega) (by omega)
  have hpastH : ∃ j, interPast ((3600 + u32 - (M * 60 + S) % u32) % u32) c.inter = j * c.inter := by
    have e : (3600 + u32 - (M * 60 + S) % u32) % u32 = 3600 - (M * 60 + S) := by simp only [u32]; omega
    rw [e]
    exact interPast_mul _ _ hi1 hi2 (by omega) (by omega)
  have hpastM : ∃ j, interPast ((60 + u32 - S) % u32) c.inter = j * c.inter := by
    have e : (60 + u32 - S) % u32 = 60 - S := by simp only [u32]; omega
    rw [e]
    exact interPast_mul _ _ hi1 hi2 (by omega) (by omega)
  have hint : ∃ j, c.inter = j * c.inter := ⟨1, by rw [Nat.one_mul]⟩
  simp only [slyBody]
  split
  · exact hpastD
  · split
    · exact hpastH
    · split
      · exact hpastM
      · split
        · exact hint
        · split
          · exact hpastD
          · exact hint

end Echse.Lemmas.RrSlyRfc
