/-
  Model of the byte and line layer of the iCalendar push parser in src/evical.c:
  `esccpy` (unfold / unescape copy into the stash, which grows), `_ical_pull` (line chopping, the
  newline-seen mark, over-long input), the component state machine of `_ical_proc` (which lines open and
  close VCALENDAR / VEVENT / VTODO / other components, when an instruction is complete, when the
  parser gives up), `echs_evical_push` / `pull` / `last_pull` and the callers' protocol
  (after each push: pull until the verb is unknown; at the end one last pull).

  What a property line MEANS (snarf_fld, snarf_pro, make_task) is not modelled here: an instruction is
  represented by the list of unfolded property lines of its VEVENT/VTODO.  Keyword tables come from
  the generated `Echse.Gen.Keywords`.  Bytes are `Nat`s (< 256).
  Hand transcription tied to the C code by vlib/p_C10.py through the ECHSE_VERIF hook in `_ical_proc`.
-/
import Echse.Gen.Keywords
namespace Echse.Ical
open Echse.Gen

abbrev Byte := Nat
def NL : Byte := 10
def CR : Byte := 13
def SP : Byte := 32
def TAB : Byte := 9
def BSL : Byte := 92

/-- `esccpy(tgt, tz, src, sz)`: returns the bytes appended (`none` = the copy overran `tz`, the C function
returns 0) and the byte it leaves at `tgt[n]` (the terminator position; 0 in both cases). -/
def esccpy (tz : Nat) (src : List Byte) : Option (List Byte) × Byte :=
  let rec go (fuel : Nat) (s : List Byte) (acc : List Byte) : Option (List Byte) :=
    match fuel, s with
    | 0, _ => some acc
    | _, [] => some acc
    | fuel+1, c :: rest =>
      let (acc', rest') :=
        if c = CR then (acc, rest)
        else if c = NL then (acc, rest.drop 1)             -- overread along with the next byte
        else if c = BSL then (acc ++ [c], rest.drop 1)     -- inner switch still looks at the backslash: it is
                                                           -- copied and the byte behind it is skipped (finding D17)
        else (acc ++ [c], rest)
      if acc'.length ≥ tz then none else go fuel rest' acc'
  match go (src.length + 1) src [] with
  | some out => (some out, 0)
  | none => (none, 0)          -- `*tgt = '\\0'` on giving up

/-! ### component state machine (`_ical_proc`) -/

inductive PSt where
  | unk | vcal | vtod | voth (depth : Nat)
deriving Repr, DecidableEq

inductive PRes where
  | none          -- NULL: go on with the next line
  | eop           -- ICAL_EOP: the parser is torn down
  | ve            -- an event / todo is complete
deriving Repr, DecidableEq

def bytesToString (l : List Byte) : String := String.ofList (l.map fun b => Char.ofNat b)

def lookup (tab : List (String × String)) (k : List Byte) : Option String :=
  (tab.find? fun kv => kv.1 == bytesToString k).map (·.2)

/-- split an unfolded line (C string: cut at the first NUL) into field name and value, as `_ical_proc` does -/
def splitLine (line : List Byte) : Option (List Byte × List Byte) :=
  let line := line.takeWhile (· ≠ 0)
  let name := line.takeWhile fun b => b ≠ 58 ∧ b ≠ 59          -- strpbrk(sp, ":;")
  if name.length = line.length then none else
  let rest := line.drop name.length
  -- value: behind the first ':' at or after eofld
  let upto := rest.takeWhile (· ≠ 58)
  if upto.length = rest.length then none else some (name, rest.drop (upto.length + 1))

structure Comp where
  st : PSt := .unk
  meth : Option String := none     -- globve.meth
  cur : List (List Byte) := []     -- property lines of the event being read
deriving Repr

/-- one unfolded line through `_ical_proc`: new state and result -/
def procLine (c : Comp) (line : List Byte) : Comp × PRes :=
  match splitLine line with
  | none => (c, .none)
  | some (name, val) =>
    match lookup icalFields name with
    | none => (c, .none)
    | some fld =>
      let comp := lookup icalComps val
      match c.st with
      | .unk =>
        if fld == "FLD_BEGIN" then
          if comp == some "COMP_VCAL" then ({ st := .vcal, meth := none, cur := [] }, .none)
          else ({ c with st := .voth 0 }, .none)
        else (c, .eop)
      | .voth d =>
        if fld == "FLD_BEGIN" then ({ c with st := .voth (d + 1) }, .none)
        else if fld == "FLD_END" then
          if comp == some "COMP_VCAL" then ({ c with st := .unk }, .eop)
          else if d = 0 then ({ c with st := .vcal }, .none) else ({ c with st := .voth (d - 1) }, .none)
        else (c, .none)
      | .vcal =>
        if fld == "FLD_BEGIN" ∨ fld == "FLD_END" then
          match comp with
          | none => if fld == "FLD_END" then ({ c with st := .unk }, .eop) else ({ c with st := .voth 0 }, .none)
          | some k =>
            if k == "COMP_VTOD" ∨ k == "COMP_VEVT" then
              if fld == "FLD_BEGIN" then ({ c with st := .vtod, cur := [] }, .none) else ({ c with st := .unk }, .eop)
            else ({ c with st := .unk }, .eop)
        else if fld == "FLD_METH" then ({ c with meth := lookup icalMeths val }, .none)
        else (c, .none)
      | .vtod =>
        if fld == "FLD_BEGIN" then ({ c with st := .unk }, .eop)
        else if fld == "FLD_END" then
          if comp == some "COMP_VEVT" ∨ comp == some "COMP_VTOD" then ({ c with st := .vcal }, .ve)
          else ({ c with st := .unk }, .eop)
        else ({ c with cur := c.cur ++ [line.takeWhile (· ≠ 0)] }, .none)

/-! ### `_ical_pull` -/

structure Parser where
  stash : List Byte := []      -- stash[0 .. six)
  sentinel : Byte := 0         -- stash[six]
  eolp : Bool := false         -- the stash ends where a newline was, which the bytes to come may turn into a fold
  skip : Bool := false         -- the line under way does not fit the stash: it is passed over as a whole
  buf : List Byte := []
  bix : Nat := 0
  comp : Comp := {}
  log : List (List Byte) := [] -- every line handed to `_ical_proc` (what the verification hook reports)
deriving Repr

/-- end of the (possibly folded) line starting at `tmp`: the loop
`for (tmp = BP; (eol = memchr(tmp, '\n')) && ++eol < ep && (*eol == ' ' || *eol == '\t'); tmp = eol);`
Returns `none` if no newline was found from the last `tmp`, else the index just behind that newline. -/
def findEol (b : List Byte) : Nat → Nat → Option Nat
  | 0, _ => none
  | fuel+1, tmp =>
    let rest := b.drop tmp
    let k := (rest.takeWhile (· ≠ NL)).length
    if k = rest.length then none
    else
      let eol := tmp + k + 1
      if eol < b.length ∧ (b.getD eol 0 = SP ∨ b.getD eol 0 = TAB) then findEol b fuel eol else some eol

inductive PullRes where
  | need | eop | ve (lines : List (List Byte))
deriving Repr

/-- run `_ical_proc` on the stash -/
def doProc (p : Parser) : Parser × PRes :=
  let line := p.stash
  let (c, r) := procLine p.comp line
  ({ p with comp := c, stash := [], log := p.log ++ [line.takeWhile (· ≠ 0)] }, r)

/-- `_ical_pull`; `fuel` bounds the `goto chop_more` loop (every round consumes at least one byte or returns).
The stash grows with the lines (`stashcpy`: room for `six + sz + 1` bytes is made before `esccpy` runs, which never
writes more than it reads), so `esccpy` is handed `sz + 1` bytes of room or more and its result does not depend on how
much more.  `skip` (the line under way is passed over, whatever the chunks were) is what the C code falls back to when
`realloc` fails; allocation failure is not modelled, the branch is kept for the shape of the code. -/
def pull : Nat → Parser → Parser × PullRes
  | 0, p => (p, .need)
  | fuel+1, p =>
    -- pre-examination of the stash mark
    let bp := p.buf.getD p.bix 0
    let marked := p.eolp = true
    let p := if marked then { p with eolp := false } else p
    -- `proc:` — a line passed over ends here; an empty line is no line; otherwise `_ical_proc`
    let proc := fun (p : Parser) =>
      if p.skip then pull fuel { p with skip := false, stash := [] }
      else if p.stash.length ≠ 0 then
        let (p, r) := doProc p
        match r with
        | .none => pull fuel p
        | .eop => (p, .eop)
        | .ve => (p, .ve p.comp.cur)
      else pull fuel p
    if marked ∧ bp ≠ SP ∧ bp ≠ TAB then proc p
    else
      let p := if marked then { p with bix := p.bix + 1 } else p      -- the folding whitespace
      let b := p.buf.drop p.bix
      let bz := b.length
      let eol := findEol b (bz + 1) 0
      let noEol : Bool := match eol with | none => true | some e => decide (e ≥ bz)
      if noEol then
        -- the end of the buffer in the middle of a line: to the stash with what there is, without the folds
        let p := if p.skip then p else
          match esccpy (b.length + 1) b with
          | (some o, _) => { p with stash := p.stash ++ o, sentinel := 0 }
          | (none, _) => { p with skip := true, stash := [] }
        ({ p with eolp := p.eolp || eol.isSome, bix := p.buf.length }, .need)   -- `BI = p->bsz`: the buffer is used up
      else
        let llen := eol.getD 0
        let p := { p with bix := p.bix + llen }
        let p := if p.skip then p else
          match esccpy ((b.take llen).length + 1) (b.take llen) with
          | (some o, _) => { p with stash := p.stash ++ o, sentinel := 0 }
          | (none, sent) => { p with skip := true, sentinel := sent }
        proc p

/-- an instruction as the callers see it -/
structure Instr where
  verb : String              -- S (schedule), U (cancel), R (reply), X (other method: verb unknown)
  lines : List (List Byte)
deriving Repr

/-- the verb `echs_evical_pull` derives from the calendar's METHOD; for a REPLY from the first character of
the event's last REQUEST-STATUS value (`2` = success, `5` = failure, anything else: verb unknown) -/
def verbOf (meth : Option String) (lines : List (List Byte) := []) : String :=
  match meth with
  | none | some "METH_PUBLISH" | some "METH_REQUEST" => "S"
  | some "METH_REPLY" =>
    let rs := lines.filterMap fun l =>
      match splitLine l with
      | some (name, val) => if lookup icalFields name == some "FLD_RSTAT" ∧ val ≠ [] then some (val.headD 0) else none
      | none => none
    match rs.getLast? with
    | some 50 => "R"       -- '2'
    | some 53 => "U"       -- '5'
    | _ => "X"
  | some "METH_CANCEL" => "U"
  | _ => "X"

/-- `echs_evical_pull`: `_ical_pull` until it reports something other than the end of a calendar; an end of
calendar resets the calendar-level state (`globve`) and the parse goes on in the same buffer -/
def pullIns : Nat → Parser → Parser × PullRes
  | 0, p => (p, .need)
  | fuel+1, p =>
    let (p, r) := pull (p.buf.length + 2) p
    match r with
    | .eop => pullIns fuel { p with comp := { p.comp with meth := none } }
    | r => (p, r)

/-- the rest of `echs_evical_pull`: an event whose METHOD (or REQUEST-STATUS) gives no verb is passed over and the
parse goes on in the same buffer (callers take the unknown verb for `need more data') -/
def pullEv : Nat → Parser → Parser × PullRes
  | 0, p => (p, .need)
  | fuel+1, p =>
    let (p, r) := pullIns (p.buf.length + 2) p
    match r with
    | .ve ls => if verbOf p.comp.meth ls == "X" then pullEv fuel p else (p, .ve ls)
    | r => (p, r)

/-- the callers' loop after one push: pull while instructions keep coming -/
def drain : Nat → Parser → List Instr → Parser × List Instr
  | 0, p, acc => (p, acc)
  | fuel+1, p, acc =>
    let (p, r) := pullEv (p.buf.length + 2) p
    match r with
    | .need | .eop => (p, acc)
    | .ve ls => drain fuel p (acc ++ [{ verb := verbOf p.comp.meth ls, lines := ls }])

/-- the whole protocol over a chunking of the input; returns the instructions and the log of lines acted upon -/
def feed (chunks : List (List Byte)) : List Instr × List (List Byte) :=
  let step := fun (acc : Option Parser × List Instr) (ch : List Byte) =>
    let (p, ins) := acc
    if ch.isEmpty ∧ p.isNone then acc else          -- `_ical_init_push` refuses an empty first buffer
    let p0 : Parser := match p with
      | some q => { q with buf := ch, bix := 0 }
      | none => { buf := ch }
    let (p1, ins1) := drain (ch.length + 2) p0 []
    (some p1, ins ++ ins1)
  let (p, ins) := chunks.foldl step (none, [])
  -- last pull
  match p with
  | none => (ins, [])
  | some q =>
    let (q, r) := pullEv (q.buf.length + 2) q
    match r with
    | .ve ls =>
      -- `echs_evical_last_pull` hands back whatever the pull gives: L (a task), LU (cancel), LR (reply)
      let v := verbOf q.comp.meth ls
      (ins ++ [{ verb := if v == "S" then "L" else "L" ++ v, lines := ls }], q.log)
    | _ => (ins, q.log)

end Echse.Ical
