/-
  C01 for the YEARLY / MONTHLY filler models, part 3: the abstract period loop `aLoop` — what is in its cache comes
  from a period it went through (`aLoop_mem`), and under the hypotheses `LoopHyp` (the periods' lists are ascending and
  follow one another) and `TargetHyp` (the instants wanted: where they sit, that they pass the tests, that they recur
  often enough for `tries` not to run out) none is missing (`aLoop_complete`).
-/
import Echse.Lemmas.RrCandRfc2
namespace Echse.Lemmas.RrCandRfc
open Echse.Rrule Echse.Instant Echse.Spec.RrOk Echse.Lemmas.RrCandOk

section
variable {P : Type} (k : FillCtx) (T : Nat) (yr : P → Nat) (E : P → List Inst) (next : P → P)

/-- positions the loop can be at (`Reach`), their index on the period grid (`g`), a measure that bounds the run (`mu`) -/
structure LoopHyp (Reach : P → Prop) (g : P → Nat) (mu : P → Nat) (B : Nat) : Prop where
  step : ∀ p, Reach p → yr p ≤ 2099 → Reach (next p) ∧ g p < g (next p) ∧ mu p < mu (next p)
  beyond : ∀ p, Reach p → B < mu p → 2099 < yr p
  sorted : ∀ p, Reach p → yr p ≤ 2099 → (E p).Pairwise (fun a b => ltP a b = true)
  cross : ∀ q p, Reach q → Reach p → yr q ≤ 2099 → yr p ≤ 2099 → g q < g p →
    ∀ a ∈ E q, ∀ b ∈ E p, ltP a b = true

/-- the instants wanted (`Target`) and the grid index of their period (`gi`) -/
structure TargetHyp (Reach : P → Prop) (g : P → Nat) (Target : Inst → Prop) (gi : Inst → Nat) : Prop where
  skip : ∀ x p, Target x → Reach p → g p < gi x → yr p ≤ 2099 ∧ g (next p) ≤ gi x
  here : ∀ x p, Target x → Reach p → g p = gi x → yr p ≤ 2099 ∧ x ∈ E p
  tests : ∀ x, Target x → ltP k.untl x = false ∧ ltP x k.proto = false
  later : ∀ x p, Target x → Reach p → yr p ≤ 2099 → g p < gi x → ∀ a ∈ E p, ltP a x = true
  periodic : ∀ x j, Target x → T - 1 ≤ j → j ≤ gi x → ∃ x', Target x' ∧ gi x' < j ∧ j ≤ gi x' + (T - 1)

theorem aLoop_mem {Reach : P → Prop} {g mu : P → Nat} {B : Nat} (H : LoopHyp yr E next Reach g mu B) :
    ∀ (fuel : Nat) (p : P) (tries : Nat) (st : FillSt), Reach p →
      ∀ z ∈ (aLoop k T yr E next fuel p tries st).out,
        z ∈ st.out ∨ ∃ q, Reach q ∧ yr q ≤ 2099 ∧ z ∈ E q ∧ ltP k.untl z = false ∧ ltP z k.proto = false := by
  intro fuel
  induction fuel with
  | zero => intro p tries st _ z hz; exact Or.inl hz
  | succ fuel ih =>
    intro p tries st hr z hz
    unfold aLoop at hz
    by_cases c1 : (!decide (st.res < k.nti)) = true
    · rw [if_pos c1] at hz; exact Or.inl hz
    rw [if_neg c1] at hz
    by_cases c2 : tries - 1 = 0
    · rw [if_pos c2] at hz; exact Or.inl hz
    rw [if_neg c2] at hz
    by_cases c3 : yr p > maxYear
    · rw [if_pos c3] at hz; exact Or.inl hz
    rw [if_neg c3] at hz
    have hy : yr p ≤ 2099 := by unfold maxYear at c3; omega
    have hF : ∀ z ∈ ((E p).foldl (pstep k) { st with hit := false }).out,
        z ∈ st.out ∨ ∃ q, Reach q ∧ yr q ≤ 2099 ∧ z ∈ E q ∧ ltP k.untl z = false ∧ ltP z k.proto = false := by
      intro z hz
      rcases fold_mem k (E p) _ z hz with h | ⟨h1, h2, h3⟩
      · exact Or.inl h
      · exact Or.inr ⟨p, hr, hy, h1, h2, h3⟩
    by_cases c4 : ((E p).foldl (pstep k) { st with hit := false }).fin = true
    · rw [if_pos c4] at hz; exact hF z hz
    rw [if_neg c4] at hz
    rcases ih _ _ _ (H.step p hr hy).1 z hz with h | h
    · exact hF z h
    · exact Or.inr h

theorem aLoop_base : ∀ (fuel : Nat) (p : P) (tries : Nat) (st : FillSt), st.res = st.out.length → st.res ≤ k.nti →
    (aLoop k T yr E next fuel p tries st).res = (aLoop k T yr E next fuel p tries st).out.length ∧
      (aLoop k T yr E next fuel p tries st).res ≤ k.nti := by
  intro fuel
  induction fuel with
  | zero => intro p tries st h1 h2; exact ⟨h1, h2⟩
  | succ fuel ih =>
    intro p tries st h1 h2
    unfold aLoop
    by_cases c1 : (!decide (st.res < k.nti)) = true
    · rw [if_pos c1]; exact ⟨h1, h2⟩
    rw [if_neg c1]
    by_cases c2 : tries - 1 = 0
    · rw [if_pos c2]; exact ⟨h1, h2⟩
    rw [if_neg c2]
    by_cases c3 : yr p > maxYear
    · rw [if_pos c3]; exact ⟨h1, h2⟩
    rw [if_neg c3]
    have hb := fold_base k (E p) { st with hit := false } h1 h2
    by_cases c4 : ((E p).foldl (pstep k) { st with hit := false }).fin = true
    · rw [if_pos c4]; exact hb
    rw [if_neg c4]
    exact ih _ _ _ hb.1 hb.2

/-- the invariant of the completeness proof -/
structure CInv (Reach : P → Prop) (g : P → Nat) (Target : Inst → Prop) (gi : Inst → Nat)
    (p : P) (tries : Nat) (st : FillSt) : Prop where
  reach : Reach p
  base : st.res = st.out.length ∧ st.res ≤ k.nti
  nfin : st.fin = false
  past : ∀ x, Target x → gi x < g p →
    x ∈ st.out ∨ ((!decide (st.res < k.nti)) = true ∧ ∀ z ∈ st.out, ltP z x = true)
  src : ∀ z ∈ st.out, ∃ q, Reach q ∧ yr q ≤ 2099 ∧ g q < g p ∧ z ∈ E q
  tri : ∀ h, h ≤ g p → (h = 0 ∨ ∃ x, Target x ∧ gi x + 1 = h) → T ≤ tries + (g p - h)

theorem aLoop_complete {Reach : P → Prop} {g mu : P → Nat} {B : Nat} {Target : Inst → Prop} {gi : Inst → Nat}
    (H : LoopHyp yr E next Reach g mu B) (G : TargetHyp k T yr E next Reach g Target gi) (hT : 2 ≤ T) :
    ∀ (fuel : Nat) (p : P) (tries : Nat) (st : FillSt), CInv k T yr E Reach g Target gi p tries st →
      B < mu p + fuel → ∀ x, Target x →
      x ∈ (aLoop k T yr E next fuel p tries st).out ∨
        ((!decide ((aLoop k T yr E next fuel p tries st).res < k.nti)) = true ∧
          ∀ z ∈ (aLoop k T yr E next fuel p tries st).out, ltP z x = true) := by
  intro fuel
  induction fuel with
  | zero =>
    intro p tries st I hB x hx
    have hy := H.beyond p I.reach (by omega)
    show x ∈ st.out ∨ _
    by_cases c : gi x < g p
    · exact I.past x hx c
    · by_cases c' : g p = gi x
      · have := (G.here x p hx I.reach c').1; omega
      · have := (G.skip x p hx I.reach (by omega)).1; omega
  | succ fuel ih =>
    intro p tries st I hB x hx
    -- no target at or after this period can be given up on
    have hbey : 2099 < yr p → gi x < g p := by
      intro hy
      by_cases c : gi x < g p
      · exact c
      · by_cases c' : g p = gi x
        · have := (G.here x p hx I.reach c').1; omega
        · have := (G.skip x p hx I.reach (by omega)).1; omega
    have hafter : g p ≤ gi x → ∀ z ∈ st.out, ltP z x = true := by
      intro hge z hz
      obtain ⟨q, q1, q2, q3, q4⟩ := I.src z hz
      exact G.later x q hx q1 q2 (by omega) z q4
    unfold aLoop
    by_cases c1 : (!decide (st.res < k.nti)) = true
    · rw [if_pos c1]
      by_cases c : gi x < g p
      · exact I.past x hx c
      · exact Or.inr ⟨c1, hafter (by omega)⟩
    rw [if_neg c1]
    by_cases c2 : tries - 1 = 0
    · rw [if_pos c2]
      by_cases c : gi x < g p
      · exact I.past x hx c
      · exfalso
        by_cases cj : g p ≤ T - 2
        · have := I.tri 0 (Nat.zero_le _) (Or.inl rfl); omega
        · obtain ⟨x', t1, t2, t3⟩ := G.periodic x (g p) hx (by omega) (by omega)
          have := I.tri (gi x' + 1) (by omega) (Or.inr ⟨x', t1, rfl⟩); omega
    rw [if_neg c2]
    by_cases c3 : yr p > maxYear
    · rw [if_pos c3]
      exact I.past x hx (hbey (by unfold maxYear at c3; omega))
    rw [if_neg c3]
    have hy : yr p ≤ 2099 := by unfold maxYear at c3; omega
    have hprev : ∀ z ∈ ({ st with hit := false } : FillSt).out, ∀ y ∈ E p, ltP z y = true := by
      intro z hz y hyE
      obtain ⟨q, q1, q2, q3, q4⟩ := I.src z hz
      exact H.cross q p q1 I.reach q2 hy q3 z q4 y hyE
    have hfin0 : ({ st with hit := false } : FillSt).fin = true → ∀ y ∈ E p, ltP k.untl y = true := by
      intro hf; have : st.fin = true := hf; rw [I.nfin] at this; cases this
    have hcomp := fun (w : Inst) (hw : Target w) (hg : g p = gi w) =>
      fold_complete k (E p) { st with hit := false } (H.sorted p I.reach hy) hprev hfin0 w
        (G.here w p hw I.reach hg).2 (G.tests w hw).1 (G.tests w hw).2
    have hpast : ∀ w, Target w → gi w < g p → w ∈ ((E p).foldl (pstep k) { st with hit := false }).out := by
      intro w hw hlt
      rcases I.past w hw hlt with h | ⟨h, _⟩
      · exact fold_mono k (E p) _ w h
      · exact absurd h c1
    have hhit := fold_hit k (E p) { st with hit := false }
    have hbase := fold_base k (E p) { st with hit := false } I.base.1 I.base.2
    have hmem := fold_mem k (E p) { st with hit := false }
    have hffin := fold_fin k (E p) { st with hit := false }
    generalize (E p).foldl (pstep k) { st with hit := false } = F at *
    by_cases c4 : F.fin = true
    · rw [if_pos c4]
      by_cases c : gi x < g p
      · exact Or.inl (hpast x hx c)
      · by_cases c' : g p = gi x
        · exact hcomp x hx c'
        · exfalso
          rcases hffin c4 with h | ⟨y, hyE, hyu⟩
          · have : st.fin = true := h; rw [I.nfin] at this; cases this
          · have := ltP_untl_trans hyu (G.later x p hx I.reach hy (by omega) y hyE)
            rw [(G.tests x hx).1] at this; cases this
    rw [if_neg c4]
    obtain ⟨s1, s2, s3⟩ := H.step p I.reach hy
    refine ih (next p) _ F ⟨s1, hbase, ?_, ?_, ?_, ?_⟩ (by omega) x hx
    · cases hf : F.fin; rfl; exact absurd hf c4
    · intro w hw hlt
      by_cases c : gi w < g p
      · exact Or.inl (hpast w hw c)
      · by_cases c' : g p = gi w
        · exact hcomp w hw c'
        · have := (G.skip w p hw I.reach (by omega)).2; omega
    · intro z hz
      rcases hmem z hz with h | ⟨h, _⟩
      · obtain ⟨q, q1, q2, q3, q4⟩ := I.src z h
        exact ⟨q, q1, q2, by omega, q4⟩
      · exact ⟨p, I.reach, hy, s2, h⟩
    · intro h hle hv
      by_cases ch : F.hit = true
      · rw [if_pos ch]; omega
      · rw [if_neg ch]
        rcases hhit with ⟨h1, _⟩ | ⟨_, ho, hr⟩
        · exact absurd h1 ch
        · by_cases chh : h ≤ g p
          · have := I.tri h chh hv; omega
          · exfalso
            rcases hv with hv | ⟨w, hw, hgw⟩
            · omega
            · by_cases c' : g p = gi w
              · rcases hcomp w hw c' with hin | ⟨hfull, _⟩
                · rw [ho] at hin
                  obtain ⟨q, q1, q2, q3, q4⟩ := I.src w hin
                  have := G.later w q hw q1 q2 (by omega) w q4
                  rw [ltP_irrefl] at this; cases this
                · rw [hr] at hfull; exact absurd hfull c1
              · have := (G.skip w p hw I.reach (by omega)).2; omega

end
end Echse.Lemmas.RrCandRfc
