import Echse.Model.Stream
namespace C03
open Echse.Stream

/-- smoke (general statements replace this) -/
theorem two_sources_collapse :
    (muxNext listOps (Mux.make [[⟨5, 0, 1⟩, ⟨9, 0, 1⟩], [⟨5, 0, 1⟩, ⟨7, 0, 2⟩]]) true).1 = ⟨5, 0, 1⟩ := by decide

end C03
