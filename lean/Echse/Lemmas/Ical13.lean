/-
  C10 lemmas, part 13: `chop_more` when the rest of the buffer is a piece of one logical line (it goes to
  the stash), in terms of the automaton.
-/
import Echse.Lemmas.Ical12
namespace Echse.Ical

def book (x : Parser × Option PullRes) (acc : List Instr) : Option (Parser × List Instr) :=
  match x.2 with
  | none => some (x.1, acc)
  | some .need => none
  | some .eop => some (resetMeth x.1, acc)
  | some (.ve ls) =>
    if verbOf x.1.comp.meth ls == "X" then some (x.1, acc) else some (x.1, acc ++ [mkInstr x.1 ls])

theorem flatNext_eq (p : Parser) (acc : List Instr) : flatNext p acc = book (round p) acc := rfl

theorem book_proc (q0 : Parser) (acc : List Instr) :
    book (procRes (doProc q0)) acc = some (bookProc q0 acc) := by
  have := flatNext_proc
  unfold book bookProc procRes
  cases hr : (doProc q0).2 with
  | none => rfl
  | eop => rfl
  | ve =>
    dsimp only
    split <;> rfl

theorem rel_unmarked (p : Parser) (A : Abs) (h : Rel p A) (hp : A.sc.pend = false) : p.eolp = false := by
  cases hx : p.eolp with
  | false => rfl
  | true => have := h.mark.1 hx; rw [hp] at this; cases this

theorem stashRest_eq (p : Parser) (s : Bool) (h : p.stash.length + (rest p).length < stashSize)
    (hu : p.eolp = false) :
    (stashRest p s).1 =
      { p with stash := p.stash ++ unesc (rest p), sentinel := 0, eolp := s, bix := p.buf.length } := by
  unfold stashRest
  have hl := unesc_length (rest p)
  unfold rest at h hl ⊢
  dsimp only
  rw [if_neg (by omega), esccpy_eq _ _ (by omega), hu]
  rfl

theorem takeLine_eq (p : Parser) (e : Nat) (h : p.stash.length + e < stashSize) :
    takeLine p e = { p with bix := p.bix + e, stash := p.stash ++ unesc ((rest p).take e), sentinel := 0 } := by
  unfold takeLine
  have hl := unesc_length ((rest p).take e)
  have : ((rest p).take e).length ≤ e := by simp; omega
  unfold rest at hl this ⊢
  rw [esccpy_eq _ _ (by omega)]

/-- what is known of a parser that reported `need more data`, and of its automaton state: the buffer is used
up (`BI = p->bsz` in the stash branch), so the pre-examination of a marked stash reads 0 behind it -/
structure Post (p : Parser) (A : Abs) : Prop where
  rel : Rel p A
  done : rest p = []
  inv : Inv A

/-- the rest of the buffer is a piece of one line: it is stashed -/
theorem stash_spec (p : Parser) (A : Abs) (h : Pre p A) (hp : A.sc.pend = false) (b : Bool)
    (hl : lineEnd (rest p) = some b) :
    Post (stashRest p b).1 (runA A (rest p)) ∧ (runA A (rest p)).ins = A.ins := by
  have hrun := seg_runA _ (rest p) A b (Nat.le_refl _) hl h.nobsl hp
  have hsc := seg_runSc _ (rest p) A.sc b (Nat.le_refl _) hl hp
  have hraw := good_raw _ _ h.good
  rw [hsc.2.1] at hraw
  have hlen : p.stash.length + (rest p).length < stashSize := by
    have := h.inv.2.1; rw [← h.rel.stash] at this
    unfold stashSize; omega
  rw [stashRest_eq p _ hlen (rel_unmarked p A h.rel hp), hrun]
  refine ⟨⟨⟨?_, h.rel.comp, h.rel.log, ?_⟩, ?_, ?_⟩, rfl⟩
  · show p.stash ++ unesc (rest p) = A.cur ++ unesc (rest p)
    rw [h.rel.stash]
  · show b = true ↔ (runSc A.sc (rest p)).pend = true
    rw [hsc.1]
  · show List.drop p.buf.length p.buf = []
    exact List.drop_length
  · have := runA_inv A (rest p) h.inv
    rw [hrun] at this; exact this

end Echse.Ical
