/-
  Stream layer, part 2: `next_evmux` on the level of the lists the sources stand for.
  `lscan` / `lstep` are `scan` / `muxNext` with every sub-stream replaced by its list; all
  properties of the merge are proved here, `Stream3` ties `muxNext` to `lstep`.
-/
import Echse.Lemmas.Stream
namespace Echse.Stream

/-! ### definitions -/

/-- `scan` on lists: a source is its list, its cached event the head -/
def lscan : List (List Event) → Nat → Event → Nat → List (List Event) × Event × Nat
  | [], _, best, bi => ([], best, bi)
  | [] :: rest, i, best, bi =>
      ([] :: (lscan rest (i+1) best bi).1, (lscan rest (i+1) best bi).2)
  | (h :: t) :: rest, i, best, bi =>
      if evLt h best then ((h :: t) :: (lscan rest (i+1) h i).1, (lscan rest (i+1) h i).2)
      else if evEq h best then (t :: (lscan rest (i+1) best bi).1, (lscan rest (i+1) best bi).2)
      else ((h :: t) :: (lscan rest (i+1) best bi).1, (lscan rest (i+1) best bi).2)

/-- index of the first non-empty list -/
def lfirst : List (List Event) → Nat → Option Nat
  | [], _ => none
  | l :: ls, i => if l.isEmpty then lfirst ls (i+1) else some i

/-- pop the `n`-th list -/
def popAt : Nat → List (List Event) → List (List Event)
  | _, [] => []
  | 0, l :: ls => l.tail :: ls
  | n+1, l :: ls => l :: popAt n ls

/-- `muxNext` on lists -/
def lstep (ls : List (List Event)) (popp : Bool) : Event × List (List Event) :=
  match lfirst ls 0 with
  | none => (Event.nul, [])
  | some i0 =>
    let r := lscan (ls.drop (i0+1)) (i0+1) (hd (ls.getD i0 [])) i0
    (r.2.1, if popp then popAt r.2.2 (ls.take (i0+1) ++ r.1) else ls.take (i0+1) ++ r.1)

/-- the merge as a stream over the lists of lists -/
def lOps : Ops (List (List Event)) where
  peek := fun ls => lstep ls false
  pop := fun ls => lstep ls true

@[simp] theorem call_lOps (ls : List (List Event)) (b : Bool) : call lOps ls b = lstep ls b := by
  cases b <;> rfl

/-- number of events in all lists -/
def total : List (List Event) → Nat
  | [] => 0
  | l :: ls => l.length + total ls

/-- all sources are sorted lists of non-nul events -/
def Valid (ls : List (List Event)) : Prop := ∀ l ∈ ls, NonNul l ∧ Sorted l

/-- pointwise suffix (or dropped altogether, as at the end of the stream) -/
inductive LSuf : List (List Event) → List (List Event) → Prop
  | nil (ls : List (List Event)) : LSuf [] ls
  | cons {l' l : List Event} {ls' ls : List (List Event)} : l' <:+ l → LSuf ls' ls → LSuf (l' :: ls') (l :: ls)

/-! ### `LSuf`, `total`, `popAt` -/

theorem LSuf.refl : ∀ ls, LSuf ls ls
  | [] => LSuf.nil _
  | l :: ls => LSuf.cons (List.suffix_refl l) (LSuf.refl ls)

theorem LSuf.trans {a b c : List (List Event)} (h1 : LSuf a b) (h2 : LSuf b c) : LSuf a c := by
  induction h1 generalizing c with
  | nil _ => exact LSuf.nil _
  | cons s _ ih =>
    cases h2 with
    | cons s2 r2 => exact LSuf.cons (s.trans s2) (ih r2)

theorem LSuf.mem {ls' ls : List (List Event)} (h : LSuf ls' ls) :
    ∀ l' ∈ ls', ∃ l ∈ ls, l' <:+ l := by
  induction h with
  | nil _ => intro l' hl'; cases hl'
  | cons s _ ih =>
    intro l0 hl0
    rcases List.mem_cons.mp hl0 with rfl | hl0
    · exact ⟨_, List.mem_cons_self, s⟩
    · obtain ⟨l, hl, hs⟩ := ih l0 hl0
      exact ⟨l, List.mem_cons_of_mem _ hl, hs⟩

theorem LSuf.append_left (A : List (List Event)) {B' B : List (List Event)} (h : LSuf B' B) :
    LSuf (A ++ B') (A ++ B) := by
  induction A with
  | nil => exact h
  | cons a A ih => exact LSuf.cons (List.suffix_refl a) ih

theorem LSuf.total_le {ls' ls : List (List Event)} (h : LSuf ls' ls) : total ls' ≤ total ls := by
  induction h with
  | nil _ => simp [total]
  | cons s _ ih =>
    have := s.length_le
    simp only [total]; omega

theorem LSuf.valid {ls' ls : List (List Event)} (h : LSuf ls' ls) (hv : Valid ls) : Valid ls' := by
  intro l' hl'
  obtain ⟨l, hl, hs⟩ := h.mem l' hl'
  exact ⟨(hv l hl).1.suffix hs, (hv l hl).2.suffix hs⟩

theorem LSuf.pairwise {R : List Event → List Event → Prop}
    (hR : ∀ a b a' b', R a b → a' <:+ a → b' <:+ b → R a' b')
    {ls' ls : List (List Event)} (h : LSuf ls' ls) (hp : ls.Pairwise R) : ls'.Pairwise R := by
  induction h with
  | nil _ => exact List.Pairwise.nil
  | cons s r ih =>
    rw [List.pairwise_cons] at hp ⊢
    refine ⟨?_, ih hp.2⟩
    intro b' hb'
    obtain ⟨b, hb, hs⟩ := r.mem b' hb'
    exact hR _ _ _ _ (hp.1 b hb) s hs

theorem popAt_suf : ∀ (n : Nat) (ls : List (List Event)), LSuf (popAt n ls) ls
  | n, [] => by cases n <;> exact LSuf.nil _
  | 0, l :: ls => LSuf.cons (List.tail_suffix l) (LSuf.refl ls)
  | n+1, l :: ls => LSuf.cons (List.suffix_refl l) (popAt_suf n ls)

theorem popAt_length_append (A : List (List Event)) (l : List Event) (B : List (List Event)) :
    popAt A.length (A ++ l :: B) = A ++ l.tail :: B := by
  induction A with
  | nil => rfl
  | cons a A ih => simp only [List.length_cons, List.cons_append, popAt, ih]

theorem total_append (A B : List (List Event)) : total (A ++ B) = total A + total B := by
  induction A with
  | nil => simp [total]
  | cons a A ih => simp only [List.cons_append, total, ih]; omega

theorem total_eq_zero {ls : List (List Event)} : total ls = 0 ↔ ∀ l ∈ ls, l = [] := by
  induction ls with
  | nil => simp [total]
  | cons a A ih =>
    simp only [total, List.mem_cons, forall_eq_or_imp]
    rw [← ih, ← List.length_eq_zero_iff]; omega

/-! ### `lscan` -/

theorem lscan_suf : ∀ (rest : List (List Event)) (i : Nat) (best : Event) (bi : Nat),
    LSuf (lscan rest i best bi).1 rest := by
  intro rest
  induction rest with
  | nil => intro i best bi; exact LSuf.nil _
  | cons l rest ih =>
    intro i best bi
    cases l with
    | nil => exact LSuf.cons (List.suffix_refl _) (ih _ _ _)
    | cons h t =>
      simp only [lscan]
      split
      · exact LSuf.cons (List.suffix_refl _) (ih _ _ _)
      · split
        · exact LSuf.cons (List.suffix_cons h t) (ih _ _ _)
        · exact LSuf.cons (List.suffix_refl _) (ih _ _ _)

/-- the result of the scan is the old best, or the head of an (unchanged) scanned list -/
theorem lscan_cases : ∀ (rest : List (List Event)) (i : Nat) (best : Event) (bi : Nat),
    (lscan rest i best bi).2 = (best, bi) ∨
    ∃ pre t post, (lscan rest i best bi).1 = pre ++ ((lscan rest i best bi).2.1 :: t) :: post ∧
      (lscan rest i best bi).2.2 = i + pre.length := by
  intro rest
  induction rest with
  | nil => intro i best bi; exact Or.inl rfl
  | cons l rest ih =>
    intro i best bi
    have lift : ∀ (x : List Event) (b : Event) (k : Nat),
        (∃ pre t post, (lscan rest (i+1) b k).1 = pre ++ ((lscan rest (i+1) b k).2.1 :: t) :: post ∧
          (lscan rest (i+1) b k).2.2 = i + 1 + pre.length) →
        ∃ pre t post, x :: (lscan rest (i+1) b k).1 = pre ++ ((lscan rest (i+1) b k).2.1 :: t) :: post ∧
          (lscan rest (i+1) b k).2.2 = i + pre.length := by
      intro x b k ⟨pre, t, post, h1, h2⟩
      refine ⟨x :: pre, t, post, ?_, ?_⟩
      · rw [h1]; rfl
      · rw [h2, List.length_cons]; omega
    cases l with
    | nil =>
      simp only [lscan]
      rcases ih (i+1) best bi with h | h
      · exact Or.inl h
      · exact Or.inr (lift _ _ _ h)
    | cons h t =>
      simp only [lscan]
      split
      · right
        rcases ih (i+1) h i with h' | h'
        · refine ⟨[], t, (lscan rest (i+1) h i).1, ?_, ?_⟩
          · rw [h']; rfl
          · rw [h']; rfl
        · exact lift _ _ _ h'
      · split
        · rcases ih (i+1) best bi with h' | h'
          · exact Or.inl h'
          · exact Or.inr (lift _ _ _ h')
        · rcases ih (i+1) best bi with h' | h'
          · exact Or.inl h'
          · exact Or.inr (lift _ _ _ h')

/-- the scan's best is at most the old best and at most every scanned event -/
theorem lscan_min : ∀ (rest : List (List Event)) (i : Nat) (best : Event) (bi : Nat),
    (∀ l ∈ rest, Sorted l) →
    evLt best (lscan rest i best bi).2.1 = false ∧
    ∀ l ∈ rest, ∀ x ∈ l, evLt x (lscan rest i best bi).2.1 = false := by
  intro rest
  induction rest with
  | nil => intro i best bi _; exact ⟨evLt_irrefl _, fun l hl => by cases hl⟩
  | cons l rest ih =>
    intro i best bi hs
    have hs' : ∀ l ∈ rest, Sorted l := fun l hl => hs l (List.mem_cons_of_mem _ hl)
    cases l with
    | nil =>
      simp only [lscan]
      obtain ⟨h1, h2⟩ := ih (i+1) best bi hs'
      refine ⟨h1, ?_⟩
      intro l hl x hx
      rcases List.mem_cons.mp hl with rfl | hl
      · cases hx
      · exact h2 l hl x hx
    | cons h t =>
      have hht := (hs _ List.mem_cons_self).head_le
      simp only [lscan]
      split
      · rename_i hlt
        obtain ⟨h1, h2⟩ := ih (i+1) h i hs'
        refine ⟨?_, ?_⟩
        · exact evLt_asymm (lt_of_le_of_lt h1 hlt)
        · intro l hl x hx
          rcases List.mem_cons.mp hl with rfl | hl
          · exact le_trans' h1 (hht x hx)
          · exact h2 l hl x hx
      · rename_i hlt
        have hlt : evLt h best = false := by simpa using hlt
        have key : evLt best (lscan rest (i+1) best bi).2.1 = false ∧
            ∀ l ∈ (h :: t) :: rest, ∀ x ∈ l, evLt x (lscan rest (i+1) best bi).2.1 = false := by
          obtain ⟨h1, h2⟩ := ih (i+1) best bi hs'
          refine ⟨h1, ?_⟩
          intro l hl x hx
          rcases List.mem_cons.mp hl with rfl | hl
          · exact le_trans' h1 (le_trans' hlt (hht x hx))
          · exact h2 l hl x hx
        split <;> exact key

/-- nothing is lost in a scan: a dropped head is identical to the then-best, which stays -/
theorem lscan_keep : ∀ (rest : List (List Event)) (i : Nat) (best : Event) (bi : Nat),
    ∀ l ∈ rest, ∀ x ∈ l,
      (∃ l' ∈ (lscan rest i best bi).1, ∃ x' ∈ l', evEq x' x = true) ∨ evEq best x = true := by
  intro rest
  induction rest with
  | nil => intro i best bi l hl; cases hl
  | cons l0 rest ih =>
    intro i best bi l hl x hx
    have shift : ∀ (y : List Event) (b : Event) (k : Nat),
        (∃ l' ∈ (lscan rest (i+1) b k).1, ∃ x' ∈ l', evEq x' x = true) →
        ∃ l' ∈ y :: (lscan rest (i+1) b k).1, ∃ x' ∈ l', evEq x' x = true := by
      intro y b k ⟨l', h1, h2⟩
      exact ⟨l', List.mem_cons_of_mem _ h1, h2⟩
    cases l0 with
    | nil =>
      simp only [lscan]
      rcases List.mem_cons.mp hl with rfl | hl
      · cases hx
      · rcases ih (i+1) best bi l hl x hx with h | h
        · exact Or.inl (shift _ _ _ h)
        · exact Or.inr h
    | cons h t =>
      simp only [lscan]
      split
      · left
        rcases List.mem_cons.mp hl with rfl | hl
        · exact ⟨h :: t, List.mem_cons_self, x, hx, evEq_refl x⟩
        · rcases ih (i+1) h i l hl x hx with h' | h'
          · exact shift _ _ _ h'
          · exact ⟨h :: t, List.mem_cons_self, h, List.mem_cons_self, h'⟩
      · split
        · rename_i heq
          rcases List.mem_cons.mp hl with rfl | hl
          · rcases List.mem_cons.mp hx with rfl | hx
            · exact Or.inr (evEq_symm heq)
            · exact Or.inl ⟨t, List.mem_cons_self, x, hx, evEq_refl x⟩
          · rcases ih (i+1) best bi l hl x hx with h' | h'
            · exact Or.inl (shift _ _ _ h')
            · exact Or.inr h'
        · rcases List.mem_cons.mp hl with rfl | hl
          · exact Or.inl ⟨h :: t, List.mem_cons_self, x, hx, evEq_refl x⟩
          · rcases ih (i+1) best bi l hl x hx with h' | h'
            · exact Or.inl (shift _ _ _ h')
            · exact Or.inr h'

/-- scanning the scanned lists again finds the same best -/
theorem lscan_again_best : ∀ (rest : List (List Event)) (i : Nat) (best : Event) (bi : Nat),
    (∀ l ∈ rest, Sorted l) →
    (lscan (lscan rest i best bi).1 i best bi).2 = (lscan rest i best bi).2 := by
  intro rest
  induction rest with
  | nil => intro i best bi _; rfl
  | cons l rest ih =>
    intro i best bi hs
    have hs' : ∀ l ∈ rest, Sorted l := fun l hl => hs l (List.mem_cons_of_mem _ hl)
    cases l with
    | nil => simp only [lscan]; exact ih _ _ _ hs'
    | cons h t =>
      have hht := (hs _ List.mem_cons_self).head_le
      by_cases hlt : evLt h best = true
      · simp only [lscan, hlt, if_true]; exact ih _ _ _ hs'
      · by_cases heq : evEq h best = true
        · simp only [lscan, hlt, heq, if_true, if_false, Bool.false_eq_true]
          cases t with
          | nil => simp only [lscan]; exact ih _ _ _ hs'
          | cons h' t' =>
            have hlt' : evLt h' best = false :=
              le_trans' (by simpa using hlt) (hht h' (List.mem_cons_of_mem _ List.mem_cons_self))
            simp only [lscan, hlt', Bool.false_eq_true, if_false]
            split <;> exact ih _ _ _ hs'
        · simp only [lscan, hlt, heq, if_false, Bool.false_eq_true]; exact ih _ _ _ hs'

/-- … and, if no source lists an event twice, changes nothing -/
theorem lscan_again : ∀ (rest : List (List Event)) (i : Nat) (best : Event) (bi : Nat),
    (∀ l ∈ rest, Sorted l) → (∀ l ∈ rest, NoTwin l) →
    lscan (lscan rest i best bi).1 i best bi = lscan rest i best bi := by
  intro rest
  induction rest with
  | nil => intro i best bi _ _; rfl
  | cons l rest ih =>
    intro i best bi hs hn
    have hs' : ∀ l ∈ rest, Sorted l := fun l hl => hs l (List.mem_cons_of_mem _ hl)
    have hn' : ∀ l ∈ rest, NoTwin l := fun l hl => hn l (List.mem_cons_of_mem _ hl)
    cases l with
    | nil => simp only [lscan]; rw [ih _ _ _ hs' hn']
    | cons h t =>
      have hht := (hs _ List.mem_cons_self).head_le
      have hnt := List.pairwise_cons.mp (hn _ List.mem_cons_self)
      by_cases hlt : evLt h best = true
      · simp only [lscan, hlt, if_true]; rw [ih _ _ _ hs' hn']
      · by_cases heq : evEq h best = true
        · simp only [lscan, hlt, heq, if_true, if_false, Bool.false_eq_true]
          cases t with
          | nil => simp only [lscan]; rw [ih _ _ _ hs' hn']
          | cons h' t' =>
            have hlt' : evLt h' best = false :=
              le_trans' (by simpa using hlt) (hht h' (List.mem_cons_of_mem _ List.mem_cons_self))
            have heq' : evEq h' best = false := by
              cases hq : evEq h' best
              · rfl
              · have := hnt.1 h' List.mem_cons_self
                rw [evEq_trans heq (evEq_symm hq)] at this; cases this
            simp only [lscan, hlt', heq', Bool.false_eq_true, if_false]
            rw [ih _ _ _ hs' hn']
        · simp only [lscan, hlt, heq, if_false, Bool.false_eq_true]; rw [ih _ _ _ hs' hn']

/-! ### the guard of the collapse -/

/-- `x` is the only event of `l` at its instant -/
def Lone (x : Event) (l : List Event) : Prop := ∀ z ∈ l, key z.from_ = key x.from_ → z = x

/-- an occurrence present in both lists is, in each of them, the only event at its instant -/
def Shared (l1 l2 : List Event) : Prop :=
  ∀ x ∈ l1, ∀ y ∈ l2, evEq x y = true → Lone x l1 ∧ Lone y l2

/-- no source lists an occurrence twice, and an occurrence listed by two sources is in both
the only event at its instant -/
def Guard (ls : List (List Event)) : Prop := (∀ l ∈ ls, NoTwin l) ∧ ls.Pairwise Shared

/-- no event of the lists is identical to `e` -/
def Clean (e : Event) (ls : List (List Event)) : Prop := ∀ l ∈ ls, ∀ x ∈ l, evEq x e = false

theorem clean_cons (e : Event) (l : List Event) (ls : List (List Event)) :
    Clean e (l :: ls) ↔ (∀ x ∈ l, evEq x e = false) ∧ Clean e ls := by
  simp only [Clean, List.mem_cons, forall_eq_or_imp]

theorem clean_append (e : Event) (A B : List (List Event)) :
    Clean e (A ++ B) ↔ Clean e A ∧ Clean e B := by
  simp only [Clean, List.mem_append, or_imp, forall_and]

theorem clean_of_empty (e : Event) {E : List (List Event)} (h : ∀ l ∈ E, l = []) : Clean e E := by
  intro l hl x hx; rw [h l hl] at hx; cases hx

theorem Lone.suffix {x : Event} {l l' : List Event} (h : Lone x l) (s : l' <:+ l) : Lone x l' :=
  fun z hz => h z (s.subset hz)

theorem Shared.suffix {a b a' b' : List Event} (h : Shared a b) (sa : a' <:+ a) (sb : b' <:+ b) :
    Shared a' b' := by
  intro x hx y hy he
  obtain ⟨h1, h2⟩ := h x (sa.subset hx) y (sb.subset hy) he
  exact ⟨h1.suffix sa, h2.suffix sb⟩

theorem Guard.suf {ls' ls : List (List Event)} (h : LSuf ls' ls) (g : Guard ls) : Guard ls' := by
  refine ⟨?_, LSuf.pairwise (fun a b a' b' r sa sb => Shared.suffix r sa sb) h g.2⟩
  intro l' hl'
  obtain ⟨l, hl, hs⟩ := h.mem l' hl'
  exact (g.1 l hl).suffix hs

theorem gt_clean {b' c : Event} {x : List Event} (h1 : evLt b' c = true)
    (h2 : ∀ z ∈ x, evLt z c = false) : ∀ z ∈ x, evEq z b' = false :=
  fun z hz => evEq_false_of_gt (lt_of_lt_of_le h1 (h2 z hz))

/-- under the guard the scan leaves no event identical to its best except the best itself -/
theorem lscan_collapse : ∀ (rest : List (List Event)) (i : Nat) (best : Event) (bi : Nat),
    (∀ l ∈ rest, Sorted l) → (∀ l ∈ rest, NoTwin l) → rest.Pairwise Shared →
    (∀ l ∈ rest, ∀ y ∈ l, evEq y best = true → Lone y l) →
    ((lscan rest i best bi).2 = (best, bi) ∧ Clean best (lscan rest i best bi).1) ∨
    ∃ pre t post, (lscan rest i best bi).1 = pre ++ ((lscan rest i best bi).2.1 :: t) :: post ∧
      (lscan rest i best bi).2.2 = i + pre.length ∧ evLt (lscan rest i best bi).2.1 best = true ∧
      Clean (lscan rest i best bi).2.1 (pre ++ t :: post) := by
  intro rest
  induction rest with
  | nil => intro i best bi _ _ _ _; exact Or.inl ⟨rfl, fun l hl => (by cases hl)⟩
  | cons l rest ih =>
    intro i best bi hs hn hc hb
    have hs' : ∀ l ∈ rest, Sorted l := fun l hl => hs l (List.mem_cons_of_mem _ hl)
    have hn' : ∀ l ∈ rest, NoTwin l := fun l hl => hn l (List.mem_cons_of_mem _ hl)
    have hc' := (List.pairwise_cons.mp hc)
    have hb' : ∀ l ∈ rest, ∀ y ∈ l, evEq y best = true → Lone y l :=
      fun l hl => hb l (List.mem_cons_of_mem _ hl)
    -- lifting the second alternative over one more list in front
    have lift : ∀ (x : List Event) (b c : Event) (k : Nat), (∀ z ∈ x, evLt z b = false) →
        (evLt b c = true ∨ b = c) →
        (∃ pre t post, (lscan rest (i+1) b k).1 = pre ++ ((lscan rest (i+1) b k).2.1 :: t) :: post ∧
          (lscan rest (i+1) b k).2.2 = i + 1 + pre.length ∧ evLt (lscan rest (i+1) b k).2.1 b = true ∧
          Clean (lscan rest (i+1) b k).2.1 (pre ++ t :: post)) →
        ∃ pre t post, x :: (lscan rest (i+1) b k).1 = pre ++ ((lscan rest (i+1) b k).2.1 :: t) :: post ∧
          (lscan rest (i+1) b k).2.2 = i + pre.length ∧ evLt (lscan rest (i+1) b k).2.1 c = true ∧
          Clean (lscan rest (i+1) b k).2.1 (pre ++ t :: post) := by
      intro x b c k hx hbc ⟨pre, t, post, h1, h2, h3, h4⟩
      refine ⟨x :: pre, t, post, ?_, ?_, ?_, ?_⟩
      · rw [h1]; rfl
      · rw [h2, List.length_cons]; omega
      · rcases hbc with hbc | rfl
        · exact evLt_trans h3 hbc
        · exact h3
      · rw [List.cons_append, clean_cons]
        exact ⟨gt_clean h3 hx, h4⟩
    cases l with
    | nil =>
      simp only [lscan]
      rcases ih (i+1) best bi hs' hn' hc'.2 hb' with h | h
      · left
        refine ⟨h.1, ?_⟩
        rw [clean_cons]; exact ⟨fun x hx => (by cases hx), h.2⟩
      · right
        exact lift [] best best bi (fun z hz => by cases hz) (Or.inr rfl) h
    | cons h t =>
      have hht := (hs _ List.mem_cons_self).head_le
      have hnt := List.pairwise_cons.mp (hn _ List.mem_cons_self)
      simp only [lscan]
      split
      · rename_i hlt
        right
        have hbh : ∀ l ∈ rest, ∀ y ∈ l, evEq y h = true → Lone y l := by
          intro l hl y hy he
          exact (hc'.1 l hl h List.mem_cons_self y hy (evEq_symm he)).2
        rcases ih (i+1) h i hs' hn' hc'.2 hbh with h' | h'
        · refine ⟨[], t, (lscan rest (i+1) h i).1, ?_, ?_, ?_, ?_⟩
          · rw [h'.1]; rfl
          · rw [h'.1]; rfl
          · rw [h'.1]; exact hlt
          · rw [h'.1, List.nil_append, clean_cons]
            refine ⟨?_, h'.2⟩
            intro x hx
            rw [evEq_comm]; exact hnt.1 x hx
        · exact lift (h :: t) h best i hht (Or.inl hlt) h'
      · rename_i hlt
        have hlt : evLt h best = false := by simpa using hlt
        have hge : ∀ z ∈ h :: t, evLt z best = false := fun z hz => le_trans' hlt (hht z hz)
        split
        · rename_i heq
          rcases ih (i+1) best bi hs' hn' hc'.2 hb' with h' | h'
          · left
            refine ⟨h'.1, ?_⟩
            rw [clean_cons]
            refine ⟨?_, h'.2⟩
            intro x hx
            cases hq : evEq x best
            · rfl
            · have := hnt.1 x hx
              rw [evEq_trans heq (evEq_symm hq)] at this; cases this
          · right
            exact lift t best best bi (fun z hz => hge z (List.mem_cons_of_mem _ hz)) (Or.inr rfl) h'
        · rename_i hne
          have hne : evEq h best = false := by simpa using hne
          rcases ih (i+1) best bi hs' hn' hc'.2 hb' with h' | h'
          · left
            refine ⟨h'.1, ?_⟩
            rw [clean_cons]
            refine ⟨?_, h'.2⟩
            intro x hx
            rcases List.mem_cons.mp hx with rfl | hxt
            · exact hne
            · cases hq : evEq x best
              · rfl
              · exfalso
                have hl := hb (h :: t) List.mem_cons_self x hx hq
                -- key x = key best ≤ key h ≤ key x
                have k1 := (evLt_false_iff _ _).mp hlt
                have k2 := (evLt_false_iff _ _).mp (hht x hx)
                have k3 : x.from_ = best.from_ := evEq_from hq
                have hhx : h = x := hl h List.mem_cons_self (by rw [k3] at k2 ⊢; omega)
                have := hnt.1 x hxt
                rw [hhx, evEq_refl] at this; cases this
          · right
            exact lift (h :: t) best best bi hge (Or.inr rfl) h'

/-! ### `lstep` -/

theorem lfirst_spec : ∀ (ls : List (List Event)) (i : Nat),
    (lfirst ls i = none ∧ ∀ l ∈ ls, l = []) ∨
    ∃ E h t rest, ls = E ++ (h :: t) :: rest ∧ (∀ l ∈ E, l = []) ∧ lfirst ls i = some (i + E.length) := by
  intro ls
  induction ls with
  | nil => intro i; exact Or.inl ⟨rfl, fun l hl => by cases hl⟩
  | cons l ls ih =>
    intro i
    cases l with
    | nil =>
      simp only [lfirst, List.isEmpty_nil, if_true]
      rcases ih (i+1) with h | ⟨E, h, t, rest, h1, h2, h3⟩
      · left
        refine ⟨h.1, ?_⟩
        intro l hl
        rcases List.mem_cons.mp hl with rfl | hl
        · rfl
        · exact h.2 l hl
      · right
        refine ⟨[] :: E, h, t, rest, by rw [h1]; rfl, ?_, ?_⟩
        · intro l hl
          rcases List.mem_cons.mp hl with rfl | hl
          · rfl
          · exact h2 l hl
        · rw [h3, List.length_cons]; congr 1; omega
    | cons h t =>
      right
      exact ⟨[], h, t, ls, rfl, fun l hl => (by cases hl), rfl⟩

theorem lfirst_append : ∀ (E : List (List Event)) (h : Event) (t : List Event) (rest : List (List Event)) (i : Nat),
    (∀ l ∈ E, l = []) → lfirst (E ++ (h :: t) :: rest) i = some (i + E.length) := by
  intro E
  induction E with
  | nil => intro h t rest i _; rfl
  | cons a E ih =>
    intro h t rest i hE
    have ha : a = [] := hE a List.mem_cons_self
    subst ha
    simp only [List.cons_append, lfirst, List.isEmpty_nil, if_true, List.length_cons]
    rw [ih h t rest (i+1) (fun l hl => hE l (List.mem_cons_of_mem _ hl))]
    congr 1; omega

theorem lfirst_none : ∀ (ls : List (List Event)) (i : Nat), (∀ l ∈ ls, l = []) → lfirst ls i = none := by
  intro ls
  induction ls with
  | nil => intro i _; rfl
  | cons a ls ih =>
    intro i h
    have ha : a = [] := h a List.mem_cons_self
    subst ha
    simp only [lfirst, List.isEmpty_nil, if_true]
    exact ih _ (fun l hl => h l (List.mem_cons_of_mem _ hl))

theorem split_cases (ls : List (List Event)) :
    (∀ l ∈ ls, l = []) ∨ ∃ E h t rest, ls = E ++ (h :: t) :: rest ∧ (∀ l ∈ E, l = []) := by
  rcases lfirst_spec ls 0 with h | ⟨E, h, t, rest, h1, h2, _⟩
  · exact Or.inl h.2
  · exact Or.inr ⟨E, h, t, rest, h1, h2⟩

theorem lstep_empty {ls : List (List Event)} (h : ∀ l ∈ ls, l = []) (b : Bool) :
    lstep ls b = (Event.nul, []) := by
  simp only [lstep, lfirst_none ls 0 h]

/-- a step on lists with a first non-empty one -/
theorem lstep_split (E : List (List Event)) (h : Event) (t : List Event) (rest : List (List Event))
    (hE : ∀ l ∈ E, l = []) (b : Bool) :
    lstep (E ++ (h :: t) :: rest) b = ((lscan rest (E.length+1) h E.length).2.1,
        if b then popAt (lscan rest (E.length+1) h E.length).2.2 (E ++ (h :: t) :: (lscan rest (E.length+1) h E.length).1)
        else E ++ (h :: t) :: (lscan rest (E.length+1) h E.length).1) := by
  have e1 : E ++ (h :: t) :: rest = (E ++ [h :: t]) ++ rest := by simp
  have elen : (E ++ [h :: t]).length = E.length + 1 := by simp
  have e2 : (E ++ (h :: t) :: rest).drop (E.length + 1) = rest := by rw [e1]; exact List.drop_left' elen
  have e3 : (E ++ (h :: t) :: rest).take (E.length + 1) = E ++ [h :: t] := by rw [e1]; exact List.take_left' elen
  have e4 : (E ++ (h :: t) :: rest).getD E.length [] = h :: t := by
    rw [List.getD_eq_getElem?_getD, List.getElem?_append_right (Nat.le_refl _)]
    simp
  simp only [lstep, lfirst_append E h t rest 0 hE, Nat.zero_add, e2, e3, e4, hd_cons, List.append_assoc,
    List.singleton_append]

/-- peek and pop answer the same -/
theorem lstep_val (ls : List (List Event)) : (lstep ls false).1 = (lstep ls true).1 := by
  rcases split_cases ls with h | ⟨E, h, t, rest, h1, h2⟩
  · rw [lstep_empty h, lstep_empty h]
  · rw [h1, lstep_split E h t rest h2, lstep_split E h t rest h2]

theorem lstep_suf (ls : List (List Event)) (b : Bool) : LSuf (lstep ls b).2 ls := by
  rcases split_cases ls with h | ⟨E, h, t, rest, h1, h2⟩
  · rw [lstep_empty h]; exact LSuf.nil _
  · rw [h1, lstep_split E h t rest h2]
    have : LSuf (E ++ (h :: t) :: (lscan rest (E.length+1) h E.length).1) (E ++ (h :: t) :: rest) :=
      LSuf.append_left E (LSuf.cons (List.suffix_refl _) (lscan_suf _ _ _ _))
    cases b
    · exact this
    · exact (popAt_suf _ _).trans this

/-- the shape of the state after a peek and after a pop: the answer is the head of one list,
the pop removes it -/
theorem lstep_decomp (ls : List (List Event)) :
    (∀ l ∈ ls, l = []) ∨
    ∃ A t B, (lstep ls false).2 = A ++ ((lstep ls false).1 :: t) :: B ∧ (lstep ls true).2 = A ++ t :: B := by
  rcases split_cases ls with h | ⟨E, h, t, rest, h1, h2⟩
  · exact Or.inl h
  · right
    rw [h1, lstep_split E h t rest h2, lstep_split E h t rest h2]
    simp only [Bool.false_eq_true, if_false, if_true]
    rcases lscan_cases rest (E.length+1) h E.length with hc | ⟨pre, t', post, hc1, hc2⟩
    · refine ⟨E, t, (lscan rest (E.length+1) h E.length).1, ?_, ?_⟩
      · rw [hc]
      · rw [hc]; exact popAt_length_append E (h :: t) _
    · refine ⟨E ++ (h :: t) :: pre, t', post, ?_, ?_⟩
      · rw [hc1]; simp
      · rw [hc2, hc1]
        have : E ++ (h :: t) :: (pre ++ ((lscan rest (E.length+1) h E.length).2.1 :: t') :: post)
            = (E ++ (h :: t) :: pre) ++ ((lscan rest (E.length+1) h E.length).2.1 :: t') :: post := by simp
        rw [this]
        have hl : E.length + 1 + pre.length = (E ++ (h :: t) :: pre).length := by simp; omega
        rw [hl]
        exact popAt_length_append _ _ _

theorem lstep_total_le (ls : List (List Event)) (b : Bool) : total (lstep ls b).2 ≤ total ls :=
  (lstep_suf ls b).total_le

/-- a pop that finds an event shortens the sources -/
theorem lstep_total_pop (ls : List (List Event)) (h : ¬ ∀ l ∈ ls, l = []) :
    total (lstep ls true).2 < total ls := by
  rcases lstep_decomp ls with h' | ⟨A, t, B, h1, h2⟩
  · exact absurd h' h
  · have := lstep_total_le ls false
    rw [h1] at this
    rw [h2]
    simp only [total_append, total, List.length_cons] at this ⊢
    omega

/-- the answer is an event of a source (nothing is invented) -/
theorem lstep_mem (ls : List (List Event)) (b : Bool) :
    (∀ l ∈ ls, l = []) ∨ ∃ l ∈ ls, (lstep ls b).1 ∈ l := by
  rcases lstep_decomp ls with h' | ⟨A, t, B, h1, _⟩
  · exact Or.inl h'
  · right
    have hm : ((lstep ls false).1 :: t) ∈ (lstep ls false).2 := by rw [h1]; simp
    obtain ⟨l, hl, hs⟩ := (lstep_suf ls false).mem _ hm
    refine ⟨l, hl, ?_⟩
    have : (lstep ls b).1 = (lstep ls false).1 := by
      cases b
      · rfl
      · exact (lstep_val ls).symm
    rw [this]
    exact hs.subset List.mem_cons_self

/-- nul is answered exactly when all sources are exhausted -/
theorem lstep_nul_iff {ls : List (List Event)} (hv : Valid ls) (b : Bool) :
    (lstep ls b).1.isNul = true ↔ ∀ l ∈ ls, l = [] := by
  constructor
  · intro h
    rcases lstep_mem ls b with h' | ⟨l, hl, hm⟩
    · exact h'
    · rw [(hv l hl).1 _ hm] at h; cases h
  · intro h
    rw [lstep_empty h]; rfl

/-- the answer is at most every event of every source -/
theorem lstep_min {ls : List (List Event)} (hv : Valid ls) (b : Bool) :
    ∀ l ∈ ls, ∀ x ∈ l, evLt x (lstep ls b).1 = false := by
  rcases split_cases ls with h | ⟨E, h, t, rest, h1, h2⟩
  · intro l hl x hx; rw [h l hl] at hx; cases hx
  · rw [h1, lstep_split E h t rest h2]
    rw [h1] at hv
    have hs : ∀ l ∈ rest, Sorted l := fun l hl => (hv l (by simp [hl])).2
    have hsh : Sorted (h :: t) := (hv _ (by simp)).2
    obtain ⟨m1, m2⟩ := lscan_min rest (E.length+1) h E.length hs
    intro l hl x hx
    rcases List.mem_append.mp hl with hl | hl
    · rw [h2 l hl] at hx; cases hx
    · rcases List.mem_cons.mp hl with rfl | hl
      · exact le_trans' m1 (hsh.head_le x hx)
      · exact m2 l hl x hx

/-- no source event is lost by a step: it stays, or an identical one stays, or it is the one popped -/
theorem lstep_keep (ls : List (List Event)) (b : Bool) :
    ∀ l ∈ ls, ∀ x ∈ l,
      (∃ l' ∈ (lstep ls b).2, ∃ x' ∈ l', evEq x' x = true) ∨ (b = true ∧ evEq (lstep ls b).1 x = true) := by
  have peek : ∀ l ∈ ls, ∀ x ∈ l, ∃ l' ∈ (lstep ls false).2, ∃ x' ∈ l', evEq x' x = true := by
    rcases split_cases ls with h | ⟨E, h, t, rest, h1, h2⟩
    · intro l hl x hx; rw [h l hl] at hx; cases hx
    · rw [h1, lstep_split E h t rest h2]
      simp only [Bool.false_eq_true, if_false]
      intro l hl x hx
      rcases List.mem_append.mp hl with hl | hl
      · rw [h2 l hl] at hx; cases hx
      · rcases List.mem_cons.mp hl with rfl | hl
        · exact ⟨h :: t, by simp, x, hx, evEq_refl x⟩
        · rcases lscan_keep rest (E.length+1) h E.length l hl x hx with ⟨l', hl', x', hx', he⟩ | he
          · exact ⟨l', by simp [hl'], x', hx', he⟩
          · exact ⟨h :: t, by simp, h, List.mem_cons_self, he⟩
  intro l hl x hx
  cases b
  · exact Or.inl (peek l hl x hx)
  · rcases lstep_decomp ls with h' | ⟨A, t, B, h1, h2⟩
    · rw [h' l hl] at hx; cases hx
    · obtain ⟨l', hl', x', hx', he⟩ := peek l hl x hx
      rw [h1] at hl'
      rw [h2, ← lstep_val]
      rcases List.mem_append.mp hl' with hl' | hl'
      · exact Or.inl ⟨l', by simp [hl'], x', hx', he⟩
      · rcases List.mem_cons.mp hl' with rfl | hl'
        · rcases List.mem_cons.mp hx' with rfl | hx'
          · exact Or.inr ⟨rfl, he⟩
          · exact Or.inl ⟨t, by simp, x', hx', he⟩
        · exact Or.inl ⟨l', by simp [hl'], x', hx', he⟩

/-- after a peek the next call answers the same event -/
theorem lstep_again_val {ls : List (List Event)} (hv : Valid ls) (b : Bool) :
    (lstep (lstep ls false).2 b).1 = (lstep ls false).1 := by
  rcases split_cases ls with h | ⟨E, h, t, rest, h1, h2⟩
  · rw [lstep_empty h, lstep_empty (fun l hl => by cases hl)]
  · rw [h1, lstep_split E h t rest h2]
    rw [h1] at hv
    have hs : ∀ l ∈ rest, Sorted l := fun l hl => (hv l (by simp [hl])).2
    simp only [Bool.false_eq_true, if_false]
    rw [lstep_split E h t _ h2, lscan_again_best rest (E.length+1) h E.length hs]

/-- if no source lists an occurrence twice a peek changes nothing for the following calls -/
theorem lstep_again {ls : List (List Event)} (hv : Valid ls) (hn : ∀ l ∈ ls, NoTwin l) (b : Bool) :
    lstep (lstep ls false).2 b = lstep ls b := by
  rcases split_cases ls with h | ⟨E, h, t, rest, h1, h2⟩
  · rw [lstep_empty h false, lstep_empty h b, lstep_empty (fun l hl => by cases hl)]
  · rw [h1, lstep_split E h t rest h2, lstep_split E h t rest h2]
    rw [h1] at hv hn
    have hs : ∀ l ∈ rest, Sorted l := fun l hl => (hv l (by simp [hl])).2
    have hn' : ∀ l ∈ rest, NoTwin l := fun l hl => hn l (by simp [hl])
    simp only [Bool.false_eq_true, if_false]
    rw [lstep_split E h t _ h2, lscan_again rest (E.length+1) h E.length hs hn']

/-- under the guard no event identical to the popped one is left in any source -/
theorem lstep_collapse {ls : List (List Event)} (hv : Valid ls) (hg : Guard ls) :
    Clean (lstep ls true).1 (lstep ls true).2 := by
  rcases split_cases ls with h | ⟨E, h, t, rest, h1, h2⟩
  · rw [lstep_empty h]; intro l hl; cases hl
  · rw [h1, lstep_split E h t rest h2]
    rw [h1] at hv hg
    have hs : ∀ l ∈ rest, Sorted l := fun l hl => (hv l (by simp [hl])).2
    have hn' : ∀ l ∈ rest, NoTwin l := fun l hl => hg.1 l (by simp [hl])
    have hsh : Sorted (h :: t) := (hv _ (by simp)).2
    have hnh : NoTwin (h :: t) := hg.1 _ (by simp)
    have hp := (List.pairwise_append.mp hg.2).2.1
    have hp' := List.pairwise_cons.mp hp
    have hb : ∀ l ∈ rest, ∀ y ∈ l, evEq y h = true → Lone y l := by
      intro l hl y hy he
      exact (hp'.1 l hl h List.mem_cons_self y hy (evEq_symm he)).2
    simp only [if_true]
    rcases lscan_collapse rest (E.length+1) h E.length hs hn' hp'.2 hb with ⟨hc1, hc2⟩ | ⟨pre, t', post, hc1, hc2, hc3, hc4⟩
    · rw [hc1]
      rw [popAt_length_append E (h :: t) _, clean_append, clean_cons]
      refine ⟨clean_of_empty _ h2, ?_, hc2⟩
      intro x hx
      rw [evEq_comm]; exact (List.pairwise_cons.mp hnh).1 x hx
    · rw [hc2, hc1]
      have : E ++ (h :: t) :: (pre ++ ((lscan rest (E.length+1) h E.length).2.1 :: t') :: post)
          = (E ++ (h :: t) :: pre) ++ ((lscan rest (E.length+1) h E.length).2.1 :: t') :: post := by simp
      rw [this]
      have hl : E.length + 1 + pre.length = (E ++ (h :: t) :: pre).length := by simp; omega
      rw [hl, popAt_length_append]
      simp only [List.tail_cons]
      rw [clean_append] at hc4
      rw [clean_append, clean_append, clean_cons]
      exact ⟨⟨clean_of_empty _ h2, gt_clean hc3 hsh.head_le, hc4.1⟩, hc4.2⟩

end Echse.Stream
