/* line-protocol harness for the stream layer (C03 mux, C02 filter, later C01/C16 rule streams).
 * #includes evical.c of the scratch copy so that its static constructors are reachable;
 * linked against the other library objects. */
#include <stddef.h>
/* the guarded hook of evical.c: every unfolded line _ical_proc acts upon is logged here */
static char linelog[1 << 20];
static size_t nlinelog;
static int linelog_on;
void echse_verif_line(const char *line, size_t len)
{
	if (!linelog_on) return;
	for (size_t i = 0; i < len && nlinelog + 4 < sizeof(linelog); i++) {
		static const char hx[] = "0123456789abcdef";
		linelog[nlinelog++] = hx[(unsigned char)line[i] >> 4];
		linelog[nlinelog++] = hx[(unsigned char)line[i] & 15];
	}
	if (nlinelog + 2 < sizeof(linelog)) linelog[nlinelog++] = ',';
}
#include "evical.c"
#include <inttypes.h>

/* tree:  L n ev…  |  M k tree…  |  F tree tree      ev = hex16:oid:dur */
static char **tk;
static int ntk, ptk;

static echs_evstrm_t parse_tree(void)
{
	if (ptk >= ntk) return NULL;
	const char *t = tk[ptk++];
	if (!strcmp(t, "L")) {
		size_t n = strtoul(tk[ptk++], NULL, 10);
		echs_event_t *ev = calloc(n + 1, sizeof(*ev));
		for (size_t i = 0; i < n; i++) {
			char *s = tk[ptk++];
			char *c1 = strchr(s, ':');
			char *c2 = c1 ? strchr(c1 + 1, ':') : NULL;
			ev[i].from.u = strtoull(s, NULL, 16);
			ev[i].oid = c1 ? strtoul(c1 + 1, NULL, 10) : 0;
			ev[i].dur.d = c2 ? strtoll(c2 + 1, NULL, 10) : 0;
		}
		echs_evstrm_t r = n ? make_evical_vevent(ev, n) : NULL;
		free(ev);
		return r;
	} else if (!strcmp(t, "M")) {
		size_t k = strtoul(tk[ptk++], NULL, 10);
		echs_evstrm_t *s = calloc(k + 1, sizeof(*s));
		for (size_t i = 0; i < k; i++) s[i] = parse_tree();
		echs_evstrm_t r = echs_evstrm_vmux(s, k);
		free(s);
		return r;
	} else if (!strcmp(t, "F")) {
		echs_evstrm_t e = parse_tree();
		echs_evstrm_t x = parse_tree();
		return make_evfilt(e, x);
	} else if (!strcmp(t, "MX") || !strcmp(t, "MC") || !strcmp(t, "VC")) {
		/* the other constructors of a merged stream: MX = echs_evstrm_mux(a, b, ..., NULL) (takes the streams),
		 * MC = echs_evstrm_mux_clon(...) and VC = echs_evstrm_vmux_clon(array) (work on clones, the originals are freed) */
		size_t k = strtoul(tk[ptk++], NULL, 10);
		echs_evstrm_t s[8] = {NULL};
		echs_evstrm_t r;
		for (size_t i = 0; i < k && i < 7; i++) s[i] = parse_tree();
		if (t[0] == 'V') r = echs_evstrm_vmux_clon(s, k);
		else if (t[1] == 'X') r = echs_evstrm_mux(s[0], s[1], s[2], s[3], s[4], s[5], s[6], NULL);
		else r = echs_evstrm_mux_clon(s[0], s[1], s[2], s[3], s[4], s[5], s[6], NULL);
		if (t[1] == 'C') for (size_t i = 0; i < k && i < 7; i++) if (s[i] && s[i] != r) free_echs_evstrm(s[i]);
		return r;
	} else if (!strcmp(t, "C")) {
		/* the clone of a stream nobody has looked at yet, the original is freed */
		echs_evstrm_t o = parse_tree();
		echs_evstrm_t c = o ? clone_echs_evstrm(o) : NULL;
		if (o) free_echs_evstrm(o);
		return c;
	}
	return NULL;
}

/* ---------------------------------------------------------------- recurrence rule ops */
static void plist_u31(const char *k, bituint31_t b)
{
	unsigned v; int first = 1; printf(" %s=", k);
	for (bitint_iter_t i = 0; (v = bui31_next(&i, b), i);) { printf("%s%u", first ? "" : ",", v); first = 0; }
}
static void plist_u63(const char *k, bituint63_t b)
{
	unsigned v; int first = 1; printf(" %s=", k);
	for (bitint_iter_t i = 0; (v = bui63_next(&i, b), i);) { printf("%s%u", first ? "" : ",", v); first = 0; }
}
static void plist_31(const char *k, bitint31_t b)
{
	int v; int first = 1; printf(" %s=", k);
	for (bitint_iter_t i = 0; (v = bi31_next(&i, b), i);) { printf("%s%d", first ? "" : ",", v); first = 0; }
}
static void plist_63(const char *k, bitint63_t b)
{
	int v; int first = 1; printf(" %s=", k);
	for (bitint_iter_t i = 0; (v = bi63_next(&i, b), i);) { printf("%s%d", first ? "" : ",", v); first = 0; }
}
static void plist_383(const char *k, const bitint383_t *b)
{
	int v; int first = 1; printf(" %s=", k);
	for (bitint_iter_t i = 0; (v = bi383_next(&i, b), i);) { printf("%s%d", first ? "" : ",", v); first = 0; }
}
static void plist_447(const char *k, const bitint447_t *b)
{
	int v; int first = 1; printf(" %s=", k);
	for (bitint_iter_t i = 0; (v = bi447_next(&i, b), i);) { printf("%s%d", first ? "" : ",", v); first = 0; }
}
static void print_rule(const struct rrulsp_s *r)
{
	printf("freq=%d scale=%d count=%d inter=%u until=%016llx shift=%d", (int)r->freq, (int)r->scale, r->count, r->inter,
	       (unsigned long long)r->until.u, (int)r->shift);
	plist_31("dom", r->dom); plist_383("doy", &r->doy); plist_447("dow", &r->dow); plist_u31("mon", r->mon);
	plist_63("wk", r->wk); plist_u31("H", r->H); plist_u63("M", r->M); plist_u63("S", r->S);
	plist_383("pos", &r->pos); plist_383("easter", &r->easter);
}
/* rebuild a rule from the `key=value` tokens print_rule() writes (values are inserted in the order listed) */
static struct rrulsp_s read_rule(char **tk, int n)
{
	struct rrulsp_s r;
	memset(&r, 0, sizeof(r));
	r.count = -1; r.inter = 1; r.until = echs_max_instant();
	for (int i = 0; i < n; i++) {
		char *eq = strchr(tk[i], '=');
		if (!eq) continue;
		*eq = 0;
		const char *k = tk[i]; char *v = eq + 1;
		if (!strcmp(k, "freq")) r.freq = (echs_freq_t)atoi(v);
		else if (!strcmp(k, "scale")) r.scale = (echs_scale_t)atoi(v);
		else if (!strcmp(k, "count")) r.count = atoi(v);
		else if (!strcmp(k, "inter")) r.inter = strtoul(v, NULL, 10);
		else if (!strcmp(k, "until")) r.until.u = strtoull(v, NULL, 16);
		else if (!strcmp(k, "shift")) r.shift = (echs_shift_t)atoi(v);
		else {
			for (char *p = strtok(v, ","); p; p = strtok(NULL, ",")) {
				int x = atoi(p);
				if (!strcmp(k, "dom")) r.dom = ass_bi31(r.dom, x);
				else if (!strcmp(k, "doy")) ass_bi383(&r.doy, x);
				else if (!strcmp(k, "dow")) ass_bi447(&r.dow, x);
				else if (!strcmp(k, "mon")) r.mon = ass_bui31(r.mon, x);
				else if (!strcmp(k, "wk")) r.wk = ass_bi63(r.wk, x);
				else if (!strcmp(k, "H")) r.H = ass_bui31(r.H, x);
				else if (!strcmp(k, "M")) r.M = ass_bui63(r.M, x);
				else if (!strcmp(k, "S")) r.S = ass_bui63(r.S, x);
				else if (!strcmp(k, "pos")) ass_bi383(&r.pos, x);
				else if (!strcmp(k, "easter")) ass_bi383(&r.easter, x);
			}
		}
		*eq = '=';
	}
	return r;
}

/* ---------------------------------------------------------------- parser ops */
static void pnms(const char *k, nummapstr_t x)
{
	const char *t;
	uintptr_t n;
	if (!x) printf("|%s=", k);
	else if ((t = nummapstr_str(x))) printf("|%s=s:%s", k, t);
	else if ((n = nummapstr_num(x)) != NUMMAPSTR_NAN) printf("|%s=n:%lu", k, (unsigned long)n);
	else printf("|%s=nan", k);
}
static void pstr(const char *k, const char *v)
{
	printf("|%s=", k);
	if (!v) { printf("~"); return; }
	for (; *v; v++) { if (*v == '|' || *v == '}' || *v == '\n' || *v == ' ' || *v == '\\' || (unsigned char)*v < 32) printf("\\x%02x", (unsigned char)*v); else putchar(*v); }
}
static void dump_fields(echs_task_t t)
{
	printf("uid=%s", t->oid ? obint_name(t->oid) : "~");
	pstr("cmd", t->cmd);
	pnms("owner", t->owner);
	pnms("u", t->run_as.u);
	pnms("g", t->run_as.g);
	pstr("wd", t->run_as.wd);
	pstr("sh", t->run_as.sh);
	pstr("in", t->in); pstr("out", t->out); pstr("err", t->err);
	printf("|mail=%u%u%u%u%u%u", t->mailout, t->moutset, t->mailerr, t->merrset, t->mailrun, t->mrunset);
	printf("|umsk=%u|maxsim=%u", (unsigned)t->umsk, (unsigned)t->max_simul);
	pstr("org", t->org);
	printf("|att=");
	if (t->att) for (size_t i = 0; i < t->att->nl; i++) { printf("%s", i ? "," : ""); pstr("a", t->att->l[i]); }
	pstr("desc", t->desc);
	printf("|vtod=%u", (unsigned)t->vtod_typ);
	if (t->vtod_typ == 1) printf("|timeout=%lld", (long long)t->timeout.d);
	else if (t->vtod_typ == 2) printf("|due=%016llx", (unsigned long long)t->due.u);
}
static void dump_occ(echs_task_t t, int nocc)
{
	printf("|occ=");
	if (t->strm) {
		for (int i = 0; i < nocc; i++) {
			echs_event_t e = echs_evstrm_pop(t->strm);
			if (echs_event_0_p(e)) { printf("%s-", i ? "," : ""); break; }
			printf("%s%016llx+%lld", i ? "," : "", (unsigned long long)e.from.u, (long long)e.dur.d);
		}
	} else printf("~");
}
static void dump_task(echs_task_t t, int nocc)
{
	printf("S{");
	dump_fields(t);
	dump_occ(t, nocc);
	printf("}");
}

/* read every task a text yields (whole buffer), at most max */
static size_t parse_tasks(const char *txt, size_t len, echs_task_t *out, size_t max)
{
	ical_parser_t pp = NULL;
	size_t n = 0;
	if (echs_evical_push(&pp, txt, len) < 0) return 0;
	for (;;) {
		echs_instruc_t ins = echs_evical_pull(&pp);
		if (ins.v == INSVERB_SCHE) { if (ins.t && n < max) out[n++] = ins.t; }
		else if (ins.v == INSVERB_UNK) break;
	}
	if (pp != NULL) {
		echs_instruc_t ins = echs_evical_last_pull(&pp);
		if (ins.v == INSVERB_SCHE && ins.t && n < max) out[n++] = ins.t;
	}
	return n;
}

/* p.rt HEX K N : read the first task, consume K occurrences, write the task out (echs_task_icalify, what echsq, the daemon's
 * checkpoint and `echse merge' do), read that text back; print  A{fields|occ=next N of the original}  B{fields|occ=first N of the
 * re-read task}  T{hex of the text written} */
static void do_roundtrip(char *hex, int k, int nocc)
{
	static char txt[1 << 20];
	static char back[1 << 20];
	size_t len = 0;
	for (char *h = hex; h[0] && h[1] && len + 1 < sizeof(txt); h += 2) { unsigned v; sscanf(h, "%2x", &v); txt[len++] = (char)v; }
	txt[len] = 0;
	echs_task_t t[4];
	size_t nt = parse_tasks(txt, len, t, 4);
	if (!nt) { puts("none"); return; }
	for (int i = 0; i < k && t[0]->strm; i++) {
		echs_event_t e = echs_evstrm_pop(t[0]->strm);
		if (echs_event_0_p(e)) break;
	}
	char tmpl[] = "/tmp/hx_rt_XXXXXX";
	int fd = mkstemp(tmpl);
	if (fd < 0) { puts("<mkstemp>"); return; }
	unlink(tmpl);
	static const char hdr[] = "BEGIN:VCALENDAR\nVERSION:2.0\n";
	static const char ftr[] = "END:VCALENDAR\n";
	if (write(fd, hdr, sizeof(hdr) - 1) < 0) { }
	echs_task_icalify(fd, t[0]);
	fdbang(fd); fdflush();
	if (write(fd, ftr, sizeof(ftr) - 1) < 0) { }
	off_t z = lseek(fd, 0, SEEK_CUR);
	lseek(fd, 0, SEEK_SET);
	ssize_t nb = read(fd, back, z < (off_t)sizeof(back) ? (size_t)z : sizeof(back) - 1);
	close(fd);
	if (nb < 0) nb = 0;
	back[nb] = 0;
	printf("A{"); dump_fields(t[0]); dump_occ(t[0], nocc); printf("} ");
	echs_task_t u[4];
	size_t nu = parse_tasks(back, (size_t)nb, u, 4);
	if (!nu) printf("B{none}");
	else { printf("B{"); dump_fields(u[0]); dump_occ(u[0], nocc); printf("}"); }
	printf(" T{");
	for (ssize_t i = 0; i < nb; i++) printf("%02x", (unsigned char)back[i]);
	printf("}\n");
	for (size_t i = 0; i < nt; i++) free_echs_task(t[i]);
	for (size_t i = 0; i < nu; i++) free_echs_task(u[i]);
}

static void do_parse(char *hex, char **sizes, int nsizes, int nocc, int withlines)
{
	static char txt[1 << 20];
	size_t len = 0;
	for (char *h = hex; h[0] && h[1] && len + 1 < sizeof(txt); h += 2) { unsigned v; sscanf(h, "%2x", &v); txt[len++] = (char)v; }
	txt[len] = 0;
	ical_parser_t pp = NULL;
	size_t off = 0;
	int first = 1;
	nlinelog = 0; linelog_on = withlines;
	char *prev = NULL;
	/* a trailing `e`: an empty push behind the data, the daemon's way of saying end of input (recv() = 0) */
	int eofpush = nsizes > 0 && !strcmp(sizes[nsizes - 1], "e");
	if (eofpush) nsizes--;
	for (int k = 0; off < len || eofpush; k++) {
		size_t c = k < nsizes ? strtoul(sizes[k], NULL, 10) : len - off;
		if (off >= len) { c = 0; eofpush = 0; }
		else if (c == 0 || c > len - off) c = len - off;
		/* callers hand the parser a buffer of their own that is valid until the next push: copy the chunk so that
		 * reading past its end is visible to ASan */
		char *chunk;
		if (c == 0 && prev != NULL) {
			/* the daemon's read buffer is one and the same all along: the empty push hands over the old bytes */
			chunk = prev;
		} else {
			chunk = malloc(c);
			memcpy(chunk, txt + off, c);
			off += c;
			free(prev);          /* a caller's buffer stays valid until it pushes the next one (or finishes) */
			prev = chunk;
		}
		if (echs_evical_push(&pp, chunk, c) >= 0) {
			for (;;) {
				echs_instruc_t ins = echs_evical_pull(&pp);
				if (ins.v == INSVERB_SCHE) {
					if (ins.t == NULL) continue;
					printf("%s", first ? "" : " "); first = 0;
					dump_task(ins.t, nocc);
					free_echs_task(ins.t);
				} else if (ins.v == INSVERB_UNSC) {
					printf("%sU{%s}", first ? "" : " ", ins.o ? obint_name(ins.o) : "~"); first = 0;
				} else if (ins.v == INSVERB_RESC) {
					printf("%sR{%s}", first ? "" : " ", ins.o ? obint_name(ins.o) : "~"); first = 0;
				} else break;
			}
		}
	}
	if (pp != NULL) {
		echs_instruc_t ins = echs_evical_last_pull(&pp);
		if (ins.v == INSVERB_SCHE && ins.t != NULL) { printf("%sL", first ? "" : " "); first = 0; dump_task(ins.t, nocc); free_echs_task(ins.t); }
		else if (ins.v == INSVERB_UNSC) { printf("%sLU{%s}", first ? "" : " ", ins.o ? obint_name(ins.o) : "~"); first = 0; }
		else if (ins.v == INSVERB_RESC) { printf("%sLR{%s}", first ? "" : " ", ins.o ? obint_name(ins.o) : "~"); first = 0; }
	}
	free(prev);
	linelog_on = 0;
	if (first) printf("none");
	if (withlines) { linelog[nlinelog] = 0; printf(" # %s", linelog); }
	putchar('\n');
}

int main(void)
{
	static char line[1 << 22];
	static char *toks[1 << 18];
	setvbuf(stdout, NULL, _IOLBF, 0);
	while (fgets(line, sizeof(line), stdin)) {
		line[strcspn(line, "\r\n")] = 0;
		ntk = 0;
		for (char *p = strtok(line, " "); p && ntk < (1 << 18); p = strtok(NULL, " ")) toks[ntk++] = p;
		if (ntk == 0) { puts("bad-op"); continue; }
		if (!strcmp(toks[0], "p.wire") && ntk >= 2) {
			/* p.wire HEX : read every task of the text and write them out the way echsq puts them on the wire
			 * (echs_task_icalify per task inside one PUBLISH calendar); prints the hex of that text */
			static char txt[1 << 20];
			static char back[1 << 20];
			size_t len = 0;
			for (char *h = toks[1]; h[0] && h[1] && len + 1 < sizeof(txt); h += 2) { unsigned v; sscanf(h, "%2x", &v); txt[len++] = (char)v; }
			txt[len] = 0;
			echs_task_t t[64];
			size_t nt = parse_tasks(txt, len, t, 64);
			char tmpl[] = "/tmp/hx_wr_XXXXXX";
			int fd = mkstemp(tmpl);
			if (fd < 0) { puts("<mkstemp>"); continue; }
			unlink(tmpl);
			static const char hdr[] = "BEGIN:VCALENDAR\nVERSION:2.0\nMETHOD:PUBLISH\n";
			static const char ftr[] = "END:VCALENDAR\n";
			if (write(fd, hdr, sizeof(hdr) - 1) < 0) { }
			for (size_t i = 0; i < nt; i++) { echs_task_icalify(fd, t[i]); fdbang(fd); fdflush(); }
			if (write(fd, ftr, sizeof(ftr) - 1) < 0) { }
			off_t z = lseek(fd, 0, SEEK_CUR);
			lseek(fd, 0, SEEK_SET);
			ssize_t nb = read(fd, back, z < (off_t)sizeof(back) ? (size_t)z : sizeof(back) - 1);
			close(fd);
			for (ssize_t i = 0; i < nb; i++) printf("%02x", (unsigned char)back[i]);
			printf(" %zu\n", nt);
			for (size_t i = 0; i < nt; i++) free_echs_task(t[i]);
			continue;
		}
		if (!strcmp(toks[0], "p.rt") && ntk >= 4) {
			do_roundtrip(toks[1], atoi(toks[2]), atoi(toks[3]));
			continue;
		}
		if ((!strcmp(toks[0], "p.parse") || !strcmp(toks[0], "p.lines")) && ntk >= 2) {
			/* p.parse HEX | chunk sizes…   (p.lines: also the unfolded lines the parser acted upon) */
			int bar = 2;
			do_parse(toks[1], toks + (ntk > bar ? bar + 1 : ntk), ntk > bar + 1 ? ntk - bar - 1 : 0, 4, !strcmp(toks[0], "p.lines"));
		} else if (!strcmp(toks[0], "r.match") && ntk >= 3) {
			/* r.match RULE-TOKENS | i1 i2 … : the rule as a filter (echs_instant_matches_p, `echse unroll --filter'), one
			 * answer per instant; the function keeps its whitelist in statics, so answers depend on what was asked before:
			 * only looked at for memory errors */
			int bar = 1; while (bar < ntk && strcmp(toks[bar], "|")) bar++;
			struct rrulsp_s r = read_rule(toks + 1, bar - 1);
			for (int i = bar + 1; i < ntk; i++) {
				echs_instant_t x = {.u = strtoull(toks[i], NULL, 16)};
				putchar(echs_instant_matches_p(&r, x) ? '1' : '0');
			}
			putchar('\n');
		} else if (!strcmp(toks[0], "p.all") && ntk >= 2) {
			/* p.all HEX : every task of the text is read first (whole buffer), then each one's attributes are dumped:
			 * what a reader sees that keeps the tasks around, as the daemon does */
			static char txt[1 << 20]; size_t len = 0;
			for (char *h = toks[1]; h[0] && h[1] && len + 1 < sizeof(txt); h += 2) { unsigned v; sscanf(h, "%2x", &v); txt[len++] = (char)v; }
			txt[len] = 0;
			echs_task_t tt[64];
			size_t nt = parse_tasks(txt, len, tt, 64);
			for (size_t i = 0; i < nt; i++) { printf("%sS{", i ? " " : ""); dump_fields(tt[i]); printf("}"); }
			putchar('\n');
			for (size_t i = 0; i < nt; i++) free_echs_task(tt[i]);
		} else if (!strcmp(toks[0], "e.rdat") && ntk >= 2) {
			/* e.rdat DTSTART d1 d2 … : __make_evrdat() on the instants, the stream drained */
			echs_event_t e = {.from = {.u = strtoull(toks[1], NULL, 16)}};
			size_t nd = (size_t)(ntk - 2);
			echs_instant_t *d = calloc(nd + 1, sizeof(*d));
			for (size_t i = 0; i < nd; i++) d[i].u = strtoull(toks[2 + i], NULL, 16);
			echs_evstrm_t s = __make_evrdat(e, d, nd, false);
			int first = 1;
			if (s != NULL) {
				for (echs_event_t x; !echs_event_0_p(x = echs_evstrm_pop(s));) {
					printf("%s%016llx", first ? "" : " ", (unsigned long long)x.from.u); first = 0;
				}
				free_echs_evstrm(s);
			}
			putchar('\n');
			free(d);
		} else if (!strcmp(toks[0], "p.occ") && ntk >= 3) {
			/* p.occ HEX N : the calendar through the whole parser, N occurrences of every task (as p.parse, which gives 4) */
			do_parse(toks[1], toks + ntk, 0, atoi(toks[2]), 0);
		} else if (!strcmp(toks[0], "y.snarfshift") && ntk >= 2) {
			/* y.snarfshift HEX(text behind SHIFT=) : snarf_shift() */
			static char txt[4096]; size_t len = 0;
			for (char *h = toks[1]; h[0] && h[1] && len + 1 < sizeof(txt); h += 2) { unsigned v; sscanf(h, "%2x", &v); txt[len++] = (char)v; }
			txt[len] = 0;
			printf("%d\n", (int)snarf_shift(txt));
		} else if (!strcmp(toks[0], "r.parse") && ntk >= 2) {
			/* r.parse HEX(rule text without the RRULE: prefix) : the rule as snarf_rrule() reads it */
			static char txt[65536]; size_t len = 0;
			for (char *h = toks[1]; h[0] && h[1] && len + 1 < sizeof(txt); h += 2) { unsigned v; sscanf(h, "%2x", &v); txt[len++] = (char)v; }
			txt[len] = 0;
			struct rrulsp_s r = echs_read_rrul(txt, len);
			print_rule(&r);
			putchar('\n');
		} else if (!strcmp(toks[0], "r.print") && ntk >= 2) {
			/* r.print RULE-TOKENS [| ccnt=N exc=0/1] : the text send_rrul() writes for the rule (hex) */
			int bar = 1; while (bar < ntk && strcmp(toks[bar], "|")) bar++;
			struct rrulsp_s r = read_rule(toks + 1, bar - 1);
			size_t ccnt = 0; int exc = 0;
			for (int i = bar + 1; i < ntk; i++) {
				if (!strncmp(toks[i], "ccnt=", 5)) ccnt = strtoul(toks[i] + 5, NULL, 10);
				else if (!strncmp(toks[i], "exc=", 4)) exc = atoi(toks[i] + 4);
			}
			char tmpl[] = "/tmp/hx_pr_XXXXXX";
			int fd = mkstemp(tmpl);
			if (fd < 0) { puts("<mkstemp>"); continue; }
			unlink(tmpl);
			send_rrul(fd, &r, ccnt, exc);
			fdbang(fd); fdflush();
			off_t z = lseek(fd, 0, SEEK_CUR);
			static char back[1 << 16];
			lseek(fd, 0, SEEK_SET);
			ssize_t nb = read(fd, back, z < (off_t)sizeof(back) ? (size_t)z : sizeof(back) - 1);
			close(fd);
			for (ssize_t i = 0; i < nb; i++) printf("%02x", (unsigned char)back[i]);
			putchar('\n');
		} else if (!strcmp(toks[0], "r.fill") && ntk >= 3) {
			/* r.fill RULE-TOKENS | proto=HEX nti=N : one call of the filler on a cache pre-filled with proto */
			int bar = 1; while (bar < ntk && strcmp(toks[bar], "|")) bar++;
			struct rrulsp_s r = read_rule(toks + 1, bar - 1);
			echs_instant_t proto = {.u = 0}; size_t nti = 64;
			for (int i = bar + 1; i < ntk; i++) {
				if (!strncmp(toks[i], "proto=", 6)) proto.u = strtoull(toks[i] + 6, NULL, 16);
				else if (!strncmp(toks[i], "nti=", 4)) nti = strtoul(toks[i] + 4, NULL, 10);
			}
			echs_instant_t *tgt = calloc(2 * GRP_CCH_OFF, sizeof(*tgt));
			for (size_t j = 0; j < GRP_CCH_OFF; j++) tgt[j] = proto;
			size_t res = 0;
			switch (r.freq) {
			case FREQ_YEARLY: res = rrul_fill_yly(tgt, nti, &r); break;
			case FREQ_MONTHLY: res = rrul_fill_mly(tgt, nti, &r); break;
			case FREQ_WEEKLY: res = rrul_fill_wly(tgt, nti, &r); break;
			case FREQ_DAILY: res = rrul_fill_dly(tgt, nti, &r); break;
			case FREQ_HOURLY: res = rrul_fill_Hly(tgt, nti, &r); break;
			case FREQ_MINUTELY: res = rrul_fill_Mly(tgt, nti, &r); break;
			case FREQ_SECONDLY: res = rrul_fill_Sly(tgt, nti, &r); break;
			default: break;
			}
			printf("n=%zu", res);
			for (size_t j = 0; j < res && j < 2 * GRP_CCH_OFF; j++) printf("%s%016llx", j ? "," : " ", (unsigned long long)tgt[j].u);
			putchar('\n');
			free(tgt);
		} else if (!strcmp(toks[0], "r.strm") && ntk >= 3) {
			/* r.strm RULE-TOKENS | from=HEX [zone=NAME] [scale=N] n=N : the rule stream as the parser builds it, N pops */
			int bar = 1; while (bar < ntk && strcmp(toks[bar], "|")) bar++;
			struct rrulsp_s r = read_rule(toks + 1, bar - 1);
			echs_instant_t from = {.u = 0}; size_t n = 10; const char *zone = NULL; int sc = 0; int refused = 0;
			for (int i = bar + 1; i < ntk; i++) {
				if (!strncmp(toks[i], "from=", 5)) from.u = strtoull(toks[i] + 5, NULL, 16);
				else if (!strncmp(toks[i], "ds=", 3)) {
					/* the value of a DTSTART line the way the parser reads it */
					from = snarf_dt(":", toks[i] + 3, toks[i] + strlen(toks[i]));
					if (echs_nul_instant_p(from)) refused = 1;
				}
				else if (!strncmp(toks[i], "n=", 2)) n = strtoul(toks[i] + 2, NULL, 10);
				else if (!strncmp(toks[i], "zone=", 5)) zone = toks[i] + 5;
				else if (!strncmp(toks[i], "scale=", 6)) sc = atoi(toks[i] + 6);
			}
			if (refused) { puts("refused"); continue; }      /* no DTSTART, no task */
			if (sc) from = echs_instant_attach_scale(from, (echs_scale_t)sc);
			if (zone) from = echs_instant_attach_tzob(from, echs_tzob(zone, strlen(zone)));
			echs_evstrm_t st = echs_make_evstrm_rrul(from, &r, 1U);
			int first = 1;
			for (size_t j = 0; st && j < n; j++) {
				echs_event_t e = echs_evstrm_pop(st);
				if (echs_event_0_p(e)) { printf("%s-", first ? "" : ","); first = 0; break; }
				printf("%s%016llx", first ? "" : ",", (unsigned long long)e.from.u); first = 0;
			}
			if (first) printf("-");
			putchar('\n');
			if (st) free_echs_evstrm(st);
		} else if (!strcmp(toks[0], "m.run")) {
			int hash = 1;
			while (hash < ntk && strcmp(toks[hash], "#")) hash++;
			tk = toks; ptk = 1;
			int save = ntk; ntk = hash;
			echs_evstrm_t s = parse_tree();
			ntk = save;
			int first = 1;
			for (int j = hash + 1; j < ntk; j++) {
				for (const char *c = toks[j]; *c; c++) {
					echs_event_t e = {0};
					if (*c == 'c') {
						/* go on with a clone of the stream as it stands (what evfilt and evmrul do with their
						 * constituents when they are cloned), the original is freed */
						if (s != NULL) { echs_evstrm_t k = clone_echs_evstrm(s); free_echs_evstrm(s); s = k; }
						continue;
					}
					if (s != NULL) e = (*c == 'p') ? echs_evstrm_pop(s) : echs_evstrm_next(s);
					if (echs_event_0_p(e)) printf("%s-", first ? "" : " ");
					else printf("%s%016" PRIx64 ":%lu", first ? "" : " ", e.from.u, (unsigned long)e.oid);
					first = 0;
				}
			}
			putchar('\n');
			if (s != NULL) free_echs_evstrm(s);
		} else {
			puts("bad-op");
		}
	}
	return 0;
}
