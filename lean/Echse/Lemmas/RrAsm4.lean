/-
  Assembly of C16 / C09, part 4: a pure calendar-day SHIFT of at most 365 days keeps dates real (`KeepsAt`):
  `shift()` takes the real dates of year `y` to real dates of the year whose set they are filed under.
  `ShiftKeepsDates` (RrCandOk4) asks this of every year 0..2099; that holds for forward shifts
  (`shiftKeepsDates_days_fwd`) and fails for backward ones in year 0 only (`shiftKeepsDates_back_fails`), which no
  filler call reaches with a backward shift (RrAsm5).
-/
import Echse.Lemmas.RrAsm3
import Echse.Lemmas.RuleExt15
import Echse.Lemmas.RrCandOk4
namespace Echse.Lemmas.RrAsm
open Echse.Rrule Echse.Instant Echse.Spec.RrOk
open Echse.Lemmas.RrCandOk
open Echse.RuleExt (dayF shiftDays_pw nb pack_eq fuel_ok getNdom_bounds)

/-- what the fillers need of `shift()` in year `y` (`ShiftKeepsDates` is this for all `y ≤ 2099`) -/
def KeepsAt (sh : Int) (y : Nat) : Prop :=
  ∀ cs, AllVC y cs →
    (∀ c ∈ (shift { same := cs } y sh).same, VC y c) ∧
    (∀ c ∈ (shift { same := cs } y sh).prev, 1 ≤ y ∧ VC (y - 1) c) ∧
    (∀ c ∈ (shift { same := cs } y sh).next, VC (y + 1) c)

theorem shiftKeepsDates_iff (sh : Int) : ShiftKeepsDates sh ↔ ∀ y, y ≤ 2099 → KeepsAt sh y :=
  ⟨fun h y hy cs hc => h y cs hy hc, fun h y cs hy hc => h y hy cs hc⟩

/-- a pure day shift is the day part of `shift()` -/
theorem shift_days_eq (cand : Cand3) (y : Nat) (n : Int) (hn : n ≠ 0) :
    shift cand y (n * 65536) = shiftDays cand y n := by
  have s0 : n * 65536 ≠ 0 := by omega
  have s1 : shDvalue (n * 65536) = n := by unfold shDvalue; omega
  have s2 : shBdayP (n * 65536) = false := by
    have : shLow (n * 65536) = 0 := by unfold shLow; omega
    simp [shBdayP, this]
  unfold shift
  rw [if_neg s0, s1]
  simp only [s2, ne_eq, hn, not_false_eq_true, if_true, Bool.false_eq_true, if_false]

/-- a date of year `y` whose day-of-month is set to the int `D` (at most 365 days off, not before 0000-01-01):
`reassess` makes it a real date of the year its bucket stands for -/
theorem move_keeps (y c : Nat) (D : Int) (hc : VC y c)
    (hn : -365 ≤ D - ((c % 32 : Nat) : Int) ∧ D - ((c % 32 : Nat) : Int) ≤ 365)
    (hy : 1 ≤ y ∨ ((c % 32 : Nat) : Int) ≤ D) (res : Nat × Nat)
    (hres : res = (bucket y (reassess (reassessFuel D) y ((c / 32 + 1 : Nat) : Int) D).1,
      packCand (reassess (reassessFuel D) y ((c / 32 + 1 : Nat) : Int) D).2.1.toNat
        (reassess (reassessFuel D) y ((c / 32 + 1 : Nat) : Int) D).2.2.toNat)) :
    (nb res.1 = 0 → VC y res.2) ∧ (nb res.1 = 1 → 1 ≤ y ∧ VC (y - 1) res.2) ∧ (nb res.1 = 2 → VC (y + 1) res.2) := by
  obtain ⟨c1, c2, c3⟩ := hc
  have hb := getNdom_bounds y (c / 32 + 1) (by omega) (by omega)
  have hY := eDay_year y (c / 32 + 1) (by omega) (by omega)
  obtain ⟨ny, nm, nd, e, v1, v2, v3, v4, v5⟩ := reassess_eDay (reassessFuel D) y (c / 32 + 1)
    D (by omega) (by omega) (Or.inr (fuel_ok _)) (by
      rcases hy with hy | hy <;> omega)
  have hd : res = (bucket y ny, packCand nm nd) := by
    rw [hres]
    simp only [e, Int.toNat_natCast]
  have hb' := getNdom_bounds ny nm v1 v2
  have hY' := eDay_year ny nm v1 v2
  have hp := pack_eq nm nd v1 v2 (by omega)
  have hv : VC ny (packCand nm nd) := by
    unfold VC; rw [hp]
    have e1 : ((nm - 1) * 32 + nd) / 32 = nm - 1 := by omega
    have e2 : ((nm - 1) * 32 + nd) % 32 = nd := by omega
    have e3 : nm - 1 + 1 = nm := by omega
    rw [e1, e2, e3]; omega
  have hyr : y ≤ ny + 1 ∧ ny ≤ y + 1 := by omega
  have hbk : (ny = y ∧ bucket y ny = 0) ∨ (ny = y + 1 ∧ bucket y ny = 2) ∨ (ny + 1 = y ∧ bucket y ny = 1) := by
    unfold bucket
    by_cases h0 : (ny : Int) = y
    · left; exact ⟨by omega, if_pos h0⟩
    · rw [if_neg h0]
      by_cases h1 : (ny : Int) > y
      · right; left; exact ⟨by omega, if_pos h1⟩
      · right; right; exact ⟨by omega, if_neg h1⟩
  have n0 : nb 0 = 0 := rfl
  have n1 : nb 1 = 1 := rfl
  have n2 : nb 2 = 2 := rfl
  rw [hd]
  dsimp only
  rcases hbk with ⟨e1, e2⟩ | ⟨e1, e2⟩ | ⟨e1, e2⟩ <;> rw [e2]
  · exact ⟨fun _ => e1 ▸ hv, fun h => by omega, fun h => by omega⟩
  · exact ⟨fun h => by omega, fun h => by omega, fun _ => e1 ▸ hv⟩
  · have e3 : ny = y - 1 := by omega
    exact ⟨fun h => by omega, fun _ => ⟨by omega, e3 ▸ hv⟩, fun h => by omega⟩

/-- one date moved by `n` days: a real date of the year its set stands for -/
theorem dayF_keeps (y c : Nat) (n : Int) (hc : VC y c) (hn : -365 ≤ n ∧ n ≤ 365) (hy : 1 ≤ y ∨ 0 < n) :
    (nb (dayF y n c).1 = 0 → VC y (dayF y n c).2) ∧
    (nb (dayF y n c).1 = 1 → 1 ≤ y ∧ VC (y - 1) (dayF y n c).2) ∧
    (nb (dayF y n c).1 = 2 → VC (y + 1) (dayF y n c).2) :=
  move_keeps y c (((c % 32 : Nat) : Int) + n) hc (by omega) (by omega) (dayF y n c) rfl

/-- a pure day shift of at most 365 days keeps dates real in every year -- year 0 only when going forward -/
theorem keepsAt_days (n : Int) (y : Nat) (hn : n ≠ 0 ∧ -365 ≤ n ∧ n ≤ 365) (hy : 1 ≤ y ∨ 0 < n) :
    KeepsAt (n * 65536) y := by
  intro cs hcs
  rw [shift_days_eq _ y n hn.1]
  have key : ∀ k x, x ∈ (shiftDays { same := cs } y n).get k → ∃ c, VC y c ∧ nb (dayF y n c).1 = nb k ∧ x = (dayF y n c).2 := by
    intro k x hx
    obtain ⟨c, hc, h1, h2⟩ := (shiftDays_pw _ y n k x).mp hx
    exact ⟨c, hcs.1 c hc, h1, h2⟩
  refine ⟨fun x hx => ?_, fun x hx => ?_, fun x hx => ?_⟩
  · obtain ⟨c, hc, h1, rfl⟩ := key 0 x hx
    exact (dayF_keeps y c n hc hn.2 hy).1 h1
  · obtain ⟨c, hc, h1, rfl⟩ := key 1 x hx
    exact (dayF_keeps y c n hc hn.2 hy).2.1 h1
  · obtain ⟨c, hc, h1, rfl⟩ := key 2 x hx
    exact (dayF_keeps y c n hc hn.2 hy).2.2 h1

theorem keepsAt_zero (y : Nat) : KeepsAt 0 y := by
  intro cs h
  have e : shift { same := cs } y 0 = { same := cs } := by unfold shift; simp
  rw [e]
  exact ⟨h.1, fun c hc => (nomatch hc), fun c hc => (nomatch hc)⟩

/-- SHIFT=+n (calendar days, n ≤ 365): `ShiftKeepsDates` as the yearly / monthly filler theorems ask for it -/
theorem shiftKeepsDates_days_fwd (n : Int) (hn : 0 < n ∧ n ≤ 365) : ShiftKeepsDates (n * 65536) :=
  (shiftKeepsDates_iff _).mpr fun y _ => keepsAt_days n y ⟨by omega, by omega, hn.2⟩ (Or.inr hn.1)

/-- the statement asked for, `ShiftKeepsDates (n * 65536)` for `-365 ≤ n ≤ 365`, is false for every backward shift:
`ShiftKeepsDates` quantifies over year 0 as well, whose January 1st is taken to "the year before".
What holds is `keepsAt_days`: all years from 1 on. -/
theorem shiftKeepsDates_back_fails : ¬ ShiftKeepsDates (-1 * 65536) := by
  intro h
  have h1 : AllVC 0 [1] := ⟨by unfold VC; decide, List.pairwise_singleton _ _⟩
  have h2 := ((h 0 [1] (by decide) h1).2.1 383 (by decide +kernel)).1
  omega

end Echse.Lemmas.RrAsm
