/-
  C01, sub-daily fillers: the month carry wherever it leads, the candidate as an instant, the loop's tests read on
  the fields of an instant, and what `inter_past` skips.
-/
import Echse.Lemmas.RrSubRfc2
namespace Echse.Lemmas.RrSubRfc
open Echse.Rrule Echse.Instant Echse.Spec.RrOk Echse.Lemmas.RrSubOk Echse.Spec.Rfc Echse.Spec.Cal Echse.Spec.RuleExt

/-! ### the month carry beyond 2099 -/

theorem days_lt_2100 (y m d : Nat) (hy : y ≤ 2099) (h1 : 1 ≤ m) (h2 : m ≤ 12) (hd : d ≤ monthLen y m) :
    days y m d < days 2100 1 1 :=
  days_lt_of_lex y m d 2100 1 1 h1 h2 hd (by omega) (by omega) (by omega) (Or.inl (by omega))

/-- a carry aimed at a day number of 2100 or later ends in a year the loops stop at -/
theorem carry_over : ∀ (fuel y m d : Nat), 1901 ≤ y → 1 ≤ m → m ≤ 12 → 1 ≤ d → d < fuel → y + d < 4294967296 →
    (2100 ≤ y ∨ days 2100 1 1 ≤ days y m 1 + d - 1) →
    ∃ y' m' d', subCarry fuel y m d (getNdom y m) = some (y', m', d', getNdom y' m') ∧
      2100 ≤ y' ∧ 1 ≤ m' ∧ m' ≤ 12 ∧ 1 ≤ d' ∧ d' ≤ getNdom y' m' := by
  intro fuel
  induction fuel with
  | zero => intro y m d _ _ _ _ h; omega
  | succ f ih =>
    intro y m d hy1 hm1 hm2 hd hf hyd hor
    by_cases hy : 2100 ≤ y
    · obtain ⟨y', m', d', he, h1, h2, h3, h4, _, _, h7⟩ := subCarry_spec (f + 1) y m d hm1 hm2 hd hf hyd
      exact ⟨y', m', d', he, by omega, h1, h2, h3, h4⟩
    · have hy2 : y ≤ 2099 := by omega
      have hge : days 2100 1 1 ≤ days y m 1 + d - 1 := by omega
      have hb := getNdom_bounds y m hm1 hm2
      have hnd := ndom_eq y m hy1 hy2 hm1 hm2
      have hgt : d > getNdom y m := by
        by_cases c : d ≤ getNdom y m
        · have := days_lt_2100 y m d hy2 hm1 hm2 (by omega)
          have := days_d y m d
          omega
        · omega
      unfold subCarry
      simp only [hgt, if_true]
      by_cases hm : m + 1 > 12
      · have hm12 : m = 12 := by omega
        subst hm12
        have hy1' : (y + 1) % u32 = y + 1 := by simp only [u32]; omega
        simp only [hm, if_true, hy1']
        have hn : getNdom y 12 = 31 := by simp [getNdom, mdays]
        have hny := days_next_year y
        exact ih (y + 1) 1 (d - getNdom y 12) (by omega) (by omega) (by omega) (by omega) (by omega) (by omega)
          (Or.inr (by omega))
      · simp only [hm, if_false]
        have hnm := days_next_month y m hm1 (by omega)
        exact ih y (m + 1) (d - getNdom y m) hy1 (by omega) (by omega) (by omega) (by omega) (by omega)
          (Or.inr (by omega))

/-- moving on by `q` days, wherever that leads -/
theorem carry_full (y m d q : Nat) (hy1 : 1901 ≤ y) (hy2 : y ≤ 2099) (hm1 : 1 ≤ m) (hm2 : m ≤ 12) (hd1 : 1 ≤ d)
    (hd2 : d ≤ getNdom y m) (hq : q < 2147583648) :
    ∃ y' m' d', subCarry ((d + q) % u32 + 1) y m ((d + q) % u32) (getNdom y m) = some (y', m', d', getNdom y' m') ∧
      1901 ≤ y' ∧ 1 ≤ m' ∧ m' ≤ 12 ∧ 1 ≤ d' ∧ d' ≤ getNdom y' m' ∧
      (days y m d + q < days 2100 1 1 → y' ≤ 2099 ∧ days y' m' d' = days y m d + q) ∧
      (days 2100 1 1 ≤ days y m d + q → 2100 ≤ y') := by
  by_cases hlt : days y m d + q < days 2100 1 1
  · obtain ⟨y', m', d', he, h0, h1, h2, h3, h4, h5, h6⟩ := carry_adv y m d q hy1 hy2 hm1 hm2 hd1 hd2 hq hlt
    exact ⟨y', m', d', he, by omega, h2, h3, h4, h5, fun _ => ⟨h1, h6⟩, fun h => by omega⟩
  · have hb := getNdom_bounds y m hm1 hm2
    have e : (d + q) % u32 = d + q := by simp only [u32]; omega
    rw [e]
    have hdd := days_d y m d
    obtain ⟨y', m', d', he, h0, h1, h2, h3, h4⟩ :=
      carry_over (d + q + 1) y m (d + q) hy1 hm1 hm2 (by omega) (by omega) (by omega) (Or.inr (by omega))
    exact ⟨y', m', d', he, by omega, h1, h2, h3, h4, fun h => absurd h hlt, fun _ => h0⟩

/-! ### the candidate as an instant -/

theorem mkInst_id (y m d H M S ms : Nat) (hy : y ≤ 2100) (hm : m ≤ 12) (hd : d ≤ 31) (hH : H < 24) (hM : M < 60)
    (hS : S < 60) (hms : ms < 1024) : mkInst y m d H M S ms = ⟨y, m, d, H, M, S, ms⟩ := by
  unfold mkInst
  have e1 : y % 65536 = y := Nat.mod_eq_of_lt (by omega)
  have e2 : m % 256 = m := Nat.mod_eq_of_lt (by omega)
  have e3 : d % 256 = d := Nat.mod_eq_of_lt (by omega)
  have e4 : H % 256 = H := Nat.mod_eq_of_lt (by omega)
  have e5 : M % 256 = M := Nat.mod_eq_of_lt (by omega)
  have e6 : S % 64 = S := Nat.mod_eq_of_lt (by omega)
  have e7 : ms % 1024 = ms := Nat.mod_eq_of_lt hms
  rw [e1, e2, e3, e4, e5, e6, e7]

/-- seconds since day 0 of the candidate `y-m-d H:M:S` -/
def cabs (y m d H M S : Nat) : Int := days y m d * 86400 + (H : Int) * 3600 + (M : Int) * 60 + S

/-! ### the loop's tests on the fields of an instant -/

section tests
variable (r : Rule) (p : Inst) (k : Nat) (hr : WfRule r) (x : Inst) (hx : VT x) (hy1 : 1901 ≤ x.y) (hy2 : x.y ≤ 2099)
include hr hx

theorem t_hour : ((mkSubCtx r p k).HMask &&& shl1 x.H) = 0 ↔ ¬ hourLim r x := by
  have := hourMask_ok r.H x.H hr.hours.2 hx.2.2.2.2.1
  unfold hourLim
  rw [← this]
  show (hourMask r.H &&& shl1 x.H) = 0 ↔ _
  simp

theorem t_min : ((mkSubCtx r p k).MMask &&& shl1q x.M) = 0 ↔ ¬ minLim r x := by
  have := min64Mask_ok r.M x.M hr.mins.2 hx.2.2.2.2.2.1
  unfold minLim
  rw [← this]
  show (min64Mask r.M &&& shl1q x.M) = 0 ↔ _
  simp

theorem t_sec : ((mkSubCtx r p k).SMask &&& shl1q x.S) = 0 ↔ ¬ secLim r x := by
  have := min64Mask_ok r.S x.S hr.secs.2 hx.2.2.2.2.2.2.1
  unfold secLim
  rw [← this]
  show (min64Mask r.S &&& shl1q x.S) = 0 ↔ _
  simp

include hy1 hy2

theorem t_day (w : Nat) (hw : w = wdayOf (dayOf x)) :
    (mkSubCtx r p k).dayOut w x.m x.d (getNdom x.y x.m) = false ↔ DateOk r x := by
  obtain ⟨h1, h2, h3, h4, _⟩ := hx
  exact dayOut_ok r p k hr x w _ h1 h2 h3 h4 hw (ndom_eq x.y x.m hy1 hy2 h1 h2)

theorem t_doy : (!(mkSubCtx r p k).r.doy.isEmpty &&
    !doyHit (mkSubCtx r p k).r.doy (ymdGetYd x.y x.m x.d) (maxyOf x.y)) = false ↔ ydayOk r x := by
  obtain ⟨h1, h2, h3, h4, _⟩ := hx
  have hml := monthLen_pos x.y x.m h1 h2
  refine doy_ok r x _ _ hr.doy ?_ (maxy_eq x.y hy1 hy2) ?_
  · rw [yd_eq x.y x.m x.d hy1 hy2 h1 h2 (by omega)]; rfl
  · unfold maxyOf; split <;> omega

end tests

/-! ### instants close to a candidate share its fields -/

theorem same_parts (x X : Inst) (hx : VT x) (hX : VT X) (D : Nat) (h : absOf x = absOf X + D)
    (h1 : D < 86400 - ((X.H * 60 + X.M) * 60 + X.S)) :
    (x.y = X.y ∧ x.m = X.m ∧ x.d = X.d) ∧ (D < 3600 - (X.M * 60 + X.S) → x.H = X.H ∧
      (D < 60 - X.S → x.M = X.M ∧ (D = 0 → x.S = X.S))) := by
  have hX' := hX
  obtain ⟨a1, a2, a3, a4, aH, aM, aS, _⟩ := hX
  have hA := absOf_vt X hX'
  have hd := same_day x hx X.y X.m X.d a1 a2 a3 a4 (by omega) (by omega)
  refine ⟨hd, ?_⟩
  have hB := absOf_vt x hx
  obtain ⟨e1, e2, e3⟩ := hd
  rw [e1, e2, e3] at hB
  obtain ⟨_, _, _, _, bH, bM, bS, _⟩ := hx
  intro h2
  refine ⟨by omega, ?_⟩
  intro h3
  refine ⟨by omega, ?_⟩
  intro h4
  omega

/-- skipping to the next multiple of the interval past `rem` loses none of the multiples from `rem` on -/
theorem skip_ex (rem inter t : Nat) (hi : 1 ≤ inter) (hi2 : inter < 2147483648) (hr1 : 1 ≤ rem)
    (hr2 : rem ≤ 86400) (h : rem ≤ t * inter) :
    (∃ j, interPast rem inter = j * inter) ∧ ∃ t', t * inter = interPast rem inter + t' * inter := by
  rw [interPast_eq rem inter hi hi2 hr1 hr2]
  refine ⟨⟨_, rfl⟩, ?_⟩
  have hq : (rem - 1) / inter + 1 ≤ t := by
    by_cases c : t ≤ (rem - 1) / inter
    · have h1 := Nat.mul_le_mul_right inter c
      have h2 := Nat.div_mul_le_self (rem - 1) inter
      omega
    · omega
  refine ⟨t - ((rem - 1) / inter + 1), ?_⟩
  rw [← Nat.add_mul]
  congr 1
  omega

theorem interPast_mul (rem inter : Nat) (hi : 1 ≤ inter) (hi2 : inter < 2147483648) (hr1 : 1 ≤ rem)
    (hr2 : rem ≤ 86400) : ∃ j, interPast rem inter = j * inter :=
  ⟨_, interPast_eq rem inter hi hi2 hr1 hr2⟩

/-! ### the limits depend on the fields they name -/

theorem date_congr (r : Rule) (x X : Inst) (e1 : x.y = X.y) (e2 : x.m = X.m) (e3 : x.d = X.d) :
    (DateOk r x ↔ DateOk r X) ∧ (ydayOk r x ↔ ydayOk r X) := by
  have e : dayOf x = dayOf X := by simp only [dayOf, e1, e2, e3]
  unfold DateOk monthOk mdayOk wdayOk ydayOk ydayOf
  rw [e, e1, e2, e3]
  exact ⟨Iff.rfl, Iff.rfl⟩

theorem hour_congr (r : Rule) (x X : Inst) (e : x.H = X.H) : hourLim r x ↔ hourLim r X := by
  simp only [hourLim, e]
theorem min_congr (r : Rule) (x X : Inst) (e : x.M = X.M) : minLim r x ↔ minLim r X := by
  simp only [minLim, e]
theorem sec_congr (r : Rule) (x X : Inst) (e : x.S = X.S) : secLim r x ↔ secLim r X := by
  simp only [secLim, e]

end Echse.Lemmas.RrSubRfc
