/-
  C01 for the daily filler, part 1: the day loop `dlyLoop` — what it writes (`dlyLoop_sound`) in terms of the rounds
  `j = 0, 1, …` (round `j` looks at the day `INTERVAL * j` days after the seed's, its weekday carried along).
-/
import Echse.Lemmas.RrRfcBase5
namespace Echse.Lemmas.RrRfc
open Echse.Rrule Echse.Instant Echse.Spec.RrOk Echse.Spec.Cal Echse.Spec.RuleExt Echse.Spec.Rfc
open Echse.Lemmas.RrOkBase

/-- the day loop's three `continue`s -/
def dlySkipDay (c : DlyCtx) (m d w maxd : Nat) : Bool :=
  !bit c.wdMask w || !bit c.mMask m ||
    ((c.posdMask &&& shl1 d) = 0 && (c.negdMask &&& shl1 ((maxd + u32 - d) % u32)) = 0)

/-- the weekday after the loop's increment expression -/
def wNext (w k : Nat) : Nat :=
  if (w + k % u32) % u32 > 7 then ((w + k % u32) % u32 - 1) % 7 + 1 else (w + k % u32) % u32

/-- one round's work on the result -/
def dlyDay (c : DlyCtx) (y m d w maxd : Nat) (res : List Inst) : List Inst × Bool :=
  if dlySkipDay c m d w maxd then (res, false) else genEnum c.r c.proto c.nti false (dlySkip c) y m d c.e.timesIx res

theorem dlyLoop_succ (c : DlyCtx) (fuel y m d w maxd : Nat) (res : List Inst) :
    dlyLoop c (fuel + 1) y m d w maxd res =
      if ¬ res.length < c.nti then some res else
      if y > wlyDlyMaxYear ∨ y > c.r.untl.y then some res else
      if (dlyDay c y m d w maxd res).2 then some (dlyDay c y m d w maxd res).1 else
      match carryMon ((d + c.r.inter % u32) % u32 + 1) y m ((d + c.r.inter % u32) % u32) maxd with
      | none => none
      | some none => some (dlyDay c y m d w maxd res).1
      | some (some (y2, m2, d2, maxd2)) =>
        dlyLoop c fuel y2 m2 d2 (wNext w c.r.inter) maxd2 (dlyDay c y m d w maxd res).1 := by
  unfold dlyDay
  rw [← dlyEnum_eq]
  rfl

theorem dlyDay_subset (c : DlyCtx) (y m d w maxd : Nat) (res : List Inst) (z : Inst) (hz : z ∈ res) :
    z ∈ (dlyDay c y m d w maxd res).1 := by
  unfold dlyDay
  split
  · exact hz
  · exact genEnum_subset _ _ _ _ _ _ _ _ _ _ z hz

/-- nothing written is lost -/
theorem dlyLoop_subset (c : DlyCtx) : ∀ (fuel y m d w maxd : Nat) (res l : List Inst),
    dlyLoop c fuel y m d w maxd res = some l → ∀ z ∈ res, z ∈ l := by
  intro fuel
  induction fuel with
  | zero => intro y m d w maxd res l h; cases h
  | succ f ih =>
    intro y m d w maxd res l h z hz
    rw [dlyLoop_succ] at h
    have hz' := dlyDay_subset c y m d w maxd res z hz
    split at h
    · cases h; exact hz
    · split at h
      · cases h; exact hz
      · split at h
        · cases h; exact hz'
        · split at h
          · cases h
          · cases h; exact hz'
          · exact ih _ _ _ _ _ _ _ h z hz'

/-- a full result ends the loop -/
theorem dlyLoop_full (c : DlyCtx) (fuel y m d w maxd : Nat) (res l : List Inst) (hf : ¬ res.length < c.nti)
    (h : dlyLoop c fuel y m d w maxd res = some l) : l = res := by
  cases fuel with
  | zero => cases h
  | succ f => rw [dlyLoop_succ, if_pos hf] at h; cases h; rfl

/-- the seed's day plus `j` intervals -/
def rnd (c : DlyCtx) (j : Nat) : Nat := c.proto.d + j * c.r.inter

theorem rnd_succ (c : DlyCtx) (j : Nat) : rnd c (j + 1) = rnd c j + c.r.inter := by
  unfold rnd; rw [Nat.succ_mul]; omega

/-- the weekday of round `j` -/
def rndW (c : DlyCtx) (j : Nat) : Nat := wdayOf (dayOf c.proto + ((j * c.r.inter : Nat) : Int))

theorem rndW_succ (c : DlyCtx) (hr : WfRule c.r) (j : Nat) : wNext (rndW c j) c.r.inter = rndW c (j + 1) := by
  unfold wNext rndW
  rw [wday_step _ _ hr.inter.2, Nat.succ_mul]
  congr 1
  omega

/-- what the day loop writes: every member comes from a round `j`, whose day passed the three tests, and from a time
of the enumeration that was not skipped -/
theorem dlyLoop_sound (c : DlyCtx) (hr : WfRule c.r) (hp : WfInst c.proto) (he : EnumOk c.e) (Q : Inst → Prop)
    (hQ : ∀ (j y m d : Nat), Carry c.proto.y c.proto.m (rnd c j) y m d → y ≤ 2099 →
      dlySkipDay c m d (rndW c j) (getNdom y m) = false → ∀ t ∈ c.e.timesIx, dlySkip c t.1 = false →
      ltP ⟨y, m, d, t.2.1, t.2.2.1, t.2.2.2, c.proto.ms⟩ c.proto = false →
      ltP c.r.untl ⟨y, m, d, t.2.1, t.2.2.1, t.2.2.2, c.proto.ms⟩ = false →
      Q ⟨y, m, d, t.2.1, t.2.2.1, t.2.2.2, c.proto.ms⟩) :
    ∀ (fuel j y m d : Nat) (res l : List Inst), Carry c.proto.y c.proto.m (rnd c j) y m d → (∀ z ∈ res, Q z) →
      dlyLoop c fuel y m d (rndW c j) (getNdom y m) res = some l → ∀ z ∈ l, Q z := by
  intro fuel
  induction fuel with
  | zero => intro j y m d res l _ _ h; cases h
  | succ f ih =>
    intro j y m d res l hc hres h
    have hpm := hp.month
    have hpd := hp.day
    have hD : 1 ≤ rnd c j := by unfold rnd; omega
    obtain ⟨hv, hpot, -, -⟩ := hc.props hpm.1 hpm.2 hD
    rw [dlyLoop_succ] at h
    split at h
    · cases h; exact hres
    · split at h
      · cases h; exact hres
      · rename_i c2
        have hy99 : y ≤ 2099 := by unfold wlyDlyMaxYear at c2; omega
        have hday : ∀ z ∈ (dlyDay c y m d (rndW c j) (getNdom y m) res).1, Q z := by
          intro z hz
          unfold dlyDay at hz
          split at hz
          · exact hres z hz
          · rename_i csk
            rcases genEnum_mem c.r c.proto c.nti false (dlySkip c) hp hv hy99 c.e.timesIx res
              (fun t ht => timesIx_good he ht) z hz with a | ⟨-, t, ht, hs, hz, hge, hle⟩
            · exact hres z a
            · rw [hz] at hge hle ⊢
              exact hQ j y m d hc hy99 (by simpa using csk) t ht hs hge hle
        split at h
        · cases h; exact hday
        · have hi := hr.inter
          have hd31 := hv.d31
          have hm12 := hv.2.1
          have e1 : (d + c.r.inter % u32) % u32 = d + c.r.inter := by unfold u32; omega
          rw [e1] at h
          obtain ⟨y2, m2, d2, hcm, hc2⟩ := carryMon_spec (d + c.r.inter + 1) y m (d + c.r.inter) hv.1 hv.2.1
            (by omega) (by unfold pot at hpot ⊢; unfold rnd at hpot; omega)
          rw [hcm] at h
          simp only at h
          rw [rndW_succ c hr j] at h
          refine ih (j + 1) y2 m2 d2 _ l ?_ hday h
          rw [rnd_succ]
          exact hc.comp _ _ _ _ hc2

end Echse.Lemmas.RrRfc
