/-
  Lemmas for C07, part 3: the instant level (`instantLoc`, `instantUtc`, `tzobOffs`),
  tied to the calendar specification through the C08 theorems.
-/
import Echse.Lemmas.Tz2
import Echse.Props.C08
namespace Echse.Tz
open Echse.Instant Echse.Spec.Cal

/-- `__inst_to_epoch` read as an integer -/
def ep (i : Inst) : Int := (instToEpoch i : Int)

theorem days_2038 : days 2038 1 1 = 744305 := by decide
theorem days_1901 : days 1901 1 1 = 694266 := by decide

/-- an instant of the years 1970..2037 has a non-negative epoch time that fits `int32_t` -/
theorem ep_spec (i : Inst) (h : NormalSec i) (hy1 : 1970 ≤ i.y) (hy2 : i.y ≤ 2037) :
    ep i = absSec i - epochDays * 86400 ∧ 0 ≤ ep i ∧ ep i < 24837 * 86400 := by
  have e := C08.toEpoch_spec i (Or.inl h) hy1 (by omega)
  obtain ⟨⟨a1, a2, a3, a4⟩, a5, a6, a7, a8⟩ := h
  have l := days_ge_1970 i.y i.m i.d hy1 a1 a2 a3
  have u := days_lt_of_lex i.y i.m i.d 2038 1 1 a1 a2 a4 (by omega) (by omega) (by omega) (Or.inl (by omega))
  rw [days_2038] at u
  have : days 1970 1 1 = 719468 := epochDays_eq
  unfold ep
  refine ⟨e, ?_, ?_⟩ <;> rw [e, epochDays_eq] <;> simp only [absSec] <;> omega

theorem not_allDay (i : Inst) (h : i.H < 24) : i.isAllDay = false := by
  simp [Inst.isAllDay, allDay]; omega

/-- a second-resolution instant at or after the epoch is determined by its epoch time -/
theorem ep_of_absSec (j : Inst) (h : NormalSec j) (t : Int) (h0 : 0 ≤ t) (h1 : t < 4102444800)
    (e : absSec j = epochDays * 86400 + t) : ep j = t := by
  obtain ⟨n, a⟩ := C08.frEpoch_spec t.toNat (by omega)
  have : j = epochToInst t.toNat := absSec_inj _ _ h n (by rw [a, e]; omega)
  unfold ep
  rw [this, C08.epoch_roundtrip' t.toNat (by omega)]
  omega

/-- `instantLoc`, with the facts about `instToEpoch` as explicit hypotheses -/
theorem instantLoc_gen (z : Zone) (wf : WF z) (c : ZRng) (hc : CacheOK z c) (i : Inst)
    (h : NormalSec i) (hr : InRange i) (hI : I32 (ep i))
    (hlo : days 1901 1 1 * 86400 ≤ absSec i + off z (ep i))
    (hhi : absSec i + off z (ep i) < days 2100 1 1 * 86400) :
    ∃ j c', instantLoc z c i = some (j, c') ∧ CacheOK z c' ∧ NormalSec j ∧ InRange j ∧
      absSec j = absSec i + off z (ep i) := by
  obtain ⟨c1, e1, h1⟩ := localTime_spec z wf c hc (ep i) hI
  obtain ⟨n, r, a⟩ := C08.add_spec_sec i (off z (ep i)) h hr hlo hhi
  refine ⟨_, c1, ?_, h1, n, r, a⟩
  unfold instantLoc
  rw [not_allDay i h.2.1]
  simp only [Bool.false_eq_true, if_false]
  unfold ep at e1
  rw [e1]
  simp only []
  have : 1000 * ((instToEpoch i : Int) + off z (instToEpoch i : Int) - (instToEpoch i : Int))
      = off z (ep i) * 1000 := by unfold ep; omega
  rw [this]

/-- `instantUtc`, with the facts about `instToEpoch` as explicit hypotheses -/
theorem instantUtc_gen (z : Zone) (wf : WF z) (c : ZRng) (hc : CacheOK z c) (i : Inst)
    (h : NormalSec i) (hr : InRange i) (hI : I32 (ep i)) (hI' : I32 (ep i - off z (ep i)))
    (hlo : days 1901 1 1 * 86400 ≤ absSec i + -off z (ep i - off z (ep i)))
    (hhi : absSec i + -off z (ep i - off z (ep i)) < days 2100 1 1 * 86400) :
    ∃ j c', instantUtc z c i = some (j, c') ∧ CacheOK z c' ∧ NormalSec j ∧ InRange j ∧
      absSec j = absSec i - off z (ep i - off z (ep i)) := by
  obtain ⟨c1, e1, h1⟩ := utcTime_eq z wf c hc (ep i) hI hI'
  obtain ⟨n, r, a⟩ := C08.add_spec_sec i (-off z (ep i - off z (ep i))) h hr hlo hhi
  refine ⟨_, c1, ?_, h1, n, r, by rw [a]; omega⟩
  unfold instantUtc
  rw [not_allDay i h.2.1]
  simp only [Bool.false_eq_true, if_false]
  unfold ep at e1
  rw [e1]
  simp only []
  have : 1000 * ((instToEpoch i : Int) - off z ((instToEpoch i : Int) - off z (instToEpoch i : Int)) - (instToEpoch i : Int))
      = -off z (ep i - off z (ep i)) * 1000 := by unfold ep; omega
  rw [this]

theorem tzobOffs_gen (z : Zone) (wf : WF z) (i : Inst) (hH : i.H < 24) (hI : I32 (ep i)) :
    tzobOffs z i = some (off z (ep i)) := by
  unfold tzobOffs
  rw [not_allDay i hH]
  simp only [Bool.false_eq_true, if_false]
  unfold ep at *
  rw [wrap32_of_I32 _ hI, findZrng_eq z wf _ hI]
  simp only [Option.map_some, rngAt_offs]
  rfl

end Echse.Tz
