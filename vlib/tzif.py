"""independent reader of the v1 block of a TZif file (the only block tzraw.c reads)."""
import os
import struct

ZONEDIR = "/usr/share/zoneinfo"


def read_v1(zone):
    with open(os.path.join(ZONEDIR, zone), "rb") as f:
        d = f.read()
    if d[:4] != b"TZif":
        raise ValueError("not a TZif file")
    isgmt, isstd, leap, ntr, nty, nch = struct.unpack(">6I", d[20:44])
    p = 44
    trs = list(struct.unpack(">%di" % ntr, d[p:p + 4 * ntr])); p += 4 * ntr
    tys = list(d[p:p + ntr]); p += ntr
    tda = []
    for i in range(nty):
        off, dst, ab = struct.unpack(">iBB", d[p:p + 6]); p += 6
        tda.append((off, dst, ab))
    return trs, tys, tda


def all_zones():
    out = []
    for root, dirs, files in os.walk(ZONEDIR):
        dirs[:] = [x for x in dirs if x not in ("posix", "right")]
        for fn in files:
            path = os.path.join(root, fn)
            try:
                with open(path, "rb") as f:
                    if f.read(4) != b"TZif":
                        continue
            except OSError:
                continue
            out.append(os.path.relpath(path, ZONEDIR))
    return sorted(out)
