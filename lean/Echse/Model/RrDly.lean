/-
  Model of `rrul_fill_dly` (src/evrrul.c:1645-1810, FREQ=DAILY).  Hand transcription, loop by loop; shares
  `posMatchP`, `carryMon`, `monMask`, `Enum.timesIx`, `wlyDlyMaxYear`, `wlyDlyFuel` with the weekly filler, to which the
  daily one hands over for `BYDAY` rules with INTERVAL=1 and neither BYMONTHDAY nor BYSETPOS (1694-1700).
  Tied to the C code by tools/rrfillprobe.py (vlib/p_rrfill.py).  Results are accumulated in reverse.
-/
import Echse.Model.RrWly
namespace Echse.Rrule
open Echse.Instant

/-- 1718-1734: the two day-of-month masks `(posd_mask, negd_mask)`: `posd_mask |= 1U << tmp` for positive days,
`negd_mask |= 1U << (unsigned int)(-++tmp)` for negative ones (-1 is bit 0); both all ones (32 bits) when nothing is set -/
def domMasks (dom : List Int) : Nat × Nat :=
  let (p, n) := dom.foldl (fun (pn : Nat × Nat) (t : Int) =>
    if t > 0 then (pn.1 ||| ((1 <<< t.toNat) % u32), pn.2)
    else if t < 0 then (pn.1, pn.2 ||| ((1 <<< (-(t + 1)).toNat) % u32))
    else pn) (0, 0)
  if p = 0 ∧ n = 0 then (u32 - 1, u32 - 1) else (p, n)

/-- `1U << k` for an `unsigned int k`: a count ≥ 32 is undefined in C; x86 (and the code gcc emits here) takes the count
mod 32.  Only reached with `k ≥ 32` when the proto's day exceeds its month's length (`maxd - d` wraps). -/
def shl1 (k : Nat) : Nat := 1 <<< (k % 32)

structure DlyCtx where
  r : Rule
  proto : Inst
  nti : Nat
  e : Enum
  wdMask : Nat
  mMask : Nat
  posdMask : Nat
  negdMask : Nat
  posp : Bool

/-- 1777-1806: the ENUM loop of the day `y-m-d`; result `(res, fin)`, `fin` = `goto fin` was taken.
Recursion over the (finite) list of time triples. -/
def dlyEnum (c : DlyCtx) (y m d : Nat) :
    List ((Nat × Nat × Nat) × (Nat × Nat × Nat)) → List Inst → List Inst × Bool
  | [], res => (res, false)
  | ((iH, iM, iS), (h, mi, s)) :: rest, res =>
    if ¬ res.length < c.nti then (res, false) else
    let x := mkInst y m d h mi s c.proto.ms
    if ltP x c.proto then dlyEnum c y m d rest res                           -- continue
    else if ltP c.r.untl x then (res, true)                                  -- goto fin
    else if c.posp && !posMatchP c.r.pos
        ((iH * c.e.M.length + iM) * c.e.S.length + iS + 1) (c.e.H.length * c.e.M.length * c.e.S.length) then
      dlyEnum c y m d rest res                                               -- not one of the day's chosen instances
    else
      -- echs_instant_attach_scale(x, GREGORIAN): the top four bits of y are cleared
      dlyEnum c y m d rest ({ x with y := x.y % 4096 } :: res)

/-- 1737-1807: the outer `for (res = 0, w = wday(y, m, d), maxd = ndim(y, m); res < nti; ({ d += inter; w += inter;
if (w > SUN) w = (w - 1U) % 7U + 1U; <month carry> }))` loop over the days.  `none` out of fuel (see `wlyDlyFuel`). -/
def dlyLoop (c : DlyCtx) : Nat → Nat → Nat → Nat → Nat → Nat → List Inst → Option (List Inst)
  | 0, _, _, _, _, _, _ => none
  | fuel+1, y, m, d, w, maxd, res =>
    if ¬ res.length < c.nti then some res else
    -- 1759-1762
    if y > wlyDlyMaxYear ∨ y > c.r.untl.y then some res else                 -- break
    -- 1765-1775: the three `continue`s, else the ENUM loop
    let skip : Bool :=
      !bit c.wdMask w || !bit c.mMask m ||
      ((c.posdMask &&& shl1 d) = 0 && (c.negdMask &&& shl1 ((maxd + u32 - d) % u32)) = 0)
    let (res, fin) := if skip then (res, false) else dlyEnum c y m d c.e.timesIx res
    if fin then some res else
    -- the loop's increment expression
    let d := (d + c.r.inter % u32) % u32
    let w := (w + c.r.inter % u32) % u32
    let w := if w > 7 then (w - 1) % 7 + 1 else w
    match carryMon (d + 1) y m d maxd with
    | none => none
    | some none => some res                                                  -- beyond the scale's range
    | some (some (y, m, d, maxd)) => dlyLoop c fuel y m d w maxd res

/-- `rrul_fill_dly(tgt, nti, rr)` with `*tgt = proto`, SCALE=GREGORIAN -/
def fillDly (r : Rule) (proto : Inst) (nti : Nat) : Option (List Inst) :=
  -- echs_instant_rescale: only a proto without scale bits on a GREGORIAN rule is left as it is
  if r.scale ≠ 0 ∨ proto.y ≥ 4096 then none else
  let y := proto.y
  let m := proto.m
  let d := proto.d
  let posp := !r.pos.isEmpty
  -- 1666-1670
  match capNti r nti with
  | none => some []
  | some nti =>
  -- 1672-1675
  if m = 0 ∨ m > 12 ∨ d = 0 ∨ d > 31 then some [] else
  -- 1677-1689: bit w for plain weekdays, bit 0 for counted ones (uint8_t)
  let wdMask := wdMaskOf r.dow
  -- 1690-1700
  if wdMask / 2 ≠ 0 ∧ r.inter % u32 = 1 ∧ r.dom.isEmpty ∧ !posp then
    fillWly r proto nti                                                      -- return rrul_fill_wly(tgt, nti, rr)
  else
  let wdMask := if wdMask / 2 = 0 then wdMask ||| 0b11111110 else wdMask
  let e := makeEnum proto r
  let mMask := monMask r.mon
  let (posdMask, negdMask) := domMasks r.dom
  let c : DlyCtx := { r, proto, nti, e, wdMask, mMask, posdMask, negdMask, posp }
  (dlyLoop c (wlyDlyFuel y nti) y m d (ymdGetWday y m d) (getNdom y m) []).map List.reverse

end Echse.Rrule
