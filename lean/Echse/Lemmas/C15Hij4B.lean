/-
  C15 enumeration part (written once by a loop, then static): arithmetic Hijri scale 4, per day number,
  chunks 18..35 of 1024 points.
  One theorem per chunk: each is checked by the kernel on its own (bounded memory and heartbeats).
-/
import Echse.Lemmas.C15Enum
namespace Echse.Scale

theorem hij4B_c0 : allFrom (chkH 4) (dLo + 1024 * (18 + 0)) 1024 = true := by decide +kernel
theorem hij4B_c1 : allFrom (chkH 4) (dLo + 1024 * (18 + 1)) 1024 = true := by decide +kernel
theorem hij4B_c2 : allFrom (chkH 4) (dLo + 1024 * (18 + 2)) 1024 = true := by decide +kernel
theorem hij4B_c3 : allFrom (chkH 4) (dLo + 1024 * (18 + 3)) 1024 = true := by decide +kernel
theorem hij4B_c4 : allFrom (chkH 4) (dLo + 1024 * (18 + 4)) 1024 = true := by decide +kernel
theorem hij4B_c5 : allFrom (chkH 4) (dLo + 1024 * (18 + 5)) 1024 = true := by decide +kernel
theorem hij4B_c6 : allFrom (chkH 4) (dLo + 1024 * (18 + 6)) 1024 = true := by decide +kernel
theorem hij4B_c7 : allFrom (chkH 4) (dLo + 1024 * (18 + 7)) 1024 = true := by decide +kernel
theorem hij4B_c8 : allFrom (chkH 4) (dLo + 1024 * (18 + 8)) 1024 = true := by decide +kernel
theorem hij4B_c9 : allFrom (chkH 4) (dLo + 1024 * (18 + 9)) 1024 = true := by decide +kernel
theorem hij4B_c10 : allFrom (chkH 4) (dLo + 1024 * (18 + 10)) 1024 = true := by decide +kernel
theorem hij4B_c11 : allFrom (chkH 4) (dLo + 1024 * (18 + 11)) 1024 = true := by decide +kernel
theorem hij4B_c12 : allFrom (chkH 4) (dLo + 1024 * (18 + 12)) 1024 = true := by decide +kernel
theorem hij4B_c13 : allFrom (chkH 4) (dLo + 1024 * (18 + 13)) 1024 = true := by decide +kernel
theorem hij4B_c14 : allFrom (chkH 4) (dLo + 1024 * (18 + 14)) 1024 = true := by decide +kernel
theorem hij4B_c15 : allFrom (chkH 4) (dLo + 1024 * (18 + 15)) 1024 = true := by decide +kernel
theorem hij4B_c16 : allFrom (chkH 4) (dLo + 1024 * (18 + 16)) 1024 = true := by decide +kernel
theorem hij4B_c17 : allFrom (chkH 4) (dLo + 1024 * (18 + 17)) 1024 = true := by decide +kernel

theorem hij4B_chunks : ∀ c, c < 18 → allFrom (chkH 4) (dLo + 1024 * (18 + c)) 1024 = true
  | 0, _ => hij4B_c0
  | 1, _ => hij4B_c1
  | 2, _ => hij4B_c2
  | 3, _ => hij4B_c3
  | 4, _ => hij4B_c4
  | 5, _ => hij4B_c5
  | 6, _ => hij4B_c6
  | 7, _ => hij4B_c7
  | 8, _ => hij4B_c8
  | 9, _ => hij4B_c9
  | 10, _ => hij4B_c10
  | 11, _ => hij4B_c11
  | 12, _ => hij4B_c12
  | 13, _ => hij4B_c13
  | 14, _ => hij4B_c14
  | 15, _ => hij4B_c15
  | 16, _ => hij4B_c16
  | 17, _ => hij4B_c17
  | n + 18, h => absurd h (by omega)

theorem hij4B : ∀ k, dLo + 1024 * 18 ≤ k → k < dLo + 1024 * (18 + 18) → chkH 4 k = true :=
  allFrom_chunks _ _ _ _ _ hij4B_chunks

end Echse.Scale
