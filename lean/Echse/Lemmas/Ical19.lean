/-
  C10 lemmas, part 19: `feed` computes the automaton over the concatenation of the chunks.
-/
import Echse.Lemmas.Ical18
namespace Echse.Ical

/-- the state of `feed`'s fold after the bytes `x` -/
def FeedInv (s : Option Parser × List Instr) (x : List Byte) : Prop :=
  (x = [] ∧ s = (none, [])) ∨
  (∃ q, s.1 = some q ∧ Post q (runA {} x) ∧ s.2 = (runA {} x).ins ∧ NoLine (rest q))

theorem rel_init (ch : List Byte) : Rel { buf := ch } {} :=
  ⟨rfl, rfl, rfl, rfl, Iff.rfl⟩

/-- one push and drain -/
theorem feedStep_inv (s : Option Parser × List Instr) (x ch : List Byte) (hs : FeedInv s x)
    (hne : ch ≠ []) (hb : ∀ c ∈ ch, c ≠ BSL) :
    FeedInv (feedStep s ch) (x ++ ch) := by
  have hemp : ¬ (ch.isEmpty ∧ s.1.isNone) := by
    intro h; exact hne (List.isEmpty_iff.1 h.1)
  unfold feedStep
  rw [if_neg hemp]
  right
  cases hs with
  | inl h0 =>
    obtain ⟨hx, hs0⟩ := h0
    subst hx; subst hs0
    dsimp only
    have hpre : Pre { buf := ch } {} := ⟨rel_init ch, inv_init, hb⟩
    have hd := drain_spec { buf := ch } {} hpre hne
    refine ⟨_, rfl, ?_, ?_, hd.2.2⟩
    · rw [List.nil_append]; exact hd.1
    · rw [List.nil_append, List.nil_append]; exact hd.2.1
  | inr h1 =>
    obtain ⟨q, hq, hpost, hins, _⟩ := h1
    rw [hq]
    dsimp only
    have hpre : Pre { q with buf := ch, bix := 0 } (runA {} x) :=
      ⟨⟨hpost.rel.skip, hpost.rel.stash, hpost.rel.comp, hpost.rel.log, hpost.rel.mark⟩, hpost.inv, hb⟩
    have hd := drain_spec { q with buf := ch, bix := 0 } (runA {} x) hpre hne
    have ha := drain_nil_acc (ch.length + 2) { q with buf := ch, bix := 0 } (runA {} x).ins
    have hrun : runA (runA {} x) ch = runA {} (x ++ ch) := (runA_append {} x ch).symm
    have hrest : rest { q with buf := ch, bix := 0 } = ch := rfl
    rw [hrest, hrun] at hd
    refine ⟨_, rfl, ?_, ?_, ?_⟩
    · rw [← ha.1]; exact hd.1
    · rw [hins, ← ha.2]; exact hd.2.1
    · rw [← ha.1]; exact hd.2.2

theorem feedFold_inv : ∀ (chunks : List (List Byte)) (s : Option Parser × List Instr) (x : List Byte),
    FeedInv s x → (∀ c ∈ chunks, c ≠ []) →
    (∀ c ∈ chunks.flatten, c ≠ BSL) → FeedInv (chunks.foldl feedStep s) (x ++ chunks.flatten)
  | [], s, x, hs, _, _ => by simpa using hs
  | ch :: rest', s, x, hs, hne, hb => by
    rw [List.flatten_cons] at hb ⊢
    rw [List.foldl_cons, ← List.append_assoc]
    exact feedFold_inv rest' _ _ (feedStep_inv s x ch hs (hne ch (by simp))
      (fun c hc => hb c (by simp [hc]))) (fun c hc => hne c (by simp [hc]))
      (fun c hc => hb c (by simp [hc]))

/-- `feed` over any chunking of a non-empty input -/
theorem feed_spec (chunks : List (List Byte)) (hne : ∀ c ∈ chunks, c ≠ []) (hbs : chunks.flatten ≠ [])
    (hb : ∀ c ∈ chunks.flatten, c ≠ BSL) :
    feed chunks = finish (runA {} chunks.flatten) (runA {} chunks.flatten).ins := by
  have hinv := feedFold_inv chunks (none, []) [] (Or.inl ⟨rfl, rfl⟩) hne hb
  rw [List.nil_append] at hinv
  rw [feed_eq]
  cases hinv with
  | inl h => exact absurd h.1 hbs
  | inr h =>
    obtain ⟨q, hq, hpost, hins, hnl⟩ := h
    unfold feedEnd
    rw [hq, hins]
    dsimp only
    exact last_spec q _ hpost _

end Echse.Ical
