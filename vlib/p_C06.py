"""C06 — queue survives restart and crash: checkpoint file is never torn.

Histories on echsd.c (virtual-time loop) with the checkpoint's file-system calls interposed: the process dies at a
named call (openat / first write / close / rename / right after the rename of a given user's file) or a single call
fails; a new daemon is then started on the same spool directory.  Oracle: every live queue file is complete and holds
either the previously checkpointed or the new set of that user's tasks, and the restarted daemon's table is exactly what
the files hold.  Correspondence: Echse.Model.Daemon (chkpnt with a cut, reload).
"""
import collections
import re

from . import common
from . import p_echsd
from .p_echsd import TaskSpec, request, T0, USERS, CROWD


def gen(rng, thorough):
    """history with one interrupted or faulty checkpoint; returns ops and a description for the oracle"""
    ops = ["T %d" % T0]
    now = T0
    owned = {}            # uid -> owner (accepted, as the generator intends; confirmed from replies)
    autos = {}            # tasks without UID line: name -> (what the command is made from, owner)
    uidn = 0

    def add_some(k, pool=None):
        nonlocal uidn
        out = []
        for _ in range(k):
            peer = rng.choice(pool or USERS[:3])
            items = []
            for _ in range(rng.choice([1, 2, 3])):
                if owned and rng.random() < 0.25:
                    u = rng.choice(sorted(owned))
                    if owned[u] == peer:
                        out.append(request(peer, [("cancel", u)])[0])
                        del owned[u]
                        continue
                uidn += 1
                uid = "t%d" % uidn
                n = rng.choice([2, 3, 5])
                step = rng.choice([10, 60, 3600])
                occ = [now + 100 + i * step for i in range(n)]
                # one in eight without UID line: filed, listed and saved under the name made from the command's hash
                spec = TaskSpec(uid, occ, rng.choice([None, 1, 2]), rng.choice([0, 5000]), uidform="auto" if rng.random() < 0.125 else None)
                items.append(spec)
                owned[spec.uid] = peer
                if spec.uidform:
                    autos[spec.uid] = (uid, peer)
            if items and rng.random() < 0.2:
                # an accepted change followed by a refused one in the same message (a cancel for a task that does not exist)
                items.append(("cancel", "ghost%d" % uidn))
            if items:
                out.append(request(peer, items)[0])
        return out

    ops += add_some(rng.randint(1, 4))
    if rng.random() < 0.7:
        ops += ["C", "L"]
    crowd = rng.random() < 0.1
    if crowd:
        # many owners: more users with a task than the 16 slots the complete dump starts out with (its list of users seen
        # has to grow), some of them cancelling again
        many = rng.sample(CROWD, rng.choice([17, 18, 24, 33, 40]))
        for u in many:
            ops += add_some(1, [u])
        for u in rng.sample(many, rng.randint(0, 3)):
            for x in sorted(x for x, o in owned.items() if o == u):
                ops.append(request(u, [("cancel", x)])[0])
                del owned[x]
    elif rng.random() < 0.12 and owned:
        # a user cancels everything it has, then the interval gets busy: the complete dump has no task of that user to see
        quitter = rng.choice(sorted(set(owned.values())))
        for u in sorted(x for x, o in owned.items() if o == quitter):
            ops.append(request(quitter, [("cancel", u)])[0])
            del owned[u]
        ops += add_some(rng.randint(15, 18), [u for u in USERS[:3] if u != quitter])
    elif rng.random() < 0.2:
        # a busy interval: more acknowledged connections than the 16 slots of the dirty list, the late ones from a
        # user who was not marked before (then only the complete dump can save that user's file)
        early = rng.sample(USERS[:3], rng.choice([1, 2]))
        late = [u for u in USERS[:3] if u not in early]
        ops += add_some(rng.randint(14, 19), early) + add_some(rng.randint(1, 3), late)
    else:
        ops += add_some(rng.randint(1, 4))
    r = rng.random()
    victim = rng.choice(sorted(set(owned.values())) if crowd and owned else USERS[:3])
    if r < 0.55:
        ops.append("K %d %s" % (victim, rng.choice("owcra")))
    elif r < 0.8:
        ops.append("F %d %s %d" % (victim, rng.choice("owcr"), rng.choice([5, 28, 13])))     # EIO ENOSPC EACCES
    ops += ["C", "L", "Q"]
    if rng.random() < 0.5:
        now += 50
        ops += ["T %d" % now] + add_some(1) + ["R", "L", "Q", "QM"]
        live = sorted(k for k in autos if k in owned)
        if live:
            # the restarted daemon must know a task without UID line as the same task: sent again it is replaced, not
            # doubled, and the name it is listed under cancels it
            k = rng.choice(live)
            base, peer = autos[k]
            if rng.random() < 0.5:
                ops += [request(peer, [TaskSpec(base, [now + 300, now + 400], None, 0, uidform="auto")])[0], "Q"]
            else:
                ops += [request(peer, [("cancel", k)])[0], "Q"]
                del owned[k]
    return ops


def uids_of(listing):
    """{user: (set of uids, torn?)} from an L answer"""
    out = {}
    for part in [p for p in listing.split(",") if p]:
        name, _, uids = part.partition(":")
        torn = name.endswith("!")
        m = re.match(r"echsq_(\d+)\.ics", name)
        if m:
            out[int(m.group(1))] = (set(u for u in uids.split("+") if u), torn)
    return out


def check(ops, answer):
    """property-level judgement from the implementation's answers alone"""
    groups = p_echsd.parse_groups(answer)
    if len(groups) != len(ops):
        return "history answered %d of %d ops: …%s" % (len(groups), len(ops), answer[-160:])
    owner = {}          # uid -> owner as acknowledged (2.0 replies)
    files = {}          # last complete listing
    crashed = False
    lastocc = {}          # uid -> its last occurrence
    limit = {}            # uid -> X-ECHS-MAX-SIMUL as accepted (63: none)
    now = 0
    armed = None          # a cut or fault waiting for the next checkpoint: the victim's uid
    clean = False         # the last checkpoint ran to its end without an injected fault
    for opi, (op, g) in enumerate(zip(ops, groups)):
        w = op.split()
        if w[0] in ("T", "TX"):
            now = int(w[1])
        if w[0] in ("K", "F"):
            armed = int(w[1])
        if w[0] in ("C", "R"):
            clean = (g != "CRASH") and armed is None
            faulty = armed if g != "CRASH" else None
            armed = None
        if g == "CRASH":
            crashed = True
        if g.startswith("DIED") or g == "TIMEOUT":
            return "the daemon %s at op %r" % (g, op[:40])
        if w[0] == "A":
            peer = int(w[1])
            toks = w[3:]
            rps = re.findall(r"rp\(([^=]*)=([0-9.]*)\)", g)
            for tok, (uid, st) in zip(toks, rps):
                if st == "2.0":
                    if tok.startswith("S|"):
                        owner[uid] = peer
                        lastocc[uid] = max(int(x) for x in tok.split("|")[5].split(","))
                        limit[uid] = int(tok.split("|")[3])
                    else:
                        owner.pop(uid, None)
                elif tok.startswith("U|") and owner.get(tok[2:]) == peer and lastocc.get(tok[2:], 0) > now + 1 and not crashed:
                    return "user %d's cancel of its task %s (accepted, still to run) is refused" % (peer, tok[2:])
        elif w[0] == "L":
            cur = uids_of(g)
            for u, (uids, torn) in cur.items():
                if torn:
                    return "queue file of user %d is not a complete calendar after %s" % (u, " ; ".join(o.split()[0] for o in ops[:opi][-3:]))
                new = {x for x, o in owner.items() if o == u}
                old = files.get(u, (set(), False))[0]
                if uids != new and uids != old:
                    return "queue file of user %d holds %s: neither the previous checkpoint %s nor the accepted tasks %s" % (
                        u, sorted(uids), sorted(old), sorted(new))
                if clean and not uids <= new:
                    return "after a completed checkpoint the queue file of user %d still holds %s, cancelled or never accepted (accepted: %s)" % (
                        u, sorted(uids - new), sorted(new))
                live = {x for x in new if lastocc.get(x, 0) > now + 1}
                if clean and not live <= uids:
                    return "after a completed checkpoint the queue file of user %d holds %s, the accepted tasks still to run are %s" % (
                        u, sorted(uids), sorted(live))
            if clean:
                for u in {o for x, o in owner.items() if lastocc.get(x, 0) > now + 1}:
                    if u not in cur:
                        return "after a completed checkpoint user %d has no queue file although tasks %s were accepted" % (
                            u, sorted(x for x, o in owner.items() if o == u))
            files = cur
            if crashed:
                # acknowledged but not yet checkpointed changes are gone with the process: the files are the truth now
                owner = {x: u for u, (uids, _) in cur.items() for x in uids}
                crashed = False
        elif w[0] == "QM":
            for row in (r for r in g.split(",") if r):
                uid, _, ms = row.split(":")
                if uid in limit and int(ms) != limit[uid]:
                    return "task %s was accepted with the limit %s (63 = none) and runs under %s after the restart" % (uid, limit[uid], ms)
        elif w[0] == "Q":
            rows = [r.split(":") for r in g.split(",") if r]
            table = {r[0]: int(r[1]) for r in rows}
            if len(table) != len(rows):
                return "the daemon schedules two tasks under one UID: %s" % sorted(r[0] for r in rows if sum(1 for q in rows if q[0] == r[0]) > 1)[:2]
            i = opi
            prev = [o.split()[0] for o in ops[:i]]
            restarted = ("R" in prev) or any(x == "CRASH" for x in groups[:i])
            if restarted and not any(o.startswith("A ") for o in ops[max(j for j, x in enumerate(groups[:i]) if x in ("CRASH", "r")) + 1:i]):
                want = {}
                for u, (uids, _) in files.items():
                    for x in uids:
                        want[x] = u
                if table != want:
                    return "restarted daemon schedules %s, the queue files hold %s" % (sorted(table.items()), sorted(want.items()))
    return None


def run(ctx):
    exe = p_echsd.build(ctx)
    rng = ctx.rng
    thorough = ctx.tier == "thorough"
    n = 6000 if thorough else 500
    cases = [gen(rng, thorough) for _ in range(n)]
    lines = ["d.hist 0 ; %s" % " ; ".join(ops) for ops in cases]
    lines += common.load_corpus("C06")
    impl, st, err = ctx.impl(exe, lines, timeout=3600)
    model = ctx.model(lines)
    fails = []
    kinds = collections.Counter()
    for i, ops in enumerate(cases):
        for o in ops:
            if o[0] in "KF":
                kinds[o.split()[0] + ":" + o.split()[2]] += 1
        why = check(ops, impl[i] if i < len(impl) else "")
        if why:
            fails.append((i, why))
    # a cut or fault inside the complete dump (16 or more marks): chkpnta() renames every file at the very end, in the order
    # of the task hash table, which the model does not represent; those histories are judged by the oracle only
    def full_dump_cut(ops):
        marks = 0
        for o in ops:
            if o.startswith("A "):
                marks += 1
            elif o in ("C", "R"):
                marks = 0
            elif o[0] in "KF" and marks >= 16:
                return True
        return False
    oracle_only = {i for i, ops in enumerate(cases) if full_dump_cut(ops)}
    corr = [c for c in common.diff_lines(lines, impl, model) if c[0] not in oracle_only]
    ctx.cov.update({
        "full_dump_histories": sum(1 for ops in cases if sum(1 for o in ops if o.startswith("A ")) >= 16),
        "full_dump_cut_histories_oracle_only": len(oracle_only),
        "histories_with_more_than_16_owners": sum(1 for ops in cases if len({o.split()[1] for o in ops if o.startswith("A ")}) > 16),
        "evaluations": len(lines),
        "distinct_nontrivial": len({l for l in lines if " K " in l or " F " in l or " R " in l}),
        "traces_validated_against_impl": len(lines) - len(corr),
        "rule": "histories of accepted add / cancel requests of three users (one in ten: of 17 to 40 users), an optional completed checkpoint, more requests, then "
                "a checkpoint that is cut at a named file-system call (openat of the dot-file, first write, close, rename, right "
                "after the rename) of one user's file, or in which one such call fails (EIO/ENOSPC/EACCES), followed by a new daemon "
                "on the same spool; half of them continue with a clean shutdown and another restart. non-trivial = contains a cut, "
                "a fault or a restart; distinct = distinct histories",
        "samples": [re.sub(r" [0-9a-f]{40,} ", " <ical> ", lines[i])[:300] + "  =>  " + (impl[i][:200] if i < len(impl) else "?")
                    for i in sorted(rng.sample(range(len(lines)), min(3, len(lines))))],
        "cut_and_fault_kinds": dict(kinds),
        "harness_status": st,
        "impl_vs_spec_failures": len(fails),
        "impl_vs_model_differences": len(corr),
        "exhaustive": False,
    })
    ctx.assumptions += ["rename(2) is atomic, a died process leaves the effects of its completed system calls (no power loss: the code "
                        "does not fsync)", "a failing write(2) is injected at the first write of the victim's file (files of more than 4 KiB take several writes; later ones are not failed)",
                        "queue files are compared by the UIDs they hold; byte-level fidelity of a task's text is C05's matter"]
    if st != "ok" and not fails and not corr:
        ctx.violation("correspondence", "harness ended with %s: %s" % (st, err[-600:]), {"stderr": err}, found_input=False)
    if fails:
        i, why = fails[0]
        ctx.violation("property", why, {"op": lines[i], "impl": impl[i] if i < len(impl) else None, "model": model[i],
                                        "failures_total": len(fails), "more": [w for _, w in fails[1:5]]})
    elif corr:
        i, op, a, b = corr[0]
        ctx.violation("correspondence", "implementation and model differ on %d histories while every file is complete and old-or-new; first: impl=%s model=%s"
                      % (len(corr), a[-300:], b[-300:]), {"correspondence": "Echse.Model.Daemon (chkpnt/reload) vs echsd.c", "op": op, "impl": a, "model": b},
                      found_input=False)


replay = p_echsd.replay
