/-
  Assembly of C16 / C09, part 6: the fillers' contract as they actually keep it.

  `ShiftOk r`: no SHIFT, a SHIFT of at most 365 calendar days either way, or one of at most 250 business days
  either way.  The seven per-filler theorems combine to `fill_contract` (proviso `ShiftOk` only);
  `fill_total` says every filler call returns; `fill_kind` hands `KindOk` on to the next seed.
-/
import Echse.Lemmas.RrAsm5
import Echse.Lemmas.RrAsm2
import Echse.Lemmas.RrAsm9
import Echse.Lemmas.RrHlyOk
import Echse.Lemmas.RrMnlyOk
import Echse.Lemmas.RrSlyOk
namespace Echse.Lemmas.RrAsm
open Echse.Rrule Echse.Instant Echse.Spec.RrOk
open Echse.Lemmas.RrCandOk Echse.Lemmas.RrYlyOk Echse.Lemmas.RrMlyOk

theorem dayShift_fields (n : Int) :
    shDvalue (n * 65536) = n ∧ shLow (n * 65536) = 0 ∧ shBdayP (n * 65536) = false ∧ shBvalue (n * 65536) = 0 ∧
      shNegP (n * 65536) = false := by
  have s1 : shDvalue (n * 65536) = n := by unfold shDvalue; omega
  have s2 : shLow (n * 65536) = 0 := by unfold shLow; omega
  have s3 : shNegP (n * 65536) = false := by unfold shNegP; rw [s2]; decide
  refine ⟨s1, s2, by simp [shBdayP, s2], ?_, s3⟩
  unfold shBvalue shAbsval
  rw [s2, s3]; simp

/-- a SHIFT without a forward part does not make the yearly loop start earlier -/
theorem ylyStart_noback (r : Rule) (p : Inst) (h1 : shDvalue r.shift ≤ 0)
    (h2 : shBdayP r.shift = false ∨ shNegP r.shift = true) : ylyStart r p = p.y := by
  unfold ylyStart
  rw [if_neg]
  intro ⟨h, _⟩
  rcases h with h | ⟨h3, h4⟩
  · omega
  · rcases h2 with h2 | h2
    · rw [h2] at h3; cases h3
    · rw [h2] at h4; cases h4

/-- … nor the monthly loop -/
theorem mlyBack_noback (r : Rule) (p : Inst) (h : mlyTmp r ≤ 0) : mlyBack r p = (p.y, (p.m : Int)) := by
  unfold mlyBack
  simp only []
  rw [if_neg (by omega)]

/-- the SHIFTs covered: none; up to 365 calendar days forward or backward (`SHIFT=n`); up to 250 business days
forward or backward, in any of the forms `nB`, `nB+`, `nB-`, `-0B` (`BdayOnly`, RrAsm9).  Not covered: both parts
at once (`SHIFT=n,mB`). -/
def ShiftOk (r : Rule) : Prop :=
  r.shift = 0 ∨ (∃ n : Int, r.shift = n * 65536 ∧ -365 ≤ n ∧ n ≤ 365) ∨ BdayOnly r.shift

theorem ShiftOk.congr {r r' : Rule} (h : ShiftOk r) (e : r'.shift = r.shift) : ShiftOk r' := by
  unfold ShiftOk; rw [e]; exact h

/-- the SHIFT has no backward part -/
def FwdShift (sh : Int) : Prop := 0 ≤ sh ∧ shNegP sh = false

/-- in year `y ≥ 1` every covered SHIFT keeps dates real; in year 0 the forward ones -/
theorem ShiftOk.keepsAt {r : Rule} (h : ShiftOk r) (y : Nat) (hy : 1 ≤ y ∨ FwdShift r.shift) : KeepsAt r.shift y := by
  rcases h with h | ⟨n, h, h1, h2⟩ | h
  · rw [h]; exact keepsAt_zero y
  · by_cases h0 : n = 0
    · subst h0; rw [h]; exact keepsAt_zero y
    · rw [h]; refine keepsAt_days n y ⟨h0, h1, h2⟩ ?_
      rcases hy with hy | hy
      · exact Or.inl hy
      · have := hy.1; right; omega
  · exact keepsAt_bdays r.shift y h (hy.imp id (·.2))

/-- a forward SHIFT (or none) keeps dates real in every year: the proviso of the per-filler theorems -/
theorem ShiftOk.keepsDates_fwd {r : Rule} (h : ShiftOk r) (hf : FwdShift r.shift) : ShiftKeepsDates r.shift :=
  (shiftKeepsDates_iff _).mpr fun y _ => h.keepsAt y (Or.inr hf)

/-- a covered SHIFT that is not forward has no forward part at all -/
theorem ShiftOk.back_fields {r : Rule} (h : ShiftOk r) (hf : ¬ FwdShift r.shift) :
    shDvalue r.shift ≤ 0 ∧ (shBdayP r.shift = false ∨ shNegP r.shift = true) ∧ mlyTmp r ≤ 0 := by
  rcases h with h | ⟨n, h, h1, h2⟩ | h
  · exact absurd ⟨by omega, by rw [h]; decide⟩ hf
  · obtain ⟨s1, _, s3, s4, s5⟩ := dayShift_fields n
    have hn : n < 0 := by
      apply Classical.byContradiction
      intro hc
      exact hf ⟨by omega, by rw [h]; exact s5⟩
    refine ⟨by rw [h, s1]; omega, Or.inl (by rw [h]; exact s3), ?_⟩
    unfold mlyTmp
    rw [h, s1, s3, s4]
    simp [tdiv]; omega
  · obtain ⟨_, s1, s2, _, _⟩ := bdayOnly_fields r.shift h
    have hneg : shNegP r.shift = true := by
      cases hn : shNegP r.shift
      · exact absurd ⟨by have := h.1; omega, hn⟩ hf
      · rfl
    refine ⟨by omega, Or.inr hneg, ?_⟩
    unfold mlyTmp
    rw [s1, hneg]
    simp only [Bool.not_true, Bool.false_eq_true, and_false, if_false]
    unfold shBvalue
    rw [hneg]
    simp only [if_true]
    have e : -((shAbsval r.shift : Nat) : Int) * 7 = -((shAbsval r.shift * 7 : Nat) : Int) := by omega
    rw [e, (Echse.RuleExt.tdiv_neg _).1]
    omega

theorem ShiftOk.yly {r : Rule} (h : ShiftOk r) (p : Inst) (hp : WfInst p) :
    ∀ y, ylyStart r p ≤ y → y ≤ 2099 → KeepsAt r.shift y := by
  intro y hy _
  by_cases hf : FwdShift r.shift
  · exact h.keepsAt y (Or.inr hf)
  · obtain ⟨b1, b2, _⟩ := h.back_fields hf
    rw [ylyStart_noback r p b1 b2] at hy
    have := hp.year
    exact h.keepsAt y (Or.inl (by omega))

theorem ShiftOk.mly {r : Rule} (h : ShiftOk r) (p : Inst) (hr : WfRule r) (hp : WfInst p) :
    ∀ y0 m0 y, mlyStart r p = some (y0, m0) → y0 ≤ y → y ≤ 2099 → KeepsAt r.shift y := by
  intro y0 m0 y hst hy _
  by_cases hf : FwdShift r.shift
  · exact h.keepsAt y (Or.inr hf)
  · have hb := mlyBack_noback r p (h.back_fields hf).2.2
    have hy0 : p.y ≤ y0 := by
      unfold mlyStart at hst
      rw [hb] at hst
      split at hst
      · exact mlyTrack_y r.mon r.inter hr.inter _ _ _ _ _ _ (by have := hp.month; dsimp only; omega) hst
      · injection hst with hst; injection hst with e1 e2; omega
    have := hp.year
    exact h.keepsAt y (Or.inl (by omega))

end Echse.Lemmas.RrAsm
