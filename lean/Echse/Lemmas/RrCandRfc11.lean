/-
  C01 for the YEARLY / MONTHLY filler models, part 11: the 28-year repetition (`sh28`) for the date limits only the
  yearly frequency uses — BYYEARDAY, BYWEEKNO (ISO weeks), BYDAY within the year.
-/
import Echse.Lemmas.RrCandRfc6
namespace Echse.Lemmas.RrCandRfc
open Echse.Rrule Echse.Instant Echse.Spec.RrOk Echse.Lemmas.RrCandOk Echse.Spec.Rfc Echse.Lemmas.RrRfc
open Echse.Spec.Cal Echse.Spec.RuleExt

/-- January and February also of the year after the range -/
theorem days_28_jan (y m d n : Nat) (hm : m ≤ 2) (h1 : 1901 ≤ y) (h2 : y + 28 * n ≤ 2100) :
    days (y + 28 * n) m d = days y m d + 10227 * n := by
  have k : ∀ z : Int, 1900 ≤ z → z ≤ 2099 → z / 100 - z / 400 = 15 := by intro z _ _; omega
  have q : ∀ z : Int, (z + 28 * n) / 4 = z / 4 + 7 * n := by intro z; omega
  unfold days
  simp only [hm, if_true]
  have e : ((y + 28 * n : Nat) : Int) - 1 = ((y : Int) - 1) + 28 * n := by omega
  rw [e, q]
  have := k ((y : Int) - 1) (by omega) (by omega)
  have := k ((y : Int) - 1 + 28 * n) (by omega) (by omega)
  omega

theorem yearLen_28 (y n : Nat) (h1 : 1901 ≤ y) (h2 : y + 28 * n ≤ 2099) : yearLen (y + 28 * n) = yearLen y := by
  unfold yearLen; rw [isLeap_28 y n h1 h2]

theorem ydayOf_sh28 (x : Inst) (n : Nat) (h1 : 1901 ≤ x.y) (h2 : x.y + 28 * n ≤ 2099) :
    ydayOf (sh28 x n) = ydayOf x := by
  unfold ydayOf
  rw [dayOf_sh28 x n h1 h2]
  show dayOf x + 10227 * n - days (x.y + 28 * n) 1 1 + 1 = _
  rw [days_28 x.y 1 1 n h1 h2]; omega

theorem ydayOk_sh28 (r : Rule) (x : Inst) (n : Nat) (h1 : 1901 ≤ x.y) (h2 : x.y + 28 * n ≤ 2099) :
    ydayOk r (sh28 x n) ↔ ydayOk r x := by
  unfold ydayOk
  rw [ydayOf_sh28 x n h1 h2]
  show (r.doy = [] ∨ ∃ k ∈ r.doy, (0 < k ∧ k = ydayOf x) ∨ (k < 0 ∧ (yearLen (x.y + 28 * n) : Int) + 1 + k = ydayOf x)) ↔ _
  rw [yearLen_28 x.y n h1 h2]

theorem weekStart_28 (d : Int) (n : Nat) : weekStart (d + 10227 * n) = weekStart d + 10227 * n := by
  unfold weekStart; rw [wdayOf_28]; omega

theorem week1Start_28 (y n : Nat) (h1 : 1901 ≤ y) (h2 : y + 28 * n ≤ 2100) :
    week1Start (y + 28 * n) = week1Start y + 10227 * n := by
  unfold week1Start
  rw [days_28_jan y 1 4 n (by omega) h1 h2, weekStart_28]

theorem isoWeeks_28 (y n : Nat) (h1 : 1901 ≤ y) (h2 : y + 28 * n ≤ 2099) : isoWeeks (y + 28 * n) = isoWeeks y := by
  unfold isoWeeks
  have e : y + 28 * n + 1 = (y + 1) + 28 * n := by omega
  rw [e, week1Start_28 (y + 1) n (by omega) (by omega), week1Start_28 y n h1 (by omega)]
  congr 1; omega

theorem weeknoOk_sh28 (r : Rule) (x : Inst) (n : Nat) (h1 : 1901 ≤ x.y) (h2 : x.y + 28 * n ≤ 2099) :
    weeknoOk r (sh28 x n) ↔ weeknoOk r x := by
  unfold weeknoOk
  rw [dayOf_sh28 x n h1 h2]
  show (∃ k ∈ r.wk, let w := if k > 0 then k else isoWeeks (x.y + 28 * n) + 1 + k
    1 ≤ w ∧ w ≤ isoWeeks (x.y + 28 * n) ∧ week1Start (x.y + 28 * n) + 7 * (w - 1) ≤ dayOf x + 10227 * n ∧
      dayOf x + 10227 * n < week1Start (x.y + 28 * n) + 7 * w) ↔ _
  rw [isoWeeks_28 x.y n h1 h2, week1Start_28 x.y n h1 (by omega)]
  apply exists_congr; intro k
  apply and_congr Iff.rfl
  dsimp only
  constructor
  · rintro ⟨a, b, c, d⟩; exact ⟨a, b, by omega, by omega⟩
  · rintro ⟨a, b, c, d⟩; exact ⟨a, b, by omega, by omega⟩

theorem bydayInYear_sh28 (r : Rule) (x : Inst) (n : Nat) (h1 : 1901 ≤ x.y) (h2 : x.y + 28 * n ≤ 2099) :
    bydayInYear r (sh28 x n) ↔ bydayInYear r x := by
  unfold bydayInYear
  rw [dayOf_sh28 x n h1 h2, wdayOf_28]
  show (∃ t ∈ r.dow, wdOf t = wdayOf (dayOf x) ∧ (ordOf t = 0 ∨
    NthWeekday (ordOf t) (days (x.y + 28 * n) 1 1) (days (x.y + 28 * n) 12 31) (dayOf x + 10227 * n))) ↔ _
  rw [days_28 x.y 1 1 n h1 h2, days_28 x.y 12 31 n h1 h2]
  apply exists_congr; intro t
  apply and_congr Iff.rfl
  apply and_congr Iff.rfl
  apply or_congr Iff.rfl
  exact nth_shift _ _ _ _ _

end Echse.Lemmas.RrCandRfc
