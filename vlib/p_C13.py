"""C13 — executor runs the job as specified and routes its output as configured.

The real echsx (echsx.c of the working tree, compiled into harness/hx_echsx.c with the mailer path redirected to a
recorder) is run on execution requests for every OFILE / EFILE / same-file / MAIL-OUT / MAIL-ERR combination with a
job (harness/jobgen.py) that writes patterned stdout / stderr chunks, reads stdin, reports cwd and umask and exits
with a chosen status or signal.  Oracle: the routing table of the property on the files, the mail body and the journal.
Correspondence: Echse.Model.Exec (prep_task plan + routing) predicts the per-sink byte totals.
"""
import glob
import os
import re
import shutil
import subprocess
import tempfile
import concurrent.futures

from . import common

JOB = os.path.join(common.HARNESS, "jobgen.py")
O = b"0123456789"
E = b"abcdefghijklmnopqrstuvwxyz"


def build(ctx):
    objs, log = ctx.lib_objects()
    if objs is None:
        raise common.Broken("library does not compile: " + log[-1500:])
    exe, log = ctx.cc("echsx_hx", [os.path.join(common.HARNESS, "hx_echsx.c"), os.path.join(ctx.src, "logger.c"),
                                   os.path.join(ctx.src, "version.c")] + objs, libs=("-lm", "-ldl", "-lev"),
                      extra=["-DHAVE_VERSION_H"])
    if exe is None:
        raise common.Broken("echsx does not compile against the working tree:\n" + log[-2500:])
    return exe


def pattern_ok(data, alpha):
    """data must be the pattern alpha[0], alpha[1], … in order, nothing lost, nothing duplicated"""
    n = len(data)
    reps = n // len(alpha) + 2
    return data == (alpha * reps)[:n]


def project(data):
    o = bytes(b for b in data if b in O)
    e = bytes(b for b in data if b in E)
    other = bytes(b for b in data if b not in O and b not in E)
    return o, e, other


def run_case(exe, base, idx, cfg, chunks, ending, extras):
    so, se, same, mo, me = cfg
    d = os.path.join(base, "c%d" % idx)
    os.makedirs(d)
    rec = os.path.join(d, "rec.sh")
    with open(rec, "w") as f:
        f.write("#!/bin/sh\ncat > %s/mail.txt\n" % d)
    os.chmod(rec, 0o755)
    ofile = os.path.join(d, "out.txt")
    efile = ofile if (so and same) else os.path.join(d, "err.txt")
    args = []
    if "w" in extras:
        args.append("w")
    if "i" in extras:
        args.append("i")
        with open(os.path.join(d, "in.txt"), "w") as f:
            f.write("STDIN-%d" % idx)
    args += ["%s%d" % (s, n) for s, n in chunks] + [ending]
    vt = ["BEGIN:VCALENDAR", "VERSION:2.0", "BEGIN:VTODO", "UID:x%d" % idx,
          # `exec`: the job process itself (not an intermediate shell) exits or is killed
          "SUMMARY:exec python3 %s %s" % (JOB, " ".join(args)),
          "X-ECHS-SETUID:%d" % os.getuid(), "X-ECHS-SETGID:%d" % os.getgid(),
          "X-ECHS-SHELL:%s" % ("/nonexistent/hx-no-such-shell" if "s" in extras else "/bin/sh"), "LOCATION:%s" % d,
          "X-ECHS-UMASK:%s" % ("027" if "w" in extras else "022"),
          "X-ECHS-MAIL-OUT:%d" % mo, "X-ECHS-MAIL-ERR:%d" % me]
    if so:
        vt.append("X-ECHS-OFILE:%s" % ofile)
    if se:
        vt.append("X-ECHS-EFILE:%s" % efile)
    if "i" in extras:
        vt.append("X-ECHS-IFILE:%s" % os.path.join(d, "in.txt"))
    vt += ["ORGANIZER:echse", "ATTENDEE:root", "END:VTODO", "END:VCALENDAR", ""]
    env = dict(os.environ, HX_SENDMAIL=rec, ASAN_OPTIONS="detect_leaks=0", TMPDIR="/tmp")
    try:
        r = subprocess.run([exe, "-v"], input="\n".join(vt).encode(), stdout=subprocess.PIPE, stderr=subprocess.PIPE,
                           env=env, timeout=120)
        journal, status = r.stdout.decode("latin-1"), r.returncode
    except subprocess.TimeoutExpired:
        journal, status = "", "timeout"

    def rd(p):
        return open(p, "rb").read() if os.path.exists(p) else None
    res = {"journal": journal, "status": status, "ofile": rd(ofile) if so else None,
           "efile": rd(efile) if (se and efile != ofile) else None, "mail": rd(os.path.join(d, "mail.txt")),
           "stderr": r.stderr.decode("latin-1")[-400:] if status != "timeout" else ""}
    shutil.rmtree(d, ignore_errors=True)
    return res


def judge(cfg, chunks, ending, extras, res, d):
    """property-level verdict on one run; returns (why or None, canonical observation line)"""
    so, se, same, mo, me = cfg
    if "s" in extras:
        # the requested shell does not exist: the command cannot be run, and the record must not say it ran and succeeded
        j = res["journal"]
        if "X-EXIT-STATUS:0\n" in j:
            return ("the requested shell does not exist and the job never ran, the journal records X-EXIT-STATUS:0",
                    "ofile=- efile=- mail=-")
        if "BEGIN:VTODO" not in j or "STATUS:CANCELLED" not in j:
            return ("the requested shell does not exist and the job never ran, the journal says nothing about it: %r" % j[-200:],
                    "ofile=- efile=- mail=-")
        return None, "ofile=- efile=- mail=-"
    tot_o = sum(n for s, n in chunks if s == "o")
    tot_e = sum(n for s, n in chunks if s == "e")
    obs = {}
    why = None

    def sink(name, data, want_o, want_e):
        nonlocal why
        if data is None:
            obs[name] = "-" if not (want_o is None) else "-"
            if want_o is not None and (want_o or want_e) and why is None:
                why = "%s was not written although it should receive %d stdout / %d stderr bytes" % (name, want_o, want_e)
            return
        body = data
        if name == "mail":
            k = data.find(b"\n\n")
            body = data[k + 2:] if k >= 0 else data
        o, e, other = project(strip_extras(body))
        # the extras (cwd/umask line, stdin echo) travel on stdout and are taken out before the pattern test
        o_ok = pattern_ok(o_strip(o, body), O)
        obs[name] = "o%d,e%d" % (count_o(body), len(e))
        if why is None:
            if count_o(body) != want_o or len(e) != want_e:
                why = "%s holds %d stdout and %d stderr bytes, the configuration calls for %d and %d" % (
                    name, count_o(body), len(e), want_o, want_e)
            elif not o_ok or not pattern_ok(e, E):
                why = "%s holds the right amount but not the job's bytes in order (lost, duplicated or reordered)" % name
    # helpers: the extras print digits too (cwd may contain digits) — they are bracketed, strip bracketed parts
    def strip_extras(b):
        return re.sub(rb"\[[^\]]*\]|<[^>]*>", b"", b)

    def count_o(b):
        return len(bytes(x for x in strip_extras(b) if x in O))

    def o_strip(o, b):
        return bytes(x for x in strip_extras(b) if x in O)

    sink("ofile", res["ofile"], tot_o if so else None, (tot_e if (se and same) else 0) if so else None) if so else obs.setdefault("ofile", "-")
    if se and not (so and same):
        sink("efile", res["efile"], 0, tot_e)
    else:
        obs["efile"] = "-"
    if mo or me:
        sink("mail", res["mail"], tot_o if mo else 0, tot_e if me else 0)
    else:
        obs["mail"] = "-"
        if res["mail"] is not None and why is None:
            k = res["mail"].find(b"\n\n")
            body = res["mail"][k + 2:] if k >= 0 else b""
            if project(strip_extras(body))[0] or project(body)[1]:
                why = "job output is mailed although neither MAIL-OUT nor MAIL-ERR is set"
    # journal
    j = res["journal"]
    if why is None:
        if res["status"] != 0:
            why = "echsx itself ended with %s: %s" % (res["status"], res["stderr"][-200:])
        elif ending.startswith("x"):
            code = int(ending[1:])
            if "X-EXIT-STATUS:%d\n" % code not in j:
                why = "job exited with %d, the journal says %s" % (code, re.findall(r"X-EXIT-STATUS:.*|STATUS:.*", j))
        else:
            sig = int(ending[1:])
            if "X-SIGNAL:%d\n" % sig not in j:
                why = "job was killed by signal %d, the journal says %s" % (sig, re.findall(r"X-SIGNAL:.*|X-EXIT-STATUS:.*", j))
    if why is None and "w" in extras:
        first = res["ofile"] if so else (res["mail"] if mo else None)
        if first is not None:
            m = re.search(rb"\[([^|\]]*)\|(\d+)\]", first)
            if not m or m.group(1).decode() != d or m.group(2) != b"027":
                why = "job ran in %s with umask %s, requested %s and 027" % (m.group(1) if m else "?", m.group(2) if m else "?", d)
    if why is None and "i" in extras:
        first = res["ofile"] if so else (res["mail"] if mo else None)
        if first is not None and not re.search(rb"<STDIN-\d+>", first):
            why = "the job did not read the requested stdin file"
    return why, "ofile=%s efile=%s mail=%s" % (obs.get("ofile", "-"), obs.get("efile", "-"), obs.get("mail", "-"))


def run(ctx):
    exe = build(ctx)
    rng = ctx.rng
    thorough = ctx.tier == "thorough"
    cfgs = [(so, se, same, mo, me) for so in (0, 1) for se in (0, 1) for same in ((0, 1) if so and se else (0,))
            for mo in (0, 1) for me in (0, 1)]                       # the 20 documented rows
    sizes = [[("o", 10), ("e", 5), ("o", 3)], [("e", 7)], [], [("o", 70000), ("e", 70000), ("o", 1)],
             [("o", 300000)], [("e", 262144), ("o", 5), ("e", 1)]]
    if thorough:
        sizes += [[(rng.choice("oe"), rng.choice([1, 4095, 4096, 65536, 65537, 100000])) for _ in range(rng.randint(2, 9))]
                  for _ in range(6)]
    endings = ["x0", "x1", "x127", "k9", "k24"]
    cases = []
    for cfg in cfgs:
        for chunks in sizes:
            cases.append((cfg, chunks, rng.choice(endings), rng.choice(["", "", "w", "i", "wi"])))
        if not thorough:
            continue
        for ending in endings:
            cases.append((cfg, sizes[0], ending, ""))
    # a shell that cannot be spawned: one case per mail/file plan family
    for cfg in (cfgs if thorough else cfgs[::5]):
        cases.append((cfg, sizes[0], "x0", "s"))
    before = set(glob.glob("/tmp/echs????????"))
    base = tempfile.mkdtemp(prefix="hxexec-", dir=os.environ.get("TMPDIR", "/tmp"))
    results = [None] * len(cases)
    with concurrent.futures.ThreadPoolExecutor(max_workers=common.NCPU) as ex:
        futs = {ex.submit(run_case, exe, base, i, c[0], c[1], c[2], c[3]): i for i, c in enumerate(cases)}
        for f in concurrent.futures.as_completed(futs):
            results[futs[f]] = f.result()
    leftover = set(glob.glob("/tmp/echs????????")) - before
    for p in leftover:
        try:
            os.unlink(p)
        except OSError:
            pass
    lines, impl, fails = [], [], []
    for i, ((cfg, chunks, ending, extras), res) in enumerate(zip(cases, results)):
        d = os.path.join(base, "c%d" % i)
        why, obsline = judge(cfg, chunks, ending, extras, res, d)
        if "s" in extras:
            # nothing runs, nothing is routed: judged above, no plan to compare with
            if why:
                fails.append((len(lines), "OFILE=%d EFILE=%d same=%d MAIL-OUT=%d MAIL-ERR=%d: %s" % (cfg + (why,))))
            continue
        lines.append("x.run %d %d %d %d %d | %s" % (cfg + (" ".join("%s%d" % c for c in chunks),)))
        impl.append(obsline)
        if why:
            fails.append((i, "OFILE=%d EFILE=%d same=%d MAIL-OUT=%d MAIL-ERR=%d, job %s %s: %s" % (cfg + (lines[-1].split("|")[1].strip(), ending, why))))
    shutil.rmtree(base, ignore_errors=True)
    probes(ctx, exe, fails)
    if leftover and not fails:
        fails.append((0, "%d temporary file(s) /tmp/echsXXXXXXXX left behind" % len(leftover)))
    model = [re.sub(r" mrm=\d", "", m) for m in ctx.model(lines)]
    corr = common.diff_lines(lines, impl, model)
    ctx.cov.update({
        "evaluations": len(cases),
        "distinct_nontrivial": len({(c[0], tuple(c[1])) for c in cases if c[1]}),
        "traces_validated_against_impl": len(lines) - len(corr),
        "rule": "the 20 documented OFILE/EFILE/same-file/MAIL-OUT/MAIL-ERR combinations x jobs writing nothing, a few bytes, "
                "70 000 bytes on both streams interleaved, 300 000 bytes on one stream (beyond pipe capacity) x exit status "
                "0/1/127 or SIGKILL/SIGXCPU, some with cwd+umask report and a stdin file; real processes. non-trivial = job "
                "writes something; distinct = (configuration, chunk list)",
        "samples": [lines[i] + "  =>  " + impl[i] for i in sorted(rng.sample(range(len(lines)), min(5, len(lines))))],
        "temp_files_left": len(leftover),
        "impl_vs_spec_failures": len(fails),
        "impl_vs_model_differences": len(corr),
        "exhaustive": False,
    })
    ctx.assumptions += ["splice/sendfile/posix_spawn behave as on this kernel; sendmail replaced by a recorder; runs as the invoking user",
                        "interleaving across stdout and stderr in a shared sink is not compared, only each stream's order"]
    if fails:
        i, why = fails[0]
        i = min(i, len(lines) - 1)
        ctx.violation("property", why, {"op": lines[i], "impl": impl[i], "model": model[i], "failures_total": len(fails),
                                        "more": [w for _, w in fails[1:5]]})
    elif corr:
        i, op, a, b = corr[0]
        ctx.violation("correspondence", "observed routing and the model's plan differ on %d runs although each run met the table; first: %s impl=%s model=%s"
                      % (len(corr), op, a, b), {"correspondence": "Echse.Model.Exec vs echsx.c prep_task/data_cb", "op": op, "impl": a, "model": b},
                      found_input=False)


def probes(ctx, exe, fails):
    """hand-made requests next to the matrix: several jobs in one request, a request without command, and three recorded
    limits (a job that cannot be started, output of a background writer, one file under two spellings)"""
    base = tempfile.mkdtemp(prefix="hxprobe-", dir=os.environ.get("TMPDIR", "/tmp"))
    uid, gid = os.getuid(), os.getgid()

    def vtodo(name, cmd, extra, shell="/bin/sh", wd=None):
        return ["BEGIN:VTODO", "UID:%s" % name] + (["SUMMARY:%s" % cmd] if cmd is not None else []) + \
               ["X-ECHS-SETUID:%d" % uid, "X-ECHS-SETGID:%d" % gid, "X-ECHS-SHELL:%s" % shell, "LOCATION:%s" % (wd or base)] + extra + \
               ["ORGANIZER:echse", "ATTENDEE:root", "END:VTODO"]

    def run(todos):
        text = "\n".join(["BEGIN:VCALENDAR", "VERSION:2.0"] + sum(todos, []) + ["END:VCALENDAR", ""])
        try:
            r = subprocess.run([exe, "-v"], input=text.encode(), stdout=subprocess.PIPE, stderr=subprocess.PIPE, timeout=60,
                               env=dict(os.environ, HX_SENDMAIL="/bin/true", ASAN_OPTIONS="detect_leaks=0"))
            return r.returncode, r.stdout.decode("latin-1"), r.stderr.decode("latin-1")
        except subprocess.TimeoutExpired:
            return None, "", "timeout"

    def rd(fn):
        try:
            return open(os.path.join(base, fn)).read()
        except OSError:
            return None
    seen = {}
    # two jobs in one request (main() loops over the VTODOs of a request), output through pipes and through a file
    for tag, extra in (("p", ["X-ECHS-MAIL-OUT:1", "X-ECHS-MAIL-ERR:1"]), ("f", ["X-ECHS-MAIL-OUT:0", "X-ECHS-MAIL-ERR:0"])):
        rc, j, err = run([vtodo("two%s1" % tag, "echo one", ["X-ECHS-OFILE:%s/%s1" % (base, tag)] + extra),
                          vtodo("two%s2" % tag, "echo two", ["X-ECHS-OFILE:%s/%s2" % (base, tag)] + extra)])
        ents = re.findall(r"BEGIN:VTODO\n(.*?)END:VTODO", j, re.S)
        if (rd(tag + "1"), rd(tag + "2")) != ("one\n", "two\n") or len(ents) != 2 or not all(e.startswith("DTSTAMP:") for e in ents) \
                or j.count("X-EXIT-STATUS:0") != 2:
            fails.append((0, "a request with two jobs (`echo one', `echo two', OFILE each%s): files hold %r and %r, the journal has %d entries "
                             "beginning %s; log: %s" % (", MAIL-OUT, MAIL-ERR" if tag == "p" else "", rd(tag + "1"), rd(tag + "2"), len(ents),
                                                       [e[:12] for e in ents], err[-200:])))
    # no command
    rc, j, err = run([vtodo("nocmd", None, ["X-ECHS-MAIL-OUT:0", "X-ECHS-MAIL-ERR:0"])])
    if rc is None or rc < 0 or "Sanitizer" in err or "STATUS:CANCELLED" not in j:
        fails.append((0, "a request without SUMMARY: echsx ends with %s, journal %r, log %s" % (rc, j[-120:], err[-300:])))
    # a job that cannot be started
    rc, j, err = run([vtodo("noshell", "echo x", ["X-ECHS-MAIL-OUT:0", "X-ECHS-MAIL-ERR:0"], shell="/nonexistent/hx-no-such-shell")])
    if "BEGIN:VTODO" not in j:
        seen["not-started"] = "the requested shell does not exist: no journal entry at all (exit %s, log: %s)" % (rc, err.strip()[-160:])
    # a background process of the job goes on writing after the shell has gone
    rc, j, err = run([vtodo("late", "(sleep 1; echo late-out) & echo early-out", ["X-ECHS-OFILE:%s/late" % base, "X-ECHS-MAIL-OUT:1", "X-ECHS-MAIL-ERR:1"])])
    if rd("late") != "early-out\nlate-out\n":
        seen["late-output"] = "`(sleep 1; echo late-out) & echo early-out' with OFILE, MAIL-OUT, MAIL-ERR: the file holds %r" % rd("late")
    # one file under two names
    rc, j, err = run([vtodo("alias", "i=0; while [ $i -lt 300 ]; do echo oooooooooooooooooooooooooooooooooooooooo; echo eeeeeeeeeeeeeeeeeeeeeeeeeeeeeeeeeeeeeeee >&2; i=$((i+1)); done",
                            ["X-ECHS-OFILE:%s/both.log" % base, "X-ECHS-EFILE:%s/./both.log" % base, "X-ECHS-MAIL-OUT:0", "X-ECHS-MAIL-ERR:0"])])
    got = rd("both.log") or ""
    nlo = sum(1 for l in got.split("\n") if l == "o" * 40)
    nle = sum(1 for l in got.split("\n") if l == "e" * 40)
    if (nlo, nle) != (300, 300):
        seen["same-file-alias"] = "OFILE and EFILE name one file in two spellings, 300 lines on each stream: the file holds %d and %d whole lines" % (nlo, nle)
    # OFILE is a fifo somebody reads from, EFILE a file of its own: telling whether the two are one file must not open the fifo
    # (the reader would see an end of file before the job has written anything)
    fifo = os.path.join(base, "fifo")
    os.mkfifo(fifo)
    rdr = subprocess.Popen(["/bin/sh", "-c", "cat '%s' > '%s/fifo.got'" % (fifo, base)])
    rc, j, err = run([vtodo("fifo", "sleep 0.3; echo through-the-fifo; echo oops >&2",
                            ["X-ECHS-OFILE:%s" % fifo, "X-ECHS-EFILE:%s/fifo.err" % base, "X-ECHS-MAIL-OUT:0", "X-ECHS-MAIL-ERR:0"])])
    try:
        rdr.wait(timeout=10)
    except subprocess.TimeoutExpired:
        rdr.kill()
    if rc is None or (rd("fifo.got"), rd("fifo.err")) != ("through-the-fifo\n", "oops\n"):
        fails.append((0, "OFILE a fifo with a reader, EFILE a file: echsx ends with %s, the reader got %r, the file holds %r"
                         % (rc, rd("fifo.got"), rd("fifo.err"))))
    shutil.rmtree(base, ignore_errors=True)
    ctx.cov["probes"] = dict(seen) or "all probes as demanded"
    known = {k.get("class"): k for k in common.load_known("C13") if k.get("status") == "known"}
    for c, why in seen.items():
        if c in known:
            ctx.known(known[c]["what"])
        else:
            fails.append((0, why))


def replay(ctx, rep):
    print("replay: re-run `python3 check.py C13`; case was: %s" % rep.get("what"))
    return 1
