/-
  Property C01 for the yearly filler, layer L4: the seed-anchored statements against DTSTART across a refill (see
  `RrMlyReseed`): `ylyInst_reseed`, `ylySetpos_reseed`, `fillYly_sound_reseed`, `fillYly_complete_reseed`.
-/
import Echse.Lemmas.RrYlyPos
import Echse.Lemmas.RrMlyReseed
namespace Echse.Lemmas.RrYlyRfc
open Echse.Rrule Echse.Instant Echse.Spec.RrOk Echse.Lemmas.RrCandOk Echse.Spec.Rfc Echse.Lemmas.RrRfc
open Echse.Lemmas.RrCandRfc Echse.Lemmas.RrYlyOk Echse.Spec.Cal Echse.Spec.RuleExt Echse.Lemmas.RrMlyRfc
open Echse.Lemmas.RrOkBase

/-- L4 (YEARLY): for a seed that is itself an instance of (DTSTART `ds`, rule), the instances anchored at the seed are
those anchored at DTSTART, from the seed's year on -/
theorem ylyInst_reseed (r : Rule) (ds p x : Inst) (hr : WfRule r) (hp : YearlyInst r ds p) (hx : p.y ≤ x.y) :
    YearlyInst r p x ↔ YearlyInst r ds x := by
  obtain ⟨a1, ⟨j, a2⟩, a4, a5⟩ := (ylyInst_iff r ds p).1 hp
  rw [ylyInst_iff, ylyInst_iff, sameKind_reseed a1, timeExp_reseed a1 a5,
    grid_reseed ds.y p.y x.y j r.inter (by have := hr.inter; omega) a2 hx]
  apply and_congr Iff.rfl; apply and_congr Iff.rfl
  apply and_congr ?_ Iff.rfl
  unfold YlyDate at *
  obtain ⟨_, _, _, _, a4⟩ := a4
  apply and_congr Iff.rfl; apply and_congr Iff.rfl; apply and_congr Iff.rfl; apply and_congr Iff.rfl
  by_cases c1 : r.dow ≠ []
  · rw [if_pos c1, if_pos c1]
  · rw [if_neg c1] at a4; rw [if_neg c1, if_neg c1]
    by_cases c2 : r.wk ≠ [] ∧ r.doy = [] ∧ r.dom = []
    · rw [if_pos c2] at a4; rw [if_pos c2, if_pos c2, a4]
    · rw [if_neg c2] at a4; rw [if_neg c2, if_neg c2]
      by_cases c3 : r.doy = [] ∧ r.dom = [] ∧ r.wk = []
      · rw [if_pos c3] at a4; rw [if_pos c3, if_pos c3, a4.1]
        apply and_congr Iff.rfl
        rcases a4.2 with h | h
        · constructor <;> intro _ <;> exact Or.inl h
        · rw [h]
      · rw [if_neg c3, if_neg c3]

/-- L4 (YEARLY), BYSETPOS: the same for `SetposOk` (`hf`: the rule's frequency is YEARLY) -/
theorem ylySetpos_reseed (r : Rule) (ds p x : Inst) (hr : WfRule r) (hf : r.freq = 1) (hp : YearlyInst r ds p)
    (hx : p.y ≤ x.y) : SetposOk r p x ↔ SetposOk r ds x := by
  apply setpos_reseed
  intro y hy
  rw [instance_yly r p y hf, instance_yly r ds y hf]
  rw [period_yly r y hf, period_yly r x hf] at hy
  exact ylyInst_reseed r ds p y hr hp (by omega)

/-- C01 across a refill, soundness (YEARLY) -/
theorem fillYly_sound_reseed (r : Rule) (ds p : Inst) (n : Nat) (l : List Inst) (hr : WfRule r) (hp : WfInst p)
    (hn : n ≤ 64) (hy : 1901 ≤ p.y) (hsup : YlySup r) (hsh : r.shift = 0)
    (hf : r.pos ≠ [] → r.freq = 1) (hseed : YearlyInst r ds p) (h : fillYly r p n = some l) :
    ∀ x ∈ l, YearlyInst r ds x ∧ SetposOk r ds x := by
  intro x hx
  obtain ⟨h1, h2⟩ := fillYly_sound_all r p n l hr hp hn hy hsup hsh hf h x hx
  obtain ⟨b1, ⟨k, hk⟩, _⟩ := (ylyInst_iff r p x).1 h1
  have hidx : p.y ≤ x.y := by rw [hk]; omega
  refine ⟨(ylyInst_reseed r ds p x hr hseed hidx).1 h1, ?_⟩
  by_cases hpos : r.pos = []
  · exact Or.inl hpos
  · exact (ylySetpos_reseed r ds p x hr (hf hpos) hseed hidx).1 h2

/-- C01 across a refill, completeness (YEARLY) -/
theorem fillYly_complete_reseed (r : Rule) (ds p : Inst) (n : Nat) (l : List Inst) (hr : WfRule r) (hp : WfInst p)
    (hn : n ≤ 64) (hy : 1901 ≤ p.y) (hsup : YlySup r) (hsh : r.shift = 0)
    (hf : r.pos ≠ [] → r.freq = 1) (hseed : YearlyInst r ds p) (h : fillYly r p n = some l)
    (x : Inst) (hx : YearlyInst r ds x) (hsp : SetposOk r ds x) (hge : absOf p ≤ absOf x)
    (hle : ltP r.untl x = false) (hxy : x.y ≤ 2099) :
    x ∈ l ∨ (l.length = capOf r n ∧ ∀ z ∈ l, ltP z x = true) := by
  obtain ⟨a1, _⟩ := (ylyInst_iff r ds p).1 hseed
  have hk : SameKind p x := (sameKind_reseed a1).2 hx.1
  obtain ⟨g1, _, g3⟩ := ge_seed hp hy hk hxy hge
  have hidx : p.y ≤ x.y := by
    by_cases c : p.y ≤ x.y
    · exact c
    · have := ltP_of_year_lt x p (by omega)
      rw [g1] at this; cases this
  have hx' := (ylyInst_reseed r ds p x hr hseed hidx).2 hx
  have hsp' : SetposOk r p x := by
    by_cases hpos : r.pos = []
    · exact Or.inl hpos
    · exact (ylySetpos_reseed r ds p x hr (hf hpos) hseed hidx).2 hsp
  exact fillYly_complete_all r p n l hr hp hn hy hsup hsh hf h x hx' hsp' hge hle hxy

end Echse.Lemmas.RrYlyRfc
