/-
  C10 lemmas, part 8: the reference semantics — a byte-at-a-time automaton.  `Sc` is its skeleton (what the
  `Tidy` conditions talk about), `Abs` adds the unfolded line (in full, however long: the stash of the
  parser grows with it, and a line of any length is handed to `procA` when it ends, `flushA`), the component state, the log and the instructions.  Running it over a concatenation is running it over the pieces in turn (`List.foldl_append`),
  which is what makes the parse independent of the chunking once `feed` is shown to compute it.
-/
import Echse.Lemmas.Ical7
namespace Echse.Ical

/-- skeleton of the automaton, about the logical (unfolded) line being read -/
structure Sc where
  raw : Nat := 0        -- raw bytes of it so far (CRs, fold NL+whitespace and a pending NL included)
  empty : Bool := true  -- no content byte in it so far (only CRs and folds)
  pend : Bool := false  -- its NL has been read: the line is complete unless fold whitespace follows
  sp : Bool := false    -- it has an SP or TAB as a content byte (fold whitespace not counted)
deriving DecidableEq, Repr

/-- a byte that is not the one behind a pending NL -/
def plainSc (s : Sc) (c : Byte) : Sc :=
  if c = CR then { s with raw := s.raw + 1 }
  else if c = NL then { s with raw := s.raw + 1, pend := true }
  else { s with raw := s.raw + 1, empty := false, sp := s.sp || isFold c }

def stepSc (s : Sc) (c : Byte) : Sc :=
  if s.pend then
    if isFold c then { s with raw := s.raw + 1, pend := false }   -- a fold: the line goes on
    else plainSc {} c                                             -- the line was complete, `c` starts a new one
  else plainSc s c

def runSc (s : Sc) (l : List Byte) : Sc := l.foldl stepSc s

/-- `φ state rest` holds at every position of the run -/
def allSc (φ : Sc → List Byte → Bool) : Sc → List Byte → Bool
  | s, [] => φ s []
  | s, c :: r => φ s (c :: r) && allSc φ (stepSc s c) r

structure Abs where
  sc : Sc := {}
  cur : List Byte := []            -- the unfolded line so far
  comp : Comp := {}
  log : List (List Byte) := []
  ins : List Instr := []

/-- the line `cur` is complete: `_ical_proc`, and what `echs_evical_pull` and its callers do with the result -/
def procA (A : Abs) : Abs :=
  let x := procLine A.comp A.cur
  let log := A.log ++ [A.cur.takeWhile (· ≠ 0)]
  match x.2 with
  | .none => { A with cur := [], comp := x.1, log := log }
  | .eop => { A with cur := [], comp := { x.1 with meth := none }, log := log }
  | .ve =>
    let ins' := if verbOf x.1.meth x.1.cur == "X" then A.ins
                else A.ins ++ [{ verb := verbOf x.1.meth x.1.cur, lines := x.1.cur }]
    { A with cur := [], comp := x.1, log := log, ins := ins' }

/-- a pending line turns out complete: an empty line is passed over, any other - of whatever length - is
acted upon -/
def flushA (A : Abs) : Abs :=
  if A.cur = [] then { A with sc := {} }
  else { (procA A) with sc := {} }

def plainA (A : Abs) (c : Byte) : Abs :=
  { A with sc := plainSc A.sc c, cur := if c = CR ∨ c = NL then A.cur else A.cur ++ [c] }

def stepA (A : Abs) (c : Byte) : Abs :=
  if A.sc.pend then
    if isFold c then { A with sc := stepSc A.sc c } else plainA (flushA A) c
  else plainA A c

def runA (A : Abs) (l : List Byte) : Abs := l.foldl stepA A

theorem runA_nil (A : Abs) : runA A [] = A := rfl
theorem runA_cons (A : Abs) (c : Byte) (l : List Byte) : runA A (c :: l) = runA (stepA A c) l := rfl
theorem runA_append (A : Abs) (x y : List Byte) : runA A (x ++ y) = runA (runA A x) y := by
  unfold runA; rw [List.foldl_append]

theorem runSc_nil (s : Sc) : runSc s [] = s := rfl
theorem runSc_cons (s : Sc) (c : Byte) (l : List Byte) : runSc s (c :: l) = runSc (stepSc s c) l := rfl
theorem runSc_append (s : Sc) (x y : List Byte) : runSc s (x ++ y) = runSc (runSc s x) y := by
  unfold runSc; rw [List.foldl_append]

theorem flushA_sc (A : Abs) : (flushA A).sc = {} := by
  unfold flushA
  split <;> rfl

theorem procA_cur (A : Abs) : (procA A).cur = [] := by
  unfold procA; dsimp only; split <;> rfl

theorem procA_log (A : Abs) : (procA A).log = A.log ++ [A.cur.takeWhile (· ≠ 0)] := by
  unfold procA; dsimp only; split <;> rfl

theorem flushA_cur (A : Abs) : (flushA A).cur = [] := by
  unfold flushA
  split
  · rename_i h; exact h
  · exact procA_cur A

/-- the skeleton runs on its own -/
theorem stepA_sc (A : Abs) (c : Byte) : (stepA A c).sc = stepSc A.sc c := by
  unfold stepA stepSc
  split
  · split
    · rfl
    · show plainSc (flushA A).sc c = _; rw [flushA_sc]
  · rfl

theorem runA_sc (A : Abs) (l : List Byte) : (runA A l).sc = runSc A.sc l := by
  induction l generalizing A with
  | nil => rfl
  | cons c l ih => rw [runA_cons, runSc_cons, ih, stepA_sc]

end Echse.Ical
