/-
  Assembly of C16 / C09, part 10: the hourly filler writes only instants with an hour below 24 (never an all-day one),
  whatever the seed: the hour of what is written is the loop's hour counter, which starts below 24 and is reduced
  modulo 24 whenever it runs over.  Parts 11 and 12 say the same of the minutely and the secondly filler.
-/
import Echse.Lemmas.RrAsm2
import Echse.Lemmas.RrHlyOk
namespace Echse.Lemmas.RrAsm
open Echse.Rrule Echse.Instant Echse.Spec.RrOk
open Echse.Lemmas.RrHlyOk

/-- all hours written are proper hours -/
abbrev HLt (res : List Inst) : Prop := AllH (· < 24) res

theorem HLt.cons {y m d H mi s ms : Nat} {acc : List Inst} (hH : H < 24) (h : HLt acc) :
    HLt (mkInst y m d H mi s ms :: acc) := by
  intro z hz
  rcases List.mem_cons.mp hz with e | e
  · rw [e]; show H % 256 < 24; omega
  · exact h z e

theorem hlyEnum_hlt (c : SubCtx) (y m d H : Nat) (hH : H < 24) :
    ∀ (ts : List (Nat × Nat × Nat × Nat)) (cnt : Nat) (acc : List Inst), HLt acc →
      HLt (hlyEnum c y m d H ts cnt acc).2.1 := by
  intro ts
  induction ts with
  | nil => intro cnt acc h; exact h
  | cons t rest ih =>
    obtain ⟨iM, iS, mi, s⟩ := t
    intro cnt acc h
    simp only [hlyEnum]
    by_cases c0 : ¬ cnt < c.nti
    · simp only [c0]; exact h
    simp only [c0, if_false]
    by_cases c1 : ltP (mkInst y m d H mi s c.proto.ms) c.proto = true
    · simp only [c1, if_true]; exact ih cnt acc h
    simp only [c1]
    by_cases c2 : ltP c.r.untl (mkInst y m d H mi s c.proto.ms) = true
    · simp only [c2, if_true]; exact h
    simp only [c2]
    by_cases c3 : (!posPickP c.r.pos (iM * c.e.S.length + iS) (c.e.M.length * c.e.S.length)) = true
    · simp only [c3, if_true]; exact ih cnt acc h
    · simp only [c3]; exact ih _ _ (h.cons hH)

theorem hlyBody_hlt (c : SubCtx) (times : List (Nat × Nat × Nat × Nat)) (y m d H w yd maxd maxy cnt : Nat)
    (acc : List Inst) (hH : H < 24) (h : HLt acc) : HLt (hlyBody c times y m d H w yd maxd maxy cnt acc).2.1 := by
  unfold hlyBody
  dsimp only
  by_cases c1 : c.dayOut w m d maxd = true
  · rw [if_pos c1]; exact h
  rw [if_neg c1]
  by_cases c2 : (c.HMask &&& shl1 H) = 0
  · rw [if_pos c2]; exact h
  rw [if_neg c2]
  by_cases c3 : (!c.r.doy.isEmpty && !doyHit c.r.doy yd maxy) = true
  · rw [if_pos c3]; exact h
  · rw [if_neg c3]; exact hlyEnum_hlt c y m d H hH times cnt acc h

theorem hlyLoop_hlt (c : SubCtx) (times : List (Nat × Nat × Nat × Nat)) :
    ∀ (fuel y m d H w yd maxd maxy cnt : Nat) (acc acc' : List Inst), H < 24 → HLt acc →
      hlyLoop c times fuel y m d H w yd maxd maxy cnt acc = some acc' → HLt acc' := by
  intro fuel
  induction fuel with
  | zero => intro _ _ _ _ _ _ _ _ _ _ _ _ _ h; cases h
  | succ f ih =>
    intro y m d H w yd maxd maxy cnt acc acc' hH hacc h
    rw [hlyLoop_succ] at h
    by_cases c0 : ¬ cnt < c.nti
    · rw [if_pos c0] at h; cases h; exact hacc
    rw [if_neg c0] at h
    by_cases c1 : y > subMaxYear
    · rw [if_pos c1] at h; cases h; exact hacc
    rw [if_neg c1] at h
    by_cases c2 : ltP c.r.untl (mkInst y m d H 0 0 c.proto.ms) = true
    · rw [if_pos c2] at h; cases h; exact hacc
    rw [if_neg c2] at h
    have hb := hlyBody_hlt c times y m d H w yd maxd maxy cnt acc hH hacc
    generalize hlyBody c times y m d H w yd maxd maxy cnt acc = bd at hb h
    obtain ⟨cnt1, acc1, fin, inc⟩ := bd
    dsimp only at h hb
    by_cases c3 : fin = true
    · rw [if_pos c3] at h; cases h; exact hb
    rw [if_neg c3] at h
    unfold hlyStep at h
    by_cases c4 : (H + inc) % u32 ≥ 24
    · rw [if_pos c4] at h
      dsimp only at h
      cases hc : hlyCarry ((d + (H + inc) % u32 / 24) % u32 + 1) y m ((d + (H + inc) % u32 / 24) % u32) maxd
          ((yd + (H + inc) % u32 / 24) % u32) maxy with
      | none => rw [hc] at h; cases h
      | some st =>
        obtain ⟨y2, m2, d2, maxd2, yd2, maxy2⟩ := st
        rw [hc] at h
        exact ih _ _ _ _ _ _ _ _ _ _ _ (Nat.mod_lt _ (by decide)) hb h
    · rw [if_neg c4] at h
      exact ih _ _ _ _ _ _ _ _ _ _ _ (by omega) hb h

/-- the hourly filler never writes an all-day instant -/
theorem fillHly_hlt (r : Rule) (p : Inst) (n : Nat) (l : List Inst) (hp : WfInst p) (h : fillHly r p n = some l) :
    ∀ x ∈ l, x.H < 24 := by
  have hnil : ∀ x ∈ ([] : List Inst), x.H < 24 := fun x hx => nomatch hx
  unfold fillHly at h
  dsimp only at h
  cases hcap : capNti r n with
  | none => rw [hcap] at h; cases h; exact hnil
  | some nti =>
    rw [hcap] at h
    dsimp only at h
    by_cases c1 : r.scale ≠ 0
    · rw [if_pos c1] at h; cases h; exact hnil
    rw [if_neg c1] at h
    by_cases c2 : p.y < 1600 ∨ p.m = 0 ∨ p.m > 12 ∨ p.d = 0 ∨ p.d > 31
    · rw [if_pos c2] at h; cases h; exact hnil
    rw [if_neg c2] at h
    by_cases c3 : r.inter % u32 = 0
    · rw [if_pos c3] at h; cases h; exact hnil
    rw [if_neg c3] at h
    by_cases c4 : (!posPickAnyP r.pos ((mkSubCtx r p nti).e.M.length * (mkSubCtx r p nti).e.S.length)) = true
    · rw [if_pos c4] at h; cases h; exact hnil
    rw [if_neg c4] at h
    have hH : (if p.H = allDay then 0 else p.H) < 24 := by
      have := hp.time
      unfold allDay at *
      split <;> omega
    cases hre : hlyReach (mkSubCtx r p nti) 24 0 (if p.H = allDay then 0 else p.H) with
    | none => rw [hre] at h; cases h
    | some b =>
      rw [hre] at h
      cases b with
      | false => cases h; exact hnil
      | true =>
        dsimp only at h
        obtain ⟨res, hw, rfl⟩ := Option.map_eq_some_iff.mp h
        have := hlyLoop_hlt _ _ _ _ _ _ _ _ _ _ _ _ _ _ hH (AllH.nil _) hw
        exact fun x hx => this x (List.mem_reverse.mp hx)

end Echse.Lemmas.RrAsm
