/-
  Facts shared by the proofs about the sub-daily fillers (`fillHly`, `fillMnly`, `fillSly`):
  `capNti`, `interPast`, the month carry, the packed comparison key, the accumulator invariant.
-/
import Echse.Spec.RrOk
namespace Echse.Lemmas.RrSubOk
open Echse.Rrule Echse.Instant Echse.Spec.RrOk

/-! ### `capNti` -/

theorem capNti_le (r : Rule) (n k : Nat) (hc : r.count = -1 ∨ (0 ≤ r.count ∧ r.count < 2147483648))
    (hn : n ≤ 64) (h : capNti r n = some k) : k ≤ n ∧ (0 ≤ r.count → (k : Int) ≤ r.count) := by
  unfold capNti at h
  simp only [u32] at h
  rcases hc with hc | ⟨h0, h1⟩
  · rw [hc] at h
    have : ((-1 : Int) % ((4294967296 : Nat) : Int)).toNat = 4294967295 := by decide
    simp only [this] at h
    have hlt : ¬ 4294967295 < n := by omega
    simp only [hlt, if_false, Option.some.injEq] at h
    subst h
    refine ⟨Nat.le_refl _, ?_⟩
    intro h0; omega
  · have hcu : (r.count % ((4294967296 : Nat) : Int)).toNat = r.count.toNat := by
      congr 1; omega
    simp only [hcu] at h
    by_cases hlt : r.count.toNat < n
    · simp only [hlt, if_true] at h
      by_cases hz : r.count.toNat = 0
      · simp [hz] at h
      · simp only [hz, if_false, Option.some.injEq] at h
        subst h
        refine ⟨by omega, ?_⟩
        intro _; omega
    · simp only [hlt, if_false, Option.some.injEq] at h
      subst h
      refine ⟨Nat.le_refl _, ?_⟩
      intro _; omega

/-! ### `interPast` -/

theorem interPast_bounds (rem inter : Nat) (hi : 1 ≤ inter) (hi2 : inter < 2147483648)
    (hr1 : 1 ≤ rem) (hr2 : rem ≤ 86400) :
    rem ≤ interPast rem inter ∧ interPast rem inter < rem + inter := by
  unfold interPast
  simp only [u32]
  have h1 : (rem + 4294967296 - 1) % 4294967296 = rem - 1 := by omega
  rw [h1]
  have hq : (rem - 1) / inter ≤ rem - 1 := Nat.div_le_self _ _
  have h2 : ((rem - 1) / inter + 1) % 4294967296 = (rem - 1) / inter + 1 := by
    apply Nat.mod_eq_of_lt; omega
  rw [h2]
  have hdm := Nat.div_add_mod (rem - 1) inter
  have hml : (rem - 1) % inter < inter := Nat.mod_lt _ (by omega)
  have hmul : ((rem - 1) / inter + 1) * inter = inter * ((rem - 1) / inter) + inter := by
    rw [Nat.add_mul, Nat.one_mul, Nat.mul_comm]
  rw [hmul]
  have h3 : (inter * ((rem - 1) / inter) + inter) % 4294967296 = inter * ((rem - 1) / inter) + inter := by
    apply Nat.mod_eq_of_lt; omega
  rw [h3]
  omega

/-! ### days of the month -/

theorem getNdom_bounds (y m : Nat) (h1 : 1 ≤ m) (h2 : m ≤ 12) : 28 ≤ getNdom y m ∧ getNdom y m ≤ 31 := by
  unfold getNdom mdays
  have : m = 1 ∨ m = 2 ∨ m = 3 ∨ m = 4 ∨ m = 5 ∨ m = 6 ∨ m = 7 ∨ m = 8 ∨ m = 9 ∨ m = 10 ∨ m = 11 ∨ m = 12 := by
    omega
  rcases this with h | h | h | h | h | h | h | h | h | h | h | h <;> subst h <;> simp <;> split <;> omega

/-! ### the month carry -/

/-- days before month `m` of year `y` -/
def cum (y : Nat) : Nat → Nat
  | 0 => 0
  | m+1 => cum y m + getNdom y m

/-- a day number on a grid of 366-day years: strictly monotone on real dates, with gaps -/
def dn (y m d : Nat) : Nat := 366 * y + cum y m + d

theorem cum_one (y : Nat) : cum y 1 = 0 := by simp [cum, getNdom, mdays]

theorem cum_12 (y : Nat) : cum y 12 ≤ 335 := by
  simp only [cum, getNdom, mdays]
  simp
  split <;> omega

theorem cum_le (y m : Nat) (h : m ≤ 12) : cum y m ≤ 335 := by
  have h12 := cum_12 y
  have mono : ∀ k, cum y m ≤ cum y (m + k) := by
    intro k
    induction k with
    | zero => exact Nat.le_refl _
    | succ k ih => show cum y m ≤ cum y (m + k) + getNdom y (m + k); omega
  have := mono (12 - m)
  have e : m + (12 - m) = 12 := by omega
  rw [e] at this
  omega

theorem subCarry_spec : ∀ (fuel y m d : Nat), 1 ≤ m → m ≤ 12 → 1 ≤ d → d < fuel → y + d < 4294967296 →
    ∃ y' m' d', subCarry fuel y m d (getNdom y m) = some (y', m', d', getNdom y' m') ∧
      1 ≤ m' ∧ m' ≤ 12 ∧ 1 ≤ d' ∧ d' ≤ getNdom y' m' ∧ dn y m d ≤ dn y' m' d' ∧ y' + d' ≤ y + d ∧
      ((y' = y ∧ m' = m ∧ d' = d) ∨ y * 16 + m < y' * 16 + m') := by
  intro fuel
  induction fuel with
  | zero => intro y m d _ _ _ h; omega
  | succ f ih =>
    intro y m d hm1 hm2 hd hf hy
    have hb := getNdom_bounds y m hm1 hm2
    unfold subCarry
    by_cases hgt : d > getNdom y m
    · simp only [hgt, if_true]
      by_cases hm : m + 1 > 12
      · have hm12 : m = 12 := by omega
        subst hm12
        have hy1 : (y + 1) % u32 = y + 1 := by simp only [u32]; omega
        simp only [hm, if_true, hy1]
        clear hy1
        obtain ⟨y', m', d', he, h1, h2, h3, h4, h5, h6, h7⟩ :=
          ih (y + 1) 1 (d - getNdom y 12) (by omega) (by omega) (by omega) (by omega) (by omega)
        refine ⟨y', m', d', he, h1, h2, h3, h4, ?_, by omega, Or.inr (by omega)⟩
        have c12 := cum_12 y
        have c1 := cum_one (y + 1)
        unfold dn at h5 ⊢
        have hn : getNdom y 12 = 31 := by simp [getNdom, mdays]
        rw [hn] at h5
        generalize cum y 12 = a at *
        generalize cum (y + 1) 1 = b at *
        generalize cum y' m' = c at *
        omega
      · simp only [hm, if_false]
        obtain ⟨y', m', d', he, h1, h2, h3, h4, h5, h6, h7⟩ :=
          ih y (m + 1) (d - getNdom y m) (by omega) (by omega) (by omega) (by omega) (by omega)
        refine ⟨y', m', d', he, h1, h2, h3, h4, ?_, by omega, Or.inr (by omega)⟩
        unfold dn at h5 ⊢
        have : cum y (m + 1) = cum y m + getNdom y m := rfl
        omega
    · simp only [hgt, if_false]
      exact ⟨y, m, d, rfl, hm1, hm2, hd, by omega, Nat.le_refl _, Nat.le_refl _, Or.inl ⟨rfl, rfl, rfl⟩⟩

/-! ### the comparison key -/

/-- the word `echs_instant_lt_p` compares -/
def bk (x : Inst) : Nat := (bump x).pack

theorem ltP_eq (a b : Inst) : ltP a b = decide (bk a < bk b) := rfl

/-- the key of the candidate `y-m-d H:M:S` without its millisecond part -/
def ck (y m d H M S : Nat) : Nat :=
  1024 * S + 65536 * M + 16777216 * (H + 1) + 4294967296 * d + 1099511627776 * m + 281474976710656 * y

/-- the millisecond part of the key of every candidate -/
def msk (ms : Nat) : Nat := (ms % 1024 + 1) % 1024

theorem msk_lt (ms : Nat) : msk ms < 1024 := by unfold msk; omega

theorem bk_mkInst (y m d H M S ms : Nat) (hy : y < 65536) (hm : m ≤ 12) (hd : d ≤ 31) (hH : H < 24)
    (hM : M < 60) (hS : S < 60) : bk (mkInst y m d H M S ms) = msk ms + ck y m d H M S := by
  simp only [bk, bump, Inst.pack, mkInst, msk, ck, Nat.reducePow]
  omega

theorem wf_mkInst (y m d H M S ms : Nat) (hy1 : 1601 ≤ y) (hy2 : y ≤ 2100) (hm1 : 1 ≤ m) (hm2 : m ≤ 12)
    (hd1 : 1 ≤ d) (hd2 : d ≤ getNdom y m) (hH : H < 24) (hM : M < 60) (hS : S < 60) (hms : ms < 1024) :
    WfInst (mkInst y m d H M S ms) := by
  have hb := getNdom_bounds y m hm1 hm2
  have e1 : y % 65536 = y := Nat.mod_eq_of_lt (by omega)
  have e2 : m % 256 = m := Nat.mod_eq_of_lt (by omega)
  have e3 : d % 256 = d := Nat.mod_eq_of_lt (by omega)
  have e4 : H % 256 = H := Nat.mod_eq_of_lt (by omega)
  have e5 : M % 256 = M := Nat.mod_eq_of_lt (by omega)
  have e6 : S % 64 = S := Nat.mod_eq_of_lt (by omega)
  have e7 : ms % 1024 = ms := Nat.mod_eq_of_lt hms
  constructor <;> simp only [mkInst, e1, e2, e3, e4, e5, e6, e7]
  · exact ⟨hy1, hy2⟩
  · exact ⟨hm1, hm2⟩
  · exact ⟨hd1, hd2⟩
  · exact Or.inr ⟨hH, hM, hS⟩
  · exact hms

/-- the key of a sane seed: its date part, and the time part unless it is all-day -/
theorem bk_wf (p : Inst) (hp : WfInst p) :
    (p.H = allDay ∧ bk p = msk p.ms + 4294967296 * p.d + 1099511627776 * p.m + 281474976710656 * p.y) ∨
    (p.H < 24 ∧ bk p = msk p.ms + ck p.y p.m p.d p.H p.M p.S) := by
  obtain ⟨⟨hy1, hy2⟩, ⟨hm1, hm2⟩, ⟨hd1, hd2⟩, ht, hms⟩ := hp
  have hb := getNdom_bounds p.y p.m hm1 hm2
  rcases ht with ⟨hH, hM, hS⟩ | ⟨hH, hM, hS⟩
  · left
    refine ⟨hH, ?_⟩
    simp only [bk, bump, Inst.pack, msk, hH, hM, hS, allDay, Nat.reducePow]
    omega
  · right
    refine ⟨hH, ?_⟩
    simp only [bk, bump, Inst.pack, msk, ck, Nat.reducePow]
    omega

/-! ### the accumulator invariant -/

/-- what the loops keep true of the results so far (`acc`, newest first; `cnt` = the C variable `res`):
all of them sane, within seed and UNTIL, descending, and with keys below `bound` -/
structure AccOk (r : Rule) (p : Inst) (nti cnt : Nat) (acc : List Inst) (bound : Nat) : Prop where
  len : acc.length = cnt
  le : cnt ≤ nti
  wf : ∀ x ∈ acc, WfInst x
  ge : ∀ x ∈ acc, ltP x p = false
  un : ∀ x ∈ acc, ltP r.untl x = false
  desc : acc.Pairwise (fun a b => ltP b a = true)
  below : ∀ x ∈ acc, bk x < bound

theorem AccOk.nil (r : Rule) (p : Inst) (nti b : Nat) : AccOk r p nti 0 [] b :=
  ⟨rfl, Nat.zero_le _, by simp, by simp, by simp, List.Pairwise.nil, by simp⟩

theorem AccOk.mono {r : Rule} {p : Inst} {nti cnt : Nat} {acc : List Inst} {b b' : Nat}
    (h : AccOk r p nti cnt acc b) (hb : b ≤ b') : AccOk r p nti cnt acc b' :=
  ⟨h.len, h.le, h.wf, h.ge, h.un, h.desc, fun x hx => Nat.lt_of_lt_of_le (h.below x hx) hb⟩

theorem AccOk.push {r : Rule} {p : Inst} {nti cnt : Nat} {acc : List Inst} {b b' : Nat} {x : Inst}
    (h : AccOk r p nti cnt acc b) (hc : cnt < nti) (hw : WfInst x) (hg : ltP x p = false)
    (hu : ltP r.untl x = false) (hb : b ≤ bk x) (hb' : bk x < b') : AccOk r p nti (cnt + 1) (x :: acc) b' := by
  refine ⟨by simp [h.len], hc, ?_, ?_, ?_, ?_, ?_⟩
  · intro z hz
    rcases List.mem_cons.mp hz with e | e
    · exact e ▸ hw
    · exact h.wf z e
  · intro z hz
    rcases List.mem_cons.mp hz with e | e
    · exact e ▸ hg
    · exact h.ge z e
  · intro z hz
    rcases List.mem_cons.mp hz with e | e
    · exact e ▸ hu
    · exact h.un z e
  · refine List.Pairwise.cons ?_ h.desc
    intro z hz
    have := h.below z hz
    rw [ltP_eq]
    exact decide_eq_true (by omega)
  · intro z hz
    rcases List.mem_cons.mp hz with e | e
    · exact e ▸ hb'
    · have := h.below z e
      omega

theorem AccOk.fill {r : Rule} {p : Inst} {k n cnt : Nat} {acc : List Inst} {b : Nat}
    (h : AccOk r p k cnt acc b) (hk : k ≤ n) (hkc : 0 ≤ r.count → (k : Int) ≤ r.count) :
    FillOk r p n acc.reverse := by
  have hl : acc.reverse.length ≤ k := by rw [List.length_reverse, h.len]; exact h.le
  refine ⟨by omega, ?_, ?_, ?_, ?_, ?_⟩
  · intro h0
    have := hkc h0
    omega
  · intro x hx; exact h.wf x (List.mem_reverse.mp hx)
  · intro x hx; exact h.ge x (List.mem_reverse.mp hx)
  · intro x hx; exact h.un x (List.mem_reverse.mp hx)
  · rw [List.pairwise_reverse]; exact h.desc

theorem fillOk_nil (r : Rule) (p : Inst) (n : Nat) : FillOk r p n [] :=
  ⟨Nat.zero_le _, fun h => h, by simp, by simp, by simp, List.Pairwise.nil⟩

/-! ### moving on by `q` days -/

theorem dayAdv (y m d q : Nat) (hy : y ≤ 2099) (hm1 : 1 ≤ m) (hm2 : m ≤ 12) (hd1 : 1 ≤ d)
    (hd2 : d ≤ getNdom y m) (hq : q < 2147583648) :
    ∃ y' m' d', subCarry ((d + q) % u32 + 1) y m ((d + q) % u32) (getNdom y m) = some (y', m', d', getNdom y' m') ∧
      1 ≤ m' ∧ m' ≤ 12 ∧ 1 ≤ d' ∧ d' ≤ getNdom y' m' ∧ dn y m d + q ≤ dn y' m' d' ∧ y ≤ y' ∧
      ((y' = y ∧ m' = m ∧ d' = d + q) ∨ y * 16 + m < y' * 16 + m') := by
  have hb := getNdom_bounds y m hm1 hm2
  have e : (d + q) % u32 = d + q := by simp only [u32]; omega
  rw [e]
  obtain ⟨y', m', d', he, h1, h2, h3, h4, h5, h6, h7⟩ :=
    subCarry_spec (d + q + 1) y m (d + q) hm1 hm2 (by omega) (by omega) (by omega)
  refine ⟨y', m', d', he, h1, h2, h3, h4, ?_, by omega, h7⟩
  unfold dn at h5 ⊢
  omega

theorem hlyCarry_sub : ∀ (fuel y m d maxd yd maxy : Nat),
    (hlyCarry fuel y m d maxd yd maxy).map (fun t => (t.1, t.2.1, t.2.2.1, t.2.2.2.1)) =
      subCarry fuel y m d maxd := by
  intro fuel
  induction fuel with
  | zero => intros; rfl
  | succ f ih =>
    intro y m d maxd yd maxy
    unfold hlyCarry subCarry
    by_cases h1 : d > maxd
    · simp only [h1, if_true]
      by_cases h2 : m + 1 > 12
      · simp only [h2, if_true]; exact ih _ _ _ _ _ _
      · simp only [h2, if_false]; exact ih _ _ _ _ _ _
    · simp only [h1, if_false]; rfl

theorem hlyCarry_of_sub (fuel y m d maxd yd maxy y' m' d' maxd' : Nat)
    (h : subCarry fuel y m d maxd = some (y', m', d', maxd')) :
    ∃ yd' maxy', hlyCarry fuel y m d maxd yd maxy = some (y', m', d', maxd', yd', maxy') := by
  have hs := hlyCarry_sub fuel y m d maxd yd maxy
  rw [h] at hs
  cases hc : hlyCarry fuel y m d maxd yd maxy with
  | none => rw [hc] at hs; simp at hs
  | some t =>
    rw [hc] at hs
    obtain ⟨a, b, c, e, f, g⟩ := t
    simp only [Option.map_some, Option.some.injEq, Prod.mk.injEq] at hs
    obtain ⟨rfl, rfl, rfl, rfl⟩ := hs
    exact ⟨f, g, rfl⟩

/-! ### the time-of-day enumeration -/

theorem zipIdx_asc (l : List Nat) (h : Asc l) : l.zipIdx.Pairwise (fun a b => a.1 < b.1) := by
  have e := List.zipIdx_map_fst 0 l
  unfold Asc at h
  rw [← e, List.pairwise_map] at h
  exact h

theorem map_mod_id (l : List Nat) (h : ∀ x ∈ l, x < 60) : l.map (· % 256) = l := by
  induction l with
  | nil => rfl
  | cons a t ih =>
    have ha : a % 256 = a := Nat.mod_eq_of_lt (by have := h a (by simp); omega)
    simp only [List.map_cons, ha]
    rw [ih (fun x hx => h x (by simp [hx]))]

theorem enum_field (l : List Nat) (v : Nat) (hl : Asc l ∧ ∀ x ∈ l, x < 60) (hv : v < 60) :
    Asc (if l.isEmpty then [v % 256] else l.map (· % 256)) ∧
      ∀ x ∈ (if l.isEmpty then [v % 256] else l.map (· % 256)), x < 60 := by
  by_cases he : l.isEmpty
  · simp only [he, if_true]
    have : v % 256 = v := Nat.mod_eq_of_lt (by omega)
    rw [this]
    exact ⟨List.pairwise_singleton _ _, by simpa using hv⟩
  · simp only [he]
    rw [map_mod_id l hl.2]
    exact hl

theorem wf_M_lt (p : Inst) (hp : WfInst p) : p.M < 60 := by
  rcases hp.time with ⟨_, h, _⟩ | ⟨_, h, _⟩ <;> omega

theorem wf_S_lt (p : Inst) (hp : WfInst p) : p.S < 60 := by
  rcases hp.time with ⟨_, _, h⟩ | ⟨_, _, h⟩ <;> omega

/-- the enumeration of the sub-daily fillers: they read an all-day seed as midnight before `make_enum` sees it
(`pr.H = H`), so BYMINUTE and BYSECOND expand whatever the kind of the seed -/
abbrev subEnum (p : Inst) (r : Rule) : Enum := makeEnum { p with H := if p.H = allDay then 0 else p.H } r

theorem mkSubCtx_e (r : Rule) (p : Inst) (k : Nat) : (mkSubCtx r p k).e = subEnum p r := rfl

theorem subEnum_eq (r : Rule) (p : Inst) :
    (subEnum p r).M = (if r.M.isEmpty then [p.M % 256] else r.M.map (· % 256)) ∧
    (subEnum p r).S = (if r.S.isEmpty then [p.S % 256] else r.S.map (· % 256)) := by
  have hne : ¬ (if p.H = allDay then 0 else p.H) = allDay := by
    split
    · decide
    · assumption
  unfold subEnum makeEnum
  rw [if_neg hne]
  exact ⟨rfl, rfl⟩

theorem subEnum_M (r : Rule) (p : Inst) (hr : WfRule r) (hp : WfInst p) :
    Asc (subEnum p r).M ∧ ∀ x ∈ (subEnum p r).M, x < 60 := by
  rw [(subEnum_eq r p).1]; exact enum_field r.M p.M hr.mins (wf_M_lt p hp)

theorem subEnum_S (r : Rule) (p : Inst) (hr : WfRule r) (hp : WfInst p) :
    Asc (subEnum p r).S ∧ ∀ x ∈ (subEnum p r).S, x < 60 := by
  rw [(subEnum_eq r p).2]; exact enum_field r.S p.S hr.secs (wf_S_lt p hp)

/-- the order key of an entry `(iM, iS, minute, second)` of `Enum.timesMS` -/
def tk (t : Nat × Nat × Nat × Nat) : Nat := 64 * t.2.2.1 + t.2.2.2

theorem timesMS_sorted (e : Enum) (hM : Asc e.M ∧ ∀ x ∈ e.M, x < 60) (hS : Asc e.S ∧ ∀ x ∈ e.S, x < 60) :
    e.timesMS.Pairwise (fun a b => tk a < tk b) ∧ ∀ t ∈ e.timesMS, t.2.2.1 < 60 ∧ t.2.2.2 < 60 := by
  have hmem : ∀ t ∈ e.timesMS, t.2.2.1 < 60 ∧ t.2.2.2 < 60 := by
    intro t ht
    unfold Enum.timesMS at ht
    obtain ⟨⟨mi, iM⟩, ha, ht⟩ := List.mem_flatMap.mp ht
    obtain ⟨⟨s, iS⟩, hb, rfl⟩ := List.mem_map.mp ht
    exact ⟨hM.2 mi (List.fst_mem_of_mem_zipIdx ha), hS.2 s (List.fst_mem_of_mem_zipIdx hb)⟩
  refine ⟨?_, hmem⟩
  unfold Enum.timesMS
  rw [List.pairwise_flatMap]
  constructor
  · intro ⟨mi, iM⟩ _
    rw [List.pairwise_map]
    refine List.Pairwise.imp ?_ (zipIdx_asc e.S hS.1)
    intro ⟨x, ix⟩ ⟨y, iy⟩ hxy
    simp only [tk]
    simp only at hxy
    omega
  · refine List.Pairwise.imp ?_ (zipIdx_asc e.M hM.1)
    intro ⟨a, ia⟩ ⟨b, ib⟩ hab x hx y hy
    obtain ⟨⟨u, iu⟩, hu, rfl⟩ := List.mem_map.mp hx
    obtain ⟨⟨v, iv⟩, hv, rfl⟩ := List.mem_map.mp hy
    simp only at hab
    have h1 := hS.2 u (List.fst_mem_of_mem_zipIdx hu)
    have h2 := hS.2 v (List.fst_mem_of_mem_zipIdx hv)
    simp only [tk]
    omega

/-! ### the context -/

theorem mkSubCtx_inter (r : Rule) (p : Inst) (k : Nat) (hr : WfRule r) :
    1 ≤ (mkSubCtx r p k).inter ∧ (mkSubCtx r p k).inter < 2147483648 := by
  have e : (mkSubCtx r p k).inter = r.inter % u32 := rfl
  have e2 : r.inter % u32 = r.inter := by
    have := hr.inter
    simp only [u32]; omega
  rw [e, e2]; exact hr.inter

end Echse.Lemmas.RrSubOk
