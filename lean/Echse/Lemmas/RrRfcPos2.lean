/-
  BYSETPOS for the daily and the weekly filler, part 2: if `L` lists the instances of `x`'s period in ascending order
  and `x` is its member number `idx` (from 0), then `SetposOk` is the code's test `pos_match_p(poss, idx + 1, |L|)`.
-/
import Echse.Lemmas.RrRfcPos1
namespace Echse.Lemmas.RrRfc
open Echse.Rrule Echse.Instant Echse.Spec.RrOk Echse.Spec.Cal Echse.Spec.RuleExt Echse.Spec.Rfc
open Echse.Lemmas.RrOkBase

theorem posMatchP_iff (pos : List Int) (i n : Nat) :
    posMatchP pos i n = true ↔ ∃ q ∈ pos, (0 < q ∧ q.toNat = i) ∨ (q < 0 ∧ (-q).toNat + i = n + 1) := by
  unfold posMatchP
  simp only [List.any_eq_true, Bool.or_eq_true, Bool.and_eq_true, decide_eq_true_eq, beq_iff_eq, gt_iff_lt]

theorem setpos_iff (r : Rule) (ds x : Inst) (hpos : r.pos ≠ []) (L : List Inst)
    (hsort : L.Pairwise (fun a b => absOf a < absOf b)) (idx : Nat) (hidx : L[idx]? = some x)
    (hchar : ∀ u, u ∈ L ↔ Instance r ds u ∧ periodOf r.freq u = periodOf r.freq x) :
    SetposOk r ds x ↔ posMatchP r.pos (idx + 1) L.length = true := by
  obtain ⟨hi, hx⟩ := List.getElem?_eq_some_iff.1 hidx
  have hnd := nodup_of_sorted L absOf hsort
  have hbef : ∀ u, u ∈ L.take idx ↔ Instance r ds u ∧ periodOf r.freq u = periodOf r.freq x ∧ absOf u < absOf x := by
    intro u
    rw [sorted_take L absOf hsort idx hi u, hx, hchar u]
    exact ⟨fun ⟨⟨a, b⟩, c⟩ => ⟨a, b, c⟩, fun ⟨a, b, c⟩ => ⟨⟨a, b⟩, c⟩⟩
  have haft : ∀ u, u ∈ L.drop (idx + 1) ↔ Instance r ds u ∧ periodOf r.freq u = periodOf r.freq x ∧ absOf x < absOf u := by
    intro u
    rw [sorted_drop L absOf hsort idx hi u, hx, hchar u]
    exact ⟨fun ⟨⟨a, b⟩, c⟩ => ⟨a, b, c⟩, fun ⟨a, b, c⟩ => ⟨⟨a, b⟩, c⟩⟩
  have nd1 : (L.take idx).Nodup := List.Nodup.sublist (List.take_sublist _ _) hnd
  have nd2 : (L.drop (idx + 1)).Nodup := List.Nodup.sublist (List.drop_sublist _ _) hnd
  have len1 : (L.take idx).length = idx := by rw [List.length_take]; omega
  have len2 : (L.drop (idx + 1)).length = L.length - (idx + 1) := List.length_drop
  rw [posMatchP_iff]
  constructor
  · rintro (h | ⟨q, hq, before, after, hb, nb, ha, na, hcount⟩)
    · exact absurd h hpos
    · have e1 : before.length = idx := by
        rw [← len1]
        exact ((List.perm_ext_iff_of_nodup nb nd1).2 (fun u => by rw [hb u, hbef u])).length_eq
      have e2 : after.length = L.length - (idx + 1) := by
        rw [← len2]
        exact ((List.perm_ext_iff_of_nodup na nd2).2 (fun u => by rw [ha u, haft u])).length_eq
      refine ⟨q, hq, ?_⟩
      rcases hcount with ⟨a, b⟩ | ⟨a, b⟩
      · left; exact ⟨a, by omega⟩
      · right; exact ⟨a, by omega⟩
  · rintro ⟨q, hq, hcount⟩
    right
    refine ⟨q, hq, L.take idx, L.drop (idx + 1), hbef, nd1, haft, nd2, ?_⟩
    rcases hcount with ⟨a, b⟩ | ⟨a, b⟩
    · left; exact ⟨a, by omega⟩
    · right; exact ⟨a, by omega⟩

/-- the instant of a time of the enumeration on the day `y-m-d` -/
def mkz (y m d ms : Nat) (t : Tix) : Inst := ⟨y, m, d, t.2.1, t.2.2.1, t.2.2.2, ms⟩

/-- instants of one day and one kind are ordered as their order keys -/
theorem abs_lt_of_tkey {p a b : Inst} (ha : KindOk p a) (hb : KindOk p b) (hd : dayOf a = dayOf b)
    (hk : tkey a.H a.M a.S < tkey b.H b.M b.S) : absOf a < absOf b := by
  unfold absOf secOf
  rw [hd]
  unfold KindOk allDay at ha hb
  unfold tkey at hk
  unfold allDay
  rcases ha with ⟨a1, a2, a3, a4⟩ | ⟨a1, a2, a3, a4⟩
  · rcases hb with ⟨b1, b2, b3, b4⟩ | ⟨b1, b2, b3, b4⟩
    · rw [a2, b2, a3, b3, a4, b4] at hk; omega
    · exact absurd a1 b1
  · rcases hb with ⟨b1, b2, b3, b4⟩ | ⟨b1, b2, b3, b4⟩
    · exact absurd b1 a1
    · rw [if_neg (by omega), if_neg (by omega)]; omega

/-- the times of one day, in the enumeration's order, ascend -/
theorem dayL_sorted (r : Rule) (p : Inst) (hr : WfRule r) (hp : WfInst p) (y m d : Nat) :
    ((makeEnum p r).timesIx.map (mkz y m d p.ms)).Pairwise (fun a b => absOf a < absOf b) := by
  rw [List.pairwise_map]
  have he : EnumOk (makeEnum p r) := makeEnum_ok r p hr hp
  refine (timesIx_asc he).imp_of_mem ?_
  intro a b ha hb hlt
  obtain ⟨a1, a2, a3⟩ := mem_timesIx ha
  obtain ⟨b1, b2, b3⟩ := mem_timesIx hb
  have ka := (exp_of_enum (x := mkz y m d p.ms a) hr hp a1 a2 a3).1
  have kb := (exp_of_enum (x := mkz y m d p.ms b) hr hp b1 b2 b3).1
  exact abs_lt_of_tkey ka kb rfl hlt

/-- the index the day loop computes is the position in the enumeration -/
theorem dly_idx (e : Enum) (iH iM iS : Nat) :
    (iH * e.M.length + iM) * e.S.length + iS = iH * (e.M.length * e.S.length) + (iM * e.S.length + iS) := by
  rw [Nat.add_mul, Nat.mul_assoc, Nat.add_assoc]

end Echse.Lemmas.RrRfc
