import Echse.Model.Daemon
namespace C12
open Echse.Daemon

/-- smoke (general statements replace this) -/
theorem smoke_limit : mayRun { sid := 0, uid := "j", owner := 1, occ := [], dur := 0, maxSimul := 1, nsim := 1 } = false := by decide

end C12
