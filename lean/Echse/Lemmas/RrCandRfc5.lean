/-
  C01 for the YEARLY / MONTHLY filler models, part 5: the candidate builders of a month read as sets —
  BYMONTHDAY selection (`pickDom_spec`, `mem_fillMlyYmd`), all days of a month on given weekdays (`mem_fillMlyYmdAllD`),
  the counted weekdays of a month (`ymcwGetDom_spec`, `mem_fillMlyYmcw`).
-/
import Echse.Lemmas.RrCandRfc4
namespace Echse.Lemmas.RrCandRfc
open Echse.Rrule Echse.Instant Echse.Spec.RrOk Echse.Lemmas.RrCandOk Echse.Spec.Rfc Echse.Lemmas.RrRfc

/-- BYMONTHDAY value `dd` picks day `d` of a month of `ndim` days: the `dd`-th, or the `|dd|`-th last -/
theorem pickDom_spec (dd : Int) (ndim d : Nat) (hdd : -31 ≤ dd ∧ dd ≤ 31) (hn : ndim ≤ 31) :
    pickDom dd ndim = some d ↔
      1 ≤ d ∧ d ≤ ndim ∧ ((0 < dd ∧ dd = d) ∨ (dd < 0 ∧ (ndim : Int) + 1 + dd = d)) := by
  unfold pickDom toU32 toS32
  have hu : u32 = 4294967296 := rfl
  simp only [hu]
  split
  · simp only [Option.some.injEq]; omega
  split
  · simp only [Option.some.injEq]
    split <;> omega
  · simp only [reduceCtorEq, false_iff]; omega

/-- BYDAY as a limit, as the BYMONTHDAY / BYYEARDAY builders test it: no BYDAY at all, or `dow_limit_p` -/
def DLimB (dow : List Int) (wdMask y m d w : Nat) (mp : Bool) : Prop :=
  wdMask = 0 ∨ dowLimitP dow wdMask y m d w mp = true

theorem dlimB_neg (dow : List Int) (wdMask y m d w : Nat) (mp : Bool) :
    ¬ (wdMask ≠ 0 ∧ (!dowLimitP dow wdMask y m d w mp) = true) ↔ DLimB dow wdMask y m d w mp := by
  unfold DLimB
  cases dowLimitP dow wdMask y m d w mp <;> by_cases c : wdMask = 0 <;> simp [c]

/-- `dow_limit_p` read as a set: a plain weekday of the mask, or a numbered entry that designates the day -/
theorem dowLimitP_iff (dow : List Int) (wdMask y m d w : Nat) (mp : Bool) :
    dowLimitP dow wdMask y m d w mp = true ↔
      bit wdMask w = true ∨ (wdMask % 2 = 1 ∧ ∃ t ∈ dow, t / 8 ≠ 0 ∧ (t % 8).toNat = w ∧
        (if mp = true then ymcwGetDom y m (t / 8) (t % 8).toNat = d
         else (ydToMd y (toS32 (ycwGetYday y (t / 8) (t % 8).toNat))).m = m ∧
              (ydToMd y (toS32 (ycwGetYday y (t / 8) (t % 8).toNat))).d = d)) := by
  unfold dowLimitP
  by_cases c1 : bit wdMask w = true
  · simp only [c1, if_true, true_or]
  · rw [if_neg c1]
    by_cases c2 : wdMask % 2 = 0
    · rw [if_pos c2]
      simp only [c1, false_or, Bool.false_eq_true, false_iff]
      rintro ⟨h, _⟩; omega
    · rw [if_neg c2, List.any_eq_true]
      have c2' : wdMask % 2 = 1 := by omega
      refine Iff.trans ?_ (show _ ↔ _ from ⟨fun h => Or.inr ⟨c2', h⟩, fun h => h.elim (fun h => absurd h c1) (fun h => h.2)⟩)
      apply exists_congr; intro t
      apply and_congr Iff.rfl
      unfold unpackCd
      dsimp only
      by_cases c3 : t / 8 = 0 ∨ (t % 8).toNat ≠ w
      · rw [if_pos c3]
        simp only [Bool.false_eq_true, false_iff]
        rintro ⟨h1, h2, _⟩
        rcases c3 with c3 | c3
        · exact h1 c3
        · exact c3 h2
      · rw [if_neg c3]
        have c4 : t / 8 ≠ 0 ∧ (t % 8).toNat = w := by
          constructor
          · intro h; exact c3 (Or.inl h)
          · apply Classical.byContradiction; intro h; exact c3 (Or.inr h)
        cases mp with
        | true => simp [c4.1, c4.2]
        | false => simp [c4.1, c4.2]

/-- the selection `fill_mly_ymd` makes for one BYMONTHDAY value -/
def ymdSel (dow : List Int) (y mo wdMask : Nat) (dd0 : Int) : Option Nat :=
  match pickDom dd0 (getNdom y mo) with
  | none => none
  | some dd =>
    if wdMask ≠ 0 ∧ !dowLimitP dow wdMask y mo dd (ymdGetWday y mo dd) true then none else some (packCand mo dd)

theorem fillMlyYmd_eq (cand : List Nat) (y mo : Nat) (ds : List Int) (dow : List Int) (wdMask : Nat) :
    fillMlyYmd cand y mo ds dow wdMask = ds.foldl (fun cand a => assO cand (ymdSel dow y mo wdMask a)) cand := by
  unfold fillMlyYmd
  congr 1
  funext cand dd0
  unfold ymdSel
  cases pickDom dd0 (getNdom y mo) with
  | none => rfl
  | some dd =>
    dsimp only
    split <;> rfl

theorem mem_fillMlyYmd (cand : List Nat) (y mo : Nat) (ds : List Int) (dow : List Int) (wdMask : Nat) (x : Nat) :
    x ∈ fillMlyYmd cand y mo ds dow wdMask ↔ x ∈ cand ∨ ∃ dd0 ∈ ds, ∃ d, pickDom dd0 (getNdom y mo) = some d ∧
      DLimB dow wdMask y mo d (ymdGetWday y mo d) true ∧ x = packCand mo d := by
  rw [fillMlyYmd_eq, mem_foldl_assO]
  apply or_congr Iff.rfl
  apply exists_congr; intro dd0
  apply and_congr Iff.rfl
  unfold ymdSel
  cases pickDom dd0 (getNdom y mo) with
  | none => simp
  | some dd =>
    dsimp only
    by_cases c : wdMask ≠ 0 ∧ (!dowLimitP dow wdMask y mo dd (ymdGetWday y mo dd) true) = true
    · rw [if_pos c]
      simp only [reduceCtorEq, Option.some.injEq, false_iff]
      rintro ⟨d, rfl, h, _⟩
      exact (dlimB_neg _ _ _ _ _ _ _).2 h c
    · rw [if_neg c]
      simp only [Option.some.injEq]
      constructor
      · intro h
        exact ⟨dd, rfl, (dlimB_neg _ _ _ _ _ _ _).1 c, h.symm⟩
      · rintro ⟨d, rfl, _, h⟩; exact h.symm

/-- `ymcw_get_dom` in plain terms: the day `d` of the month (of `nd` days, the 1st a `wd1`) that is a `w` and the
`c`-th (`c > 0`) or `|c|`-th last (`c < 0`) such day -/
theorem ymcwGetDom_spec (y m : Nat) (c : Int) (w : Nat) (hm : 1 ≤ m ∧ m ≤ 12) (hc : -54 ≤ c ∧ c ≤ 53 ∧ c ≠ 0)
    (hw : 1 ≤ w ∧ w ≤ 7) (d : Nat) :
    (ymcwGetDom y m c w = d ∧ d ≠ 0) ↔
      (1 ≤ d ∧ d ≤ getNdom y m ∧ wdAdd (ymdGetWday y m 1) (d - 1) = w ∧
        ((0 < c ∧ ((d : Int) - 1) / 7 + 1 = c) ∨ (c < 0 ∧ ((getNdom y m : Int) - d) / 7 + 1 = -c))) := by
  have hcl := ndom_classes y m hm
  have hwd := ymdGetWday_range y m 1
  obtain ⟨mx, h1, h2, h3⟩ := getMcnt_cases y m w _ _ rfl rfl (by omega)
  unfold ymcwGetDom wdAdd
  dsimp only
  rw [h1, h2]
  generalize ymdGetWday y m 1 = wd1 at *
  generalize getNdom y m = nd at *
  generalize mdays m = mdm at *
  have hu : u32 = 4294967296 := rfl
  by_cases g1 : c > (mx : Int)
  · rw [if_pos g1]; split at h3 <;> omega
  rw [if_neg g1]
  have e1 : (if c < 0 then toS32 (toU32 c + mx + 1) else c) = (if c < 0 then c + mx + 1 else c) := by
    split
    · unfold toS32 toU32; simp only [hu]; split <;> omega
    · rfl
  rw [e1]
  generalize hc' : (if c < 0 then c + mx + 1 else c) = c'
  by_cases g2 : c < 0 ∧ c' ≤ 0
  · rw [if_pos g2]; split at h3 <;> omega
  rw [if_neg g2]
  have hc1 : 1 ≤ c' ∧ c' ≤ mx := by split at hc' <;> omega
  have e2 : toU32 (c' - 1) = (c' - 1).toNat := by unfold toU32; rw [hu]; omega
  rw [e2]
  have e3 : (w + 7 + u32 - wd1) % u32 % 7 = (w + 7 - wd1) % 7 := by rw [hu]; omega
  rw [e3]
  have e4 : (1 + (w + 7 - wd1) % 7 + (c' - 1).toNat * 7) % u32 = 1 + (w + 7 - wd1) % 7 + (c' - 1).toNat * 7 := by
    rw [hu]; omega
  rw [e4]
  generalize ht : 1 + (w + 7 - wd1) % 7 + (c' - 1).toNat * 7 = tgtd
  have hmx : (mx : Int) = ((nd : Int) - (1 + (w + 7 - wd1) % 7 : Nat)) / 7 + 1 := by
    split at h3 <;> omega
  generalize hoff : 1 + (w + 7 - wd1) % 7 = off at *
  have hoff' : 1 ≤ off ∧ off ≤ 7 ∧ (wd1 - 1 + (off - 1)) % 7 + 1 = w := by omega
  clear h3 e3 e4 h1 h2
  have htl : tgtd ≤ nd := by omega
  have e5 : (if tgtd > mdm then if tgtd = 29 ∧ y % 4 = 0 then tgtd else (tgtd + u32 - 7) % u32 else tgtd) = tgtd := by
    split
    · split
      · rfl
      · omega
    · rfl
  rw [e5]
  by_cases cn : c < 0
  · rw [if_pos cn] at hc'
    constructor
    · rintro ⟨rfl, _⟩
      refine ⟨by omega, htl, by omega, Or.inr ⟨cn, by omega⟩⟩
    · rintro ⟨a1, a2, a3, a4 | a4⟩
      · omega
      · constructor <;> omega
  · rw [if_neg cn] at hc'
    constructor
    · rintro ⟨rfl, _⟩
      refine ⟨by omega, htl, by omega, Or.inl ⟨by omega, by omega⟩⟩
    · rintro ⟨a1, a2, a3, a4 | a4⟩
      · constructor <;> omega
      · omega
/-- a builder that walks `n` days carrying the weekday along -/
theorem foldl_wd (f : Nat → Nat → Option Nat) (n : Nat) (c : List Nat) (w : Nat) (hw : 1 ≤ w ∧ w ≤ 7) :
    ((List.range n).foldl (fun (st : List Nat × Nat) i => (assO st.1 (f i st.2), incWd st.2)) (c, w)).2 = wdAdd w n ∧
    ∀ x, x ∈ ((List.range n).foldl (fun (st : List Nat × Nat) i => (assO st.1 (f i st.2), incWd st.2)) (c, w)).1 ↔
      x ∈ c ∨ ∃ i < n, f i (wdAdd w i) = some x := by
  induction n with
  | zero =>
    refine ⟨(wdAdd_zero w hw).symm, ?_⟩
    intro x; simp
  | succ n ih =>
    rw [List.range_succ, List.foldl_append, List.foldl_cons, List.foldl_nil]
    obtain ⟨ih1, ih2⟩ := ih
    generalize (List.range n).foldl (fun (st : List Nat × Nat) i => (assO st.1 (f i st.2), incWd st.2)) (c, w) = st at *
    refine ⟨?_, ?_⟩
    · show incWd st.2 = _
      rw [ih1, wdAdd_succ]
    · intro x
      show x ∈ assO st.1 (f n st.2) ↔ _
      rw [mem_assO, ih2, ih1]
      constructor
      · rintro ((h | ⟨i, hi, h⟩) | h)
        · exact Or.inl h
        · exact Or.inr ⟨i, by omega, h⟩
        · exact Or.inr ⟨n, by omega, h⟩
      · rintro (h | ⟨i, hi, h⟩)
        · exact Or.inl (Or.inl h)
        · by_cases e : i = n
          · subst e; exact Or.inr h
          · exact Or.inl (Or.inr ⟨i, by omega, h⟩)

/-- the selection `fill_mly_ymd_all_d` makes for day `i + 1`, a `w` -/
def alldSel (mo wdMask i w : Nat) : Option Nat :=
  if wdMask ≠ 0 ∧ (!bit wdMask w) = true then none else some (packCand mo (i + 1))

theorem mem_fillMlyYmdAllD (cand : List Nat) (y mo wdMask : Nat) (x : Nat) :
    x ∈ fillMlyYmdAllD cand y mo wdMask ↔ x ∈ cand ∨ ∃ i < getNdom y mo,
      (wdMask = 0 ∨ bit wdMask (wdAdd (ymdGetWday y mo 1) i) = true) ∧ x = packCand mo (i + 1) := by
  unfold fillMlyYmdAllD
  dsimp only
  have e : (fun (st : List Nat × Nat) (i : Nat) =>
      match st with
      | (cand, w) => ((if wdMask ≠ 0 ∧ (!bit wdMask w) = true then cand else assC cand (packCand mo (i + 1))), incWd w)) =
    (fun (st : List Nat × Nat) i => (assO st.1 (alldSel mo wdMask i st.2), incWd st.2)) := by
    funext st i
    obtain ⟨c, w⟩ := st
    unfold alldSel
    dsimp only
    split <;> rfl
  rw [e]
  refine ((foldl_wd (alldSel mo wdMask) (getNdom y mo) cand _ (ymdGetWday_range y mo 1)).2 x).trans ?_
  apply or_congr Iff.rfl
  apply exists_congr; intro i
  apply and_congr Iff.rfl
  unfold alldSel
  by_cases c : wdMask ≠ 0 ∧ (!bit wdMask (wdAdd (ymdGetWday y mo 1) i)) = true
  · rw [if_pos c]
    simp only [reduceCtorEq, false_iff]
    rintro ⟨h | h, _⟩
    · exact c.1 h
    · rw [h] at c; exact absurd c.2 (by decide)
  · rw [if_neg c]
    simp only [Option.some.injEq]
    constructor
    · intro h
      refine ⟨?_, h.symm⟩
      by_cases c1 : wdMask = 0
      · exact Or.inl c1
      · right
        cases hb : bit wdMask (wdAdd (ymdGetWday y mo 1) i) with
        | true => rfl
        | false => exact absurd ⟨c1, by rw [hb]; rfl⟩ c
    · rintro ⟨_, h⟩; exact h.symm

/-- the selection `fill_mly_ymcw` makes for one BYDAY entry -/
def ymcwSel (y m : Nat) (t : Int) : Option Nat :=
  if t / 8 = 0 then none else
  if ymcwGetDom y m (t / 8) (t % 8).toNat = 0 then none else some (packCand m (ymcwGetDom y m (t / 8) (t % 8).toNat))

theorem fillMlyYmcw_eq (cand : List Nat) (y m : Nat) (dow : List Int) :
    fillMlyYmcw cand y m dow = dow.foldl (fun cand a => assO cand (ymcwSel y m a)) cand := by
  unfold fillMlyYmcw
  congr 1
  funext cand t
  unfold ymcwSel unpackCd
  dsimp only
  split
  · rfl
  · split <;> rfl

theorem mem_fillMlyYmcw (cand : List Nat) (y m : Nat) (dow : List Int) (x : Nat) :
    x ∈ fillMlyYmcw cand y m dow ↔ x ∈ cand ∨ ∃ t ∈ dow, t / 8 ≠ 0 ∧
      ymcwGetDom y m (t / 8) (t % 8).toNat ≠ 0 ∧ x = packCand m (ymcwGetDom y m (t / 8) (t % 8).toNat) := by
  rw [fillMlyYmcw_eq, mem_foldl_assO]
  apply or_congr Iff.rfl
  apply exists_congr; intro t
  apply and_congr Iff.rfl
  unfold ymcwSel
  by_cases c1 : t / 8 = 0
  · rw [if_pos c1]; simp [c1]
  · rw [if_neg c1]
    by_cases c2 : ymcwGetDom y m (t / 8) (t % 8).toNat = 0
    · rw [if_pos c2]; simp [c2]
    · rw [if_neg c2]
      simp only [Option.some.injEq]
      constructor
      · intro h; exact ⟨c1, c2, h.symm⟩
      · rintro ⟨_, _, h⟩; exact h.symm
end Echse.Lemmas.RrCandRfc
