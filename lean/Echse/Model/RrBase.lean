/-
  Shared base of the recurrence-rule filler models (src/evrrul.c `rrul_fill_*`, src/evical.c `refill`):
  the parsed rule (`struct rrulsp_s`), the time-of-day enumeration (`make_enum`, the ENUM_* macros) and the
  instant comparison the fillers use.

  Rule parts are given as the lists their bitint iterators yield (property C19: the assigned values, non-negative
  ones ascending, then negative ones descending).  Only SCALE=GREGORIAN is modelled (scale conversions are the
  subject of C15); an instant is a plain `Inst` without scale or zone bits.
-/
import Echse.Model.Instant
import Echse.Model.Rrule
namespace Echse.Rrule
open Echse.Instant

structure Rule where
  freq : Nat := 0            -- FREQ_NONE 0, YEARLY 1, MONTHLY 2, WEEKLY 3, DAILY 4, HOURLY 5, MINUTELY 6, SECONDLY 7
  scale : Nat := 0
  count : Int := -1          -- C int; -1 = unlimited
  inter : Nat := 1
  untl : Inst := Inst.unpack (2^64 - 1)
  shift : Int := 0
  dom : List Int := []
  doy : List Int := []
  dow : List Int := []       -- MO..SU = 1..7, nMO.. = 7n + wd, negative counts negated
  mon : List Nat := []
  wk : List Int := []
  H : List Nat := []
  M : List Nat := []
  S : List Nat := []
  pos : List Int := []
  easter : List Int := []
deriving Repr

/-- `(unsigned int)rr->count < nti` … `nti = rr->count`: the number of results a filler may produce;
`none` = return nothing at once (COUNT used up) -/
def capNti (r : Rule) (nti : Nat) : Option Nat :=
  let cu : Nat := (r.count % (u32 : Int)).toNat
  if cu < nti then (if cu = 0 then none else some cu) else some nti

structure Enum where
  H : List Nat
  M : List Nat
  S : List Nat
deriving Repr

/-- `make_enum`: the BYHOUR / BYMINUTE / BYSECOND values (as uint8_t), each defaulting to the proto's field -/
def makeEnum (proto : Inst) (r : Rule) : Enum :=
  -- BYHOUR, BYMINUTE and BYSECOND are ignored next to a DATE value (RFC 5545, 3.3.10): `echs_instant_all_day_p(proto)`
  if proto.H = allDay then { H := [proto.H % 256], M := [proto.M % 256], S := [proto.S % 256] } else
  { H := if r.H.isEmpty then [proto.H % 256] else r.H.map (· % 256)
    M := if r.M.isEmpty then [proto.M % 256] else r.M.map (· % 256)
    S := if r.S.isEmpty then [proto.S % 256] else r.S.map (· % 256) }

/-- the order in which `for (ENUM_INIT; ENUM_COND; ENUM_ITER)` visits the triples: hours outermost, seconds innermost -/
def Enum.times (e : Enum) : List (Nat × Nat × Nat) :=
  e.H.flatMap fun h => e.M.flatMap fun m => e.S.map fun s => (h, m, s)

/-- an instant literal as the fillers build it: `(echs_instant_t){.y, .m, .d, .H, .M, .S, .ms}` (bit fields truncate) -/
def mkInst (y m d H M S ms : Nat) : Inst :=
  { y := y % 65536, m := m % 256, d := d % 256, H := H % 256, M := M % 256, S := S % 64, ms := ms % 1024 }

/-- weekday mask the yearly / monthly / daily / sub-daily fillers build from BYDAY: bit w for plain weekdays,
bit 0 for any counted weekday -/
def wdMaskOf (dow : List Int) : Nat :=
  dow.foldl (fun (m : Nat) (t : Int) => if 1 ≤ t ∧ t ≤ 7 then m ||| (1 <<< t.toNat) else m ||| 1) 0 % 256

def bit (mask k : Nat) : Bool := (mask >>> k) % 2 = 1

end Echse.Rrule
