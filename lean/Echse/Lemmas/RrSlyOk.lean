/-
  `fillSly` (FREQ=SECONDLY): the fuel never runs out and the results are what `FillOk` asks for.
  There is no `x < proto` test in this filler: that no result lies before the seed follows from the
  first candidate being the seed's own time and the candidates only moving forward.
-/
import Echse.Lemmas.RrSubOk
namespace Echse.Lemmas.RrSlyOk
open Echse.Rrule Echse.Instant Echse.Spec.RrOk Echse.Lemmas.RrSubOk

/-! ### the reach loop -/

theorem slyReach_some (c : SubCtx) : ∀ (fuel k tmp : Nat), 86400 ≤ fuel + k → k < 86400 →
    (slyReach c fuel k tmp).isSome := by
  intro fuel
  induction fuel with
  | zero => intro k tmp h1 h2; omega
  | succ f ih =>
    intro k tmp h1 h2
    unfold slyReach
    by_cases hA : (c.HMask &&& shl1 (tmp / 3600)) ≠ 0 ∧ (c.MMask &&& shl1q (tmp / 60 % 60)) ≠ 0 ∧
        (c.SMask &&& shl1q (tmp % 60)) ≠ 0
    · rw [if_pos hA]; rfl
    · rw [if_neg hA]
      by_cases hB : k + 1 ≥ 86400
      · rw [if_pos hB]; rfl
      · rw [if_neg hB]
        exact ih _ _ (by omega) (by omega)

/-! ### one round of the loop, cut into body and increment -/

/-- 2559-2606: the body proper, `(hit, inc)` -/
def slyBody (c : SubCtx) (y m d H M S w maxd : Nat) : Bool × Nat :=
  let pastD := interPast ((86400 + u32 - ((H * 60 + M) * 60 + S) % u32) % u32) c.inter
  if c.dayOut w m d maxd then (false, pastD)
  else if (c.HMask &&& shl1 H) = 0 then
    (false, interPast ((3600 + u32 - (M * 60 + S) % u32) % u32) c.inter)
  else if (c.MMask &&& shl1q M) = 0 then
    (false, interPast ((60 + u32 - S) % u32) c.inter)
  else if (c.SMask &&& shl1q S) = 0 then (false, c.inter)
  else if !c.r.doy.isEmpty && !doyHit c.r.doy (ymdGetYd y m d) (maxyOf y) then (false, pastD)
  else (true, c.inter)

/-- 2513-2536: the loop's increment expression, entered with `S + inc` -/
def slyStep (c : SubCtx) (fuel y m d H M S w maxd cnt : Nat) (acc : List Inst) : Option (List Inst) :=
  if S ≥ 60 then
    let M := (M + S / 60) % u32
    let S := S % 60
    if M ≥ 60 then
      let H := (H + M / 60) % u32
      let M := M % 60
      if H ≥ 24 then
        let q := H / 24
        let w := wrapWd ((w + q) % u32)
        match subCarry ((d + q) % u32 + 1) y m ((d + q) % u32) maxd with
        | none => none
        | some (y, m, d, maxd) => slyLoop c fuel y m d (H % 24) M S w maxd cnt acc
      else slyLoop c fuel y m d H M S w maxd cnt acc
    else slyLoop c fuel y m d H M S w maxd cnt acc
  else slyLoop c fuel y m d H M S w maxd cnt acc

theorem slyLoop_succ (c : SubCtx) (fuel y m d H M S w maxd cnt : Nat) (acc : List Inst) :
    slyLoop c (fuel + 1) y m d H M S w maxd cnt acc =
      if ¬ cnt < c.nti then some acc else
      if y > subMaxYear then some acc
      else if ltP c.r.untl (mkInst y m d H M S c.proto.ms) then some acc
      else
        match slyBody c y m d H M S w maxd with
        | (hit, inc) =>
          slyStep c fuel y m d H M ((S + inc) % u32) w maxd (if hit then cnt + 1 else cnt)
            (if hit then mkInst y m d H M S c.proto.ms :: acc else acc) := by
  rfl

theorem slyBody_inc (c : SubCtx) (hi1 : 1 ≤ c.inter) (hi2 : c.inter < 2147483648)
    (y m d H M S w maxd : Nat) (hH : H < 24) (hM : M < 60) (hS : S < 60) :
    1 ≤ (slyBody c y m d H M S w maxd).2 ∧ (slyBody c y m d H M S w maxd).2 < 2147483648 + 86400 := by
  have hpastD : 1 ≤ interPast ((86400 + u32 - ((H * 60 + M) * 60 + S) % u32) % u32) c.inter ∧
      interPast ((86400 + u32 - ((H * 60 + M) * 60 + S) % u32) % u32) c.inter < 2147483648 + 86400 := by
    have e : (86400 + u32 - ((H * 60 + M) * 60 + S) % u32) % u32 = 86400 - ((H * 60 + M) * 60 + S) := by
      simp only [u32]; omega
    rw [e]
    have := interPast_bounds (86400 - ((H * 60 + M) * 60 + S)) c.inter hi1 hi2 (by omega) (by omega)
    omega
  have hpastH : 1 ≤ interPast ((3600 + u32 - (M * 60 + S) % u32) % u32) c.inter ∧
      interPast ((3600 + u32 - (M * 60 + S) % u32) % u32) c.inter < 2147483648 + 86400 := by
    have e : (3600 + u32 - (M * 60 + S) % u32) % u32 = 3600 - (M * 60 + S) := by simp only [u32]; omega
    rw [e]
    have := interPast_bounds (3600 - (M * 60 + S)) c.inter hi1 hi2 (by omega) (by omega)
    omega
  have hpastM : 1 ≤ interPast ((60 + u32 - S) % u32) c.inter ∧
      interPast ((60 + u32 - S) % u32) c.inter < 2147483648 + 86400 := by
    have e : (60 + u32 - S) % u32 = 60 - S := by simp only [u32]; omega
    rw [e]
    have := interPast_bounds (60 - S) c.inter hi1 hi2 (by omega) (by omega)
    omega
  have hint : 1 ≤ c.inter ∧ c.inter < 2147483648 + 86400 := ⟨hi1, by omega⟩
  simp only [slyBody]
  split
  · exact hpastD
  · split
    · exact hpastH
    · split
      · exact hpastM
      · split
        · exact hint
        · split
          · exact hpastD
          · exact hint

/-! ### the loop -/

theorem slyLoop_spec (c : SubCtx) (hi1 : 1 ≤ c.inter) (hi2 : c.inter < 2147483648) (hms : c.proto.ms < 1024) :
    ∀ (fuel y m d H M S w cnt : Nat) (acc : List Inst), 1601 ≤ y → 1 ≤ m → m ≤ 12 → 1 ≤ d →
      d ≤ getNdom y m → H < 24 → M < 60 → S < 60 → AccOk c.r c.proto c.nti cnt acc (ck y m d H M S) →
      bk c.proto ≤ msk c.proto.ms + ck y m d H M S →
      1 ≤ fuel → 66407126401 ≤ fuel + 86400 * dn y m d + 3600 * H + 60 * M + S →
      ∃ acc' cnt' b, slyLoop c fuel y m d H M S w (getNdom y m) cnt acc = some acc' ∧
        AccOk c.r c.proto c.nti cnt' acc' b := by
  intro fuel
  induction fuel with
  | zero => intros; omega
  | succ f ih =>
    intro y m d H M S w cnt acc hy1 hm1 hm2 hd1 hd2 hH hM hS h hge _ hfu
    have hnb := getNdom_bounds y m hm1 hm2
    rw [slyLoop_succ]
    by_cases hA : ¬ cnt < c.nti
    · rw [if_pos hA]; exact ⟨acc, cnt, _, rfl, h⟩
    rw [if_neg hA]
    by_cases hY : y > subMaxYear
    · rw [if_pos hY]; exact ⟨acc, cnt, _, rfl, h⟩
    rw [if_neg hY]
    by_cases hU : ltP c.r.untl (mkInst y m d H M S c.proto.ms) = true
    · rw [if_pos hU]; exact ⟨acc, cnt, _, rfl, h⟩
    rw [if_neg hU]
    have hy2 : y ≤ 2099 := by simp only [subMaxYear] at hY; omega
    have hB := slyBody_inc c hi1 hi2 y m d H M S w (getNdom y m) hH hM hS
    generalize slyBody c y m d H M S w (getNdom y m) = bd at hB ⊢
    obtain ⟨hit, inc⟩ := bd
    obtain ⟨hB2, hB3⟩ := hB
    simp only at hB2 hB3 ⊢
    have hk := bk_mkInst y m d H M S c.proto.ms (by omega) hm2 (by omega) hH hM hS
    have hml := msk_lt c.proto.ms
    have hB1 : AccOk c.r c.proto c.nti (if hit = true then cnt + 1 else cnt)
        (if hit = true then mkInst y m d H M S c.proto.ms :: acc else acc) (ck y m d H M (S + 1)) := by
      cases hit with
      | false => refine h.mono ?_; simp only [ck]; omega
      | true =>
        simp only [if_true]
        refine h.push (by omega) (wf_mkInst y m d H M S _ hy1 (by omega) hm1 hm2 hd1 hd2 hH hM hS hms)
          ?_ (by simpa using hU) (by omega) ?_
        · rw [ltP_eq]; exact decide_eq_false (by omega)
        · rw [hk]; simp only [ck]; omega
    generalize (if hit = true then cnt + 1 else cnt) = cnt1 at hB1 ⊢
    generalize (if hit = true then mkInst y m d H M S c.proto.ms :: acc else acc) = acc1 at hB1 ⊢
    clear hk
    have e : (S + inc) % u32 = S + inc := by simp only [u32]; omega
    rw [e]
    clear e
    have eM : (M + (S + inc) / 60) % u32 = M + (S + inc) / 60 := by simp only [u32]; omega
    have eH : (H + (M + (S + inc) / 60) / 60) % u32 = H + (M + (S + inc) / 60) / 60 := by
      simp only [u32]; omega
    have hP : 86400 * dn y m d + 3600 * H + 60 * M + S ≤ 66407126399 := by
      have hcum := cum_le y m hm2
      unfold dn; omega
    simp only [slyStep, eM, eH]
    clear eM eH
    have hstep : ck y m d H M S ≤ ck y m d H M (S + 1) := by simp only [ck]; omega
    by_cases hC : S + inc ≥ 60
    · rw [if_pos hC]
      by_cases hD : M + (S + inc) / 60 ≥ 60
      · rw [if_pos hD]
        by_cases hE : H + (M + (S + inc) / 60) / 60 ≥ 24
        · rw [if_pos hE]
          obtain ⟨y', m', d', he, h1, h2, h3, h4, h5, h6, h7⟩ :=
            dayAdv y m d ((H + (M + (S + inc) / 60) / 60) / 24) hy2 hm1 hm2 hd1 hd2 (by omega)
          simp only [he]
          have hnb' := getNdom_bounds y' m' h1 h2
          have hck : ck y m d H M (S + 1) ≤ ck y' m' d' ((H + (M + (S + inc) / 60) / 60) % 24)
              ((M + (S + inc) / 60) % 60) ((S + inc) % 60) := by
            simp only [ck]; omega
          refine ih y' m' d' ((H + (M + (S + inc) / 60) / 60) % 24) ((M + (S + inc) / 60) % 60) ((S + inc) % 60)
            _ cnt1 acc1 (by omega) h1 h2 h3 h4 (by omega) (by omega) (by omega) (hB1.mono hck) ?_ (by omega)
            (by omega)
          omega
        · rw [if_neg hE]
          have hck : ck y m d H M (S + 1) ≤ ck y m d (H + (M + (S + inc) / 60) / 60)
              ((M + (S + inc) / 60) % 60) ((S + inc) % 60) := by
            simp only [ck]; omega
          refine ih y m d (H + (M + (S + inc) / 60) / 60) ((M + (S + inc) / 60) % 60) ((S + inc) % 60)
            w cnt1 acc1 hy1 hm1 hm2 hd1 hd2 (by omega) (by omega) (by omega) (hB1.mono hck) ?_ (by omega)
            (by omega)
          omega
      · rw [if_neg hD]
        have hck : ck y m d H M (S + 1) ≤ ck y m d H (M + (S + inc) / 60) ((S + inc) % 60) := by
          simp only [ck]; omega
        refine ih y m d H (M + (S + inc) / 60) ((S + inc) % 60) w cnt1 acc1 hy1 hm1 hm2 hd1 hd2 hH (by omega)
          (by omega) (hB1.mono hck) ?_ (by omega) (by omega)
        omega
    · rw [if_neg hC]
      have hck : ck y m d H M (S + 1) ≤ ck y m d H M (S + inc) := by simp only [ck]; omega
      refine ih y m d H M (S + inc) w cnt1 acc1 hy1 hm1 hm2 hd1 hd2 hH hM (by omega) (hB1.mono hck) ?_
        (by omega) (by omega)
      omega

/-! ### the filler -/

theorem fillSly_spec (r : Rule) (p : Inst) (n : Nat) (hr : WfRule r) (hp : WfInst p) (hn : n ≤ 64) :
    ∃ l, fillSly r p n = some l ∧ FillOk r p n l := by
  have hnil : ∃ l, some ([] : List Inst) = some l ∧ FillOk r p n l := ⟨[], rfl, fillOk_nil r p n⟩
  obtain ⟨hy1, hy2⟩ := hp.year
  obtain ⟨hm1, hm2⟩ := hp.month
  obtain ⟨hd1, hd2⟩ := hp.day
  have hnb := getNdom_bounds p.y p.m hm1 hm2
  unfold fillSly
  cases hcap : capNti r n with
  | none => exact hnil
  | some k =>
    obtain ⟨hk1, hk2⟩ := capNti_le r n k hr.count hn hcap
    simp only []
    rw [if_neg (by simp [hr.scale])]
    have hHMS : ∃ H0 M0 S0, (if p.H = allDay then (0, 0, 0) else (p.H, p.M, p.S)) = (H0, M0, S0) ∧
        H0 < 24 ∧ M0 < 60 ∧ S0 < 60 ∧ bk p ≤ msk p.ms + ck p.y p.m p.d H0 M0 S0 := by
      rcases bk_wf p hp with ⟨h, hb⟩ | ⟨h, hb⟩
      · rw [if_pos h]
        refine ⟨0, 0, 0, rfl, by omega, by omega, by omega, ?_⟩
        rw [hb]; simp only [ck]; omega
      · have : ¬ p.H = allDay := by simp only [allDay]; omega
        rw [if_neg this]
        exact ⟨p.H, p.M, p.S, rfl, h, wf_M_lt p hp, wf_S_lt p hp, by omega⟩
    obtain ⟨H0, M0, S0, hHMS, hH, hM, hS, hge⟩ := hHMS
    rw [hHMS]
    simp only []
    rw [if_neg (by omega)]
    have hi := mkSubCtx_inter r p k hr
    have e2 : r.inter % u32 = r.inter := by
      have := hr.inter
      simp only [u32]; omega
    rw [if_neg (by rw [e2]; have := hr.inter; omega)]
    split
    · exact hnil
    · have hsome := slyReach_some (mkSubCtx r p k) 86400 0 ((H0 * 60 + M0) * 60 + S0) (by omega) (by omega)
      cases hre : slyReach (mkSubCtx r p k) 86400 0 ((H0 * 60 + M0) * 60 + S0) with
      | none => rw [hre] at hsome; simp at hsome
      | some b =>
        cases b with
        | false => exact hnil
        | true =>
          simp only []
          obtain ⟨acc', cnt', b, he, hacc⟩ := slyLoop_spec (mkSubCtx r p k) hi.1 hi.2 hp.ms (slyFuel p.y)
            p.y p.m p.d H0 M0 S0 (ymdGetWday p.y p.m p.d) 0 [] hy1 hm1 hm2 hd1 hd2 hH hM hS
            (AccOk.nil _ _ _ _) hge (by unfold slyFuel; omega) (by unfold slyFuel dn; omega)
          rw [he]
          exact ⟨acc'.reverse, rfl, hacc.fill hk1 hk2⟩

theorem fillSly_total (r : Rule) (p : Inst) (n : Nat) (hr : WfRule r) (hp : WfInst p) (hn : n ≤ 64) :
    (fillSly r p n).isSome := by
  obtain ⟨l, h, _⟩ := fillSly_spec r p n hr hp hn
  rw [h]; rfl

theorem fillSly_ok (r : Rule) (p : Inst) (n : Nat) (l : List Inst) (hr : WfRule r) (hp : WfInst p) (hn : n ≤ 64)
    (h : fillSly r p n = some l) : FillOk r p n l := by
  obtain ⟨l', h', hok⟩ := fillSly_spec r p n hr hp hn
  rw [h] at h'
  cases h'
  exact hok

/-! ### the pieces of `FillOk`, one by one -/

section pieces
variable (r : Rule) (p : Inst) (n : Nat) (l : List Inst) (hr : WfRule r) (hp : WfInst p) (hn : n ≤ 64)
  (h : fillSly r p n = some l)
include hr hp hn h

theorem fillSly_len_nti : l.length ≤ n := (fillSly_ok r p n l hr hp hn h).len_nti
theorem fillSly_len_count : 0 ≤ r.count → (l.length : Int) ≤ r.count := (fillSly_ok r p n l hr hp hn h).len_count
theorem fillSly_le_until : ∀ x ∈ l, ltP r.untl x = false := (fillSly_ok r p n l hr hp hn h).le_until
theorem fillSly_ge_proto : ∀ x ∈ l, ltP x p = false := (fillSly_ok r p n l hr hp hn h).ge_proto
theorem fillSly_wf : ∀ x ∈ l, WfInst x := (fillSly_ok r p n l hr hp hn h).wf
theorem fillSly_ascending : l.Pairwise (fun a b => ltP a b = true) := (fillSly_ok r p n l hr hp hn h).ascending

end pieces

end Echse.Lemmas.RrSlyOk
