/* line-protocol harness for the stream layer (C03 mux, C02 filter, later C01/C16 rule streams).
 * #includes evical.c of the scratch copy so that its static constructors are reachable;
 * linked against the other library objects. */
#include "evical.c"
#include <inttypes.h>

/* tree:  L n ev…  |  M k tree…  |  F tree tree      ev = hex16:oid:dur */
static char **tk;
static int ntk, ptk;

static echs_evstrm_t parse_tree(void)
{
	if (ptk >= ntk) return NULL;
	const char *t = tk[ptk++];
	if (!strcmp(t, "L")) {
		size_t n = strtoul(tk[ptk++], NULL, 10);
		echs_event_t *ev = calloc(n + 1, sizeof(*ev));
		for (size_t i = 0; i < n; i++) {
			char *s = tk[ptk++];
			char *c1 = strchr(s, ':');
			char *c2 = c1 ? strchr(c1 + 1, ':') : NULL;
			ev[i].from.u = strtoull(s, NULL, 16);
			ev[i].oid = c1 ? strtoul(c1 + 1, NULL, 10) : 0;
			ev[i].dur.d = c2 ? strtoll(c2 + 1, NULL, 10) : 0;
		}
		echs_evstrm_t r = n ? make_evical_vevent(ev, n) : NULL;
		free(ev);
		return r;
	} else if (!strcmp(t, "M")) {
		size_t k = strtoul(tk[ptk++], NULL, 10);
		echs_evstrm_t *s = calloc(k + 1, sizeof(*s));
		for (size_t i = 0; i < k; i++) s[i] = parse_tree();
		echs_evstrm_t r = echs_evstrm_vmux(s, k);
		free(s);
		return r;
	} else if (!strcmp(t, "F")) {
		echs_evstrm_t e = parse_tree();
		echs_evstrm_t x = parse_tree();
		return make_evfilt(e, x);
	}
	return NULL;
}

int main(void)
{
	static char line[1 << 22];
	static char *toks[1 << 18];
	setvbuf(stdout, NULL, _IOLBF, 0);
	while (fgets(line, sizeof(line), stdin)) {
		line[strcspn(line, "\r\n")] = 0;
		ntk = 0;
		for (char *p = strtok(line, " "); p && ntk < (1 << 18); p = strtok(NULL, " ")) toks[ntk++] = p;
		if (ntk == 0) { puts("bad-op"); continue; }
		if (!strcmp(toks[0], "m.run")) {
			int hash = 1;
			while (hash < ntk && strcmp(toks[hash], "#")) hash++;
			tk = toks; ptk = 1;
			int save = ntk; ntk = hash;
			echs_evstrm_t s = parse_tree();
			ntk = save;
			int first = 1;
			for (int j = hash + 1; j < ntk; j++) {
				for (const char *c = toks[j]; *c; c++) {
					echs_event_t e = {0};
					if (s != NULL) e = (*c == 'p') ? echs_evstrm_pop(s) : echs_evstrm_next(s);
					if (echs_event_0_p(e)) printf("%s-", first ? "" : " ");
					else printf("%s%016" PRIx64 ":%lu", first ? "" : " ", e.from.u, (unsigned long)e.oid);
					first = 0;
				}
			}
			putchar('\n');
			if (s != NULL) free_echs_evstrm(s);
		} else {
			puts("bad-op");
		}
	}
	return 0;
}
