/-
  C01 lemmas: BYWEEKNO of the YEARLY filler (`fill_yly_ywd`, `ywd_to_md`) against the RFC's ISO week numbering.
-/
import Echse.Lemmas.RrMlyRfc1
import Echse.Lemmas.RuleExt18
namespace Echse.Lemmas.RrCandRfc
open Echse.Rrule Echse.Instant Echse.Spec.RrOk Echse.Lemmas.RrCandOk Echse.Spec.Rfc Echse.Lemmas.RrRfc
open Echse.Spec.Cal Echse.Spec.RuleExt Echse.Lemmas.RrMlyRfc
open Echse.Lemmas.RrOkBase Echse.Gen

def jan01Chk (i : Nat) : Bool :=
  getJan01Wday (1901 + i) == wdayOf (days (1901 + i) 1 1) && ((getIsowk (1901 + i) : Int) == isoWeeks (1901 + i))

theorem jan01Chk_all : ∀ i, i < 199 → jan01Chk i = true := by decide +kernel

theorem jan01_wday (y : Nat) (h1 : 1901 ≤ y) (h2 : y ≤ 2099) : getJan01Wday y = wdayOf (days y 1 1) := by
  have h := jan01Chk_all (y - 1901) (by omega)
  have e : 1901 + (y - 1901) = y := by omega
  unfold jan01Chk at h
  rw [e] at h
  simp only [Bool.and_eq_true, beq_iff_eq] at h
  exact h.1

theorem getIsowk_spec (y : Nat) (h1 : 1901 ≤ y) (h2 : y ≤ 2099) : (getIsowk y : Int) = isoWeeks y := by
  have h := jan01Chk_all (y - 1901) (by omega)
  have e : 1901 + (y - 1901) = y := by omega
  unfold jan01Chk at h
  rw [e] at h
  simp only [Bool.and_eq_true, beq_iff_eq] at h
  exact h.2

/-- what one (week, weekday, year offset) triple of `fill_yly_ywd` adds -/
def ywdSel (y : Nat) (wk dc of : Int) : Option Nat :=
  if (ywdToMd y of wk dc.toNat).m = 0 then none
  else some (packCand (ywdToMd y of wk dc.toNat).m (ywdToMd y of wk dc.toNat).d)

theorem fillYlyYwd_eq (cand : List Nat) (y : Nat) (woy dow : List Int) :
    fillYlyYwd cand y woy dow =
      woy.foldl (fun cand wk => dow.foldl (fun cand dc =>
        if dc ≤ 0 ∨ dc > 7 then cand else
        ([-1, 0, 1] : List Int).foldl (fun cand of => assO cand (ywdSel y wk dc of)) cand) cand) cand := by
  unfold fillYlyYwd
  congr 1
  funext cand wk
  congr 1
  funext cand dc
  split
  · rfl
  · congr 1
    funext cand of
    unfold ywdSel
    dsimp only
    split <;> rfl

theorem mem_fillYlyYwd (cand : List Nat) (y : Nat) (woy dow : List Int) (c : Nat) :
    c ∈ fillYlyYwd cand y woy dow ↔ c ∈ cand ∨ ∃ wk ∈ woy, ∃ dc ∈ dow, 1 ≤ dc ∧ dc ≤ 7 ∧ ∃ of ∈ ([-1, 0, 1] : List Int),
      (ywdToMd y of wk dc.toNat).m ≠ 0 ∧ c = packCand (ywdToMd y of wk dc.toNat).m (ywdToMd y of wk dc.toNat).d := by
  rw [fillYlyYwd_eq]
  rw [mem_foldl_nest (fun cand wk => dow.foldl (fun cand dc =>
        if dc ≤ 0 ∨ dc > 7 then cand else
        ([-1, 0, 1] : List Int).foldl (fun cand of => assO cand (ywdSel y wk dc of)) cand) cand)
    (fun wk c => ∃ dc ∈ dow, 1 ≤ dc ∧ dc ≤ 7 ∧ ∃ of ∈ ([-1, 0, 1] : List Int), ywdSel y wk dc of = some c)
    (fun c wk x => by
      rw [mem_foldl_nest (fun cand dc =>
          if dc ≤ 0 ∨ dc > 7 then cand else
          ([-1, 0, 1] : List Int).foldl (fun cand of => assO cand (ywdSel y wk dc of)) cand)
        (fun dc c => 1 ≤ dc ∧ dc ≤ 7 ∧ ∃ of ∈ ([-1, 0, 1] : List Int), ywdSel y wk dc of = some c)
        (fun c dc x => by
          by_cases c1 : dc ≤ 0 ∨ dc > 7
          · rw [if_pos c1]
            constructor
            · intro h; exact Or.inl h
            · rintro (h | ⟨_, _, _⟩)
              · exact h
              · omega
          · rw [if_neg c1, mem_foldl_assO]
            apply or_congr Iff.rfl
            constructor
            · intro h; exact ⟨by omega, by omega, h⟩
            · rintro ⟨_, _, h⟩; exact h)])]
  apply or_congr Iff.rfl
  apply exists_congr; intro wk
  apply and_congr Iff.rfl
  apply exists_congr; intro dc
  apply and_congr Iff.rfl
  apply and_congr Iff.rfl
  apply and_congr Iff.rfl
  apply exists_congr; intro of
  apply and_congr Iff.rfl
  unfold ywdSel
  by_cases c2 : (ywdToMd y of wk dc.toNat).m = 0
  · rw [if_pos c2]; simp [c2]
  · rw [if_neg c2]
    simp only [Option.some.injEq]
    constructor
    · intro h; exact ⟨c2, h.symm⟩
    · rintro ⟨_, h⟩; exact h.symm

theorem getIsowk_range (y : Nat) : getIsowk y = 52 ∨ getIsowk y = 53 := by
  unfold getIsowk; split <;> simp

theorem hang_eq (j : Nat) (h : 1 ≤ j ∧ j ≤ 7) :
    ywdGetJan01Hang j = if j ≤ 4 then 1 - (j : Int) else 8 - (j : Int) := by
  have hu : u32 = 4294967296 := rfl
  unfold ywdGetJan01Hang
  dsimp only
  by_cases c : j ≤ 4
  · rw [if_neg (by omega), if_pos c]
  · rw [if_pos (by omega), if_neg c]
    have e : toU32 (7 + (1 - (j : Int))) = 8 - j := by unfold toU32; simp only [hu]; omega
    rw [e]; unfold toS32; simp only [hu]
    rw [if_neg (by omega)]; omega

/-- the Monday of ISO week 1 through the code's "hang" of January 1st -/
theorem week1Start_hang (y : Nat) (h1 : 1901 ≤ y) (h2 : y ≤ 2099) :
    week1Start y = days y 1 1 + ywdGetJan01Hang (getJan01Wday y) := by
  rw [jan01_wday y h1 h2, hang_eq _ (by unfold wdayOf; omega)]
  have e4 : days y 1 4 = days y 1 1 + 3 := by rw [Echse.Instant.days_d y 1 4]; omega
  unfold week1Start weekStart
  rw [e4]
  generalize days y 1 1 = J
  unfold wdayOf
  split <;> omega

theorem wdayOf_week1Start (y : Nat) : wdayOf (week1Start y) = 1 := by
  unfold week1Start weekStart
  generalize days y 1 4 = J
  unfold wdayOf; omega

theorem hang_range (j : Nat) (h : 1 ≤ j ∧ j ≤ 7) : -3 ≤ ywdGetJan01Hang j ∧ ywdGetJan01Hang j ≤ 3 := by
  rw [hang_eq j h]; split <;> omega

/-- within one year a real date is determined by its day number -/
theorem days_inj_year7 {y m d m' d' : Nat} (h : VDs y m d) (h' : VDs y m' d') (e : days y m d = days y m' d') :
    m = m' ∧ d = d' := by
  have a := dkey_le_of_days h h' (by omega)
  have b := dkey_le_of_days h' h (by omega)
  have := h.d31
  have := h'.d31
  unfold dkey at a b
  omega

theorem year_days' (y : Nat) (hy1 : 1901 ≤ y) (hy2 : y ≤ 2099) :
    days y 12 31 = days y 1 1 + 364 + leapN y := by
  have j1 := jan00_doy y 12 31 hy1 hy2 (by omega) (by omega)
  have j2 := jan00_doy y 1 1 hy1 hy2 (by omega) (by omega)
  have i1 : instDoy.getD 1 0 = 0 := by decide
  have i2 : instDoy.getD 12 0 = 334 := by decide
  rw [i1] at j2; rw [i2] at j1
  unfold leapN
  by_cases h : y % 4 = 0 <;> simp [h] at j1 j2 ⊢ <;> omega

/-- a date of year `y` lies between January 1st and December 31st -/
theorem dateIn_inYear {x : Inst} (hx : DateIn x) :
    days x.y 1 1 ≤ dayOf x ∧ dayOf x ≤ days x.y 1 1 + 364 + leapN x.y := by
  have hv := hx.v
  have v1 : VDs x.y 1 1 := by unfold VDs; simp [monthLen]
  have v2 : VDs x.y 12 31 := by unfold VDs; simp [monthLen]
  have a := dkey_le_of_days v1 hv
  have b := dkey_le_of_days hv v2
  rw [← year_days' x.y hx.lo hx.hi]
  unfold Echse.Spec.Rfc.dayOf
  constructor
  · by_cases c : dkey x.y 1 1 < dkey x.y x.m x.d
    · have := days_lt_of_dkey v1 hv c; omega
    · have : x.m = 1 ∧ x.d = 1 := by
        have := hv.d31; unfold VDs at hv; unfold dkey at c; omega
      rw [this.1, this.2]; omega
  · by_cases c : dkey x.y x.m x.d < dkey x.y 12 31
    · have := days_lt_of_dkey hv v2 c; omega
    · have : x.m = 12 ∧ x.d = 31 := by
        have := hv.d31; unfold VDs at hv; unfold dkey at c; omega
      rw [this.1, this.2]; omega
theorem s32_u32_small (v : Int) (h : -1000 ≤ v ∧ v ≤ 1000) : toS32 (toU32 v) = v := by
  have hu : u32 = 4294967296 := rfl
  unfold toS32 toU32
  simp only [hu]
  split <;> omega

/-- the day of the year `ywd_get_yday` computes (as a C int), for a week number in range -/
theorem ywdGetYday_eq (y : Nat) (w : Int) (d : Nat) (hd : 1 ≤ d ∧ d ≤ 7)
    (hw : w ≠ 0 ∧ -(getIsowk y : Int) ≤ w ∧ w ≤ getIsowk y) (j : Nat) (hj : getJan01Wday y = j) (hjr : 1 ≤ j ∧ j ≤ 7) :
    toS32 (ywdGetYday y w d) =
      7 * ((if w < 0 then w + 1 + (getIsowk y : Int) else w) - 1) + d + ywdGetJan01Hang j := by
  have hN := getIsowk_range y
  have hh := hang_range j hjr
  unfold ywdGetYday
  dsimp only
  rw [hj]
  generalize ywdGetJan01Hang j = hang at hh ⊢
  generalize getIsowk y = N at hN hw ⊢
  by_cases c : w < 0
  · rw [if_pos c, if_pos c, s32_u32_small (w + 1 + (N : Int)) (by omega), s32_u32_small _ (by omega)]
  · rw [if_neg c, if_neg c, s32_u32_small _ (by omega)]
/-- where the code puts January 1st of the ISO year `y + of`, counted from January 1st of `y` -/
def ywdOff (y : Nat) (of : Int) : Int :=
  if of > 0 then 365 + (leapN y : Int) else if of < 0 then -(365 + (leapN ((y : Int) + of).toNat : Int)) else 0

/-- the table facts of the ISO year `1901 + i + of`: number of weeks, and the Monday of week 1 through the code's
"hang", seen from January 1st of `1901 + i` (for 1900, which the 28-year table takes for a leap year, the code's
January 1st lies a day early and on a Sunday - the Monday of week 1 is the right one all the same) -/
def iyChk (i : Nat) (of : Int) : Bool :=
  let y := 1901 + i
  let iy := ((y : Int) + of).toNat
  let j := getJan01Wday iy
  ((getIsowk iy : Int) == isoWeeks iy) &&
    (week1Start iy == days y 1 1 + ywdOff y of + ywdGetJan01Hang j) && decide (1 ≤ j) && decide (j ≤ 7)

theorem iyChk_all : ∀ i, i < 199 → (iyChk i (-1) && iyChk i 0 && iyChk i 1) = true := by decide +kernel

theorem iy_facts (y : Nat) (h1 : 1901 ≤ y) (h2 : y ≤ 2099) (of : Int) (hof : of = -1 ∨ of = 0 ∨ of = 1) :
    (getIsowk ((y : Int) + of).toNat : Int) = isoWeeks ((y : Int) + of).toNat ∧
    week1Start ((y : Int) + of).toNat =
      days y 1 1 + ywdOff y of + ywdGetJan01Hang (getJan01Wday ((y : Int) + of).toNat) ∧
    1 ≤ getJan01Wday ((y : Int) + of).toNat ∧ getJan01Wday ((y : Int) + of).toNat ≤ 7 := by
  have h := iyChk_all (y - 1901) (by omega)
  have e : 1901 + (y - 1901) = y := by omega
  simp only [Bool.and_eq_true] at h
  have k : iyChk (y - 1901) of = true := by
    rcases hof with rfl | rfl | rfl
    · exact h.1.1
    · exact h.1.2
    · exact h.2
  unfold iyChk at k
  rw [e] at k
  simp only [Bool.and_eq_true, beq_iff_eq, decide_eq_true_eq] at k
  exact ⟨k.1.1.1, k.1.1.2, k.1.2, k.2⟩

/-- the date lies in week `n` (from the end if negative) of the ISO year `iy` -/
def InWk (iy : Nat) (n : Int) (x : Inst) : Prop :=
  let w := if n > 0 then n else isoWeeks iy + 1 + n
  1 ≤ w ∧ w ≤ isoWeeks iy ∧ week1Start iy + 7 * (w - 1) ≤ dayOf x ∧ dayOf x < week1Start iy + 7 * w

/-- BYWEEKNO of the RFC reading through the code's year offsets -/
theorem weeknoOk_of (r : Rule) (x : Inst) (h : 1 ≤ x.y) :
    weeknoOk r x ↔ ∃ n ∈ r.wk, ∃ of ∈ ([-1, 0, 1] : List Int), InWk ((x.y : Int) + of).toNat n x := by
  have e1 : ((x.y : Int) + -1).toNat = x.y - 1 := by omega
  have e2 : ((x.y : Int) + 0).toNat = x.y := by omega
  have e3 : ((x.y : Int) + 1).toNat = x.y + 1 := by omega
  unfold weeknoOk
  apply exists_congr; intro n
  apply and_congr Iff.rfl
  constructor
  · rintro ⟨iy, hiy, hh⟩
    simp only [List.mem_cons, List.not_mem_nil, or_false] at hiy
    rcases hiy with rfl | rfl | rfl
    · exact ⟨-1, by simp, by rw [e1]; exact hh⟩
    · exact ⟨0, by simp, by rw [e2]; exact hh⟩
    · exact ⟨1, by simp, by rw [e3]; exact hh⟩
  · rintro ⟨of, hof, hh⟩
    simp only [List.mem_cons, List.not_mem_nil, or_false] at hof
    rcases hof with rfl | rfl | rfl
    · rw [e1] at hh; exact ⟨_, by simp, hh⟩
    · rw [e2] at hh; exact ⟨_, by simp, hh⟩
    · rw [e3] at hh; exact ⟨_, by simp, hh⟩

/-- `ywd_to_md(y, of, w, d)` is the day of the calendar year `y` that is weekday `d` of week `w` of the ISO year
`y + of`, and every such day is found -/
theorem ywdToMd_spec (x : Inst) (hx : DateIn x) (of : Int) (hof : of = -1 ∨ of = 0 ∨ of = 1) (w : Int)
    (hw : w ≠ 0 ∧ -53 ≤ w ∧ w ≤ 53) (d : Nat) (hd : 1 ≤ d ∧ d ≤ 7) :
    ywdToMd x.y of w d = ⟨x.m, x.d⟩ ↔ (wdayOf (dayOf x) = d ∧ InWk ((x.y : Int) + of).toNat w x) := by
  have hv := hx.v
  obtain ⟨eN, eW, hjr⟩ := iy_facts x.y hx.lo hx.hi of hof
  have hN := getIsowk_range ((x.y : Int) + of).toNat
  have hW1 := wdayOf_week1Start ((x.y : Int) + of).toNat
  have hh := hang_range _ hjr
  have hyr := dateIn_inYear hx
  have hm1 : 1 ≤ x.m := hv.1
  have hoff : -366 ≤ ywdOff x.y of ∧ ywdOff x.y of ≤ 366 := by
    unfold ywdOff leapN; split
    · split <;> omega
    · split
      · split <;> omega
      · omega
  unfold InWk
  dsimp only
  rw [← eN]
  unfold ywdToMd
  dsimp only
  generalize hiy : ((x.y : Int) + of).toNat = iy at *
  by_cases c1 : w = 0 ∨ w > (getIsowk iy : Int) ∨ w < -(getIsowk iy : Int)
  · rw [if_pos c1]
    constructor
    · intro h; have := congrArg Md.m h; dsimp only at this; omega
    · rintro ⟨_, h⟩; split at h <;> omega
  · rw [if_neg c1]
    rw [ywdGetYday_eq iy w d hd (by omega) _ rfl hjr]
    have eyd : ∀ E : Int, (if of > 0 then E + (365 + (leapN x.y : Int))
        else if of < 0 then E - (365 + (leapN iy : Int)) else E) = E + ywdOff x.y of := by
      intro E; unfold ywdOff; rw [hiy]; split
      · rfl
      · split <;> omega
    rw [eyd]
    have ewn : (if w > 0 then w else (getIsowk iy : Int) + 1 + w) =
        (if w < 0 then w + 1 + (getIsowk iy : Int) else w) := by split <;> split <;> omega
    rw [ewn]
    have hwn : 1 ≤ (if w < 0 then w + 1 + (getIsowk iy : Int) else w) ∧
        (if w < 0 then w + 1 + (getIsowk iy : Int) else w) ≤ getIsowk iy := by split <;> omega
    generalize (if w < 0 then w + 1 + (getIsowk iy : Int) else w) = wn at hwn ⊢
    generalize ywdGetJan01Hang (getJan01Wday iy) = hang at hh eW ⊢
    generalize week1Start iy = W at eW hW1 ⊢
    generalize ywdOff x.y of = off at hoff eW ⊢
    generalize hD : dayOf x = D at hyr ⊢
    generalize hJ : days x.y 1 1 = J at hyr eW
    generalize (getIsowk iy : Int) = N at hwn ⊢
    unfold wdayOf at hW1 ⊢
    by_cases c2 : 7 * (wn - 1) + (d : Int) + hang + off ≤ 0 ∨
        7 * (wn - 1) + (d : Int) + hang + off > 365 + (leapN x.y : Int)
    · rw [if_pos c2]
      constructor
      · intro h; have := congrArg Md.m h; dsimp only at this; omega
      · rintro ⟨_, h⟩; omega
    · rw [if_neg c2]
      have ek : 7 * (wn - 1) + (d : Int) + hang + off = ((7 * (wn - 1) + (d : Int) + hang + off).toNat : Nat) := by
        omega
      have hl : leapN x.y = (if x.y % 4 = 0 then 1 else 0) := rfl
      generalize (7 * (wn - 1) + (d : Int) + hang + off).toNat = k at ek
      rw [ek] at c2 ⊢
      obtain ⟨s1, s2, s3, s4, s5⟩ := Echse.RuleExt.ydToMd_spec x.y k hx.lo hx.hi (by omega) (by omega)
      rw [hJ] at s5
      constructor
      · intro h
        rw [h] at s5; dsimp only at s5
        have : D = J + k - 1 := by rw [← hD, ← s5]; rfl
        omega
      · rintro ⟨g1, g2⟩
        have e : days x.y (ydToMd x.y k).m (ydToMd x.y k).d = days x.y x.m x.d := by
          rw [s5]; unfold Echse.Spec.Rfc.dayOf at hD; rw [hD]; omega
        have := days_inj_year7 (y := x.y) ⟨s1, s2, s3, s4⟩ hv e
        cases hmd : ydToMd x.y k with
        | mk a b => rw [hmd] at this; dsimp only at this; rw [this.1, this.2]

theorem ywdToMd_valid (y : Nat) (of w : Int) (d : Nat) (h : (ywdToMd y of w d).m ≠ 0) :
    (1 ≤ (ywdToMd y of w d).m ∧ (ywdToMd y of w d).m ≤ 12) ∧ (ywdToMd y of w d).d ≤ 31 := by
  have a := ywdToMd_ok y of w d
  have b := getNdom_le y (ywdToMd y of w d).m
  unfold okMd at a
  simp only [Bool.or_eq_true, beq_iff_eq, Bool.and_eq_true, decide_eq_true_eq] at a
  omega

theorem of_mem {of : Int} (h : of ∈ ([-1, 0, 1] : List Int)) : of = -1 ∨ of = 0 ∨ of = 1 := by
  simpa only [List.mem_cons, List.not_mem_nil, or_false] using h

/-- BYWEEKNO × BYDAY: the date `x` is among the candidates of its year iff its weekday is listed and it lies in a
listed ISO week (of its own calendar year's numbering or, at the year's ends, the neighbouring one's) -/
theorem mem_ywd_date_rule (r : Rule) (x : Inst) (hx : DateIn x) (dow : List Int)
    (hw : ∀ w ∈ r.wk, w ≠ 0 ∧ -53 ≤ w ∧ w ≤ 53) :
    packCand x.m x.d ∈ fillYlyYwd [] x.y r.wk dow ↔
      (∃ dc ∈ dow, 1 ≤ dc ∧ dc ≤ 7 ∧ (wdayOf (dayOf x) : Int) = dc) ∧ weeknoOk r x := by
  have hv := hx.v
  have h31 := hv.d31
  rw [mem_fillYlyYwd, weeknoOk_of r x (by have := hx.lo; omega)]
  constructor
  · rintro (h | ⟨wk, hwk, dc, hdc, d1, d7, of, hof, hm, he⟩)
    · cases h
    · obtain ⟨v1, v2⟩ := ywdToMd_valid x.y of wk dc.toNat hm
      have e := packCand_inj ⟨hv.1, hv.2.1⟩ h31 v1 v2 he
      have e' : ywdToMd x.y of wk dc.toNat = ⟨x.m, x.d⟩ := by
        cases hmd : ywdToMd x.y of wk dc.toNat with
        | mk a b => rw [hmd] at e; dsimp only at e; rw [e.1, e.2]
      have s := (ywdToMd_spec x hx of (of_mem hof) wk (hw wk hwk) dc.toNat (by omega)).mp e'
      exact ⟨⟨dc, hdc, d1, d7, by omega⟩, wk, hwk, of, hof, s.2⟩
  · rintro ⟨⟨dc, hdc, d1, d7, hwd⟩, wk, hwk, of, hof, hs⟩
    right
    have e' := (ywdToMd_spec x hx of (of_mem hof) wk (hw wk hwk) dc.toNat (by omega)).mpr ⟨by omega, hs⟩
    refine ⟨wk, hwk, dc, hdc, d1, d7, of, hof, ?_, ?_⟩
    · rw [e']; dsimp only; have := hv.1; omega
    · rw [e']

theorem mem_ywd_date (x : Inst) (hx : DateIn x) (woy dow : List Int) (hw : ∀ w ∈ woy, w ≠ 0 ∧ -53 ≤ w ∧ w ≤ 53) :
    packCand x.m x.d ∈ fillYlyYwd [] x.y woy dow ↔
      (∃ dc ∈ dow, 1 ≤ dc ∧ dc ≤ 7 ∧ (wdayOf (dayOf x) : Int) = dc) ∧ weeknoOk { wk := woy } x :=
  mem_ywd_date_rule { wk := woy } x hx dow hw
end Echse.Lemmas.RrCandRfc
