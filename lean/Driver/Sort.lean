import Echse.Model.Sort
import Echse.Model.Instant
import Driver.Instant
open Echse.Sort Echse.Instant
namespace Driver

/-- `q.isort h1 h2 …` sorts instants; `q.esort h1 h2 …` sorts events (instant, index) by instant and
prints `hex:index`; answer suffix `!inplace` when the transcribed part of the model does not cover the length. -/
def runSort (op : String) (args : List String) : String :=
  match args.mapM inst? with
  | none => "bad-op"
  | some xs =>
    if op == "q.isort" then
      let r := wikiSort ltP xs
      joinWith " " (r.map showInst)
    else if op == "q.esort" then
      let ev := xs.zipIdx
      let r := wikiSort (fun (a b : Inst × Nat) => ltP a.1 b.1) ev
      joinWith " " (r.map fun (i, k) => s!"{showInst i}:{k}")
    else "bad-op"

end Driver
