/-
  C19 — the small-integer containers behave as sets.

  For every insertion sequence over the documented range:
    * iteration (the callers' loop `for (i = 0; (v = next(&i, bi), i);)`) terminates
      within `range + 2` calls and yields exactly the inserted values, each once,
      in the container's order;
    * the membership test agrees with "was inserted".
  Statements only; helper lemmas live in Echse/Lemmas.
-/
import Echse.Lemmas.Bui
namespace C19
open Echse.Bitint

/-- `bituint31_t`: iteration after inserting `xs` (values 0..30). -/
theorem bui31_iterate (xs : List Nat) (h : ∀ v ∈ xs, v ≤ 30) :
    buiIterate 32 (xs.foldl (assBui 32) 0) 33 0 = some ((List.range 31).filter (fun j => decide (j ∈ xs))) :=
  buiIterate_of_R 32 (by omega) xs _ (fun v hv => by have := h v hv; omega)
    (BuiR_insertAll 32 (by omega) xs (fun v hv => by have := h v hv; omega))

/-- `bituint31_t`: membership. -/
theorem bui31_member (xs : List Nat) (x : Nat) (h : ∀ v ∈ xs, v ≤ 30) :
    buiHasBit (xs.foldl (assBui 32) 0) x = decide (x ∈ xs) :=
  buiHasBit_of_R 32 xs _ x (BuiR_insertAll 32 (by omega) xs (fun v hv => by have := h v hv; omega))

/-- `bituint63_t`: iteration after inserting `xs` (values 0..62). -/
theorem bui63_iterate (xs : List Nat) (h : ∀ v ∈ xs, v ≤ 62) :
    buiIterate 64 (xs.foldl (assBui 64) 0) 65 0 = some ((List.range 63).filter (fun j => decide (j ∈ xs))) :=
  buiIterate_of_R 64 (by omega) xs _ (fun v hv => by have := h v hv; omega)
    (BuiR_insertAll 64 (by omega) xs (fun v hv => by have := h v hv; omega))

/-- the result list really is "each inserted value exactly once and nothing else". -/
theorem canon_unsigned_set (n : Nat) (xs : List Nat) (h : ∀ v ∈ xs, v < n) :
    let r := (List.range n).filter (fun j => decide (j ∈ xs))
    r.Nodup ∧ ∀ x, x ∈ r ↔ x ∈ xs := by
  intro r
  refine ⟨List.Nodup.sublist List.filter_sublist List.nodup_range, ?_⟩
  intro x
  simp only [r, List.mem_filter, List.mem_range, decide_eq_true_eq]
  exact ⟨fun a => a.2, fun a => ⟨h x a, a⟩⟩

-- hypotheses are inhabited by non-trivial sequences (zero, duplicates, top of range)
example : (∀ v ∈ [0, 30, 5, 0], v ≤ 30) := by decide
example : buiIterate 32 ([0, 30, 5, 0].foldl (assBui 32) 0) 33 0 = some [0, 5, 30] := by decide

end C19
