/-
  C01 for the monthly filler, part 2: the period grid — the loop's increment `mlyNext` and the track-finding
  `mlyTrack` go whole intervals on and skip exactly the months that are not in BYMONTH.
-/
import Echse.Lemmas.RrMlyRfc1
namespace Echse.Lemmas.RrMlyRfc
open Echse.Rrule Echse.Instant Echse.Spec.RrOk Echse.Lemmas.RrCandOk Echse.Spec.Rfc Echse.Lemmas.RrRfc
open Echse.Lemmas.RrCandRfc Echse.Lemmas.RrMlyOk Echse.Spec.Cal Echse.Spec.RuleExt

/-- month of the year of a month count `12 y + m` -/
def moy (I : Int) : Nat := ((I - 1) % 12).toNat + 1

theorem moy_ym (y : Nat) (m : Int) (hm : 1 ≤ m ∧ m ≤ 12) : moy (12 * y + m) = m.toNat := by
  unfold moy; omega

theorem monHas_iff (mon : List Nat) (m : Int) (hm : 1 ≤ m ∧ m ≤ 12) : monHas mon m = true ↔ m.toNat ∈ mon := by
  unfold monHas
  simp only [Bool.decide_and, Bool.and_eq_true, decide_eq_true_eq, List.contains_eq_mem]
  constructor
  · intro h; exact h.2
  · intro h; exact ⟨by omega, h⟩

theorem cast_succ_mul (j n : Nat) : ((j + 1 : Nat) : Int) * (n : Int) = (j : Int) * n + n := by
  rw [Int.natCast_add, Int.add_mul]; simp

/-- the loop's increment goes `j` intervals on, over months that are not in BYMONTH -/
theorem mlyNext_skip (mon : List Nat) (inter : Nat) (hi : 1 ≤ inter ∧ inter < 2147483648) :
    ∀ fuel y m, 0 < fuel → y ≤ 2099 → 1 ≤ m ∧ m ≤ 12 →
    ∃ j : Nat, 1 ≤ j ∧ j ≤ fuel ∧
      1 ≤ (mlyNext mon inter fuel y m).2 ∧ (mlyNext mon inter fuel y m).2 ≤ 12 ∧
      (12 * (mlyNext mon inter fuel y m).1 : Int) + (mlyNext mon inter fuel y m).2 = 12 * y + m + j * inter ∧
      (∀ i : Nat, 1 ≤ i → i < j → mon ≠ [] ∧ moy (12 * y + m + i * inter) ∉ mon) ∧
      ((mlyNext mon inter fuel y m).1 ≤ 2099 → mon = [] ∨ ((mlyNext mon inter fuel y m).2).toNat ∈ mon ∨ j = fuel) := by
  intro fuel
  induction fuel with
  | zero => intro _ _ h; omega
  | succ fuel ih =>
    intro y m _ hy hm
    unfold mlyNext
    have hs := mlyStep_spec inter y m hi hy hm
    generalize mlyStep inter y m = ym at hs
    obtain ⟨y1, m1⟩ := ym
    dsimp only at hs ⊢
    by_cases hc : y1 ≤ maxYear ∧ (!mon.isEmpty) = true ∧ (!monHas mon m1) = true
    · rw [if_pos hc]
      have hne : mon ≠ [] := by
        intro e; rw [e] at hc; exact absurd hc.2.1 (by decide)
      have hnot : m1.toNat ∉ mon := by
        intro h
        have := (monHas_iff mon m1 ⟨hs.1, hs.2.1⟩).2 h
        rw [this] at hc; exact absurd hc.2.2 (by decide)
      cases fuel with
      | zero =>
        refine ⟨1, by omega, by omega, ?_⟩
        unfold mlyNext
        refine ⟨hs.1, hs.2.1, by have := hs.2.2; omega, ?_, fun _ => Or.inr (Or.inr rfl)⟩
        intro i h1 h2; omega
      | succ fuel =>
        obtain ⟨j, j1, j2, a1, a2, a3, a4, a5⟩ := ih y1 m1 (by omega) (by unfold maxYear at hc; omega) ⟨hs.1, hs.2.1⟩
        refine ⟨j + 1, by omega, by omega, a1, a2, ?_, ?_, ?_⟩
        · rw [a3, cast_succ_mul]; omega
        · intro i h1 h2
          by_cases e : i = 1
          · subst e
            refine ⟨hne, ?_⟩
            have : (12 * (y : Int) + m + ((1 : Nat) : Int) * inter) = 12 * y1 + m1 := by omega
            rw [this, moy_ym y1 m1 ⟨hs.1, hs.2.1⟩]; exact hnot
          · have := a4 (i - 1) (by omega) (by omega)
            have e2 : (12 * (y1 : Int) + m1 + ((i - 1 : Nat) : Int) * inter) = 12 * y + m + (i : Int) * inter := by
              have e3 := cast_succ_mul (i - 1) inter
              have e4 : i - 1 + 1 = i := by omega
              rw [e4] at e3
              rw [e3]; omega
            rw [e2] at this; exact this
        · intro hle
          rcases a5 hle with h | h | h
          · exact Or.inl h
          · exact Or.inr (Or.inl h)
          · exact Or.inr (Or.inr (by omega))
    · rw [if_neg hc]
      refine ⟨1, by omega, by omega, hs.1, hs.2.1, by have := hs.2.2; omega, ?_, ?_⟩
      · intro i h1 h2; omega
      · intro hle
        by_cases e : mon = []
        · exact Or.inl e
        · right; left
          have h1 : (!mon.isEmpty) = true := by
            cases mon with
            | nil => exact absurd rfl e
            | cons a l => rfl
          have h2 : ¬ (!monHas mon m1) = true := by
            intro h; exact hc ⟨by unfold maxYear; exact hle, h1, h⟩
          have : monHas mon m1 = true := by
            cases hb : monHas mon m1 with
            | true => rfl
            | false => rw [hb] at h2; exact absurd rfl h2
          exact (monHas_iff mon m1 ⟨hs.1, hs.2.1⟩).1 this
/-- "get m on track": goes `j ≤ 12 - i` intervals on to the first month in BYMONTH, or gives up -/
theorem mlyTrack_spec (mon : List Nat) (inter : Nat) (hi : 1 ≤ inter ∧ inter < 2147483648) :
    ∀ fuel i y m, fuel + i = 13 → i ≤ 12 → 1 ≤ m ∧ m ≤ 12 →
    match mlyTrack mon inter fuel i y m with
    | some (y', m') => ∃ j : Nat, i + j ≤ 12 ∧ 1 ≤ m' ∧ m' ≤ 12 ∧ m'.toNat ∈ mon ∧
        (12 * y' : Int) + m' = 12 * y + m + j * inter ∧ ∀ i' : Nat, i' < j → moy (12 * y + m + i' * inter) ∉ mon
    | none => ∃ j : Nat, (∀ i' : Nat, i' ≤ j → moy (12 * y + m + i' * inter) ∉ mon) ∧
        (12 ≤ i + j ∨ 25200 < 12 * (y : Int) + m + j * inter) := by
  intro fuel
  induction fuel with
  | zero => intro i y m h h'; omega
  | succ fuel ih =>
    intro i y m hf hi12 hm
    unfold mlyTrack
    by_cases c1 : monHas mon m = true
    · rw [if_pos c1]
      dsimp only
      refine ⟨0, by omega, hm.1, hm.2, (monHas_iff mon m hm).1 c1, by simp, ?_⟩
      intro i' h; omega
    · rw [if_neg c1]
      have hnot : moy (12 * y + m + ((0 : Nat) : Int) * inter) ∉ mon := by
        have : (12 * (y : Int) + m + ((0 : Nat) : Int) * inter) = 12 * y + m := by simp
        rw [this, moy_ym y m hm]
        intro h; exact c1 ((monHas_iff mon m hm).2 h)
      by_cases c2 : i ≥ 12 ∨ y > maxYear
      · rw [if_pos c2]
        dsimp only
        refine ⟨0, ?_, ?_⟩
        · intro i' h
          have : i' = 0 := by omega
          subst this; exact hnot
        · unfold maxYear at c2
          rcases c2 with c2 | c2
          · left; omega
          · right; simp; omega
      · rw [if_neg c2]
        unfold maxYear at c2
        have hs := mlyStep_spec inter y m hi (by omega) hm
        generalize mlyStep inter y m = ym at hs
        obtain ⟨y1, m1⟩ := ym
        dsimp only at hs ⊢
        have hrec := ih (i + 1) y1 m1 (by omega) (by omega) ⟨hs.1, hs.2.1⟩
        have shift : ∀ i' : Nat, (12 * (y1 : Int) + m1 + (i' : Int) * inter) = 12 * y + m + ((i' + 1 : Nat) : Int) * inter := by
          intro i'; rw [cast_succ_mul]; omega
        cases hres : mlyTrack mon inter fuel (i + 1) y1 m1 with
        | none =>
          rw [hres] at hrec
          obtain ⟨j, h1, h2⟩ := hrec
          refine ⟨j + 1, ?_, ?_⟩
          · intro i' hle
            by_cases e : i' = 0
            · subst e; exact hnot
            · have := h1 (i' - 1) (by omega)
              rw [shift] at this
              have e2 : i' - 1 + 1 = i' := by omega
              rw [e2] at this; exact this
          · rw [← shift]; omega
        | some ym' =>
          obtain ⟨y', m'⟩ := ym'
          rw [hres] at hrec
          obtain ⟨j, h0, h1, h2, h3, h4, h5⟩ := hrec
          refine ⟨j + 1, by omega, h1, h2, h3, ?_, ?_⟩
          · rw [h4, shift]
          · intro i' hlt
            by_cases e : i' = 0
            · subst e; exact hnot
            · have := h5 (i' - 1) (by omega)
              rw [shift] at this
              have e2 : i' - 1 + 1 = i' := by omega
              rw [e2] at this; exact this

end Echse.Lemmas.RrMlyRfc
