/-
  C17 lemmas, part 7: `shift` works candidate by candidate (`shift_set`).
-/
import Echse.Lemmas.RuleExt6
namespace Echse.RuleExt
open Echse.Rrule

/-- what `shiftDays` does with one candidate: (set index, packed result) -/
def dayF (y : Nat) (d : Int) (c : Nat) : Nat × Nat :=
  let md := unpackCand c
  let r := reassess (reassessFuel ((md.d : Int) + d)) y md.m ((md.d : Int) + d)
  (bucket y r.1, packCand r.2.1.toNat r.2.2.toNat)

/-- what `shiftBdays` does with one candidate of set `k` -/
def bdF (y : Nat) (sh : Int) (k c : Nat) : Nat × Nat :=
  let md := unpackCand c
  let cy : Int := (y : Int) - (if k = 1 then 1 else 0) + (if k = 2 then 1 else 0)
  let w := ymdGetWday cy.toNat md.m md.d
  let d := bdayMove w md.d sh
  let r := reassess (reassessFuel d) cy md.m d
  (bucket y r.1, packCand r.2.1.toNat r.2.2.toNat)

theorem shiftDays_eq (cand : Cand3) (y : Nat) (d : Int) :
    shiftDays cand y d = cand.same.foldl (fun res c => res.ass (dayF y d c).1 (dayF y d c).2) {} := rfl

theorem shiftBdays_eq (cand : Cand3) (y : Nat) (sh : Int) :
    shiftBdays cand y sh = [0, 1, 2].foldl (fun res k =>
      (cand.get k).foldl (fun res c => res.ass (bdF y sh k c).1 (bdF y sh k c).2) res) {} := rfl

theorem empty_get (k x : Nat) : ¬ x ∈ ({} : Cand3).get k := by
  unfold Cand3.get; split <;> (try split) <;> simp

theorem shiftDays_pw (cand : Cand3) (y : Nat) (d : Int) (k x : Nat) :
    x ∈ (shiftDays cand y d).get k ↔ ∃ c ∈ cand.get 0, nb (dayF y d c).1 = nb k ∧ x = (dayF y d c).2 := by
  rw [shiftDays_eq, foldl_ass_mem]
  simp [Cand3.get]

theorem shiftBdays_pw (cand : Cand3) (y : Nat) (sh : Int) (k x : Nat) :
    x ∈ (shiftBdays cand y sh).get k ↔
      ∃ j, j < 3 ∧ ∃ c ∈ cand.get j, nb (bdF y sh j c).1 = nb k ∧ x = (bdF y sh j c).2 := by
  rw [shiftBdays_eq]
  simp only [List.foldl_cons, List.foldl_nil]
  rw [foldl_ass_mem (bdF y sh 2), foldl_ass_mem (bdF y sh 1), foldl_ass_mem (bdF y sh 0)]
  constructor
  · intro h
    rcases h with ((h|h)|h)|h
    · exact absurd h (empty_get k x)
    · exact ⟨0, by omega, h⟩
    · exact ⟨1, by omega, h⟩
    · exact ⟨2, by omega, h⟩
  · intro ⟨j, hj, h⟩
    have : j = 0 ∨ j = 1 ∨ j = 2 := by omega
    rcases this with rfl|rfl|rfl
    · exact Or.inl (Or.inl (Or.inr h))
    · exact Or.inl (Or.inr h)
    · exact Or.inr h

/-- `shift` with a non-zero value works candidate by candidate -/
theorem shift_pointwise (y : Nat) (sh : Int) (hsh : sh ≠ 0) :
    ∃ G : Nat → Nat → Nat → Nat → Prop, ∀ (cand : Cand3) (k x : Nat),
      x ∈ (shift cand y sh).get k ↔ ∃ j, j < 3 ∧ ∃ c ∈ cand.get j, G j c k x := by
  unfold shift
  simp only [if_neg hsh]
  by_cases hd : shDvalue sh ≠ 0 <;> by_cases hb : shBdayP sh = true
  · refine ⟨fun j c k x => j = 0 ∧ ∃ j', j' < 3 ∧ nb (dayF y (shDvalue sh) c).1 = nb j' ∧
      nb (bdF y sh j' (dayF y (shDvalue sh) c).2).1 = nb k ∧ x = (bdF y sh j' (dayF y (shDvalue sh) c).2).2, ?_⟩
    intro cand k x
    simp only [if_pos hd, if_pos hb, shiftBdays_pw, shiftDays_pw]
    constructor
    · intro ⟨j, hj, c1, ⟨c, hc, h1, h2⟩, h3⟩
      subst h2
      exact ⟨0, by omega, c, hc, rfl, j, hj, by rw [nb_of_lt j hj] at h1; rw [h1, nb_of_lt j hj], h3⟩
    · intro ⟨j, hj, c, hc, h0, j', hj', h1, h3⟩
      subst h0
      exact ⟨j', hj', _, ⟨c, hc, by rw [nb_of_lt j' hj']; rw [nb_of_lt j' hj'] at h1; exact h1, rfl⟩, h3⟩
  · refine ⟨fun j c k x => j = 0 ∧ nb (dayF y (shDvalue sh) c).1 = nb k ∧ x = (dayF y (shDvalue sh) c).2, ?_⟩
    intro cand k x
    simp only [if_pos hd, if_neg hb, shiftDays_pw]
    constructor
    · intro ⟨c, hc, h⟩; exact ⟨0, by omega, c, hc, rfl, h⟩
    · intro ⟨j, hj, c, hc, h0, h⟩; subst h0; exact ⟨c, hc, h⟩
  · refine ⟨fun j c k x => nb (bdF y sh j c).1 = nb k ∧ x = (bdF y sh j c).2, ?_⟩
    intro cand k x
    simp only [if_neg hd, if_pos hb, shiftBdays_pw]
  · refine ⟨fun j c k x => j = nb k ∧ x = c, ?_⟩
    intro cand k x
    simp only [if_neg hd, if_neg hb]
    constructor
    · intro h; exact ⟨nb k, nb_lt k, x, by rw [get_nb]; exact h, rfl, rfl⟩
    · intro ⟨j, hj, c, hc, h0, h⟩; subst h0; subst h; rw [get_nb] at hc; exact hc

theorem shift_set (y : Nat) (cs : List Nat) (sh : Int) (k c' : Nat) :
    c' ∈ (shift { same := cs.foldl assC [] } y sh).get k ↔
      (sh = 0 ∧ k = 0 ∧ c' ∈ cs) ∨ (sh ≠ 0 ∧ ∃ c ∈ cs, c' ∈ (shift { same := [c] } y sh).get k) := by
  by_cases hsh : sh = 0
  · subst hsh
    simp only [shift, if_pos, Cand3.get]
    by_cases h0 : k = 0
    · simp [h0, foldl_assC_mem]
    · by_cases h1 : k = 1 <;> simp [h0, h1]
  · obtain ⟨G, hG⟩ := shift_pointwise y sh hsh
    simp only [hG]
    have one : ∀ (S : List Nat) (P : Nat → Nat → Prop),
        (∃ j, j < 3 ∧ ∃ c ∈ ({ same := S } : Cand3).get j, P j c) ↔ ∃ c ∈ S, P 0 c := by
      intro S P
      constructor
      · intro ⟨j, hj, c, hc, h⟩
        have : j = 0 ∨ j = 1 ∨ j = 2 := by omega
        rcases this with rfl|rfl|rfl
        · exact ⟨c, by simpa [Cand3.get] using hc, h⟩
        · simp [Cand3.get] at hc
        · simp [Cand3.get] at hc
      · intro ⟨c, hc, h⟩; exact ⟨0, by omega, c, by simpa [Cand3.get] using hc, h⟩
    rw [one]
    simp only [one, foldl_assC_mem]
    simp [hsh]
end Echse.RuleExt
