/-
  Helper lemmas for C18, part 3: digit printing (`ilog10Ceil`, `tostr`), the number loop,
  and the duration parser on every spelling `[+-]P[nW][nD][T[nH][nM][nS]]`.
-/
import Echse.Lemmas.Strpf
namespace Echse.Strpf
open Echse.Instant Echse.Spec.Cal

/-! ### D. digit printing -/

theorem bitLen_zero (fuel : Nat) : bitLen fuel 0 = 0 := by cases fuel <;> simp [bitLen]

theorem bitLen_spec : ∀ fuel n, n < 2^fuel →
    n < 2^(bitLen fuel n) ∧ (n ≠ 0 → 2^(bitLen fuel n - 1) ≤ n) ∧ bitLen fuel n ≤ fuel := by
  intro fuel
  induction fuel with
  | zero => intro n h; simp at h; subst h; simp [bitLen]
  | succ f ih =>
    intro n h
    by_cases hn : n = 0
    · subst hn; simp [bitLen]
    · have h2 : n / 2 < 2^f := by rw [Nat.pow_succ] at h; omega
      obtain ⟨a1, a2, a3⟩ := ih (n/2) h2
      have e : bitLen (f+1) n = bitLen f (n/2) + 1 := by simp [bitLen, hn]
      rw [e]
      refine ⟨by rw [Nat.pow_succ]; omega, fun _ => ?_, by omega⟩
      rw [Nat.add_sub_cancel]
      by_cases hz : n / 2 = 0
      · rw [hz, bitLen_zero]; simp; omega
      · have := a2 hz
        have hb : bitLen f (n/2) ≠ 0 := by
          intro hb; rw [hb, Nat.pow_zero] at a1; omega
        have : 2^(bitLen f (n/2)) = 2^(bitLen f (n/2) - 1) * 2 := by
          rw [← Nat.pow_succ]; congr 1; omega
        omega

theorem ilog_table : ∀ b, b ≤ 32 →
    1 ≤ max 4 b * 1233 / 4096 ∧ 10^(max 4 b * 1233 / 4096 - 1) ≤ 2^(b-1) ∧ 2^b ≤ 10^(max 4 b * 1233 / 4096 + 1) := by
  decide

/-- `ilog10_ceil` is the number of decimal digits (1 for 0) on the whole `uint32_t` range -/
theorem ilog10Ceil_spec (n : Nat) (h : n < 2^32) :
    1 ≤ ilog10Ceil n ∧ n < 10^(ilog10Ceil n) ∧ (n ≠ 0 → 10^(ilog10Ceil n - 1) ≤ n) := by
  by_cases hn : n = 0
  · subst hn; decide
  · obtain ⟨a1, a2, a3⟩ := bitLen_spec 32 n h
    obtain ⟨t1, t2, t3⟩ := ilog_table _ a3
    have a2 := a2 hn
    unfold ilog10Ceil
    simp only []
    generalize max 4 (bitLen 32 n) * 1233 / 4096 = l at *
    have hlt : n < 10^(l+1) := by omega
    have hge : 10^(l-1) ≤ n := by omega
    by_cases hc : n ≥ 10^l
    · rw [if_pos hc, Nat.add_sub_cancel]
      exact ⟨by omega, hlt, fun _ => hc⟩
    · rw [if_neg hc, Nat.add_zero]
      exact ⟨t1, by omega, fun _ => hge⟩

theorem natDigitChar_aux : ∀ k, k < 10 → Nat.digitChar k = Char.ofNat (48 + k) := by decide
theorem natDigitChar_eq (n : Nat) : Nat.digitChar (n % 10) = digitChar n :=
  natDigitChar_aux _ (Nat.mod_lt _ (by omega))

theorem tpstr_eq_toDigits : ∀ k n, 10^k ≤ n ∨ k = 0 → n < 10^(k+1) → tpstr n (k+1) = Nat.toDigits 10 n := by
  intro k
  induction k with
  | zero =>
    intro n _ h
    rw [Nat.toDigits_of_lt_base (by simpa using h)]
    have : n % 10 = n := Nat.mod_eq_of_lt (by simpa using h)
    have e := natDigitChar_eq n
    rw [this] at e
    rw [e]; rfl
  | succ k ih =>
    intro n h1 h2
    have h1 : 10^(k+1) ≤ n := by
      rcases h1 with h | h
      · exact h
      · omega
    have hp : 0 < 10^k := Nat.pow_pos (by omega)
    rw [Nat.pow_succ] at h1 h2
    rw [Nat.pow_succ] at h2
    have := @Nat.toDigits_append_toDigits 10 (n/10) (n%10) (by omega) (by omega) (Nat.mod_lt _ (by omega))
    rw [show 10 * (n/10) + n % 10 = n by omega, Nat.toDigits_of_lt_base (Nat.mod_lt _ (by omega))] at this
    rw [← this, natDigitChar_eq, ← ih (n/10) (by left; omega) (by rw [Nat.pow_succ]; omega)]
    rfl

/-- `ui32tostr` prints the canonical decimal numeral -/
theorem tostr_eq_toDigits (n : Nat) (h : n < 2^32) : tostr n = Nat.toDigits 10 n := by
  obtain ⟨a1, a2, a3⟩ := ilog10Ceil_spec n h
  unfold tostr
  obtain ⟨k, hk⟩ : ∃ k, ilog10Ceil n = k + 1 := ⟨ilog10Ceil n - 1, by omega⟩
  rw [hk] at a2 a3 ⊢
  apply tpstr_eq_toDigits k n _ a2
  by_cases hn : n = 0
  · subst hn
    right
    have : ilog10Ceil 0 = 1 := by decide
    omega
  · left; simpa using a3 hn
/-! ### E. the number loop -/

/-- ASCII digit -/
def isDig (c : Char) : Prop := 48 ≤ c.toNat ∧ c.toNat ≤ 57
instance (c : Char) : Decidable (isDig c) := by unfold isDig; infer_instance

def digStep (a : Nat) (c : Char) : Nat := a * 10 + (c.toNat - 48)
/-- value of a digit string (leading zeros allowed) -/
def digitsVal (ds : List Char) : Nat := ds.foldl digStep 0

theorem digitsVal_snoc (ds : List Char) (c : Char) : digitsVal (ds ++ [c]) = digitsVal ds * 10 + (c.toNat - 48) := by
  simp [digitsVal, digStep]

theorem foldl_digStep_ge (ds : List Char) : ∀ v, v ≤ ds.foldl digStep v := by
  induction ds with
  | nil => intro v; exact Nat.le_refl _
  | cons d ds ih =>
    intro v
    have := ih (digStep v d)
    simp only [List.foldl_cons]
    unfold digStep at this ⊢
    omega

theorem xor48_aux : ∀ k, k < 10 → (48 + k) ^^^ 48 = k := by decide
theorem xor48_dig (n : Nat) (h1 : 48 ≤ n) (h2 : n ≤ 57) : n ^^^ 48 = n - 48 := by
  have := xor48_aux (n - 48) (by omega)
  rwa [show 48 + (n - 48) = n by omega] at this
theorem xor48_nondig : ∀ n, n < 128 → n ^^^ 48 < 10 → 48 ≤ n ∧ n ≤ 57 := by decide

theorem chr_append_right (pre l : List Char) (k : Nat) : chr (pre ++ l) (pre.length + k) = chr l k := by
  induction pre with
  | nil => simp
  | cons a pre ih =>
    rw [List.cons_append, List.length_cons, show pre.length + 1 + k = (pre.length + k) + 1 by omega, chr_cons_succ]
    exact ih

theorem chr_append_right0 (pre l : List Char) : chr (pre ++ l) pre.length = chr l 0 :=
  chr_append_right pre l 0

theorem numLoop_digits : ∀ (ds pre rest : List Char) (val fuel len : Nat),
    (∀ c ∈ ds, isDig c) → ds.foldl digStep val < 2^32 → ds.length < fuel →
    pre.length + ds.length ≤ len → (len ≤ pre.length + ds.length ∨ ¬ isDig (chr rest 0)) →
    numLoop (pre ++ ds ++ rest) len fuel pre.length val = (pre.length + ds.length, ds.foldl digStep val) := by
  intro ds
  induction ds with
  | nil =>
    intro pre rest val fuel len _ _ hf hlen hstop
    obtain ⟨f, rfl⟩ : ∃ f, fuel = f + 1 := ⟨fuel - 1, by simp at hf; omega⟩
    simp only [List.append_nil, List.length_nil, Nat.add_zero, List.foldl_nil] at *
    unfold numLoop
    rw [chr_append_right0, if_neg]
    rintro ⟨c1, c2, c3⟩
    rcases hstop with h | h
    · omega
    · exact h (xor48_nondig _ c2 c3)
  | cons d ds ih =>
    intro pre rest val fuel len hd hv hf hlen hstop
    obtain ⟨f, rfl⟩ : ∃ f, fuel = f + 1 := ⟨fuel - 1, by omega⟩
    simp only [List.length_cons, List.foldl_cons] at *
    have hdd : isDig d := hd d (by simp)
    have hx : d.toNat ^^^ 48 = d.toNat - 48 := xor48_dig _ hdd.1 hdd.2
    have hge := foldl_digStep_ge ds (digStep val d)
    unfold numLoop
    have hc : chr (pre ++ d :: ds ++ rest) pre.length = d := by
      rw [List.append_assoc, chr_append_right0]; rfl
    rw [hc, if_pos ⟨by omega, by have := hdd.2; omega, by rw [hx]; have := hdd.2; omega⟩, hx]
    have e : (val * 10 + (d.toNat - 48)) % 2^32 = digStep val d := by
      have : digStep val d = val * 10 + (d.toNat - 48) := rfl
      rw [← this]
      exact Nat.mod_eq_of_lt (by omega)
    rw [e]
    have := ih (pre ++ [d]) rest (digStep val d) f len (fun c hc => hd c (by simp [hc])) hv (by omega)
      (by simp; omega) (by simpa [Nat.add_assoc, Nat.add_comm 1] using hstop)
    simp only [List.length_append, List.length_cons, List.length_nil, List.append_assoc, List.cons_append,
      List.nil_append, Nat.zero_add] at this
    rw [List.append_assoc, List.cons_append, this]
    congr 1; omega


/-- the form asked for: digits, then a non-digit -/
theorem numLoop_token (pre ds : List Char) (c : Char) (rest : List Char) (fuel len : Nat)
    (hd : ∀ x ∈ ds, isDig x) (hv : digitsVal ds < 2^32) (hc : ¬ isDig c)
    (hf : ds.length < fuel) (hlen : pre.length + ds.length ≤ len) :
    numLoop (pre ++ ds ++ c :: rest) len fuel pre.length 0 = (pre.length + ds.length, digitsVal ds) :=
  numLoop_digits ds pre (c :: rest) 0 fuel len hd hv hf hlen (Or.inr hc)

/-- at the end of the text -/
theorem numLoop_end (s : List Char) (fuel : Nat) : numLoop s s.length (fuel+1) s.length 0 = (s.length, 0) := by
  have := numLoop_digits [] s [] 0 (fuel+1) s.length (by simp) (by simp) (by simp) (by simp) (Or.inl (by simp))
  simpa using this

/-! ### what `tpstr` / `tostr` print -/

theorem tpstr_length : ∀ k v, (tpstr v k).length = k := by
  intro k; induction k with
  | zero => intro v; rfl
  | succ k ih => intro v; simp [tpstr, ih]

theorem dcToNat_aux : ∀ k, k < 10 → (Char.ofNat (48 + k)).toNat = 48 + k := by decide
theorem digitChar_toNat (v : Nat) : (digitChar v).toNat = 48 + v % 10 :=
  dcToNat_aux _ (Nat.mod_lt _ (by omega))
theorem isDig_digitChar (v : Nat) : isDig (digitChar v) := by
  unfold isDig; rw [digitChar_toNat]; omega

theorem tpstr_isDig : ∀ k v, ∀ c ∈ tpstr v k, isDig c := by
  intro k; induction k with
  | zero => intro v c h; simp [tpstr] at h
  | succ k ih =>
    intro v c h
    simp only [tpstr, List.mem_append, List.mem_singleton] at h
    rcases h with h | rfl
    · exact ih _ c h
    · exact isDig_digitChar v

theorem tpstr_val : ∀ k v, digitsVal (tpstr v k) = v % 10^k := by
  intro k; induction k with
  | zero => intro v; simp [tpstr, digitsVal, Nat.mod_one]
  | succ k ih =>
    intro v
    rw [tpstr, digitsVal_snoc, ih, digitChar_toNat, Nat.pow_succ, Nat.mul_comm (10^k) 10, Nat.mod_mul]
    omega

theorem tostr_isDig (v : Nat) : ∀ c ∈ tostr v, isDig c := tpstr_isDig _ v
theorem tostr_val (v : Nat) (h : v < 2^32) : digitsVal (tostr v) = v := by
  unfold tostr; rw [tpstr_val]; exact Nat.mod_eq_of_lt (ilog10Ceil_spec v h).2.1
theorem ilog10Ceil_eq_length (n : Nat) (h : n < 2^32) : ilog10Ceil n = (Nat.toDigits 10 n).length := by
  rw [← tostr_eq_toDigits n h]; unfold tostr; rw [tpstr_length]

end Echse.Strpf
