"""Generators for recurrence rules of the language property C01 names (RFC 5545 rule parts, weeks start on Monday)
and for the calendar phases that matter: leap years, month ends, 53-week years, fifth weekdays, negative ordinals,
interval phases, expansions crossing the 64-occurrence refill."""
from .rfc5545 import Rule, FREQS, mlen

SPECIAL_DATES = [(2020, 2, 29), (2019, 12, 31), (2021, 1, 1), (2024, 12, 30), (2026, 1, 31), (2032, 2, 28), (2015, 12, 28),
                 (2000, 2, 29), (1999, 12, 31), (2096, 2, 29), (1904, 1, 1), (2027, 5, 31), (2020, 12, 28), (2023, 10, 30)]


def gen_dtstart(rng, allday=None, lo=1902, hi=2090):
    if rng.random() < 0.3:
        y, m, d = rng.choice(SPECIAL_DATES)
    else:
        y = rng.choice([rng.randint(lo, hi), rng.randint(2000, 2040)])
        m = rng.randint(1, 12)
        d = rng.randint(1, mlen(y, m))
    if allday is None:
        allday = rng.random() < 0.4
    if allday:
        return (y, m, d, None, None, None)
    return (y, m, d, rng.choice([0, 8, 12, 23, rng.randint(0, 23)]), rng.choice([0, 30, 59, rng.randint(0, 59)]),
            rng.choice([0, 0, 59, rng.randint(0, 59)]))


def dtstart_text(t):
    return "%04d%02d%02d" % t[:3] + ("" if t[3] is None else "T%02d%02d%02d" % t[3:6])


def _some(rng, lo, hi, kmax, neg=False):
    k = rng.randint(1, kmax)
    out = []
    for _ in range(k):
        v = rng.randint(lo, hi)
        if neg and rng.random() < 0.35:
            v = -v
        if v not in out and v != 0:
            out.append(v)
    return out


def _some0(rng, lo, hi, kmax):
    return sorted(set(rng.randint(lo, hi) for _ in range(rng.randint(1, kmax))))


def gen_rule(rng, dtstart, freq=None, big_times=False, numbered_limit=0.0, yearly_combos=0.0):
    """a well-formed rule of the supported language fitting the DTSTART's value type; numbered_limit: probability that BYDAY
    carries ordinals where it acts as a limit (next to BYMONTHDAY / BYYEARDAY); yearly_combos: probability that a YEARLY rule
    combines BYWEEKNO or BYYEARDAY with BYMONTH / BYMONTHDAY / each other"""
    freq = freq or rng.choice(FREQS)
    allday = dtstart[3] is None
    if allday and freq in ("HOURLY", "MINUTELY", "SECONDLY"):
        freq = rng.choice(["YEARLY", "MONTHLY", "WEEKLY", "DAILY"])
    r = Rule(freq)
    if rng.random() < 0.45:
        r.interval = rng.choice([2, 3, 4, 5, 7, 10, 12, 24, 30, 45, 60, 90, 100, 400, rng.randint(2, 1000)])
    p = rng.random
    if freq == "YEARLY":
        shape = rng.choice(["plain", "mon", "mon+md", "md", "yd", "wk", "wk+dow", "dow", "mon+dow", "md+dow", "yd+dow", "mon+md+dow"])
        if p() < yearly_combos:
            shape = rng.choice(["mon+wk", "mon+wk+dow", "mon+yd", "yd+md", "wk+md+dow", "wk+yd", "mon+yd+dow", "wk+md"])
        if "mon" in shape:
            r.bymonth = _some(rng, 1, 12, 3)
        if "md" in shape.split("+"):
            r.bymonthday = _some(rng, 1, 31, 3, neg=True)
        if "yd" in shape:
            r.byyearday = _some(rng, 1, 366, 3, neg=True)
        if "wk" in shape:
            r.byweekno = _some(rng, 1, 53, 3, neg=True)
        if shape in ("mon+wk", "mon+wk+dow", "mon+yd", "yd+md", "wk+md+dow", "wk+yd", "mon+yd+dow", "wk+md") and p() < 0.6:
            # parts that can meet: built around one date
            import datetime as _d
            x = _d.date(rng.choice([2023, 2024, 2026]), rng.randint(1, 12), rng.randint(1, 28))
            if r.bymonth:
                r.bymonth = sorted(set(r.bymonth[:1] + [x.month]))
            if r.bymonthday:
                r.bymonthday = sorted(set(r.bymonthday[:1] + [x.day]))
            if r.byyearday:
                r.byyearday = sorted(set(r.byyearday[:1] + [x.timetuple().tm_yday, x.timetuple().tm_yday + 1]))
            if r.byweekno:
                r.byweekno = sorted(set(r.byweekno[:1] + [x.isocalendar()[1]]))
        if "dow" in shape:
            plain = "wk" in shape or (shape in ("md+dow", "yd+dow", "mon+md+dow", "mon+yd+dow") and not p() < numbered_limit) or p() < 0.4
            omax = 5 if "mon" in shape else 53
            r.byday = []
            for _ in range(rng.randint(1, 3)):
                o = 0 if plain else rng.choice([1, 2, -1, -2, rng.randint(1, omax), -rng.randint(1, omax)])
                e = (o, rng.randint(0, 6))
                if e not in r.byday:
                    r.byday.append(e)
    elif freq == "MONTHLY":
        if p() < 0.4:
            r.bymonth = _some(rng, 1, 12, 4)
        shape = rng.choice(["plain", "md", "dow", "md+dow", "dow"])
        if "md" in shape:
            r.bymonthday = _some(rng, 1, 31, 4, neg=True)
        if "dow" in shape:
            plain = (shape == "md+dow" and not p() < numbered_limit) or p() < 0.4
            r.byday = []
            for _ in range(rng.randint(1, 3)):
                o = 0 if plain else rng.choice([1, 2, 3, 4, 5, -1, -2, -5])
                e = (o, rng.randint(0, 6))
                if e not in r.byday:
                    r.byday.append(e)
    elif freq == "WEEKLY":
        if p() < 0.3:
            r.bymonth = _some(rng, 1, 12, 4)
        if p() < 0.7:
            r.byday = [(0, w) for w in sorted(set(rng.randint(0, 6) for _ in range(rng.randint(1, 4))))]
    else:
        if p() < 0.3:
            r.bymonth = _some(rng, 1, 12, 4)
        if p() < 0.3:
            r.bymonthday = _some(rng, 1, 31, 4, neg=True)
        if p() < 0.3:
            r.byday = [(0, w) for w in sorted(set(rng.randint(0, 6) for _ in range(rng.randint(1, 4))))]
        if freq != "DAILY" and p() < 0.1:
            r.byyearday = _some(rng, 1, 366, 3, neg=True)
    if not allday:
        kmax = 24 if big_times else 3
        if p() < (0.6 if big_times else 0.3):
            r.byhour = _some0(rng, 0, 23, kmax)
        if p() < (0.6 if big_times else 0.3):
            r.byminute = _some0(rng, 0, 59, 60 if big_times else 3)
        if p() < (0.5 if big_times else 0.25):
            r.bysecond = _some0(rng, 0, 59, 60 if big_times else 3)
    elif p() < 0.12:
        # time parts next to a DATE value: to be ignored (RFC 5545, 3.3.10)
        if p() < 0.4:
            r.byhour = _some0(rng, 0, 23, 2)
        if p() < 0.6:
            r.byminute = _some0(rng, 0, 59, 3)
        if p() < 0.5 or not (r.byhour or r.byminute):
            r.bysecond = _some0(rng, 0, 59, 2)
    if freq in ("YEARLY", "MONTHLY", "WEEKLY", "DAILY") and p() < 0.2 and (r.byday or r.bymonthday or r.byyearday or r.byhour or r.bymonth):
        r.bysetpos = _some(rng, 1, 4, 2, neg=True)
    z = p()
    if z < 0.3:
        r.count = rng.choice([1, 2, 3, 10, 63, 64, 65, 100, 128, 129, 200, rng.randint(1, 300)])
    elif z < 0.5:
        # an UNTIL of DTSTART's value type some way into the future
        y, m, d = dtstart[:3]
        span = {"YEARLY": 40, "MONTHLY": 8, "WEEKLY": 3, "DAILY": 2}.get(freq, 1)
        y2 = min(2098, y + rng.randint(0, span))
        m2 = rng.randint(1, 12)
        d2 = rng.randint(1, mlen(y2, m2))
        if (y2, m2, d2) < (y, m, d):
            y2, m2, d2 = y, m, d
        r.until = (y2, m2, d2, None, None, None) if allday else (y2, m2, d2, rng.randint(0, 23), rng.randint(0, 59), rng.randint(0, 59))
    return r


def shape_of(r, dtstart):
    parts = [r.freq[:3]]
    for k, v in (("I", r.interval != 1), ("mon", r.bymonth), ("wk", r.byweekno), ("yd", r.byyearday), ("md", r.bymonthday),
                 ("dow", r.byday and all(o == 0 for o, _ in r.byday)), ("ndow", r.byday and any(o for o, _ in r.byday)),
                 ("H", r.byhour), ("M", r.byminute), ("S", r.bysecond), ("pos", r.bysetpos), ("cnt", r.count is not None),
                 ("unt", r.until is not None)):
        if v:
            parts.append(k)
    parts.append("date" if dtstart[3] is None else "time")
    return "+".join(parts)
