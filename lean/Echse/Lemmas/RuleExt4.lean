/-
  C17 lemmas, part 4: the packed SHIFT value (xor of non-overlapping fields) and single steps of `snarf_shift`.
-/
import Echse.Lemmas.RuleExt3
namespace Echse.RuleExt
open Echse.Rrule

theorem xor_low (i a x : Nat) (hx : x < 2 ^ i) : (2 ^ i * a) ^^^ x = 2 ^ i * a + x := by
  apply Nat.eq_of_testBit_eq
  intro j
  rw [Nat.testBit_xor, Nat.testBit_two_pow_mul, Nat.testBit_two_pow_mul_add a hx]
  by_cases h : j < i
  · have h' : ¬ i ≤ j := by omega
    simp [h, h']
  · have : x.testBit j = false := Nat.testBit_lt_two_pow (Nat.lt_of_lt_of_le hx (Nat.pow_le_pow_right (by omega) (by omega)))
    simp [h, this]
    intro _; omega

/-- the packed value: the three fields do not overlap, so the xors are sums -/
theorem xor_pack (d b : Int) (sem : Nat) (hd : -366 ≤ d ∧ d ≤ 366) (hb : 0 ≤ b ∧ b ≤ 366) (hs : sem < 4) :
    xor32 (xor32 (d * 65536) (b * 4)) sem = d * 65536 + b * 4 + sem := by
  have e1 : toU32 (d * 65536) = 2 ^ 16 * ((d + 65536).toNat % 65536) := by unfold toU32 u32; omega
  have e2 : toU32 (b * 4) = b.toNat * 4 := by unfold toU32 u32; omega
  have x1 : toU32 (d * 65536) ^^^ toU32 (b * 4) = 2 ^ 16 * ((d + 65536).toNat % 65536) + b.toNat * 4 := by
    rw [e1, e2]; exact xor_low 16 _ _ (by omega)
  have s1 : xor32 (d * 65536) (b * 4) = d * 65536 + b * 4 := by
    unfold xor32; rw [x1]; unfold toS32 u32; split <;> omega
  rw [s1]
  have e3 : toU32 (d * 65536 + b * 4) = 2 ^ 2 * ((d * 16384 + b + 1073741824).toNat % 1073741824) := by
    unfold toU32 u32; omega
  have e4 : toU32 (sem : Int) = sem := by unfold toU32 u32; omega
  unfold xor32
  rw [e3, e4, xor_low 2 _ _ (by omega)]
  unfold toS32 u32; split <;> omega

/-- within the README's range the packed value is the xor of the three fields -/
theorem packShift_eq (d b : Int) (sem : Nat) (hd : -366 ≤ d ∧ d ≤ 366) (hb : -366 ≤ b ∧ b ≤ 366) :
    packShift d b sem = xor32 (xor32 (d * 65536) (b * 4)) sem := by
  unfold packShift
  rw [if_neg (by omega)]

theorem go_end (fuel : Nat) (spec : List Char) (sem : Nat) (b d tmp : Int) (h : strtol spec = (tmp, [])) (ht : -366 ≤ tmp ∧ tmp ≤ 366) :
    snarfShiftGo (fuel+1) spec sem b d = packShift (d + tmp) b sem := by
  rw [snarfShiftGo]; simp only [h]
  rw [if_neg (by omega)]

theorem go_comma (fuel : Nat) (spec r : List Char) (sem : Nat) (b d tmp : Int) (h : strtol spec = (tmp, ',' :: r)) (ht : -366 ≤ tmp ∧ tmp ≤ 366) :
    snarfShiftGo (fuel+1) spec sem b d = snarfShiftGo fuel r sem b (d + tmp) := by
  rw [snarfShiftGo]; simp only [h]
  rw [if_neg (by omega)]
  simp

/-- the final `…B`, `…B+`, `…B-` of a text, as a function of the number read and the suffix -/
def finB (sem : Nat) (b d : Int) (neg : Bool) : Int :=
  let sem := sem ||| (if b < 0 ∨ (b = 0 ∧ neg) then 1 else 0)
  let sem := sem ||| ((if b = 0 then 1 else 0) <<< 1)
  let b := if b ≥ 0 then b else -b
  packShift d b sem

/-- `finB` with the xor spelled out, as it is for values within the README's range -/
def finBx (sem : Nat) (b d : Int) (_neg : Bool) : Int :=
  let neg := _neg
  let sem := sem ||| (if b < 0 ∨ (b = 0 ∧ neg) then 1 else 0)
  let sem := sem ||| ((if b = 0 then 1 else 0) <<< 1)
  let b := if b ≥ 0 then b else -b
  xor32 (xor32 (d * 65536) (b * 4)) sem

theorem finB_eq_finBx (sem : Nat) (b d : Int) (neg : Bool) (hb : -366 ≤ b ∧ b ≤ 366) (hd : -366 ≤ d ∧ d ≤ 366) :
    finB sem b d neg = finBx sem b d neg := by
  unfold finB finBx
  simp only []
  rw [packShift_eq _ _ _ hd (by split <;> omega)]

theorem go_B (fuel : Nat) (spec : List Char) (sem : Nat) (b d tmp : Int) (h : strtol spec = (tmp, ['B'])) (ht : -366 ≤ tmp ∧ tmp ≤ 366) :
    snarfShiftGo (fuel+1) spec sem b d = finB sem (b + tmp) d (decide (spec.head? = some '-')) := by
  rw [snarfShiftGo]; simp only [h]
  rw [if_neg (by omega)]
  simp [snarfShiftGo.again, finB]

theorem go_Bplus (fuel : Nat) (spec : List Char) (sem : Nat) (b d tmp : Int) (h : strtol spec = (tmp, ['B', '+'])) (ht : -366 ≤ tmp ∧ tmp ≤ 366) :
    snarfShiftGo (fuel+1) spec sem b d =
      finB (sem ||| ((if tmp ≥ 0 then 1 else 0) <<< 1)) (b + tmp) d (decide (spec.head? = some '-')) := by
  rw [snarfShiftGo]; simp only [h]
  rw [if_neg (by omega)]
  simp [snarfShiftGo.again, finB]

theorem go_Bminus (fuel : Nat) (spec : List Char) (sem : Nat) (b d tmp : Int) (h : strtol spec = (tmp, ['B', '-'])) (ht : -366 ≤ tmp ∧ tmp ≤ 366) :
    snarfShiftGo (fuel+1) spec sem b d =
      finB (sem ||| ((if tmp < 0 then 1 else 0) <<< 1)) (b + tmp) d (decide (spec.head? = some '-') || tmp == 0) := by
  rw [snarfShiftGo]; simp only [h]
  rw [if_neg (by omega)]
  simp [snarfShiftGo.again, finB]
end Echse.RuleExt
