/-
  Calendar specification: proleptic Gregorian day numbers and the point in time an
  instant denotes.  This file is the *spec* the C08/C04/C07 theorems refer to; it is
  meant to be read, contains no cleverness and mentions nothing of the C code.
-/
import Echse.Model.Instant
namespace Echse.Spec.Cal
open Echse.Instant

def isLeap (y : Nat) : Bool := y % 4 = 0 ∧ (y % 100 ≠ 0 ∨ y % 400 = 0)

def monthLen (y m : Nat) : Nat :=
  match m with
  | 1 => 31 | 2 => if isLeap y then 29 else 28 | 3 => 31 | 4 => 30 | 5 => 31 | 6 => 30
  | 7 => 31 | 8 => 31 | 9 => 30 | 10 => 31 | 11 => 30 | 12 => 31 | _ => 0

/-- day number of y-m-d on the proleptic Gregorian calendar (days since 0000-03-01; the
textbook "days from civil" formula with March-based years). -/
def days (y m d : Nat) : Int :=
  let y' : Int := if m ≤ 2 then (y : Int) - 1 else y
  let mp : Int := if m ≤ 2 then (m : Int) + 9 else (m : Int) - 3
  365 * y' + y' / 4 - y' / 100 + y' / 400 + (153 * mp + 2) / 5 + (d : Int) - 1

def msPerDay : Int := 86400000

/-- milliseconds since 0000-03-01T00:00 of a timed instant -/
def absMs (i : Inst) : Int :=
  days i.y i.m i.d * msPerDay + (((i.H : Int) * 60 + i.M) * 60 + i.S) * 1000 + i.ms

/-- seconds of an instant with second resolution (`ms = allSec`) -/
def absSec (i : Inst) : Int :=
  days i.y i.m i.d * 86400 + (((i.H : Int) * 60 + i.M) * 60 + i.S)

def ValidDate (i : Inst) : Prop := 1 ≤ i.m ∧ i.m ≤ 12 ∧ 1 ≤ i.d ∧ i.d ≤ monthLen i.y i.m
/-- a normal timed instant with millisecond resolution -/
def Normal (i : Inst) : Prop := ValidDate i ∧ i.H < 24 ∧ i.M < 60 ∧ i.S < 60 ∧ i.ms < 1000
/-- a normal instant with second resolution -/
def NormalSec (i : Inst) : Prop := ValidDate i ∧ i.H < 24 ∧ i.M < 60 ∧ i.S < 60 ∧ i.ms = allSec
/-- a normal all-day instant -/
def NormalDay (i : Inst) : Prop := ValidDate i ∧ i.H = allDay
def InRange (i : Inst) : Prop := 1901 ≤ i.y ∧ i.y ≤ 2099

instance (i : Inst) : Decidable (ValidDate i) := by unfold ValidDate; infer_instance
instance (i : Inst) : Decidable (Normal i) := by unfold Normal; infer_instance
instance (i : Inst) : Decidable (NormalSec i) := by unfold NormalSec; infer_instance
instance (i : Inst) : Decidable (NormalDay i) := by unfold NormalDay; infer_instance
instance (i : Inst) : Decidable (InRange i) := by unfold InRange; infer_instance

/-- unix epoch in the same day count -/
def epochDays : Int := days 1970 1 1

end Echse.Spec.Cal
