/* line-protocol harness for the stream layer (C03 mux, C02 filter, later C01/C16 rule streams).
 * #includes evical.c of the scratch copy so that its static constructors are reachable;
 * linked against the other library objects. */
#include <stddef.h>
/* the guarded hook of evical.c: every unfolded line _ical_proc acts upon is logged here */
static char linelog[1 << 20];
static size_t nlinelog;
static int linelog_on;
void echse_verif_line(const char *line, size_t len)
{
	if (!linelog_on) return;
	for (size_t i = 0; i < len && nlinelog + 4 < sizeof(linelog); i++) {
		static const char hx[] = "0123456789abcdef";
		linelog[nlinelog++] = hx[(unsigned char)line[i] >> 4];
		linelog[nlinelog++] = hx[(unsigned char)line[i] & 15];
	}
	if (nlinelog + 2 < sizeof(linelog)) linelog[nlinelog++] = ',';
}
#include "evical.c"
#include <inttypes.h>

/* tree:  L n ev…  |  M k tree…  |  F tree tree      ev = hex16:oid:dur */
static char **tk;
static int ntk, ptk;

static echs_evstrm_t parse_tree(void)
{
	if (ptk >= ntk) return NULL;
	const char *t = tk[ptk++];
	if (!strcmp(t, "L")) {
		size_t n = strtoul(tk[ptk++], NULL, 10);
		echs_event_t *ev = calloc(n + 1, sizeof(*ev));
		for (size_t i = 0; i < n; i++) {
			char *s = tk[ptk++];
			char *c1 = strchr(s, ':');
			char *c2 = c1 ? strchr(c1 + 1, ':') : NULL;
			ev[i].from.u = strtoull(s, NULL, 16);
			ev[i].oid = c1 ? strtoul(c1 + 1, NULL, 10) : 0;
			ev[i].dur.d = c2 ? strtoll(c2 + 1, NULL, 10) : 0;
		}
		echs_evstrm_t r = n ? make_evical_vevent(ev, n) : NULL;
		free(ev);
		return r;
	} else if (!strcmp(t, "M")) {
		size_t k = strtoul(tk[ptk++], NULL, 10);
		echs_evstrm_t *s = calloc(k + 1, sizeof(*s));
		for (size_t i = 0; i < k; i++) s[i] = parse_tree();
		echs_evstrm_t r = echs_evstrm_vmux(s, k);
		free(s);
		return r;
	} else if (!strcmp(t, "F")) {
		echs_evstrm_t e = parse_tree();
		echs_evstrm_t x = parse_tree();
		return make_evfilt(e, x);
	}
	return NULL;
}

/* ---------------------------------------------------------------- parser ops */
static void pnms(const char *k, nummapstr_t x)
{
	const char *t;
	uintptr_t n;
	if (!x) printf("|%s=", k);
	else if ((t = nummapstr_str(x))) printf("|%s=s:%s", k, t);
	else if ((n = nummapstr_num(x)) != NUMMAPSTR_NAN) printf("|%s=n:%lu", k, (unsigned long)n);
	else printf("|%s=nan", k);
}
static void pstr(const char *k, const char *v)
{
	printf("|%s=", k);
	if (!v) { printf("~"); return; }
	for (; *v; v++) { if (*v == '|' || *v == '}' || *v == '\n' || *v == ' ' || *v == '\\' || (unsigned char)*v < 32) printf("\\x%02x", (unsigned char)*v); else putchar(*v); }
}
static void dump_task(echs_task_t t, int nocc)
{
	printf("S{uid=%s", t->oid ? obint_name(t->oid) : "~");
	pstr("cmd", t->cmd);
	pnms("owner", t->owner);
	pnms("u", t->run_as.u);
	pnms("g", t->run_as.g);
	pstr("wd", t->run_as.wd);
	pstr("sh", t->run_as.sh);
	pstr("in", t->in); pstr("out", t->out); pstr("err", t->err);
	printf("|mail=%u%u%u%u%u%u", t->mailout, t->moutset, t->mailerr, t->merrset, t->mailrun, t->mrunset);
	printf("|umsk=%u|maxsim=%u", (unsigned)t->umsk, (unsigned)t->max_simul);
	pstr("org", t->org);
	printf("|att=");
	if (t->att) for (size_t i = 0; i < t->att->nl; i++) { printf("%s", i ? "," : ""); pstr("a", t->att->l[i]); }
	pstr("desc", t->desc);
	printf("|vtod=%u", (unsigned)t->vtod_typ);
	if (t->vtod_typ == 1) printf("|timeout=%lld", (long long)t->timeout.d);
	else if (t->vtod_typ == 2) printf("|due=%016llx", (unsigned long long)t->due.u);
	printf("|occ=");
	if (t->strm) {
		for (int i = 0; i < nocc; i++) {
			echs_event_t e = echs_evstrm_pop(t->strm);
			if (echs_event_0_p(e)) { printf("%s-", i ? "," : ""); break; }
			printf("%s%016llx+%lld", i ? "," : "", (unsigned long long)e.from.u, (long long)e.dur.d);
		}
	} else printf("~");
	printf("}");
}

static void do_parse(char *hex, char **sizes, int nsizes, int nocc, int withlines)
{
	static char txt[1 << 20];
	size_t len = 0;
	for (char *h = hex; h[0] && h[1] && len + 1 < sizeof(txt); h += 2) { unsigned v; sscanf(h, "%2x", &v); txt[len++] = (char)v; }
	txt[len] = 0;
	ical_parser_t pp = NULL;
	size_t off = 0;
	int first = 1;
	nlinelog = 0; linelog_on = withlines;
	char *prev = NULL;
	for (int k = 0; off < len; k++) {
		size_t c = k < nsizes ? strtoul(sizes[k], NULL, 10) : len - off;
		if (c == 0 || c > len - off) c = len - off;
		/* callers hand the parser a buffer of their own that is valid until the next push: copy the chunk so that
		 * reading past its end is visible to ASan */
		char *chunk = malloc(c);
		memcpy(chunk, txt + off, c);
		off += c;
		free(prev);          /* a caller's buffer stays valid until it pushes the next one (or finishes) */
		prev = chunk;
		if (echs_evical_push(&pp, chunk, c) >= 0) {
			for (;;) {
				echs_instruc_t ins = echs_evical_pull(&pp);
				if (ins.v == INSVERB_SCHE) {
					if (ins.t == NULL) continue;
					printf("%s", first ? "" : " "); first = 0;
					dump_task(ins.t, nocc);
					free_echs_task(ins.t);
				} else if (ins.v == INSVERB_UNSC) {
					printf("%sU{%s}", first ? "" : " ", ins.o ? obint_name(ins.o) : "~"); first = 0;
				} else if (ins.v == INSVERB_RESC) {
					printf("%sR{%s}", first ? "" : " ", ins.o ? obint_name(ins.o) : "~"); first = 0;
				} else break;
			}
		}
	}
	if (pp != NULL) {
		echs_instruc_t ins = echs_evical_last_pull(&pp);
		if (ins.v == INSVERB_SCHE && ins.t != NULL) { printf("%sL", first ? "" : " "); first = 0; dump_task(ins.t, nocc); free_echs_task(ins.t); }
	}
	free(prev);
	linelog_on = 0;
	if (first) printf("none");
	if (withlines) { linelog[nlinelog] = 0; printf(" # %s", linelog); }
	putchar('\n');
}

int main(void)
{
	static char line[1 << 22];
	static char *toks[1 << 18];
	setvbuf(stdout, NULL, _IOLBF, 0);
	while (fgets(line, sizeof(line), stdin)) {
		line[strcspn(line, "\r\n")] = 0;
		ntk = 0;
		for (char *p = strtok(line, " "); p && ntk < (1 << 18); p = strtok(NULL, " ")) toks[ntk++] = p;
		if (ntk == 0) { puts("bad-op"); continue; }
		if ((!strcmp(toks[0], "p.parse") || !strcmp(toks[0], "p.lines")) && ntk >= 2) {
			/* p.parse HEX | chunk sizes…   (p.lines: also the unfolded lines the parser acted upon) */
			int bar = 2;
			do_parse(toks[1], toks + (ntk > bar ? bar + 1 : ntk), ntk > bar + 1 ? ntk - bar - 1 : 0, 4, !strcmp(toks[0], "p.lines"));
		} else if (!strcmp(toks[0], "m.run")) {
			int hash = 1;
			while (hash < ntk && strcmp(toks[hash], "#")) hash++;
			tk = toks; ptk = 1;
			int save = ntk; ntk = hash;
			echs_evstrm_t s = parse_tree();
			ntk = save;
			int first = 1;
			for (int j = hash + 1; j < ntk; j++) {
				for (const char *c = toks[j]; *c; c++) {
					echs_event_t e = {0};
					if (s != NULL) e = (*c == 'p') ? echs_evstrm_pop(s) : echs_evstrm_next(s);
					if (echs_event_0_p(e)) printf("%s-", first ? "" : " ");
					else printf("%s%016" PRIx64 ":%lu", first ? "" : " ", e.from.u, (unsigned long)e.oid);
					first = 0;
				}
			}
			putchar('\n');
			if (s != NULL) free_echs_evstrm(s);
		} else {
			puts("bad-op");
		}
	}
	return 0;
}
