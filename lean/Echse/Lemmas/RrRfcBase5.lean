/-
  Shared base of the C01 proofs for the daily and the weekly filler, part 5: the specification's order `absOf` against
  the code's `ltP` for an instance and the seed; from the accumulator's order keys to `ltP`.
-/
import Echse.Lemmas.RrRfcBase4
namespace Echse.Lemmas.RrRfc
open Echse.Rrule Echse.Instant Echse.Spec.RrOk Echse.Spec.Cal Echse.Spec.RuleExt Echse.Spec.Rfc
open Echse.Lemmas.RrOkBase

theorem secOf_range (p x : Inst) (h : KindOk p x) : 0 ≤ secOf x ∧ secOf x < 86400 := by
  unfold secOf
  rcases h with ⟨_, k2, _, _⟩ | ⟨_, k2, k3, k4⟩
  · rw [if_pos k2]; omega
  · rw [if_neg (by unfold allDay; omega)]; omega

theorem kindOk_self {p : Inst} (hp : WfInst p) : KindOk p p := by
  rcases hp.time with ⟨a, b, c⟩ | ⟨a, b, c⟩
  · exact Or.inl ⟨a, a, rfl, rfl⟩
  · exact Or.inr ⟨by unfold allDay; omega, a, b, c⟩

/-- an instance of the same kind as the seed and not before it in the specification's order is not before it in the
code's; in particular the seed's year is not beyond 2099 if the instance's is not -/
theorem ge_seed {p x : Inst} (hp : WfInst p) (hy : 1901 ≤ p.y) (hk : SameKind p x) (hxy : x.y ≤ 2099)
    (hge : absOf p ≤ absOf x) : ltP x p = false ∧ InR x ∧ p.y ≤ 2099 := by
  obtain ⟨s1, s2, s3, s4, s5, s6⟩ := hk
  have hpm := hp.month
  have hpd := hp.day
  have hpt := hp.time
  have hxv : VDs x.y x.m x.d := ⟨s1, s2, s3, s4⟩
  have hx31 := hxv.d31
  have hsx := secOf_range p x s6
  have hsp := secOf_range p p (kindOk_self hp)
  have hpy : p.y ≤ 2099 := by
    by_cases c : p.y ≤ 2099
    · exact c
    · exfalso
      have a := days_ge_2100 (show 2100 ≤ p.y by omega) hpm.1 hpm.2
      have b := days_d p.y p.m p.d
      have c := days_lt_2100 hxv hxy
      unfold absOf dayOf at hge
      omega
  have hpv : VDs p.y p.m p.d := ⟨hpm.1, hpm.2, hpd.1, by rw [← ndom_eq hpm.1 hpm.2 (lowOk_seed hy) hpy]; exact hpd.2⟩
  have hkt : KindT p x := by
    unfold allDay at s6 hpt
    rcases s6 with ⟨a, b, c, d⟩ | ⟨a, b, c, d⟩
    · refine Or.inl ⟨a, b, c, d, ?_, ?_⟩ <;> omega
    · refine Or.inr ⟨?_, ?_, ?_, b, c, d⟩ <;> omega
  have hik := ikey_le_of_abs hpv hxv hkt hge
  have hxin : InR x := by
    have hms := hp.ms
    unfold allDay at s6 hpt
    refine ⟨by omega, by omega, by omega, ?_, ?_, ?_, by omega⟩
    · rcases s6 with ⟨a, b, c, d⟩ | ⟨a, b, c, d⟩ <;> omega
    · rcases s6 with ⟨a, b, c, d⟩ | ⟨a, b, c, d⟩ <;> omega
    · rcases s6 with ⟨a, b, c, d⟩ | ⟨a, b, c, d⟩ <;> omega
  exact ⟨(ltP_key_false x p hxin (inR_of_wf hp) s5).2 hik, hxin, hpy⟩

/-- from the accumulator's order keys to `ltP` -/
theorem acc_ltP {r : Rule} {p x : Inst} {nti : Nat} {l : List Inst} (hacc : Acc r p nti l) (hxin : InR x)
    (hms : x.ms = p.ms) (h : ∀ z ∈ l, ikey z < ikey x) : ∀ z ∈ l, ltP z x = true := by
  intro z hz
  have mz := hacc.mem z hz
  exact (ltP_key z x (inR_of_wf mz.wf) hxin (by rw [mz.ms, hms])).2 (h z hz)

end Echse.Lemmas.RrRfc
