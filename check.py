#!/usr/bin/env python3
"""check.py Cxx [--tier quick|thorough] [--replay FILE]   (cwd: /verif)"""
import argparse
import importlib
import json
import random
import os
import sys
import traceback

sys.path.insert(0, os.path.dirname(os.path.abspath(__file__)))
from vlib import common  # noqa: E402


def main():
    ap = argparse.ArgumentParser()
    ap.add_argument("prop")
    ap.add_argument("--tier", default=os.environ.get("VERIF_TIER", "quick"), choices=["quick", "thorough"])
    ap.add_argument("--replay")
    a = ap.parse_args()
    seed = int(os.environ.get("VERIF_SEED", "1"))
    ctx = common.Ctx(a.prop, a.tier, seed)
    mod = importlib.import_module("vlib.p_%s" % a.prop)
    rc = 2
    try:
        ctx.prepare()
        if a.replay:
            rc = mod.replay(ctx, json.load(open(a.replay)))
            return rc
        proved = ctx.proofs(gen=True)
        mod.run(ctx)
        # the thorough tier goes through its generators again with further seeds derived from VERIF_SEED (the fixed probes and
        # the exhaustive sweeps of a property repeat; the counts of all rounds are added up, the rest describes round 0)
        rounds = int(os.environ.get("VERIF_ROUNDS", "3" if a.tier == "thorough" else "1"))
        if rounds > 1 and not ctx.violations:
            first = dict(ctx.cov)
            tot = {k: v for k, v in first.items() if isinstance(v, int) and not isinstance(v, bool)
                   and (k in ("evaluations", "distinct_nontrivial", "traces_validated_against_impl")
                        or k.endswith(("_checked", "_failures", "_differences", "_crossed", "_judged_by_rfc")))}
            log = []
            for r in range(1, rounds):
                ctx.seed = seed + 7919 * r
                ctx.rng = random.Random(ctx.seed * 1000003 + int(a.prop[1:]))
                ctx.cov = {}
                mod.run(ctx)
                log.append({"seed": ctx.seed, **{k: v for k, v in ctx.cov.items() if k in tot and isinstance(v, int)}})
                for k in tot:
                    if isinstance(ctx.cov.get(k), int) and not isinstance(ctx.cov.get(k), bool):
                        tot[k] += ctx.cov[k]
                if ctx.violations:
                    break
            ctx.cov = first
            ctx.cov.update(tot)
            ctx.cov["rounds"] = [{"seed": seed, "round": 0}] + log
            ctx.seed = seed
        if not proved and not any(v["found"] for v in ctx.violations):
            # a proof obligation no longer checks and no failing input turned up
            ctx.violation("proof", "proof obligations of Echse.Props.%s not discharged: %s"
                          % (a.prop, "; ".join(ctx.proof["errors"])[:600]),
                          {"theorem_module": "Echse.Props.%s" % a.prop, "errors": ctx.proof["errors"],
                           "build_log_tail": ctx.proof.get("build_log_tail")}, found_input=False)
        rc = ctx.finish()
    except common.Broken as e:
        print("BROKEN: %s" % e)
        ctx.violation("machinery", "the check could not run: %s" % e, {"error": str(e)}, found_input=False)
        rc = ctx.finish()
    except Exception:
        traceback.print_exc()
        ctx.violation("machinery", "the check crashed", {"error": traceback.format_exc()}, found_input=False)
        rc = ctx.finish()
    finally:
        ctx.cleanup()
    return rc


if __name__ == "__main__":
    sys.exit(main())
