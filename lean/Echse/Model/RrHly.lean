/-
  Model of `rrul_fill_Hly` (src/evrrul.c:1884-2108, FREQ=HOURLY) with `inter_past` (1841-1848), `pos_pick_p` (1850-1870),
  `pos_pick_any_p` (1872-1882) and the parts the three sub-daily fillers (`rrul_fill_Hly`, `rrul_fill_Mly`, `rrul_fill_Sly`)
  have in common: the masks, the day tests, the BYYEARDAY test.  Hand transcription, loop by loop; C `unsigned int`
  arithmetic that can wrap is written with explicit `% u32`.  Tied to the C code by tools/rrfillprobe.py.

  Every C loop is a recursion over a finite list or a recursive function with a `fuel` argument; running out of fuel
  yields `none` ("not modelled"), never a wrong list.  The loops are tail recursive (SECONDLY rules take millions of
  rounds): results are accumulated in reverse (`acc`, newest first), the C variable `res` is `cnt = acc.length`.
-/
import Echse.Model.RrDly
import Echse.Model.RrCand
namespace Echse.Rrule
open Echse.Instant

/-- the year after which the sub-daily fillers give up (2038, 2281, 2548: `y > 2099U`) -/
def subMaxYear : Nat := 2099

/-- `inter_past(rem, inter)` (1841-1848): `((rem - 1U) / inter + 1U) * inter`; callers have `inter ≠ 0` -/
def interPast (rem inter : Nat) : Nat :=
  ((((rem + u32 - 1) % u32) / inter + 1) % u32 * inter) % u32

/-- `pos_pick_p(poss, i, n)` (1850-1870): an empty BYSETPOS picks all; else `pos == i + 1` or, for negative `pos`,
`-pos <= n && n - -pos == i` (`size_t` arithmetic, no wrap) -/
def posPickP (poss : List Int) (i n : Nat) : Bool :=
  poss.isEmpty || poss.any fun pos =>
    (pos > 0 && pos.toNat == i + 1) || (pos < 0 && decide ((-pos).toNat ≤ n) && n - (-pos).toNat == i)

/-- `pos_pick_any_p(poss, n)` (1872-1882): `for (i = 0; i < n; i++) if (pos_pick_p(poss, i, n)) return true;` -/
def posPickAnyP (poss : List Int) (n : Nat) : Bool :=
  (List.range n).any fun i => posPickP poss i n

/-- `1ULL << k`: a count ≥ 64 is undefined in C; x86 takes it mod 64.  Only reached with `k ≥ 64` for a proto whose
minute or second is out of range. -/
def shl1q (k : Nat) : Nat := 1 <<< (k % 64)

/-- 1976-1987 (2197-2208, 2444-2455): `H_mask |= 1U << tmp` over BYHOUR; `uint_fast32_t` has 64 bits here, so
`H_mask = ~H_mask` gives 64 ones (only tested with 32-bit values `1U << H`) -/
def hourMask (H : List Nat) : Nat :=
  let hm := H.foldl (fun (m : Nat) (t : Nat) => m ||| shl1 t) 0
  if hm = 0 then 2^64 - 1 else hm

/-- 2210-2221 (2457-2468, 2470-2481): `M_mask |= 1ULL << tmp` over BYMINUTE (BYSECOND), all ones when nothing is set -/
def min64Mask (M : List Nat) : Nat :=
  let mm := M.foldl (fun (m : Nat) (t : Nat) => m ||| shl1q t) 0
  if mm = 0 then 2^64 - 1 else mm

/-- what the loops of one call share (all three sub-daily fillers) -/
structure SubCtx where
  r : Rule
  proto : Inst
  nti : Nat
  inter : Nat                -- `rr->inter`, an `unsigned int`
  wdMask : Nat
  mMask : Nat
  posdMask : Nat
  negdMask : Nat
  HMask : Nat
  MMask : Nat
  SMask : Nat
  e : Enum

/-- the mask set-up all three fillers start with (1926-1987; 2147-2221; 2394-2481) and `make_enum` (1924, 2145) -/
def mkSubCtx (r : Rule) (proto : Inst) (nti : Nat) : SubCtx :=
  -- 1926-1943: bit w for plain weekdays, bit 0 for counted ones (uint8_t); all days if no plain weekday is set
  let wdMask := wdMaskOf r.dow
  let wdMask := if wdMask / 2 = 0 then wdMask ||| 0b11111110 else wdMask
  let (posdMask, negdMask) := domMasks r.dom
  { r, proto, nti, inter := r.inter % u32, wdMask, mMask := monMask r.mon, posdMask, negdMask,
    HMask := hourMask r.H, MMask := min64Mask r.M, SMask := min64Mask r.S, e := makeEnum { proto with H := if proto.H = allDay then 0 else proto.H } r }   -- `pr.H = H`: an all-day seed is midnight here

/-- 2049-2061 (2292-2304, 2559-2574): the weekday, month and day-of-month tests of the loop body; `true` = one of
them filters the day.  `w` is 1..7 and `m` 1..12 here; `maxd - d` wraps when the proto's day exceeds its month. -/
def SubCtx.dayOut (c : SubCtx) (w m d maxd : Nat) : Bool :=
  !bit c.wdMask w || !bit c.mMask m ||
  ((c.posdMask &&& shl1 d) = 0 && (c.negdMask &&& shl1 ((maxd + u32 - d) % u32)) = 0)

/-- 2068-2075 (2317-2324, 2591-2598): the manual iteration over BYYEARDAY; `true` = `goto bang`.
`maxy + ++tmp == yd` is `unsigned int` arithmetic. -/
def doyHit (doy : List Int) (yd maxy : Nat) : Bool :=
  doy.any fun tmp =>
    (tmp > 0 && tmp.toNat == yd) || (tmp < 0 && (((maxy : Int) + (tmp + 1)) % (u32 : Int)).toNat == yd)

/-- `(y % 4U) ? 365 : 366` -/
def maxyOf (y : Nat) : Nat := if y % 4 ≠ 0 then 365 else 366

/-- `if (w > SUN) w = w % 7U ?: SUN;` -/
def wrapWd (w : Nat) : Nat := if w > 7 then (if w % 7 = 0 then 7 else w % 7) else w

/-! ### `rrul_fill_Hly` -/

/-- 1994-2002: `for (k = 0, tmp = H; !(H_mask & (1U << tmp)); tmp = (tmp + rr->inter % 24U) % 24U) if (++k >= 24U) goto fin;`
`some true` = an allowed hour is reachable, `some false` = `goto fin`.  Fuel: `k` grows by one per round and the
loop is left at `k = 24`, so 24 rounds suffice. -/
def hlyReach (c : SubCtx) : Nat → Nat → Nat → Option Bool
  | 0, _, _ => none
  | fuel+1, k, tmp =>
    if (c.HMask &&& shl1 tmp) ≠ 0 then some true
    else if k + 1 ≥ 24 then some false
    else hlyReach c fuel (k + 1) ((tmp + c.inter % 24) % 24)

/-- the index pairs and values `(iM, iS, e.M[iM], e.S[iS])` that `for (ENUM_INIT(e, iS, iM); … ENUM_COND(e, iS, iM);
ENUM_ITER(e, iS, iM))` visits (2082-2083): minutes outer, seconds inner; the hour level of the macros is the hidden
counter `auto_m`, which ENUM_ITER sets to -2U in every round, so that the loop ends after one pass -/
def Enum.timesMS (e : Enum) : List (Nat × Nat × Nat × Nat) :=
  e.M.zipIdx.flatMap fun (mi, iM) => e.S.zipIdx.map fun (s, iS) => (iM, iS, mi, s)

/-- 2082-2104: the ENUM loop of the hour `y-m-d H`; result `(cnt, acc, fin)`, `fin` = `goto fin` was taken.
Recursion over the (finite) list of minute/second pairs. -/
def hlyEnum (c : SubCtx) (y m d H : Nat) :
    List (Nat × Nat × Nat × Nat) → Nat → List Inst → Nat × List Inst × Bool
  | [], cnt, acc => (cnt, acc, false)
  | (iM, iS, mi, s) :: rest, cnt, acc =>
    if ¬ cnt < c.nti then (cnt, acc, false) else
    let x := mkInst y m d H mi s c.proto.ms
    if ltP x c.proto then hlyEnum c y m d H rest cnt acc                     -- continue
    else if ltP c.r.untl x then (cnt, acc, true)                             -- goto fin
    else if !posPickP c.r.pos (iM * c.e.S.length + iS) (c.e.M.length * c.e.S.length) then
      hlyEnum c y m d H rest cnt acc                                         -- not one of the set positions
    else hlyEnum c y m d H rest (cnt + 1) (x :: acc)                         -- tgt[res++] = x

/-- 2016-2025: `while (d > maxd) { d -= maxd; if (++m > 12U) { y++; m = 1U; yd -= maxy; maxy = (y % 4U) ? 365 : 366; }
maxd = __get_ndom(y, m); }`, state `(y, m, d, maxd, yd, maxy)`.  Fuel: `m` stays in 1..12, so `maxd ≥ 28` and every
round lowers `d` by at least 1 while `d > maxd ≥ 1`: `d + 1` rounds suffice (callers pass `d + 1`). -/
def hlyCarry : Nat → Nat → Nat → Nat → Nat → Nat → Nat → Option (Nat × Nat × Nat × Nat × Nat × Nat)
  | 0, _, _, _, _, _, _ => none
  | fuel+1, y, m, d, maxd, yd, maxy =>
    if d > maxd then
      let d := d - maxd
      if m + 1 > 12 then
        let y := (y + 1) % u32
        hlyCarry fuel y 1 d (getNdom y 1) ((yd + u32 - maxy) % u32) (maxyOf y)
      else hlyCarry fuel y (m + 1) d (getNdom y (m + 1)) yd maxy
    else some (y, m, d, maxd, yd, maxy)

/-- 2005-2105: the outer loop over the candidate hours, `for (w = …, yd = …, maxd = …, maxy = …, inc = rr->inter;
res < nti; ({ if ((H += inc) >= 24U) { … } inc = rr->inter; }))`.  `inc` is `rr->inter` at the head of every round, so it
is not part of the state; the body says which `inc` its `continue` leaves behind.  `none` out of fuel (see `hlyFuel`). -/
def hlyLoop (c : SubCtx) (times : List (Nat × Nat × Nat × Nat)) :
    Nat → Nat → Nat → Nat → Nat → Nat → Nat → Nat → Nat → Nat → List Inst → Option (List Inst)
  | 0, _, _, _, _, _, _, _, _, _, _ => none
  | fuel+1, y, m, d, H, w, yd, maxd, maxy, cnt, acc =>
    if ¬ cnt < c.nti then some acc else
    -- 2030-2045: the first instant this candidate could produce; the year stop; UNTIL
    let lb := mkInst y m d H 0 0 c.proto.ms
    if y > subMaxYear then some acc                                          -- goto fin
    else if ltP c.r.untl lb then some acc                                    -- goto fin
    else
    -- 2049-2104: the body proper, `(cnt, acc, fin, inc)`
    let past := interPast ((24 + u32 - H) % u32) c.inter                     -- inter_past(24U - H, rr->inter)
    let (cnt, acc, fin, inc) : Nat × List Inst × Bool × Nat :=
      if c.dayOut w m d maxd then (cnt, acc, false, past)                    -- weekday, month or day is filtered
      else if (c.HMask &&& shl1 H) = 0 then (cnt, acc, false, c.inter)       -- hour is filtered
      else if !c.r.doy.isEmpty && !doyHit c.r.doy yd maxy then (cnt, acc, false, past)
      else
        let (cnt, acc, fin) := hlyEnum c y m d H times cnt acc               -- bang:
        (cnt, acc, fin, c.inter)
    if fin then some acc else
    -- 2009-2028: the loop's increment expression
    let H := (H + inc) % u32
    if H ≥ 24 then
      let q := H / 24
      let w := wrapWd ((w + q) % u32)
      match hlyCarry ((d + q) % u32 + 1) y m ((d + q) % u32) maxd ((yd + q) % u32) maxy with
      | none => none
      | some (y, m, d, maxd, yd, maxy) => hlyLoop c times fuel y m d (H % 24) w yd maxd maxy cnt acc
    else hlyLoop c times fuel y m d H w yd maxd maxy cnt acc

/-- fuel of `hlyLoop` entered at year `y`.  `inc` is `rr->inter` or `inter_past(rem, rr->inter)`, a multiple of
`rr->inter ≥ 1` below `rem + rr->inter` (`rem ≤ 24`, no wrap).  As long as `H + inc` does not wrap, a round moves the
candidate `y-m-d H` forward by `inc ≥ 1` hours (the carry keeps the hour count), and a round entered with `y > 2099`
leaves the loop: at most `(2100 - y) * 366 * 24 + 1` such rounds.  `H + inc` wraps only for `inc ≥ 2^32 - 23`; then `H`
shrinks by at least 1, stays in its day, and after at most 23 such rounds in a row (255 for a proto with an hour out of
range) the sum no longer wraps, `d` grows by more than 10^8 days and the next round sees `y > 2099`. -/
def hlyFuel (y : Nat) : Nat := (2100 - y) * 8784 + 300

/-- `rrul_fill_Hly(tgt, nti, rr)` with `*tgt = proto` -/
def fillHly (r : Rule) (proto : Inst) (nti : Nat) : Option (List Inst) :=
  let y := proto.y
  let m := proto.m
  let d := proto.d
  -- 1900-1904
  match capNti r nti with
  | none => some []
  | some nti =>
  -- 1905-1908
  if r.scale ≠ 0 then some [] else
  -- 1910-1916
  if y < 1600 ∨ m = 0 ∨ m > 12 ∨ d = 0 ∨ d > 31 then some [] else
  if r.inter % u32 = 0 then some [] else
  -- 1918-1921
  let H := if proto.H = allDay then 0 else proto.H
  let c := mkSubCtx r proto nti
  -- 1989-1992
  if !posPickAnyP r.pos (c.e.M.length * c.e.S.length) then some [] else
  match hlyReach c 24 0 H with
  | none => none
  | some false => some []                                                    -- incongruent, nothing will ever match
  | some true =>
    (hlyLoop c c.e.timesMS (hlyFuel y) y m d H (ymdGetWday y m d) (ymdGetYd y m d) (getNdom y m) (maxyOf y) 0 []).map
      List.reverse

end Echse.Rrule
