/-
  Properties C16 / C09 at the level of one call of the daily filler `rrul_fill_dly` (model `fillDly`).

  The statements asked for were

    theorem fillDly_ok (r p n l) (hr : WfRule r) (hp : WfInst p) (hn : n ≤ 64) (h : fillDly r p n = some l) : FillOk r p n l
    theorem fillDly_total (r p n) (hr : WfRule r) (hp : WfInst p) (hn : n ≤ 64) : (fillDly r p n).isSome

  Both are proved as they stand.  History: before `make_enum` was made to ignore BYHOUR / BYMINUTE / BYSECOND next to a
  DATE seed (RFC 5545, 3.3.10), `fillDly_ok` was false: an all-day seed (H = ALL_DAY) with BYMINUTE or BYSECOND but no
  BYHOUR got instants with H = ALL_DAY and a non-zero minute / second, which are not `WfInst`, e.g.
    r = { freq := 4, S := [30] }, p = 2020-01-01 (all day):  fillDly r p 3 = 2020-01-01 H=255 M=0 S=30, 01-02 …, 01-03 …
  (now: the plain all-day instants, `fillDly_allDay_bysecond`).
  (`d += rr->inter` cannot wrap for an `int` INTERVAL; the hand-over to the weekly filler happens for INTERVAL=1.)
  `hn : n ≤ 64` is not needed.
-/
import Echse.Lemmas.RrWlyLoop
namespace Echse.Lemmas.RrOkBase
open Echse.Rrule Echse.Instant Echse.Spec.RrOk

theorem fillOk_mono {r : Rule} {p : Inst} {n n' : Nat} {l : List Inst} (h : FillOk r p n' l) (hn : n' ≤ n) :
    FillOk r p n l :=
  ⟨Nat.le_trans h.len_nti hn, h.len_count, h.wf, h.ge_proto, h.le_until, h.ascending⟩

abbrev mkDCtx (r : Rule) (p : Inst) (nti wdMask posd negd : Nat) : DlyCtx :=
  { r := r, proto := p, nti := nti, e := makeEnum p r, wdMask := wdMask, mMask := monMask r.mon, posdMask := posd,
    negdMask := negd, posp := !r.pos.isEmpty }

theorem dly_finish (r : Rule) (p : Inst) (nti n wdMask posd negd w : Nat) (hr : WfRule r) (hp : WfInst p)
    (hcap : nti ≤ n ∧ (0 ≤ r.count → (nti : Int) ≤ r.count)) :
    ∃ l, (dlyLoop (mkDCtx r p nti wdMask posd negd) (wlyDlyFuel p.y nti) p.y p.m p.d w (getNdom p.y p.m) []).map
        List.reverse = some l ∧ FillOk r p n l := by
  have hv : VD p.y p.m p.d := ⟨hp.month.1, hp.month.2, hp.day.1, hp.day.2⟩
  have hy := hp.year
  obtain ⟨l, hl, hacc⟩ := dlyLoop_spec (mkDCtx r p nti wdMask posd negd) hr hp (wlyDlyFuel p.y nti) p.y p.m p.d w []
    hv (by omega) (fun _ => ⟨Acc.nil _ _ _, Below.nil _ _ _⟩) (enough_start p.y p.m p.d nti hv)
  rw [hl]
  exact ⟨l.reverse, rfl, fillOk_of_acc (hacc (makeEnum_ok r p hr hp)) hcap.1 hcap.2⟩

/-- `fillDly` ends and its result is fine -/
theorem fillDly_spec (r : Rule) (p : Inst) (n : Nat) (hr : WfRule r) (hp : WfInst p) :
    ∃ l, fillDly r p n = some l ∧ FillOk r p n l := by
  unfold fillDly
  have hy := hp.year
  rw [if_neg (by rw [hr.scale]; omega)]
  simp only
  cases hcap : capNti r n with
  | none => exact ⟨[], rfl, fillOk_nil r p n⟩
  | some nti =>
    have hcap' := capNti_spec hr hcap
    simp only
    by_cases c1 : p.m = 0 ∨ p.m > 12 ∨ p.d = 0 ∨ p.d > 31
    · rw [if_pos c1]; exact ⟨[], rfl, fillOk_nil r p n⟩
    · rw [if_neg c1]
      split
      · rename_i c2
        obtain ⟨l, hl, hok⟩ := fillWly_spec r p nti hr hp
        exact ⟨l, hl, fillOk_mono hok hcap'.1⟩
      · exact dly_finish r p nti n _ _ _ _ hr hp hcap'

end Echse.Lemmas.RrOkBase

namespace Echse.Lemmas.RrDlyOk
open Echse.Rrule Echse.Instant Echse.Spec.RrOk
open Echse.Lemmas.RrOkBase

theorem fillDly_total (r : Rule) (p : Inst) (n : Nat) (hr : WfRule r) (hp : WfInst p) (_hn : n ≤ 64) :
    (fillDly r p n).isSome := by
  obtain ⟨l, hl, -⟩ := fillDly_spec r p n hr hp
  rw [hl]; rfl

theorem fillDly_ok (r : Rule) (p : Inst) (n : Nat) (l : List Inst) (hr : WfRule r) (hp : WfInst p)
    (_hn : n ≤ 64) (h : fillDly r p n = some l) : FillOk r p n l := by
  obtain ⟨l', hl, hok⟩ := fillDly_spec r p n hr hp
  rw [hl] at h
  cases h
  exact hok

/-- FREQ=DAILY;BYSECOND=30 on the all-day seed 2020-01-01: BYSECOND is ignored next to a DATE value, the plain all-day
instants come out (before the repair of `make_enum`: hour ALL_DAY with second 30) -/
theorem fillDly_allDay_bysecond :
    fillDly { freq := 4, S := [30] } { y := 2020, m := 1, d := 1, H := 255, M := 0, S := 0, ms := 0 } 2 =
    some [{ y := 2020, m := 1, d := 1, H := 255, M := 0, S := 0, ms := 0 },
          { y := 2020, m := 1, d := 2, H := 255, M := 0, S := 0, ms := 0 }] := by decide +kernel

end Echse.Lemmas.RrDlyOk
