/-
  BYSETPOS for the YEARLY / MONTHLY fillers, part 5 (code side): what a period offers under BYSETPOS (`posE`) — by
  position counting or by `clr_poss` on the days — is the period's full list at the positions selected (`mem_posE_mk`),
  and the period's tail is a fold of `pstep` over it (`finishPeriod_posE`).
-/
import Echse.Lemmas.RrCandPos1
import Echse.Lemmas.RrCandPos2
import Echse.Lemmas.RrCandPos4
import Echse.Lemmas.RrMlyRfc6
import Echse.Lemmas.RrRfcPos1
namespace Echse.Lemmas.RrCandRfc
open Echse.Rrule Echse.Instant Echse.Spec.RrOk Echse.Lemmas.RrCandOk Echse.Lemmas.RrMlyRfc Echse.Lemmas.RrRfc
open Echse.Lemmas.RrOkBase

/-- what a period offers under BYSETPOS: by position counting (several instants a day) or by `clr_poss` on the days -/
def posE (k : FillCtx) (y : Nat) (cand : List Nat) : List Inst :=
  if k.tposp then selE k.pos (setE k y cand) else setE k y (clrPoss cand k.pos)

theorem finishPeriod_posE (k : FillCtx) (y : Nat) (cand : List Nat) (a b : FillSt) (hs : k.sh = 0)
    (hnT : k.nT = k.times.length) (hab : Sim a b) :
    Sim (finishPeriod k y cand a) ((posE k y cand).foldl (pstep k) { b with hit := false }) := by
  unfold posE
  cases ht : k.tposp with
  | true => exact finishPeriod_tposp k y cand a b hs ht hnT hab
  | false =>
    rw [finishPeriod_pstep k y cand a hs ht]
    exact foldl_pstep_sim _ _ ⟨hab.1, hab.2.1, rfl, hab.2.2.2⟩

/-- a strictly ascending list of numbers in `[lo, N)` has at most `N - lo` entries -/
theorem asc_len (l : List Nat) : ∀ (lo N : Nat), Asc l → (∀ x ∈ l, lo ≤ x ∧ x < N) → l.length ≤ N - lo := by
  induction l with
  | nil => intro lo N _ _; simp
  | cons a l ih =>
    intro lo N hasc hb
    obtain ⟨h1, h2⟩ := List.pairwise_cons.mp hasc
    have ha := hb a List.mem_cons_self
    have := ih (a + 1) N h2 (fun x hx => ⟨h1 x hx, (hb x (List.mem_cons_of_mem _ hx)).2⟩)
    rw [List.length_cons]; omega

theorem possSelP_iff (poss : List Int) (i n : Nat) (hn : n < 2147483648) :
    possSelP poss (i + 1) (i + 1) n = true ↔ PosSel poss i n := by
  unfold possSelP PosSel
  rw [List.any_eq_true]
  have ht : toS32 n = (n : Int) := toS32_small n hn
  apply exists_congr; intro q
  apply and_congr Iff.rfl
  rw [ht]
  simp only [Bool.decide_and, Bool.and_eq_true, decide_eq_true_eq]
  constructor
  · rintro ⟨h1, h2, h3⟩
    by_cases c : q < 0
    · rw [if_pos c] at h1 h2 h3; right; exact ⟨c, by omega⟩
    · rw [if_neg c] at h1 h2 h3; left; exact ⟨by omega, by omega⟩
  · rintro (⟨h1, h2⟩ | ⟨h1, h2⟩)
    · rw [if_neg (by omega)]; omega
    · rw [if_pos h1]; omega

theorem times_length (e : Enum) : e.times.length = e.H.length * (e.M.length * e.S.length) := by
  unfold Enum.times
  apply flatMap_length_const
  intro h _
  apply flatMap_length_const
  intro m _
  rw [List.length_map]

theorem mkFillCtx_nT (r : Rule) (p : Inst) (nti : Nat) :
    (mkFillCtx r p nti).nT = (mkFillCtx r p nti).times.length := by
  show (makeEnum p r).H.length * (makeEnum p r).M.length * (makeEnum p r).S.length = (makeEnum p r).times.length
  rw [times_length, Nat.mul_assoc]

theorem sel_len (l : List Nat) (a N : Nat) (hl : Asc l) (hb : ∀ x ∈ l, x < N) (hN : 1 ≤ N) :
    1 ≤ (sel l a).length ∧ (sel l a).length ≤ N := by
  unfold sel
  cases l with
  | nil => simp; exact hN
  | cons x xs =>
    have := asc_len (x :: xs) 0 N hl (fun y hy => ⟨Nat.zero_le _, hb y hy⟩)
    simp only [List.isEmpty_cons, Bool.false_eq_true, if_false, List.length_map, List.length_cons] at this ⊢
    omega

/-- the ENUM loop has between 1 and 86400 rounds -/
theorem times_bounds (r : Rule) (p : Inst) (hr : WfRule r) :
    1 ≤ (makeEnum p r).times.length ∧ (makeEnum p r).times.length ≤ 86400 := by
  rw [times_length]
  by_cases had : p.H = allDay
  · rw [makeEnum_allDay p r had]; simp
  rw [makeEnum_timed p r had]
  dsimp only
  obtain ⟨h1, h2⟩ := sel_len r.H p.H 24 hr.hours.1 hr.hours.2 (by omega)
  obtain ⟨m1, m2⟩ := sel_len r.M p.M 60 hr.mins.1 hr.mins.2 (by omega)
  obtain ⟨s1, s2⟩ := sel_len r.S p.S 60 hr.secs.1 hr.secs.2 (by omega)
  generalize (sel r.H p.H).length = a at *
  generalize (sel r.M p.M).length = b at *
  generalize (sel r.S p.S).length = c at *
  have e1 : 1 * 1 ≤ b * c := Nat.mul_le_mul m1 s1
  have e2 : b * c ≤ 60 * 60 := Nat.mul_le_mul m2 s2
  have e3 : 1 * 1 ≤ a * (b * c) := Nat.mul_le_mul h1 (by omega)
  have e4 : a * (b * c) ≤ 24 * 3600 := Nat.mul_le_mul h2 (by omega)
  omega

/-- with BYSETPOS and no SHIFT the instants of a period are numbered exactly when a day has more than one -/
theorem mkFillCtx_tposp (r : Rule) (p : Inst) (nti : Nat) (hsh : r.shift = 0) (hpos : r.pos ≠ []) :
    (mkFillCtx r p nti).tposp = decide ((makeEnum p r).times.length > 1) := by
  have hnT := mkFillCtx_nT r p nti
  have hpe : (!r.pos.isEmpty) = true := by
    cases hp : r.pos with
    | nil => exact absurd hp hpos
    | cons a l => rfl
  show decide ((mkFillCtx r p nti).nT > 1 ∧ r.shift = 0 ∧ (!r.pos.isEmpty) = true) = _
  rw [hnT]
  apply decide_eq_decide.mpr
  constructor
  · intro h; exact h.1
  · intro h; exact ⟨h, hsh, hpe⟩

theorem setE_single (k : FillCtx) (y : Nat) (cs : List Nat) (t0 : Nat × Nat × Nat) (ht : k.times = [t0]) :
    setE k y cs = cs.map (fun c => mkX k y c t0) := by
  induction cs with
  | nil => rfl
  | cons c cs ih =>
    rw [setE_cons, ih, List.map_cons]
    unfold dayE
    rw [ht]; rfl

/-- what a period offers under BYSETPOS: the entries of the period's full list at the positions selected -/
theorem mem_posE_mk (r : Rule) (p : Inst) (nti : Nat) (hr : WfRule r) (hsh : r.shift = 0) (hpos : r.pos ≠ [])
    (y : Nat) (cand : List Nat) (hc : AllVC y cand) (z : Inst) :
    z ∈ posE (mkFillCtx r p nti) y cand ↔ ∃ i, (setE (mkFillCtx r p nti) y cand)[i]? = some z ∧
      PosSel r.pos i (setE (mkFillCtx r p nti) y cand).length := by
  have htb := times_bounds r p hr
  have hkt : (mkFillCtx r p nti).times = (makeEnum p r).times := rfl
  have hkp : (mkFillCtx r p nti).pos = r.pos := rfl
  have hcl : cand.length ≤ 384 := by
    have := asc_len cand 0 384 hc.2 (fun x hx => by have := hc.1 x hx; unfold VC at this; omega)
    omega
  unfold posE
  rw [mkFillCtx_tposp r p nti hsh hpos, hkp]
  by_cases c : (makeEnum p r).times.length > 1
  · rw [decide_eq_true c, if_pos rfl, mem_selE]
    have hlen : (setE (mkFillCtx r p nti) y cand).length < 2147483648 := by
      rw [setE_length, hkt]
      have : cand.length * (makeEnum p r).times.length ≤ 384 * 86400 := Nat.mul_le_mul hcl htb.2
      omega
    apply exists_congr; intro i
    apply and_congr Iff.rfl
    exact possSelP_iff r.pos i _ hlen
  · rw [decide_eq_false c, if_neg (by decide)]
    have hl1 : (makeEnum p r).times.length = 1 := by omega
    obtain ⟨t0, ht0⟩ : ∃ t0, (makeEnum p r).times = [t0] := by
      cases ht : (makeEnum p r).times with
      | nil => rw [ht] at hl1; cases hl1
      | cons a l =>
        cases l with
        | nil => exact ⟨a, rfl⟩
        | cons b l' => rw [ht] at hl1; simp at hl1
    rw [setE_single _ y _ t0 (by rw [hkt]; exact ht0), setE_single _ y _ t0 (by rw [hkt]; exact ht0)]
    rw [List.mem_map, List.length_map]
    have hpos' : ∀ c ∈ cand, 0 < c := by
      intro c hcm; have := hc.1 c hcm; unfold VC at this; omega
    constructor
    · rintro ⟨c, hcm, rfl⟩
      obtain ⟨i, hi, hs⟩ := (clrPoss_mem cand r.pos hpos hpos' c).1 hcm
      exact ⟨i, by rw [List.getElem?_map, hi]; rfl, hs⟩
    · rintro ⟨i, hi, hs⟩
      rw [List.getElem?_map] at hi
      cases hci : cand[i]? with
      | none => rw [hci] at hi; cases hi
      | some c =>
        rw [hci] at hi
        injection hi with hi
        exact ⟨c, (clrPoss_mem cand r.pos hpos hpos' c).2 ⟨i, hci, hs⟩, hi⟩

theorem posE_sorted (r : Rule) (p : Inst) (nti : Nat) (hr : WfRule r) (hp : WfInst p) (y : Nat) (hy : y < 65536)
    (cand : List Nat) (hc : AllVC y cand) :
    (posE (mkFillCtx r p nti) y cand).Pairwise (fun a b => ltP a b = true) := by
  unfold posE
  split
  · exact List.Pairwise.sublist (selE_sublist _ _)
      (setE_sorted _ y _ hy hc.2 (fun c h => (hc.1 c h).1) (mkFillCtx_times_sorted r p nti hr) (times_lt60 r p hr hp))
  · have hc0 : AllVC y (clrPoss cand (mkFillCtx r p nti).pos) :=
      ⟨fun c h => hc.1 c (clrPoss_subset cand _ c h), clrPoss_asc cand _ hc.2⟩
    exact setE_sorted _ y _ hy hc0.2 (fun c h => (hc0.1 c h).1) (mkFillCtx_times_sorted r p nti hr)
      (times_lt60 r p hr hp)

end Echse.Lemmas.RrCandRfc
