/-
  BYSETPOS for the daily and the weekly filler, part 2: if `L` lists the instances of `x`'s period in ascending order
  and `x` is its member number `idx` (from 0), then `SetposOk` is the code's test `pos_match_p(poss, idx + 1, |L|)`.
-/
import Echse.Lemmas.RrRfcPos1
namespace Echse.Lemmas.RrRfc
open Echse.Rrule Echse.Instant Echse.Spec.RrOk Echse.Spec.Cal Echse.Spec.RuleExt Echse.Spec.Rfc
open Echse.Lemmas.RrOkBase

theorem posMatchP_iff (pos : List Int) (i n : Nat) :
    posMatchP pos i n = true ↔ ∃ q ∈ pos, (0 < q ∧ q.toNat = i) ∨ (q < 0 ∧ (-q).toNat + i = n + 1) := by
  unfold posMatchP
  simp only [List.any_eq_true, Bool.or_eq_true, Bool.and_eq_true, decide_eq_true_eq, beq_iff_eq, gt_iff_lt]

theorem setpos_iff (r : Rule) (ds x : Inst) (hpos : r.pos ≠ []) (L : List Inst)
    (hsort : L.Pairwise (fun a b => absOf a < absOf b)) (idx : Nat) (hidx : L[idx]? = some x)
    (hchar : ∀ u, u ∈ L ↔ Instance r ds u ∧ periodOf r.freq u = periodOf r.freq x) :
    SetposOk r ds x ↔ posMatchP r.pos (idx + 1) L.length = true := by
  obtain ⟨hi, hx⟩ := List.getElem?_eq_some_iff.1 hidx
  have hnd := nodup_of_sorted L absOf hsort
  have hbef : ∀ u, u ∈ L.take idx ↔ Instance r ds u ∧ periodOf r.freq u = periodOf r.freq x ∧ absOf u < absOf x := by
    intro u
    rw [sorted_take L absOf hsort idx hi u, hx, hchar u]
    exact ⟨fun ⟨⟨a, b⟩, c⟩ => ⟨a, b, c⟩, fun ⟨a, b, c⟩ => ⟨⟨a, b⟩, c⟩⟩
  have haft : ∀ u, u ∈ L.drop (idx + 1) ↔ Instance r ds u ∧ periodOf r.freq u = periodOf r.freq x ∧ absOf x < absOf u := by
    intro u
    rw [sorted_drop L absOf hsort idx hi u, hx, hchar u]
    exact ⟨fun ⟨⟨a, b⟩, c⟩ => ⟨a, b, c⟩, fun ⟨a, b, c⟩ => ⟨⟨a, b⟩, c⟩⟩
  have nd1 : (L.take idx).Nodup := List.Nodup.sublist (List.take_sublist _ _) hnd
  have nd2 : (L.drop (idx + 1)).Nodup := List.Nodup.sublist (List.drop_sublist _ _) hnd
  have len1 : (L.take idx).length = idx := by rw [List.length_take]; omega
  have len2 : (L.drop (idx + 1)).length = L.length - (idx + 1) := List.length_drop
  rw [posMatchP_iff]
  constructor
  · rintro (h | ⟨q, hq, before, after, hb, nb, ha, na, hcount⟩)
    · exact absurd h hpos
    · have e1 : before.length = idx := by
        rw [← len1]
        exact ((List.perm_ext_iff_of_nodup nb nd1).2 (fun u => by rw [hb u, hbef u])).length_eq
      have e2 : after.length = L.length - (idx + 1) := by
        rw [← len2]
        exact ((List.perm_ext_iff_of_nodup na nd2).2 (fun u => by rw [ha u, haft u])).length_eq
      refine ⟨q, hq, ?_⟩
      rcases hcount with ⟨a, b⟩ | ⟨a, b⟩
      · left; exact ⟨a, by omega⟩
      · right; exact ⟨a, by omega⟩
  · rintro ⟨q, hq, hcount⟩
    right
    refine ⟨q, hq, L.take idx, L.drop (idx + 1), hbef, nd1, haft, nd2, ?_⟩
    rcases hcount with ⟨a, b⟩ | ⟨a, b⟩
    · left; exact ⟨a, by omega⟩
    · right; exact ⟨a, by omega⟩

end Echse.Lemmas.RrRfc
