import Echse.Model.RrStrm
import Echse.Model.RrText
import Driver.Util
import Driver.Rrule
open Echse.Rrule Echse.Instant
namespace Driver

/-- rebuild a rule from the `key=value` tokens the harness prints (lists in iteration order) -/
def parseRule (toks : List String) : Option Rule :=
  toks.foldlM (fun (r : Rule) t =>
    match t.splitOn "=" with
    | [k, v] =>
      let ints := if v.isEmpty then some [] else (v.splitOn ",").mapM String.toInt?
      let nats := if v.isEmpty then some [] else (v.splitOn ",").mapM String.toNat?
      match k with
      | "freq" => v.toNat?.map fun x => { r with freq := x }
      | "scale" => v.toNat?.map fun x => { r with scale := x }
      | "count" => v.toInt?.map fun x => { r with count := x }
      | "inter" => v.toNat?.map fun x => { r with inter := x }
      | "until" => (parseHex? v).map fun x => { r with untl := Inst.unpack x }
      | "shift" => v.toInt?.map fun x => { r with shift := x }
      | "dom" => ints.map fun x => { r with dom := x }
      | "doy" => ints.map fun x => { r with doy := x }
      | "dow" => ints.map fun x => { r with dow := x }
      | "mon" => nats.map fun x => { r with mon := x }
      | "wk" => ints.map fun x => { r with wk := x }
      | "H" => nats.map fun x => { r with H := x }
      | "M" => nats.map fun x => { r with M := x }
      | "S" => nats.map fun x => { r with S := x }
      | "pos" => ints.map fun x => { r with pos := x }
      | "easter" => ints.map fun x => { r with easter := x }
      | _ => none
    | _ => none) {}

/-- `r.fill RULE-TOKENS | proto=HEX nti=N` -/
def runRrFill (args : List String) : String :=
  match splitBars args with
  | [rule, rest] =>
    let proto := rest.findSome? fun t => if t.startsWith "proto=" then parseHex? (t.drop 6).toString else none
    let nti := (rest.findSome? fun t => if t.startsWith "nti=" then (t.drop 4).toString.toNat? else none).getD 64
    match parseRule rule, proto with
    | some r, some p =>
      match fill r (Inst.unpack p) nti with
      | some l => s!"n={l.length}" ++ (if l.isEmpty then "" else " " ++ joinWith "," (l.map fun i => toHex16 i.pack))
      | none => "unmodelled"
    | _, _ => "bad-op"
  | _ => "bad-op"

/-- `r.strm RULE-TOKENS | from=HEX n=N` : the first N occurrences of the rule stream, `-` marks its end -/
def runRrStrm (args : List String) : String :=
  match splitBars args with
  | [rule, rest] =>
    let from_ := rest.findSome? fun t => if t.startsWith "from=" then parseHex? (t.drop 5).toString else none
    let n := (rest.findSome? fun t => if t.startsWith "n=" then (t.drop 2).toString.toNat? else none).getD 10
    if rest.any (fun t => t.startsWith "zone=" ∨ t.startsWith "scale=" ∨ t.startsWith "ds=") then "unmodelled" else
    match parseRule rule, from_ with
    | some r, some p =>
      match pops n (mkStrm r (Inst.unpack p)) with
      | some (l, ended) =>
        let xs := l.map fun i => toHex16 i.pack
        let xs := if ended then xs ++ ["-"] else xs
        if xs.isEmpty then "-" else joinWith "," xs
      | none => "unmodelled"
    | _, _ => "bad-op"
  | _ => "bad-op"

/-- the harness's `print_rule` -/
def showRule (r : Rule) : String :=
  s!"freq={r.freq} scale={r.scale} count={r.count} inter={r.inter} until={toHex16 r.untl.pack} shift={r.shift}" ++
  s!" dom={showList r.dom} doy={showList r.doy} dow={showList r.dow} mon={showList r.mon} wk={showList r.wk}" ++
  s!" H={showList r.H} M={showList r.M} S={showList r.S} pos={showList r.pos} easter={showList r.easter}"

def unhexChars : List Char → Option (List Char)
  | a :: b :: r => do
    let x ← hexDigit? a; let y ← hexDigit? b; let t ← unhexChars r
    pure (Char.ofNat (x * 16 + y) :: t)
  | [] => some []
  | _ => none

def hexChars (l : List Char) : String :=
  String.ofList (l.flatMap fun c => [hexChar (c.toNat / 16 % 16), hexChar (c.toNat % 16)])

/-- `r.parse HEX(rule text)` -/
def runRrParse (args : List String) : String :=
  match args with
  | hex :: _ =>
    match unhexChars hex.toList with
    | some cs => showRule (Echse.RrText.snarfRrule (String.ofList cs))
    | none => "bad-op"
  | _ => "bad-op"

/-- `r.print RULE-TOKENS | ccnt=N exc=0/1` -/
def runRrPrint (args : List String) : String :=
  let (rule, rest) := match splitBars args with
    | [rule] => (rule, [])
    | [rule, rest] => (rule, rest)
    | _ => ([], ["bad"])
  if rest = ["bad"] then "bad-op" else
  let ccnt := (rest.findSome? fun t => if t.startsWith "ccnt=" then (t.drop 5).toString.toNat? else none).getD 0
  let exc := (rest.findSome? fun t => if t.startsWith "exc=" then (t.drop 4).toString.toNat? else none).getD 0
  match parseRule rule with
  | some r => hexChars (Echse.RrText.sendRrul r ccnt (exc != 0)).toList
  | none => "bad-op"

end Driver
