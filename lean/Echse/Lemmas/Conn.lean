/-
  Lemmas on the pool of connection slots (Echse/Model/Conn.lean): `ffsAux` / `ffs32` find the lowest set bit,
  `makeConn` hands out the lowest free slot and marks it, `freeConn` toggles a slot; and the history-level
  invariant: the slots of live connections are distinct and the map is the complement of the live set.
-/
import Echse.Model.Conn
namespace Echse.Conn

/-- what `ffsAux n i x` returns: 0 and the low `n` bits are clear, or `i + k + 1` for the lowest set bit `k < n` -/
theorem ffsAux_spec (n : Nat) : ∀ i x : Nat,
    (ffsAux n i x = 0 ∧ ∀ k, k < n → x.testBit k = false) ∨
    (∃ k, k < n ∧ ffsAux n i x = i + k + 1 ∧ x.testBit k = true ∧ ∀ j, j < k → x.testBit j = false) := by
  induction n with
  | zero => intro i x; left; exact ⟨rfl, fun k hk => absurd hk (Nat.not_lt_zero k)⟩
  | succ n ih =>
    intro i x
    by_cases hx : x % 2 = 1
    · right
      refine ⟨0, Nat.succ_pos n, ?_, ?_, fun j hj => absurd hj (Nat.not_lt_zero j)⟩
      · simp [ffsAux, hx]
      · simp [Nat.testBit_zero, hx]
    · have h0 : x.testBit 0 = false := by simp [Nat.testBit_zero, hx]
      have hf : ffsAux (n + 1) i x = ffsAux n (i + 1) (x / 2) := by simp [ffsAux, hx]
      rcases ih (i + 1) (x / 2) with ⟨hz, hall⟩ | ⟨k, hk, hr, hb, hlow⟩
      · left
        refine ⟨hf.trans hz, ?_⟩
        intro k hk
        cases k with
        | zero => exact h0
        | succ k => rw [Nat.testBit_succ]; exact hall k (Nat.lt_of_succ_lt_succ hk)
      · right
        refine ⟨k + 1, Nat.succ_lt_succ hk, ?_, ?_, ?_⟩
        · rw [hf, hr]; omega
        · rw [Nat.testBit_succ]; exact hb
        · intro j hj
          cases j with
          | zero => exact h0
          | succ j => rw [Nat.testBit_succ]; exact hlow j (Nat.lt_of_succ_lt_succ hj)

/-- `ffs32 x`: 0 and the low 32 bits of `x` are clear, or `k + 1` for the lowest set bit `k < 32` -/
theorem ffs32_spec (x : Nat) :
    (ffs32 x = 0 ∧ ∀ k, k < 32 → x.testBit k = false) ∨
    (∃ k, k < 32 ∧ ffs32 x = k + 1 ∧ x.testBit k = true ∧ ∀ j, j < k → x.testBit j = false) := by
  have hm : ∀ k, k < 32 → (x % 2 ^ 32).testBit k = x.testBit k := by
    intro k hk; rw [Nat.testBit_mod_two_pow]; simp [hk]
  rcases ffsAux_spec 32 0 (x % 2 ^ 32) with ⟨hz, hall⟩ | ⟨k, hk, hr, hb, hlow⟩
  · left; exact ⟨hz, fun k hk => (hm k hk).symm.trans (hall k hk)⟩
  · right
    refine ⟨k, hk, ?_, (hm k hk).symm.trans hb, fun j hj => (hm j (Nat.lt_trans hj hk)).symm.trans (hlow j hj)⟩
    show ffsAux 32 0 (x % 2 ^ 32) = k + 1
    rw [hr]; omega

theorem testBit_lo (free k : Nat) (hk : k < 32) : (free % 2 ^ 32).testBit k = free.testBit k := by
  rw [Nat.testBit_mod_two_pow]; simp [hk]

theorem testBit_hi (free k : Nat) (hk : k < 32) : (free / 2 ^ 32 % 2 ^ 32).testBit k = free.testBit (k + 32) := by
  rw [Nat.testBit_mod_two_pow, Nat.testBit_div_two_pow]; simp [hk]

/-- `makeConn` in one statement: turned away with all 64 bits clear and the map untouched, or the lowest set bit
`i < 64` handed out and toggled -/
theorem makeConn_cases (free : Nat) :
    (makeConn free = (none, free) ∧ ∀ j, j < 64 → free.testBit j = false) ∨
    (∃ i, i < 64 ∧ makeConn free = (some i, free ^^^ (1 <<< i)) ∧ free.testBit i = true ∧
      ∀ j, j < i → free.testBit j = false) := by
  rcases ffs32_spec (free % 2 ^ 32) with ⟨hz, hall⟩ | ⟨k, hk, hr, hb, hlow⟩
  · rcases ffs32_spec (free / 2 ^ 32 % 2 ^ 32) with ⟨hz', hall'⟩ | ⟨k, hk, hr, hb, hlow⟩
    · left
      refine ⟨by simp [makeConn, hz, hz'], ?_⟩
      intro j hj
      by_cases hj32 : j < 32
      · rw [← testBit_lo free j hj32]; exact hall j hj32
      · have := hall' (j - 32) (by omega)
        rw [testBit_hi free _ (by omega)] at this
        rwa [show j - 32 + 32 = j by omega] at this
    · right
      refine ⟨k + 32, by omega, ?_, ?_, ?_⟩
      · simp [makeConn, hz, hr]
      · rw [← testBit_hi free k hk]; exact hb
      · intro j hj
        by_cases hj32 : j < 32
        · rw [← testBit_lo free j hj32]; exact hall j hj32
        · have := hlow (j - 32) (by omega)
          rw [testBit_hi free _ (by omega)] at this
          rwa [show j - 32 + 32 = j by omega] at this
  · right
    refine ⟨k, by omega, ?_, ?_, ?_⟩
    · simp [makeConn, hr]
    · rw [← testBit_lo free k hk]; exact hb
    · intro j hj
      rw [← testBit_lo free j (by omega)]; exact hlow j hj

/-- toggling bit `i` -/
theorem testBit_toggle (free i j : Nat) :
    (free ^^^ (1 <<< i)).testBit j = if j = i then !free.testBit i else free.testBit j := by
  rw [Nat.testBit_xor, Nat.one_shiftLeft, Nat.testBit_two_pow]
  by_cases h : j = i
  · subst h; simp
  · have h' : ¬ i = j := fun e => h e.symm
    simp [h, h']

/-- the slot handed out was free, is the lowest free one, is marked in use, nothing else changes -/
theorem makeConn_some (free i free' : Nat) (h : makeConn free = (some i, free')) :
    i < 64 ∧ free.testBit i = true ∧ (∀ j, j < i → free.testBit j = false) ∧ free'.testBit i = false ∧
    ∀ j, j ≠ i → free'.testBit j = free.testBit j := by
  rcases makeConn_cases free with ⟨hn, _⟩ | ⟨k, hk, hs, hb, hlow⟩
  · rw [hn] at h; cases h
  · rw [hs] at h
    injection h with h1 h2
    injection h1 with h1
    subst h1; subst h2
    refine ⟨hk, hb, hlow, ?_, ?_⟩
    · rw [testBit_toggle]; simp [hb]
    · intro j hj; rw [testBit_toggle]; simp [hj]

/-- turned away exactly when all 64 slots are in use -/
theorem makeConn_none_iff (free : Nat) : (makeConn free).1 = none ↔ ∀ j, j < 64 → free.testBit j = false := by
  rcases makeConn_cases free with ⟨hn, hall⟩ | ⟨k, hk, hs, hb, _⟩
  · rw [hn]; exact ⟨fun _ => hall, fun _ => rfl⟩
  · rw [hs]
    constructor
    · intro h; cases h
    · intro h; have := h k hk; rw [hb] at this; cases this

/-- … and then the map is untouched -/
theorem makeConn_none_snd (free : Nat) (h : (makeConn free).1 = none) : (makeConn free).2 = free := by
  rcases makeConn_cases free with ⟨hn, _⟩ | ⟨k, _, hs, _, _⟩
  · rw [hn]
  · rw [hs] at h; cases h

theorem freeConn_testBit (free i j : Nat) (hi : i < 64) :
    (freeConn free i).testBit j = if j = i then !free.testBit i else free.testBit j := by
  have : ¬ i ≥ 64 := by omega
  simp only [freeConn, this, if_false]
  exact testBit_toggle free i j

theorem freeConn_out_of_range (free i : Nat) (hi : i ≥ 64) : freeConn free i = free := by
  simp [freeConn, hi]

/-! ### histories of connects and hang-ups -/

inductive CEv
  | connect
  | hangup (slot : Nat)

/-- the map, and the slots of the connections alive (most recent first) -/
structure CSt where
  free : Nat
  live : List Nat

def cstep (s : CSt) : CEv → CSt
  | .connect =>
    match makeConn s.free with
    | (some i, f) => { free := f, live := i :: s.live }
    | (none, f) => { s with free := f }
  | .hangup i =>
    if s.live.contains i then { free := freeConn s.free i, live := s.live.erase i } else s   -- only live connections hang up

def crun (evs : List CEv) : CSt := evs.foldl cstep { free := allFree, live := [] }

/-- distinct live slots, all in range, the map is the complement of the live set -/
def CInv (s : CSt) : Prop :=
  s.live.Nodup ∧ (∀ i ∈ s.live, i < 64) ∧ (∀ j, j < 64 → (s.free.testBit j = true ↔ j ∉ s.live))

theorem CInv_init : CInv { free := allFree, live := [] } := by
  refine ⟨List.nodup_nil, fun i hi => absurd hi List.not_mem_nil, ?_⟩
  intro j hj
  show (2 ^ 64 - 1).testBit j = true ↔ j ∉ []
  rw [Nat.testBit_two_pow_sub_one]; simp [hj]

theorem CInv_step (s : CSt) (e : CEv) (h : CInv s) : CInv (cstep s e) := by
  obtain ⟨hnd, hlt, hmap⟩ := h
  cases e with
  | connect =>
    cases hm : makeConn s.free with
    | mk o f =>
      cases o with
      | none =>
        have h2 := makeConn_none_snd s.free (by rw [hm])
        rw [hm] at h2
        have h2 : f = s.free := h2
        subst h2
        simp only [cstep, hm]
        exact ⟨hnd, hlt, hmap⟩
      | some i =>
        obtain ⟨hi, hb, _, hb', hoth⟩ := makeConn_some s.free i f hm
        simp only [cstep, hm]
        have hni : i ∉ s.live := (hmap i hi).1 hb
        refine ⟨List.nodup_cons.2 ⟨hni, hnd⟩, ?_, ?_⟩
        · intro x hx
          rcases List.mem_cons.1 hx with rfl | hx
          · exact hi
          · exact hlt x hx
        · intro j hj
          by_cases hji : j = i
          · subst hji; simp [hb']
          · show f.testBit j = true ↔ j ∉ i :: s.live
            rw [hoth j hji, hmap j hj]; simp [hji]
  | hangup i =>
    by_cases hc : i ∈ s.live
    · have hi := hlt i hc
      have hc' : s.live.contains i = true := by simpa using hc
      simp only [cstep, hc', if_true]
      have hbi : s.free.testBit i = false := by
        cases hb : s.free.testBit i with
        | false => rfl
        | true => exact absurd hc ((hmap i hi).1 hb)
      refine ⟨hnd.erase i, fun x hx => hlt x (List.mem_of_mem_erase hx), ?_⟩
      intro j hj
      show (freeConn s.free i).testBit j = true ↔ j ∉ s.live.erase i
      rw [freeConn_testBit _ _ _ hi, hnd.mem_erase_iff]
      by_cases hji : j = i
      · subst hji; simp [hbi]
      · simp [hji, hmap j hj]
    · have hc' : s.live.contains i = false := by simpa using hc
      simp only [cstep, hc']
      exact ⟨hnd, hlt, hmap⟩

theorem CInv_foldl (evs : List CEv) : ∀ s, CInv s → CInv (evs.foldl cstep s) := by
  induction evs with
  | nil => intro s h; exact h
  | cons e es ih => intro s h; exact ih _ (CInv_step s e h)

theorem CInv_crun (evs : List CEv) : CInv (crun evs) := CInv_foldl evs _ CInv_init

/-- pigeonhole: a duplicate-free list of numbers below `n` has at most `n` entries, and with `n` entries it has them all -/
theorem nodup_lt_length (n : Nat) : ∀ l : List Nat, l.Nodup → (∀ x ∈ l, x < n) →
    l.length ≤ n ∧ (l.length = n → ∀ j, j < n → j ∈ l) := by
  induction n with
  | zero =>
    intro l _ hlt
    cases l with
    | nil => exact ⟨Nat.le_refl 0, fun _ j hj => absurd hj (Nat.not_lt_zero j)⟩
    | cons a r => exact absurd (hlt a List.mem_cons_self) (Nat.not_lt_zero a)
  | succ n ih =>
    intro l hnd hlt
    by_cases hn : n ∈ l
    · have hlt' : ∀ x ∈ l.erase n, x < n := by
        intro x hx
        have hx' := (hnd.mem_erase_iff).1 hx
        have := hlt x hx'.2
        have := hx'.1
        omega
      obtain ⟨hle, hall⟩ := ih (l.erase n) (hnd.erase n) hlt'
      rw [List.length_erase_of_mem hn] at hle hall
      have hpos : 0 < l.length := List.length_pos_of_mem hn
      refine ⟨by omega, ?_⟩
      intro hlen j hj
      by_cases hjn : j = n
      · subst hjn; exact hn
      · exact List.mem_of_mem_erase (hall (by omega) j (by omega))
    · have hlt' : ∀ x ∈ l, x < n := by
        intro x hx
        have := hlt x hx
        have : x ≠ n := fun e => hn (e ▸ hx)
        omega
      obtain ⟨hle, _⟩ := ih l hnd hlt'
      exact ⟨by omega, fun hlen => by omega⟩

/-- a list holding every number below `n` has at least `n` entries -/
theorem length_ge_of_all (n : Nat) : ∀ l : List Nat, (∀ j, j < n → j ∈ l) → n ≤ l.length := by
  induction n with
  | zero => intro l _; exact Nat.zero_le _
  | succ n ih =>
    intro l h
    have hn : n ∈ l := h n (Nat.lt_succ_self n)
    have := ih (l.erase n) (fun j hj => (List.mem_erase_of_ne (by omega)).2 (h j (by omega)))
    rw [List.length_erase_of_mem hn] at this
    have hpos : 0 < l.length := List.length_pos_of_mem hn
    omega

theorem CInv_full_iff (s : CSt) (h : CInv s) : (makeConn s.free).1 = none ↔ s.live.length = 64 := by
  obtain ⟨hnd, hlt, hmap⟩ := h
  rw [makeConn_none_iff]
  have hP := nodup_lt_length 64 s.live hnd hlt
  constructor
  · intro hall
    have hin : ∀ j, j < 64 → j ∈ s.live := by
      intro j hj
      apply Classical.byContradiction
      intro hnj
      have := (hmap j hj).2 hnj
      rw [hall j hj] at this; cases this
    have := length_ge_of_all 64 s.live hin
    omega
  · intro hlen j hj
    have hin := hP.2 hlen j hj
    cases hb : s.free.testBit j with
    | false => rfl
    | true => exact absurd hin ((hmap j hj).1 hb)

end Echse.Conn
