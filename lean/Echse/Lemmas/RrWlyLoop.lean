/-
  The week loop of `rrul_fill_wly` (`wlyLoop`) and the whole filler: it ends within the fuel `wlyDlyFuel` grants
  and leaves a sane accumulator (the guard on INTERVAL keeps `d + INTERVAL * 7` from wrapping as an `unsigned int`).
-/
import Echse.Lemmas.RrWlyWeek
namespace Echse.Lemmas.RrOkBase
open Echse.Rrule Echse.Instant Echse.Spec.RrOk

/-- the week loop ends within its fuel; when the enumeration is sane (`EnumOk`) it keeps the accumulator sane.
The guard `if (rr->inter > (UINT_MAX - 31U) / 7U) goto fin;` keeps `d + rr->inter * 7U` from wrapping. -/
theorem wlyLoop_spec (c : WlyCtx) (hr : WfRule c.r) (hp : WfInst c.proto) (hinc : nibOk 8 c.wdIncs 6 = true) :
    ∀ (fuel y m d : Nat) (res : List Inst), VD y m d → y ≤ 13000000 →
      (EnumOk c.e → Acc c.r c.proto c.nti res ∧ Below res y m d) → Enough fuel y m d →
      ∃ l, wlyLoop c fuel y m d (getNdom y m) res = some l ∧ (EnumOk c.e → Acc c.r c.proto c.nti l) := by
  intro fuel
  induction fuel with
  | zero => intro y m d res hv _ _ hn; have := enough_pos hv hn; omega
  | succ f ih =>
    intro y m d res hv hy hab hn
    unfold wlyLoop
    by_cases c1 : res.length < c.nti
    · rw [if_neg (fun h => h c1)]
      simp only
      generalize (if c.posp = true then
        nsetLoop c m d (getNdom y m) (m % 12 + 1) 8 c.wdIncs 0 0 * (c.e.H.length * c.e.M.length * c.e.S.length) else 0) = nset
      have hd31 := hv.d31
      have hm12 := hv.2.1
      obtain ⟨res1, fin, hw, hab1, hfin⟩ := wlyWeek_spec c hp (EnumOk c.e) id nset hv hy 8 c.wdIncs d y m d 0 res 6 hinc
        (by omega) (Nat.le_refl _) (Carry.done hv.2.2.2) (fun he => ⟨(hab he).1, (hab he).2.mono (by omega)⟩)
      rw [hw]
      cases fin with
      | true => exact ⟨res1, rfl, fun he => (hab1 he).1⟩
      | false =>
        simp only
        by_cases cg : c.r.inter % u32 > (u32 - 1 - 31) / 7
        · rw [if_pos cg]; exact ⟨res1, rfl, fun he => (hab1 he).1⟩
        · rw [if_neg cg]
          have hy99 := hfin rfl
          have hi := hr.inter
          have hk : c.r.inter * 7 + 31 < 4294967296 := by unfold u32 at cg; omega
          have e1 : (d + c.r.inter % u32 * 7 % u32) % u32 = d + c.r.inter * 7 := by unfold u32; omega
          rw [e1]
          obtain ⟨y2, m2, d2, hcm, hc⟩ := carryMon_spec (d + c.r.inter * 7 + 1) y m (d + c.r.inter * 7) hv.1 hv.2.1
            (by omega) (by unfold pot; omega)
          rw [hcm]
          simp only
          obtain ⟨hv2, hpot, -, -⟩ := hc.props hv.1 hv.2.1 (by omega)
          refine ih y2 m2 d2 res1 hv2 ?_ (fun he => ⟨(hab1 he).1, ((hab1 he).2.mono (by omega)).rebase hc⟩)
            (enough_step hv hy99 (by omega) hc hn)
          unfold pot at hpot
          omega
    · rw [if_pos (by omega)]; exact ⟨res, rfl, fun he => (hab he).1⟩

theorem wlyWdMask_lt (dow : List Int) : wlyWdMask dow < 256 := by
  unfold wlyWdMask
  have key : ∀ (l : List Int) (a : Nat), a < 256 →
      l.foldl (fun (m : Nat) (t : Int) => if 1 ≤ t ∧ t ≤ 7 then m ||| ((1 <<< t.toNat) % 256) else m) a < 256 := by
    intro l
    induction l with
    | nil => intro a ha; exact ha
    | cons t ts ih =>
      intro a ha
      simp only [List.foldl_cons]
      apply ih
      split
      · exact Nat.or_lt_two_pow (n := 8) ha (Nat.mod_lt _ (by omega))
      · exact ha
  exact key dow 0 (by omega)

abbrev mkCtx (r : Rule) (p : Inst) (nti incs : Nat) : WlyCtx :=
  { r := r, proto := p, nti := nti, e := makeEnum p r, mMask := monMask r.mon, wdIncs := incs, posp := !r.pos.isEmpty }

theorem wly_finish (r : Rule) (p : Inst) (nti n y0 m0 d0 incs : Nat) (hr : WfRule r) (hp : WfInst p)
    (hcap : nti ≤ n ∧ (0 ≤ r.count → (nti : Int) ≤ r.count))
    (hv : VD y0 m0 d0) (hinc : nibOk 8 incs 6 = true) (hy : y0 ≤ 2100) :
    ∃ l, (wlyLoop (mkCtx r p nti incs) (wlyDlyFuel y0 nti) y0 m0 d0 (getNdom y0 m0) []).map List.reverse = some l ∧
      FillOk r p n l := by
  obtain ⟨l, hl, hacc⟩ := wlyLoop_spec (mkCtx r p nti incs) hr hp hinc (wlyDlyFuel y0 nti) y0 m0 d0 []
    hv (by omega) (fun _ => ⟨Acc.nil _ _ _, Below.nil _ _ _⟩) (enough_start y0 m0 d0 nti hv)
  rw [hl]
  exact ⟨l.reverse, rfl, fillOk_of_acc (hacc (makeEnum_ok r p hr hp)) hcap.1 hcap.2⟩

theorem ndom_dec (y : Nat) : getNdom y 12 = 31 := by
  simp [getNdom, mdays]

/-- `fillWly` ends, and its result is fine -/
theorem fillWly_spec (r : Rule) (p : Inst) (n : Nat) (hr : WfRule r) (hp : WfInst p) :
    ∃ l, fillWly r p n = some l ∧ FillOk r p n l := by
  unfold fillWly
  have hy := hp.year
  rw [if_neg (by rw [hr.scale]; omega)]
  simp only
  cases hcap : capNti r n with
  | none => exact ⟨[], rfl, fillOk_nil r p n⟩
  | some nti =>
    have hcap' := capNti_spec hr hcap
    simp only
    by_cases c1 : p.m = 0 ∨ p.m > 12 ∨ p.d = 0 ∨ p.d > 31
    · rw [if_pos c1]; exact ⟨[], rfl, fillOk_nil r p n⟩
    · rw [if_neg c1]
      have hv : VD p.y p.m p.d := ⟨hp.month.1, hp.month.2, hp.day.1, hp.day.2⟩
      by_cases c2 : wlyWdMask r.dow ≠ 0
      · rw [if_pos c2]
        have hw := wday_range p.y p.m p.d
        generalize ymdGetWday p.y p.m p.d = w at hw ⊢
        have hm := wlyWdMask_lt r.dow
        have hinc := wdIncs_ok (wlyWdMask r.dow / 2) (by omega)
        have hd := hp.day
        by_cases c3 : p.d ≤ w - 1
        · rw [if_pos c3]
          by_cases c4 : p.m - 1 = 0
          · have e1 : (p.y + u32 - 1) % u32 = p.y - 1 := by unfold u32; omega
            simp only [c4, ↓reduceIte, e1, ndom_dec]
            rw [if_neg (by omega)]
            simp only [Option.map_some]
            refine wly_finish r p nti n (p.y - 1) 12 (p.d + 31 - (w - 1)) _ hr hp hcap' ?_ hinc (by omega)
            refine ⟨by omega, by omega, by omega, ?_⟩
            rw [ndom_dec]; omega
          · simp only [c4, ↓reduceIte]
            have hb := ndom_bounds p.y (p.m - 1) (by omega) (by have := hp.month; omega)
            rw [if_neg (by omega)]
            simp only [Option.map_some]
            refine wly_finish r p nti n p.y (p.m - 1) (p.d + getNdom p.y (p.m - 1) - (w - 1)) _ hr hp hcap' ?_
              hinc (by omega)
            have := hp.month
            exact ⟨by omega, by omega, by omega, by omega⟩
        · rw [if_neg c3]
          simp only [Option.map_some]
          refine wly_finish r p nti n p.y p.m (p.d - (w - 1)) _ hr hp hcap' ?_ hinc (by omega)
          have := hp.month
          exact ⟨by omega, by omega, by omega, by omega⟩
      · rw [if_neg c2]
        exact wly_finish r p nti n p.y p.m p.d 0 hr hp hcap' hv nibOk_zero (by omega)

end Echse.Lemmas.RrOkBase
