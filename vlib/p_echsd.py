"""shared machinery of the daemon checks C04 C06 C11 C12 C14: history generator, harness build,
a small Python reference of the *specified* behaviour (abstract per-user map, exactly-once scheduling,
concurrency limit, checkpoint files), and the comparison implementation / Lean model / reference."""
import collections
import datetime
import os
import re

from . import common

T0 = 1893456000                      # 2030-01-01T00:00:00Z
EPOCH = datetime.datetime(1970, 1, 1)
USERS = [1001, 1002, 1003, 1004]
CROWD = list(range(2001, 2041))      # further users the harness' password database knows (hx_crowd)
UNLIMITED = 63


def build(ctx):
    if getattr(ctx, "_echsd_exe", None):
        return ctx._echsd_exe
    objs, log = ctx.lib_objects()
    if objs is None:
        raise common.Broken("library does not compile: " + log[-1500:])
    exe, log = ctx.cc("hx_echsd", [os.path.join(common.HARNESS, "hx_echsd.c"), os.path.join(ctx.src, "logger.c")] + objs,
                      inc=[os.path.join(common.HARNESS, "fakeev")], extra=["-DHAVE_STRUCT_UCRED"])
    if exe is None:
        raise common.Broken("harness hx_echsd does not compile against the working tree:\n" + log[-2500:])
    ctx._echsd_exe = exe
    return exe


def stamp(t):
    return (EPOCH + datetime.timedelta(seconds=t)).strftime("%Y%m%dT%H%M%SZ")


def xxh32(data, seed=0):
    """hash.c's hash(): XXH32 with seed 0 (what intern() and obint() key strings by)"""
    P1, P2, P3, P4, P5 = 2654435761, 2246822519, 3266489917, 668265263, 374761393
    M = 0xffffffff
    rotl = lambda x, r: ((x << r) | (x >> (32 - r))) & M
    n, i = len(data), 0
    rd = lambda k: int.from_bytes(data[k:k + 4], "little")
    if n >= 16:
        v = [(seed + P1 + P2) & M, (seed + P2) & M, seed & M, (seed - P1) & M]
        while i <= n - 16:
            for j in range(4):
                v[j] = (rotl((v[j] + rd(i) * P2) & M, 13) * P1) & M
                i += 4
        h = (rotl(v[0], 1) + rotl(v[1], 7) + rotl(v[2], 12) + rotl(v[3], 18)) & M
    else:
        h = (seed + P5) & M
    h = (h + n) & M
    while i <= n - 4:
        h = (rotl((h + rd(i) * P3) & M, 17) * P4) & M
        i += 4
    while i < n:
        h = (rotl((h + data[i] * P5) & M, 11) * P1) & M
        i += 1
    h ^= h >> 15
    h = (h * P2) & M
    h ^= h >> 13
    h = (h * P3) & M
    h ^= h >> 16
    return h


def autouid(cmd):
    """the name a task without UID goes by: its command's hash (echs_toid_gen, obint_name)"""
    return "echse/autouid-0x%08x@echse" % xxh32(cmd.encode())


class TaskSpec:
    def __init__(self, uid, occ, max_simul=None, dur=0, owner=None, use_rdate=False, dur_form=None, allday=False, uidform=None):
        self.occ, self.max_simul, self.dur, self.owner, self.use_rdate = occ, max_simul, dur, owner, use_rdate
        # uidform: None = `UID:<uid>`; "long" = a UID of 256..700 characters (cannot be interned: the task is turned down);
        # "auto" = no UID line (the task goes by the hash of its command); "none" = neither UID nor SUMMARY (turned down)
        self.uidform = uidform
        self.ancient = 0              # days between DTSTART and the first occurrence given (daily occurrences then)
        self.cmd = "echo %s" % uid
        self.uid_line = {None: "UID:%s" % uid, "long": "UID:%s" % (uid + "-" + "x" * (255 - len(uid) + (occ[0] if occ else 0) % 400)),
                         "auto": None, "none": None}[uidform]
        self.uid = {None: uid, "long": "", "auto": autouid(self.cmd), "none": ""}[uidform]      # the key it is filed under
        self.dur_form = dur_form      # how the limit is spelled: None = PTnS, "iso" = mixed W/D/H/M/S, "dtend" = DTEND
        self.allday = allday          # DATE values: the occurrences (midnights, UTC) are written as days

    def id_lines(self):
        return ([self.uid_line] if self.uid_line else []) + ([] if self.uidform == "none" else ["SUMMARY:%s" % self.cmd])

    def dur_lines(self):
        s = self.dur // 1000
        if self.dur_form == "dtend":
            return ["DTEND:%s" % stamp(self.occ[0] + s)]
        if self.dur_form == "iso":
            w, r = divmod(s, 604800)
            d, r = divmod(r, 86400)
            h, r = divmod(r, 3600)
            m, sec = divmod(r, 60)
            if w and not (d or h or m or sec):
                return ["DURATION:P%dW" % w]
            d += 7 * w
            t = ("%dH" % h if h else "") + ("%dM" % m if m else "") + ("%dS" % sec if sec else "")
            return ["DURATION:P" + ("%dD" % d if d else "") + ("T" + t if t else "")]
        return ["DURATION:PT%dS" % s]

    def ical_event(self):
        if self.allday:
            day = lambda x: (EPOCH + datetime.timedelta(seconds=x)).strftime("%Y%m%d")
            l = ["BEGIN:VEVENT"] + self.id_lines() + [ "DTSTART;VALUE=DATE:%s" % day(self.occ[0])]
            if len(self.occ) > 1 or self.use_rdate:
                if self.use_rdate or any(b - a != 86400 for a, b in zip(self.occ, self.occ[1:])):
                    l.append("RDATE;VALUE=DATE:" + ",".join(day(x) for x in self.occ))
                else:
                    l.append("RRULE:FREQ=DAILY;COUNT=%d" % len(self.occ))
            if self.max_simul is not None:
                l.append("X-ECHS-MAX-SIMUL:%d" % self.max_simul)
            if self.owner is not None:
                l.append("X-ECHS-OWNER:%d" % self.owner)
            l.append("END:VEVENT")
            return l
        if self.ancient:
            # a rule that began long ago (before 2001, the epoch of the daemon's own calendar arithmetic)
            l = ["BEGIN:VEVENT"] + self.id_lines() + ["DTSTART:%s" % stamp(self.occ[0] - self.ancient * 86400),
                                                      "RRULE:FREQ=DAILY;UNTIL=%s" % stamp(self.occ[-1])]
        else:
            l = ["BEGIN:VEVENT"] + self.id_lines() + [ "DTSTART:%s" % stamp(self.occ[0])]
        if len(self.occ) > 1 and not self.ancient:
            step = self.occ[1] - self.occ[0]
            if self.use_rdate or any(b - a != step for a, b in zip(self.occ, self.occ[1:])):
                # echse does not count DTSTART itself as an occurrence once RDATEs are given (pinned by rrul_37..41)
                l.append("RDATE:" + ",".join(stamp(t) for t in self.occ))
            else:
                l.append("RRULE:FREQ=SECONDLY;INTERVAL=%d;COUNT=%d" % (step, len(self.occ)))
        if self.dur:
            l += self.dur_lines()
        if self.max_simul is not None:
            l.append("X-ECHS-MAX-SIMUL:%d" % self.max_simul)
        if self.owner is not None:
            l.append("X-ECHS-OWNER:%d" % self.owner)
        l.append("END:VEVENT")
        return l

    def token(self):
        return "S|%s|%s|%d|%d|%s|1" % (self.uid, "-" if self.owner is None else self.owner,
                                       UNLIMITED if self.max_simul is None else self.max_simul, self.dur,
                                       ",".join(str(t) for t in self.occ))


def request(peer, items, wire=None):
    """items: TaskSpec (schedule) or ('cancel', uid).  One METHOD per calendar, so schedules and cancels go in separate
    calendars of the same request text."""
    text, toks = [], []
    sched = [i for i in items if isinstance(i, TaskSpec)]
    canc = [i for i in items if not isinstance(i, TaskSpec)]
    if sched:
        text += ["BEGIN:VCALENDAR", "VERSION:2.0", "METHOD:PUBLISH"]
        for t in sched:
            text += t.ical_event()
            toks.append(t.token())
        text += ["END:VCALENDAR"]
        if wire is not None:
            # the text as the real serialiser (echsq, checkpoint files) writes these tasks
            text = wire("\n".join(text) + "\n").rstrip("\n").split("\n")
    if canc:
        text += ["BEGIN:VCALENDAR", "VERSION:2.0", "METHOD:CANCEL"]
        for _, uid in canc:
            text += ["BEGIN:VEVENT", "UID:%s" % uid, "STATUS:CANCELLED", "END:VEVENT"]
            toks.append("U|%s" % (uid if len(uid) < 256 else ""))
        text += ["END:VCALENDAR"]
    body = "\n".join(text) + "\n"
    return "A %d %s %s" % (peer, body.encode().hex(), " ".join(toks)), sched + canc


# ------------------------------------------------------------------ reference of the specified behaviour
class Ref:
    """the daemon as the properties describe it"""

    def __init__(self, me=0):
        self.me = me
        self.now = 0
        self.tasks = {}           # uid -> dict(owner, occ, limit, dur, running)
        self.children = []        # per supervised spawn: [uid-record, live]
        self.files = {}           # uid(int) -> sorted list of task uids
        self.dirty = []
        self.spawn_fail = False

    def _mark(self, u):
        if len(self.dirty) < 16:
            self.dirty.append(u)

    def request(self, peer, items):
        out, any_ok = [], False
        for it in items:
            if isinstance(it, TaskSpec):
                ok = self._add(peer, it)
                out.append("rp(%s=%s)" % (it.uid, "2.0" if ok else "5.1"))
            else:
                uid = it[1] if len(it[1]) < 256 else ""
                t = self.tasks.get(uid)
                ok = t is not None and t["owner"] == peer
                if ok:
                    del self.tasks[uid]
                out.append("rp(%s=%s)" % (uid, "2.0" if ok else "5.1"))
            any_ok |= ok
        if any_ok:
            self._mark(peer)
        return out

    def _add(self, peer, spec):
        known = peer in USERS or peer in CROWD or peer == 0
        if not spec.uid:
            # nothing to file the task under
            return False
        owner = spec.owner
        if owner is not None and owner not in USERS + CROWD + [0]:
            owner = None
        if not known:
            # somebody the password database does not know acts for nobody (C11: never as another user)
            return False
        if owner is None and self.me and peer != self.me:
            return False
        if known and owner is not None and owner != peer:
            return False
        who = peer
        old = self.tasks.get(spec.uid)
        if old is not None and old["owner"] != who:
            return False
        rec = old if old is not None else {"running": 0, "live": []}
        # a replacement keeps the record (and with it the executions still running under this UID)
        rec.update({"owner": who, "occ": [t for t in spec.occ if t >= self.now],
                    "limit": UNLIMITED if spec.max_simul is None else spec.max_simul, "dur": spec.dur,
                    "ever": False, "loaded": self.now})
        self.tasks[spec.uid] = rec
        return True

    def tick(self, now, order_hint=()):
        """order_hint: uids in the order the implementation reported its spawns (the order of callbacks within one
        loop iteration is libev's business; child indices follow it)"""
        self.now = now
        sp = []
        rank = {u: i for i, u in enumerate(order_hint)}
        for uid in sorted(self.tasks, key=lambda u: rank.get(u, len(rank))):
            t = self.tasks[uid]
            due = [x for x in t["occ"] if x < now]
            if due:
                t["occ"] = [x for x in t["occ"] if x >= now]
                t["ever"] = True
                if t["limit"] >= UNLIMITED or t["running"] < t["limit"]:
                    if not self.spawn_fail:
                        t["running"] += 1
                        c = [t, True]
                        t["live"].append(c)
                        self.children.append(c)
                        sp.append("sp(%s,nd=0,dur=PT%dS,as=%d)" % (uid, -(-t["dur"] // 1000), t["owner"]))
                elif not self.spawn_fail:
                    sp.append("sp(%s,nd=1,dur=PT%dS,as=%d)" % (uid, -(-t["dur"] // 1000), t["owner"]))
            if not t["occ"] and t["running"] == 0 and (due or not t["ever"]):
                # after the last occurrence (or with none in the future) the task leaves the queue
                if now > t["loaded"] or due:
                    self._retire(uid)
        return sp

    def tick_exit(self, now, k, order_hint=()):
        """a loop iteration in which child k is reaped as well: the occurrence that comes due is still run"""
        # the specified behaviour does not depend on the order inside the iteration: exit first is equivalent
        # except that the finished task must not be retired before its last run
        live = k < len(self.children) and self.children[k][1]
        if live:
            c = self.children[k]
            c[1] = False
            c[0]["running"] -= 1
        sp = self.tick(now, order_hint)
        if live:
            t = c[0]
            for uid, cur in list(self.tasks.items()):
                if cur is t and not t["occ"] and t["running"] == 0 and t["ever"]:
                    self._retire(uid)
        return ("x" if live else "nochild"), sp

    def http_sched(self, peer, url_uid, tuids):
        """GET [/u/N]/sched: a user sees its own tasks only; root sees those of the user named in the URL, its own without"""
        mine = lambda u: sorted(uid for uid, t in self.tasks.items() if t["owner"] == u)
        if url_uid == 4294967295:
            url_uid = None              # /u/4294967295/ is (uid_t)-1, what the request carries when it names nobody
        if peer != 0:
            allowed = set(mine(peer))
        else:
            allowed = set(mine(url_uid if url_uid is not None else 0))
        return allowed

    def http_queue(self, peer, url_uid):
        """GET [/u/N]/queue: the user's queue as the spool has it, after the changes not yet saved have been written;
        returns (tasks that may be listed, tasks that must be listed)"""
        if url_uid == 4294967295:
            url_uid = None
        if peer != 0:
            if url_uid is not None and (peer & url_uid) != peer:
                return set(), set()
            target = peer
        else:
            # root may look at everybody's, by default at its own
            target = 0 if url_uid is None else url_uid
        if target in self.dirty or len(self.dirty) >= 16:
            self.checkpoint()
        own = {uid for uid, t in self.tasks.items() if t["owner"] == target}
        return own | set(self.files.get(target, [])), {uid for uid in own if self.tasks[uid]["occ"]}

    def _retire(self, uid):
        t = self.tasks.pop(uid)
        self._mark(t["owner"])

    def child_exit(self, k):
        if k >= len(self.children) or not self.children[k][1]:
            return "nochild"
        c = self.children[k]
        c[1] = False
        t = c[0]
        t["running"] -= 1
        for uid, cur in list(self.tasks.items()):
            if cur is t and not t["occ"] and t["running"] == 0:
                self._retire(uid)
        return "x"

    def table(self):
        return sorted((uid, t["owner"], t["running"]) for uid, t in self.tasks.items())

    def checkpoint(self):
        full = len(self.dirty) >= 16
        users = self.dirty if not full else sorted({t["owner"] for t in self.tasks.values()})
        for u in users:
            self.files[u] = sorted(uid for uid, t in self.tasks.items() if t["owner"] == u and t["occ"])
        if full:
            # the complete dump leaves no file of a user without tasks
            self.files = {u: f for u, f in self.files.items() if u in users}
        self.dirty = []

    def listing(self):
        return ",".join("echsq_%d.ics:%s" % (u, "+".join(self.files[u])) for u in sorted(self.files, key=lambda x: "echsq_%d.ics" % x))


def parse_groups(answer):
    return re.findall(r"\[([^\]]*)\]", answer)


def gen_history(rng, knobs):
    """a history as a list of op strings plus the parallel list of reference actions"""
    ops, acts = [], []
    now = rng.choice(knobs.get("t0s", [T0]))
    ops.append("T %d" % now); acts.append(("T", now))
    uids = ["job%d" % i for i in range(1, rng.choice([2, 3, 5]) + 1)]
    nsteps = rng.randint(6, knobs.get("steps", 22))
    spawned = 0
    pool = USERS[:knobs.get("nusers", 3)]
    if knobs.get("httpq", False) and rng.random() < 0.4:
        # users from another power-of-two range of uids, and root, as clients
        pool = pool[:2] + rng.sample(CROWD, 2) + ([0] if rng.random() < 0.5 else [])
    for _ in range(nsteps):
        r = rng.random()
        if knobs.get("httpq", False) and r < 0.012:
            # a busy spell: more acknowledged requests than the daemon's list of marks holds, then somebody looks at a queue
            who = rng.sample(pool, 2) if len(pool) > 1 else pool * 2
            for j in range(rng.randint(15, 18)):
                spec = TaskSpec("b%d_%d" % (len(ops), j), [now + 500 + j], None, 0)
                pr = who[0] if j < 15 else rng.choice(who)
                op, a = request(pr, [spec])
                ops.append(op); acts.append(("A", pr, a))
            pr = rng.choice(who)
            reqline = "GET /queue HTTP/1.1\r\n\r\n"
            ops.append("HQ %d %s - -" % (pr, reqline.encode().hex())); acts.append(("HQ", pr, None, "/queue"))
            continue
        if knobs.get("conns", False) and r < 0.045 and r >= 0.03:
            # many clients at a time: the daemon has 64 connection slots
            k = rng.choice([1, 5, 31, 32, 33, 34, 40, 63, 64, 65, 66, 80, rng.randint(1, 100)])
            hang = sorted(set(rng.randint(0, k + 2) for _ in range(rng.randint(0, 6))))
            ops.append("N %d%s" % (k, "".join(" %d" % x for x in hang))); acts.append(("N", k, hang))
            continue
        if knobs.get("httpq", False) and r < 0.03:
            # a spell of requests and looks at the spool by users of both uid ranges: every look by a user with unsaved
            # changes is a checkpoint, so the daemon's list of marks is filled and emptied many times over
            mixed = USERS[:3] + rng.sample(CROWD, 2) + [0]
            for j in range(rng.randint(8, 16)):
                pr = rng.choice(mixed)
                if rng.random() < 0.6:
                    spec = TaskSpec("v%d_%d" % (len(ops), j), [now + 700 + j], None, 0)
                    op, a = request(pr, [spec])
                    ops.append(op); acts.append(("A", pr, a))
                else:
                    uu = rng.choice([None, None, pr]) if pr else rng.choice(mixed[:5])
                    path = ("/u/%d" % uu if uu is not None else "") + "/queue"
                    reqline = "GET %s HTTP/1.1\r\n\r\n" % path
                    ops.append("HQ %d %s %s -" % (pr, reqline.encode().hex(), "-" if uu is None else uu))
                    acts.append(("HQ", pr, uu, path))
            continue
        if r < 0.30:
            peer = rng.choice(pool + ([1009] if rng.random() < 0.1 else []))
            items = []
            cancel_req = rng.random() < knobs.get("p_cancel", 0.2)     # one METHOD per request
            for _ in range(rng.choice([1, 1, 1, 2, 3])):
                if cancel_req:
                    u = rng.choice(uids)
                    z = rng.choice(knobs.get("uidforms", [None]))
                    # (a task without UID is cancelled by the name it is listed under; a UID too long to intern names nothing)
                    items.append(("cancel", autouid("echo " + u) if z == "auto" else u + "-" + "y" * 300 if z == "long" else u))
                else:
                    n = rng.choice([1, 2, 3, 4, 6])
                    step = rng.choice([1, 2, 5, 10])
                    start = now + rng.choice([-30, -3, 0, 1, 2, 5, 12])
                    occ = [start + i * step for i in range(n)]
                    if rng.random() < 0.25:
                        occ = sorted(set(start + rng.randint(0, 20) for _ in range(n)))
                    ms = rng.choice(knobs.get("limits", [None, None, 0, 1, 1, 2, 3]))
                    dur = rng.choice(knobs.get("durs", [0, 0, 5000, 61000]))
                    owner = rng.choice([None] * 8 + [peer, rng.choice(USERS)])
                    items.append(TaskSpec(rng.choice(uids), occ, ms, dur, owner, use_rdate=rng.random() < 0.3,
                                          dur_form=rng.choice(knobs.get("dur_forms", [None])),
                                          uidform=rng.choice(knobs.get("uidforms", [None]))))
            op, its = request(peer, items, knobs.get("wire") if rng.random() < knobs.get("p_wire", 0.5) else None)
            ops.append(op); acts.append(("A", peer, its))
        elif r < 0.62 and knobs.get("allday", False) and rng.random() < 0.08:
            # a daily task that began in the last century: the next occurrences are due all the same
            first = now + rng.choice([-5, 0, 1, 3, 40])
            n = rng.choice([1, 2, 3])
            spec = TaskSpec(rng.choice(uids), [first + 86400 * i for i in range(n)], rng.choice([None, 1]), 0, None)
            spec.ancient = rng.choice([10960, 11500, 12000, 23000])        # 2000, 1998, 1997, 1967 or so
            peer = rng.choice(pool)
            op, its = request(peer, [spec])
            ops.append(op); acts.append(("A", peer, its))
            now = first + rng.choice([-1, 0, 1, 2, 86390, 86401])
            ops.append("T %d" % now); acts.append(("T", now))
            spawned += 3
        elif r < 0.62 and knobs.get("allday", False) and rng.random() < 0.12:
            # a task of whole days (DATE values, due at midnight UTC), then the clock goes to about the next midnight
            day0 = now - now % 86400
            ks = sorted(set(rng.sample(range(0, 4), rng.randint(1, 3))))
            peer = rng.choice(pool)
            op, its = request(peer, [TaskSpec(rng.choice(uids), [day0 + k * 86400 for k in ks], rng.choice([None, 1]), 0, None,
                                              use_rdate=rng.random() < 0.5, allday=True)])
            ops.append(op); acts.append(("A", peer, its))
            now = day0 + 86400 + rng.choice([-3, -1, 0, 0, 1, 2, 7])
            ops.append("T %d" % now); acts.append(("T", now))
            spawned += 3
        elif r < 0.62:
            now += rng.choice([1, 1, 2, 3, 5, 11, 30])
            z = rng.random()
            if knobs.get("jumps", False) and z < 0.35:
                # the wall clock is stepped (NTP, resume from suspend): to the daemon the same as a late wake-up
                ops.append("J %d" % now)
            elif knobs.get("busy", False) and z < 0.3:
                # an iteration whose callbacks take a while on the wall clock (many spawns)
                ops.append("TB %d %d" % (now, rng.choice([1, 2, 5, 30])))
            else:
                ops.append("T %d" % now)
            acts.append(("T", now))
            spawned += 3
        elif r < 0.66 and knobs.get("tx", True):
            now += rng.choice([1, 2, 5, 10])
            k = rng.randint(0, max(0, spawned))
            ops.append("TX %d %d" % (now, k)); acts.append(("TX", now, k))
            spawned += 2
        elif r < 0.68 and knobs.get("httpq", False):
            peer = rng.choice(pool + [0])
            url_uid = rng.choice([None, None, None, peer, rng.choice(USERS), 1023, 2047])
            path = ("/u/%d" % url_uid if url_uid is not None else "") + "/queue"
            reqline = "GET %s HTTP/1.1\r\n\r\n" % path
            ops.append("HQ %d %s %s -" % (peer, reqline.encode().hex(), "-" if url_uid is None else url_uid))
            acts.append(("HQ", peer, url_uid, path))
        elif r < 0.70 and knobs.get("http", False):
            peer = rng.choice(USERS[:knobs.get("nusers", 3)] + [0])
            url_uid = rng.choice([None, None, peer, rng.choice(USERS), 1023, 2047, 4294967295])
            tu = [rng.choice(uids)] if rng.random() < 0.3 else []
            path = ("/u/%d" % url_uid if url_uid is not None else "") + "/sched" + ("?tuid=" + tu[0] if tu else "")
            reqline = "GET %s HTTP/1.1\r\n\r\n" % path
            ops.append("H %d %s %s %s" % (peer, reqline.encode().hex(), "-" if url_uid is None else url_uid, " ".join(tu) if tu else "-"))
            acts.append(("H", peer, url_uid, tu, path))
        elif r < 0.82:
            k = rng.randint(0, max(0, spawned))
            ops.append("X %d 0" % k); acts.append(("X", k))
        elif r < 0.92:
            ops.append("Q"); acts.append(("Q",))
        elif r < 0.97 and knobs.get("chk", True):
            ops.append("C"); acts.append(("C",))
            ops.append("L"); acts.append(("L",))
        elif knobs.get("spawnfail", False):
            v = rng.choice([0, 1])
            ops.append("P %d" % v); acts.append(("P", v))
    ops.append("Q"); acts.append(("Q",))
    return ops, acts


def run_ref(acts, me=0, groups=None):
    ref = Ref(me)
    outs = []
    for i, a in enumerate(acts):
        if a[0] == "T":
            hint = re.findall(r"sp\(([^,)]*),", groups[i]) if groups and i < len(groups) else ()
            outs.append(("T", sorted(ref.tick(a[1], hint))))
        elif a[0] == "A":
            outs.append(("A", ref.request(a[1], a[2])))
        elif a[0] == "X":
            outs.append(("X", ref.child_exit(a[1])))
        elif a[0] == "TX":
            hint = re.findall(r"sp\(([^,)]*),", groups[i]) if groups and i < len(groups) else ()
            x, sp = ref.tick_exit(a[1], a[2], hint)
            outs.append(("TX", (x, sorted(sp))))
        elif a[0] == "H":
            outs.append(("H", ref.http_sched(a[1], a[2], a[3])))
        elif a[0] == "HQ":
            outs.append(("HQ", ref.http_queue(a[1], a[2])))
        elif a[0] == "N":
            outs.append(("N", None))
        elif a[0] == "Q":
            outs.append(("Q", ref.table()))
        elif a[0] == "C":
            ref.checkpoint(); outs.append(("C", "c"))
        elif a[0] == "L":
            outs.append(("L", ref.listing()))
        elif a[0] == "P":
            ref.spawn_fail = bool(a[1]); outs.append(("P", "p"))
        else:
            outs.append((a[0], None))
    return outs


def ops_text(a):
    return " ".join(str(x) for x in a)[:80]


def compare(acts, answer, me=0):
    """differences between the implementation's answer and the reference, each tagged with the property it belongs to"""
    groups = parse_groups(answer)
    want = run_ref(acts, me, groups)
    diffs = []
    if len(groups) != len(acts):
        diffs.append(("C04", "history answered %d of %d ops: %s" % (len(groups), len(acts), answer[-200:])))
        return diffs
    for i, (a, g, (kind, w)) in enumerate(zip(acts, groups, want)):
        if g in ("CRASH", "TIMEOUT") or g.startswith("DIED"):
            diffs.append(("C04", "op %d (%s): the daemon %s" % (i, a[0], g)))
            break
        if kind == "T":
            got = sorted(re.findall(r"sp\([^)]*\)", g))
            if got != w:
                gs = [re.sub(r",dur=[^,]*", "", x) for x in got]
                ws = [re.sub(r",dur=[^,]*", "", x) for x in w]
                gn = sorted(re.sub(r",nd=\d", "", x) for x in gs)
                wn = sorted(re.sub(r",nd=\d", "", x) for x in ws)
                if gn != wn:
                    diffs.append(("C04", "op %d (clock -> %d): executions started %s, occurrences come due call for %s" % (i, a[1], got, w)))
                elif gs != ws:
                    diffs.append(("C12", "op %d (clock -> %d): run / not-run decisions %s, the limits call for %s" % (i, a[1], got, w)))
                else:
                    diffs.append(("C14", "op %d: limit handed to the executor %s, expected %s" % (i, got, w)))
        elif kind == "TX":
            got = sorted(re.findall(r"sp\([^)]*\)", g))
            if got != w[1]:
                diffs.append(("C04", "op %d (clock -> %d, child %d reaped in the same iteration): executions started %s, "
                              "occurrences come due call for %s" % (i, a[1], a[2], got, w[1])))
        elif kind == "H":
            status, _, body = g.partition(":")
            listed = set(x for x in body.split("+") if x)
            if not listed <= w:
                diffs.append(("C11", "op %d: user %d asking %s is shown %s, which are not its own tasks (own: %s)"
                              % (i, a[1], a[4], sorted(listed - w), sorted(w))))
            elif status == "200" and a[2] in (None, a[1]) and not a[3] and listed != w:
                diffs.append(("C11", "op %d: user %d listing its tasks sees %s, its queue holds %s" % (i, a[1], sorted(listed), sorted(w))))
        elif kind == "N":
            toks = g.split(",") if g else []
            k, hang = a[1], a[2]
            live, got = set(), []
            bad = None
            nfree = 0
            for j, tk in enumerate(toks):
                if j == k:
                    # the listed clients hang up
                    for x in hang:
                        if x < len(got) and got[x] is not None and got[x] in live:
                            live.discard(got[x]); got[x] = None; nfree += 1
                if tk == "-":
                    if len(live) < 64:
                        bad = "connection %d is turned away with %d of 64 slots in use" % (j, len(live))
                        break
                    got.append(None)
                    continue
                slot = int(tk.rstrip("!"))
                if tk.endswith("!") or slot in live:
                    bad = "connection %d is handed slot %d, which another live connection holds (%d in use)" % (j, slot, len(live))
                    break
                live.add(slot); got.append(slot)
            if bad is None and len(toks) < k:
                bad = "%d answers for %d connections" % (len(toks), k)
            if bad:
                diffs.append(("C11", "op %d (%s): %s" % (i, ops_text(a), bad)))
        elif kind == "HQ":
            status, _, body = g.partition(":")
            listed = set(x for x in body.split("+") if x)
            may, must = w
            if not listed <= may:
                diffs.append(("C11", "op %d: user %d asking %s is shown %s, which are not current tasks of that queue (%s)"
                              % (i, a[1], a[3], sorted(listed - may), sorted(may))))
            elif not must <= listed:
                diffs.append(("C11", "op %d: user %d asking %s is shown %s (status %s); accepted and still to run: %s"
                              % (i, a[1], a[3], sorted(listed), status, sorted(must))))
        elif kind == "A":
            got = re.findall(r"rp\([^)]*\)", g)
            if got != w:
                diffs.append(("C11", "op %d (request from %d): replies %s, the per-user map calls for %s" % (i, a[1], got, w)))
        elif kind == "X":
            if g.split(",")[0] != w:
                diffs.append(("C04", "op %d: child exit answered %s, expected %s" % (i, g, w)))
        elif kind == "Q":
            got = []
            for row in [x for x in g.split(",") if x]:
                f = row.split(":")
                got.append((f[0], int(f[1]), int(f[3])))
            if sorted(got) != w:
                if sorted(x[:2] for x in got) != [x[:2] for x in w]:
                    extra = sorted(set(x[:2] for x in got) - set(x[:2] for x in w))
                    miss = sorted(set(x[:2] for x in w) - set(x[:2] for x in got))
                    diffs.append(("C11" if miss else "C04", "op %d: queue holds %s, expected %s (missing %s, not retired / unexpected %s)"
                                  % (i, sorted(x[:2] for x in got), [x[:2] for x in w], miss, extra)))
                else:
                    diffs.append(("C12", "op %d: running counts %s, expected %s" % (i, sorted(got), w)))
        elif kind == "L":
            if g != w:
                diffs.append(("C06", "op %d: spool holds %s, expected %s" % (i, g, w)))
    return diffs


def run_checks(ctx, prop, knobs, n_quick, n_thorough, rule, me_choices=(0,)):
    exe = build(ctx)
    rng = ctx.rng
    n = n_thorough if ctx.tier == "thorough" else n_quick
    cases = []
    for k in range(n):
        me = rng.choice(me_choices)
        # one history in twelve with steps of the wall clock (knob jump_share)
        jk = dict(knobs, jumps=True) if knobs.get("jump_share") and k % knobs["jump_share"] == 3 else knobs
        ops, acts = gen_history(rng, jk)
        cases.append((me, ops, acts))
    lines = ["d.hist %d ; %s" % (me, " ; ".join(ops)) for me, ops, _ in cases]
    lines += common.load_corpus(prop)
    impl, st, err = ctx.impl(exe, lines, timeout=3600)
    model = ctx.model(lines)
    mine, others, stepped = [], collections.Counter(), []
    for i, (me, ops, acts) in enumerate(cases):
        jumps = [j for j, o in enumerate(ops) if o.startswith("J ")]
        for p, why in compare(acts, impl[i] if i < len(impl) else "", me):
            m = re.match(r"op (\d+)", why)
            if jumps and m and int(m.group(1)) >= jumps[0] and p in ("C04", "C12", "C14", "C11"):
                # after a step of the clock: judged as a class of its own (recorded finding or not, see below)
                stepped.append((i, p, why))
            elif p == prop:
                mine.append((i, why))
            else:
                others[p] += 1
    # the table dump shows a task's current occurrence as an instant: whole-day occurrences come as DATE values, the model
    # has them as midnights
    canon = lambda s: re.sub(r"(:[0-9a-f]{8})ff000000:", r"\g<1>000003ff:", s)
    corr = common.diff_lines(lines, [canon(x) for x in impl], model)
    opcount = collections.Counter(a[0] for _, _, acts in cases for a in acts)
    ctx.cov.update({
        "evaluations": len(lines),
        "distinct_nontrivial": len({l for l, c in zip(lines, cases) if sum(1 for a in c[2] if a[0] == "A") >= 1}),
        "traces_validated_against_impl": len(lines) - len(corr),
        "rule": rule + " non-trivial = at least one client request; distinct = distinct histories",
        "samples": [re.sub(r" [0-9a-f]{40,} ", " <ical> ", lines[i])[:400] + "  =>  " + (impl[i][:200] if i < len(impl) else "?")
                    for i in sorted(rng.sample(range(len(lines)), min(3, len(lines))))],
        "ops": dict(opcount),
        "harness_status": st,
        "impl_vs_spec_failures": len(mine),
        "differences_belonging_to_other_properties": dict(others),
        "impl_vs_model_differences": len(corr),
        "exhaustive": False,
    })
    ctx.assumptions += ["libev contract of DESIGN.md Appendix B (stand-in harness/fakeev/ev.h); posix_spawn, getpwuid replaced; "
                        "recurrence streams are SECONDLY rules / RDATE lists whose expansion the generator knows"]
    if stepped:
        ctx.cov["histories_differing_after_a_clock_step"] = len({i for i, _, _ in stepped})
        kn = [k for k in common.load_known(prop) if k.get("status") == "known" and k.get("class") == "clock-step"]
        if kn:
            ctx.known(kn[0]["what"])
        elif prop == "C04" and not mine:
            i, p, why = stepped[0]
            mine.append((i, "after a step of the wall clock: " + why))
    if st != "ok" and not mine and not corr:
        ctx.violation("correspondence", "harness ended with %s: %s" % (st, err[-600:]), {"stderr": err}, found_input=False)
    if mine:
        i, why = mine[0]
        ctx.violation("property", why, {"op": lines[i], "impl": impl[i] if i < len(impl) else None, "model": model[i],
                                        "failures_total": len(mine), "more": [w for _, w in mine[1:5]]})
    elif corr:
        i, op, a, b = corr[0]
        ctx.violation("correspondence", "implementation and model differ on %d histories while the reference behaviour is met; first: impl=%s model=%s"
                      % (len(corr), a[:300], b[:300]), {"correspondence": "Echse.Model.Daemon vs echsd.c", "op": op, "impl": a, "model": b},
                      found_input=False)
    return cases, lines, impl, model


def replay(ctx, rep):
    exe = build(ctx)
    op = rep["data"].get("op")
    if not op:
        print("replay names no input: %s" % rep.get("what"))
        return 1
    out, st, _ = ctx.impl(exe, [op])
    m = ctx.model([op])[0]
    print("impl : %s\nmodel: %s\nwas: %s" % (out[0] if out else st, m, rep.get("what")))
    return 0 if (out and out[0] == m and out[0] != rep["data"].get("impl")) else 1
