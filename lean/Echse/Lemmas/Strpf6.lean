/-
  Helper lemmas for C18, part 6: the explicit form of what `idiffStrf` prints (milliseconds as a
  three-digit fraction of the seconds) and the duration round trip for every number of milliseconds.
-/
import Echse.Lemmas.Strpf5
namespace Echse.Strpf
open Echse.Instant Echse.Spec.Cal

/-! ### F. what `idiffStrf` prints -/

/-- a part is printed iff its value is not zero -/
def nz (v : Nat) : Option (List Char) := if v ≠ 0 then some (tostr v) else none
/-- the seconds are printed iff they or the milliseconds are not zero (`0` before a lone fraction) -/
def secsOf (sec ms : Nat) : Option (List Char) := if sec ≠ 0 ∨ ms ≠ 0 then some (tostr sec) else none
/-- the fraction is printed iff the milliseconds are not zero, with three digits -/
def fracOf (ms : Nat) : Option (List Char) := if ms ≠ 0 then some (tpstr ms 3) else none

theorem ilog10Ceil_pos (v : Nat) : 1 ≤ ilog10Ceil v := by
  unfold ilog10Ceil
  have : 4 ≤ max 4 (bitLen 32 v) := Nat.le_max_left _ _
  simp only []
  omega

theorem tostr_length_pos (v : Nat) : 1 ≤ (tostr v).length := by
  unfold tostr; rw [tpstr_length]; exact ilog10Ceil_pos v

theorem POk_nz (v : Nat) (h : v < 2^32) : POk (nz v) := by
  intro ds hds
  unfold nz at hds
  split at hds
  · cases hds; exact ⟨tostr_isDig v, by rw [tostr_val v h]; exact h⟩
  · cases hds

theorem pval_nz (v : Nat) (h : v < 2^32) : pval (nz v) = (v : Int) := by
  unfold nz
  split
  · simp [pval, tostr_val v h]
  · rename_i h0; simp at h0; simp [pval, h0]

theorem pval_none : pval none = 0 := rfl
theorem POk_none : POk none := by intro ds h; cases h

theorem POk_secsOf (sec ms : Nat) (h : sec < 2^32) : POk (secsOf sec ms) := by
  intro ds hds
  unfold secsOf at hds
  split at hds
  · cases hds; exact ⟨tostr_isDig sec, by rw [tostr_val sec h]; exact h⟩
  · cases hds

theorem pval_secsOf (sec ms : Nat) (h : sec < 2^32) : pval (secsOf sec ms) = (sec : Int) := by
  unfold secsOf
  split
  · simp [pval, tostr_val sec h]
  · rename_i h0; simp at h0; simp [pval, h0.1]

theorem FOk_fracOf (ms : Nat) : FOk (fracOf ms) := by
  intro fs hfs
  unfold fracOf at hfs
  split at hfs
  · cases hfs; exact tpstr_isDig 3 ms
  · cases hfs

theorem fracVal_tpstr3 (ms : Nat) (h : ms < 1000) : fracVal (tpstr ms 3) = ms := by
  rw [fracVal_short _ (by rw [tpstr_length]; omega), tpstr_length, tpstr_val]
  omega

theorem fval_of (sec ms : Nat) (h : ms < 1000) : fval (secsOf sec ms) (fracOf ms) = (ms : Int) := by
  unfold secsOf fracOf
  by_cases h0 : ms = 0
  · subst h0; simp [fval]
  · simp [h0, fval, fracVal_tpstr3 ms h]

theorem tostr_zero : tostr 0 = ['0'] := by decide

theorem tpstr3_eq (ms : Nat) (h : ms < 1000) :
    tpstr ms 3 = [Char.ofNat (48 + ms / 100), Char.ofNat (48 + ms / 10 % 10), Char.ofNat (48 + ms % 10)] := by
  have a : ms / 10 / 10 % 10 = ms / 100 := by omega
  simp [tpstr, digitChar, a]

theorem idiffStrf_body (n : Nat) (hn : n ≠ 0) (hd : n / 86400000 < 2^32) :
    idiffStrf (n : Int) = 'P' :: durBodyF none (nz (n / 86400000)) (nz (n % 86400000 / 3600000))
        (nz (n % 86400000 % 3600000 / 60000))
        (secsOf (n % 86400000 % 3600000 % 60000 / 1000) (n % 86400000 % 3600000 % 60000 % 1000))
        (fracOf (n % 86400000 % 3600000 % 60000 % 1000)) ∧
    idiffStrf (-(n : Int)) = '-' :: 'P' :: durBodyF none (nz (n / 86400000)) (nz (n % 86400000 / 3600000))
        (nz (n % 86400000 % 3600000 / 60000))
        (secsOf (n % 86400000 % 3600000 % 60000 / 1000) (n % 86400000 % 3600000 % 60000 % 1000))
        (fracOf (n % 86400000 % 3600000 % 60000 % 1000)) := by
  have e1 : ¬ ((n : Int) < 0) := by omega
  have e2 : (-(n : Int) < 0) := by omega
  have e3 : (n : Int).natAbs = n := by omega
  have e4 : (-(n : Int)).natAbs = n := by omega
  have e5 : n / 86400000 % 2^32 = n / 86400000 := Nat.mod_eq_of_lt hd
  unfold idiffStrf
  simp only [e1, e2, e3, e4, e5, hn, if_true, if_false]
  have k1 : n % 86400000 = 0 → n % 86400000 / 3600000 = 0 ∧ n % 86400000 % 3600000 / 60000 = 0 ∧
      n % 86400000 % 3600000 % 60000 / 1000 = 0 ∧ n % 86400000 % 3600000 % 60000 % 1000 = 0 := by omega
  have k2 : n % 86400000 ≠ 0 → n % 86400000 / 3600000 ≠ 0 ∨ n % 86400000 % 3600000 / 60000 ≠ 0 ∨
      n % 86400000 % 3600000 % 60000 / 1000 ≠ 0 ∨ n % 86400000 % 3600000 % 60000 % 1000 ≠ 0 := by omega
  have hms : n % 86400000 % 3600000 % 60000 % 1000 < 1000 := by omega
  generalize n % 86400000 % 3600000 % 60000 % 1000 = ms at *
  generalize n % 86400000 % 3600000 % 60000 / 1000 = sec at *
  generalize n % 86400000 % 3600000 / 60000 = mi at *
  generalize n % 86400000 / 3600000 = h at *
  generalize n % 86400000 = r at *
  generalize n / 86400000 = D at *
  have t3 := tpstr3_eq ms hms
  by_cases hr : r = 0
  · obtain ⟨rfl, rfl, rfl, rfl⟩ := k1 hr
    by_cases a : D = 0 <;> simp [durBodyF, tpartF, part, nz, secsOf, a, hr]
  · have k := k2 hr
    by_cases a : D = 0 <;> by_cases b : h = 0 <;> by_cases c : mi = 0 <;> by_cases d : sec = 0 <;>
      by_cases e : ms = 0 <;>
      (try omega) <;> simp [durBodyF, tpartF, part, spart, nz, secsOf, fracOf, a, b, c, d, e, hr, t3, tostr_zero]

theorem durBodyF_of_length (D h mi sec ms : Nat) (hnz : D ≠ 0 ∨ h ≠ 0 ∨ mi ≠ 0 ∨ sec ≠ 0 ∨ ms ≠ 0) :
    2 ≤ (durBodyF none (nz D) (nz h) (nz mi) (secsOf sec ms) (fracOf ms)).length := by
  have l1 := tostr_length_pos D
  have l2 := tostr_length_pos h
  have l3 := tostr_length_pos mi
  have l4 := tostr_length_pos sec
  by_cases a : D = 0 <;> by_cases b : h = 0 <;> by_cases c : mi = 0 <;> by_cases d : sec = 0 <;>
    by_cases e : ms = 0 <;>
    (try omega) <;> simp [durBodyF, tpartF, part, spart, nz, secsOf, fracOf, a, b, c, d, e] <;> omega

/-- the duration round trip, positive and negative, for every number of milliseconds -/
theorem idiff_roundtrip (n : Nat) (hd : n / 86400000 < 2^32) :
    (idiffStrp (idiffStrf (n : Int)) (idiffStrf (n : Int)).length).1 = (n : Int) ∧
    (idiffStrp (idiffStrf (-(n : Int))) (idiffStrf (-(n : Int))).length).1 = -(n : Int) := by
  by_cases hn : n = 0
  · subst hn; decide
  · obtain ⟨f1, f2⟩ := idiffStrf_body n hn hd
    rw [f1, f2]
    have hl := durBodyF_of_length (n / 86400000) (n % 86400000 / 3600000) (n % 86400000 % 3600000 / 60000)
      (n % 86400000 % 3600000 % 60000 / 1000) (n % 86400000 % 3600000 % 60000 % 1000) (by omega)
    have b1 : n % 86400000 / 3600000 < 2^32 := by omega
    have b2 : n % 86400000 % 3600000 / 60000 < 2^32 := by omega
    have b3 : n % 86400000 % 3600000 % 60000 / 1000 < 2^32 := by omega
    have b4 : n % 86400000 % 3600000 % 60000 % 1000 < 1000 := by omega
    have p := idiffStrp_durF [] none _ _ _ _ _ POk_none (POk_nz _ hd) (POk_nz _ b1) (POk_nz _ b2)
      (POk_secsOf _ (n % 86400000 % 3600000 % 60000 % 1000) b3)
      (FOk_fracOf (n % 86400000 % 3600000 % 60000 % 1000))
      (Or.inl rfl) (by simp only [List.nil_append, List.length_cons]; omega)
    have q := idiffStrp_durF ['-'] none _ _ _ _ _ POk_none (POk_nz _ hd) (POk_nz _ b1) (POk_nz _ b2)
      (POk_secsOf _ (n % 86400000 % 3600000 % 60000 % 1000) b3)
      (FOk_fracOf (n % 86400000 % 3600000 % 60000 % 1000))
      (Or.inr (Or.inr rfl)) (by simp only [List.cons_append, List.nil_append, List.length_cons]; omega)
    simp only [List.nil_append, List.cons_append, if_true, durValF, pval_nz _ hd, pval_nz _ b1, pval_nz _ b2,
      pval_secsOf _ _ b3, fval_of _ _ b4, pval_none] at p q
    rw [if_neg (by decide)] at p
    rw [p, q]
    constructor <;> omega

/-! ### parts given as numbers, printed canonically -/

theorem POk_map_tostr (o : Option Nat) (h : ∀ v, o = some v → v < 2^32) : POk (o.map tostr) := by
  intro ds hds
  cases o with
  | none => cases hds
  | some v =>
    simp only [Option.map_some, Option.some.injEq] at hds
    subst hds
    have hv := h v rfl
    exact ⟨tostr_isDig v, by rw [tostr_val v hv]; exact hv⟩

theorem pval_map_tostr (o : Option Nat) (h : ∀ v, o = some v → v < 2^32) :
    pval (o.map tostr) = ((o.getD 0 : Nat) : Int) := by
  cases o with
  | none => rfl
  | some v => simp [pval, tostr_val v (h v rfl)]

theorem part_map_length (o : Option Nat) (c : Char) :
    (o = none ∧ part (o.map tostr) c = []) ∨ (o ≠ none ∧ 2 ≤ (part (o.map tostr) c).length) := by
  cases o with
  | none => left; exact ⟨rfl, rfl⟩
  | some v => right; have := tostr_length_pos v; simp [part]; omega

theorem tpart_length_ge (oh om os : Option (List Char)) :
    (part oh 'H').length + (part om 'M').length + (part os 'S').length ≤ (tpart oh om os).length := by
  unfold tpart
  split
  · simp; omega
  · rename_i h
    have : oh = none ∧ om = none ∧ os = none := by
      cases oh <;> cases om <;> cases os <;> simp at h ⊢
    obtain ⟨rfl, rfl, rfl⟩ := this
    simp [part]

/-- the text with a seconds part carrying a fraction, spelled out -/
theorem durBodyF_frac (ow od oh om : Option (List Char)) (ss fs : List Char) :
    durBodyF ow od oh om (some ss) (some fs) =
      part ow 'W' ++ part od 'D' ++ 'T' :: (part oh 'H' ++ part om 'M' ++ (ss ++ '.' :: fs ++ ['S'])) := by
  simp [durBodyF, tpartF, spart]

end Echse.Strpf
