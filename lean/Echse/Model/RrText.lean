/-
  Model of the rule serialiser `send_rrul()` and the rule parser `snarf_rrule()` of src/evical.c
  (with `send_cd`, `send_scale`, the SHIFT printing; `snarf_freq`, `snarf_wday`, `snarf_scale`; `pack_cd` /
  `unpack_cd` of src/evrrul.h; the keyword table src/evrrul-gp.erf).  `snarf_shift` is transcribed once more
  (`snarfShiftC`, see there); `dt_strf_ical` / `dt_strp` are `Echse.Strpf.dtStrfIcal` / `dtStrp`.

  Texts are `List Char` inside (one `Char` per byte); the two entry points take / return `String`.
  A position in the C text is the suffix that starts there; reading at or behind the end yields NUL, as on the
  NUL-terminated buffer the parser is handed (a NUL inside the text ends it for every `strchr` / `strtol` the parser
  does, so the text is cut at its first NUL on entry).  `snarf_scale` does read behind the terminating NUL (up to
  three bytes, e.g. for `SCALE=HIJRI.IA` at the end of the text); the model reads NUL there.
  Bitint parts are the lists their iterators yield; an `ass_*` call is an ordered insert without duplicates.
  The field loop `for (sp = s; sp < ep; sp = eofld + 1)` is given by the list of the values `sp` takes
  (`fieldStarts`); a rejected rule (`goto bogus`) is `bogusRule`, the all-zero struct the C code returns.
  Hand transcription, tied to the C code by the ops `r.parse` / `r.print` (harness hx_strm.c, model Driver/RrFill.lean).
-/
import Echse.Model.RrBase
import Echse.Model.Strpf
namespace Echse.RrText
open Echse.Rrule Echse.Instant Echse.Strpf

/-! ### insertion into the bitint parts -/

/-- `ass_bui31` / `ass_bui63`: the iterator yields the values ascending -/
def assU : List Nat → Nat → List Nat
  | [], x => [x]
  | v :: vs, x => if v < x then v :: assU vs x else if v = x then v :: vs else x :: v :: vs

/-- `ass_bi31` / `ass_bi63` / `ass_bi383` / `ass_bi447`: the iterator yields the non-negative values ascending,
then the negative ones descending (-1, -2, …); same order as `Echse.Bitint.assInt` -/
def assI : List Int → Int → List Int
  | [], x => [x]
  | v :: vs, x =>
    if (if x ≥ 0 then v ≥ 0 ∧ v < x else v > x) then v :: assI vs x
    else if v = x then v :: vs
    else x :: v :: vs

/-- `a` is yielded before `b` by the iterator of a signed set (the test `assI` makes) -/
def iterLt (a b : Int) : Prop := if b ≥ 0 then a ≥ 0 ∧ a < b else a > b

instance (a b : Int) : Decidable (iterLt a b) := by unfold iterLt; infer_instance

/-! ### printing -/

/-- `%u`, `%zu` -/
def fmtU (n : Nat) : List Char := Nat.toDigits 10 n
/-- `%d` -/
def fmtD (z : Int) : List Char := if z < 0 then '-' :: Nat.toDigits 10 z.natAbs else Nat.toDigits 10 z.natAbs

/-- the table `f[]` of `send_rrul` -/
def freqName (f : Nat) : List Char :=
  (["NONE", "YEARLY", "MONTHLY", "WEEKLY", "DAILY", "HOURLY", "MINUTELY", "SECONDLY"].getD f "").toList

/-- `send_scale` -/
def scaleName (sca : Nat) : List Char :=
  (["", "IA", "IC", "IIA", "IIC", "IIIA", "IIIC", "IVA", "IVC", "UMMULQURA", "DIYANET"].getD sca "").toList
def sendScale (sca : Nat) : List Char :=
  if 1 ≤ sca ∧ sca ≤ 10 then ";SCALE=HIJRI.".toList ++ scaleName sca else []

/-- the table `w[]` of `send_cd` -/
def wdayName (w : Nat) : List Char := (["MI", "MO", "TU", "WE", "TH", "FR", "SA", "SU"].getD w "").toList

/-- `send_cd(unpack_cd(v))`: `cnt = v >> 3` (arithmetic), `dow = v & 7` -/
def sendCd (v : Int) : List Char :=
  let cnt := v / 8
  let dow := (v % 8).toNat
  (if cnt ≠ 0 then fmtD cnt else []) ++ wdayName dow

/-- one `with (…) { if (!has_bits) break; v = next(); printf(";KEY=%d", v); while (v = next(), i) printf(",%d", v); }` -/
def sendPart {α : Type} (key : List Char) (fmt : α → List Char) : List α → List Char
  | [] => []
  | x :: xs => ';' :: key ++ '=' :: fmt x ++ xs.flatMap (fun y => ',' :: fmt y)

/-- the SHIFT part -/
def sendShift (sh : Int) : List Char :=
  if sh = 0 then [] else
  ";SHIFT=".toList ++
  (if shDvalue sh ≠ 0 then fmtD (shDvalue sh) else []) ++
  (if shBdayP sh then
     (if shDvalue sh ≠ 0 then [','] else []) ++
     [if shNegP sh then '-' else '+'] ++ fmtU (shAbsval sh) ++ ['B'] ++
     (if shInvP sh ∧ shAbsval sh ≠ 0 then [if shNegP sh then '-' else '+'] else [])
   else [])

/-- `send_rrul(whither, rr, ccnt, exc)` as a byte list -/
def sendRrulL (r : Rule) (ccnt : Nat) (exc : Bool) : List Char :=
  (if exc then "EXRULE:".toList else "RRULE:".toList) ++ "FREQ=".toList ++ freqName r.freq ++
  (if r.inter > 1 then ";INTERVAL=".toList ++ fmtU r.inter else []) ++
  sendScale r.scale ++
  sendPart "BYMONTH".toList fmtU r.mon ++
  sendPart "BYWEEKNO".toList fmtD r.wk ++
  sendPart "BYYEARDAY".toList fmtD r.doy ++
  sendPart "BYMONTHDAY".toList fmtD r.dom ++
  sendPart "BYEASTER".toList fmtD r.easter ++
  sendPart "BYDAY".toList sendCd r.dow ++
  sendPart "BYHOUR".toList fmtU r.H ++
  sendPart "BYMINUTE".toList fmtU r.M ++
  sendPart "BYSECOND".toList fmtU r.S ++
  sendPart "BYPOS".toList fmtD r.pos ++
  sendShift r.shift ++
  -- `rr->count + ccnt` is computed in `size_t`
  (if r.count ≥ 0 then ";COUNT=".toList ++ fmtU ((r.count.toNat + ccnt) % 2^64) else []) ++
  (if r.untl.pack < 2^64 - 1 then ";UNTIL=".toList ++ dtStrfIcal r.untl else []) ++
  ['\n']

/-- the bytes `send_rrul` writes, including the trailing newline -/
def sendRrul (r : Rule) (ccnt : Nat) (exc : Bool) : String := String.ofList (sendRrulL r ccnt exc)

/-! ### parsing: numbers -/

/-- `strtol(s, &on, 10)` into a `long`: `Echse.Rrule.strtol` with the clamp to LONG_MIN..LONG_MAX -/
def strtolC (s : List Char) : Int × List Char :=
  let (v, on) := strtol s
  ((if v > 2^63 - 1 then 2^63 - 1 else if v < -(2^63) then -(2^63) else v), on)

/-- `strtoul(s, &on, 10)`: a minus sign negates modulo 2^64, a magnitude beyond ULONG_MAX yields ULONG_MAX -/
def strtoulC (s : List Char) : Nat × List Char :=
  let (v, on) := strtol s
  ((if v.natAbs ≥ 2^64 then 2^64 - 1 else if v < 0 then 2^64 - v.natAbs else v.natAbs), on)

/-! ### parsing: the small readers -/

/-- `snarf_freq`: `strncmp` against the names, i.e. a prefix test -/
def snarfFreq (spec : List Char) : Nat :=
  match chr spec 0 with
  | 'Y' => if "YEARLY".toList.isPrefixOf spec then 1 else 0
  | 'M' => if "MINUTELY".toList.isPrefixOf spec then 6 else if "MONTHLY".toList.isPrefixOf spec then 2 else 0
  | 'W' => if "WEEKLY".toList.isPrefixOf spec then 3 else 0
  | 'D' => if "DAILY".toList.isPrefixOf spec then 4 else 0
  | 'H' => if "HOURLY".toList.isPrefixOf spec then 5 else 0
  | 'S' => if "SECONDLY".toList.isPrefixOf spec then 7 else 0
  | _ => 0

/-- `snarf_wday`: MIR 0, MON 1 … SUN 7 -/
def snarfWday (s : List Char) : Nat :=
  match chr s 0 with
  | 'M' => 1
  | 'W' => 3
  | 'F' => 5
  | 'R' => 4
  | 'A' => 6
  | 'T' => if chr s 1 = 'H' then 4 else 2
  | 'S' => if chr s 1 = 'A' then 6 else 7
  | _ => 0

/-- `snarf_scale`; `kp` is an index into `spec` -/
def snarfScale (spec : List Char) : Nat :=
  if chr spec 0 = 'H' then
    if chr spec 5 = '.' then
      if chr spec 6 = 'D' then 10
      else if chr spec 6 = 'I' then
        -- I, II, III or IV (`typ` 0..3), then A or C
        let (typ, kp) : Nat × Nat :=
          if chr spec 7 = 'V' then (3, 8)
          else if chr spec 7 = 'I' then (if chr spec 8 = 'I' then (2, 9) else (1, 8))
          else (0, 7)
        1 + 2 * typ + (if chr spec kp = 'C' then 1 else 0)
      else 9
    else 9
  else 0

/-! ### parsing: the value lists -/

/-- BYMONTH / BYHOUR / BYMINUTE / BYSECOND: `do { tmu = strtoul(++kv, &on, 10); … } while (on && *(kv = on) == ',')`;
`s` is the text at `++kv`, `ok` the range test of the key -/
def ulistLoop (ok : Nat → Bool) : Nat → List Char → List Nat → List Nat
  | 0, _, acc => acc
  | fuel+1, s, acc =>
    let (tmu, on) := strtoulC s
    let acc := if ok tmu then assU acc tmu else acc
    match on with
    | ',' :: r => ulistLoop ok fuel r acc
    | _ => acc

/-- BYMONTHDAY / BYWEEKNO / BYYEARDAY / BYSETPOS (`nz`: zero is skipped by `continue`) and BYEASTER -/
def ilistLoop (nz : Bool) (lim : Int) : Nat → List Char → List Int → List Int
  | 0, _, acc => acc
  | fuel+1, s, acc =>
    let (tmp, on) := strtolC s
    let acc := if (nz && tmp == 0) then acc else if tmp ≤ lim ∧ tmp ≥ -lim then assI acc tmp else acc
    match on with
    | ',' :: r => ilistLoop nz lim fuel r acc
    | _ => acc

/-- BYDAY: ordinal, weekday name, then on to the next comma wherever it is (`strchr(on, ',')`) -/
def bydayLoop : Nat → List Char → List Int → List Int
  | 0, _, acc => acc
  | fuel+1, s, acc =>
    let (tmp, on) := strtolC s
    let w := snarfWday on
    -- `pack_cd`: `(cnt << 3) | dow`
    let acc := if w ≠ 0 ∧ tmp ≥ -53 ∧ tmp ≤ 53 then assI acc (tmp * 8 + (w : Int)) else acc
    match on.dropWhile (· ≠ ',') with
    | _ :: r => bydayLoop fuel r acc
    | [] => acc

/-! ### parsing: SHIFT

`snarf_shift` once more: `Echse.Rrule.snarfShiftGo` reads the numerals with an unbounded `strtol` and sums them in
unbounded integers, which is the C function as long as every numeral and every sum fits an `int`.  Here the
numerals are clamped to `long` and `b += tmp`, `d += tmp` wrap into `int`, so that the parser model is exact on
every text.  The final range test and packing is `Echse.Rrule.packShift`. -/

/-- `(int)(x)` -/
def wrapInt (z : Int) : Int := toS32 (toU32 z)

def snarfShiftGoC : Nat → List Char → Nat → Int → Int → Int
  | 0, _, _, _, _ => 0
  | fuel+1, spec, sem, b, d =>
    let (tmp, rest) := strtolC spec
    -- a part out of range is refused before it is summed up
    if tmp > 366 ∨ tmp < -366 then 0 else
    let neg0 : Bool := spec.head? = some '-'
    match rest with
    | [] => packShift (wrapInt (d + tmp)) b sem
    | c :: rest' =>
      if c = 'b' ∨ c = 'B' then
        let rec again (fuel : Nat) (r : List Char) (sem : Nat) (neg : Bool) : Option (List Char × Nat × Bool × Bool) :=
          match fuel with
          | 0 => none
          | fuel+1 =>
            match r with
            | [] => some ([], sem, neg, false)                 -- NUL
            | ';' :: r' => some (r', sem, neg, false)
            | '+' :: r' => again fuel r' (sem ||| ((if tmp ≥ 0 then 1 else 0) <<< 1)) neg
            | '-' :: r' => again fuel r' (sem ||| ((if tmp < 0 then 1 else 0) <<< 1)) (neg || tmp == 0)
            | ',' :: r' => some (r', sem, neg, true)
            | _ => none
        match again (rest'.length + 1) rest' sem neg0 with
        | none => 0
        | some (r, sem, neg, more) =>
          let b := wrapInt (b + tmp)
          if more then snarfShiftGoC fuel r sem b d
          else
            let sem := sem ||| (if b < 0 ∨ (b = 0 ∧ neg) then 1 else 0)
            let sem := sem ||| ((if b = 0 then 1 else 0) <<< 1)
            let b := if b ≥ 0 then b else -b
            packShift d b sem
      else if c = ',' then snarfShiftGoC fuel rest' sem b (wrapInt (d + tmp))
      else if c = ';' then packShift (wrapInt (d + tmp)) b sem
      else 0

/-- `snarf_shift(spec)` -/
def snarfShiftC (spec : List Char) : Int := snarfShiftGoC (spec.length + 2) spec 0 0 0

/-! ### parsing: the fields -/

/-- `rrul_key_t` as far as `snarf_rrule` tells the keys apart (WKST is in the table, but has no `case`) -/
inductive Key where
  | freq | untl | count | inter | wkst | scale | shift
  | sec | min | hour | wday | mday | yday | week | mon | pos | easter | unk
deriving DecidableEq, Repr

/-- `__evrrul_key(sp, kz)`: exact, case-sensitive lookup in src/evrrul-gp.erf -/
def keyOf (k : List Char) : Key :=
  if k = "FREQ".toList then .freq else if k = "UNTIL".toList then .untl
  else if k = "COUNT".toList then .count else if k = "INTERVAL".toList then .inter
  else if k = "WKST".toList then .wkst else if k = "SCALE".toList then .scale
  else if k = "SHIFT".toList then .shift else if k = "BYSECOND".toList then .sec
  else if k = "BYMINUTE".toList then .min else if k = "BYHOUR".toList then .hour
  else if k = "BYDAY".toList then .wday else if k = "BYMONTHDAY".toList then .mday
  else if k = "BYYEARDAY".toList then .yday else if k = "BYWEEKNO".toList then .week
  else if k = "BYMONTH".toList then .mon else if k = "BYSETPOS".toList then .pos
  else if k = "BYPOS".toList then .pos else if k = "BYEASTER".toList then .easter
  else .unk

/-- the rule `goto bogus` returns: `(struct rrulsp_s){FREQ_NONE}`, every member zero -/
def bogusRule : Rule := { freq := 0, count := 0, inter := 0, untl := Inst.unpack 0 }

/-- the `switch (c->key)` of `snarf_rrule`; `v` is the text at `++kv` (it runs to the end of the whole rule text,
not just to the end of the field); `none` = `goto bogus` -/
def keyStep (k : Key) (v : List Char) (r : Rule) : Option Rule :=
  let fuel := v.length + 1
  match k with
  | .freq => some { r with freq := snarfFreq v }
  | .count =>
    let tmp := (strtolC v).1                       -- `atol`
    if tmp ≤ 0 ∨ tmp > 2147483647 then none else some { r with count := tmp }
  | .inter =>
    let tmp := (strtolC v).1
    if tmp ≤ 0 ∨ tmp > 2147483647 then none else some { r with inter := tmp.toNat }
  | .untl =>
    some { r with untl := match dtStrp v 0 with
                          | some (i, _) => i
                          | none => Inst.unpack 0 }  -- the nul instant
  | .scale => some { r with scale := snarfScale v }
  | .shift => some { r with shift := snarfShiftC v }
  | .wday => some { r with dow := bydayLoop fuel v r.dow }
  | .mon => some { r with mon := ulistLoop (fun x => x ≠ 0 ∧ x ≤ 12) fuel v r.mon }
  | .hour => some { r with H := ulistLoop (fun x => x < 24) fuel v r.H }
  | .min => some { r with M := ulistLoop (fun x => x < 60) fuel v r.M }
  | .sec => some { r with S := ulistLoop (fun x => x < 60) fuel v r.S }
  | .mday => some { r with dom := ilistLoop true 31 fuel v r.dom }
  | .week => some { r with wk := ilistLoop true 53 fuel v r.wk }
  | .yday => some { r with doy := ilistLoop true 366 fuel v r.doy }
  | .pos => some { r with pos := ilistLoop true 366 fuel v r.pos }
  | .easter => some { r with easter := ilistLoop false 366 fuel v r.easter }
  | .wkst => some r
  | .unk => some r

/-- one round of the `for (sp = s; sp < ep; sp = eofld + 1)` loop, `sp` given as the suffix of the text:
`eofld = strchr(sp, ';') ?: ep`, `kv = strchr(sp, '=')`; no `=` before `eofld`: `continue` -/
def fieldStep (r : Rule) (sp : List Char) : Option Rule :=
  let fld := sp.takeWhile (· ≠ ';')
  if fld.all (· ≠ '=') then some r else
  let key := fld.takeWhile (· ≠ '=')
  let v := (sp.dropWhile (· ≠ '=')).drop 1
  keyStep (keyOf key) v r

/-- the values `sp` takes behind the first field: the suffixes behind every `;` -/
def afterSemis : List Char → List (List Char)
  | [] => []
  | c :: cs => if c = ';' then cs :: afterSemis cs else afterSemis cs

/-- all values of `sp` with `sp < ep` -/
def fieldStarts (s : List Char) : List (List Char) := (s :: afterSemis s).filter (· ≠ [])

/-- `snarf_rrule(s, z)` on a byte list -/
def snarfRruleL (s0 : List Char) : Rule :=
  let s := s0.takeWhile (· ≠ '\x00')
  match (fieldStarts s).foldlM fieldStep ({} : Rule) with
  | some r => r
  | none => bogusRule

/-- `snarf_rrule` on the text behind `RRULE:` (no newline) -/
def snarfRrule (s : String) : Rule := snarfRruleL s.toList

/-- what the reader of a serialised rule hands to `snarf_rrule`: the line without `RRULE:` / `EXRULE:` (up to and
including the first colon) and without the final newline -/
def ruleBody (line : String) : String :=
  String.ofList (((line.toList.dropWhile (· ≠ ':')).drop 1).dropLast)

end Echse.RrText
