"""C10 — iCalendar parsing is independent of how the bytes arrive.

The real push parser (evical.c #included into harness hx_strm with the ECHSE_VERIF hook enabled) is fed generated
calendars under many chunkings with the callers' protocol (push, pull until the verb is unknown, one last pull).
Oracle: every chunking of an input yields the same instruction dump (verb, every task field, first occurrences) as the
single-chunk run; no input crashes, overruns (ASan) or loops.  Correspondence: Echse.Model.Ical on the unfolded lines
the parser acts upon and the verb/UID sequence.
"""
import collections
import re

from . import common
from . import p_strm
from .p_echsd import stamp, T0

FIELDS = ["SUMMARY:echo hello world", "DESCRIPTION:some text; with, punctuation", "X-ECHS-SHELL:/bin/sh", "LOCATION:/tmp",
          "X-ECHS-IFILE:/dev/null", "X-ECHS-OFILE:/tmp/out", "X-ECHS-EFILE:/tmp/err", "X-ECHS-MAIL-OUT:1", "X-ECHS-MAIL-ERR:0",
          "X-ECHS-MAIL-RUN:1", "X-ECHS-MAX-SIMUL:2", "X-ECHS-UMASK:027", "X-ECHS-SETUID:1001", "X-ECHS-SETGID:1001",
          "ORGANIZER:echse", "ATTENDEE:root", "ATTENDEE:ops@example.com", "X-UNKNOWN-PROP;PARAM=1:whatever", "DURATION:PT5M",
          "STATUS:CONFIRMED", "CATEGORIES:a,b,c", "DTSTAMP:20200101T000000Z"]
RULES = ["RRULE:FREQ=DAILY;COUNT=5", "RRULE:FREQ=WEEKLY;BYDAY=MO,WE,FR;COUNT=6", "RRULE:FREQ=MONTHLY;BYMONTHDAY=1,15;COUNT=4",
         "RRULE:FREQ=YEARLY;BYMONTH=3;BYDAY=-1SU;COUNT=3", "RRULE:FREQ=HOURLY;INTERVAL=6;COUNT=5",
         "RDATE:20300301T000000Z,20300401T000000Z", "EXDATE:20300102T000010Z"]


def fold(rng, line, nl):
    """fold a content line at random positions (RFC 5545: CRLF followed by one SP or TAB)"""
    if len(line) < 12 or rng.random() < 0.5:
        return line
    out, i = "", 0
    while i < len(line):
        k = rng.randint(4, 40)
        out += line[i:i + k]
        i += k
        if i < len(line):
            out += nl + rng.choice(" \t")
    return out


def gen_calendar(rng, tidy=True):
    nl = rng.choice(["\n", "\r\n"])
    lines = ["BEGIN:VCALENDAR", "VERSION:2.0", "PRODID:-//x//y//EN"]
    meth = rng.choice(["PUBLISH", "PUBLISH", "REQUEST", None, "CANCEL", "REPLY", "ADD", "REFRESH", "COUNTER", "BOGUS"])
    if meth:
        lines.append("METHOD:%s" % meth)
    if rng.random() < 0.3:
        lines += ["X-ECHS-MAX-SIMUL:1", "X-ECHS-OWNER:1001", "X-ECHS-UMASK:077"][:rng.randint(1, 3)]
    if rng.random() < 0.2:
        lines += ["BEGIN:VTIMEZONE", "TZID:Europe/Berlin", "BEGIN:STANDARD", "DTSTART:19701025T030000", "END:STANDARD", "END:VTIMEZONE"]
    for k in range(rng.choice([1, 1, 2, 3, 5])):
        comp = rng.choice(["VEVENT", "VEVENT", "VEVENT", "VTODO"])
        ev = ["BEGIN:%s" % comp, "UID:u%d-%d" % (k, rng.randint(0, 999))]
        if comp == "VEVENT" or rng.random() < 0.5:
            ev.append("DTSTART:%s" % stamp(T0 + 10 + k))
        body = rng.sample(FIELDS, rng.randint(1, 8)) + rng.sample(RULES, rng.randint(0, 2))
        if meth == "REPLY":
            body.append("REQUEST-STATUS:%s" % rng.choice(["2.0;Success", "5.1;Service unavailable", "3.1;Invalid property value"]))
        if rng.random() < 0.15:
            body.append("SUMMARY:" + "x" * rng.choice([200, 600, 900]))            # long but within the stash
        if rng.random() < 0.15:
            ev += ["BEGIN:VALARM", "ACTION:DISPLAY", "TRIGGER:-PT5M", "END:VALARM"]
        rng.shuffle(body)
        ev += body + ["END:%s" % comp]
        lines += ev
    lines.append("END:VCALENDAR")
    text = nl.join(fold(rng, l, nl) for l in lines) + nl
    cls = set()
    if not tidy:
        r = rng.random()
        if r < 0.3:
            text = text.replace("echo hello", "echo a\\nb \\; c\\, d \\\\ e", 1).replace("some text", "so\\me te\\xt", 1)
            cls.add("backslash")
        elif r < 0.5:
            text = text + gen_calendar(rng, True)[0]
            cls.add("after-end")
        elif r < 0.65:
            text = text.replace("SUMMARY:", "SUMMARY:" + "y" * rng.choice([1020, 1024, 1500, 3000]), 1)
            cls.add("long-line")
        elif r < 0.8:
            if rng.random() < 0.5:
                text = text.replace(nl, nl + nl, rng.randint(1, 3))
            else:
                # an empty line that is continued: the fold's newline belongs to a line with nothing on it
                k = rng.randint(1, max(1, text.count(nl) - 1))
                parts = text.split(nl)
                parts[k:k] = ["" if rng.random() < 0.7 else rng.choice([" ", "\t"])]
                parts[k + 1] = rng.choice([" ", "\t"]) + parts[k + 1]
                text = nl.join(parts)
            cls.add("empty-line")
        elif r < 0.9:
            text = text[:rng.randint(1, len(text) - 1)]
            cls.add("truncated")
        else:
            b = bytearray(text.encode())
            for _ in range(rng.randint(1, 12)):
                b[rng.randrange(len(b))] = rng.randrange(1, 256)
            text = b.decode("latin-1")
            cls.add("garbage")
    if "\\" in text:
        cls.add("backslash")
    return text, cls


def chunkings(rng, n, thorough):
    out = [[], [1] * n, [7] * (n // 7 + 1), [64] * (n // 64 + 1), [4096]]
    cuts = range(1, n) if (thorough and n <= 600) else sorted(rng.sample(range(1, n), min(n - 1, 25))) if n > 1 else []
    out += [[c] for c in cuts]
    for _ in range(6 if thorough else 3):
        sizes, tot = [], 0
        while tot < n:
            k = rng.choice([1, 2, 3, 5, 17, 50, 200])
            sizes.append(k); tot += k
        out.append(sizes)
    return out


def canon(ans):
    return ans.partition(" # ")[0]


def run(ctx):
    exe = p_strm.build(ctx)
    rng = ctx.rng
    thorough = ctx.tier == "thorough"
    ninputs = 400 if thorough else 60
    inputs = []
    for i in range(ninputs):
        tidy = i % 3 != 2
        text, cls = gen_calendar(rng, tidy)
        if tidy and rng.random() < 0.25:
            text += gen_calendar(rng, True)[0]          # several calendars in one stream
        inputs.append((text, cls))
    for l in common.load_corpus("C10"):
        t = bytes.fromhex(l).decode("latin-1")
        inputs.append((t, {"corpus"} | ({"backslash"} if "\\" in t else set())))
    ops, meta = [], []
    for idx, (text, cls) in enumerate(inputs):
        h = text.encode("latin-1").hex()
        for ch in chunkings(rng, len(text), thorough):
            ops.append("p.lines %s | %s" % (h, " ".join(map(str, ch))))
            meta.append(idx)
    impl, st, err = ctx.impl(exe, ops, timeout=3600)
    model = ctx.model(ops)
    # oracle: all chunkings of an input agree with its first (single chunk) answer
    first = {}
    fails, known = [], collections.Counter()
    for i, idx in enumerate(meta):
        a = canon(impl[i]) if i < len(impl) else "<no answer>"
        if a.startswith("<crash") or a.startswith("<timeout") or a == "<no answer>":
            fails.append((i, "the parser %s on input %d (%r…) fed as %s" % (a[:120], idx, inputs[idx][0][:40], ops[i].split("|")[1][:40])))
            continue
        if idx not in first:
            first[idx] = (i, a)
            continue
        if a != first[idx][1]:
            cls = inputs[idx][1]
            kf = cls & {"backslash", "long-line"} if not (cls & {"after-end", "truncated", "garbage"}) else cls & {"backslash", "after-end", "long-line", "truncated", "garbage"}
            if kf:
                for k in kf:
                    known[k] += 1
            else:
                fails.append((i, "input %d parses differently when fed as [%s]: %s  versus (whole) %s" % (
                    idx, ops[i].split("|")[1].strip()[:40], a[:300], first[idx][1][:300])))
    # correspondence: verb:uid sequence and the log of lines
    def verbs(x):
        x = re.sub(r"([SL]+)\{uid=([^|}]*)[^}]*\}", lambda m: m.group(1)[0] + ":" + m.group(2), canon(x))
        return re.sub(r"([UR])\{([^}]*)\}", r"\1:\2", x)
    impl_c = [verbs(x) + " # " + x.partition(" # ")[2] for x in impl]
    corr = common.diff_lines(ops, impl_c, model)
    kl = common.load_known("C10")
    for k in kl:
        if k.get("status") == "known" and known.get(k.get("class"), 0):
            ctx.known(k["what"])
    unlisted = [c for c in known if c not in {k.get("class") for k in kl if k.get("status") == "known"}]
    if unlisted and not fails:
        i0 = next(i for i, idx in enumerate(meta) if inputs[idx][1] & set(unlisted) and idx in first and canon(impl[i]) != first[idx][1])
        fails.append((i0, "chunk-dependent parse of an input of class %s (not a recorded finding)" % unlisted))
    ctx.cov.update({
        "evaluations": len(ops),
        "distinct_nontrivial": len(set(ops)),
        "traces_validated_against_impl": len(ops) - len(corr),
        "rule": "generated calendars (1-5 VEVENT/VTODO, 1-8 properties each from the full field list, rules, folds with SP/TAB, LF or "
                "CRLF, nested VALARM/VTIMEZONE, calendar-level defaults, METHOD variants, values up to 900 bytes); a third of them "
                "malformed (backslash escapes, a second calendar behind the first, lines beyond the 1 KiB stash, empty lines, "
                "truncation, random byte damage); each fed whole, byte-wise, in 7/64/4096-byte pieces, split in two at "
                + ("every position" if thorough else "25 sampled positions") + " and in random pieces; non-trivial = every run; "
                "distinct = distinct (input, chunking)",
        "samples": [ops[i][:90] + " … | " + ops[i].split("|")[1][:40] + "  =>  " + canon(impl[i])[:120] for i in
                    sorted(rng.sample(range(len(ops)), min(4, len(ops))))],
        "inputs": len(inputs),
        "chunk_dependent_runs_in_known_classes": dict(known),
        "harness_status": st,
        "impl_vs_spec_failures": len(fails),
        "impl_vs_model_differences": len(corr),
        "exhaustive": False,
    })
    ctx.assumptions += ["the callers' protocol: after each push pull until the verb is unknown, one last pull at the end; a pushed buffer "
                        "stays valid until the next push", "what a property line means (field parsing) is compared through the task dump, "
                        "the Lean model covers the byte/line/component layers"]
    if st != "ok" and not fails and not corr:
        ctx.violation("correspondence", "harness ended with %s: %s" % (st, err[-600:]), {"stderr": err}, found_input=False)
    if fails:
        i, why = fails[0]
        ctx.violation("property", why, {"op": ops[i], "impl": impl[i] if i < len(impl) else None, "model": model[i],
                                        "failures_total": len(fails)})
    elif corr:
        i, op, a, b = corr[0]
        ctx.violation("correspondence", "implementation and model act on different unfolded lines in %d runs although all chunkings agree; first: %s"
                      % (len(corr), op[:120]), {"correspondence": "Echse.Model.Ical vs evical.c (_ical_pull, esccpy, _ical_proc)", "op": op,
                                                 "impl": a, "model": b}, found_input=False)


def replay(ctx, rep):
    exe = p_strm.build(ctx)
    op = rep["data"].get("op")
    if not op:
        print("replay names no input: %s" % rep.get("what"))
        return 1
    whole = op.split("|")[0] + "|"
    out, st, _ = ctx.impl(exe, [op, whole])
    print("chunked: %s\nwhole  : %s" % (canon(out[0])[:400], canon(out[1])[:400] if len(out) > 1 else st))
    return 0 if len(out) > 1 and canon(out[0]) == canon(out[1]) else 1
