/- stub: transcription of rrul_fill_Dly pending -/
import Echse.Model.RrBase
namespace Echse.Rrule
open Echse.Instant

/-- `none` = not modelled yet -/
def fillDly (_r : Rule) (_proto : Inst) (_nti : Nat) : Option (List Inst) := none

end Echse.Rrule
